(* Property C06 — wire representations survive emit-then-parse unchanged: second wave, group
   "v6opts": IPv6 extension-header options (ipv6option.rs), Hop-by-Hop options header
   (ipv6hbh.rs), Routing header (ipv6routing.rs).  Same shape as Props/C06b.v: only the property
   theorems (each closed by [exact]) and [Print Assumptions]; statements pinned in
   Pins/C06b_v6opts.v.  For every format F:
     F_emit_no_panic           wf r -> |b| = buffer_len r -> emit r b <> Panic
     F_emit_ignores_old_bytes  emit r b1 = emit r b2 for buffers of the declared length
     F_roundtrip               parse (emit r b) = Ok r
     F_reparse                 parse bs = Ok r -> wf r /\ parse (emit r b) = Ok r
   [wf] is the format's precise reading of the proviso "its variable-length parts fit what the
   protocol permits" (justified clause by clause in Model/Wire<F>.v). *)
From SV Require Import Lib.Base Gen.Consts Gen.WireFields Model.WireBase Proofs.WireBaseProofs.
From SV Require Import Model.WireIpv6Opt Proofs.WireIpv6OptProofs.

(* ---------------- IPv6 extension-header option (src/wire/ipv6option.rs) ----------------
   Built without proto-rpl: Type::Rpl options are Repr::Unknown. *)

Theorem C06_v6opt_emit_no_panic : forall r b,
  v6opt_wf r = true -> blen b = v6opt_buffer_len r -> v6opt_emit r b <> Panic.
Proof. exact v6opt_emit_no_panic. Qed.
Print Assumptions C06_v6opt_emit_no_panic.

Theorem C06_v6opt_emit_ignores_old_bytes : forall r b1 b2,
  v6opt_wf r = true -> blen b1 = v6opt_buffer_len r -> blen b2 = v6opt_buffer_len r ->
  v6opt_emit r b1 = v6opt_emit r b2.
Proof. exact v6opt_emit_ignores_old_bytes. Qed.
Print Assumptions C06_v6opt_emit_ignores_old_bytes.

(* the last conjunct: the emitted option also parses back when further options follow it *)
Theorem C06_v6opt_roundtrip : forall r b,
  v6opt_wf r = true -> blen b = v6opt_buffer_len r ->
  exists bs, v6opt_emit r b = Ok bs /\ blen bs = v6opt_buffer_len r /\ v6opt_parse bs = Ok r /\
             forall rest, v6opt_parse (bs ++ rest) = Ok r.
Proof. exact v6opt_roundtrip. Qed.
Print Assumptions C06_v6opt_roundtrip.

Theorem C06_v6opt_reparse : forall bs r,
  bytes_ok bs = true -> v6opt_parse bs = Ok r ->
  v6opt_wf r = true /\
  forall b, blen b = v6opt_buffer_len r ->
    exists bs', v6opt_emit r b = Ok bs' /\ v6opt_parse bs' = Ok r.
Proof. exact v6opt_reparse. Qed.
Print Assumptions C06_v6opt_reparse.

(* Ipv6OptionsIterator over options emitted back to back yields exactly these options *)
Theorem C06_v6opt_iter_bytes : forall opts,
  forallb v6opt_wf opts = true -> v6opt_iter (v6opt_bytes_list opts) = map Ok opts.
Proof. exact v6opt_iter_bytes. Qed.
Print Assumptions C06_v6opt_iter_bytes.
