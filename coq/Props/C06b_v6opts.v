(* Property C06 — wire representations survive emit-then-parse unchanged: second wave, group
   "v6opts": IPv6 extension-header options (ipv6option.rs), Hop-by-Hop options header
   (ipv6hbh.rs), Routing header (ipv6routing.rs).  Same shape as Props/C06b.v: only the property
   theorems (each closed by [exact]) and [Print Assumptions]; statements pinned in
   Pins/C06b_v6opts.v.  For every format F:
     F_emit_no_panic           wf r -> |b| = buffer_len r -> emit r b <> Panic
     F_emit_ignores_old_bytes  emit r b1 = emit r b2 for buffers of the declared length
     F_roundtrip               parse (emit r b) = Ok r
     F_reparse                 parse bs = Ok r -> wf r /\ parse (emit r b) = Ok r
   [wf] is the format's precise reading of the proviso "its variable-length parts fit what the
   protocol permits" (justified clause by clause in Model/Wire<F>.v). *)
From SV Require Import Lib.Base Gen.Consts Gen.WireFields Model.WireBase Proofs.WireBaseProofs.
From SV Require Import Model.WireIpv6Opt Proofs.WireIpv6OptProofs.
From SV Require Import Model.WireIpv6Hbh Proofs.WireIpv6HbhProofs.
From SV Require Import Model.WireIpv6Routing Proofs.WireIpv6RoutingProofs.

(* ---------------- IPv6 extension-header option (src/wire/ipv6option.rs) ----------------
   Built without proto-rpl: Type::Rpl options are Repr::Unknown. *)

Theorem C06_v6opt_emit_no_panic : forall r b,
  v6opt_wf r = true -> blen b = v6opt_buffer_len r -> v6opt_emit r b <> Panic.
Proof. exact v6opt_emit_no_panic. Qed.
Print Assumptions C06_v6opt_emit_no_panic.

Theorem C06_v6opt_emit_ignores_old_bytes : forall r b1 b2,
  v6opt_wf r = true -> blen b1 = v6opt_buffer_len r -> blen b2 = v6opt_buffer_len r ->
  v6opt_emit r b1 = v6opt_emit r b2.
Proof. exact v6opt_emit_ignores_old_bytes. Qed.
Print Assumptions C06_v6opt_emit_ignores_old_bytes.

(* the last conjunct: the emitted option also parses back when further options follow it *)
Theorem C06_v6opt_roundtrip : forall r b,
  v6opt_wf r = true -> blen b = v6opt_buffer_len r ->
  exists bs, v6opt_emit r b = Ok bs /\ blen bs = v6opt_buffer_len r /\ v6opt_parse bs = Ok r /\
             forall rest, v6opt_parse (bs ++ rest) = Ok r.
Proof. exact v6opt_roundtrip. Qed.
Print Assumptions C06_v6opt_roundtrip.

Theorem C06_v6opt_reparse : forall bs r,
  bytes_ok bs = true -> v6opt_parse bs = Ok r ->
  v6opt_wf r = true /\
  forall b, blen b = v6opt_buffer_len r ->
    exists bs', v6opt_emit r b = Ok bs' /\ v6opt_parse bs' = Ok r.
Proof. exact v6opt_reparse. Qed.
Print Assumptions C06_v6opt_reparse.

(* Ipv6OptionsIterator over options emitted back to back yields exactly these options *)
Theorem C06_v6opt_iter_bytes : forall opts,
  forallb v6opt_wf opts = true -> v6opt_iter (v6opt_bytes_list opts) = map Ok opts.
Proof. exact v6opt_iter_bytes. Qed.
Print Assumptions C06_v6opt_iter_bytes.

(* ---------------- Hop-by-Hop options header (src/wire/ipv6hbh.rs) ----------------
   The header is the option area of a generic extension header (Props/C06b.v: v6ext); the repr is
   a heapless::Vec of at most cfg_IPV6_HBH_MAX_OPTIONS options. *)

Theorem C06_v6hbh_emit_no_panic : forall r b,
  v6hbh_wf r = true -> blen b = v6hbh_buffer_len r -> v6hbh_emit r b <> Panic.
Proof. exact v6hbh_emit_no_panic. Qed.
Print Assumptions C06_v6hbh_emit_no_panic.

Theorem C06_v6hbh_emit_ignores_old_bytes : forall r b1 b2,
  v6hbh_wf r = true -> blen b1 = v6hbh_buffer_len r -> blen b2 = v6hbh_buffer_len r ->
  v6hbh_emit r b1 = v6hbh_emit r b2.
Proof. exact v6hbh_emit_ignores_old_bytes. Qed.
Print Assumptions C06_v6hbh_emit_ignores_old_bytes.

Theorem C06_v6hbh_roundtrip : forall r b,
  v6hbh_wf r = true -> blen b = v6hbh_buffer_len r ->
  exists bs, v6hbh_emit r b = Ok bs /\ blen bs = v6hbh_buffer_len r /\ v6hbh_parse bs = Ok r.
Proof. exact v6hbh_roundtrip. Qed.
Print Assumptions C06_v6hbh_roundtrip.

Theorem C06_v6hbh_reparse : forall bs r,
  bytes_ok bs = true -> v6hbh_parse bs = Ok r ->
  v6hbh_wf r = true /\
  forall b, blen b = v6hbh_buffer_len r ->
    exists bs', v6hbh_emit r b = Ok bs' /\ v6hbh_parse bs' = Ok r.
Proof. exact v6hbh_reparse. Qed.
Print Assumptions C06_v6hbh_reparse.

(* the constructors used by the interface stay inside the proviso *)
Theorem C06_v6hbh_mldv2_router_alert_ok :
  v6hbh_mldv2_router_alert = Ok (mkV6Hbh [V6OptRouterAlert 0]) /\ v6hbh_wf (mkV6Hbh [V6OptRouterAlert 0]) = true.
Proof. exact v6hbh_mldv2_router_alert_ok. Qed.
Print Assumptions C06_v6hbh_mldv2_router_alert_ok.

Theorem C06_v6hbh_push_padn_option_ok : forall r n,
  v6hbh_wf r = true -> is_u8 n = true ->
  Z.of_nat (length (v6hbh_opts r)) < cfg_IPV6_HBH_MAX_OPTIONS ->
  exists r', v6hbh_push_padn_option r n = Ok r' /\ v6hbh_wf r' = true /\
             v6hbh_buffer_len r' = v6hbh_buffer_len r + (n + 2).
Proof. exact v6hbh_push_padn_option_ok. Qed.
Print Assumptions C06_v6hbh_push_padn_option_ok.

(* ---------------- Routing header (src/wire/ipv6routing.rs) ----------------
   The header is the payload of a generic extension header (fields count from the octet after
   the length octet); Repr = Type2 { segments_left, home_address } | Rpl { segments_left, cmpr_i,
   cmpr_e, pad, addresses }. *)

Theorem C06_v6rt_emit_no_panic : forall r b,
  v6rt_wf r = true -> blen b = v6rt_buffer_len r -> v6rt_emit r b <> Panic.
Proof. exact v6rt_emit_no_panic. Qed.
Print Assumptions C06_v6rt_emit_no_panic.

Theorem C06_v6rt_emit_ignores_old_bytes : forall r b1 b2,
  v6rt_wf r = true -> blen b1 = v6rt_buffer_len r -> blen b2 = v6rt_buffer_len r ->
  v6rt_emit r b1 = v6rt_emit r b2.
Proof. exact v6rt_emit_ignores_old_bytes. Qed.
Print Assumptions C06_v6rt_emit_ignores_old_bytes.

Theorem C06_v6rt_roundtrip : forall r b,
  v6rt_wf r = true -> blen b = v6rt_buffer_len r ->
  exists bs, v6rt_emit r b = Ok bs /\ blen bs = v6rt_buffer_len r /\ v6rt_parse bs = Ok r.
Proof. exact v6rt_roundtrip. Qed.
Print Assumptions C06_v6rt_roundtrip.

Theorem C06_v6rt_reparse : forall bs r,
  bytes_ok bs = true -> v6rt_parse bs = Ok r ->
  v6rt_wf r = true /\
  forall b, blen b = v6rt_buffer_len r ->
    exists bs', v6rt_emit r b = Ok bs' /\ v6rt_parse bs' = Ok r.
Proof. exact v6rt_reparse. Qed.
Print Assumptions C06_v6rt_reparse.
