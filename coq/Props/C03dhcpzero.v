(* Property C03, egress loop, DHCPv4 sockets: why no loop theorem is stated for them without a premise on the
   retry configuration.  Only `exact` proofs; Proofs/DhcpZeroTimeout.v. *)
From SV Require Import Lib.Base Gen.Consts Gen.WireFields Model.Dhcp Proofs.DhcpZeroTimeout.

(* with discover_timeout = 0 a dispatch that emits leaves the socket due again at the same instant, and the next
   dispatch at that instant emits again and reproduces state and configuration: the socket never becomes quiet at a
   fixed `now`, so the loop `loop { poll_egress }` of Interface::poll does not end while the device accepts frames *)
Theorem C03_dhcp_zero_timeout_never_quiet_refuted :
  let s0 := dhcp_set_retry_config dhcp_new dhcp_zero_cfg in
  let now := 1000000 in
  match dhcp_dispatch 1500 now 7 (fun _ => true) s0 with
  | Ok (s1, DrSent _) =>
      match dhcp_dispatch 1500 now 8 (fun _ => true) s1 with
      | Ok (s2, DrSent _) =>
          ds_state s2 = ds_state s1 /\ ds_retry_config s2 = ds_retry_config s1 /\ ds_state s1 = Discovering now
      | _ => False
      end
  | _ => False
  end.
Proof. exact dhcp_zero_timeout_never_quiet. Qed.
Print Assumptions C03_dhcp_zero_timeout_never_quiet_refuted.
