(* Property C20 -- 6LoWPAN compression and fragmentation are lossless: LIVENESS of reassembly and the
   COMPOSITION frame octets -> (fragment header, payload) -> reassembly -> decompression.
   Only property theorems (each closed by [exact]) and [Print Assumptions]; pinned in Pins/C20live.v.

   Vocabulary (Proofs/LowpanLiveProofs.v):
     lpl_ev            what a poll receives: EvFrag t src dst f (a FRAG1/FRAGN record f under link-layer
                       addresses src/dst at time t) or EvOther t r (any other frame, result r)
     ev_step / ev_run  poll_ingress_single = remove_expired(t) ; process_sixlowpan_fragment
     kstate D k ss st  the slot set ss is panic-safe, at most one slot is claimed for key k, and it
                       holds st (None: no slot; Some (tracker, total_size, expires_at)) consistent with D
     ev_ok D k tag e   a fragment under key k is a piece of D (piece_ok, C20); any other fragment is
                       only "tame" (its decompressor behaves like sixlowpan_to_ipv6: C20_decompress_no_panic)
     k_complete D k l  the fragments under k in l contain a FRAG1 and cover every octet of D
     gaps_fit n D k u l along l, the merged union (C15: asm_add_unb) of the ranges received under k never
                       needs more than n contiguous ranges
     lpl_poll/lpl_run  (Model/LowpanLive.v) the same on the OCTETS behind the MAC header
     lpl_tx_octets     (Model/LowpanLive.v) the octets the egress side writes behind the MAC header *)
From SV Require Import Lib.Base Gen.Consts Gen.WireFields Model.WireBase Model.WireSixFrag Model.WireNhc.
From SV Require Import Model.WireIphc Model.Assembler Model.LowpanFrag Model.Lowpan Model.LowpanLive.
From SV Require Import Proofs.WireBaseProofs Proofs.AssemblerProofs Proofs.LowpanWireProofs Proofs.LowpanFragProofs.
From SV Require Import Proofs.LowpanIphcBitsProofs Proofs.LowpanIphcProofs Proofs.LowpanProofs Proofs.LowpanLiveProofs.

(* ---------- composition, ingress: frame octets -> (fragment header, payload, decompressor) ---------- *)

(* One poll on the octets of ANY received frame (octets 0..255, < 65528 of them, link-layer addresses
   of 2 or 8 octets, 8-octet contexts) is one step of the event machine on what process_sixlowpan
   parses out of them, and that event is tame. *)
Theorem C20live_poll_is_event_step : forall ctx timeout a ss, lp_ctx_wf ctx -> arrival_wf a ->
  lpl_poll ctx timeout a ss = ev_step timeout (lpl_ev_of ctx a) ss /\
  ev_tame (lpl_ev_of ctx a) /\ ev_time (lpl_ev_of ctx a) = ar_time a.
Proof. exact lpl_poll_is_event_step. Qed.
Print Assumptions C20live_poll_is_event_step.

(* ... for a frame with a fragment dispatch the equation needs no hypothesis *)
Theorem C20live_poll_on_fragment_is_event_step : forall ctx timeout a ss,
  sixlowpan_dispatch (ar_payload a) = Ok 0 ->
  lpl_poll ctx timeout a ss = ev_step timeout (lpl_ev_of ctx a) ss.
Proof. exact lpl_poll_is_event_step_frag. Qed.
Print Assumptions C20live_poll_on_fragment_is_event_step.

Theorem C20live_run_is_event_run : forall ctx timeout, lp_ctx_wf ctx -> forall arr ss,
  Forall arrival_frag_or_wf arr ->
  lpl_run ctx timeout arr ss = ev_run timeout (map (lpl_ev_of ctx) arr) ss.
Proof. exact lpl_run_is_event_run. Qed.
Print Assumptions C20live_run_is_event_run.

(* the octets of a fragment header (ANY 11-bit size, u16 tag, u8 offset) followed by ANY payload
   parse back to exactly that header, that payload, and sixlowpan_to_ipv6 on that payload with the
   announced datagram size (composition of C20_frag_hdr_roundtrip with process_sixlowpan) *)
Theorem C20live_fragment_octets_parse_back : forall ctx t lls lld h pl, sixfrag_wf h = true ->
  lpl_ev_of ctx (mkArrival t lls lld (sixfrag_bytes h ++ pl)) =
  EvFrag t (lpl_ll_bytes lls) (lpl_ll_bytes lld)
    (mkRxFrag h pl (fun buflen => lp_sixlowpan_to_ipv6 ctx lls lld pl (Some (lpf_hdr_size h)) buflen)).
Proof. exact lpl_ev_of_fragment_octets. Qed.
Print Assumptions C20live_fragment_octets_parse_back.

(* ---------- composition, egress: what is written behind the MAC header ---------- *)

(* dispatch_sixlowpan / dispatch_sixlowpan_frag, for ANY previous content of the transmit buffer:
   the fragment header octets followed by the fragment payload *)
Theorem C20live_frame_octets : forall f h txbuf, fr_hdr f = Some h -> sixfrag_wf h = true ->
  bytes_ok txbuf = true -> blen txbuf = lpl_txbuf_len f ->
  lpl_frame_octets f txbuf = Ok (sixfrag_bytes h ++ fr_payload f).
Proof. exact lpl_frame_octets_spec. Qed.
Print Assumptions C20live_frame_octets.

(* ---------- reassembly: safety with interleaving ---------- *)

Theorem C20live_fresh_state : forall D k, kstate D k lpf_slots_new None.
Proof. exact kstate_new. Qed.
Print Assumptions C20live_fresh_state.

(* For ANY run -- pieces of D under key k = (sender, destination, size, tag) in any order, with
   duplicates and omissions, interleaved with tame fragments of any other key (other senders, tags,
   sizes) and any other frames, at any times (so any expiries), from any state in which at most one
   slot is claimed for k: no panic; whatever is delivered at an arrival under k is D; and, from a
   state with no slot for k, it is delivered only at an arrival that completes a FRAG1 + full cover
   received since the previous delivery. *)
Theorem C20live_mixed_exact_or_nothing : forall D tag src dst timeout evs ss st,
  lpf_IPV6_HDR <= blen D -> let k := (src, dst, blen D, tag) in
  kstate D k ss st -> Forall (ev_ok D k tag) evs ->
  exists ss' rs st', ev_run timeout evs ss = Ok (ss', rs) /\ kstate D k ss' st' /\
    Forall2 (fun e r => ev_is k e -> r = None \/ r = Some D) evs rs /\
    (st = None -> delivered_only_when_complete D k [] evs rs).
Proof. exact ev_run_safe. Qed.
Print Assumptions C20live_mixed_exact_or_nothing.

(* fragments of different tags / senders / sizes never mix *)
Theorem C20live_two_datagrams_not_mixed : forall D1 tag1 src1 dst1 D2 tag2 src2 dst2 timeout evs ss st1 st2,
  lpf_IPV6_HDR <= blen D1 -> lpf_IPV6_HDR <= blen D2 ->
  let k1 := (src1, dst1, blen D1, tag1) in let k2 := (src2, dst2, blen D2, tag2) in
  kstate D1 k1 ss st1 -> kstate D2 k2 ss st2 ->
  Forall (ev_ok D1 k1 tag1) evs -> Forall (ev_ok D2 k2 tag2) evs ->
  exists ss' rs, ev_run timeout evs ss = Ok (ss', rs) /\
    Forall2 (fun e r => (ev_is k1 e -> r = None \/ r = Some D1) /\ (ev_is k2 e -> r = None \/ r = Some D2)) evs rs.
Proof. exact ev_run_two_datagrams_not_mixed. Qed.
Print Assumptions C20live_two_datagrams_not_mixed.

(* a set of fragments that is not complete delivers nothing, whatever the order, duplication and timing *)
Theorem C20live_incomplete_delivers_nothing : forall D tag src dst timeout evs ss,
  lpf_IPV6_HDR <= blen D -> let k := (src, dst, blen D, tag) in
  kstate D k ss None -> Forall (ev_ok D k tag) evs -> ~ k_complete D k evs ->
  exists ss' rs st', ev_run timeout evs ss = Ok (ss', rs) /\ kstate D k ss' st' /\
    Forall2 (fun e r => ev_is k e -> r = None) evs rs.
Proof. exact ev_run_incomplete_delivers_nothing. Qed.
Print Assumptions C20live_incomplete_delivers_nothing.

(* a timed-out partial datagram delivers nothing: whatever the slot had collected (u, tot), once the
   first later poll comes after its expiry only a complete later set of fragments can deliver *)
Theorem C20live_timeout_delivers_nothing : forall D tag src dst timeout e rest ss u tot texp,
  lpf_IPV6_HDR <= blen D -> let k := (src, dst, blen D, tag) in
  kstate D k ss (Some (u, tot, texp)) -> Forall (ev_ok D k tag) (e :: rest) ->
  texp < ev_time e -> ~ k_complete D k (e :: rest) ->
  exists ss' rs st', ev_run timeout (e :: rest) ss = Ok (ss', rs) /\ kstate D k ss' st' /\
    Forall2 (fun e r => ev_is k e -> r = None) (e :: rest) rs.
Proof. exact ev_run_timeout_delivers_nothing. Qed.
Print Assumptions C20live_timeout_delivers_nothing.

(* ---------- reassembly: LIVENESS ---------- *)

(* No slot is claimed for k; the first arrival is a fragment under k and finds a free or expired slot
   (with REASSEMBLY_BUFFER_COUNT = 1: no other reassembly in progress); pre ++ [a] is the shortest
   prefix of the arrivals whose fragments under k contain a FRAG1 and cover D (a is "the last missing
   fragment"); all of pre ++ [a] is polled no later than first arrival + reassembly timeout; along
   the arrival order the merged ranges fit the tracker (gaps_fit; NO other condition on the order: the
   FRAG1 need not come first; duplicates, foreign fragments and other frames anywhere).  Then: nothing
   is delivered under k before a; exactly D is delivered at a; afterwards D (and nothing else) is
   delivered again only by a further complete set.  By induction over the arrival list: no bound on
   the number of fragments or on the datagram size. *)
Theorem C20live_reassembly_delivers_at_completion : forall D tag src dst timeout pre a post ss,
  lpf_IPV6_HDR <= blen D -> 0 <= timeout -> let k := (src, dst, blen D, tag) in
  kstate D k ss None -> Forall (ev_ok D k tag) (pre ++ a :: post) ->
  let e0 := hd a pre in
  ev_is k e0 -> (exists j, (j < length ss)%nat /\ slot_avail (ev_time e0) (nth j ss lpf_slot_new)) ->
  Forall (fun e => ev_time e <= ev_time e0 + timeout) (pre ++ [a]) ->
  gaps_fit lpf_N D k asm_new (pre ++ [a]) ->
  ev_is k a -> k_complete D k (pre ++ [a]) -> ~ k_complete D k pre ->
  exists ss' rs_pre rs_post st',
    ev_run timeout (pre ++ a :: post) ss = Ok (ss', rs_pre ++ Some D :: rs_post) /\
    kstate D k ss' st' /\ length rs_pre = length pre /\
    Forall2 (fun e r => ev_is k e -> r = None) pre rs_pre /\
    Forall2 (fun e r => ev_is k e -> r = None \/ r = Some D) post rs_post /\
    delivered_only_when_complete D k [] post rs_post.
Proof. exact ev_run_delivers. Qed.
Print Assumptions C20live_reassembly_delivers_at_completion.

(* which orders fit: (a) every fragment starts inside what has been received contiguously from
   offset 0 (in-order arrival, duplicates of earlier fragments anywhere): for EVERY capacity n >= 1 *)
Theorem C20live_in_order_fits : forall n D k, 1 <= n -> forall evs e, 0 <= e -> prefix_order D k e evs ->
  gaps_fit n D k (prefix_asm e) evs.
Proof. exact gaps_fit_prefix_order. Qed.
Print Assumptions C20live_in_order_fits.

(* (b) any order at all when no more fragments arrive under k than the tracker has ranges *)
Theorem C20live_few_fragments_fit : forall n D k tag evs u, asm_wf u -> Forall (ev_ok D k tag) evs ->
  Z.of_nat (length u + kcount D k evs) <= n -> gaps_fit n D k u evs.
Proof. exact gaps_fit_few. Qed.
Print Assumptions C20live_few_fragments_fit.

(* the hypothesis is necessary: when the merged union needs more than ASSEMBLER_MAX_SEGMENT_COUNT
   ranges the fragment's range is NOT recorded (`assembler.add`'s error is ignored: the octets are in
   the buffer, the range is forgotten), so the datagram completes only if that fragment comes again *)
Theorem C20live_overflow_not_recorded : forall D tag f u tot texp, piece_ok D tag f ->
  kabs_inv D (Some (u, tot, texp)) ->
  lpf_N < Z.of_nat (length (asm_add_unb u (fst (frag_span D f)) (snd (frag_span D f)))) ->
  fst (asm_add lpf_N u (fst (frag_span D f)) (snd (frag_span D f))) = u.
Proof. exact kabs_add_overflow. Qed.
Print Assumptions C20live_overflow_not_recorded.

(* ---------- every tiling of the compressed datagram ---------- *)

(* For every datagram the stack can send: ANY FRAG1 that contains the compressed headers and ANY
   FRAGN at an 8-octet-aligned position of the uncompressed datagram (the cut of any sender, not
   only of the own fragmenter) is a piece of D -- so the theorems above apply to every tiling. *)
Theorem C20live_tiles_are_pieces : forall d lls lld ctx c D chdr uhdr tag,
  lp_dgram_wf d lls lld -> lp_compressed d lls lld = Ok c -> lp_ipv6_bytes d = Ok D ->
  lp_compressed_packet_size d lls lld = Ok (blen c, chdr, uhdr) ->
  (forall k1, chdr <= k1 <= blen c ->
     piece_ok D tag (mkRxFrag (SfFirst (blen D) tag) (firstn (Z.to_nat k1) c)
                              (fun n => lp_sixlowpan_to_ipv6 ctx lls lld (firstn (Z.to_nat k1) c) (Some (blen D)) n))) /\
  (forall p n dec, chdr <= p -> 0 <= n -> p + n <= blen c -> (p + (uhdr - chdr)) mod 8 = 0 ->
     piece_ok D tag (mkRxFrag (SfNext (blen D) tag ((p + (uhdr - chdr)) / 8))
                              (firstn (Z.to_nat n) (skipn (Z.to_nat p) c)) dec)).
Proof. exact lp_tiles_are_pieces. Qed.
Print Assumptions C20live_tiles_are_pieces.

(* ---------- END TO END: datagram -> octets behind the MAC header -> polls -> datagram ---------- *)

(* safety: the octets the egress side emits for d (any old buffer fill), received in any order, any
   number of times, with any other well-formed traffic in between: under the datagram's key the
   ingress side hands exactly d's IPv6 octets D to process_ipv6, or nothing *)
Theorem C20live_end_to_end_exact_or_nothing : forall d lls lld ctx c D tag,
  lp_dgram_wf d lls lld -> lp_compressed d lls lld = Ok c -> lp_ipv6_bytes d = Ok D ->
  lp_ctx_wf ctx -> 0 <= tag < 65536 ->
  lpf_needs_frag (blen c) (lpf_ieee_len (lpl_ll_bytes lld) (lpl_ll_bytes lls)) = true -> blen c <= lpf_BUFFER ->
  forall fill txfill timeout, 0 <= fill < 256 -> 0 <= txfill < 256 ->
  forall octs, lpl_tx_octets d lls lld tag fill txfill = Ok octs ->
  forall arr ss st, let k := (lpl_ll_bytes lls, lpl_ll_bytes lld, blen D, tag) in
  kstate D k ss st -> Forall (e2e_arrival_ok lls lld ctx D tag octs) arr ->
  exists ss' rs st', lpl_run ctx timeout arr ss = Ok (ss', rs) /\ kstate D k ss' st' /\
    Forall2 (fun a r => ev_is k (lpl_ev_of ctx a) -> r = None \/ r = Some D) arr rs.
Proof. exact lpl_e2e_exact_or_nothing. Qed.
Print Assumptions C20live_end_to_end_exact_or_nothing.

(* liveness, any order the tracker can follow (hypotheses as in C20live_reassembly_delivers_at_completion,
   on what process_sixlowpan parses out of the received octets) *)
Theorem C20live_end_to_end_delivers : forall d lls lld ctx c D tag,
  lp_dgram_wf d lls lld -> lp_compressed d lls lld = Ok c -> lp_ipv6_bytes d = Ok D ->
  lp_ctx_wf ctx -> 0 <= tag < 65536 ->
  lpf_needs_frag (blen c) (lpf_ieee_len (lpl_ll_bytes lld) (lpl_ll_bytes lls)) = true -> blen c <= lpf_BUFFER ->
  forall fill txfill timeout, 0 <= fill < 256 -> 0 <= txfill < 256 ->
  forall octs, lpl_tx_octets d lls lld tag fill txfill = Ok octs ->
  forall pre a post ss, let k := (lpl_ll_bytes lls, lpl_ll_bytes lld, blen D, tag) in
  0 <= timeout -> kstate D k ss None -> Forall (e2e_arrival_ok lls lld ctx D tag octs) (pre ++ a :: post) ->
  let ev := lpl_ev_of ctx in
  let a0 := hd a pre in
  ev_is k (ev a0) -> (exists j, (j < length ss)%nat /\ slot_avail (ar_time a0) (nth j ss lpf_slot_new)) ->
  Forall (fun x => ar_time x <= ar_time a0 + timeout) (pre ++ [a]) ->
  gaps_fit lpf_N D k asm_new (map ev (pre ++ [a])) ->
  ev_is k (ev a) -> k_complete D k (map ev (pre ++ [a])) -> ~ k_complete D k (map ev pre) ->
  exists ss' rs_pre rs_post st',
    lpl_run ctx timeout (pre ++ a :: post) ss = Ok (ss', rs_pre ++ Some D :: rs_post) /\
    kstate D k ss' st' /\ length rs_pre = length pre /\
    Forall2 (fun x r => ev_is k (ev x) -> r = None) pre rs_pre /\
    Forall2 (fun x r => ev_is k (ev x) -> r = None \/ r = Some D) post rs_post.
Proof. exact lpl_e2e_delivers. Qed.
Print Assumptions C20live_end_to_end_delivers.

(* ... with the completeness hypotheses in terms of the frames themselves: by the time of a every frame
   of the sender has arrived from the sender's addresses, and a's own frame had not arrived before
   (a is the last missing fragment); any order the tracker can follow, any duplicates, any other
   well-formed traffic in between.  e2e_sender x: x carries the sender's link-layer addresses and one
   of the octet strings the sender emitted. *)
Theorem C20live_end_to_end_delivers_all_frames : forall d lls lld ctx c D tag,
  lp_dgram_wf d lls lld -> lp_compressed d lls lld = Ok c -> lp_ipv6_bytes d = Ok D ->
  lp_ctx_wf ctx -> 0 <= tag < 65536 ->
  lpf_needs_frag (blen c) (lpf_ieee_len (lpl_ll_bytes lld) (lpl_ll_bytes lls)) = true -> blen c <= lpf_BUFFER ->
  forall fill txfill timeout, 0 <= fill < 256 -> 0 <= txfill < 256 ->
  forall octs, lpl_tx_octets d lls lld tag fill txfill = Ok octs ->
  forall pre a post ss, let k := (lpl_ll_bytes lls, lpl_ll_bytes lld, blen D, tag) in
  0 <= timeout -> kstate D k ss None -> Forall (e2e_arrival_ok lls lld ctx D tag octs) (pre ++ a :: post) ->
  let a0 := hd a pre in
  e2e_sender lls lld octs a0 ->
  (exists j, (j < length ss)%nat /\ slot_avail (ar_time a0) (nth j ss lpf_slot_new)) ->
  Forall (fun x => ar_time x <= ar_time a0 + timeout) (pre ++ [a]) ->
  gaps_fit lpf_N D k asm_new (map (lpl_ev_of ctx) (pre ++ [a])) ->
  e2e_sender lls lld octs a ->
  (forall o, In o octs -> exists x, In x (pre ++ [a]) /\ e2e_sender lls lld octs x /\ ar_payload x = o) ->
  (forall x, In x pre -> e2e_sender lls lld octs x -> ar_payload x <> ar_payload a) ->
  exists ss' rs_pre rs_post st',
    lpl_run ctx timeout (pre ++ a :: post) ss = Ok (ss', rs_pre ++ Some D :: rs_post) /\
    kstate D k ss' st' /\ length rs_pre = length pre /\
    Forall2 (fun x r => ev_is k (lpl_ev_of ctx x) -> r = None) pre rs_pre /\
    Forall2 (fun x r => ev_is k (lpl_ev_of ctx x) -> r = None \/ r = Some D) post rs_post.
Proof. exact lpl_e2e_delivers_all_frames. Qed.
Print Assumptions C20live_end_to_end_delivers_all_frames.

(* the arrival order of the wire, no loss: every frame the sender emitted, in order, each polled no
   later than reassembly_timeout after the first, at a receiver with no slot claimed for the key and
   a free or expired slot: nothing before the last frame, exactly D at the last frame -- no condition
   on gaps (one merged range), for every tracker capacity *)
Theorem C20live_end_to_end_in_order : forall d lls lld ctx c D tag,
  lp_dgram_wf d lls lld -> lp_compressed d lls lld = Ok c -> lp_ipv6_bytes d = Ok D ->
  lp_ctx_wf ctx -> 0 <= tag < 65536 ->
  lpf_needs_frag (blen c) (lpf_ieee_len (lpl_ll_bytes lld) (lpl_ll_bytes lls)) = true -> blen c <= lpf_BUFFER ->
  forall fill txfill timeout, 0 <= fill < 256 -> 0 <= txfill < 256 ->
  forall octs, lpl_tx_octets d lls lld tag fill txfill = Ok octs ->
  forall arr ss, let k := (lpl_ll_bytes lls, lpl_ll_bytes lld, blen D, tag) in
  0 <= timeout -> kstate D k ss None ->
  map ar_payload arr = octs -> Forall (fun a => ar_lls a = lls /\ ar_lld a = lld) arr ->
  let t0 := match arr with [] => 0 | a :: _ => ar_time a end in
  (exists j, (j < length ss)%nat /\ slot_avail t0 (nth j ss lpf_slot_new)) ->
  Forall (fun a => ar_time a <= t0 + timeout) arr ->
  exists ss' st', lpl_run ctx timeout arr ss = Ok (ss', repeat None (length arr - 1) ++ [Some D]) /\
                  kstate D k ss' st'.
Proof. exact lpl_e2e_in_order. Qed.
Print Assumptions C20live_end_to_end_in_order.

(* ... e.g. at a freshly created interface *)
Theorem C20live_end_to_end_in_order_fresh : forall d lls lld ctx c D tag fill txfill timeout octs arr,
  lp_dgram_wf d lls lld -> lp_compressed d lls lld = Ok c -> lp_ipv6_bytes d = Ok D -> lp_ctx_wf ctx ->
  0 <= tag < 65536 -> 0 <= fill < 256 -> 0 <= txfill < 256 -> 0 <= timeout ->
  lpf_needs_frag (blen c) (lpf_ieee_len (lpl_ll_bytes lld) (lpl_ll_bytes lls)) = true -> blen c <= lpf_BUFFER ->
  lpl_tx_octets d lls lld tag fill txfill = Ok octs ->
  map ar_payload arr = octs -> Forall (fun a => ar_lls a = lls /\ ar_lld a = lld) arr ->
  Forall (fun a => ar_time a <= match arr with a0 :: _ => ar_time a0 | [] => 0 end + timeout) arr ->
  exists ss', lpl_run ctx timeout arr lpf_slots_new = Ok (ss', repeat None (length arr - 1) ++ [Some D]).
Proof. exact lpl_e2e_in_order_fresh. Qed.
Print Assumptions C20live_end_to_end_in_order_fresh.

(* a datagram whose compressed form fits one frame: exactly that frame goes out, and the poll that
   receives it hands D to process_ipv6 (whatever the reassembly state) *)
Theorem C20live_end_to_end_unfragmented : forall d lls lld ctx c D tag fill txfill timeout t ss,
  lp_dgram_wf d lls lld -> lp_compressed d lls lld = Ok c -> lp_ipv6_bytes d = Ok D ->
  0 <= fill < 256 ->
  lpf_needs_frag (blen c) (lpf_ieee_len (lpl_ll_bytes lld) (lpl_ll_bytes lls)) = false ->
  lpl_tx_octets d lls lld tag fill txfill = Ok [c] /\
  lpl_poll ctx timeout (mkArrival t lls lld c) ss = Ok (lpf_remove_expired t ss, Some D).
Proof. exact lpl_e2e_unfragmented. Qed.
Print Assumptions C20live_end_to_end_unfragmented.

(* ---------- non-vacuity ---------- *)

(* a 56-octet datagram in three pieces arriving last-first-(foreign fragment)-duplicate-middle at a
   fresh interface: the model delivers exactly at the last missing piece ... *)
Theorem C20live_example_run :
  omap snd (ev_run 60000 (lpl_ex_pre ++ [lpl_ex_a]) lpf_slots_new) = Ok [None; None; None; None; None; Some lpl_ex_D].
Proof. exact lpl_example_run. Qed.
Print Assumptions C20live_example_run.

(* ... and satisfies every hypothesis of C20live_reassembly_delivers_at_completion *)
Theorem C20live_example_hypotheses :
  lpf_IPV6_HDR <= blen lpl_ex_D /\
  kstate lpl_ex_D lpl_ex_k lpf_slots_new None /\
  Forall (ev_ok lpl_ex_D lpl_ex_k 7) (lpl_ex_pre ++ [lpl_ex_a]) /\
  ev_is lpl_ex_k (hd lpl_ex_a lpl_ex_pre) /\
  (exists j, (j < length lpf_slots_new)%nat /\ slot_avail (ev_time (hd lpl_ex_a lpl_ex_pre)) (nth j lpf_slots_new lpf_slot_new)) /\
  Forall (fun e => ev_time e <= ev_time (hd lpl_ex_a lpl_ex_pre) + 60000) (lpl_ex_pre ++ [lpl_ex_a]) /\
  gaps_fit lpf_N lpl_ex_D lpl_ex_k asm_new (lpl_ex_pre ++ [lpl_ex_a]) /\
  ev_is lpl_ex_k lpl_ex_a /\ k_complete lpl_ex_D lpl_ex_k (lpl_ex_pre ++ [lpl_ex_a]) /\
  ~ k_complete lpl_ex_D lpl_ex_k lpl_ex_pre.
Proof. exact lpl_example_hyps. Qed.
Print Assumptions C20live_example_hypotheses.
