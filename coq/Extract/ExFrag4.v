(* Extraction of the fragmentation / reassembly / egress-order models for the correspondence
   driver of stream `frag4` (property C12).  ExtrOcamlBasic only. *)
From Coq Require Extraction ExtrOcamlBasic.
From SV Require Import Lib.Base Model.Assembler Model.Frag4 Model.Reasm Model.Egress.
Extraction Language OCaml.
Cd "../ocaml/gen".
Extraction "frag4_model.ml" f4_ip_mtu f4_max_ipv4_fragment_size f4_hdr p_is_fragment
  eg_init eg_step eg_queued fr_finished
  pas_new rs_poll.
Cd "../../coq".
