From Coq Require Extraction ExtrOcamlBasic.
From SV Require Import Lib.Base Gen.Consts Model.Glue.
Extraction Language OCaml.
Cd "../ocaml/gen".
Extraction "glue_model.ml" glue_quote_v4 glue_quote_v6 glue_error_size glue_process_hopbyhop
  wipv4_HEADER_LEN wipv6_HEADER_LEN.
Cd "../../coq".
