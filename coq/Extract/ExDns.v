(* Extraction of the DNS wire + resolver models for the correspondence driver (streams `dns`
   and `dnswire`).  ExtrOcamlBasic only; Z/positive/nat stay the extracted inductive types. *)
From Coq Require Extraction ExtrOcamlBasic.
From SV Require Import Lib.Base Model.WireDns Model.Dns.
Extraction Language OCaml.
Cd "../ocaml/gen".
Extraction "dns_model.ml"
  wdns_parse_name wdns_parse_name_part wdns_question_parse wdns_record_parse
  wdns_check_len wdns_transaction_id wdns_flags wdns_opcode wdns_rcode
  wdns_question_count wdns_answer_record_count wdns_authority_record_count
  wdns_additional_record_count wdns_repr_buffer_len wdns_repr_emit wdns_FLAGS_ALL
  dns_new dns_update_servers dns_step dns_dispatch dns_poll_at dns_cfg_default dns_tx_hop dns_hop_limit.
Cd "../../coq".
