(* Extraction of the assembler model for the correspondence driver.
   ExtrOcamlBasic only: bool/option/unit/list/prod/sumbool/sumor map to OCaml's;
   Z, positive, nat stay the extracted inductive types; no Extract Constant. *)
From Coq Require Extraction ExtrOcamlBasic.
From SV Require Import Lib.Base Model.Assembler.
Extraction Language OCaml.
Cd "../ocaml/gen".
Extraction "asm_model.ml" asm_new asm_step asm_iter_data asm_peek_front asm_is_empty.
Cd "../../coq".
