(* Extraction of the IEEE 802.15.4 frame model (Model/WireIeee802154.v) for the correspondence
   driver ocaml/drv_wire2_ieee154.ml.  ExtrOcamlBasic only; Z, positive, nat stay the extracted
   inductive types. *)
From Coq Require Extraction ExtrOcamlBasic.
From SV Require Import Lib.Base Model.WireBase Model.WireIeee802154.
Extraction Language OCaml.
Cd "../ocaml/gen".
Extraction "wire2ieee154_model.ml"
  blen
  f154_check_len f154_new_checked
  f154_frame_type f154_security_enabled f154_frame_pending f154_ack_request f154_pan_id_compression
  f154_sequence_number_suppression f154_ie_present f154_dst_addressing_mode f154_frame_version
  f154_src_addressing_mode f154_sequence_number f154_dst_pan_id f154_dst_addr f154_src_pan_id f154_src_addr
  f154_security_level f154_key_identifier_mode f154_frame_counter_suppressed f154_frame_counter
  f154_key_source f154_key_index f154_message_integrity_code f154_mac_header f154_payload
  f154_parse f154_buffer_len f154_emit f154_wf.
Cd "../../coq".
