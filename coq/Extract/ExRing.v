(* Extraction of the ring-buffer / packet-buffer models for the correspondence driver.
   ExtrOcamlBasic only: bool/option/unit/list/prod/sumbool/sumor map to OCaml's;
   Z, positive, nat stay the extracted inductive types; no Extract Constant. *)
From Coq Require Extraction ExtrOcamlBasic.
From SV Require Import Lib.Base Model.Ring Model.PacketBuf.
Extraction Language OCaml.
Cd "../ocaml/gen".
Extraction "ring_model.ml" ring_new ring_step ring_status pb_new pb_step pb_status Z.add Z.mul.
Cd "../../coq".
