(* Extraction of the L3 ingress/egress decision model for the correspondence driver
   (stream `ingress`, properties C11 and C10).  ExtrOcamlBasic only. *)
From Coq Require Extraction ExtrOcamlBasic.
From SV Require Import Lib.Base Model.Addr Model.Ingress.
Extraction Language OCaml.
Cd "../ocaml/gen".
Extraction "ingress_model.ml" ing_process ing_changed ing_ingress_emits ing_ingress_emits_p ing_udp_send
  ing_tcp_connect ing_dispatch_ip ing_ip_mtu ing_frag_buffer_size.
Cd "../../coq".
