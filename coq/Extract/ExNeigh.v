(* Extraction of the neighbor-cache / route / Meta / next-hop model for the `neigh` driver.
   ExtrOcamlBasic only: bool/option/unit/list/prod/sumbool/sumor map to OCaml's;
   Z, positive, nat stay the extracted inductive types; no Extract Constant. *)
From Coq Require Extraction ExtrOcamlBasic.
From SV Require Import Lib.Base Model.Neighbor Model.Route Model.Meta Model.Nexthop.
Extraction Language OCaml.
Cd "../ocaml/gen".
Extraction "neigh_model.ml" sim_init sim_step sim_qlens sim_poll_at.
Cd "../../coq".
