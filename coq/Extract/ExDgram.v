(* Extraction of the datagram-socket model for the correspondence driver (ocaml/drv_dgram.ml).
   ExtrOcamlBasic only: bool/option/unit/list/prod/sumbool/sumor map to OCaml's;
   Z, positive, nat stay the extracted inductive types; no Extract Constant. *)
From Coq Require Extraction ExtrOcamlBasic.
From SV Require Import Lib.Base Model.DgramQueue Model.Dgram.
Extraction Language OCaml.
Cd "../ocaml/gen".
Extraction "dgram_model.ml"
  pq_new udp_new icmp_new raw_new meta_new if_new std_env dg_step sock_run
  sock_is_open sock_can_send sock_can_recv sock_send_queue sock_recv_queue sock_kind
  ip_hdr_sym ip_header_len.
Cd "../../coq".
