(* Extraction of the multicast host state machine model for the correspondence driver
   (stream `mcast`, properties C10 / C11 / C03).  ExtrOcamlBasic only. *)
From Coq Require Extraction ExtrOcamlBasic.
From SV Require Import Lib.Base Model.Addr Model.Ingress Model.WireIgmp Model.Multicast.
Extraction Language OCaml.
Cd "../ocaml/gen".
Extraction "mcast_model.ml" mc_new mc_step mc_has_multicast_group ing_ip_mtu.
Cd "../../coq".
