(* Extraction of the wire-format models for the correspondence driver (ocaml/drv_wire.ml).
   ExtrOcamlBasic only; Z, positive, nat stay the extracted inductive types.
   Append the functions of new formats to the list. *)
From Coq Require Extraction ExtrOcamlBasic.
From SV Require Import Lib.Base Model.WireBase Model.WireEth Model.WireArp Model.WireUdp Model.WireIpv4 Model.WireIpv6 Model.WireIcmpv4 Model.WireIcmpv6 Model.WireTcp.
Extraction Language OCaml.
Cd "../ocaml/gen".
Extraction "wire_model.ml"
  blen wb_pseudo_ok wb_pseudo_fill wb_plain_ok wb_plain_fill
  eth_check_len eth_dst_addr eth_src_addr eth_ethertype eth_payload eth_parse eth_buffer_len eth_emit eth_wf
  arp_check_len arp_hardware_type arp_protocol_type arp_hardware_len arp_protocol_len arp_operation
  arp_source_hardware_addr arp_source_protocol_addr arp_target_hardware_addr arp_target_protocol_addr
  arp_parse arp_buffer_len arp_emit arp_wf
  udp_check_len udp_src_port udp_dst_port udp_len udp_checksum udp_payload udp_verify_checksum
  udp_parse udp_buffer_len udp_emit udp_wf
  ipv4_check_len ipv4_version ipv4_header_len ipv4_dscp ipv4_ecn ipv4_total_len ipv4_ident ipv4_dont_frag
  ipv4_more_frags ipv4_frag_offset ipv4_hop_limit_ ipv4_next_header ipv4_checksum ipv4_src_addr ipv4_dst_addr
  ipv4_payload ipv4_verify_checksum ipv4_parse ipv4_buffer_len ipv4_emit ipv4_wf
  ipv6_check_len ipv6_version ipv6_traffic_class ipv6_flow_label ipv6_payload_len_ ipv6_total_len
  ipv6_next_header ipv6_hop_limit_ ipv6_src_addr ipv6_dst_addr ipv6_payload ipv6_parse ipv6_buffer_len
  ipv6_emit ipv6_wf
  icmpv4_check_len icmpv4_msg_type icmpv4_msg_code icmpv4_checksum icmpv4_echo_ident icmpv4_echo_seq_no
  icmpv4_header_len icmpv4_data icmpv4_verify_checksum icmpv4_parse icmpv4_buffer_len icmpv4_emit icmpv4_wf
  icmpv6_check_len icmpv6_msg_type icmpv6_msg_code icmpv6_checksum icmpv6_echo_ident icmpv6_echo_seq_no
  icmpv6_pkt_too_big_mtu icmpv6_param_problem_ptr icmpv6_header_len icmpv6_payload icmpv6_verify_checksum
  icmpv6_parse icmpv6_buffer_len icmpv6_emit icmpv6_wf wb_delegated
  tcp_check_len tcp_src_port tcp_dst_port tcp_seq_number tcp_ack_number tcp_fin tcp_syn tcp_rst tcp_psh tcp_ack_
  tcp_urg tcp_ece tcp_cwr tcp_ns tcp_header_len_ tcp_window_len tcp_checksum tcp_urgent_at tcp_options
  tcp_payload_ tcp_segment_len tcp_options_summary tcp_selective_ack_permitted tcp_selective_ack_ranges
  tcp_verify_checksum tcp_option_parse tcp_option_buffer_len tcp_option_emit
  tcp_parse tcp_repr_header_len tcp_buffer_len tcp_emit tcp_wf.
Cd "../../coq".
