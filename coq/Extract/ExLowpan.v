(* Extraction of the 6LoWPAN models for the correspondence driver (property C20).
   ExtrOcamlBasic only: bool/option/unit/list/prod/sumbool/sumor map to OCaml's;
   Z, positive, nat stay the extracted inductive types; no Extract Constant. *)
From Coq Require Extraction ExtrOcamlBasic.
From SV Require Import Lib.Base Model.WireBase Model.WireSixFrag Model.WireNhc Model.WireNhcExt Model.WireIphc.
From SV Require Import Model.Assembler Model.LowpanFrag Model.Lowpan Model.LowpanLive.
Extraction Language OCaml.
Cd "../ocaml/gen".
Extraction "lowpan_model.ml"
  sixfrag_emit sixfrag_parse sixfrag_new_checked sixfrag_payload sixfrag_buffer_len sixlowpan_dispatch
  nhc_dispatch nhc_udp_emit nhc_udp_parse nhc_udp_check_len nhc_udp_checksum nhc_udp_payload
  nhc_udp_header_len nhc_udp_src_port nhc_udp_dst_port
  nhc_ext_emit nhc_ext_repr_parse nhc_ext_new_checked nhc_ext_payload nhc_ext_buffer_len
  iphc_emit iphc_buffer_len iphc_parse iphc_check_len iphc_header_len iphc_payload
  lp_dispatch lp_process_sixlowpan lp_dgram_of_bytes lp_ipv6_bytes lpf_slots_new lpf_remove_expired lpf_ieee_len
  lpf_frame_len sixfrag_bytes_of
  lpl_ll_bytes lpl_txbuf_len lpl_frame_octets lpl_tx_octets lpl_poll lpl_run.
Cd "../../coq".
