(* Extraction of the DHCPv4 client model (socket + interface glue) for the correspondence driver.
   ExtrOcamlBasic only: bool/option/unit/list/prod/sumbool/sumor map to OCaml's;
   Z, positive, nat stay the extracted inductive types; no Extract Constant. *)
From Coq Require Extraction ExtrOcamlBasic.
From SV Require Import Lib.Base Model.Dhcp.
Extraction Language OCaml.
Cd "../ocaml/gen".
Extraction "dhcp_model.ml"
  dhcp_new dhcp_retry_default dhcp_set_retry_config dhcp_set_max_lease_duration dhcp_set_ignore_naks
  dhcp_set_ports dhcp_set_receive_packet_buffer dhcp_reset dhcp_poll_at
  dhif_new dhif_poll dhif_enqueue dhif_own_addr dhif_map_sock dh_DURATION_MAX.
Cd "../../coq".
