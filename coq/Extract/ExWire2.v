(* Extraction of the second-wave wire-format models for the correspondence driver
   (ocaml/drv_wire2.ml).  ExtrOcamlBasic only; Z, positive, nat stay the extracted inductive
   types.  Append the functions of new formats to the list. *)
From Coq Require Extraction ExtrOcamlBasic.
From SV Require Import Lib.Base Model.WireBase Model.WireIgmp Model.WireIpv6Frag Model.WireIpv6Ext.
Extraction Language OCaml.
Cd "../ocaml/gen".
Extraction "wire2_model.ml"
  blen wb_pseudo_ok wb_pseudo_fill wb_plain_ok wb_plain_fill
  igmp_check_len igmp_msg_type igmp_max_resp_code igmp_checksum igmp_group_addr igmp_verify_checksum
  igmp_parse igmp_buffer_len igmp_emit igmp_wf
  v6frag_check_len v6frag_frag_offset v6frag_more_frags v6frag_ident_ v6frag_parse v6frag_buffer_len
  v6frag_emit v6frag_wf
  v6ext_check_len v6ext_next_header v6ext_header_len v6ext_payload v6ext_parse v6ext_buffer_len
  v6ext_emit v6ext_emit_full v6ext_total_len v6ext_wf.
Cd "../../coq".
