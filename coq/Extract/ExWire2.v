(* Extraction of the second-wave wire-format models for the correspondence driver
   (ocaml/drv_wire2.ml).  ExtrOcamlBasic only; Z, positive, nat stay the extracted inductive
   types.  Append the functions of new formats to the list. *)
From Coq Require Extraction ExtrOcamlBasic.
From SV Require Import Lib.Base Model.WireBase Model.WireIgmp Model.WireIpv6Frag Model.WireIpv6Ext
  Model.WireIcmpv6Hdr Model.WireMld.
Extraction Language OCaml.
Cd "../ocaml/gen".
Extraction "wire2_model.ml"
  blen wb_pseudo_ok wb_pseudo_fill wb_plain_ok wb_plain_fill
  igmp_check_len igmp_msg_type igmp_max_resp_code igmp_checksum igmp_group_addr igmp_verify_checksum
  igmp_parse igmp_buffer_len igmp_emit igmp_wf
  v6frag_check_len v6frag_frag_offset v6frag_more_frags v6frag_ident_ v6frag_parse v6frag_buffer_len
  v6frag_emit v6frag_wf
  v6ext_check_len v6ext_next_header v6ext_header_len v6ext_payload v6ext_parse v6ext_buffer_len
  v6ext_emit v6ext_emit_full v6ext_total_len v6ext_wf
  icmp6h_check_len icmp6h_msg_type icmp6h_msg_code icmp6h_checksum icmp6h_header_len icmp6h_payload
  icmp6h_verify_checksum
  mld_max_resp_code mld_mcast_addr mld_s_flag mld_qrv mld_qqic mld_num_srcs mld_nr_mcast_addr_rcrds
  mldrec_check_len mldrec_record_type mldrec_aux_data_len mldrec_num_srcs_ mldrec_mcast_addr mldrec_payload_
  mldrec_parse mldrec_buffer_len mldrec_emit mldrec_wf
  mld_parse mld_buffer_len mld_emit mld_icmp_emit mld_icmp_parse mld_wf mld_canon.
Cd "../../coq".
