(* Extraction of the TCP socket model for the correspondence driver (ocaml/drv_tcp.ml).
   ExtrOcamlBasic only: bool/option/unit/list/prod/sumbool/sumor map to OCaml's;
   Z, positive, nat stay the extracted inductive types; no Extract Constant. *)
From Coq Require Extraction ExtrOcamlBasic.
From SV Require Import Lib.Base Model.Seq32 Model.Assembler Model.TcpBuf Model.TcpTypes Model.Tcp.
Extraction Language OCaml.
Cd "../ocaml/gen".
Extraction "tcp_model.ml" tcp_new tcp_step iface_poll_egress iface_poll_at reno_new
  control_of_flags wire_clamp_wscale
  tcp_may_send tcp_may_recv tcp_can_send tcp_can_recv tcp_send_queue tcp_recv_queue
  l_len repr_header_len tcp_is_listening tcp_is_active tcp_is_open tcp_step_x.
Cd "../../coq".
