(* Extraction of the wire-format models of group "v6opts" (IPv6 options, Hop-by-Hop header, Routing
   header) for the correspondence driver ocaml/drv_wire2_v6opts.ml.  ExtrOcamlBasic only; Z,
   positive, nat stay the extracted inductive types. *)
From Coq Require Extraction ExtrOcamlBasic.
From SV Require Import Lib.Base Model.WireBase Model.WireIpv6Opt Model.WireIpv6Hbh Model.WireIpv6Routing.
Extraction Language OCaml.
Cd "../ocaml/gen".
Extraction "wire2v6opts_model.ml"
  blen
  v6opt_check_len v6opt_option_type v6opt_data_len v6opt_data v6opt_failure_type
  v6opt_parse v6opt_buffer_len v6opt_emit v6opt_wf v6opt_iter
  v6hbh_check_len v6hbh_options v6hbh_parse v6hbh_buffer_len v6hbh_emit v6hbh_wf
  v6hbh_mldv2_router_alert v6hbh_push_padn_option
  v6rt_check_len v6rt_routing_type v6rt_segments_left v6rt_home_address v6rt_cmpr_i v6rt_cmpr_e v6rt_pad
  v6rt_addresses v6rt_parse v6rt_buffer_len v6rt_emit v6rt_wf.
Cd "../../coq".
