(* Extraction of the pretty-printer control model (Model/WirePretty.v) for the correspondence
   driver ocaml/drv_pretty.ml (stream `wire-pretty`).  ExtrOcamlBasic only; Z, positive, nat stay
   the extracted inductive types.  [wb_plain_ok] is the RFC 1071 verification the driver passes
   for the IPv4-header / ICMPv4 checksum parameter. *)
From Coq Require Extraction ExtrOcamlBasic.
From SV Require Import Lib.Base Model.WireBase Model.WirePretty.
Extraction Language OCaml.
Cd "../ocaml/gen".
Extraction "pretty_model.ml"
  wb_plain_ok
  pp_fmt pp_off pp_len pp_st pp_info
  pp_ethernet pp_arp pp_ipv4 pp_ipv6 pp_icmpv4 pp_udp pp_tcp pp_igmp pp_ndopt.
Cd "../../coq".
