(* Extraction of the poll_at / SLAAC model for the correspondence driver (ExtrOcamlBasic only). *)
From Coq Require Extraction ExtrOcamlBasic.
From SV Require Import Lib.Base Gen.Consts Model.PollAt.
Extraction Language OCaml.
Cd "../ocaml/gen".
Extraction "pollat_model.ml" slaac_new slaac_poll slaac_poll_at iface_poll_at iface_poll_delay
  cfg_IFACE_MAX_PREFIX_COUNT cfg_IFACE_MAX_ROUTE_COUNT.
Cd "../../coq".
