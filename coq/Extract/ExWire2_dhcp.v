(* Extraction of the DHCPv4 wire-format model (Model/WireDhcpv4.v) for the correspondence driver
   ocaml/drv_wire2_dhcp.ml.  ExtrOcamlBasic only; Z, positive, nat stay the extracted inductive
   types. *)
From Coq Require Extraction ExtrOcamlBasic.
From SV Require Import Lib.Base Model.WireBase Model.WireDhcpv4.
Extraction Language OCaml.
Cd "../ocaml/gen".
Extraction "wire2dhcp_model.ml"
  blen
  dhcpw_check_len dhcpw_opcode dhcpw_hardware_type dhcpw_hardware_len dhcpw_transaction_id
  dhcpw_client_hardware_address dhcpw_hops dhcpw_secs dhcpw_magic_number dhcpw_client_ip
  dhcpw_your_ip dhcpw_server_ip dhcpw_relay_agent_ip dhcpw_flags dhcpw_options
  dhcpw_get_sname dhcpw_get_boot_file
  dhcpw_ow_emit dhcpw_ow_end
  dhcpw_parse dhcpw_buffer_len dhcpw_emit dhcpw_wf dhcpw_wf_emit.
Cd "../../coq".
