(* Extraction of the NDISC / NDISC-option wire-format models (group `ndisc` of the second wave)
   for the correspondence driver ocaml/drv_wire2_ndisc.ml.  ExtrOcamlBasic only; Z, positive,
   nat stay the extracted inductive types. *)
From Coq Require Extraction ExtrOcamlBasic.
From SV Require Import Lib.Base Model.WireBase Model.WireIpv6 Model.WireIcmpv6Hdr Model.WireNdiscOpt Model.WireNdisc.
Extraction Language OCaml.
Cd "../ocaml/gen".
Extraction "wire2ndisc_model.ml"
  blen wb_pseudo_ok wb_pseudo_fill wb_plain_ok wb_plain_fill
  ndopt_check_len ndopt_new_checked ndopt_option_type ndopt_data_len ndopt_link_layer_addr ndopt_mtu
  ndopt_prefix_len ndopt_prefix_flags ndopt_valid_lifetime ndopt_preferred_lifetime ndopt_prefix
  ndopt_data ndopt_parse ndopt_buffer_len ndopt_emit ndopt_wf
  icmp6h_check_len icmp6h_payload
  ndisc_current_hop_limit ndisc_router_flags ndisc_router_lifetime ndisc_reachable_time ndisc_retrans_time
  ndisc_target_addr ndisc_neighbor_flags ndisc_dest_addr
  ndisc_parse ndisc_buffer_len ndisc_emit ndisc_icmp_emit ndisc_icmp_parse ndisc_wf.
Cd "../../coq".
