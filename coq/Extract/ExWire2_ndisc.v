(* Extraction of the NDISC / NDISC-option wire-format models (group `ndisc` of the second wave)
   for the correspondence driver ocaml/drv_wire2_ndisc.ml.  ExtrOcamlBasic only; Z, positive,
   nat stay the extracted inductive types. *)
From Coq Require Extraction ExtrOcamlBasic.
From SV Require Import Lib.Base Model.WireBase Model.WireIpv6 Model.WireNdiscOpt.
Extraction Language OCaml.
Cd "../ocaml/gen".
Extraction "wire2ndisc_model.ml"
  blen wb_pseudo_ok wb_pseudo_fill wb_plain_ok wb_plain_fill
  ndopt_check_len ndopt_new_checked ndopt_option_type ndopt_data_len ndopt_link_layer_addr ndopt_mtu
  ndopt_prefix_len ndopt_prefix_flags ndopt_valid_lifetime ndopt_preferred_lifetime ndopt_prefix
  ndopt_data ndopt_parse ndopt_buffer_len ndopt_emit ndopt_wf.
Cd "../../coq".
