(* Extraction of the checksum model for the correspondence driver (stream `cksum`).
   ExtrOcamlBasic only: bool/option/unit/list/prod/sumbool/sumor map to OCaml's;
   Z, positive, nat stay the extracted inductive types; no Extract Constant. *)
From Coq Require Extraction ExtrOcamlBasic.
From SV Require Import Lib.Base Model.Checksum.
Extraction Language OCaml.
Cd "../ocaml/gen".
Extraction "cksum_model.ml"
  cksum_propagate_carries cksum_data cksum_combine
  cksum_pseudo_header_v4 cksum_pseudo_header_v6 cksum_pseudo_header
  cksum_ipv4_verify cksum_ipv4_fill cksum_icmpv4_verify cksum_icmpv4_fill
  cksum_icmpv6_verify cksum_icmpv6_fill cksum_tcp_verify cksum_tcp_fill
  cksum_udp_verify cksum_udp_fill
  cksum_ipv4_parse_check cksum_icmpv4_parse_check cksum_icmpv6_parse_check
  cksum_tcp_parse_check cksum_udp_parse_check
  cksum_ipv4_emit_checksum cksum_icmpv4_emit_checksum cksum_icmpv6_emit_checksum
  cksum_tcp_emit_checksum cksum_udp_emit_checksum.
Cd "../../coq".
