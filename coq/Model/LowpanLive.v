(* Executable model of the two ends of the 6LoWPAN path AT THE OCTET LEVEL (property C20, liveness and
   composition part; builds on Model/LowpanFrag.v and Model/Lowpan.v, changes nothing there):

     egress   src/iface/interface/sixlowpan.rs  dispatch_sixlowpan (the `tx_token.consume` closures),
                                                dispatch_sixlowpan_frag:
              the octets written behind the IEEE 802.15.4 MAC header          lpl_frame_octets, lpl_tx_octets
     ingress  src/iface/interface/mod.rs        Interface::poll_ingress_single:
              `assembler.remove_expired(timestamp)` then, for the received frame,
              process_ieee802154 -> process_sixlowpan                          lpl_poll, lpl_run

   (Interface::poll = poll_maintenance, i.e. the same remove_expired once, followed by one
   socket_ingress per queued frame at the same timestamp: remove_expired is idempotent at a fixed
   timestamp and never frees a slot created at that timestamp, so a poll that finds n frames is n
   [lpl_poll]s with equal times.)

   A received frame is an [lpl_arrival]: the time of the poll that finds it, the link-layer
   addresses of its MAC header and the octets behind the MAC header.  `check!(..)` / `?` failures
   inside process_sixlowpan drop the frame (result None, reassembly state kept).

   Panic sources: the slice indexing of the closures ([wb_upto], [wb_from], [wb_set_slice]); those of
   the callees are in their own models.  No proofs in this file. *)
From SV Require Import Lib.Base Gen.Consts Gen.WireFields Model.WireBase Model.WireSixFrag Model.WireNhc.
From SV Require Import Model.WireIphc Model.Assembler Model.LowpanFrag Model.Lowpan.

(* the octets of an Ieee802154Address as they enter SixlowpanFragKey (Absent: none) *)
Definition lpl_ll_bytes (l : option iphc_ll) : list Z :=
  match l with
  | Some (LlShort a) => a
  | Some (LlExtended a) => a
  | _ => []
  end.

(* ---------- egress: one frame as octets ---------- *)

(* size of the transmit buffer region behind the MAC header:
   `tx_token.consume(ieee_len + frag.buffer_len() + frag_size, ..)` / `consume(total_size + ieee_len, ..)` *)
Definition lpl_txbuf_len (f : lpf_frame) : Z :=
  match fr_hdr f with Some h => sixfrag_buffer_len h | None => 0 end + blen (fr_payload f).

(* [txbuf]: the transmit buffer behind the MAC header, with whatever it held before.
   FRAG1 (dispatch_sixlowpan):       frag1.emit(&mut SixlowpanFragPacket::new_unchecked(&mut tx_buf));
                                     tx_buf = &mut tx_buf[frag1.buffer_len()..];
                                     tx_buf[..frag1_size].copy_from_slice(&pkt.buffer[..frag1_size]);
   FRAGN (dispatch_sixlowpan_frag):  fragn.emit(&mut ..new_unchecked(&mut tx_buf[..fragn.buffer_len()]));
                                     tx_buf = &mut tx_buf[fragn.buffer_len()..];
                                     tx_buf[..frag_size].copy_from_slice(&frag.buffer[frag.sent_bytes..][..frag_size]);
   unfragmented:                     ipv6_to_sixlowpan wrote the compressed packet itself ([fr_payload], see lp_dispatch) *)
Definition lpl_frame_octets (f : lpf_frame) (txbuf : list Z) : outcome (list Z) :=
  match fr_hdr f with
  | None => Ok (fr_payload f)
  | Some (SfFirst _ _ as h) =>
      do b <- sixfrag_emit h txbuf;
      do hd <- wb_upto b (sixfrag_buffer_len h);
      do rest <- wb_from b (sixfrag_buffer_len h);
      do rest' <- wb_set_slice rest 0 (blen (fr_payload f)) (fr_payload f);
      Ok (hd ++ rest')
  | Some (SfNext _ _ _ as h) =>
      do h0 <- wb_upto txbuf (sixfrag_buffer_len h);
      do hd <- sixfrag_emit h h0;
      do rest <- wb_from txbuf (sixfrag_buffer_len h);
      do rest' <- wb_set_slice rest 0 (blen (fr_payload f)) (fr_payload f);
      Ok (hd ++ rest')
  end.

(* every frame of one transmission, each into a transmit buffer pre-filled with [txfill] *)
Fixpoint lpl_frames_octets (fs : list lpf_frame) (txfill : Z) : outcome (list (list Z)) :=
  match fs with
  | [] => Ok []
  | f :: r =>
      do o <- lpl_frame_octets f (repeat txfill (Z.to_nat (lpl_txbuf_len f)));
      do os <- lpl_frames_octets r txfill;
      Ok (o :: os)
  end.

(* dispatch_ieee802154 + dispatch_sixlowpan + the sixlowpan_egress calls that follow, for one
   datagram: what the device sees behind the MAC headers, frame by frame
   ([fill]: old content of the fragmentation buffer, [txfill]: of the transmit buffers) *)
Definition lpl_tx_octets (d : lp_dgram) (ll_src ll_dst : option iphc_ll) (tag fill txfill : Z)
  : outcome (list (list Z)) :=
  do fs <- lp_dispatch d (lpl_ll_bytes ll_src) (lpl_ll_bytes ll_dst) ll_src ll_dst tag fill;
  lpl_frames_octets fs txfill.

(* ---------- ingress: polls ---------- *)

Record lpl_arrival := mkArrival {
  ar_time : Z;                       (* timestamp of the poll that receives the frame *)
  ar_lls : option iphc_ll;           (* ieee802154_repr.src_addr *)
  ar_lld : option iphc_ll;           (* ieee802154_repr.dst_addr *)
  ar_payload : list Z }.             (* ieee802154_frame.payload() *)

(* Interface::poll_ingress_single(timestamp) receiving this frame:
   remove_expired(timestamp), then process_sixlowpan; a `check!` failure drops the frame *)
Definition lpl_poll (ctx : list (list Z)) (timeout : Z) (a : lpl_arrival) (ss : list lpf_slot)
  : outcome (list lpf_slot * option (list Z)) :=
  let ss := lpf_remove_expired (ar_time a) ss in
  match lp_process_sixlowpan ctx (ar_time a) timeout (lpl_ll_bytes (ar_lls a)) (lpl_ll_bytes (ar_lld a))
          (ar_lls a) (ar_lld a) (ar_payload a) ss with
  | Ok r => Ok r
  | Err _ => Ok (ss, None)
  | Panic => Panic
  end.

(* a sequence of polls: the final reassembly state and, per arrival, the IPv6 packet handed to
   process_ipv6 (if any) *)
Fixpoint lpl_run (ctx : list (list Z)) (timeout : Z) (arr : list lpl_arrival) (ss : list lpf_slot)
  : outcome (list lpf_slot * list (option (list Z))) :=
  match arr with
  | [] => Ok (ss, [])
  | a :: r =>
      do '(ss1, d) <- lpl_poll ctx timeout a ss;
      do '(ss2, ds) <- lpl_run ctx timeout r ss1;
      Ok (ss2, d :: ds)
  end.
