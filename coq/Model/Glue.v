(* Executable model of the ingress "glue" arithmetic on attacker-controlled lengths that is not
   part of any wire decoder (property C03):

   - icmp_reply_payload_len (src/iface/packet.rs): how much of an offending packet is quoted in
     an ICMP error, `len.min(mtu - header_len * 2 - 8)` in usize arithmetic (underflow = Panic);
   - the quoting slice `&ip_payload[0..payload_len]` of process_udp / process_nxt_hdr /
     process_hopbyhop / process_ipv4's protocol-unreachable;
   - process_hopbyhop (src/iface/interface/ipv6.rs): the option walk's verdict
     (skip / discard / discard+notify / discard+notify-unless-multicast) and the slice
     `&ip_payload[ext.header_len() + ext.data.len()..]` handed to the next header.

   Lengths are Z; every usize subtraction and slice is in the outcome monad. No proofs here. *)
From SV Require Import Lib.Base Gen.Consts.

Definition g_usub (a b : Z) : outcome Z := if a - b <? 0 then Panic else Ok (a - b).

(* slice a[lo..hi] of a buffer of length n: only the bounds matter here *)
Definition g_slice_ok (n lo hi : Z) : outcome Z :=
  if (lo <=? hi) && (hi <=? n) then Ok (hi - lo) else Panic.

Definition glue_icmp_reply_payload_len (len mtu header_len : Z) : outcome Z :=
  do a <- g_usub mtu (header_len * 2);
  do b <- g_usub a 8;
  Ok (Z.min len b).

(* length of the data quoted by an ICMP error about a packet with [len] payload bytes *)
Definition glue_quote (len mtu header_len : Z) : outcome Z :=
  do n <- glue_icmp_reply_payload_len len mtu header_len;
  g_slice_ok len 0 n.

(* IPv4: Ipv4Repr::buffer_len() is always the option-less header; IPv6: the fixed header *)
Definition glue_quote_v4 (len : Z) : outcome Z := glue_quote len wipv4_MIN_MTU wipv4_HEADER_LEN.
Definition glue_quote_v6 (len : Z) : outcome Z := glue_quote len wipv6_MIN_MTU wipv6_HEADER_LEN.

(* total size of the ICMP error datagram: IP header + 8 bytes ICMP header + quoted IP header + data *)
Definition glue_error_size (header_len data : Z) : Z := header_len + 8 + header_len + data.

(* --- hop-by-hop --- *)
Inductive hbh_verdict := HbhContinue (rest_len : Z) | HbhDiscard | HbhDiscardNotify (quoted : Z).

(* failure type of an unknown option type: the two top bits *)
Definition hbh_failure (opt_type : Z) : Z := (opt_type / 64) mod 4.

(* [len] = ip payload length, [l] = the extension header's length field (the header occupies
   (l+1)*8 bytes, which Ipv6ExtHeader::new_checked has verified to fit), [unknown] = types of the
   unknown options in order of appearance (known ones are skipped), [dst_mcast]. *)
Fixpoint hbh_walk (unknown : list Z) (dst_mcast : bool) (len : Z) : option (outcome hbh_verdict) :=
  match unknown with
  | [] => None
  | t :: rest =>
      match hbh_failure t with
      | 0 => hbh_walk rest dst_mcast len
      | 1 => Some (Ok HbhDiscard)
      | 2 => Some (do q <- glue_quote_v6 len; Ok (HbhDiscardNotify q))
      | _ => if dst_mcast then Some (Ok HbhDiscard)
             else Some (do q <- glue_quote_v6 len; Ok (HbhDiscardNotify q))
      end
  end.

Definition glue_process_hopbyhop (len l : Z) (unknown : list Z) (dst_mcast : bool)
  : outcome hbh_verdict :=
  if len <? (l + 1) * 8 then Err 1      (* new_checked fails: packet dropped *)
  else match hbh_walk unknown dst_mcast len with
       | Some v => v
       | None =>
           (* &ip_payload[header_len() + data.len() ..] with header_len = 2, data = (l+1)*8 - 2 *)
           do r <- g_slice_ok len (2 + ((l + 1) * 8 - 2)) len;
           Ok (HbhContinue r)
       end.
