(* Executable models of smoltcp's datagram sockets (property C09):
     src/socket/udp.rs, src/socket/icmp.rs, src/socket/raw.rs
   over the packet-queue specification Model/DgramQueue.v, plus an abstract model of the
   part of the interface that moves datagrams between sockets and the device
   (src/iface/interface/mod.rs: poll, socket_ingress, socket_egress, dispatch_ip,
   lookup_hardware_addr, has_neighbor; src/iface/socket_meta.rs; the lookup/limit_rate part
   of src/iface/neighbor.rs; src/iface/interface/udp.rs process_udp; the socket-facing part of
   process_ipv4/process_ipv6/process_icmpv4/process_icmpv6).

   Function names mirror the Rust ones with the module as a prefix (udp_send = udp::Socket::send).
   A datagram is (metadata, payload byte list).  Addresses are opaque identities
   (DgramQueue.ipaddr); everything the code asks about an address (broadcast? multicast?
   source address selection, route, own address) comes from an explicit environment [env],
   so the theorems hold for every address plan; [std_env] is the plan used by the
   correspondence harness.

   Abstractions (see checks/C09.json not_modelled):
   - emit callbacks are function arguments; at the interface level their outcome is decided by
     the device budget, the neighbor cache and the MTU;
   - raw sockets: the IP header of a raw datagram is symbolic, a list of header_len numbers
     [version; protocol; hop limit; src id; dst id; payload length; 0; ...]; DESIGN 7 fixes that
     for raw sockets only the IpRepr fields and the payload are compared, not header bytes;
   - icmp sockets: the bytes are real ICMP messages; dispatch re-emits the parsed message, which
     is the identity except for the checksum field (bytes 2..3), which observations skip;
   - PacketMeta ids, wakers and IPv4 fragmentation of datagrams larger than the MTU but not
     larger than the fragmentation buffer are not modelled.

   No proofs in this file. *)
From SV Require Import Lib.Base Gen.Consts Model.DgramQueue.

(* ---------- error / result codes ---------- *)
Definition E_OK : Z := 0.
Definition E_Unaddressable : Z := 1.
Definition E_BufferFull : Z := 2.
Definition E_Exhausted : Z := 3.
Definition E_Truncated : Z := 4.
Definition E_InvalidState : Z := 5.

(* result of the emit callback passed to dispatch: Ok(()) or the interface's EgressError *)
Definition EMIT_OK : Z := 0.
Definition EMIT_EXHAUSTED : Z := 1.     (* device handed out no tx token *)
Definition EMIT_DISPATCH : Z := 2.      (* dispatch_ip failed: neighbor pending / no route *)
Definition EMIT_BUSY : Z := 3.          (* IPv4 fragmenter still holds unsent fragments: the packet stays in its socket *)

Definition PROTO_ICMP : Z := 1.
Definition PROTO_UDP : Z := 17.
Definition PROTO_ICMPV6 : Z := 58.
Definition DEFAULT_HOP_LIMIT : Z := 64.   (* `self.hop_limit.unwrap_or(64)` in all three dispatch functions *)

(* ---------- address environment ---------- *)
Record env := mkEnv {
  e_is_multicast : ipaddr -> bool;            (* IpAddress::is_multicast *)
  e_is_broadcast : ipaddr -> bool;            (* InterfaceInner::is_broadcast (incl. subnet broadcast) *)
  e_src_v4 : ipaddr -> option ipaddr;         (* get_source_address_ipv4 *)
  e_src_v6 : ipaddr -> ipaddr;                (* get_source_address_ipv6 *)
  e_has_ip_addr : ipaddr -> bool;             (* has_ip_addr *)
  e_route : ipaddr -> option ipaddr;          (* route(): next hop *)
  e_first_v4 : option ipaddr                  (* ipv4_addr() *)
}.

Definition env_get_source_address (ev : env) (dst : ipaddr) : option ipaddr :=
  if a_ver dst =? 4 then e_src_v4 ev dst else Some (e_src_v6 ev dst).

Definition ip_header_len (ver : Z) : Z := if ver =? 4 then wipv4_HEADER_LEN else wipv6_HEADER_LEN.

(* what a socket hands to the emit callback *)
Record ippacket := mkPkt {
  p_kind : Z;                 (* 1 udp, 2 icmp, 3 raw *)
  p_src : ipaddr;
  p_dst : ipaddr;
  p_proto : Z;
  p_hop : Z;
  p_sport : Z;                (* udp only *)
  p_dport : Z;                (* udp only *)
  p_payload : list Z;         (* udp payload / icmp message / raw ip payload *)
  p_iplen : Z                 (* IpRepr payload_len *)
}.

Definition zlen (l : list Z) : Z := Z.of_nat (length l).

(* result of recv / recv_slice / peek / peek_slice *)
Inductive rres :=
| RR_Err (e : Z)
| RR_Ok (n : Z) (m : dmeta) (data : list Z)
| RR_Trunc (size : Z) (dropped : option (dmeta * list Z)).   (* Err(Truncated); Some = the datagram recv_slice dropped *)

(* shared tail of recv_slice / peek_slice *)
Definition slice_result (cap : Z) (m : dmeta) (buffer : list Z) (dropped : bool) : rres :=
  if cap <? zlen buffer then RR_Trunc (zlen buffer) (if dropped then Some (m, buffer) else None)
  else let length := Z.min cap (zlen buffer) in
       RR_Ok length m (firstn (Z.to_nat length) buffer).

(* ====================================================================== *)
(* udp::Socket                                                            *)
(* ====================================================================== *)
Record udp_sock := mkUdp {
  u_addr : option ipaddr;       (* endpoint.addr *)
  u_port : Z;                   (* endpoint.port; 0 = not bound *)
  u_rx : pq;
  u_tx : pq;
  u_hop : option Z
}.

Definition udp_new (rx tx : pq) : udp_sock := mkUdp None 0 rx tx None.
Definition udp_set_rx (s : udp_sock) (q : pq) := mkUdp (u_addr s) (u_port s) q (u_tx s) (u_hop s).
Definition udp_set_tx (s : udp_sock) (q : pq) := mkUdp (u_addr s) (u_port s) (u_rx s) q (u_hop s).

Definition udp_is_open (s : udp_sock) : bool := negb (u_port s =? 0).
Definition udp_can_send (s : udp_sock) : bool := negb (pq_is_full (u_tx s)).
Definition udp_can_recv (s : udp_sock) : bool := negb (pq_is_empty (u_rx s)).
Definition udp_send_queue (s : udp_sock) : Z := pq_payload_bytes_count (u_tx s).
Definition udp_recv_queue (s : udp_sock) : Z := pq_payload_bytes_count (u_rx s).

Definition udp_set_hop_limit (s : udp_sock) (h : option Z) : outcome udp_sock :=
  match h with
  | Some 0 => Panic
  | _ => Ok (mkUdp (u_addr s) (u_port s) (u_rx s) (u_tx s) h)
  end.

Definition udp_bind (s : udp_sock) (addr : option ipaddr) (port : Z) : udp_sock * Z :=
  if port =? 0 then (s, E_Unaddressable)
  else if udp_is_open s then (s, E_InvalidState)
  else (mkUdp addr port (u_rx s) (u_tx s) (u_hop s), E_OK).

Definition udp_close (s : udp_sock) : udp_sock :=
  mkUdp None 0 (pq_reset (u_rx s)) (pq_reset (u_tx s)) (u_hop s).

Definition udp_send_checks (s : udp_sock) (m : dmeta) : Z :=
  if u_port s =? 0 then E_Unaddressable
  else if addr_is_unspecified (dm_addr m) then E_Unaddressable
  else if dm_port m =? 0 then E_Unaddressable
  else E_OK.

(* send(size, meta) followed by filling the returned buffer with [data] (= send_slice) *)
Definition udp_send (s : udp_sock) (size : Z) (m : dmeta) (data : list Z) : outcome (udp_sock * Z) :=
  if negb (udp_send_checks s m =? E_OK) then Ok (s, udp_send_checks s m)
  else do '(tx, ok) <- pq_enqueue (u_tx s) size m data;
       Ok (udp_set_tx s tx, if ok then E_OK else E_BufferFull).

(* send_with(max_size, meta, f): f writes [data] and returns its length *)
Definition udp_send_with (s : udp_sock) (max_size : Z) (m : dmeta) (data : list Z) : outcome (udp_sock * Z) :=
  if negb (udp_send_checks s m =? E_OK) then Ok (s, udp_send_checks s m)
  else do '(tx, ok) <- pq_enqueue_with (u_tx s) max_size m data;
       Ok (udp_set_tx s tx, if ok then E_OK else E_BufferFull).

Definition udp_recv (s : udp_sock) : outcome (udp_sock * rres) :=
  do '(rx, r) <- pq_dequeue (u_rx s);
  match r with
  | None => Ok (udp_set_rx s rx, RR_Err E_Exhausted)
  | Some (m, buf) => Ok (udp_set_rx s rx, RR_Ok (zlen buf) m buf)
  end.

(* recv_slice: the datagram is already dequeued when the size test fails *)
Definition udp_recv_slice (s : udp_sock) (cap : Z) : outcome (udp_sock * rres) :=
  do '(rx, r) <- pq_dequeue (u_rx s);
  match r with
  | None => Ok (udp_set_rx s rx, RR_Err E_Exhausted)
  | Some (m, buf) => Ok (udp_set_rx s rx, slice_result cap m buf true)
  end.

Definition udp_peek (s : udp_sock) : outcome (udp_sock * rres) :=
  do '(rx, r) <- pq_peek (u_rx s);
  match r with
  | None => Ok (udp_set_rx s rx, RR_Err E_Exhausted)
  | Some (m, buf) => Ok (udp_set_rx s rx, RR_Ok (zlen buf) m buf)
  end.

Definition udp_peek_slice (s : udp_sock) (cap : Z) : outcome (udp_sock * rres) :=
  do '(rx, r) <- pq_peek (u_rx s);
  match r with
  | None => Ok (udp_set_rx s rx, RR_Err E_Exhausted)
  | Some (m, buf) => Ok (udp_set_rx s rx, slice_result cap m buf false)
  end.

Definition udp_accepts (ev : env) (s : udp_sock) (dst_addr : ipaddr) (dst_port : Z) : bool :=
  if negb (u_port s =? dst_port) then false
  else match u_addr s with
       | Some a =>
           if negb (addr_eqb a dst_addr) && negb (e_is_broadcast ev dst_addr)
              && negb (e_is_multicast ev dst_addr)
           then false else true
       | None => true
       end.

(* process: enqueue (remote endpoint, Some dst) ++ payload; a refusal is only traced *)
Definition udp_process (s : udp_sock) (src : ipaddr) (sport : Z) (dst : ipaddr) (payload : list Z)
  : outcome (udp_sock * bool) :=
  do '(rx, ok) <- pq_enqueue (u_rx s) (zlen payload) (mkDM src sport (Some dst)) payload;
  Ok (udp_set_rx s rx, ok).

(* the body of the dequeue_with closure up to the emit call: None = "dropping", return Ok(()) *)
Definition udp_dispatch_packet (ev : env) (s : udp_sock) (m : dmeta) (payload : list Z)
  : option ippacket :=
  let hop := match u_hop s with Some h => h | None => DEFAULT_HOP_LIMIT end in
  let src := match dm_local m with
             | Some a => Some a
             | None => match u_addr s with
                       | Some a => Some a
                       | None => env_get_source_address ev (dm_addr m)
                       end
             end in
  match src with
  | None => None
  | Some src =>
      if negb (a_ver src =? a_ver (dm_addr m)) then None         (* different IP versions: "dropping" *)
      else Some (mkPkt 1 src (dm_addr m) PROTO_UDP hop (u_port s) (dm_port m) payload
                       (wudp_HEADER_LEN + zlen payload))
  end.

(* dispatch(cx, emit): result code 0 = Ok(()), otherwise the emit error *)
Definition udp_dispatch {E : Type} (ev : env) (s : udp_sock)
  (emit : ippacket -> E -> outcome (E * Z)) (e : E) : outcome (udp_sock * E * Z) :=
  do '(tx, e', r) <- pq_dequeue_with (u_tx s)
       (fun m payload e =>
          match udp_dispatch_packet ev s m payload with
          | None => Ok (e, EMIT_OK)
          | Some p => emit p e
          end) e;
  Ok (udp_set_tx s tx, e', match r with None => EMIT_OK | Some c => c end).

(* ====================================================================== *)
(* icmp::Socket                                                           *)
(* ====================================================================== *)
Inductive icmp_endpoint :=
| IE_Unspecified
| IE_Ident (id : Z)
| IE_Tcp (addr : option ipaddr) (port : Z)
| IE_Udp (addr : option ipaddr) (port : Z).

Definition icmp_ep_is_specified (e : icmp_endpoint) : bool :=
  match e with
  | IE_Unspecified => false
  | IE_Ident _ => true
  | IE_Tcp _ port => negb (port =? 0)
  | IE_Udp _ port => negb (port =? 0)
  end.

Record icmp_sock := mkIcmp { i_rx : pq; i_tx : pq; i_ep : icmp_endpoint; i_hop : option Z }.

Definition icmp_new (rx tx : pq) : icmp_sock := mkIcmp rx tx IE_Unspecified None.
Definition icmp_set_rx (s : icmp_sock) (q : pq) := mkIcmp q (i_tx s) (i_ep s) (i_hop s).
Definition icmp_set_tx (s : icmp_sock) (q : pq) := mkIcmp (i_rx s) q (i_ep s) (i_hop s).

Definition icmp_is_open (s : icmp_sock) : bool :=
  match i_ep s with IE_Unspecified => false | _ => true end.
Definition icmp_can_send (s : icmp_sock) : bool := negb (pq_is_full (i_tx s)).
Definition icmp_can_recv (s : icmp_sock) : bool := negb (pq_is_empty (i_rx s)).
Definition icmp_send_queue (s : icmp_sock) : Z := pq_payload_bytes_count (i_tx s).
Definition icmp_recv_queue (s : icmp_sock) : Z := pq_payload_bytes_count (i_rx s).

Definition icmp_set_hop_limit (s : icmp_sock) (h : option Z) : outcome icmp_sock :=
  match h with
  | Some 0 => Panic
  | _ => Ok (mkIcmp (i_rx s) (i_tx s) (i_ep s) h)
  end.

Definition icmp_bind (s : icmp_sock) (e : icmp_endpoint) : icmp_sock * Z :=
  if negb (icmp_ep_is_specified e) then (s, E_Unaddressable)
  else if icmp_is_open s then (s, E_InvalidState)
  else (mkIcmp (i_rx s) (i_tx s) e (i_hop s), E_OK).

(* the queue header of an icmp socket is the remote IpAddress *)
Definition icmp_hdr (a : ipaddr) : dmeta := mkDM a 0 None.

Definition icmp_send (s : icmp_sock) (size : Z) (a : ipaddr) (data : list Z) : outcome (icmp_sock * Z) :=
  if addr_is_unspecified a then Ok (s, E_Unaddressable)
  else do '(tx, ok) <- pq_enqueue (i_tx s) size (icmp_hdr a) data;
       Ok (icmp_set_tx s tx, if ok then E_OK else E_BufferFull).

Definition icmp_send_with (s : icmp_sock) (max_size : Z) (a : ipaddr) (data : list Z) : outcome (icmp_sock * Z) :=
  if addr_is_unspecified a then Ok (s, E_Unaddressable)
  else do '(tx, ok) <- pq_enqueue_with (i_tx s) max_size (icmp_hdr a) data;
       Ok (icmp_set_tx s tx, if ok then E_OK else E_BufferFull).

Definition icmp_recv (s : icmp_sock) : outcome (icmp_sock * rres) :=
  do '(rx, r) <- pq_dequeue (i_rx s);
  match r with
  | None => Ok (icmp_set_rx s rx, RR_Err E_Exhausted)
  | Some (m, buf) => Ok (icmp_set_rx s rx, RR_Ok (zlen buf) m buf)
  end.

Definition icmp_recv_slice (s : icmp_sock) (cap : Z) : outcome (icmp_sock * rres) :=
  do '(rx, r) <- pq_dequeue (i_rx s);
  match r with
  | None => Ok (icmp_set_rx s rx, RR_Err E_Exhausted)
  | Some (m, buf) => Ok (icmp_set_rx s rx, slice_result cap m buf true)
  end.

(* An ICMP message as seen by accepts_v4/accepts_v6/process_v4/process_v6: the IpRepr
   addresses, the message class, the echo identifier, the outcome of parsing the embedded
   datagram of an error message (UdpRepr::parse / TcpRepr::parse -> source port), and the
   bytes `icmp_repr.emit` writes (buffer_len of them). *)
Definition IK_ECHO_REQUEST : Z := 1.
Definition IK_ECHO_REPLY : Z := 2.
Definition IK_DST_UNREACHABLE : Z := 3.
Definition IK_TIME_EXCEEDED : Z := 4.
Definition IK_OTHER : Z := 5.

Record icmp_msg := mkIM {
  im_src : ipaddr;
  im_dst : ipaddr;
  im_kind : Z;
  im_ident : Z;
  im_inner_udp : option Z;
  im_inner_tcp : option Z;
  im_bytes : list Z
}.

Definition opt_addr_matches (a : option ipaddr) (dst : ipaddr) : bool :=
  match a with None => true | Some x => addr_eqb x dst end.

Definition icmp_accepts (s : icmp_sock) (m : icmp_msg) : bool :=
  let is_err := (im_kind m =? IK_DST_UNREACHABLE) || (im_kind m =? IK_TIME_EXCEEDED) in
  let is_echo := (im_kind m =? IK_ECHO_REQUEST) || (im_kind m =? IK_ECHO_REPLY) in
  match i_ep s with
  | IE_Udp a port =>
      if is_err && opt_addr_matches a (im_dst m)
      then match im_inner_udp m with Some sp => port =? sp | None => false end
      else false
  | IE_Tcp a port =>
      if is_err && opt_addr_matches a (im_dst m)
      then match im_inner_tcp m with Some sp => port =? sp | None => false end
      else false
  | IE_Ident id => if is_echo then im_ident m =? id else false
  | IE_Unspecified => false
  end.

Definition icmp_process (s : icmp_sock) (m : icmp_msg) : outcome (icmp_sock * bool) :=
  do '(rx, ok) <- pq_enqueue (i_rx s) (zlen (im_bytes m)) (icmp_hdr (im_src m)) (im_bytes m);
  Ok (icmp_set_rx s rx, ok).

(* Icmpv4Repr::parse / Icmpv6Repr::parse with ChecksumCapabilities::ignored(), restricted to the
   messages an application sends through an icmp socket (echo request / reply); everything
   else is "malformed packet in queue, dropping" *)
Definition icmp_tx_parses (ver : Z) (b : list Z) : bool :=
  (wicmpv4_HEADER_END <=? zlen b) &&
  (if ver =? 4 then (nth 0 b 0 =? 8) || (nth 0 b 0 =? 0) else (nth 0 b 0 =? 128) || (nth 0 b 0 =? 129)) &&
  (nth 1 b 0 =? 0).

Definition icmp_dispatch_packet (ev : env) (s : icmp_sock) (m : dmeta) (buf : list Z) : option ippacket :=
  let hop := match i_hop s with Some h => h | None => DEFAULT_HOP_LIMIT end in
  let dst := dm_addr m in
  if a_ver dst =? 4 then
    match e_src_v4 ev dst with
    | None => None
    | Some src =>
        if icmp_tx_parses 4 buf
        then Some (mkPkt 2 src dst PROTO_ICMP hop 0 0 buf (zlen buf))
        else None
    end
  else
    let src := e_src_v6 ev dst in
    if icmp_tx_parses 6 buf
    then Some (mkPkt 2 src dst PROTO_ICMPV6 hop 0 0 buf (zlen buf))
    else None.

Definition icmp_dispatch {E : Type} (ev : env) (s : icmp_sock)
  (emit : ippacket -> E -> outcome (E * Z)) (e : E) : outcome (icmp_sock * E * Z) :=
  do '(tx, e', r) <- pq_dequeue_with (i_tx s)
       (fun m buf e =>
          match icmp_dispatch_packet ev s m buf with
          | None => Ok (e, EMIT_OK)
          | Some p => emit p e
          end) e;
  Ok (icmp_set_tx s tx, e', match r with None => EMIT_OK | Some c => c end).

(* ====================================================================== *)
(* raw::Socket                                                            *)
(* ====================================================================== *)
Record raw_sock := mkRaw { r_ver : option Z; r_proto : option Z; r_rx : pq; r_tx : pq }.

Definition raw_new (ver proto : option Z) (rx tx : pq) : raw_sock := mkRaw ver proto rx tx.
Definition raw_set_rx (s : raw_sock) (q : pq) := mkRaw (r_ver s) (r_proto s) q (r_tx s).
Definition raw_set_tx (s : raw_sock) (q : pq) := mkRaw (r_ver s) (r_proto s) (r_rx s) q.

Definition raw_can_send (s : raw_sock) : bool := negb (pq_is_full (r_tx s)).
Definition raw_can_recv (s : raw_sock) : bool := negb (pq_is_empty (r_rx s)).
Definition raw_send_queue (s : raw_sock) : Z := pq_payload_bytes_count (r_tx s).
Definition raw_recv_queue (s : raw_sock) : Z := pq_payload_bytes_count (r_rx s).

Definition raw_send (s : raw_sock) (size : Z) (data : list Z) : outcome (raw_sock * Z) :=
  do '(tx, ok) <- pq_enqueue (r_tx s) size dm_default data;
  Ok (raw_set_tx s tx, if ok then E_OK else E_BufferFull).

Definition raw_send_with (s : raw_sock) (max_size : Z) (data : list Z) : outcome (raw_sock * Z) :=
  do '(tx, ok) <- pq_enqueue_with (r_tx s) max_size dm_default data;
  Ok (raw_set_tx s tx, if ok then E_OK else E_BufferFull).

Definition raw_recv (s : raw_sock) : outcome (raw_sock * rres) :=
  do '(rx, r) <- pq_dequeue (r_rx s);
  match r with
  | None => Ok (raw_set_rx s rx, RR_Err E_Exhausted)
  | Some (m, buf) => Ok (raw_set_rx s rx, RR_Ok (zlen buf) m buf)
  end.

Definition raw_recv_slice (s : raw_sock) (cap : Z) : outcome (raw_sock * rres) :=
  do '(rx, r) <- pq_dequeue (r_rx s);
  match r with
  | None => Ok (raw_set_rx s rx, RR_Err E_Exhausted)
  | Some (m, buf) => Ok (raw_set_rx s rx, slice_result cap m buf true)
  end.

Definition raw_peek (s : raw_sock) : outcome (raw_sock * rres) :=
  do '(rx, r) <- pq_peek (r_rx s);
  match r with
  | None => Ok (raw_set_rx s rx, RR_Err E_Exhausted)
  | Some (m, buf) => Ok (raw_set_rx s rx, RR_Ok (zlen buf) m buf)
  end.

Definition raw_peek_slice (s : raw_sock) (cap : Z) : outcome (raw_sock * rres) :=
  do '(rx, r) <- pq_peek (r_rx s);
  match r with
  | None => Ok (raw_set_rx s rx, RR_Err E_Exhausted)
  | Some (m, buf) => Ok (raw_set_rx s rx, slice_result cap m buf false)
  end.

Definition opt_z_differs (o : option Z) (x : Z) : bool :=
  match o with Some y => negb (y =? x) | None => false end.

Definition raw_accepts (s : raw_sock) (ver proto : Z) : bool :=
  if opt_z_differs (r_ver s) ver then false
  else if opt_z_differs (r_proto s) proto then false
  else true.

(* symbolic IP header: header_len numbers, the IpRepr fields first *)
Record iprepr := mkIpRepr { ir_ver : Z; ir_src : ipaddr; ir_dst : ipaddr; ir_proto : Z; ir_hop : Z; ir_plen : Z }.

Definition ip_hdr_sym (r : iprepr) : list Z :=
  [ir_ver r; ir_proto r; ir_hop r; a_id (ir_src r); a_id (ir_dst r); ir_plen r]
  ++ repeat 0 (Z.to_nat (ip_header_len (ir_ver r) - 6)).

(* process: ip_repr.emit into buf[..header_len], payload after it *)
Definition raw_process (s : raw_sock) (r : iprepr) (payload : list Z) : outcome (raw_sock * bool) :=
  let total_len := ip_header_len (ir_ver r) + zlen payload in
  do '(rx, ok) <- pq_enqueue (r_rx s) total_len dm_default (ip_hdr_sym r ++ payload);
  Ok (raw_set_rx s rx, ok).

(* the dequeue_with closure of raw::Socket::dispatch up to the emit call, on a symbolic header:
   IpVersion::of_packet (indexes byte 0), Ipv{4,6}Packet::new_checked (length checks),
   the protocol filter, Ipv{4,6}Repr::parse; the payload is packet.payload() *)
Definition raw_dispatch_packet (s : raw_sock) (buf : list Z) : option ippacket :=
  match buf with
  | [] => None                                          (* "sent empty packet, dropping" *)
  | ver :: _ =>
      if (ver =? 4) || (ver =? 6) then
        let hl := ip_header_len ver in
        if zlen buf <? hl then None                     (* new_checked: truncated header *)
        else
          let plen := nth 5 buf 0 in
          if zlen buf <? hl + plen then None            (* new_checked: shorter than total length *)
          else if opt_z_differs (r_proto s) (nth 1 buf 0) then None   (* wrong ip protocol *)
          else if nth 4 buf 0 =? 0 then None            (* unspecified destination *)
          else Some (mkPkt 3 (mkA ver (nth 3 buf 0)) (mkA ver (nth 4 buf 0)) (nth 1 buf 0) (nth 2 buf 0)
                           0 0 (firstn (Z.to_nat plen) (skipn (Z.to_nat hl) buf)) plen)
      else None                                         (* invalid IP version *)
  end.

Definition raw_dispatch {E : Type} (s : raw_sock)
  (emit : ippacket -> E -> outcome (E * Z)) (e : E) : outcome (raw_sock * E * Z) :=
  do '(tx, e', r) <- pq_dequeue_with (r_tx s)
       (fun _ buf e =>
          match raw_dispatch_packet s buf with
          | None => Ok (e, EMIT_OK)
          | Some p => emit p e
          end) e;
  Ok (raw_set_tx s tx, e', match r with None => EMIT_OK | Some c => c end).

(* ====================================================================== *)
(* one socket of any kind; API operations as data                         *)
(* ====================================================================== *)
Inductive sock := SUdp (u : udp_sock) | SIcmp (i : icmp_sock) | SRaw (r : raw_sock).

Definition sock_kind (s : sock) : Z := match s with SUdp _ => 1 | SIcmp _ => 2 | SRaw _ => 3 end.
Definition sock_rx (s : sock) : pq := match s with SUdp u => u_rx u | SIcmp i => i_rx i | SRaw r => r_rx r end.
Definition sock_tx (s : sock) : pq := match s with SUdp u => u_tx u | SIcmp i => i_tx i | SRaw r => r_tx r end.
Definition sock_can_send (s : sock) : bool :=
  match s with SUdp u => udp_can_send u | SIcmp i => icmp_can_send i | SRaw r => raw_can_send r end.
Definition sock_can_recv (s : sock) : bool :=
  match s with SUdp u => udp_can_recv u | SIcmp i => icmp_can_recv i | SRaw r => raw_can_recv r end.
Definition sock_send_queue (s : sock) : Z := pq_payload_bytes_count (sock_tx s).
Definition sock_recv_queue (s : sock) : Z := pq_payload_bytes_count (sock_rx s).
Definition sock_is_open (s : sock) : bool :=
  match s with SUdp u => udp_is_open u | SIcmp i => icmp_is_open i | SRaw _ => true end.

(* a datagram arriving for a socket (already matched by accepts) *)
Inductive arrival :=
| ArrUdp (src : ipaddr) (sport : Z) (dst : ipaddr) (payload : list Z)
| ArrIcmp (m : icmp_msg)
| ArrRaw (r : iprepr) (payload : list Z).

Inductive bindarg :=
| BindUdp (addr : option ipaddr) (port : Z)
| BindIcmp (e : icmp_endpoint).

Inductive sop :=
| OpBind (b : bindarg)
| OpClose
| OpSetHop (h : option Z)
| OpSend (size : Z) (m : dmeta) (data : list Z)          (* send + fill, = send_slice *)
| OpSendWith (max_size : Z) (m : dmeta) (data : list Z)
| OpRecv
| OpRecvSlice (cap : Z)
| OpPeek
| OpPeekSlice (cap : Z)
| OpProcess (a : arrival)                                 (* interface delivers an accepted arrival *)
| OpDispatch (emit_result : Z).                           (* interface polls the socket; outcome of the emit callback *)

Inductive sres :=
| SR_Unit
| SR_Code (e : Z)                                         (* bind / send: 0 = Ok *)
| SR_Recv (r : rres)
| SR_Process (stored : bool)
| SR_Dispatch (taken : option (dmeta * list Z))           (* the datagram at the head of the tx queue *)
              (emitted : option ippacket)                 (* what was handed to the emit callback *)
              (code : Z)                                  (* result of dispatch: 0 = Ok(()) *)
| SR_NA.                                                  (* the socket kind has no such operation *)

(* emit callback used by sock_step: records the packet, answers with the given code *)
Definition log_emit (code : Z) (p : ippacket) (e : option ippacket) : outcome (option ippacket * Z) :=
  Ok (Some p, code).

Definition sock_dispatch {E : Type} (ev : env) (s : sock)
  (emit : ippacket -> E -> outcome (E * Z)) (e : E) : outcome (sock * E * Z) :=
  match s with
  | SUdp u => do '(u', e', c) <- udp_dispatch ev u emit e; Ok (SUdp u', e', c)
  | SIcmp i => do '(i', e', c) <- icmp_dispatch ev i emit e; Ok (SIcmp i', e', c)
  | SRaw r => do '(r', e', c) <- raw_dispatch r emit e; Ok (SRaw r', e', c)
  end.

(* head of the tx queue as dispatch will see it (after a leading padding record is removed) *)
Definition sock_tx_head (s : sock) : option (dmeta * list Z) :=
  match pq_packets (sock_tx s) with x :: _ => Some x | [] => None end.

(* what dispatch makes of a queued datagram: None = silently dropped (documented cases) *)
Definition sock_prepare (ev : env) (s : sock) (h : dmeta) (d : list Z) : option ippacket :=
  match s with
  | SUdp u => udp_dispatch_packet ev u h d
  | SIcmp i => icmp_dispatch_packet ev i h d
  | SRaw r => raw_dispatch_packet r d
  end.

Definition sock_step (ev : env) (s : sock) (op : sop) : outcome (sock * sres) :=
  match op, s with
  | OpBind (BindUdp a p), SUdp u => let '(u', c) := udp_bind u a p in Ok (SUdp u', SR_Code c)
  | OpBind (BindIcmp e), SIcmp i => let '(i', c) := icmp_bind i e in Ok (SIcmp i', SR_Code c)
  | OpBind _, _ => Ok (s, SR_NA)
  | OpClose, SUdp u => Ok (SUdp (udp_close u), SR_Unit)
  | OpClose, _ => Ok (s, SR_NA)
  | OpSetHop h, SUdp u => do u' <- udp_set_hop_limit u h; Ok (SUdp u', SR_Unit)
  | OpSetHop h, SIcmp i => do i' <- icmp_set_hop_limit i h; Ok (SIcmp i', SR_Unit)
  | OpSetHop _, SRaw _ => Ok (s, SR_NA)
  | OpSend size m data, SUdp u => do '(u', c) <- udp_send u size m data; Ok (SUdp u', SR_Code c)
  | OpSend size m data, SIcmp i => do '(i', c) <- icmp_send i size (dm_addr m) data; Ok (SIcmp i', SR_Code c)
  | OpSend size m data, SRaw r => do '(r', c) <- raw_send r size data; Ok (SRaw r', SR_Code c)
  | OpSendWith mx m data, SUdp u => do '(u', c) <- udp_send_with u mx m data; Ok (SUdp u', SR_Code c)
  | OpSendWith mx m data, SIcmp i => do '(i', c) <- icmp_send_with i mx (dm_addr m) data; Ok (SIcmp i', SR_Code c)
  | OpSendWith mx m data, SRaw r => do '(r', c) <- raw_send_with r mx data; Ok (SRaw r', SR_Code c)
  | OpRecv, SUdp u => do '(u', r) <- udp_recv u; Ok (SUdp u', SR_Recv r)
  | OpRecv, SIcmp i => do '(i', r) <- icmp_recv i; Ok (SIcmp i', SR_Recv r)
  | OpRecv, SRaw r0 => do '(r', r) <- raw_recv r0; Ok (SRaw r', SR_Recv r)
  | OpRecvSlice cap, SUdp u => do '(u', r) <- udp_recv_slice u cap; Ok (SUdp u', SR_Recv r)
  | OpRecvSlice cap, SIcmp i => do '(i', r) <- icmp_recv_slice i cap; Ok (SIcmp i', SR_Recv r)
  | OpRecvSlice cap, SRaw r0 => do '(r', r) <- raw_recv_slice r0 cap; Ok (SRaw r', SR_Recv r)
  | OpPeek, SUdp u => do '(u', r) <- udp_peek u; Ok (SUdp u', SR_Recv r)
  | OpPeek, SRaw r0 => do '(r', r) <- raw_peek r0; Ok (SRaw r', SR_Recv r)
  | OpPeek, SIcmp _ => Ok (s, SR_NA)
  | OpPeekSlice cap, SUdp u => do '(u', r) <- udp_peek_slice u cap; Ok (SUdp u', SR_Recv r)
  | OpPeekSlice cap, SRaw r0 => do '(r', r) <- raw_peek_slice r0 cap; Ok (SRaw r', SR_Recv r)
  | OpPeekSlice _, SIcmp _ => Ok (s, SR_NA)
  | OpProcess (ArrUdp src sp dst pl), SUdp u => do '(u', ok) <- udp_process u src sp dst pl; Ok (SUdp u', SR_Process ok)
  | OpProcess (ArrIcmp m), SIcmp i => do '(i', ok) <- icmp_process i m; Ok (SIcmp i', SR_Process ok)
  | OpProcess (ArrRaw r pl), SRaw r0 => do '(r', ok) <- raw_process r0 r pl; Ok (SRaw r', SR_Process ok)
  | OpProcess _, _ => Ok (s, SR_NA)
  | OpDispatch code, _ =>
      do '(s', em, c) <- sock_dispatch ev s (log_emit code) None;
      Ok (s', SR_Dispatch (sock_tx_head s) em c)
  end.

Fixpoint sock_run (ev : env) (s : sock) (ops : list sop) : outcome (sock * list sres) :=
  match ops with
  | [] => Ok (s, [])
  | op :: rest =>
      do '(s1, r) <- sock_step ev s op;
      do '(s2, rs) <- sock_run ev s1 rest;
      Ok (s2, r :: rs)
  end.

(* ====================================================================== *)
(* interface                                                              *)
(* ====================================================================== *)
(* socket_meta.rs: None = Active, Some (neighbor, silent_until) = Waiting *)
Record smeta := mkMeta { m_wait : option (ipaddr * Z) }.
Definition meta_new : smeta := mkMeta None.

Definition sset := list (smeta * sock).

Inductive frame_in :=
| FI_Udp (src : ipaddr) (sport : Z) (dst : ipaddr) (dport : Z) (payload : list Z)
         (defect : Z)      (* 0 valid, 1 UdpPacket::new_checked fails (length field), 2 bad checksum *)
| FI_Icmp (m : icmp_msg) (valid : bool)
| FI_Other (r : iprepr) (payload : list Z)     (* a protocol the stack has no handler for *)
| FI_Neigh (a : ipaddr).                       (* ARP reply / neighbor advertisement (override) from a *)

Definition AUX_ARP_REQUEST : Z := 1.
Definition AUX_NEIGHBOR_SOLICIT : Z := 2.
Definition AUX_REPLY : Z := 3.                 (* stack-generated ICMP error / echo reply *)

Inductive frame_out :=
| FO_Pkt (p : ippacket)                        (* a whole socket datagram has left (unfragmented, or its last fragment) *)
| FO_Aux (kind : Z) (a : ipaddr)
| FO_Frag (off len : Z) (more : bool).         (* one IPv4 fragment: payload offset, payload length, MF *)

Record iface := mkIf {
  if_eth : bool;                    (* Medium::Ethernet (true) or Medium::Ip *)
  if_mtu : Z;                       (* caps.ip_mtu() *)
  if_now : Z;                       (* milliseconds *)
  if_neigh : list (ipaddr * Z);     (* neighbor cache: address, expires_at *)
  if_silent : Z;                    (* neighbor cache silent_until *)
  if_budget : option Z;             (* tx tokens the device still hands out; None = unlimited *)
  if_rxq : list frame_in;           (* frames waiting in the device *)
  if_out : list frame_out;          (* frames transmitted, oldest first *)
  if_frag : option (frame_out * Z * Z)
                                    (* Fragmenter: the packet being sent in fragments (as it is reported once
                                       complete), packet_len, sent_bytes; None = packet_len = sent_bytes = 0 *)
}.

Definition if_new (eth : bool) (mtu : Z) : iface := mkIf eth mtu 0 [] 0 None [] [] None.

Definition if_set_now (st : iface) (t : Z) :=
  mkIf (if_eth st) (if_mtu st) t (if_neigh st) (if_silent st) (if_budget st) (if_rxq st) (if_out st) (if_frag st).
Definition if_set_neigh (st : iface) (n : list (ipaddr * Z)) :=
  mkIf (if_eth st) (if_mtu st) (if_now st) n (if_silent st) (if_budget st) (if_rxq st) (if_out st) (if_frag st).
Definition if_set_silent (st : iface) (t : Z) :=
  mkIf (if_eth st) (if_mtu st) (if_now st) (if_neigh st) t (if_budget st) (if_rxq st) (if_out st) (if_frag st).
Definition if_set_budget (st : iface) (b : option Z) :=
  mkIf (if_eth st) (if_mtu st) (if_now st) (if_neigh st) (if_silent st) b (if_rxq st) (if_out st) (if_frag st).
Definition if_set_rxq (st : iface) (q : list frame_in) :=
  mkIf (if_eth st) (if_mtu st) (if_now st) (if_neigh st) (if_silent st) (if_budget st) q (if_out st) (if_frag st).
Definition if_set_out (st : iface) (o : list frame_out) :=
  mkIf (if_eth st) (if_mtu st) (if_now st) (if_neigh st) (if_silent st) (if_budget st) (if_rxq st) o (if_frag st).
Definition if_set_frag (st : iface) (f : option (frame_out * Z * Z)) :=
  mkIf (if_eth st) (if_mtu st) (if_now st) (if_neigh st) (if_silent st) (if_budget st) (if_rxq st) (if_out st) f.

(* Device::transmit / receive hand out a token unless the budget is exhausted *)
Definition if_has_token (st : iface) : bool :=
  match if_budget st with Some b => negb (b <=? 0) | None => true end.

(* TxToken::consume: one frame on the wire *)
Definition if_consume (st : iface) (f : frame_out) : iface :=
  let st1 := if_set_out st (if_out st ++ [f]) in
  if_set_budget st1 (match if_budget st with Some b => Some (b - 1) | None => None end).

(* ---- IPv4 fragmenter (src/iface/fragmentation.rs Fragmenter, interface/ipv4.rs ipv4_egress /
        dispatch_ipv4_frag, the fragmentation branch of dispatch_ip) ---- *)
(* Fragmenter::finished: packet_len == sent_bytes *)
Definition if_frag_finished (st : iface) : bool :=
  match if_frag st with None => true | Some (_, len, sent) => len =? sent end.

(* DeviceCapabilities::max_ipv4_fragment_size(header_len) *)
Definition if_max_frag (st : iface) : Z :=
  let payload_mtu := if_mtu st - wipv4_HEADER_LEN in
  payload_mtu - payload_mtu mod 8.

(* the datagram is reported (not transmitted again) when its last fragment has left *)
Definition if_report (st : iface) (f : frame_out) : iface := if_set_out st (if_out st ++ [f]).

(* ipv4_egress: reset a finished fragmenter, otherwise send the next fragment if the device
   hands out a token *)
Definition if_ipv4_egress (st : iface) : iface :=
  let st := if if_frag_finished st then if_set_frag st None else st in
  match if_frag st with
  | None => st
  | Some (f, len, sent) =>
      if (sent <? len) && if_has_token st then
        let n := Z.min (len - sent) (if_max_frag st) in
        let more := negb (len - sent =? n) in
        let st1 := if_consume st (FO_Frag (sent - wipv4_HEADER_LEN) n more) in
        let st2 := if_set_frag st1 (Some (f, len, sent + n)) in
        if more then st2 else if_report st2 f
      else st
  end.

(* neighbor::Cache::lookup: 0 Found, 1 NotFound, 2 RateLimited *)
Fixpoint neigh_find (l : list (ipaddr * Z)) (a : ipaddr) : option Z :=
  match l with
  | [] => None
  | (b, exp) :: rest => if addr_eqb a b then Some exp else neigh_find rest a
  end.

Definition neigh_lookup (st : iface) (a : ipaddr) : Z :=
  match neigh_find (if_neigh st) a with
  | Some exp => if if_now st <? exp then 0
                else if if_now st <? if_silent st then 2 else 1
  | None => if if_now st <? if_silent st then 2 else 1
  end.

Fixpoint neigh_insert (l : list (ipaddr * Z)) (a : ipaddr) (exp : Z) : list (ipaddr * Z) :=
  match l with
  | [] => [(a, exp)]
  | (b, e) :: rest => if addr_eqb a b then (b, exp) :: rest else (b, e) :: neigh_insert rest a exp
  end.

(* neighbor::Cache::fill (eviction of a full cache is not modelled) *)
Definition neigh_fill (st : iface) (a : ipaddr) : iface :=
  if_set_neigh st (neigh_insert (if_neigh st) a (if_now st + neigh_ENTRY_LIFETIME_ms)).

(* neighbor::Cache::reset_expiry_if_existing, called by process_ipv4 / process_ipv6 for every
   packet with a unicast destination that passed the destination check (the hardware address
   always matches in the modelled scope: one MAC per neighbour) *)
Definition neigh_refresh (ev : env) (st : iface) (src dst : ipaddr) : iface :=
  if if_eth st && e_has_ip_addr ev dst then
    match neigh_find (if_neigh st) src with
    | Some _ => neigh_fill st src
    | None => st
    end
  else st.

Definition if_has_neighbor (ev : env) (st : iface) (a : ipaddr) : bool :=
  match e_route ev a with
  | Some nh => if if_eth st then neigh_lookup st nh =? 0 else true
  | None => false
  end.

(* lookup_hardware_addr (Ethernet): true = Ok; false = Err (NoRoute / NeighborPending), in
   which case an ARP request / neighbor solicitation may have been transmitted *)
Definition if_lookup_hardware_addr (ev : env) (st : iface) (dst : ipaddr) : iface * bool :=
  if e_is_broadcast ev dst then (st, true)
  else if e_is_multicast ev dst then (st, true)
  else match e_route ev dst with
       | None => (st, false)
       | Some nh =>
           let a := neigh_lookup st nh in
           if a =? 0 then (st, true)
           else if a =? 2 then (st, false)
           else if a_ver nh =? 4 then
             match e_src_v4 ev nh with
             | None => (st, false)
             | Some _ =>
                 let st1 := if_consume st (FO_Aux AUX_ARP_REQUEST nh) in
                 (if_set_silent st1 (if_now st1 + neigh_SILENT_TIME_ms), false)
             end
           else
             let st1 := if_consume st (FO_Aux AUX_NEIGHBOR_SOLICIT nh) in
             (if_set_silent st1 (if_now st1 + neigh_SILENT_TIME_ms), false)
       end.

(* dispatch_ip for a packet to [dst] of IP version [ver] and total IP length [total], which
   appears on the wire as [f]: true = Ok(()) (transmitted, or its first fragment transmitted, or
   silently dropped because it exceeds the MTU and cannot be fragmented now), false = Err *)
Definition if_dispatch_ip (ev : env) (st : iface) (ver : Z) (dst : ipaddr) (total : Z) (f : frame_out)
  : outcome (iface * bool) :=
  if addr_is_unspecified dst then Panic                    (* assert!(!ip_repr.dst_addr().is_unspecified()) *)
  else
    let '(st1, ok) := if if_eth st then if_lookup_hardware_addr ev st dst else (st, true) in
    if negb ok then Ok (st1, false)
    else if total >? if_mtu st1 then
      if ver =? 4 then
        if cfg_FRAGMENTATION_BUFFER_SIZE <? total then Ok (st1, true)   (* "Fragmentation buffer is too small ... Dropping" *)
        else if negb (if_frag_finished st1) then Ok (st1, true)         (* "Fragmenter is busy with a previous packet. Dropping" *)
        else
          (* start fragmentation: the first fragment leaves now, the rest through ipv4_egress *)
          let n := if_max_frag st1 in
          let st2 := if_consume st1 (FO_Frag 0 n true) in
          Ok (if_set_frag st2 (Some (f, total, n + wipv4_HEADER_LEN)), true)
      else Ok (st1, true)                   (* IPv6: "fragmentation support is unimplemented. Dropping" *)
    else Ok (if_consume st1 f, true).

Definition pkt_total_len (p : ippacket) : Z := ip_header_len (a_ver (p_dst p)) + p_iplen p.

(* the `respond` closure of socket_egress; the environment is
   (interface, neighbor_addr, result = SocketStateChanged) *)
Definition egress_env : Type := (iface * option ipaddr * bool)%type.

Definition if_respond (ev : env) (p : ippacket) (e : egress_env) : outcome (egress_env * Z) :=
  let '(st, _, res) := e in
  let na := Some (p_dst p) in
  (* while fragments of a previous packet are unsent, the next packet of any socket stays in its
     socket: one that needs fragmentation would be dropped, one that does not would overtake the
     remaining fragments on the wire *)
  if negb (if_frag_finished st)
  then Ok ((st, na, res), EMIT_BUSY)
  else if negb (if_has_token st) then Ok ((st, na, res), EMIT_EXHAUSTED)
  else
    do '(st1, ok) <- if_dispatch_ip ev st (a_ver (p_dst p)) (p_dst p) (pkt_total_len p) (FO_Pkt p);
    if ok then Ok ((st1, na, true), EMIT_OK) else Ok ((st1, na, res), EMIT_DISPATCH).

(* Meta::egress_permitted *)
Definition meta_egress_permitted (ev : env) (st : iface) (m : smeta) : smeta * bool :=
  match m_wait m with
  | None => (m, true)
  | Some (neighbor, silent_until) =>
      if if_has_neighbor ev st neighbor then (mkMeta None, true)
      else if silent_until <=? if_now st then (m, true)
      else (m, false)
  end.

(* socket_egress: one pass over the socket set; result = (interface, sockets, SocketStateChanged).
   EMIT_BUSY (FragmenterBusy) is treated like Ok: the datagram stayed queued, nothing else happens. *)
Fixpoint if_socket_egress_go (ev : env) (st : iface) (done : sset) (todo : sset) (res : bool)
  : outcome (iface * sset * bool) :=
  match todo with
  | [] => Ok (st, rev done, res)
  | (m, sk) :: rest =>
      let '(m1, permitted) := meta_egress_permitted ev st m in
      if negb permitted then if_socket_egress_go ev st ((m1, sk) :: done) rest res
      else
        do '(sk', e', c) <- sock_dispatch ev sk (if_respond ev) (st, None, res);
        let '(st', na, res') := e' in
        if c =? EMIT_EXHAUSTED then Ok (st', rev done ++ (m1, sk') :: rest, res')     (* break *)
        else if c =? EMIT_DISPATCH then
          match na with
          | None => Panic                                   (* neighbor_addr.expect(..) *)
          | Some a =>
              let m2 := mkMeta (Some (a, if_now st' + meta_DISCOVERY_SILENT_TIME_ms)) in
              if_socket_egress_go ev st' ((m2, sk') :: done) rest res'
          end
        else if_socket_egress_go ev st' ((m1, sk') :: done) rest res'
  end.

Definition if_socket_egress (ev : env) (st : iface) (ss : sset) : outcome (iface * sset * bool) :=
  if_socket_egress_go ev st [] ss false.

(* the egress loop of Interface::poll: poll_egress until it reports PollResult::None *)
Fixpoint if_egress_loop (fuel : nat) (ev : env) (st : iface) (ss : sset) : outcome (iface * sset) :=
  match fuel with
  | O => Ok (st, ss)
  | S k =>
      (* poll_egress: ipv4_egress (one fragment), then socket_egress *)
      do '(st', ss', res) <- if_socket_egress ev (if_ipv4_egress st) ss;
      if res then if_egress_loop k ev st' ss' else Ok (st', ss')
  end.

Definition sset_items (ss : sset) : nat :=
  fold_right (fun x acc => (length (q_items (sock_tx (snd x))) + acc)%nat) O ss.

(* --- ingress --- *)
(* the response packet of socket_ingress is dispatched with the token that came with the frame;
   errors are only logged *)
Definition if_reply (ev : env) (st : iface) (ver : Z) (dst : ipaddr) (total : Z) : outcome iface :=
  do '(st', _) <- if_dispatch_ip ev st ver dst total (FO_Aux AUX_REPLY dst);
  Ok st'.

(* total length of the ICMP error the stack sends about a packet with [plen] bytes of IP payload:
   IP header + 8 + the offending header + icmp_reply_payload_len(plen, MIN_MTU, header_len) *)
Definition icmp_error_total (ver plen : Z) : Z :=
  let hl := ip_header_len ver in
  let min_mtu := if ver =? 4 then wipv4_MIN_MTU else wipv6_MIN_MTU in
  hl + 8 + hl + Z.min plen (min_mtu - hl * 2 - 8).

(* process_udp: the first udp socket that accepts gets the datagram; result = (sockets, handled) *)
Fixpoint if_process_udp (ev : env) (ss : sset) (src : ipaddr) (sport : Z) (dst : ipaddr) (dport : Z)
  (payload : list Z) : outcome (sset * bool) :=
  match ss with
  | [] => Ok ([], false)
  | (m, SUdp u) :: rest =>
      if udp_accepts ev u dst dport then
        do '(u', _) <- udp_process u src sport dst payload;
        Ok ((m, SUdp u') :: rest, true)
      else
        do '(rest', h) <- if_process_udp ev rest src sport dst dport payload;
        Ok ((m, SUdp u) :: rest', h)
  | x :: rest =>
      do '(rest', h) <- if_process_udp ev rest src sport dst dport payload;
      Ok (x :: rest', h)
  end.

(* process_icmpv4 / process_icmpv6: every icmp socket that accepts gets the message *)
Fixpoint if_process_icmp (ss : sset) (im : icmp_msg) : outcome sset :=
  match ss with
  | [] => Ok []
  | (m, SIcmp i) :: rest =>
      do rest' <- if_process_icmp rest im;
      if icmp_accepts i im then
        do '(i', _) <- icmp_process i im;
        Ok ((m, SIcmp i') :: rest')
      else Ok ((m, SIcmp i) :: rest')
  | x :: rest =>
      do rest' <- if_process_icmp rest im;
      Ok (x :: rest')
  end.

(* raw_socket_filter: every raw socket that accepts gets the packet *)
Fixpoint if_raw_socket_filter (ss : sset) (r : iprepr) (payload : list Z) : outcome (sset * bool) :=
  match ss with
  | [] => Ok ([], false)
  | (m, SRaw rs) :: rest =>
      do '(rest', h) <- if_raw_socket_filter rest r payload;
      if raw_accepts rs (ir_ver r) (ir_proto r) then
        do '(rs', _) <- raw_process rs r payload;
        Ok ((m, SRaw rs') :: rest', true)
      else Ok ((m, SRaw rs) :: rest', h)
  | x :: rest =>
      do '(rest', h) <- if_raw_socket_filter rest r payload;
      Ok (x :: rest', h)
  end.

(* is the packet for us?  (has_ip_addr || is_broadcast; multicast groups are not modelled) *)
Definition if_dst_ok (ev : env) (dst : ipaddr) : bool :=
  e_has_ip_addr ev dst || ((a_ver dst =? 4) && e_is_broadcast ev dst).

(* may icmpv4_reply / icmpv6_reply answer a packet that was sent to [dst]?  [echo]: the answer
   is an echo reply (allowed for IPv4 broadcast destinations) *)
Definition if_reply_allowed (ev : env) (dst : ipaddr) (echo : bool) : bool :=
  if a_ver dst =? 4 then
    if e_is_broadcast ev dst then
      echo && match e_first_v4 ev with Some _ => true | None => false end
    else true
  else true.

(* one frame through socket_ingress.  Precondition of the modelled scope: source addresses are
   unicast, and no raw socket is bound to a protocol carried by FI_Udp / FI_Icmp frames. *)
Definition if_process_frame (ev : env) (st : iface) (ss : sset) (f : frame_in) : outcome (iface * sset) :=
  match f with
  | FI_Neigh a => Ok (if if_eth st then neigh_fill st a else st, ss)
  | FI_Udp src sport dst dport payload defect =>
      (* process_ipv4 on Ethernet looks for a DHCP socket first and runs
         check!(UdpPacket::new_checked(..)) before the destination check *)
      if (a_ver dst =? 4) && if_eth st && (defect =? 1) then Ok (st, ss)
      else if negb (if_dst_ok ev dst) then Ok (st, ss)
      else
      let st := neigh_refresh ev st src dst in
      if negb (defect =? 0) then Ok (st, ss)
      else
        do '(ss', handled) <- if_process_udp ev ss src sport dst dport payload;
        if handled then Ok (st, ss')
        else if if_reply_allowed ev dst false
        then do st' <- if_reply ev st (a_ver src) src (icmp_error_total (a_ver src) (wudp_HEADER_LEN + zlen payload)); Ok (st', ss')
        else Ok (st, ss')
  | FI_Icmp im valid =>
      if negb (if_dst_ok ev (im_dst im)) then Ok (st, ss)
      else
      let st := neigh_refresh ev st (im_src im) (im_dst im) in
      if negb valid then Ok (st, ss)
      else
        do ss' <- if_process_icmp ss im;
        if (im_kind im =? IK_ECHO_REQUEST) && if_reply_allowed ev (im_dst im) true
        then do st' <- if_reply ev st (a_ver (im_src im)) (im_src im)
                          (ip_header_len (a_ver (im_src im)) + zlen (im_bytes im)); Ok (st', ss')
        else Ok (st, ss')
  | FI_Other r payload =>
      if ir_ver r =? 4 then
        (* IPv4: raw sockets see the packet before the destination check *)
        do '(ss', handled) <- if_raw_socket_filter ss r payload;
        if negb (if_dst_ok ev (ir_dst r)) then Ok (st, ss')
        else
        let st := neigh_refresh ev st (ir_src r) (ir_dst r) in
        if handled then Ok (st, ss')
        else if if_reply_allowed ev (ir_dst r) false
        then do st' <- if_reply ev st 4 (ir_src r) (icmp_error_total 4 (zlen payload)); Ok (st', ss')
        else Ok (st, ss')
      else
        if negb (if_dst_ok ev (ir_dst r)) then Ok (st, ss)
        else
          do '(ss', handled) <- if_raw_socket_filter ss r payload;
          let st := neigh_refresh ev st (ir_src r) (ir_dst r) in
          if handled then Ok (st, ss')
          else do st' <- if_reply ev st 6 (ir_src r) (icmp_error_total 6 (zlen payload)); Ok (st', ss')
  end.

(* the ingress loop of Interface::poll: while the device hands out a frame (and a tx token) *)
Fixpoint if_ingress_loop (fuel : nat) (ev : env) (st : iface) (ss : sset) : outcome (iface * sset) :=
  match fuel with
  | O => Ok (st, ss)
  | S k =>
      if negb (if_has_token st) then Ok (st, ss)
      else match if_rxq st with
           | [] => Ok (st, ss)
           | f :: rest =>
               do '(st', ss') <- if_process_frame ev (if_set_rxq st rest) ss f;
               if_ingress_loop k ev st' ss'
           end
  end.

Definition if_poll (ev : env) (st : iface) (ss : sset) (t : Z) : outcome (iface * sset) :=
  let st0 := if_set_now st t in
  do '(st1, ss1) <- if_ingress_loop (length (if_rxq st0)) ev st0 ss;
  if_egress_loop (S (sset_items ss1)) ev st1 ss1.

(* ====================================================================== *)
(* the whole system as driven by the correspondence stream `dgram`         *)
(* ====================================================================== *)
Inductive dg_event :=
| EvSock (k : nat) (op : sop)       (* an application call on socket k (never OpProcess / OpDispatch) *)
| EvInject (f : frame_in)
| EvBudget (b : option Z)
| EvPoll (t : Z)
| EvRemove (k : nat).                (* SocketSet::remove(handle): the slot stays, empty *)

Inductive dg_obs :=
| ObsSock (r : sres)
| ObsNone
| ObsFrames (l : list frame_out).

Fixpoint sset_update (ss : sset) (k : nat) (s : sock) : sset :=
  match ss, k with
  | [], _ => []
  | (m, _) :: rest, O => (m, s) :: rest
  | x :: rest, S k' => x :: sset_update rest k' s
  end.

(* an emptied slot of the SocketSet: the iterators skip it; modelled by a socket that accepts
   nothing (no IP version is 0) and has nothing queued and no room *)
Definition sock_removed : sock := SRaw (raw_new (Some 0) None (pq_new 0 0) (pq_new 0 0)).

Definition dg_step (ev : env) (st : iface) (ss : sset) (e : dg_event) : outcome (iface * sset * dg_obs) :=
  match e with
  | EvSock k op =>
      match nth_error ss k with
      | None => Ok (st, ss, ObsSock SR_NA)
      | Some (_, s) =>
          do '(s', r) <- sock_step ev s op;
          Ok (st, sset_update ss k s', ObsSock r)
      end
  | EvInject f => Ok (if_set_rxq st (if_rxq st ++ [f]), ss, ObsNone)
  | EvBudget b => Ok (if_set_budget st b, ss, ObsNone)
  | EvRemove k => Ok (st, sset_update ss k sock_removed, ObsNone)
  | EvPoll t =>
      do '(st', ss') <- if_poll ev (if_set_out st []) ss t;
      Ok (if_set_out st' [], ss', ObsFrames (if_out st'))
  end.

(* ---------- the address plan of the correspondence harness ----------
   [fam] = 4, 6 or 46: which address families the interface has (IFACE_MAX_ADDR_COUNT = 2: either
   two addresses of one family or one of each).
   IPv4 ids: 1 = 10.0.0.1/24 (own), 2 = 10.0.1.1/24 (own, only when fam = 4),
             3 = 10.0.0.2, 4 = 10.0.0.3, 5 = 10.0.1.2 (on-link neighbours), 6 = 10.9.9.9 (no route),
             7 = 10.0.0.255 (subnet broadcast), 8 = 255.255.255.255, 9 = 224.0.0.1 (multicast)
   IPv6 ids: 1 = fd00::1/64 (own), 2 = fd01::7/64 (own, only when fam = 6), 3 = fd00::2, 4 = fd00::3,
             5 = fd01::2, 6 = 2001:db8::99 (no route), 9 = ff02::1 (multicast), 10 = ::1 *)
Definition std_has (fam ver : Z) : bool := (fam =? ver) || (fam =? 46).
Definition std_second (fam : Z) (a : ipaddr) : bool := (fam =? a_ver a) && ((a_id a =? 2) || (a_id a =? 5)).
Definition std_has_ip_addr (fam : Z) (a : ipaddr) : bool :=
  (std_has fam (a_ver a) && (a_id a =? 1)) || ((fam =? a_ver a) && (a_id a =? 2)).
Definition std_is_broadcast (fam : Z) (a : ipaddr) : bool :=
  (a_ver a =? 4) && ((a_id a =? 8) || ((a_id a =? 7) && std_has fam 4)).
Definition std_on_link (fam : Z) (a : ipaddr) : bool :=
  (std_has fam (a_ver a) &&
     ((a_id a =? 1) || (a_id a =? 3) || (a_id a =? 4) || ((a_ver a =? 4) && (a_id a =? 7))))
  || std_second fam a.

Definition std_env (fam : Z) : env :=
  mkEnv
    (fun a => a_id a =? 9)
    (std_is_broadcast fam)
    (fun a => if std_has fam 4 then (if std_second fam a then Some (mkA 4 2) else Some (mkA 4 1)) else None)
    (fun a => if std_has fam 6
              then (if std_second fam a || ((fam =? 6) && (a_id a =? 9)) then mkA 6 2 else mkA 6 1)
              else mkA 6 10)   (* RFC 6724 rule 2 as implemented: the last own address wins for ff02::1 *)
    (std_has_ip_addr fam)
    (fun a => if std_on_link fam a || ((a_ver a =? 4) && (a_id a =? 8)) then Some a else None)
    (if std_has fam 4 then Some (mkA 4 1) else None).
