(* Executable model of smoltcp's Internet checksum code (property C08).  No proofs here.

   Source                                   model
   src/wire/ip.rs  mod checksum
     propagate_carries                      cksum_propagate_carries
     data                                   cksum_chunks / cksum_accum / cksum_data
     combine                                cksum_combine
     pseudo_header_v4 / _v6 / pseudo_header cksum_pseudo_header_v4 / _v6 / cksum_pseudo_header
   src/wire/ipv4.rs   Packet::{header_len, verify_checksum, fill_checksum}     cksum_ipv4_*
   src/wire/icmpv4.rs Packet::{verify_checksum, fill_checksum}                 cksum_icmpv4_*
   src/wire/icmpv6.rs Packet::{verify_checksum, fill_checksum}                 cksum_icmpv6_*
   src/wire/udp.rs    Packet::{len, checksum, verify_checksum, fill_checksum}  cksum_udp_*
   src/wire/tcp.rs    Packet::{verify_checksum, fill_checksum}                 cksum_tcp_*
   Repr::parse / Repr::emit checksum clauses (gated by phy::Checksum::rx()/tx()) cksum_*_parse_check / cksum_*_emit_checksum

   Conventions: a packet buffer is a [list Z] of bytes (0..255); u8/u16/u32 values are [Z];
   every Rust panic source (slice index out of range, debug-mode u32 overflow of the accumulator,
   address-family mismatch = unreachable!()) is [Panic] in the [outcome] monad.
   [be]  : endianness of the machine the code runs on (true = big endian).  `data` sums
           *native-endian* 16-bit words and converts with u16::to_be at the end, so the model
           takes the endianness as a parameter; the theorems hold for both.
   [dbg] : overflow-checks on (true: `accum += ..` panics on u32 overflow) or off (wraps).
   Field offsets come from Gen.WireFields (regenerated from the Rust `mod field` blocks). *)
From SV Require Import Lib.Base Gen.WireFields.

Definition cksum_u32_MAX : Z := 4294967295.

(* IpProtocol numbers (enum_with_unknown! in src/wire/ip.rs; `next_header.into()`).  Not a
   `const`, so not generated; validated by the correspondence stream (fill output depends on them). *)
Definition cksum_PROTO_TCP : Z := 6.
Definition cksum_PROTO_UDP : Z := 17.
Definition cksum_PROTO_ICMPV6 : Z := 58.

(* const fn propagate_carries(word: u32) -> u16 {
       let sum = (word >> 16) + (word & 0xffff);
       ((sum >> 16) as u16) + (sum as u16) }
   The result is the unbounded sum of the two u16 terms; that it never exceeds u16::MAX (no
   debug-overflow panic, no wrap) is theorem C08_propagate_carries_no_overflow. *)
Definition cksum_propagate_carries (word : Z) : Z :=
  let sum := Z.shiftr word 16 + Z.land word 65535 in
  (Z.shiftr sum 16) mod 65536 + sum mod 65536.

(* u16::from_ne_bytes([b0, b1]) *)
Definition cksum_u16_from_ne_bytes (be : bool) (b0 b1 : Z) : Z :=
  if be then b0 * 256 + b1 else b0 + b1 * 256.

(* u16::to_be(x): identity on a big-endian machine, swap_bytes on a little-endian one *)
Definition cksum_u16_to_be (be : bool) (x : Z) : Z :=
  if be then x else (x mod 256) * 256 + x / 256.

(* let (chunks, rem) = data.as_chunks::<4>();
   for chunk in chunks { accum += val_0 as u32; accum += val_1 as u32; }   -> (accum, rem) *)
Fixpoint cksum_chunks (be : bool) (data : list Z) (accum : Z) : Z * list Z :=
  match data with
  | b0 :: b1 :: b2 :: b3 :: rest =>
      cksum_chunks be rest
        (accum + cksum_u16_from_ne_bytes be b0 b1 + cksum_u16_from_ne_bytes be b2 b3)
  | rem => (accum, rem)
  end.

(* the u32 accumulator of `data`, as an unbounded integer (additions in source order) *)
Definition cksum_accum (be : bool) (data : list Z) : Z :=
  let '(accum, rem) := cksum_chunks be data 0 in
  (* Handle 2 bytes of tail, if present:  if rem.len() >= 2 { ...; rem = &rem[2..]; } *)
  let '(accum, rem) :=
    match rem with
    | b0 :: b1 :: rem' => (accum + cksum_u16_from_ne_bytes be b0 b1, rem')
    | _ => (accum, rem)
    end in
  (* Add the last remaining odd byte, if any:  u16::from_ne_bytes([value, 0]) *)
  match rem with
  | value :: _ => accum + cksum_u16_from_ne_bytes be value 0
  | [] => accum
  end.

(* pub fn data(data: &[u8]) -> u16.  All summands are non-negative, so some `accum += ..`
   overflows u32 iff the unbounded total exceeds u32::MAX: debug build panics, release wraps. *)
Definition cksum_data (dbg be : bool) (data : list Z) : outcome Z :=
  let accum := cksum_accum be data in
  if accum <=? cksum_u32_MAX then Ok (cksum_u16_to_be be (cksum_propagate_carries accum))
  else if dbg then Panic
  else Ok (cksum_u16_to_be be (cksum_propagate_carries (accum mod 4294967296))).

(* pub fn combine(checksums: &[u16]) -> u16.  The u32 accumulator cannot overflow for fewer than
   65538 words; every caller passes at most 5. *)
Definition cksum_combine (checksums : list Z) : Z :=
  cksum_propagate_carries (fold_left Z.add checksums 0).

(* let mut proto_len = [0u8; 4]; proto_len[1] = next_header.into();
   NetworkEndian::write_u16(&mut proto_len[2..4], length as u16); *)
Definition cksum_proto_len (next_header length : Z) : list Z :=
  [0; next_header; (length mod 65536) / 256; (length mod 65536) mod 256].

Definition cksum_pseudo_header_v4 (dbg be : bool) (src_addr dst_addr : list Z)
    (next_header length : Z) : outcome Z :=
  do a <- cksum_data dbg be src_addr;
  do b <- cksum_data dbg be dst_addr;
  do c <- cksum_data dbg be (cksum_proto_len next_header length);
  Ok (cksum_combine [a; b; c]).

Definition cksum_pseudo_header_v6 (dbg be : bool) (src_addr dst_addr : list Z)
    (next_header length : Z) : outcome Z :=
  do a <- cksum_data dbg be src_addr;
  do b <- cksum_data dbg be dst_addr;
  do c <- cksum_data dbg be (cksum_proto_len next_header length);
  Ok (cksum_combine [a; b; c]).

(* wire::IpAddress: octets of an IPv4 (4 bytes) or IPv6 (16 bytes) address *)
Inductive cksum_ipaddr : Type :=
| CkV4 (octets : list Z)
| CkV6 (octets : list Z).

Definition cksum_is_v4 (a : cksum_ipaddr) : bool :=
  match a with CkV4 _ => true | CkV6 _ => false end.

(* pub fn pseudo_header(src_addr: &Address, dst_addr: &Address, ..): mixed families = unreachable!() *)
Definition cksum_pseudo_header (dbg be : bool) (src_addr dst_addr : cksum_ipaddr)
    (next_header length : Z) : outcome Z :=
  match src_addr, dst_addr with
  | CkV4 s, CkV4 d => cksum_pseudo_header_v4 dbg be s d next_header length
  | CkV6 s, CkV6 d => cksum_pseudo_header_v6 dbg be s d next_header length
  | _, _ => Panic
  end.

(* ---- slices ---- *)

(* &data[..n] *)
Definition cksum_slice_to (data : list Z) (n : Z) : outcome (list Z) :=
  if (0 <=? n) && (n <=? Z.of_nat (length data)) then Ok (firstn (Z.to_nat n) data) else Panic.

(* NetworkEndian::read_u16(&data[field]) for a 2-byte field a..a+2 *)
Definition cksum_read_u16 (data : list Z) (field : Z * Z) : outcome Z :=
  match skipn (Z.to_nat (fst field)) data with
  | b0 :: b1 :: _ => Ok (b0 * 256 + b1)
  | _ => Panic
  end.

Fixpoint cksum_upd (l : list Z) (i : nat) (v : Z) : list Z :=
  match l, i with
  | [], _ => []
  | _ :: t, O => v :: t
  | h :: t, S i' => h :: cksum_upd t i' v
  end.

(* NetworkEndian::write_u16(&mut data[field], value) for a 2-byte field a..a+2 *)
Definition cksum_write_u16 (data : list Z) (field : Z * Z) (value : Z) : outcome (list Z) :=
  if snd field <=? Z.of_nat (length data) then
    let a := Z.to_nat (fst field) in
    Ok (cksum_upd (cksum_upd data a (value / 256)) (S a) (value mod 256))
  else Panic.

(* `!x` on u16 *)
Definition cksum_not16 (x : Z) : Z := 65535 - x.

(* ---- IPv4 header (src/wire/ipv4.rs) ---- *)

(* pub fn header_len(&self) -> u8 { (data[field::VER_IHL] & 0x0f) * 4 } *)
Definition cksum_ipv4_header_len (p : list Z) : outcome Z :=
  match nth_error p (Z.to_nat wipv4_f_VER_IHL) with
  | Some b => Ok (Z.land b 15 * 4)
  | None => Panic
  end.

(* checksum::data(&data[..self.header_len() as usize]) == !0 *)
Definition cksum_ipv4_verify (dbg be : bool) (p : list Z) : outcome bool :=
  do hl <- cksum_ipv4_header_len p;
  do d <- cksum_slice_to p hl;
  do c <- cksum_data dbg be d;
  Ok (c =? 65535).

Definition cksum_ipv4_fill (dbg be : bool) (p : list Z) : outcome (list Z) :=
  do p <- cksum_write_u16 p wipv4_f_CHECKSUM 0;
  do hl <- cksum_ipv4_header_len p;
  do d <- cksum_slice_to p hl;
  do c <- cksum_data dbg be d;
  cksum_write_u16 p wipv4_f_CHECKSUM (cksum_not16 c).

(* ---- ICMPv4 (src/wire/icmpv4.rs): the whole buffer is summed ---- *)

Definition cksum_icmpv4_verify (dbg be : bool) (p : list Z) : outcome bool :=
  do c <- cksum_data dbg be p;
  Ok (c =? 65535).

Definition cksum_icmpv4_fill (dbg be : bool) (p : list Z) : outcome (list Z) :=
  do p <- cksum_write_u16 p wicmpv4_f_CHECKSUM 0;
  do c <- cksum_data dbg be p;
  cksum_write_u16 p wicmpv4_f_CHECKSUM (cksum_not16 c).

(* ---- ICMPv6 (src/wire/icmpv6.rs): IPv6 pseudo header + whole buffer ---- *)

Definition cksum_icmpv6_verify (dbg be : bool) (src_addr dst_addr p : list Z) : outcome bool :=
  do ph <- cksum_pseudo_header_v6 dbg be src_addr dst_addr cksum_PROTO_ICMPV6 (Z.of_nat (length p));
  do c <- cksum_data dbg be p;
  Ok (cksum_combine [ph; c] =? 65535).

Definition cksum_icmpv6_fill (dbg be : bool) (src_addr dst_addr p : list Z) : outcome (list Z) :=
  do p <- cksum_write_u16 p wicmpv6_f_CHECKSUM 0;
  do ph <- cksum_pseudo_header_v6 dbg be src_addr dst_addr cksum_PROTO_ICMPV6 (Z.of_nat (length p));
  do c <- cksum_data dbg be p;
  cksum_write_u16 p wicmpv6_f_CHECKSUM (cksum_not16 (cksum_combine [ph; c])).

(* ---- TCP (src/wire/tcp.rs): pseudo header (either family) + whole buffer ---- *)

Definition cksum_tcp_verify (dbg be : bool) (src_addr dst_addr : cksum_ipaddr) (p : list Z)
    : outcome bool :=
  do ph <- cksum_pseudo_header dbg be src_addr dst_addr cksum_PROTO_TCP (Z.of_nat (length p));
  do c <- cksum_data dbg be p;
  Ok (cksum_combine [ph; c] =? 65535).

Definition cksum_tcp_fill (dbg be : bool) (src_addr dst_addr : cksum_ipaddr) (p : list Z)
    : outcome (list Z) :=
  do p <- cksum_write_u16 p wtcp_f_CHECKSUM 0;
  do ph <- cksum_pseudo_header dbg be src_addr dst_addr cksum_PROTO_TCP (Z.of_nat (length p));
  do c <- cksum_data dbg be p;
  cksum_write_u16 p wtcp_f_CHECKSUM (cksum_not16 (cksum_combine [ph; c])).

(* ---- UDP (src/wire/udp.rs): pseudo header + the first `len` bytes (length field) ---- *)

Definition cksum_udp_len (p : list Z) : outcome Z := cksum_read_u16 p wudp_f_LENGTH.
Definition cksum_udp_checksum (p : list Z) : outcome Z := cksum_read_u16 p wudp_f_CHECKSUM.

(* pub fn verify_checksum — as FIXED for defect D6: a zero checksum field means "no checksum"
   only when both addresses are IPv4; over IPv6 it is rejected.
       if self.checksum() == 0 {
           return match (src_addr, dst_addr) { (Ipv4(_), Ipv4(_)) => true, _ => false };
       }
       combine(&[pseudo_header(src, dst, Udp, self.len() as u32), data(&data[..self.len()])]) == !0 *)
Definition cksum_udp_verify (dbg be : bool) (src_addr dst_addr : cksum_ipaddr) (p : list Z)
    : outcome bool :=
  do ck <- cksum_udp_checksum p;
  if ck =? 0 then
    match src_addr, dst_addr with
    | CkV4 _, CkV4 _ => Ok true
    | _, _ => Ok false
    end
  else
    do len <- cksum_udp_len p;
    do ph <- cksum_pseudo_header dbg be src_addr dst_addr cksum_PROTO_UDP len;
    do d <- cksum_slice_to p len;
    do c <- cksum_data dbg be d;
    Ok (cksum_combine [ph; c] =? 65535).

(* pub fn fill_checksum: a computed 0 is transmitted as 0xffff *)
Definition cksum_udp_fill (dbg be : bool) (src_addr dst_addr : cksum_ipaddr) (p : list Z)
    : outcome (list Z) :=
  do p <- cksum_write_u16 p wudp_f_CHECKSUM 0;
  do len <- cksum_udp_len p;
  do ph <- cksum_pseudo_header dbg be src_addr dst_addr cksum_PROTO_UDP len;
  do d <- cksum_slice_to p len;
  do c <- cksum_data dbg be d;
  let checksum := cksum_not16 (cksum_combine [ph; c]) in
  cksum_write_u16 p wudp_f_CHECKSUM (if checksum =? 0 then 65535 else checksum).

(* ---- the checksum clause of Repr::parse / Repr::emit, gated by ChecksumCapabilities ----
   phy::Checksum::{Both, Rx, Tx, None}: rx() = Both|Rx, tx() = Both|Tx.  [rx]/[tx] below are those
   booleans for the protocol at hand.  parse_check = true means the checksum gate lets the packet
   through (parse goes on), false means `return Err(Error)`. *)

Definition cksum_ipv4_parse_check (rx dbg be : bool) (p : list Z) : outcome bool :=
  if rx then cksum_ipv4_verify dbg be p else Ok true.
Definition cksum_icmpv4_parse_check (rx dbg be : bool) (p : list Z) : outcome bool :=
  if rx then cksum_icmpv4_verify dbg be p else Ok true.
Definition cksum_icmpv6_parse_check (rx dbg be : bool) (src dst p : list Z) : outcome bool :=
  if rx then cksum_icmpv6_verify dbg be src dst p else Ok true.
Definition cksum_tcp_parse_check (rx dbg be : bool) (src dst : cksum_ipaddr) (p : list Z) : outcome bool :=
  if rx then cksum_tcp_verify dbg be src dst p else Ok true.

(* udp::Repr::parse:
     if checksum_caps.udp.rx() && !packet.verify_checksum(src_addr, dst_addr) {
         match (src_addr, dst_addr) {
             (&IpAddress::Ipv4(_), &IpAddress::Ipv4(_)) if packet.checksum() == 0 => (),
             _ => return Err(Error),
         } } *)
Definition cksum_udp_parse_check (rx dbg be : bool) (src dst : cksum_ipaddr) (p : list Z) : outcome bool :=
  if rx then
    do v <- cksum_udp_verify dbg be src dst p;
    if v then Ok true
    else
      match src, dst with
      | CkV4 _, CkV4 _ => do ck <- cksum_udp_checksum p; Ok (ck =? 0)
      | _, _ => Ok false
      end
  else Ok true.

(* Repr::emit: if checksum_caps.X.tx() { packet.fill_checksum(..) } else { packet.set_checksum(0) } *)
Definition cksum_ipv4_emit_checksum (tx dbg be : bool) (p : list Z) : outcome (list Z) :=
  if tx then cksum_ipv4_fill dbg be p else cksum_write_u16 p wipv4_f_CHECKSUM 0.
Definition cksum_icmpv4_emit_checksum (tx dbg be : bool) (p : list Z) : outcome (list Z) :=
  if tx then cksum_icmpv4_fill dbg be p else cksum_write_u16 p wicmpv4_f_CHECKSUM 0.
Definition cksum_icmpv6_emit_checksum (tx dbg be : bool) (src dst p : list Z) : outcome (list Z) :=
  if tx then cksum_icmpv6_fill dbg be src dst p else cksum_write_u16 p wicmpv6_f_CHECKSUM 0.
Definition cksum_tcp_emit_checksum (tx dbg be : bool) (src dst : cksum_ipaddr) (p : list Z) : outcome (list Z) :=
  if tx then cksum_tcp_fill dbg be src dst p else cksum_write_u16 p wtcp_f_CHECKSUM 0.
Definition cksum_udp_emit_checksum (tx dbg be : bool) (src dst : cksum_ipaddr) (p : list Z) : outcome (list Z) :=
  if tx then cksum_udp_fill dbg be src dst p else cksum_write_u16 p wudp_f_CHECKSUM 0.
