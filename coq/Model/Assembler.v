(* Executable model of smoltcp::storage::Assembler (src/storage/assembler.rs).

   The Rust structure is a fixed array of ASSEMBLER_MAX_SEGMENT_COUNT contigs, the
   used ones (data_size <> 0) first.  The model keeps only the used contigs in a
   list and carries the capacity [n] as a parameter, so the theorems hold for every
   capacity (4, 32, ...).  All sizes are [Z]; the usize subtractions of the source
   are shown not to underflow by the invariant [asm_wf] (Proofs/AssemblerProofs.v).

   No proofs in this file: it must still run when a proof breaks. *)
From SV Require Import Lib.Base.

Record contig := mkContig { c_hole : Z; c_data : Z }.

Definition c_total (c : contig) : Z := c_hole c + c_data c.

Definition asm := list contig.

Definition asm_new : asm := [].

Definition asm_clear (l : asm) : asm := [].

(* peek_front: length of the front contiguous range, 0 if there is a hole first *)
Definition asm_peek_front (l : asm) : Z :=
  match l with
  | [] => 0
  | c :: _ => if c_hole c =? 0 then c_data c else 0
  end.

Definition asm_is_empty (l : asm) : bool :=
  match l with [] => true | _ => false end.

(* the tail of [add] after the start contig [c] has been fixed: the "coalesce
   contigs to the right" loop followed by the final extension; [e] = offset+size
   relative to the start of [c]. *)
Definition asm_finish (c : contig) (rest : list contig) (e : Z) : list contig :=
  if e >? c_total c then
    let left := e - c_total c in
    mkContig (c_hole c) (c_data c + left) ::
      match rest with
      | d :: r => mkContig (c_hole d - left) (c_data d) :: r
      | [] => []
      end
  else c :: rest.

Fixpoint asm_coalesce (c : contig) (rest : list contig) (e : Z) : list contig :=
  match rest with
  | d :: rest' =>
      if e >=? c_total c + c_hole d
      then asm_coalesce (mkContig (c_hole c) (c_data c + c_total d)) rest' e
      else asm_finish c rest e
  | [] => asm_finish c [] e
  end.

(* [full] = every slot of the Rust array is in use (back().has_data()). *)
Fixpoint asm_add_go (full : bool) (l : list contig) (offset size : Z)
  : option (list contig) :=
  match l with
  | [] =>
      (* after all previous ranges *)
      if full then None else Some [mkContig offset size]
  | c :: rest =>
      if offset <=? c_total c then
        if offset <? c_hole c then
          if offset + size <? c_hole c then
            (* starts and ends within the hole: needs a fresh contig *)
            if full then None
            else Some (mkContig offset size
                       :: mkContig (c_hole c - (offset + size)) (c_data c) :: rest)
          else
            (* shrink_hole_to offset *)
            Some (asm_coalesce (mkContig offset (c_total c - offset)) rest (offset + size))
        else Some (asm_coalesce c rest (offset + size))
      else
        match asm_add_go full rest (offset - c_total c) size with
        | Some rest' => Some (c :: rest')
        | None => None
        end
  end.

Definition asm_full (n : Z) (l : asm) : bool := n <=? Z.of_nat (length l).

(* add: returns the new state and whether the call succeeded (Err = false);
   a failed call returns the old state. *)
Definition asm_add (n : Z) (l : asm) (offset size : Z) : asm * bool :=
  if size =? 0 then (l, true)
  else match asm_add_go (asm_full n l) l offset size with
       | Some l' => (l', true)
       | None => (l, false)
       end.

Definition asm_remove_front (l : asm) : asm * Z :=
  match l with
  | [] => ([], 0)
  | c :: rest => if c_hole c =? 0 then (rest, c_data c) else (l, 0)
  end.

(* add_then_remove_front: Some n = Ok(n), None = Err(TooManyHoles) *)
Definition asm_atrf (n : Z) (l : asm) (offset size : Z) : asm * option Z :=
  let h0 := match l with [] => 0 | c :: _ => c_hole c end in
  if (offset =? 0) && (size <? h0) then
    match l with
    | c :: rest => (mkContig (c_hole c - size) (c_data c) :: rest, Some size)
    | [] => (l, Some size) (* unreachable: h0 = 0 <= size *)
    end
  else
    let '(l1, ok) := asm_add n l offset size in
    if ok then let '(l2, r) := asm_remove_front l1 in (l2, Some r)
    else (l, None).

(* iter_data: the (start, end) pairs of the tracked ranges *)
Fixpoint asm_ranges (base : Z) (l : asm) : list (Z * Z) :=
  match l with
  | [] => []
  | c :: rest =>
      (base + c_hole c, base + c_total c) :: asm_ranges (base + c_total c) rest
  end.

Definition asm_iter_data (l : asm) : list (Z * Z) := asm_ranges 0 l.

(* --- operations as a datatype, for the correspondence driver and the
       "every sequence of operations" theorems --- *)
Inductive asm_op :=
| AAdd (o s : Z)
| ARemoveFront
| AAtrf (o s : Z)
| AClear.

(* observable result of one op: a code and a value
   (add: 1/0 ok; remove_front: size; atrf: size or -1; clear: 0) *)
Definition asm_step (n : Z) (l : asm) (op : asm_op) : asm * Z :=
  match op with
  | AAdd o s => let '(l', ok) := asm_add n l o s in (l', if ok then 1 else 0)
  | ARemoveFront => asm_remove_front l
  | AAtrf o s => let '(l', r) := asm_atrf n l o s in
                 (l', match r with Some k => k | None => -1 end)
  | AClear => (asm_clear l, 0)
  end.

Fixpoint asm_run (n : Z) (l : asm) (ops : list asm_op) : asm :=
  match ops with
  | [] => l
  | op :: ops' => asm_run n (fst (asm_step n l op)) ops'
  end.
