(* Bounded packet queue used by the datagram sockets (property C09).

   This is the queue *specification* the udp / icmp / raw socket models are written over:
   a FIFO of (header, payload) records with a metadata-slot capacity [q_mcap] and a
   payload-byte capacity [q_pcap], with EXACTLY the acceptance rule of
   smoltcp::storage::PacketBuffer (src/storage/packet_buffer.rs): which datagrams are
   refused is observable, and that depends on the position of the payload ring
   ([q_read], [q_len]), on the contiguous window and on padding records inserted when a
   packet has to wrap around.  The payload bytes themselves are kept in the records
   (that the byte storage of the real ring holds them is what property C14 proves about
   PacketBuffer; this file does not depend on it).

   Mirrors, one definition per Rust function:
     RingBuffer (payload ring, src/storage/ring_buffer.rs): window, get_idx, contiguous_window,
       clear, enqueue_many[_with], dequeue_many[_with], get_allocated(0, n)
     PacketBuffer: enqueue, enqueue_with_infallible, dequeue_padding, dequeue_with, dequeue,
       peek, is_empty, is_full, reset, payload_bytes_count
   The metadata ring is the list [q_items] (its own read position is not observable).

   Panic sources of the Rust code and how they appear here:
     - `metadata.header.unwrap()` on a padding record            -> Panic
     - `debug_assert!(payload_buf.len() == size)` (debug build)   -> Panic
     - `&mut payload_buf[..metadata.size]` / `data[..max_size]`   -> Panic
     - `copy_from_slice` length mismatch in the callers           -> Panic
   Proofs/DgramProofs.v shows that none of them is reachable from a new queue
   (invariant [pq_wf]).

   The header type is one record for the three socket kinds: udp uses all fields
   (UdpMetadata: endpoint + local_address), icmp only [dm_addr] (IpAddress), raw none (()).

   No proofs in this file. *)
From SV Require Import Lib.Base.

(* IP address: version (4 / 6) and an opaque identity; identity 0 is the unspecified address *)
Record ipaddr := mkA { a_ver : Z; a_id : Z }.

Definition addr_eqb (a b : ipaddr) : bool := (a_ver a =? a_ver b) && (a_id a =? a_id b).
Definition addr_is_unspecified (a : ipaddr) : bool := a_id a =? 0.

Record dmeta := mkDM { dm_addr : ipaddr; dm_port : Z; dm_local : option ipaddr }.

Definition dm_default : dmeta := mkDM (mkA 0 0) 0 None.

(* one metadata-ring record: a packet (Some header) or a padding record (None) *)
Record qitem := mkItem { it_hdr : option dmeta; it_size : Z; it_data : list Z }.

Definition it_padding (size : Z) : qitem := mkItem None size [].
Definition it_packet (size : Z) (h : dmeta) (data : list Z) : qitem := mkItem (Some h) size data.

Record pq := mkQ {
  q_mcap : Z;              (* metadata_ring.capacity() *)
  q_pcap : Z;              (* payload_ring.capacity() *)
  q_read : Z;              (* payload_ring.read_at *)
  q_len : Z;               (* payload_ring.length *)
  q_items : list qitem     (* metadata ring contents, oldest first *)
}.

Definition pq_new (mcap pcap : Z) : pq := mkQ mcap pcap 0 0 [].

Definition pq_set_ring (q : pq) (rd ln : Z) : pq := mkQ (q_mcap q) (q_pcap q) rd ln (q_items q).
Definition pq_set_items (q : pq) (l : list qitem) : pq := mkQ (q_mcap q) (q_pcap q) (q_read q) (q_len q) l.
Definition pq_push (q : pq) (it : qitem) : pq := pq_set_items q (q_items q ++ [it]).

(* --- payload RingBuffer --- *)
Definition pq_window (q : pq) : Z := q_pcap q - q_len q.

(* get_idx: (read_at + idx) % capacity, 0 when the capacity is 0 *)
Definition pq_wrap (pcap x : Z) : Z := if pcap >? 0 then x mod pcap else 0.
Definition pq_get_idx (q : pq) (idx : Z) : Z := pq_wrap (q_pcap q) (q_read q + idx).

Definition pq_contig (q : pq) : Z := Z.min (pq_window q) (q_pcap q - pq_get_idx q (q_len q)).

Definition pq_ring_clear (q : pq) : pq := pq_set_ring q 0 0.

(* enqueue_many(size) = enqueue_many_with(|buf| min(size, buf.len())): resets read_at when the
   ring is empty; returns the new ring and the number of bytes enqueued *)
Definition pq_ring_enqueue_many (q : pq) (size : Z) : pq * Z :=
  let q1 := if q_len q =? 0 then pq_set_ring q 0 (q_len q) else q in
  let n := Z.min size (pq_contig q1) in
  (pq_set_ring q1 (q_read q1) (q_len q1 + n), n).

(* length of the slice handed out by dequeue_many_with / get_allocated(0, _) *)
Definition pq_ring_front_len (q : pq) : Z := Z.min (q_len q) (q_pcap q - q_read q).

(* dequeue_many(size) *)
Definition pq_ring_dequeue_many (q : pq) (size : Z) : pq * Z :=
  let n := Z.min size (pq_ring_front_len q) in
  (pq_set_ring q (pq_wrap (q_pcap q) (q_read q + n)) (q_len q - n), n).

(* --- PacketBuffer --- *)
Definition pq_meta_len (q : pq) : Z := Z.of_nat (length (q_items q)).
Definition pq_is_full (q : pq) : bool := q_mcap q - pq_meta_len q =? 0.     (* metadata_ring.is_full() *)
Definition pq_is_empty (q : pq) : bool := match q_items q with [] => true | _ => false end.
Definition pq_payload_bytes_count (q : pq) : Z := q_len q.
Definition pq_reset (q : pq) : pq := mkQ (q_mcap q) (q_pcap q) 0 0 [].

(* the part shared by enqueue and enqueue_with_infallible after the capacity / is_full test
   (and, for enqueue, the clear-when-empty): Some q' = continue with q' (padding may have
   been added), None = Err(Full) *)
Definition pq_make_room (q : pq) (size : Z) : option pq :=
  let window := pq_window q in
  let contig := pq_contig q in
  if window <? size then None
  else if contig <? size then
    if window - contig <? size then None
    else if q_mcap q - pq_meta_len q <? 2 then None      (* padding and packet need one slot each *)
    else if pq_is_full q then None                       (* metadata_ring.enqueue_one()? *)
    else Some (fst (pq_ring_enqueue_many (pq_push q (it_padding contig)) contig))
  else Some q.

(* enqueue(size, header) followed by the caller's copy_from_slice(data).
   Ok (q', true) = Ok; Ok (q', false) = Err(Full) -- q' may differ from q by a padding record *)
Definition pq_enqueue (q : pq) (size : Z) (h : dmeta) (data : list Z) : outcome (pq * bool) :=
  if (q_pcap q <? size) || pq_is_full q then Ok (q, false)
  else
    let q0 := if q_len q =? 0 then pq_ring_clear q else q in
    match pq_make_room q0 size with
    | None => Ok (q0, false)
    | Some q1 =>
        if pq_is_full q1 then Ok (q1, false)             (* second enqueue_one()? *)
        else
          let '(q2, n) := pq_ring_enqueue_many q1 size in
          if negb (n =? size) then Panic                  (* debug_assert!(payload_buf.len() == size) *)
          else if negb (Z.of_nat (length data) =? n) then Panic   (* copy_from_slice *)
          else Ok (pq_push q2 (it_packet size h data), true)
    end.

(* enqueue_with_infallible(max_size, header, f) where f writes [data] and returns its length. *)
Definition pq_enqueue_with (q : pq) (max_size : Z) (h : dmeta) (data : list Z) : outcome (pq * bool) :=
  if (q_pcap q <? max_size) || pq_is_full q then Ok (q, false)
  else
    let q := if q_len q =? 0 then pq_ring_clear q else q in
    match pq_make_room q max_size with
    | None => Ok (q, false)
    | Some q1 =>
        if pq_is_full q1 then Ok (q1, false)
        else
          (* payload_ring.enqueue_many_with(|data| (f(&mut data[..max_size]), ())) *)
          let q1' := if q_len q1 =? 0 then pq_set_ring q1 0 (q_len q1) else q1 in
          let avail := pq_contig q1' in
          let size := Z.of_nat (length data) in
          (* [data] is what f wrote, its length what f returned (caller obligation, not checked
             by the Rust code: f returns at most max_size) *)
          if avail <? max_size then Panic                 (* data[..max_size] *)
          else if avail <? size then Panic                (* assert!(size <= max_size) of enqueue_many_with *)
          else Ok (pq_push (pq_set_ring q1' (q_read q1') (q_len q1' + size)) (it_packet size h data), true)
    end.

Definition pq_dequeue_padding (q : pq) : pq :=
  match q_items q with
  | it :: rest =>
      match it_hdr it with
      | None => pq_set_items (fst (pq_ring_dequeue_many q (it_size it))) rest
      | Some _ => q
      end
  | [] => q
  end.

(* dequeue_with(f): f gets the header and the payload and returns (new environment, code)
   -- or panics; code 0 = Ok (packet dequeued), anything else = Err(code) (packet stays).
   Result: None = Err(Empty), Some code = Ok(f's result). *)
Definition pq_dequeue_with {E : Type} (q : pq) (f : dmeta -> list Z -> E -> outcome (E * Z)) (e : E)
  : outcome (pq * E * option Z) :=
  let q := pq_dequeue_padding q in
  match q_items q with
  | [] => Ok (q, e, None)
  | it :: rest =>
      if pq_ring_front_len q <? it_size it then Panic     (* debug_assert / payload_buf[..size] *)
      else match it_hdr it with
           | None => Panic                                (* header.as_mut().unwrap() *)
           | Some h =>
               do '(e', r) <- f h (it_data it) e;
               if r =? 0
               then Ok (pq_set_items (fst (pq_ring_dequeue_many q (it_size it))) rest, e', Some 0)
               else Ok (q, e', Some r)
           end
  end.

(* dequeue(): None = Err(Empty) *)
Definition pq_dequeue (q : pq) : outcome (pq * option (dmeta * list Z)) :=
  let q := pq_dequeue_padding q in
  match q_items q with
  | [] => Ok (q, None)
  | it :: rest =>
      let '(q1, n) := pq_ring_dequeue_many q (it_size it) in
      if negb (n =? it_size it) then Panic                (* debug_assert!(payload_buf.len() == meta.size) *)
      else match it_hdr it with
           | None => Panic                                (* header.take().unwrap() *)
           | Some h => Ok (pq_set_items q1 rest, Some (h, it_data it))
           end
  end.

(* peek(): removes a leading padding record, hands out get_allocated(0, size) -- which is
   clamped to the contiguous allocated part, WITHOUT an assertion *)
Definition pq_peek (q : pq) : outcome (pq * option (dmeta * list Z)) :=
  let q := pq_dequeue_padding q in
  match q_items q with
  | [] => Ok (q, None)
  | it :: _ =>
      match it_hdr it with
      | None => Panic
      | Some h =>
          let n := Z.min (it_size it) (pq_ring_front_len q) in
          Ok (q, Some (h, firstn (Z.to_nat n) (it_data it)))
      end
  end.

(* the packets (header, payload) waiting in the queue, oldest first -- the abstraction the
   theorems are stated over *)
Fixpoint items_packets (l : list qitem) : list (dmeta * list Z) :=
  match l with
  | [] => []
  | it :: rest =>
      match it_hdr it with
      | Some h => (h, it_data it) :: items_packets rest
      | None => items_packets rest
      end
  end.
Definition pq_packets (q : pq) : list (dmeta * list Z) := items_packets (q_items q).
