(* Executable model of smoltcp::storage::RingBuffer (src/storage/ring_buffer.rs), as fixed by
   /repo commit "fix: RingBuffer get_unallocated/get_allocated check the offset before computing
   the index", and the list-queue specification machine [qs_*] it is proved to refine
   (Proofs/RingProofs.v).

   Conventions
   * storage = [list A]; capacity = its length (as in Rust: storage.len()); all machine integers [Z].
   * `&mut T` / `&mut [T]` handed to a callback = the current contents; the callback returns the new
     contents (an over-long or short answer is cut / completed by [overlay], a slice cannot change
     length).  A reference returned to the caller (`enqueue_one`, `dequeue_one`) = the storage index.
     Callbacks are function arguments (explicit inputs), never axioms.
   * Panic sources: slice / element indexing = [in_range] / [elem_at] checks returning [Panic] (proved
     unreachable under the invariant, RingProofs.ring_refines); `%` by zero in get_idx_unchecked =
     [Panic] (same); the documented `assert!`s = [Panic] (exact conditions proved);
     usize subtractions (`capacity - len`, `capacity - idx`, `window - offset`, `length -= size`)
     are plain [Z] subtractions shown non-negative by the invariant (RingProofs.ring_sub_ok).
   * Err 1 = Full, Err 2 = Empty.
   No proofs in this file. *)
From SV Require Import Lib.Base.
Set Implicit Arguments.

Definition E_FULL : Z := 1.
Definition E_EMPTY : Z := 2.

(* ---------- lists with Z indices ---------- *)
Definition zlen {A} (l : list A) : Z := Z.of_nat (length l).
Definition slice {A} (l : list A) (lo n : Z) : list A :=
  firstn (Z.to_nat n) (skipn (Z.to_nat lo) l).
Definition put {A} (l : list A) (lo : Z) (d : list A) : list A :=
  firstn (Z.to_nat lo) l ++ d ++ skipn (Z.to_nat lo + length d) l.
Definition in_range {A} (l : list A) (lo n : Z) : bool :=
  (0 <=? lo) && (0 <=? n) && (lo + n <=? zlen l).
(* contents of a slice [old] after [w] was written at its start *)
Definition overlay {A} (w old : list A) : list A :=
  firstn (length old) w ++ skipn (length w) old.
Definition elem_at {A} (l : list A) (i : Z) : outcome A :=
  if i <? 0 then Panic
  else match nth_error l (Z.to_nat i) with Some x => Ok x | None => Panic end.
Definition rotl {A} (k : Z) (l : list A) : list A :=
  skipn (Z.to_nat k) l ++ firstn (Z.to_nat k) l.
Definition b2z (b : bool) : Z := if b then 1 else 0.

Section Ring.
Variable A : Type.

Record ring := mkRing { r_store : list A; r_read : Z; r_len : Z }.

Definition ring_new (store : list A) : ring := mkRing store 0 0.
Definition ring_clear (r : ring) : ring := mkRing (r_store r) 0 0.
Definition ring_capacity (r : ring) : Z := zlen (r_store r).
Definition ring_len (r : ring) : Z := r_len r.
Definition ring_window (r : ring) : Z := ring_capacity r - ring_len r.
Definition ring_get_idx (r : ring) (idx : Z) : Z :=
  let len := ring_capacity r in
  if 0 <? len then (r_read r + idx) mod len else 0.
Definition ring_get_idx_unchecked (r : ring) (idx : Z) : outcome Z :=
  let len := ring_capacity r in
  if len =? 0 then Panic else Ok ((r_read r + idx) mod len).
Definition ring_contiguous_window (r : ring) : Z :=
  Z.min (ring_window r) (ring_capacity r - ring_get_idx r (r_len r)).
Definition ring_is_empty (r : ring) : bool := ring_len r =? 0.
Definition ring_is_full (r : ring) : bool := ring_window r =? 0.

(* write / read through a reference previously handed out *)
Definition ring_ref_write (r : ring) (idx : Z) (v : A) : ring :=
  mkRing (put (r_store r) idx [v]) (r_read r) (r_len r).
Definition ring_ref_read (r : ring) (idx : Z) : outcome A := elem_at (r_store r) idx.

(* --- discrete interface --- *)
Definition ring_enqueue_one_with {R} (r : ring) (f : Z -> A -> outcome (A * bool * R))
  : outcome (ring * R) :=
  if ring_is_full r then Err E_FULL else
  do index <- ring_get_idx_unchecked r (r_len r);
  do old <- elem_at (r_store r) index;
  do x <- f index old;
  let '(new, ok, res) := x in
  Ok (mkRing (put (r_store r) index [new]) (r_read r)
             (if ok then r_len r + 1 else r_len r), res).

(* returns the reference (storage index) of the enqueued element *)
Definition ring_enqueue_one (r : ring) : outcome (ring * Z) :=
  ring_enqueue_one_with r (fun idx old => Ok (old, true, idx)).

Definition ring_dequeue_one_with {R} (r : ring) (f : Z -> A -> outcome (bool * R))
  : outcome (ring * R) :=
  if ring_is_empty r then Err E_EMPTY else
  do next_at <- ring_get_idx_unchecked r 1;
  do x <- elem_at (r_store r) (r_read r);
  do y <- f (r_read r) x;
  let '(ok, res) := y in
  Ok (if ok then mkRing (r_store r) next_at (r_len r - 1) else r, res).

(* returns the reference and the element it points to *)
Definition ring_dequeue_one (r : ring) : outcome (ring * (Z * A)) :=
  ring_dequeue_one_with r (fun idx x => Ok (true, (idx, x))).

(* --- continuous interface --- *)
Definition ring_enqueue_many_with {R} (r : ring) (f : list A -> outcome (list A * Z * R))
  : outcome (ring * (Z * R)) :=
  let r1 := if r_len r =? 0 then mkRing (r_store r) 0 (r_len r) else r in
  let write_at := ring_get_idx r1 (r_len r1) in
  let max_size := ring_contiguous_window r1 in
  if negb (in_range (r_store r1) write_at max_size) then Panic else
  let old := slice (r_store r1) write_at max_size in
  do x <- f old;
  let '(new, size, res) := x in
  if max_size <? size then Panic (* assert!(size <= max_size) *) else
  Ok (mkRing (put (r_store r1) write_at (overlay new old)) (r_read r1) (r_len r1 + size),
      (size, res)).

(* the caller writes [w] into the returned slice; result = previous contents of that slice *)
Definition ring_enqueue_many (r : ring) (size : Z) (w : list A) : outcome (ring * list A) :=
  do x <- ring_enqueue_many_with r (fun buf =>
            let size := Z.min size (zlen buf) in
            let ret := slice buf 0 size in
            Ok (overlay w ret ++ skipn (Z.to_nat size) buf, size, ret));
  let '(r', (_, ret)) := x in Ok (r', ret).

Definition ring_enqueue_slice (r : ring) (data : list A) : outcome (ring * Z) :=
  do x1 <- ring_enqueue_many_with r (fun buf =>
            let size := Z.min (zlen buf) (zlen data) in
            Ok (overlay (firstn (Z.to_nat size) data) buf, size, skipn (Z.to_nat size) data));
  let '(r1, (size_1, data1)) := x1 in
  do x2 <- ring_enqueue_many_with r1 (fun buf =>
            let size := Z.min (zlen buf) (zlen data1) in
            Ok (overlay (firstn (Z.to_nat size) data1) buf, size, tt));
  let '(r2, (size_2, _)) := x2 in
  Ok (r2, size_1 + size_2).

Definition ring_dequeue_many_with {R} (r : ring) (f : list A -> outcome (Z * R))
  : outcome (ring * (Z * R)) :=
  let capacity := ring_capacity r in
  let max_size := Z.min (ring_len r) (capacity - r_read r) in
  if negb (in_range (r_store r) (r_read r) max_size) then Panic else
  do x <- f (slice (r_store r) (r_read r) max_size);
  let '(size, res) := x in
  if max_size <? size then Panic (* assert!(size <= max_size) *) else
  Ok (mkRing (r_store r)
             (if 0 <? capacity then (r_read r + size) mod capacity else 0)
             (r_len r - size), (size, res)).

Definition ring_dequeue_many (r : ring) (size : Z) : outcome (ring * list A) :=
  do x <- ring_dequeue_many_with r (fun buf =>
            let size := Z.min size (zlen buf) in Ok (size, slice buf 0 size));
  let '(r', (_, ret)) := x in Ok (r', ret).

(* [n] = data.len(); result = (amount, the elements copied into data[..amount]) *)
Definition ring_dequeue_slice (r : ring) (n : Z) : outcome (ring * (Z * list A)) :=
  do x1 <- ring_dequeue_many_with r (fun buf =>
            let size := Z.min (zlen buf) n in Ok (size, slice buf 0 size));
  let '(r1, (size_1, d1)) := x1 in
  do x2 <- ring_dequeue_many_with r1 (fun buf =>
            let size := Z.min (zlen buf) (n - size_1) in Ok (size, slice buf 0 size));
  let '(r2, (size_2, d2)) := x2 in
  Ok (r2, (size_1 + size_2, d1 ++ d2)).

(* --- random access interface --- *)
(* (start index, length) of the slice get_unallocated hands out *)
Definition ring_unallocated_range (r : ring) (offset size : Z) : Z * Z :=
  if ring_window r <? offset then (0, 0) else
  let start_at := ring_get_idx r (r_len r + offset) in
  let clamped_window := ring_window r - offset in
  let size := if clamped_window <? size then clamped_window else size in
  let until_end := ring_capacity r - start_at in
  let size := if until_end <? size then until_end else size in
  (start_at, size).

(* the caller writes [w] into the returned slice; result = previous contents of that slice *)
Definition ring_get_unallocated (r : ring) (offset size : Z) (w : list A)
  : outcome (ring * list A) :=
  let '(start_at, size) := ring_unallocated_range r offset size in
  if negb (in_range (r_store r) start_at size) then Panic else
  let old := slice (r_store r) start_at size in
  Ok (mkRing (put (r_store r) start_at (overlay w old)) (r_read r) (r_len r), old).

Definition ring_write_unallocated (r : ring) (offset : Z) (data : list A) : outcome (ring * Z) :=
  do x1 <- ring_get_unallocated r offset (zlen data) data;
  let '(r1, old1) := x1 in
  let size_1 := zlen old1 in
  let offset := offset + size_1 in
  let data := skipn (Z.to_nat size_1) data in
  do x2 <- ring_get_unallocated r1 offset (zlen data) data;
  let '(r2, old2) := x2 in
  Ok (r2, size_1 + zlen old2).

Definition ring_enqueue_unallocated (r : ring) (count : Z) : outcome ring :=
  if ring_window r <? count then Panic (* assert!(count <= self.window()) *) else
  Ok (mkRing (r_store r) (r_read r) (r_len r + count)).

Definition ring_get_allocated (r : ring) (offset size : Z) : outcome (list A) :=
  if r_len r <? offset then Ok [] else
  let start_at := ring_get_idx r offset in
  let clamped_length := r_len r - offset in
  let size := if clamped_length <? size then clamped_length else size in
  let until_end := ring_capacity r - start_at in
  let size := if until_end <? size then until_end else size in
  if negb (in_range (r_store r) start_at size) then Panic else
  Ok (slice (r_store r) start_at size).

(* [n] = data.len(); result = (amount, the elements copied into data[..amount]) *)
Definition ring_read_allocated (r : ring) (offset n : Z) : outcome (Z * list A) :=
  do s1 <- ring_get_allocated r offset n;
  let offset := offset + zlen s1 in
  do s2 <- ring_get_allocated r offset (n - zlen s1);
  Ok (zlen s1 + zlen s2, s1 ++ s2).

Definition ring_dequeue_allocated (r : ring) (count : Z) : outcome ring :=
  if ring_len r <? count then Panic (* assert!(count <= self.len()) *) else
  Ok (mkRing (r_store r) (ring_get_idx r count) (r_len r - count)).

(* --- operations as data (correspondence driver, "every sequence" theorems) --- *)
Inductive ring_op :=
| ROEnqOne (w : option A)
| ROEnqOneWith (w : option A) (acc : bool)
| RODeqOne
| RODeqOneWith (acc : bool)
| ROEnqManyWith (w : list A) (k : Z)
| ROEnqMany (size : Z) (w : list A)
| ROEnqSlice (d : list A)
| RODeqManyWith (k : Z)
| RODeqMany (size : Z)
| RODeqSlice (n : Z)
| ROGetUnalloc (off size : Z) (w : list A)
| ROWrUnalloc (off : Z) (d : list A)
| ROEnqUnalloc (n : Z)
| ROGetAlloc (off size : Z)
| RORdAlloc (off n : Z)
| RODeqAlloc (n : Z)
| ROClear.

Definition wr (w : option A) (old : A) : A := match w with Some v => v | None => old end.

(* observable result of an op: numbers and elements *)
Definition ring_step (r : ring) (op : ring_op) : outcome (ring * (list Z * list A)) :=
  match op with
  | ROEnqOne w =>
      do x <- ring_enqueue_one r;
      let '(r1, ref) := x in
      do old <- ring_ref_read r1 ref;
      Ok (ring_ref_write r1 ref (wr w old), ([], [old]))
  | ROEnqOneWith w acc =>
      do x <- ring_enqueue_one_with r (fun _ old => Ok (wr w old, acc, old));
      let '(r1, old) := x in Ok (r1, ([b2z acc], [old]))
  | RODeqOne =>
      do x <- ring_dequeue_one r;
      let '(r1, (_, v)) := x in Ok (r1, ([], [v]))
  | RODeqOneWith acc =>
      do x <- ring_dequeue_one_with r (fun _ v => Ok (acc, v));
      let '(r1, v) := x in Ok (r1, ([b2z acc], [v]))
  | ROEnqManyWith w k =>
      do x <- ring_enqueue_many_with r (fun buf => Ok (overlay w buf, k, buf));
      let '(r1, (size, buf)) := x in Ok (r1, ([zlen buf; size], buf))
  | ROEnqMany size w =>
      do x <- ring_enqueue_many r size w;
      let '(r1, old) := x in Ok (r1, ([zlen old], old))
  | ROEnqSlice d =>
      do x <- ring_enqueue_slice r d;
      let '(r1, n) := x in Ok (r1, ([n], []))
  | RODeqManyWith k =>
      do x <- ring_dequeue_many_with r (fun buf => Ok (k, buf));
      let '(r1, (size, buf)) := x in Ok (r1, ([size], buf))
  | RODeqMany size =>
      do x <- ring_dequeue_many r size;
      let '(r1, buf) := x in Ok (r1, ([], buf))
  | RODeqSlice n =>
      do x <- ring_dequeue_slice r n;
      let '(r1, (k, d)) := x in Ok (r1, ([k], d))
  | ROGetUnalloc off size w =>
      do x <- ring_get_unallocated r off size w;
      let '(r1, old) := x in Ok (r1, ([], old))
  | ROWrUnalloc off d =>
      do x <- ring_write_unallocated r off d;
      let '(r1, n) := x in Ok (r1, ([n], []))
  | ROEnqUnalloc n =>
      do r1 <- ring_enqueue_unallocated r n; Ok (r1, ([], []))
  | ROGetAlloc off size =>
      do s <- ring_get_allocated r off size; Ok (r, ([], s))
  | RORdAlloc off n =>
      do x <- ring_read_allocated r off n;
      let '(k, d) := x in Ok (r, ([k], d))
  | RODeqAlloc n =>
      do r1 <- ring_dequeue_allocated r n; Ok (r1, ([], []))
  | ROClear => Ok (ring_clear r, ([], []))
  end.

Definition ring_status (r : ring) : list Z :=
  [ring_len r; ring_capacity r; ring_window r; ring_contiguous_window r;
   b2z (ring_is_empty r); b2z (ring_is_full r)].

(* a run stops at the first panic; an Err leaves the ring unchanged (the Rust code returns
   before touching anything) *)
Fixpoint ring_run (r : ring) (ops : list ring_op)
  : ring * list (outcome (list Z * list A * list Z)) :=
  match ops with
  | [] => (r, [])
  | op :: ops' =>
      match ring_step r op with
      | Ok (r1, (ns, es)) =>
          let '(r2, outs) := ring_run r1 ops' in (r2, Ok (ns, es, ring_status r1) :: outs)
      | Err e => let '(r2, outs) := ring_run r ops' in (r2, Err e :: outs)
      | Panic => (r, [Panic])
      end
  end.

(* =====================================================================================
   Specification: a bounded FIFO queue on lists.
     q_q   the queued elements, oldest first
     q_fr  the contents of the unallocated area in logical order (offset 0 = the slot the next
           enqueued element goes to); |q_q| + |q_fr| = capacity
     q_pos the physical position of the oldest element: needed only to say how long the
           contiguous slices handed out are, and how the scratch area is re-based when an
           empty ring resets its read position.
   No array, no modular indexing: only ++ / firstn / skipn.
   ===================================================================================== *)
Record qs := mkQs { q_q : list A; q_fr : list A; q_pos : Z }.

Definition wrap (c x : Z) : Z := if c <=? x then x - c else x.
Definition qs_cap (s : qs) : Z := zlen (q_q s) + zlen (q_fr s).
Definition qs_len (s : qs) : Z := zlen (q_q s).
Definition qs_window (s : qs) : Z := zlen (q_fr s).
(* physical index of logical position i, 0 <= i <= cap *)
Definition qs_idx (s : qs) (i : Z) : Z :=
  if 0 <? qs_cap s then wrap (qs_cap s) (q_pos s + i) else 0.
Definition qs_contiguous_window (s : qs) : Z :=
  Z.min (qs_window s) (qs_cap s - qs_idx s (qs_len s)).
Definition qs_is_empty (s : qs) : bool := qs_len s =? 0.
Definition qs_is_full (s : qs) : bool := qs_window s =? 0.
Definition qs_status (s : qs) : list Z :=
  [qs_len s; qs_cap s; qs_window s; qs_contiguous_window s;
   b2z (qs_is_empty s); b2z (qs_is_full s)].

Definition qs_clear (s : qs) : qs :=
  mkQs [] (rotl (qs_cap s - q_pos s) (q_q s ++ q_fr s)) 0.
Definition qs_reset_if_empty (s : qs) : qs :=
  if qs_len s =? 0 then mkQs (q_q s) (rotl (qs_cap s - q_pos s) (q_fr s)) 0 else s.

Definition qs_enqueue_one_with {R} (s : qs) (f : Z -> A -> outcome (A * bool * R))
  : outcome (qs * R) :=
  match q_fr s with
  | [] => Err E_FULL
  | old :: fr' =>
      do x <- f (qs_idx s (qs_len s)) old;
      let '(new, ok, res) := x in
      Ok (if ok then mkQs (q_q s ++ [new]) fr' (q_pos s)
          else mkQs (q_q s) (new :: fr') (q_pos s), res)
  end.

Definition qs_dequeue_one_with {R} (s : qs) (f : Z -> A -> outcome (bool * R))
  : outcome (qs * R) :=
  match q_q s with
  | [] => Err E_EMPTY
  | x :: q' =>
      do y <- f (q_pos s) x;
      let '(ok, res) := y in
      Ok (if ok then mkQs q' (q_fr s ++ [x]) (qs_idx s 1) else s, res)
  end.

Definition qs_enqueue_many_with {R} (s : qs) (f : list A -> outcome (list A * Z * R))
  : outcome (qs * (Z * R)) :=
  let s1 := qs_reset_if_empty s in
  let m := qs_contiguous_window s1 in
  let old := firstn (Z.to_nat m) (q_fr s1) in
  do x <- f old;
  let '(new, size, res) := x in
  if m <? size then Panic else
  let nw := overlay new old in
  Ok (mkQs (q_q s1 ++ firstn (Z.to_nat size) nw)
           (skipn (Z.to_nat size) nw ++ skipn (Z.to_nat m) (q_fr s1)) (q_pos s1), (size, res)).

Definition qs_dequeue_many_with {R} (s : qs) (f : list A -> outcome (Z * R))
  : outcome (qs * (Z * R)) :=
  let m := Z.min (qs_len s) (qs_cap s - q_pos s) in
  do x <- f (firstn (Z.to_nat m) (q_q s));
  let '(size, res) := x in
  if m <? size then Panic else
  Ok (mkQs (skipn (Z.to_nat size) (q_q s)) (q_fr s ++ firstn (Z.to_nat size) (q_q s))
           (qs_idx s size), (size, res)).

(* derived operations: closed formulas *)
Definition qs_enqueue_many (s : qs) (size : Z) (w : list A) : outcome (qs * list A) :=
  let s1 := qs_reset_if_empty s in
  let n := Z.min size (qs_contiguous_window s1) in
  let old := firstn (Z.to_nat n) (q_fr s1) in
  Ok (mkQs (q_q s1 ++ overlay w old) (skipn (Z.to_nat n) (q_fr s1)) (q_pos s1), old).

Definition qs_enqueue_slice (s : qs) (data : list A) : outcome (qs * Z) :=
  let s1 := qs_reset_if_empty s in
  let n := Z.min (zlen data) (qs_window s1) in
  Ok (mkQs (q_q s1 ++ firstn (Z.to_nat n) data) (skipn (Z.to_nat n) (q_fr s1)) (q_pos s1), n).

Definition qs_dequeue_n (s : qs) (n : Z) : qs :=
  mkQs (skipn (Z.to_nat n) (q_q s)) (q_fr s ++ firstn (Z.to_nat n) (q_q s)) (qs_idx s n).

Definition qs_dequeue_many (s : qs) (size : Z) : outcome (qs * list A) :=
  let n := Z.min size (Z.min (qs_len s) (qs_cap s - q_pos s)) in
  Ok (qs_dequeue_n s n, firstn (Z.to_nat n) (q_q s)).

Definition qs_dequeue_slice (s : qs) (n : Z) : outcome (qs * (Z * list A)) :=
  let k := Z.min n (qs_len s) in
  Ok (qs_dequeue_n s k, (k, firstn (Z.to_nat k) (q_q s))).

Definition qs_get_unallocated (s : qs) (offset size : Z) (w : list A) : outcome (qs * list A) :=
  let n := if qs_window s <? offset then 0
           else Z.min (Z.min size (qs_window s - offset))
                      (qs_cap s - qs_idx s (qs_len s + offset)) in
  let off := if qs_window s <? offset then 0 else offset in
  let old := slice (q_fr s) off n in
  Ok (mkQs (q_q s) (put (q_fr s) off (overlay w old)) (q_pos s), old).

Definition qs_write_unallocated (s : qs) (offset : Z) (data : list A) : outcome (qs * Z) :=
  let n := if qs_window s <? offset then 0 else Z.min (zlen data) (qs_window s - offset) in
  let off := if qs_window s <? offset then 0 else offset in
  Ok (mkQs (q_q s) (put (q_fr s) off (firstn (Z.to_nat n) data)) (q_pos s), n).

Definition qs_enqueue_unallocated (s : qs) (count : Z) : outcome qs :=
  if qs_window s <? count then Panic else
  Ok (mkQs (q_q s ++ firstn (Z.to_nat count) (q_fr s)) (skipn (Z.to_nat count) (q_fr s)) (q_pos s)).

Definition qs_get_allocated (s : qs) (offset size : Z) : outcome (list A) :=
  if qs_len s <? offset then Ok [] else
  let n := Z.min (Z.min size (qs_len s - offset)) (qs_cap s - qs_idx s offset) in
  Ok (slice (q_q s) offset n).

Definition qs_read_allocated (s : qs) (offset n : Z) : outcome (Z * list A) :=
  if qs_len s <? offset then Ok (0, []) else
  let k := Z.min n (qs_len s - offset) in
  Ok (k, slice (q_q s) offset k).

Definition qs_dequeue_allocated (s : qs) (count : Z) : outcome qs :=
  if qs_len s <? count then Panic else Ok (qs_dequeue_n s count).

Definition qs_step (s : qs) (op : ring_op) : outcome (qs * (list Z * list A)) :=
  match op with
  | ROEnqOne w =>
      do x <- qs_enqueue_one_with s (fun _ old => Ok (wr w old, true, old));
      let '(s1, old) := x in Ok (s1, ([], [old]))
  | ROEnqOneWith w acc =>
      do x <- qs_enqueue_one_with s (fun _ old => Ok (wr w old, acc, old));
      let '(s1, old) := x in Ok (s1, ([b2z acc], [old]))
  | RODeqOne =>
      do x <- qs_dequeue_one_with s (fun idx v => Ok (true, (idx, v)));
      let '(s1, (_, v)) := x in Ok (s1, ([], [v]))
  | RODeqOneWith acc =>
      do x <- qs_dequeue_one_with s (fun _ v => Ok (acc, v));
      let '(s1, v) := x in Ok (s1, ([b2z acc], [v]))
  | ROEnqManyWith w k =>
      do x <- qs_enqueue_many_with s (fun buf => Ok (overlay w buf, k, buf));
      let '(s1, (size, buf)) := x in Ok (s1, ([zlen buf; size], buf))
  | ROEnqMany size w =>
      do x <- qs_enqueue_many s size w;
      let '(s1, old) := x in Ok (s1, ([zlen old], old))
  | ROEnqSlice d =>
      do x <- qs_enqueue_slice s d;
      let '(s1, n) := x in Ok (s1, ([n], []))
  | RODeqManyWith k =>
      do x <- qs_dequeue_many_with s (fun buf => Ok (k, buf));
      let '(s1, (size, buf)) := x in Ok (s1, ([size], buf))
  | RODeqMany size =>
      do x <- qs_dequeue_many s size;
      let '(s1, buf) := x in Ok (s1, ([], buf))
  | RODeqSlice n =>
      do x <- qs_dequeue_slice s n;
      let '(s1, (k, d)) := x in Ok (s1, ([k], d))
  | ROGetUnalloc off size w =>
      do x <- qs_get_unallocated s off size w;
      let '(s1, old) := x in Ok (s1, ([], old))
  | ROWrUnalloc off d =>
      do x <- qs_write_unallocated s off d;
      let '(s1, n) := x in Ok (s1, ([n], []))
  | ROEnqUnalloc n =>
      do s1 <- qs_enqueue_unallocated s n; Ok (s1, ([], []))
  | ROGetAlloc off size =>
      do l <- qs_get_allocated s off size; Ok (s, ([], l))
  | RORdAlloc off n =>
      do x <- qs_read_allocated s off n;
      let '(k, d) := x in Ok (s, ([k], d))
  | RODeqAlloc n =>
      do s1 <- qs_dequeue_allocated s n; Ok (s1, ([], []))
  | ROClear => Ok (qs_clear s, ([], []))
  end.

Fixpoint qs_run (s : qs) (ops : list ring_op)
  : qs * list (outcome (list Z * list A * list Z)) :=
  match ops with
  | [] => (s, [])
  | op :: ops' =>
      match qs_step s op with
      | Ok (s1, (ns, es)) =>
          let '(s2, outs) := qs_run s1 ops' in (s2, Ok (ns, es, qs_status s1) :: outs)
      | Err e => let '(s2, outs) := qs_run s ops' in (s2, Err e :: outs)
      | Panic => (s, [Panic])
      end
  end.

(* abstraction: the ring seen as a queue *)
Definition ring_view (r : ring) : qs :=
  let l := rotl (r_read r) (r_store r) in
  mkQs (firstn (Z.to_nat (r_len r)) l) (skipn (Z.to_nat (r_len r)) l) (r_read r).
Definition ring_abs (r : ring) : list A := q_q (ring_view r).

End Ring.

Arguments RODeqOne {A}.
Arguments RODeqOneWith {A} acc.
Arguments RODeqManyWith {A} k.
Arguments RODeqMany {A} size.
Arguments RODeqSlice {A} n.
Arguments ROEnqUnalloc {A} n.
Arguments ROGetAlloc {A} off size.
Arguments RORdAlloc {A} off n.
Arguments RODeqAlloc {A} n.
Arguments ROClear {A}.
