(* Executable model of smoltcp::wire::mld (src/wire/mld.rs): the MLDv2 accessors / setters of
   the ICMPv6 packet, AddressRecord (check_len, accessors, setters), AddressRecordRepr::{parse,
   buffer_len, emit}, Repr::{parse, buffer_len, emit}.  The ICMPv6 packet pieces are in
   Model/WireIcmpv6Hdr.v.

   Representation: addresses are 16-octet lists, RecordType its raw u8.

   `MldRepr::emit` does not own the ICMPv6 checksum (octets 2..3): it is only ever called from
   `Icmpv6Repr::emit`, which ends with fill_checksum / set_checksum(0); [mld_icmp_emit] is that
   composition and is what "the bytes produced" refers to.  `Icmpv6Repr::parse` reaches
   `MldRepr::parse` only for message code 0 ([mld_icmp_parse]).

   `Repr::ReportRecordReprs(records)` is an emit-only spelling of `Report`: parse never produces
   it.  Its emission writes the 20-octet record headers (no sources / auxiliary data) behind
   the 8-octet header.
   NOTE (defect, fixed in /repo by a `fix:` commit, see known_findings.txt): `buffer_len()` of
   this variant used to be 8 although emit writes 8 + 20 * n octets - a buffer of the declared
   length made emit panic; the model is of the fixed code.  Likewise `AddressRecordRepr::parse`
   used to read the record header without check_len (panic on a short record view); fixed.

   Panic sources: slice indexing, copy_from_slice length mismatch (`payload_mut()
   .copy_from_slice(data)`), `assert!(value < 8)` in set_qrv, `assert!(addr.is_multicast())` in
   AddressRecord::set_mcast_addr, clear_reserved.  No proofs in this file. *)
From SV Require Import Lib.Base Gen.WireFields Model.WireBase Model.WireIcmpv6Hdr.

Record mldrec_repr := mkMldRec {
  mldrec_type : Z; mldrec_aux_len : Z; mldrec_num_srcs : Z;
  mldrec_addr : list Z; mldrec_payload : list Z }.

Inductive mld_repr :=
| MldQuery (max_resp_code : Z) (mcast_addr : list Z) (s_flag : bool) (qrv qqic num_srcs : Z) (data : list Z)
| MldReport (nr_mcast_addr_rcrds : Z) (data : list Z)
| MldReportRecords (records : list mldrec_repr).

(* ---------- query / report accessors of icmpv6::Packet ---------- *)
Definition mld_max_resp_code (bs : list Z) : outcome Z := wb_get_u16 bs wicmpv6_f_MAX_RESP_CODE.
Definition mld_mcast_addr (bs : list Z) : outcome (list Z) :=
  do s <- wb_field bs wicmpv6_f_QUERY_MCAST_ADDR; wb_arr 16 s.
Definition mld_s_flag (bs : list Z) : outcome bool :=
  do x <- wb_get_u8 bs wicmpv6_f_SQRV; Ok (negb (Z.land x 8 =? 0)).
Definition mld_qrv (bs : list Z) : outcome Z :=
  do x <- wb_get_u8 bs wicmpv6_f_SQRV; Ok (Z.land x 7).
Definition mld_qqic (bs : list Z) : outcome Z := wb_get_u8 bs wicmpv6_f_QQIC.
Definition mld_num_srcs (bs : list Z) : outcome Z := wb_get_u16 bs wicmpv6_f_QUERY_NUM_SRCS.
Definition mld_nr_mcast_addr_rcrds (bs : list Z) : outcome Z := wb_get_u16 bs wicmpv6_f_NR_MCAST_RCRDS.

Definition mld_set_max_resp_code (bs : list Z) (v : Z) := wb_put_u16 bs wicmpv6_f_MAX_RESP_CODE v.
Definition mld_set_mcast_addr (bs : list Z) (a : list Z) := wb_set_field bs wicmpv6_f_QUERY_MCAST_ADDR a.
(* data[SQRV] = 0x8 | (current & 0x7) *)
Definition mld_set_s_flag (bs : list Z) := wb_upd_u8 bs wicmpv6_f_SQRV (fun x => Z.lor 8 (Z.land x 7)).
(* data[SQRV] &= 0x7 *)
Definition mld_clear_s_flag (bs : list Z) := wb_upd_u8 bs wicmpv6_f_SQRV (fun x => Z.land x 7).
(* assert!(value < 8); data[SQRV] = (data[SQRV] & 0x8) | value & 0x7 *)
Definition mld_set_qrv (bs : list Z) (v : Z) :=
  do _ <- wb_assert (v <? 8);
  wb_upd_u8 bs wicmpv6_f_SQRV (fun x => Z.lor (Z.land x 8) (Z.land v 7)).
Definition mld_set_qqic (bs : list Z) (v : Z) := wb_set_u8 bs wicmpv6_f_QQIC v.
Definition mld_set_num_srcs (bs : list Z) (v : Z) := wb_put_u16 bs wicmpv6_f_QUERY_NUM_SRCS v.
Definition mld_set_nr_mcast_addr_rcrds (bs : list Z) (v : Z) := wb_put_u16 bs wicmpv6_f_NR_MCAST_RCRDS v.

(* ---------- AddressRecord ---------- *)
Definition mldrec_HEADER_LEN : Z := snd wicmpv6_f_RECORD_MCAST_ADDR.

Definition mldrec_check_len (bs : list Z) : outcome unit :=
  if blen bs <? snd wicmpv6_f_RECORD_MCAST_ADDR then Err 0 else Ok tt.

Definition mldrec_record_type (bs : list Z) : outcome Z := wb_get_u8 bs wicmpv6_f_RECORD_TYPE.
Definition mldrec_aux_data_len (bs : list Z) : outcome Z := wb_get_u8 bs wicmpv6_f_AUX_DATA_LEN.
Definition mldrec_num_srcs_ (bs : list Z) : outcome Z := wb_get_u16 bs wicmpv6_f_RECORD_NUM_SRCS.
Definition mldrec_mcast_addr (bs : list Z) : outcome (list Z) :=
  do s <- wb_field bs wicmpv6_f_RECORD_MCAST_ADDR; wb_arr 16 s.
Definition mldrec_payload_ (bs : list Z) : outcome (list Z) := wb_from bs (snd wicmpv6_f_RECORD_MCAST_ADDR).

Definition ipv6_addr_is_multicast (a : list Z) : bool := nth 0 a 0 =? 255.

Definition mldrec_set_record_type (bs : list Z) (v : Z) := wb_set_u8 bs wicmpv6_f_RECORD_TYPE v.
Definition mldrec_set_aux_data_len (bs : list Z) (v : Z) := wb_set_u8 bs wicmpv6_f_AUX_DATA_LEN v.
Definition mldrec_set_num_srcs (bs : list Z) (v : Z) := wb_put_u16 bs wicmpv6_f_RECORD_NUM_SRCS v.
Definition mldrec_set_mcast_addr (bs : list Z) (a : list Z) :=
  do _ <- wb_assert (ipv6_addr_is_multicast a);
  wb_set_field bs wicmpv6_f_RECORD_MCAST_ADDR a.

(* AddressRecordRepr::parse *)
Definition mldrec_parse (bs : list Z) : outcome mldrec_repr :=
  do _ <- mldrec_check_len bs;
  do n <- mldrec_num_srcs_ bs;
  do a <- mldrec_mcast_addr bs;
  do t <- mldrec_record_type bs;
  do x <- mldrec_aux_data_len bs;
  do p <- mldrec_payload_ bs;
  Ok (mkMldRec t x n a p).

(* AddressRecordRepr::buffer_len: "not including any payload data" *)
Definition mldrec_buffer_len (r : mldrec_repr) : Z := snd wicmpv6_f_RECORD_MCAST_ADDR.

(* AddressRecordRepr::emit (the payload is not written) *)
Definition mldrec_emit (r : mldrec_repr) (b : list Z) : outcome (list Z) :=
  do b <- mldrec_set_record_type b (mldrec_type r);
  do b <- mldrec_set_aux_data_len b (mldrec_aux_len r);
  do b <- mldrec_set_num_srcs b (mldrec_num_srcs r);
  mldrec_set_mcast_addr b (mldrec_addr r).

(* ---------- Repr ---------- *)

(* Repr::parse *)
Definition mld_parse (bs : list Z) : outcome mld_repr :=
  do _ <- icmp6h_check_len bs;
  do t <- icmp6h_msg_type bs;
  if t =? icmp6h_MLD_QUERY then
    do c <- mld_max_resp_code bs;
    do a <- mld_mcast_addr bs;
    do s <- mld_s_flag bs;
    do q <- mld_qrv bs;
    do qq <- mld_qqic bs;
    do n <- mld_num_srcs bs;
    do d <- icmp6h_payload bs;
    Ok (MldQuery c a s q qq n d)
  else if t =? icmp6h_MLD_REPORT then
    do n <- mld_nr_mcast_addr_rcrds bs;
    do d <- icmp6h_payload bs;
    Ok (MldReport n d)
  else Err 0.

Definition mld_records_len (records : list mldrec_repr) : Z :=
  fold_right (fun r acc => mldrec_buffer_len r + acc) 0 records.

(* Repr::buffer_len *)
Definition mld_buffer_len (r : mld_repr) : Z :=
  match r with
  | MldQuery _ _ _ _ _ _ data => snd wicmpv6_f_QUERY_NUM_SRCS + blen data
  | MldReport _ data => snd wicmpv6_f_NR_MCAST_RCRDS + blen data
  | MldReportRecords records => snd wicmpv6_f_NR_MCAST_RCRDS + mld_records_len records
  end.

(* the `for record in records { record.emit(AddressRecord(payload)); payload = &mut payload[20..] }`
   loop: [pre] is what lies before the current `payload` slice; structural recursion on the
   record list *)
Fixpoint mld_emit_records (records : list mldrec_repr) (pre payload : list Z) : outcome (list Z) :=
  match records with
  | [] => Ok (pre ++ payload)
  | r :: rest =>
      do payload <- mldrec_emit r payload;
      do tl <- wb_from payload (mldrec_buffer_len r);
      do hd <- wb_upto payload (mldrec_buffer_len r);
      mld_emit_records rest (pre ++ hd) tl
  end.

(* Repr::emit *)
Definition mld_emit (r : mld_repr) (b : list Z) : outcome (list Z) :=
  match r with
  | MldQuery max_resp_code mcast_addr s_flag qrv qqic num_srcs data =>
      do b <- icmp6h_set_msg_type b icmp6h_MLD_QUERY;
      do b <- icmp6h_set_msg_code b 0;
      do b <- icmp6h_clear_reserved b;
      do b <- mld_set_max_resp_code b max_resp_code;
      do b <- mld_set_mcast_addr b mcast_addr;
      do b <- (if s_flag then mld_set_s_flag b else mld_clear_s_flag b);
      do b <- mld_set_qrv b qrv;
      do b <- mld_set_qqic b qqic;
      do b <- mld_set_num_srcs b num_srcs;
      icmp6h_set_payload b data
  | MldReport nr data =>
      do b <- icmp6h_set_msg_type b icmp6h_MLD_REPORT;
      do b <- icmp6h_set_msg_code b 0;
      do b <- icmp6h_clear_reserved b;
      do b <- mld_set_nr_mcast_addr_rcrds b nr;
      icmp6h_set_payload b data
  | MldReportRecords records =>
      do b <- icmp6h_set_msg_type b icmp6h_MLD_REPORT;
      do b <- icmp6h_set_msg_code b 0;
      do b <- icmp6h_clear_reserved b;
      do b <- mld_set_nr_mcast_addr_rcrds b (Z.of_nat (length records) mod 65536);
      do hl <- icmp6h_header_len b;
      do payload <- wb_from b hl;
      do hd <- wb_upto b hl;
      mld_emit_records records hd payload
  end.

Section Checksum.
Variable sum_ok : list Z -> bool.
Variable sum_fill : list Z -> Z.

(* Icmpv6Repr::Mld(mld).emit(..) *)
Definition mld_icmp_emit (tx : bool) (r : mld_repr) (b : list Z) : outcome (list Z) :=
  do b <- mld_emit r b; icmp6h_finish_emit sum_fill tx b.

(* Icmpv6Repr::parse restricted to the MLD message types *)
Definition mld_icmp_parse (rx : bool) (bs : list Z) : outcome mld_repr :=
  icmp6h_parse_sub sum_ok icmp6h_is_mld mld_parse rx bs.

End Checksum.

(* Proviso of C06 for MLD.
   AddressRecordRepr: type / aux_data_len u8, num_srcs u16, address [u8; 16] (Rust types);
   the address is multicast (set_mcast_addr asserts it: RFC 3810 5.2.8 - a record is about a
   multicast address); payload (sources + auxiliary data) consists of octets - it is not written
   by `emit` (buffer_len excludes it), the round trip is stated for header ++ payload.
   Repr::Query: max_resp_code / num_srcs u16, qqic u8, address [u8; 16] (Rust types); qrv is
   the 3-bit Querier's Robustness Variable (set_qrv asserts value < 8; parse masks with 7);
   data consists of octets.
   Repr::Report: nr_mcast_addr_rcrds u16, data octets.
   Repr::ReportRecordReprs: the number of records fits the 16-bit counter (emit truncates with
   `as u16`), every record is well-formed. *)
Definition mldrec_wf (r : mldrec_repr) : bool :=
  is_u8 (mldrec_type r) && is_u8 (mldrec_aux_len r) && is_u16 (mldrec_num_srcs r) &&
  is_arr 16 (mldrec_addr r) && ipv6_addr_is_multicast (mldrec_addr r) && bytes_ok (mldrec_payload r).

Definition mld_wf (r : mld_repr) : bool :=
  match r with
  | MldQuery c a s q qq n d =>
      is_u16 c && is_arr 16 a && (0 <=? q) && (q <? 8) && is_u8 qq && is_u16 n && bytes_ok d
  | MldReport n d => is_u16 n && bytes_ok d
  | MldReportRecords rs => (Z.of_nat (length rs) <? 65536) && forallb mldrec_wf rs
  end.

(* what parse makes of an emitted representation: ReportRecordReprs is read back as the Report
   with the same records (headers only) *)
Definition mldrec_hdr_bytes (r : mldrec_repr) : list Z :=
  [mldrec_type r; mldrec_aux_len r] ++ be_enc2 (mldrec_num_srcs r) ++ mldrec_addr r.

Definition mld_canon (r : mld_repr) : mld_repr :=
  match r with
  | MldReportRecords rs => MldReport (Z.of_nat (length rs)) (flat_map mldrec_hdr_bytes rs)
  | _ => r
  end.
