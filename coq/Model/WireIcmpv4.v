(* Executable model of smoltcp::wire::icmpv4 (src/wire/icmpv4.rs): Packet accessors, check_len,
   verify_checksum / fill_checksum (arithmetic abstracted), Repr::{parse, buffer_len, emit} for
   the four Repr variants EchoRequest, EchoReply, DstUnreachable, TimeExceeded (other message
   types have no Repr: parse returns Err).

   The embedded IPv4 header of the error messages is the WireIpv4 model (`header.emit` into
   `packet.data_mut()`, `Ipv4Packet::new_checked(packet.data())` + accessors in parse).

   Checksum parameters (Section variables, property C08): [sum_ok d] = `checksum::data(d) == !0`,
   [sum_fill d] = `!checksum::data(d)`; the same function serves the ICMP message and the
   embedded IPv4 header.  [tx]/[rx] = checksum_caps.icmpv4.tx()/rx(), [tx4] = checksum_caps.ipv4.tx().

   Representation: message type, code and reason are raw octets (enum_with_unknown!).

   Panic sources: slice indexing, copy_from_slice length mismatch, the panic sources of the
   embedded IPv4 emit.  No proofs in this file. *)
From SV Require Import Lib.Base Gen.WireFields Model.WireBase Model.WireIpv4.

Inductive icmpv4_repr :=
| Icmp4EchoRequest (ident seq_no : Z) (data : list Z)
| Icmp4EchoReply (ident seq_no : Z) (data : list Z)
| Icmp4DstUnreachable (reason : Z) (header : ipv4_repr) (data : list Z)
| Icmp4TimeExceeded (reason : Z) (header : ipv4_repr) (data : list Z).

Definition icmpv4_ECHO_REPLY : Z := 0.
Definition icmpv4_DST_UNREACHABLE : Z := 3.
Definition icmpv4_ECHO_REQUEST : Z := 8.
Definition icmpv4_TIME_EXCEEDED : Z := 11.

(* ---------- accessors ---------- *)
Definition icmpv4_msg_type (bs : list Z) : outcome Z := wb_get_u8 bs wicmpv4_f_TYPE.
Definition icmpv4_msg_code (bs : list Z) : outcome Z := wb_get_u8 bs wicmpv4_f_CODE.
Definition icmpv4_checksum (bs : list Z) : outcome Z := wb_get_u16 bs wicmpv4_f_CHECKSUM.
Definition icmpv4_echo_ident (bs : list Z) : outcome Z := wb_get_u16 bs wicmpv4_f_ECHO_IDENT.
Definition icmpv4_echo_seq_no (bs : list Z) : outcome Z := wb_get_u16 bs wicmpv4_f_ECHO_SEQNO.
(* Packet::header_len: every arm of the match yields 8 *)
Definition icmpv4_header_len (bs : list Z) : outcome Z :=
  do t <- icmpv4_msg_type bs;
  Ok (if (t =? icmpv4_ECHO_REQUEST) || (t =? icmpv4_ECHO_REPLY) then snd wicmpv4_f_ECHO_SEQNO
      else snd wicmpv4_f_UNUSED).
Definition icmpv4_data (bs : list Z) : outcome (list Z) :=
  do hl <- icmpv4_header_len bs; wb_from bs hl.

(* Packet::check_len *)
Definition icmpv4_check_len (bs : list Z) : outcome unit :=
  if blen bs <? wicmpv4_f_HEADER_END then Err 0 else Ok tt.

(* ---------- setters ---------- *)
Definition icmpv4_set_msg_type (bs : list Z) (v : Z) := wb_set_u8 bs wicmpv4_f_TYPE v.
Definition icmpv4_set_msg_code (bs : list Z) (v : Z) := wb_set_u8 bs wicmpv4_f_CODE v.
Definition icmpv4_set_checksum (bs : list Z) (v : Z) := wb_put_u16 bs wicmpv4_f_CHECKSUM v.
Definition icmpv4_clear_unused (bs : list Z) :=
  wb_fill bs (fst wicmpv4_f_UNUSED) (snd wicmpv4_f_UNUSED) 0.
Definition icmpv4_set_echo_ident (bs : list Z) (v : Z) := wb_put_u16 bs wicmpv4_f_ECHO_IDENT v.
Definition icmpv4_set_echo_seq_no (bs : list Z) (v : Z) := wb_put_u16 bs wicmpv4_f_ECHO_SEQNO v.

Section Checksum.
Variable sum_ok : list Z -> bool.
Variable sum_fill : list Z -> Z.

(* Packet::verify_checksum / fill_checksum: over the whole buffer *)
Definition icmpv4_verify_checksum (bs : list Z) : bool := sum_ok bs.
Definition icmpv4_fill_checksum (bs : list Z) : outcome (list Z) :=
  do bs <- icmpv4_set_checksum bs 0;
  icmpv4_set_checksum bs (sum_fill bs).

(* the common part of the DstUnreachable / TimeExceeded arms of Repr::parse *)
Definition icmpv4_parse_error_payload (bs : list Z) : outcome (ipv4_repr * list Z) :=
  do d <- icmpv4_data bs;
  do _ <- ipv4_check_len d;                      (* Ipv4Packet::new_checked(packet.data())? *)
  do hl <- ipv4_header_len d;
  do payload <- wb_from d hl;
  (* RFC 792 requires exactly eight bytes to be returned; at least eight are required *)
  do _ <- wb_guard (negb (blen payload <? 8));
  do s <- ipv4_src_addr d;
  do t <- ipv4_dst_addr d;
  do p <- ipv4_next_header d;
  do h <- ipv4_hop_limit_ d;
  Ok (mkIpv4 s t p (blen payload) h, payload).

(* Repr::parse *)
Definition icmpv4_parse (rx : bool) (bs : list Z) : outcome icmpv4_repr :=
  do _ <- icmpv4_check_len bs;
  do _ <- wb_guard (negb (rx && negb (icmpv4_verify_checksum bs)));
  do ty <- icmpv4_msg_type bs;
  do code <- icmpv4_msg_code bs;
  if (ty =? icmpv4_ECHO_REQUEST) && (code =? 0) then
    do i <- icmpv4_echo_ident bs; do s <- icmpv4_echo_seq_no bs; do d <- icmpv4_data bs;
    Ok (Icmp4EchoRequest i s d)
  else if (ty =? icmpv4_ECHO_REPLY) && (code =? 0) then
    do i <- icmpv4_echo_ident bs; do s <- icmpv4_echo_seq_no bs; do d <- icmpv4_data bs;
    Ok (Icmp4EchoReply i s d)
  else if ty =? icmpv4_DST_UNREACHABLE then
    do hp <- icmpv4_parse_error_payload bs; Ok (Icmp4DstUnreachable code (fst hp) (snd hp))
  else if ty =? icmpv4_TIME_EXCEEDED then
    do hp <- icmpv4_parse_error_payload bs; Ok (Icmp4TimeExceeded code (fst hp) (snd hp))
  else Err 0.

(* Repr::buffer_len *)
Definition icmpv4_buffer_len (r : icmpv4_repr) : Z :=
  match r with
  | Icmp4EchoRequest _ _ data | Icmp4EchoReply _ _ data => snd wicmpv4_f_ECHO_SEQNO + blen data
  | Icmp4DstUnreachable _ header data | Icmp4TimeExceeded _ header data =>
      snd wicmpv4_f_UNUSED + ipv4_buffer_len header + blen data
  end.

Definition icmpv4_emit_echo (ty ident seq_no : Z) (data : list Z) (b : list Z) : outcome (list Z) :=
  do b <- icmpv4_set_msg_type b ty;
  do b <- icmpv4_set_msg_code b 0;
  do b <- icmpv4_set_echo_ident b ident;
  do b <- icmpv4_set_echo_seq_no b seq_no;
  (* let data_len = cmp::min(packet.data_mut().len(), data.len());
     packet.data_mut()[..data_len].copy_from_slice(&data[..data_len]) *)
  do hl <- icmpv4_header_len b;
  do dm <- wb_from b hl;
  let n := Z.min (blen dm) (blen data) in
  do src <- wb_upto data n;
  wb_set_slice b hl (hl + n) src.

Definition icmpv4_emit_error (tx4 : bool) (ty reason : Z) (header : ipv4_repr) (data : list Z)
    (b : list Z) : outcome (list Z) :=
  do b <- icmpv4_set_msg_type b ty;
  do b <- icmpv4_set_msg_code b reason;
  do b <- icmpv4_clear_unused b;
  do hl <- icmpv4_header_len b;
  (* let mut ip_packet = Ipv4Packet::new_unchecked(packet.data_mut()); header.emit(&mut ip_packet, caps);
     let payload = &mut ip_packet.into_inner()[header.buffer_len()..]; payload.copy_from_slice(data) *)
  wb_on_from b hl (fun inner =>
    do inner <- ipv4_emit sum_fill tx4 header inner;
    wb_set_slice inner (ipv4_buffer_len header) (blen inner) data).

(* Repr::emit *)
Definition icmpv4_emit (tx tx4 : bool) (r : icmpv4_repr) (b : list Z) : outcome (list Z) :=
  do b <- icmpv4_set_msg_code b 0;
  do b <- match r with
          | Icmp4EchoRequest i s d => icmpv4_emit_echo icmpv4_ECHO_REQUEST i s d b
          | Icmp4EchoReply i s d => icmpv4_emit_echo icmpv4_ECHO_REPLY i s d b
          | Icmp4DstUnreachable reason h d => icmpv4_emit_error tx4 icmpv4_DST_UNREACHABLE reason h d b
          | Icmp4TimeExceeded reason h d => icmpv4_emit_error tx4 icmpv4_TIME_EXCEEDED reason h d b
          end;
  if tx then icmpv4_fill_checksum b else icmpv4_set_checksum b 0.

End Checksum.

(* Proviso of C06 for ICMPv4:
   - identifier / sequence number u16, reason u8 (Rust types); data are octets;
   - error messages (DstUnreachable, TimeExceeded) carry the offending datagram's IPv4 header and
     the leading octets of its payload, "cut to the minimum MTU by design": the representation
     round-trips when `header.payload_len` is the number of payload octets actually carried
     ([payload_len = |data|], which is what `parse` produces — it cannot know the original length)
     and at least the 8 octets RFC 792 requires are present (parse rejects fewer);
   - the embedded header itself is well-formed (IPv4 proviso: 20 + payload_len <= 65535). *)
Definition icmpv4_wf (r : icmpv4_repr) : bool :=
  match r with
  | Icmp4EchoRequest i s d | Icmp4EchoReply i s d => is_u16 i && is_u16 s && bytes_ok d
  | Icmp4DstUnreachable reason h d | Icmp4TimeExceeded reason h d =>
      is_u8 reason && ipv4_wf h && bytes_ok d && (ipv4_payload_len h =? blen d) && (8 <=? blen d)
  end.
