(* Two TCP endpoints joined by an adversarial network (property C01).

   Executable system model built from the single-socket model Model/Tcp.v; nothing here is new
   protocol logic: every state change of a socket is one [tcp_step] (= one API call, one
   `process_tcp` of a parsed segment, or one `Socket::dispatch`).

   STATE      two [endpoint]s A and B.  An endpoint = the socket, its interface context (clock,
              MTU, address, next timestamp value, next random ISN), its OUTGOING channel
              [ep_out] (the segments it has emitted and the network still holds, oldest first),
              and the application-side log the property speaks about:
                ep_written   every octet `send` has accepted, in order
                ep_read      every octet `recv` has returned, in order
                ep_finished  some `recv` has answered Err(Finished)
                ep_closed    `close` was called on a connection that can still carry a FIN
                             (SYN-RECEIVED / ESTABLISHED / CLOSE-WAIT): the end of the stream is fixed
                ep_sent      every segment the endpoint has ever emitted (log only; nothing reads it)
   ADVERSARY  [NDeliver to i]   hand the i-th in-flight segment of the channel towards [to] to
                                `process_tcp` of [to] WITHOUT removing it (so a second NDeliver of the
                                same index is a duplicate, any index order is reordering / delay);
                                the reply, if any, enters [to]'s outgoing channel
              [NDrop to i]      remove it (loss)
              [NCorrupt to i]   a bit-flip: the segment fails checksum verification in
                                `TcpPacket::verify_checksum` / `process_tcp` and has no effect at all
                                (Props/C08.v: C08_single_bit_flip_detected_tcp, C08_single_bit_flip_detected_tcp_addr,
                                C08_parse_rejects_bad_checksum), so it is the same as a drop
              [NTick d]         both clocks advance by d >= 0 microseconds
              [NRand x isn ts]  the next values x's random generator / timestamp generator return
   SOCKETS    [NPoll x emit_ok] one `dispatch` of x (emit_ok = the device has a transmit token);
                                an emitted segment is appended to x's outgoing channel
              [NSend x data] [NRecv x n] [NClose x]   the application calls
   Everything a socket emits goes through its channel and only channel contents are ever delivered.
   Segments cross the channel as parsed [tcp_repr] values: emit-then-parse is the identity on them
   (property C06), corrupted ones do not parse (C08); the IP/link glue is C10/C11/C20's.

   INITIAL    [net_init]: both sockets are created by [tcp_new], configured by the setters, B listens
              on its port, A connects to it (ISN = A's [cx_isn]).
   No proofs in this file. *)
From SV Require Import Lib.Base Gen.Consts.
From SV Require Import Model.Seq32 Model.Assembler Model.TcpBuf Model.TcpTypes Model.Tcp.

Inductive side := SA | SB.
Definition side_other (x : side) : side := match x with SA => SB | SB => SA end.

Record endpoint := mkEp {
  ep_sock : socket;
  ep_cx : ctx;
  ep_out : list packet;
  ep_sent : list packet;
  ep_written : list Z;
  ep_read : list Z;
  ep_closed : bool;
  ep_finished : bool
}.

Record net := mkNet { n_a : endpoint; n_b : endpoint }.

Definition net_get (st : net) (x : side) : endpoint := match x with SA => n_a st | SB => n_b st end.
Definition net_set (st : net) (x : side) (e : endpoint) : net :=
  match x with SA => mkNet e (n_b st) | SB => mkNet (n_a st) e end.

Inductive net_event :=
| NDeliver (to : side) (i : nat)
| NDrop (to : side) (i : nat)
| NCorrupt (to : side) (i : nat)
| NTick (d : Z)
| NRand (x : side) (isn tsval : Z)
| NPoll (x : side) (emit_ok : bool)
| NSend (x : side) (data : list Z)
| NRecv (x : side) (n : Z)
| NClose (x : side).

(* ---------- endpoint updates ---------- *)
Definition ep_set_sock (e : endpoint) (s : socket) : endpoint :=
  mkEp s (ep_cx e) (ep_out e) (ep_sent e) (ep_written e) (ep_read e) (ep_closed e) (ep_finished e).
Definition ep_set_cx (e : endpoint) (c : ctx) : endpoint :=
  mkEp (ep_sock e) c (ep_out e) (ep_sent e) (ep_written e) (ep_read e) (ep_closed e) (ep_finished e).
Definition ep_set_out (e : endpoint) (o : list packet) : endpoint :=
  mkEp (ep_sock e) (ep_cx e) o (ep_sent e) (ep_written e) (ep_read e) (ep_closed e) (ep_finished e).

(* the endpoint emits [p]: into the channel and into the log *)
Definition ep_emit (e : endpoint) (p : option packet) : endpoint :=
  match p with
  | Some p => mkEp (ep_sock e) (ep_cx e) (ep_out e ++ [p]) (ep_sent e ++ [p]) (ep_written e)
                   (ep_read e) (ep_closed e) (ep_finished e)
  | None => e
  end.

Fixpoint remove_nth {A} (i : nat) (l : list A) : list A :=
  match l, i with
  | [], _ => []
  | _ :: r, O => r
  | x :: r, S i' => x :: remove_nth i' r
  end.

(* what a step of the socket emits onto the wire: a reply of process_tcp, or a segment dispatch
   handed to a device that had a transmit token *)
Definition wire_out (o : step_out) : option packet :=
  match o with
  | OReply (Some p) => Some p
  | ODispatch (DSent p) => Some p
  | _ => None
  end.

(* close() fixes the end of the stream when the connection can still carry a FIN *)
Definition closes_stream (st : tcp_state) : bool :=
  match st with SynReceived | Established | CloseWait => true | _ => false end.

(* one socket event at endpoint [e]; updates the application log from the observable result *)
Definition ep_step (e : endpoint) (ev : event) : outcome endpoint :=
  do x <- tcp_step (ep_cx e) (ep_sock e) ev;
  let '(s', out, _) := x in
  let e1 := ep_emit (ep_set_sock e s') (wire_out out) in
  Ok match ev, out with
     | EvSend data, OSize n =>
         mkEp (ep_sock e1) (ep_cx e1) (ep_out e1) (ep_sent e1) (ep_written e1 ++ l_take n data)
              (ep_read e1) (ep_closed e1) (ep_finished e1)
     | EvRecv _, OBytes b =>
         mkEp (ep_sock e1) (ep_cx e1) (ep_out e1) (ep_sent e1) (ep_written e1)
              (ep_read e1 ++ b) (ep_closed e1) (ep_finished e1)
     | EvRecv _, OErr 2 =>
         mkEp (ep_sock e1) (ep_cx e1) (ep_out e1) (ep_sent e1) (ep_written e1)
              (ep_read e1) (ep_closed e1) true
     | EvClose, _ =>
         mkEp (ep_sock e1) (ep_cx e1) (ep_out e1) (ep_sent e1) (ep_written e1)
              (ep_read e1) (ep_closed e1 || closes_stream (s_state (ep_sock e))) (ep_finished e1)
     | _, _ => e1
     end.

Definition cx_tick (c : ctx) (d : Z) : ctx :=
  mkCtx (cx_now c + Z.max 0 d) (cx_ip_mtu c) (cx_addr c) (cx_tsval c) (cx_isn c).
Definition cx_rand (c : ctx) (isn tsval : Z) : ctx :=
  mkCtx (cx_now c) (cx_ip_mtu c) (cx_addr c) (tsval mod 2 ^ 32) (isn mod 2 ^ 32).

(* what `TcpRepr::parse` yields for an emitted segment: every field is re-read from its wire
   encoding - sequence and acknowledgement numbers are 32-bit fields, the window a 16-bit field, the
   window-scale option one octet which the parser clamps to 14 (wire/tcp.rs; [wire_clamp_wscale] in
   Model/Tcp.v).  On the values the socket model emits this is the identity (property C06). *)
Definition wire_parse (r : tcp_repr) : tcp_repr :=
  mkRepr (r_src_port r) (r_dst_port r) (r_control r) (seq_norm (r_seq_number r))
         (match r_ack_number r with Some a => Some (seq_norm a) | None => None end)
         (r_window_len r mod 65536)
         (wire_clamp_wscale (match r_window_scale r with Some v => Some (v mod 256) | None => None end))
         (r_max_seg_size r) (r_sack_permitted r) (r_sack_ranges r) (r_timestamp r) (r_payload r).

(* ---------- one step of the system ---------- *)
Definition net_step (st : net) (ev : net_event) : outcome net :=
  match ev with
  | NDeliver to i =>
      match nth_error (ep_out (net_get st (side_other to))) i with
      | Some p => do e <- ep_step (net_get st to) (EvSegment (fst p) (wire_parse (snd p))); Ok (net_set st to e)
      | None => Ok st
      end
  | NDrop to i | NCorrupt to i =>
      let from := side_other to in
      let e := net_get st from in
      Ok (net_set st from (ep_set_out e (remove_nth i (ep_out e))))
  | NTick d =>
      Ok (mkNet (ep_set_cx (n_a st) (cx_tick (ep_cx (n_a st)) d))
                (ep_set_cx (n_b st) (cx_tick (ep_cx (n_b st)) d)))
  | NRand x isn tsval =>
      let e := net_get st x in Ok (net_set st x (ep_set_cx e (cx_rand (ep_cx e) isn tsval)))
  | NPoll x emit_ok => do e <- ep_step (net_get st x) (EvDispatch emit_ok); Ok (net_set st x e)
  | NSend x data => do e <- ep_step (net_get st x) (EvSend data); Ok (net_set st x e)
  | NRecv x n => do e <- ep_step (net_get st x) (EvRecv (Z.max 0 n)); Ok (net_set st x e)
  | NClose x => do e <- ep_step (net_get st x) EvClose; Ok (net_set st x e)
  end.

Fixpoint net_run (st : net) (evs : list net_event) : outcome net :=
  match evs with
  | [] => Ok st
  | ev :: r => do st' <- net_step st ev; net_run st' r
  end.

(* ---------- configuration and initial state ---------- *)
Record ep_config := mkEpCfg {
  c_rx_storage : list Z;          (* receive buffer (its length is the capacity) *)
  c_tx_storage : list Z;
  c_cc : controller;              (* none / Reno (any state) *)
  c_ts : bool;                    (* TCP timestamps *)
  c_timeout : option Z;
  c_keep_alive : option Z;
  c_ack_delay : option Z;
  c_nagle : bool;
  c_hop_limit : option Z;
  c_now : Z;
  c_mtu : Z;
  c_addr : Z;
  c_port : Z;
  c_isn : Z;                      (* first value of the random generator *)
  c_tsval : Z
}.

Definition cfg_ctx (c : ep_config) : ctx :=
  mkCtx (c_now c) (c_mtu c) (c_addr c) (c_tsval c mod 2 ^ 32) (c_isn c mod 2 ^ 32).

(* Socket::new + the setters, through [tcp_step] *)
Definition ep_create (c : ep_config) : outcome endpoint :=
  do s <- tcp_new (c_rx_storage c) (c_tx_storage c) (c_cc c) (c_ts c);
  let e := mkEp s (cfg_ctx c) [] [] [] [] false false in
  do e <- ep_step e (EvSetTimeout (c_timeout c));
  do e <- ep_step e (EvSetKeepAlive (c_keep_alive c));
  do e <- ep_step e (EvSetAckDelay (c_ack_delay c));
  do e <- ep_step e (EvSetNagle (c_nagle c));
  ep_step e (EvSetHopLimit (c_hop_limit c)).

(* B listens on its port, A connects to B from its own port *)
Definition net_init (ca cb : ep_config) : outcome net :=
  do a <- ep_create ca;
  do b <- ep_create cb;
  do b <- ep_step b (EvListen (mkListenEp None (c_port cb)));
  do a <- ep_step a (EvConnect (c_addr cb) (c_port cb) (mkListenEp None (c_port ca)));
  Ok (mkNet a b).

(* both sockets reached the state the scenario needs (listen / connect can be refused: port 0,
   unspecified address) *)
Definition net_started (st : net) : bool :=
  tcp_state_eqb (s_state (ep_sock (n_a st))) SynSent && tcp_state_eqb (s_state (ep_sock (n_b st))) Listen.
