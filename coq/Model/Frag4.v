(* Executable model of the IPv4 fragmenting sender (property C12):
     DeviceCapabilities::ip_mtu / max_ipv4_fragment_size          (src/phy/mod.rs)
     iface::fragmentation::Fragmenter (finished/is_empty/reset)   (src/iface/fragmentation.rs)
     InterfaceInner::dispatch_ip, IPv4 size decision + first fragment (src/iface/interface/mod.rs)
     InterfaceInner::dispatch_ipv4_frag, Interface::ipv4_egress    (src/iface/interface/ipv4.rs)

   A datagram is its IP payload (list of bytes); the 20 header bytes at the start of the
   fragmentation buffer are not modelled (the buffer keeps whatever was there), only their
   length [f4_hdr] = Ipv4Repr::buffer_len().  All sizes are [Z].

   Panic sources of the modelled Rust code and how they are treated (Proofs/Frag4Proofs.v):
     ip_mtu - ip_header_len (usize)            excluded by the hypothesis f4_hdr <= ip_mtu
     packet_len - sent_bytes (usize)           excluded by invariant [fr_inv] (sent <= packet_len)
     frag.buffer[off + hdr ..][..payload_len]  excluded by [fr_inv] (off + hdr + len <= packet_len <= |buffer|)
     frag_offset += payload_len as u16         excluded by [fr_inv] + packet_len <= |buffer| <= 65535
   No proofs in this file. *)
From SV Require Import Lib.Base Gen.Consts Gen.WireFields.

Definition f4_hdr : Z := wipv4_HEADER_LEN.                        (* Ipv4Repr::buffer_len() *)
Definition f4_align : Z := phy_IPV4_FRAGMENT_PAYLOAD_ALIGNMENT.
Definition f4_eth_hdr : Z := weth_f_PAYLOAD.                      (* EthernetFrame::header_len() *)

Inductive f4_medium := MIp | MEth.

(* DeviceCapabilities::ip_mtu *)
Definition f4_ip_mtu (m : f4_medium) (mtu : Z) : Z :=
  match m with MEth => mtu - f4_eth_hdr | MIp => mtu end.

(* DeviceCapabilities::max_ipv4_fragment_size *)
Definition f4_max_ipv4_fragment_size (ip_mtu ip_header_len : Z) : Z :=
  let payload_mtu := ip_mtu - ip_header_len in
  payload_mtu - payload_mtu mod f4_align.

Definition zlen (l : list Z) : Z := Z.of_nat (length l).

(* buf[off..][..len] *)
Definition f4_slice (buf : list Z) (off len : Z) : list Z :=
  firstn (Z.to_nat len) (skipn (Z.to_nat off) buf).

(* buf[off..][..|data|].copy_from_slice(data)   (requires off + |data| <= |buf|) *)
Definition f4_write (buf : list Z) (off : Z) (data : list Z) : list Z :=
  firstn (Z.to_nat off) buf ++ data ++ skipn (Z.to_nat off + length data) buf.

(* what the 13-bit offset field carries: set_frag_offset writes value >> 3, frag_offset()
   returns field << 3 *)
Definition f4_wire_offset (off : Z) : Z := 8 * (off / 8).

(* an emitted IPv4 packet reduced to the fields the property speaks about.  Unfragmented packets
   are emitted by Ipv4Repr::emit: ident 0, offset 0, MF clear. *)
Record ip4pkt := mkPkt { p_ident : Z; p_offset : Z; p_mf : bool; p_payload : list Z }.

Definition p_is_fragment (p : ip4pkt) : bool := p_mf p || negb (p_offset p =? 0).

(* Fragmenter: buffer (always FRAGMENTATION_BUFFER_SIZE long), packet_len, sent_bytes,
   ipv4.frag_offset, ipv4.ident.  (ipv4.repr / dst_hardware_addr only feed the header.) *)
Record fragmenter := mkFr {
  fr_buffer : list Z;
  fr_packet_len : Z;
  fr_sent_bytes : Z;
  fr_frag_offset : Z;
  fr_ident : Z
}.

Definition fr_new (bufsize : Z) : fragmenter :=
  mkFr (repeat 0 (Z.to_nat bufsize)) 0 0 0 0.

Definition fr_finished (f : fragmenter) : bool := fr_packet_len f =? fr_sent_bytes f.
Definition fr_is_empty (f : fragmenter) : bool := fr_packet_len f =? 0.
(* reset() clears the counters (and the header repr); frag_offset and ident are left alone *)
Definition fr_reset (f : fragmenter) : fragmenter :=
  mkFr (fr_buffer f) 0 0 (fr_frag_offset f) (fr_ident f).

Inductive dip_result :=
| DipSent            (* fits the MTU: emitted whole *)
| DipFragStarted     (* copied into the fragmentation buffer, first fragment emitted *)
| DipDroppedTooBig   (* larger than the fragmentation buffer: dropped, Ok(()) *)
| DipDroppedBusy.    (* fragmenter still holds unsent fragments: dropped, Ok(()) *)

(* dispatch_ip for an IPv4 packet on Medium::Ip / Medium::Ethernet after the hardware address
   is known.  [ident] is the value next_ipv4_frag_ident() returned for this call. *)
Definition f4_dispatch_ip (ip_mtu ident : Z) (fr : fragmenter) (payload : list Z)
  : fragmenter * list ip4pkt * dip_result :=
  let total_ip_len := f4_hdr + zlen payload in
  if total_ip_len >? ip_mtu then
    let ip_header_len := f4_hdr in
    let first_frag_data_len := f4_max_ipv4_fragment_size ip_mtu f4_hdr in
    let first_frag_ip_len := first_frag_data_len + ip_header_len in
    if zlen (fr_buffer fr) <? total_ip_len then (fr, [], DipDroppedTooBig)
    else if negb (fr_finished fr) then (fr, [], DipDroppedBusy)
    else
      (* emit_ip(&ip_repr, &mut frag.buffer[..total_ip_len]): header, then the whole payload *)
      let buf := f4_write (fr_buffer fr) f4_hdr payload in
      let fr' := mkFr buf total_ip_len first_frag_ip_len (first_frag_ip_len - ip_header_len) ident in
      (* tx_buffer[..first_frag_ip_len].copy_from_slice(&frag.buffer[..first_frag_ip_len]) *)
      (fr', [mkPkt ident 0 true (f4_slice buf f4_hdr first_frag_data_len)], DipFragStarted)
  else (fr, [mkPkt 0 0 false payload], DipSent).

(* dispatch_ipv4_frag: one further fragment *)
Definition f4_dispatch_ipv4_frag (ip_mtu : Z) (fr : fragmenter) : fragmenter * ip4pkt :=
  let max_fragment_size := f4_max_ipv4_fragment_size ip_mtu f4_hdr in
  let payload_len := Z.min (fr_packet_len fr - fr_sent_bytes fr) max_fragment_size in
  let more_frags := negb (fr_packet_len fr - fr_sent_bytes fr =? payload_len) in
  let pkt := mkPkt (fr_ident fr) (f4_wire_offset (fr_frag_offset fr)) more_frags
                   (f4_slice (fr_buffer fr) (fr_frag_offset fr + f4_hdr) payload_len) in
  (mkFr (fr_buffer fr) (fr_packet_len fr) (fr_sent_bytes fr + payload_len)
        (fr_frag_offset fr + payload_len) (fr_ident fr), pkt).

(* Interface::ipv4_egress; [can_tx] = device.transmit() handed out a token *)
Definition f4_ipv4_egress (ip_mtu : Z) (can_tx : bool) (fr : fragmenter)
  : fragmenter * list ip4pkt :=
  let fr := if fr_finished fr then fr_reset fr else fr in
  if fr_is_empty fr then (fr, [])
  else if (fr_packet_len fr >? fr_sent_bytes fr) && can_tx then
    let '(fr', p) := f4_dispatch_ipv4_frag ip_mtu fr in (fr', [p])
  else (fr, []).

(* all further fragments of the datagram in the fragmenter, one per egress step *)
Fixpoint f4_drain (fuel : nat) (ip_mtu : Z) (fr : fragmenter) : list ip4pkt :=
  match fuel with
  | O => []
  | S k =>
      if fr_finished fr then []
      else let '(fr', p) := f4_dispatch_ipv4_frag ip_mtu fr in p :: f4_drain k ip_mtu fr'
  end.

(* datagram payload, MTU, (header length = f4_hdr) -> the packets put on the wire *)
Definition f4_fragment_datagram (ip_mtu ident : Z) (fr0 : fragmenter) (payload : list Z)
  : list ip4pkt :=
  let '(fr, first, _) := f4_dispatch_ip ip_mtu ident fr0 payload in
  first ++ f4_drain (length payload) ip_mtu fr.

(* ---- specification-level splitting (what RFC 791 fragmentation with a fixed chunk size is) ---- *)
Fixpoint f4_chunks (fuel : nat) (maxsz ident off : Z) (data : list Z) : list ip4pkt :=
  match fuel with
  | O => []
  | S k =>
      if zlen data <=? maxsz then [mkPkt ident off false data]
      else mkPkt ident off true (firstn (Z.to_nat maxsz) data)
           :: f4_chunks k maxsz ident (off + maxsz) (skipn (Z.to_nat maxsz) data)
  end.

Definition f4_split (ip_mtu ident : Z) (payload : list Z) : list ip4pkt :=
  f4_chunks (S (length payload)) (f4_max_ipv4_fragment_size ip_mtu f4_hdr) ident 0 payload.
