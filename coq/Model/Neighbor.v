(* Executable model of smoltcp::iface::neighbor::Cache (src/iface/neighbor.rs).

   storage : heapless::LinearMap<IpAddress, Neighbor, IFACE_NEIGHBOR_CACHE_COUNT>, modelled as
   an association list in the map's own (insertion / swap_remove) order, because
   `min_by_key` in the eviction path returns the FIRST minimal element in that order:
     insert, key present  -> value replaced in place            (lm_replace)
     insert, key absent   -> pushed at the end if len < cap, else Err
     remove               -> Vec::swap_remove: the hole is filled with the LAST element
   The capacity is a parameter [cap] (theorems hold for every cap >= 1); [neigh_cap] is the
   configured IFACE_NEIGHBOR_CACHE_COUNT from Gen.Consts.

   Instants are i64 microseconds (Instant::micros), Durations likewise: SILENT_TIME and
   ENTRY_LIFETIME are Gen.Consts.neigh_SILENT_TIME / neigh_ENTRY_LIFETIME (microseconds).
   i64 overflow of `timestamp + Duration` is outside the model.

   Protocol addresses: [V4 a] with a in [0,2^32), [V6 a] with a in [0,2^128).
   Hardware addresses: Z (Ethernet: the 48-bit value; IEEE 802.15.4: see Model/Nexthop.v).

   Panic sources of the Rust code and how they are treated:
     lookup: assert!(protocol_addr.is_unicast())        -> checked by the callers' models
                                                            (Nexthop.nh_lookup_hardware_addr: Panic)
     fill:   debug_assert!(protocol_addr.is_unicast()), debug_assert!(hardware_addr.is_unicast())
                                                         -> guaranteed by the validation code in front of
                                                            every call (Nexthop.nh_process_arp / _ndisc)
     fill_with_expiration: expect("empty neighbor cache storage"), unwrap, unreachable!
                                                         -> impossible when cap >= 1 (NeighborProofs)
   No proofs in this file: it must still run when a proof breaks. *)
From SV Require Import Lib.Base Gen.Consts.

Inductive ipaddr := V4 (a : Z) | V6 (a : Z).

Definition ip_eqb (x y : ipaddr) : bool :=
  match x, y with
  | V4 a, V4 b => a =? b
  | V6 a, V6 b => a =? b
  | _, _ => false
  end.

Record neighbor := mkNeighbor { nb_hw : Z; nb_expires : Z }.

Record cache := mkCache { c_storage : list (ipaddr * neighbor); c_silent_until : Z }.

Inductive answer := Found (hw : Z) | NotFound | RateLimited.

Definition neigh_cap : Z := cfg_IFACE_NEIGHBOR_CACHE_COUNT.

(* Cache::new *)
Definition neigh_new : cache := mkCache [] 0.

(* LinearMap::get *)
Fixpoint lm_get (l : list (ipaddr * neighbor)) (k : ipaddr) : option neighbor :=
  match l with
  | [] => None
  | (k', v) :: r => if ip_eqb k' k then Some v else lm_get r k
  end.

(* LinearMap::insert on an existing key / get_mut + assignment: value replaced in place *)
Fixpoint lm_replace (l : list (ipaddr * neighbor)) (k : ipaddr) (v : neighbor) : list (ipaddr * neighbor) :=
  match l with
  | [] => []
  | (k', v') :: r => if ip_eqb k' k then (k', v) :: r else (k', v') :: lm_replace r k v
  end.

(* iter().min_by_key(expires_at): first minimal element *)
Fixpoint lm_min (best : ipaddr * neighbor) (l : list (ipaddr * neighbor)) : ipaddr * neighbor :=
  match l with
  | [] => best
  | x :: r => if nb_expires (snd x) <? nb_expires (snd best) then lm_min x r else lm_min best r
  end.

(* LinearMap::remove = Vec::swap_remove at the key's index *)
Fixpoint lm_swap_remove (l : list (ipaddr * neighbor)) (k : ipaddr) : list (ipaddr * neighbor) :=
  match l with
  | [] => []
  | x :: r =>
      if ip_eqb (fst x) k then
        match r with
        | [] => []
        | _ :: _ => last r x :: removelast r
        end
      else x :: lm_swap_remove r k
  end.

(* Cache::fill_with_expiration *)
Definition neigh_fill_with_expiration (cap : Z) (c : cache) (k : ipaddr) (hw : Z) (expires_at : Z) : cache :=
  let nb := mkNeighbor hw expires_at in
  let st := c_storage c in
  match lm_get st k with
  | Some _ => mkCache (lm_replace st k nb) (c_silent_until c)            (* Ok(Some(old)) *)
  | None =>
      if Z.of_nat (length st) <? cap
      then mkCache (st ++ [(k, nb)]) (c_silent_until c)                  (* Ok(None) *)
      else                                                               (* Err: evict the smallest expiry *)
        match st with
        | [] => mkCache [(k, nb)] (c_silent_until c)                     (* only if cap <= 0: Rust panics (expect) *)
        | x :: r =>
            let old := fst (lm_min x r) in
            mkCache (lm_swap_remove st old ++ [(k, nb)]) (c_silent_until c)
        end
  end.

(* Cache::fill *)
Definition neigh_fill (cap : Z) (c : cache) (k : ipaddr) (hw : Z) (timestamp : Z) : cache :=
  neigh_fill_with_expiration cap c k hw (timestamp + neigh_ENTRY_LIFETIME).

(* Cache::reset_expiry_if_existing *)
Definition neigh_reset_expiry_if_existing (c : cache) (k : ipaddr) (source_hw : Z) (timestamp : Z) : cache :=
  match lm_get (c_storage c) k with
  | Some nb =>
      if source_hw =? nb_hw nb
      then mkCache (lm_replace (c_storage c) k (mkNeighbor (nb_hw nb) (timestamp + neigh_ENTRY_LIFETIME)))
                   (c_silent_until c)
      else c
  | None => c
  end.

(* Cache::lookup *)
Definition neigh_lookup (c : cache) (k : ipaddr) (timestamp : Z) : answer :=
  match lm_get (c_storage c) k with
  | Some nb =>
      if timestamp <? nb_expires nb then Found (nb_hw nb)
      else if timestamp <? c_silent_until c then RateLimited else NotFound
  | None => if timestamp <? c_silent_until c then RateLimited else NotFound
  end.

(* Answer::found *)
Definition answer_found (a : answer) : bool :=
  match a with Found _ => true | _ => false end.

(* Cache::limit_rate *)
Definition neigh_limit_rate (c : cache) (timestamp : Z) : cache :=
  mkCache (c_storage c) (timestamp + neigh_SILENT_TIME).

(* Cache::flush *)
Definition neigh_flush (c : cache) : cache := mkCache [] (c_silent_until c).
