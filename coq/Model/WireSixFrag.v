(* Executable model of the 6LoWPAN fragment header, src/wire/sixlowpan/frag.rs
   (RFC 4944 s5.3; property C20, step 1).  Vocabulary of Model/WireBase.v: a buffer is a
   [list Z] of octets, every slice index is a checked read/write in the [outcome] monad.

     Rust                                   model
     Packet::dispatch                       sixfrag_dispatch
     Packet::check_len / new_checked        sixfrag_check_len / sixfrag_new_checked
     Packet::datagram_size / _tag / _offset sixfrag_datagram_size / _tag / _offset
     Packet::is_first_fragment / payload    sixfrag_is_first / sixfrag_payload
     Packet::set_dispatch_field / set_*     sixfrag_set_dispatch_field / sixfrag_set_*
     Repr::{parse, buffer_len, emit}        sixfrag_parse / sixfrag_buffer_len / sixfrag_emit

   Panic sources: `raw[field]` indexing in every accessor (wb_get_u8 / wb_get_u16 / wb_from),
   `unreachable!()` in datagram_offset / payload for a dispatch that is neither FRAG1 nor FRAGN.
   Offsets and dispatch values come from Gen (regenerated from the Rust source).
   No proofs in this file. *)
From SV Require Import Lib.Base Gen.Consts Gen.WireFields Model.WireBase.

(* enum Repr { FirstFragment { size, tag }, Fragment { size, tag, offset } } *)
Inductive sixfrag_repr :=
| SfFirst (size tag : Z)
| SfNext (size tag offset : Z).

Definition sixfrag_FIRST : Z := wsix_DISPATCH_FIRST_FRAGMENT_HEADER.
Definition sixfrag_NEXT : Z := wsix_DISPATCH_FRAGMENT_HEADER.
(* 0b111_1111_1111: the datagram_size mask (a literal in datagram_size / set_datagram_size) *)
Definition sixfrag_SIZE_MASK : Z := 2047.

(* raw[field::DISPATCH] >> 3 *)
Definition sixfrag_dispatch (b : list Z) : outcome Z :=
  do x <- wb_get_u8 b wsixfrag_f_DISPATCH; Ok (Z.shiftr x 3).

(* Packet::check_len *)
Definition sixfrag_check_len (b : list Z) : outcome unit :=
  if blen b =? 0 then Err 0 else
  do d <- sixfrag_dispatch b;
  if d =? sixfrag_FIRST then
    (if wsixfrag_FIRST_FRAGMENT_HEADER_SIZE <=? blen b then Ok tt else Err 0)
  else if d =? sixfrag_NEXT then
    (if wsixfrag_NEXT_FRAGMENT_HEADER_SIZE <=? blen b then Ok tt else Err 0)
  else Err 0.

(* Packet::new_checked *)
Definition sixfrag_new_checked (b : list Z) : outcome unit :=
  do _ <- sixfrag_check_len b;
  do d <- sixfrag_dispatch b;
  if negb (d =? sixfrag_FIRST) && negb (d =? sixfrag_NEXT) then Err 0 else Ok tt.

(* NetworkEndian::read_u16(&raw[field::DATAGRAM_SIZE]) & 0b111_1111_1111 *)
Definition sixfrag_datagram_size (b : list Z) : outcome Z :=
  do v <- wb_get_u16 b wsixfrag_f_DATAGRAM_SIZE; Ok (Z.land v sixfrag_SIZE_MASK).

Definition sixfrag_datagram_tag (b : list Z) : outcome Z :=
  wb_get_u16 b wsixfrag_f_DATAGRAM_TAG.

Definition sixfrag_datagram_offset (b : list Z) : outcome Z :=
  do d <- sixfrag_dispatch b;
  if d =? sixfrag_FIRST then Ok 0
  else if d =? sixfrag_NEXT then wb_get_u8 b wsixfrag_f_DATAGRAM_OFFSET
  else Panic (* unreachable!() *).

Definition sixfrag_is_first (b : list Z) : outcome bool :=
  do d <- sixfrag_dispatch b; Ok (d =? sixfrag_FIRST).

Definition sixfrag_payload (b : list Z) : outcome (list Z) :=
  do d <- sixfrag_dispatch b;
  if d =? sixfrag_FIRST then wb_from b wsixfrag_FIRST_FRAGMENT_HEADER_SIZE
  else if d =? sixfrag_NEXT then wb_from b wsixfrag_NEXT_FRAGMENT_HEADER_SIZE
  else Panic (* unreachable!() *).

(* Repr::parse *)
Definition sixfrag_parse (b : list Z) : outcome sixfrag_repr :=
  do _ <- sixfrag_check_len b;
  do size <- sixfrag_datagram_size b;
  do tag <- sixfrag_datagram_tag b;
  do d <- sixfrag_dispatch b;
  if d =? sixfrag_FIRST then Ok (SfFirst size tag)
  else if d =? sixfrag_NEXT then
    (do off <- sixfrag_datagram_offset b; Ok (SfNext size tag off))
  else Err 0.

(* Repr::buffer_len *)
Definition sixfrag_buffer_len (r : sixfrag_repr) : Z :=
  match r with
  | SfFirst _ _ => wsixfrag_FIRST_FRAGMENT_HEADER_SIZE
  | SfNext _ _ _ => wsixfrag_NEXT_FRAGMENT_HEADER_SIZE
  end.

(* raw[DISPATCH] = (raw[DISPATCH] & !(0b11111 << 3)) | (value << 3)      (u8 arithmetic) *)
Definition sixfrag_set_dispatch_field (b : list Z) (value : Z) : outcome (list Z) :=
  wb_upd_u8 b wsixfrag_f_DISPATCH
    (fun raw => Z.lor (Z.land raw (255 - Z.shiftl 31 3)) ((Z.shiftl value 3) mod 256)).

(* v = read_u16(..); v = (v & !0b111_1111_1111) | size; write_u16(.., v)   (u16 arithmetic) *)
Definition sixfrag_set_datagram_size (b : list Z) (size : Z) : outcome (list Z) :=
  wb_upd_u16 b wsixfrag_f_DATAGRAM_SIZE
    (fun v => Z.lor (Z.land v (65535 - sixfrag_SIZE_MASK)) size).

Definition sixfrag_set_datagram_tag (b : list Z) (tag : Z) : outcome (list Z) :=
  wb_put_u16 b wsixfrag_f_DATAGRAM_TAG tag.

Definition sixfrag_set_datagram_offset (b : list Z) (off : Z) : outcome (list Z) :=
  wb_set_u8 b wsixfrag_f_DATAGRAM_OFFSET off.

(* Repr::emit *)
Definition sixfrag_emit (r : sixfrag_repr) (b : list Z) : outcome (list Z) :=
  match r with
  | SfFirst size tag =>
      do b <- sixfrag_set_dispatch_field b sixfrag_FIRST;
      do b <- sixfrag_set_datagram_size b size;
      sixfrag_set_datagram_tag b tag
  | SfNext size tag off =>
      do b <- sixfrag_set_dispatch_field b sixfrag_NEXT;
      do b <- sixfrag_set_datagram_size b size;
      do b <- sixfrag_set_datagram_tag b tag;
      sixfrag_set_datagram_offset b off
  end.

(* Field ranges of the Rust types (u16, u16, u8) restricted to what the wire format can hold:
   the datagram size is an 11-bit field. *)
Definition sixfrag_wf (r : sixfrag_repr) : bool :=
  match r with
  | SfFirst size tag => (0 <=? size) && (size <=? sixfrag_SIZE_MASK) && is_u16 tag
  | SfNext size tag off => (0 <=? size) && (size <=? sixfrag_SIZE_MASK) && is_u16 tag && is_u8 off
  end.

(* SixlowpanPacket::dispatch (src/wire/sixlowpan/mod.rs): 0 = FragmentHeader, 1 = IphcHeader *)
Definition sixlowpan_dispatch (b : list Z) : outcome Z :=
  if blen b =? 0 then Err 0 else
  do x <- wb_get_u8 b 0;
  if (Z.shiftr x 3 =? sixfrag_FIRST) || (Z.shiftr x 3 =? sixfrag_NEXT) then Ok 0
  else if Z.shiftr x 5 =? wsix_DISPATCH_IPHC_HEADER then Ok 1
  else Err 0.
