(* Executable model of smoltcp's multicast host state machine
   (src/iface/interface/multicast.rs, properties C10 / C11 / C03).  Gallina only, NO proofs.

   Every function mirrors the Rust function of the same name (prefix mc_), branch by branch:
     multicast.rs   State::has_multicast_group, Interface::{join_multicast_group, leave_multicast_group,
                    update_solicited_node_groups, multicast_egress},
                    InterfaceInner::{process_igmp, igmp_report_packet, igmp_leave_packet, process_mldv2}
     mod.rs         InterfaceInner::has_multicast_group (all-systems / all-nodes / solicited-node special
                    cases AFTER the repair f51848c; shared with Model/Ingress.v), update_ip_addrs,
                    the rand draws of Interface::new, dispatch_ip / lookup_hardware_addr as far as a
                    packet to a multicast destination exercises them
     ipv6.rs        mldv2_report_packet, the RFC 3810 6.2 reception checks of process_icmpv6
     rand.rs        Rand::rand_u32 / rand_u16 (the MLD response delay is drawn from the interface RNG)
     heapless       LinearMap::{get, insert, remove}: insertion-ordered association list, insert
                    replaces in place or pushes (fails when full), remove is Vec::swap_remove
                    (the LAST entry moves into the freed slot).

   Representation: addresses as in Model/Addr.v; times are Instant / Duration microsecond counts;
   the device is the sequence of answers its transmit() gives (true = a tx token, false / exhausted =
   None), one element consumed per call; emitted packets are abstract records (kind, group(s),
   source, destination, hop limit, router-alert flag) - the byte layout is property C06's
   (Model/WireIgmp.v, Model/WireMld.v).  [pk_cause] is a ghost field (which arm built the packet).

   Panic sources of the modelled code and how they appear here:
     dispatch_ip(..).unwrap()  (six call sites)      Panic when mc_dispatch_ip is not Ok
     assert!(!dst.is_unspecified()) in dispatch_ip    Panic in mc_dispatch_ip
     unreachable!() in lookup_hardware_addr for an IPv4 multicast destination on IEEE 802.15.4
     groups.insert(addr, Joined).unwrap()             Panic when mc_insert fails
     Ipv6Address::solicited_node assert!(unicast)     Panic in mc_join_solicited
     check_ip_addrs panic!                            Panic in mc_update_ip_addrs
   A `while let` loop is structural recursion on a fuel equal to the table length; running out of
   fuel with work left is [Err 99] (proved unreachable: the loops terminate).
   `now + interval`, `next_index + 1` (debug overflow) are outside the model: unbounded Z. *)
From SV Require Import Lib.Base Gen.Consts Gen.WireFields Model.Addr Model.Ingress Model.WireIgmp.

(* ------------------------------------------------------------------ state *)

Inductive gstate : Type := GJoining | GJoined | GLeaving.

Definition gstate_eqb (a b : gstate) : bool :=
  match a, b with
  | GJoining, GJoining | GJoined, GJoined | GLeaving, GLeaving => true
  | _, _ => false
  end.

(* IgmpReportState *)
Inductive igmp_rs : Type :=
| IgInactive
| IgGeneral (ver : igmp_version) (timeout interval next_index : Z)
| IgSpecific (ver : igmp_version) (timeout group : Z).

(* MldReportState *)
Inductive mld_rs : Type :=
| MlInactive
| MlGeneral (timeout : Z)
| MlSpecific (group timeout : Z).

Definition gtable : Type := list (ipaddr * gstate).

Record mstate : Type := mkMc {
  mc_medium : medium;          (* caps.medium *)
  mc_ip_mtu : Z;               (* caps.ip_mtu() *)
  mc_addrs : list cidr;        (* ip_addrs, in order *)
  mc_groups : gtable;          (* multicast.groups, in LinearMap order *)
  mc_igmp : igmp_rs;           (* multicast.igmp_report_state *)
  mc_mld : mld_rs;             (* multicast.mld_report_state *)
  mc_rand : Z                  (* rand.state (u64) *)
}.

Definition mc_set_groups (st : mstate) (g : gtable) : mstate :=
  mkMc (mc_medium st) (mc_ip_mtu st) (mc_addrs st) g (mc_igmp st) (mc_mld st) (mc_rand st).
Definition mc_set_addrs (st : mstate) (a : list cidr) : mstate :=
  mkMc (mc_medium st) (mc_ip_mtu st) a (mc_groups st) (mc_igmp st) (mc_mld st) (mc_rand st).
Definition mc_set_igmp (st : mstate) (x : igmp_rs) : mstate :=
  mkMc (mc_medium st) (mc_ip_mtu st) (mc_addrs st) (mc_groups st) x (mc_mld st) (mc_rand st).
Definition mc_set_mld (st : mstate) (x : mld_rs) : mstate :=
  mkMc (mc_medium st) (mc_ip_mtu st) (mc_addrs st) (mc_groups st) (mc_igmp st) x (mc_rand st).
Definition mc_set_rand (st : mstate) (r : Z) : mstate :=
  mkMc (mc_medium st) (mc_ip_mtu st) (mc_addrs st) (mc_groups st) (mc_igmp st) (mc_mld st) r.

(* ------------------------------------------------------------------ rand.rs *)

(* Rand::rand_u32 (sPCG32): returns (value, new state) *)
Definition mc_rand_u32 (s : Z) : Z * Z :=
  let s' := (s * rand_M + rand_A) mod 2 ^ 64 in
  let shift := 29 - s' / 2 ^ 61 in
  ((s' / 2 ^ shift) mod 2 ^ 32, s').

(* Rand::rand_u16 *)
Definition mc_rand_u16 (s : Z) : Z * Z :=
  let '(n, s') := mc_rand_u32 s in
  ((Z.lxor n (n / 65536)) mod 65536, s').

(* the three `loop { x = rand...; if x != 0 { break } }` of Interface::new (sequence number,
   6LoWPAN tag, IPv4 ident).  A zero draw has probability 2^-8 / 2^-16; the fuel only makes the
   definition structural (the correspondence compares the resulting MLD delays). *)
Fixpoint mc_rand_nonzero (fuel : nat) (f : Z -> Z * Z) (s : Z) : Z :=
  match fuel with
  | O => s
  | S k => let '(v, s') := f s in if v =? 0 then mc_rand_nonzero k f s' else s'
  end.

Definition mc_rand_after_new (seed : Z) : Z :=
  let s1 := mc_rand_nonzero 64 (fun s => let '(v, s') := mc_rand_u32 s in (v mod 256, s')) (seed mod 2 ^ 64) in
  let s2 := mc_rand_nonzero 64 mc_rand_u16 s1 in
  mc_rand_nonzero 64 mc_rand_u16 s2.

(* Interface::new: no addresses, empty table, both report machines Inactive *)
Definition mc_new (m : medium) (ip_mtu seed : Z) : mstate :=
  mkMc m ip_mtu [] [] IgInactive MlInactive (mc_rand_after_new seed).

(* ------------------------------------------------------------------ heapless::LinearMap *)

(* LinearMap::get *)
Fixpoint mc_get (g : ipaddr) (l : gtable) : option gstate :=
  match l with
  | [] => None
  | (k, s) :: t => if ip_eqb k g then Some s else mc_get g t
  end.

(* overwrite the value of the first entry with key g (get_mut / the replace half of insert) *)
Fixpoint mc_set (g : ipaddr) (s : gstate) (l : gtable) : gtable :=
  match l with
  | [] => []
  | (k, s0) :: t => if ip_eqb k g then (k, s) :: t else (k, s0) :: mc_set g s t
  end.

(* LinearMap::insert: None = Err (map full) *)
Definition mc_insert (g : ipaddr) (s : gstate) (l : gtable) : option gtable :=
  match mc_get g l with
  | Some _ => Some (mc_set g s l)
  | None => if Z.of_nat (length l) <? cfg_IFACE_MAX_MULTICAST_GROUP_COUNT then Some (l ++ [(g, s)]) else None
  end.

Fixpoint mc_replace_first (g : ipaddr) (e : ipaddr * gstate) (l : gtable) : gtable :=
  match l with
  | [] => []
  | (k, s) :: t => if ip_eqb k g then e :: t else (k, s) :: mc_replace_first g e t
  end.

(* LinearMap::remove = Vec::swap_remove(index of the key): the last entry takes the freed slot *)
Definition mc_remove (g : ipaddr) (l : gtable) : gtable :=
  match mc_get g l with
  | None => l
  | Some _ => match rev l with
              | [] => []
              | lst :: _ => mc_replace_first g lst (removelast l)
              end
  end.

(* keys of one family, in table order (the filter_map(..) iterators) *)
Fixpoint mc_v4_keys (l : gtable) : list Z :=
  match l with
  | [] => []
  | (V4 a, _) :: t => a :: mc_v4_keys t
  | (V6 _, _) :: t => mc_v4_keys t
  end.
Fixpoint mc_v6_keys (l : gtable) : list Z :=
  match l with
  | [] => []
  | (V6 a, _) :: t => a :: mc_v6_keys t
  | (V4 _, _) :: t => mc_v6_keys t
  end.

(* the same, skipping groups in state Leaving (the general-query responses, since the repair that
   stopped reports for groups being left) *)
Fixpoint mc_v4_member_keys (l : gtable) : list Z :=
  match l with
  | [] => []
  | (V4 a, s) :: t => if gstate_eqb s GLeaving then mc_v4_member_keys t else a :: mc_v4_member_keys t
  | (V6 _, _) :: t => mc_v4_member_keys t
  end.
Fixpoint mc_v6_member_keys (l : gtable) : list Z :=
  match l with
  | [] => []
  | (V6 a, s) :: t => if gstate_eqb s GLeaving then mc_v6_member_keys t else a :: mc_v6_member_keys t
  | (V4 _, _) :: t => mc_v6_member_keys t
  end.

(* groups.iter().find(|(_, &state)| state == s) *)
Fixpoint mc_find_state (s : gstate) (l : gtable) : option ipaddr :=
  match l with
  | [] => None
  | (k, s0) :: t => if gstate_eqb s0 s then Some k else mc_find_state s t
  end.

(* ------------------------------------------------------------------ membership *)

(* State::has_multicast_group: false when absent or Leaving *)
Definition mc_state_has (l : gtable) (g : ipaddr) : bool :=
  match mc_get g l with
  | None => false
  | Some GJoining => true
  | Some GJoined => true
  | Some GLeaving => false
  end.

(* the keys State::has_multicast_group answers true for = Model/Ingress.v's if_groups *)
Definition mc_joined_keys (l : gtable) : list ipaddr :=
  map fst (filter (fun e => match snd e with GLeaving => false | _ => true end) l).

(* the interface as Model/Ingress.v sees it (no routes / neighbors / any_ip: not used here) *)
Definition mc_iface (st : mstate) : iface :=
  mkIface (mc_medium st) HwIp None (mc_addrs st) (mc_joined_keys (mc_groups st)) false [] [] false
          (mc_ip_mtu st) 0 false.

(* InterfaceInner::has_multicast_group *)
Definition mc_has_multicast_group (st : mstate) (g : ipaddr) : bool :=
  if mc_state_has (mc_groups st) g then true
  else match g with
       | V4 a => a =? v4_MULTICAST_ALL_SYSTEMS
       | V6 a => (a =? v6_LINK_LOCAL_ALL_NODES) || ing_has_solicited_node (mc_iface st) a
       end.

(* return codes of join / leave: Ok(()) / Err(GroupTableFull) / Err(Unaddressable) *)
Definition mc_OK : Z := 0.
Definition mc_GROUP_TABLE_FULL : Z := 1.
Definition mc_UNADDRESSABLE : Z := 2.

(* Interface::join_multicast_group *)
Definition mc_join (st : mstate) (g : ipaddr) : mstate * Z :=
  if negb (ip_is_multicast g) then (st, mc_UNADDRESSABLE)
  else match mc_get g (mc_groups st) with
       | Some s =>
           let s' := match s with GJoining => GJoining | GJoined => GJoined | GLeaving => GJoined end in
           (mc_set_groups st (mc_set g s' (mc_groups st)), mc_OK)
       | None =>
           match mc_insert g GJoining (mc_groups st) with
           | Some l => (mc_set_groups st l, mc_OK)
           | None => (st, mc_GROUP_TABLE_FULL)
           end
       end.

(* Interface::leave_multicast_group *)
Definition mc_leave (st : mstate) (g : ipaddr) : mstate * Z :=
  if negb (ip_is_multicast g) then (st, mc_UNADDRESSABLE)
  else match mc_get g (mc_groups st) with
       | Some s =>
           let '(s', delete) := match s with
                                | GJoining => (GJoined, true)
                                | GJoined => (GLeaving, false)
                                | GLeaving => (GLeaving, false)
                                end in
           let l := mc_set g s' (mc_groups st) in
           (mc_set_groups st (if delete then mc_remove g l else l), mc_OK)
       | None => (st, mc_OK)
       end.

(* second loop of update_solicited_node_groups: join the solicited-node group of every IPv6
   address, ignoring GroupTableFull; solicited_node() asserts the address is unicast *)
Fixpoint mc_join_solicited (l : list cidr) (st : mstate) : outcome mstate :=
  match l with
  | [] => Ok st
  | c :: t =>
      match c_addr c with
      | V6 a => if v6_x_is_unicast a then mc_join_solicited t (fst (mc_join st (V6 (v6_solicited_node a))))
                else Panic
      | V4 _ => mc_join_solicited t st
      end
  end.

(* Interface::update_solicited_node_groups *)
Definition mc_update_solicited_node_groups (st : mstate) : outcome mstate :=
  let removals :=
    filter (fun k => match k with
                     | V6 a => v6_is_solicited_node_multicast a && negb (ing_has_solicited_node (mc_iface st) a)
                     | V4 _ => false
                     end) (map fst (mc_groups st)) in
  let st1 := fold_left (fun s k => fst (mc_leave s k)) removals st in
  mc_join_solicited (mc_addrs st1) st1.

(* InterfaceInner::check_ip_addrs *)
Definition mc_check_ip_addrs (l : list cidr) : bool :=
  forallb (fun c => ip_is_unicast (c_addr c) || ip_is_unspecified (c_addr c)) l.

(* Interface::update_ip_addrs with the new address list the closure produced *)
Definition mc_update_ip_addrs (st : mstate) (addrs : list cidr) : outcome mstate :=
  let st1 := mc_set_addrs st addrs in
  if negb (mc_check_ip_addrs addrs) then Panic
  else match mc_medium st with
       | MEth => mc_update_solicited_node_groups st1
       | _ => Ok st1
       end.

(* the two closures the correspondence harness passes to update_ip_addrs *)
Definition cidr_eqb (a b : cidr) : bool := ip_eqb (c_addr a) (c_addr b) && (c_plen a =? c_plen b).
Definition mc_addr_add (st : mstate) (c : cidr) : outcome mstate :=
  mc_update_ip_addrs st
    (if Z.of_nat (length (mc_addrs st)) <? cfg_IFACE_MAX_ADDR_COUNT then mc_addrs st ++ [c] else mc_addrs st).
Definition mc_addr_remove (st : mstate) (c : cidr) : outcome mstate :=
  mc_update_ip_addrs st (filter (fun x => negb (cidr_eqb x c)) (mc_addrs st)).

(* ------------------------------------------------------------------ packets *)

Inductive mrec_type : Type := RModeIsExclude | RChangeToInclude | RChangeToExclude.

Inductive mkind : Type :=
| KIgmpReport (ver : igmp_version) (group : Z)
| KIgmpLeave (group : Z)
| KMldReport (records : list (mrec_type * Z)).

Inductive mcause : Type := CJoin | CLeave | CSpecific | CGeneral.

Record mpkt : Type := mkPkt {
  pk_kind : mkind;
  pk_src : ipaddr;
  pk_dst : ipaddr;
  pk_hop : Z;          (* hop limit / TTL *)
  pk_ra : bool;        (* carries a router-alert option *)
  pk_cause : mcause    (* ghost *)
}.

(* InterfaceInner::igmp_report_packet *)
Definition mc_igmp_report_packet (st : mstate) (ver : igmp_version) (group : Z) (c : mcause) : option mpkt :=
  match ing_igmp_report_src (mc_iface st) with
  | None => None
  | Some a => Some (mkPkt (KIgmpReport ver group) (V4 a) (V4 group) 1 false c)
  end.

(* InterfaceInner::igmp_leave_packet *)
Definition mc_igmp_leave_packet (st : mstate) (group : Z) (c : mcause) : option mpkt :=
  match ing_igmp_report_src (mc_iface st) with
  | None => None
  | Some a => Some (mkPkt (KIgmpLeave group) (V4 a) (V4 v4_MULTICAST_ALL_ROUTERS) 1 false c)
  end.

(* InterfaceInner::mldv2_report_packet (always Some) *)
Definition mc_mldv2_report_packet (st : mstate) (records : list (mrec_type * Z)) (c : mcause) : option mpkt :=
  Some (mkPkt (KMldReport records) (V6 (ing_mld_report_src (mc_iface st)))
              (V6 v6_LINK_LOCAL_ALL_MLDV2_ROUTERS) 1 true c).

(* IpRepr::buffer_len of the packet: IPv4 header + 8 (IGMP) / IPv6 header + hop-by-hop header
   (2 + router alert 4 + PadN 2) + MLDv2 report header + one 20-octet record per group *)
Definition mc_HBH_LEN : Z := 8.
Definition mc_pkt_ip_len (p : mpkt) : Z :=
  match pk_kind p with
  | KIgmpReport _ _ | KIgmpLeave _ => wipv4_HEADER_LEN + snd wigmp_f_GROUP_ADDRESS
  | KMldReport recs => wipv6_HEADER_LEN + mc_HBH_LEN + snd wicmpv6_f_NR_MCAST_RCRDS
                       + snd wicmpv6_f_RECORD_MCAST_ADDR * Z.of_nat (length recs)
  end.

(* InterfaceInner::dispatch_ip for these packets:
   Ok true = handed to the device, Ok false = silently dropped (Ok(()) without a frame),
   Err = DispatchError (every call site unwraps it), Panic = assert!/unreachable!.
   lookup_hardware_addr answers a broadcast / multicast destination without the routing table or
   the neighbor cache; any other destination would need them (not modelled: Err, never reached).
   An IPv4 packet above the IP MTU takes the fragmentation path (Ok(()) in every branch; the
   first fragment it may send is not modelled: needs an IP MTU below 28). *)
Definition mc_dispatch_ip (st : mstate) (p : mpkt) : outcome bool :=
  if ip_is_unspecified (pk_dst p) then Panic
  else if negb (ip_is_multicast (pk_dst p) || ip_is_broadcast (pk_dst p)) then Err 1
  else match mc_medium st with
       | M154 => match pk_dst p with
                 | V4 _ => Panic       (* lookup_hardware_addr: unreachable!() *)
                 | V6 _ => Ok false    (* dispatch_ieee802154: hop-by-hop ICMPv6 has no 6LoWPAN encoding *)
                 end
       | _ => Ok (mc_pkt_ip_len p <=? mc_ip_mtu st)
       end.

(* dispatch_ip(..).unwrap() *)
Definition mc_dispatch_unwrap (st : mstate) (p : mpkt) : outcome (list mpkt) :=
  match mc_dispatch_ip st p with
  | Ok true => Ok [p]
  | Ok false => Ok []
  | _ => Panic
  end.

(* device.transmit(now): one answer of the device consumed per call *)
Definition mc_transmit (dev : list bool) : bool * list bool :=
  match dev with
  | [] => (false, [])
  | b :: d => (b, d)
  end.

(* ------------------------------------------------------------------ multicast_egress *)

Definition egress_res : Type := (mstate * list bool * list mpkt)%type.

(* `while let Some((&addr, _)) = groups.iter().find(Joining)` *)
Fixpoint mc_egress_joins (fuel : nat) (st : mstate) (dev : list bool) (acc : list mpkt) : outcome egress_res :=
  match mc_find_state GJoining (mc_groups st) with
  | None => Ok (st, dev, acc)
  | Some addr =>
      match fuel with
      | O => Err 99
      | S f =>
          let pkt := match addr with
                     | V4 a => mc_igmp_report_packet st IgmpV2 a CJoin
                     | V6 a => mc_mldv2_report_packet st [(RChangeToInclude, a)] CJoin
                     end in
          let mark (dev' : list bool) (acc' : list mpkt) :=
            match mc_insert addr GJoined (mc_groups st) with
            | Some l => mc_egress_joins f (mc_set_groups st l) dev' acc'
            | None => Panic
            end in
          match pkt with
          | Some p =>
              let '(tok, dev') := mc_transmit dev in
              if tok then (do sent <- mc_dispatch_unwrap st p; mark dev' (acc ++ sent))
              else Ok (st, dev', acc)                       (* break *)
          | None => mark dev acc
          end
      end
  end.

(* `while let Some((&addr, _)) = groups.iter().find(Leaving)` *)
Fixpoint mc_egress_leaves (fuel : nat) (st : mstate) (dev : list bool) (acc : list mpkt) : outcome egress_res :=
  match mc_find_state GLeaving (mc_groups st) with
  | None => Ok (st, dev, acc)
  | Some addr =>
      match fuel with
      | O => Err 99
      | S f =>
          let pkt := match addr with
                     | V4 a => mc_igmp_leave_packet st a CLeave
                     | V6 a => mc_mldv2_report_packet st [(RChangeToExclude, a)] CLeave
                     end in
          let drop (dev' : list bool) (acc' : list mpkt) :=
            mc_egress_leaves f (mc_set_groups st (mc_remove addr (mc_groups st))) dev' acc' in
          match pkt with
          | Some p =>
              let '(tok, dev') := mc_transmit dev in
              if tok then (do sent <- mc_dispatch_unwrap st p; drop dev' (acc ++ sent))
              else Ok (st, dev', acc)                       (* break *)
          | None => drop dev acc
          end
      end
  end.

(* `match self.inner.multicast.igmp_report_state { .. }` *)
Definition mc_egress_igmp (st : mstate) (dev : list bool) (now : Z) (acc : list mpkt) : outcome egress_res :=
  match mc_igmp st with
  | IgSpecific ver timeout group =>
      if now >=? timeout then
        if negb (mc_has_multicast_group st (V4 group)) then Ok (mc_set_igmp st IgInactive, dev, acc)
        else
        match mc_igmp_report_packet st ver group CSpecific with
        | Some p =>
            let '(tok, dev') := mc_transmit dev in
            if tok then (do sent <- mc_dispatch_unwrap st p; Ok (mc_set_igmp st IgInactive, dev', acc ++ sent))
            else Ok (st, dev', acc)
        | None => Ok (st, dev, acc)
        end
      else Ok (st, dev, acc)
  | IgGeneral ver timeout interval next_index =>
      if now >=? timeout then
        match nth_error (mc_v4_member_keys (mc_groups st)) (Z.to_nat next_index) with
        | Some addr =>
            match mc_igmp_report_packet st ver addr CGeneral with
            | Some p =>
                let '(tok, dev') := mc_transmit dev in
                if tok then
                  (do sent <- mc_dispatch_unwrap st p;
                   let next_timeout := Z.max (timeout + interval) now in
                   Ok (mc_set_igmp st (IgGeneral ver next_timeout interval (next_index + 1)), dev', acc ++ sent))
                else Ok (st, dev', acc)
            | None => Ok (st, dev, acc)
            end
        | None => Ok (mc_set_igmp st IgInactive, dev, acc)
        end
      else Ok (st, dev, acc)
  | IgInactive => Ok (st, dev, acc)
  end.

(* `match self.inner.multicast.mld_report_state { .. }`: the state becomes Inactive whether or not
   the device took the report *)
Definition mc_egress_mld (st : mstate) (dev : list bool) (now : Z) (acc : list mpkt) : outcome egress_res :=
  match mc_mld st with
  | MlGeneral timeout =>
      if now >=? timeout then
        let records := map (fun a => (RModeIsExclude, a)) (mc_v6_member_keys (mc_groups st)) in
        match mc_mldv2_report_packet st records CGeneral with
        | Some p =>
            let '(tok, dev') := mc_transmit dev in
            if tok then (do sent <- mc_dispatch_unwrap st p; Ok (mc_set_mld st MlInactive, dev', acc ++ sent))
            else Ok (mc_set_mld st MlInactive, dev', acc)
        | None => Ok (mc_set_mld st MlInactive, dev, acc)
        end
      else Ok (st, dev, acc)
  | MlSpecific group timeout =>
      if now >=? timeout then
        if negb (mc_has_multicast_group st (V6 group)) then Ok (mc_set_mld st MlInactive, dev, acc)
        else
        match mc_mldv2_report_packet st [(RModeIsExclude, group)] CSpecific with
        | Some p =>
            let '(tok, dev') := mc_transmit dev in
            if tok then (do sent <- mc_dispatch_unwrap st p; Ok (mc_set_mld st MlInactive, dev', acc ++ sent))
            else Ok (mc_set_mld st MlInactive, dev', acc)
        | None => Ok (mc_set_mld st MlInactive, dev, acc)
        end
      else Ok (st, dev, acc)
  | MlInactive => Ok (st, dev, acc)
  end.

(* Interface::multicast_egress: one pass *)
Definition mc_multicast_egress (st : mstate) (dev : list bool) (now : Z) : outcome egress_res :=
  do '(st1, d1, a1) <- mc_egress_joins (length (mc_groups st)) st dev [];
  do '(st2, d2, a2) <- mc_egress_leaves (length (mc_groups st1)) st1 d1 a1;
  do '(st3, d3, a3) <- mc_egress_igmp st2 d2 now a2;
  mc_egress_mld st3 d3 now a3.

(* ------------------------------------------------------------------ ingress *)

Definition mc_count_v4 (l : gtable) : Z := Z.of_nat (length (mc_v4_keys l)).
Definition mc_count_v6 (l : gtable) : Z := Z.of_nat (length (mc_v6_keys l)).

Definition mc_IGMP_V1_INTERVAL : Z := 100 * 1000.      (* Duration::from_millis(100) *)

(* InterfaceInner::process_igmp on a parsed MembershipQuery: dst = IPv4 destination,
   (group, version, max_resp_time) = IgmpRepr::MembershipQuery.  Nothing is emitted at ingress. *)
Definition mc_process_igmp (st : mstate) (now dst group : Z) (ver : igmp_version) (max_resp_time : Z) : mstate :=
  if v4_is_unspecified group && (dst =? v4_MULTICAST_ALL_SYSTEMS) then
    let n := mc_count_v4 (mc_groups st) in
    if negb (n =? 0) then
      let interval := match ver with
                      | IgmpV1 => mc_IGMP_V1_INTERVAL
                      | IgmpV2 => max_resp_time / (n + 1)
                      end in
      mc_set_igmp st (IgGeneral ver (now + interval) interval 0)
    else st
  else if mc_has_multicast_group st (V4 group) && (dst =? group) then
    mc_set_igmp st (IgSpecific ver (now + max_resp_time / 4) group)
  else st.

(* the query as IgmpRepr::parse produces it from the Max Resp Code octet (Model/WireIgmp.v) *)
Definition mc_process_igmp_code (st : mstate) (now dst group code : Z) : mstate :=
  mc_process_igmp st now dst group (if code =? 0 then IgmpV1 else IgmpV2) (igmp_max_resp_code_to_duration code).

(* InterfaceInner::process_mldv2 on a parsed MldRepr::Query.  The delay is drawn from the
   interface RNG whenever max_resp_code > 0, whatever the query is about. *)
Definition mc_process_mldv2 (st : mstate) (now dst mcast max_resp_code : Z) : mstate :=
  let '(delay_ms, r') := if max_resp_code >? 0
                         then (let '(v, r') := mc_rand_u16 (mc_rand st) in (v mod max_resp_code, r'))
                         else (0, mc_rand st) in
  let st := mc_set_rand st r' in
  let delay := delay_ms * 1000 in
  let st :=
    if v6_is_unspecified mcast && ((dst =? v6_LINK_LOCAL_ALL_NODES) || ing_has_ip_addr (mc_iface st) (V6 dst)) then
      if negb (mc_count_v6 (mc_groups st) =? 0) then mc_set_mld st (MlGeneral (now + delay)) else st
    else st in
  if mc_has_multicast_group st (V6 mcast) && (dst =? mcast) then
    mc_set_mld st (MlSpecific mcast (now + delay))
  else st.

(* the way there: process_ipv6 drops a packet whose destination is neither an own address nor a
   group the interface listens to (this matters: a dropped query draws no random number), and
   process_icmpv6 applies the RFC 3810 6.2 reception checks (hop limit 1, link-local source) *)
Definition mc_process_mld_query (st : mstate) (now hop src dst mcast max_resp_code : Z) : mstate :=
  if negb (ing_has_ip_addr (mc_iface st) (V6 dst)) && negb (mc_has_multicast_group st (V6 dst)) then st
  else if (hop =? 1) && v6_is_link_local src then mc_process_mldv2 st now dst mcast max_resp_code
  else st.

(* ------------------------------------------------------------------ events *)

Inductive mc_event : Type :=
| EvJoin (g : ipaddr)
| EvLeave (g : ipaddr)
| EvAddrAdd (c : cidr)
| EvAddrRemove (c : cidr)
| EvIgmpQuery (now dst group code : Z)
| EvMldQuery (now hop src dst mcast code : Z)
| EvPoll (now : Z) (dev : list bool).

Inductive mc_obs : Type :=
| ORet (r : Z)
| ONone
| OPkts (l : list mpkt).

Definition mc_step (st : mstate) (ev : mc_event) : outcome (mstate * mc_obs) :=
  match ev with
  | EvJoin g => let '(st', r) := mc_join st g in Ok (st', ORet r)
  | EvLeave g => let '(st', r) := mc_leave st g in Ok (st', ORet r)
  | EvAddrAdd c => do st' <- mc_addr_add st c; Ok (st', ONone)
  | EvAddrRemove c => do st' <- mc_addr_remove st c; Ok (st', ONone)
  | EvIgmpQuery now dst group code => Ok (mc_process_igmp_code st now dst group code, ONone)
  | EvMldQuery now hop src dst mcast code => Ok (mc_process_mld_query st now hop src dst mcast code, ONone)
  | EvPoll now dev => do '(st', _, pkts) <- mc_multicast_egress st dev now; Ok (st', OPkts pkts)
  end.

(* run a list of events, collecting the observations *)
Fixpoint mc_run (st : mstate) (evs : list mc_event) : outcome (mstate * list mc_obs) :=
  match evs with
  | [] => Ok (st, [])
  | e :: t => do '(st1, o) <- mc_step st e;
              do '(st2, os) <- mc_run st1 t;
              Ok (st2, o :: os)
  end.
