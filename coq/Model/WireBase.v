(* Shared vocabulary of the wire-format models (properties C06, C07; reused by C08/C10/C20).

   A packet buffer is a [list Z] (one element per octet).  Every Rust operation that can
   panic is a function into the [outcome] monad that yields [Panic] exactly when the Rust
   code panics:

     &data[lo..hi]                        wb_sub        (slice index out of range / lo > hi)
     &data[lo..]                          wb_from
     &data[..hi]                          wb_upto
     data[i]                              wb_get_u8
     NetworkEndian::read_uN(&data[f])     wb_get_be     (slice index, or slice shorter than N)
     data[lo..hi].copy_from_slice(v)      wb_set_slice  (slice index, or length mismatch)
     data[i] = v                          wb_set_u8     ("set_at")
     NetworkEndian::write_uN(&mut data[lo..hi], v)   wb_put_be
     assert!(c)                           wb_assert
     `?` on Err(Error)                    wb_guard  (Err 0)

   Machine integers are [Z]; truncating casts and wrapping shifts are written explicitly
   ([mod 256], [mod 65536]).  No proofs in this file. *)
From SV Require Import Lib.Base.

Definition blen (l : list Z) : Z := Z.of_nat (length l).

Definition omap {A B} (f : A -> B) (x : outcome A) : outcome B :=
  match x with Ok a => Ok (f a) | Err e => Err e | Panic => Panic end.

(* `cond?`-style early return with wire::Error *)
Definition wb_guard (c : bool) : outcome unit := if c then Ok tt else Err 0.
(* assert!(c) *)
Definition wb_assert (c : bool) : outcome unit := if c then Ok tt else Panic.
(* Error code used by a model for "this message type is parsed by a format modelled elsewhere" *)
Definition wb_delegated : Z := 2.

(* ---------- checked reads ---------- *)

Definition wb_sub (l : list Z) (lo hi : Z) : outcome (list Z) :=
  if (0 <=? lo) && (lo <=? hi) && (hi <=? blen l)
  then Ok (firstn (Z.to_nat (hi - lo)) (skipn (Z.to_nat lo) l))
  else Panic.

Definition wb_field (l : list Z) (f : Z * Z) : outcome (list Z) := wb_sub l (fst f) (snd f).

Definition wb_from (l : list Z) (lo : Z) : outcome (list Z) :=
  if (0 <=? lo) && (lo <=? blen l) then Ok (skipn (Z.to_nat lo) l) else Panic.

Definition wb_upto (l : list Z) (hi : Z) : outcome (list Z) :=
  if (0 <=? hi) && (hi <=? blen l) then Ok (firstn (Z.to_nat hi) l) else Panic.

Definition wb_get_u8 (l : list Z) (i : Z) : outcome Z :=
  if (0 <=? i) && (i <? blen l) then Ok (nth (Z.to_nat i) l 0) else Panic.

(* slice.get(lo..hi): None instead of a panic *)
Definition wb_sub_opt (l : list Z) (lo hi : Z) : option (list Z) :=
  if (0 <=? lo) && (lo <=? hi) && (hi <=? blen l)
  then Some (firstn (Z.to_nat (hi - lo)) (skipn (Z.to_nat lo) l))
  else None.

(* big-endian value of a byte list *)
Definition be_dec (l : list Z) : Z := fold_left (fun a b => a * 256 + b) l 0.

(* NetworkEndian::read_uN(&data[lo..hi]) : reads the first n bytes of the slice *)
Definition wb_get_be (l : list Z) (lo hi : Z) (n : Z) : outcome Z :=
  do s <- wb_sub l lo hi;
  if n <=? blen s then Ok (be_dec (firstn (Z.to_nat n) s)) else Panic.

Definition wb_get_u16 (l : list Z) (f : Z * Z) : outcome Z := wb_get_be l (fst f) (snd f) 2.
Definition wb_get_u32 (l : list Z) (f : Z * Z) : outcome Z := wb_get_be l (fst f) (snd f) 4.

(* <[u8; n]>::try_from(slice).unwrap() / copy_from_slice into a fixed array *)
Definition wb_arr (n : Z) (s : list Z) : outcome (list Z) :=
  if blen s =? n then Ok s else Panic.

(* ---------- checked writes ---------- *)

Definition wb_set_slice (l : list Z) (lo hi : Z) (v : list Z) : outcome (list Z) :=
  if (0 <=? lo) && (lo <=? hi) && (hi <=? blen l) && (blen v =? hi - lo)
  then Ok (firstn (Z.to_nat lo) l ++ v ++ skipn (Z.to_nat hi) l)
  else Panic.

Definition wb_set_field (l : list Z) (f : Z * Z) (v : list Z) : outcome (list Z) :=
  wb_set_slice l (fst f) (snd f) v.

Definition wb_set_u8 (l : list Z) (i : Z) (v : Z) : outcome (list Z) :=
  if (0 <=? i) && (i <? blen l)
  then Ok (firstn (Z.to_nat i) l ++ v :: skipn (Z.to_nat (i + 1)) l)
  else Panic.

Definition be_enc2 (v : Z) : list Z := [(v / 256) mod 256; v mod 256].
Definition be_enc3 (v : Z) : list Z := [(v / 65536) mod 256; (v / 256) mod 256; v mod 256].
Definition be_enc4 (v : Z) : list Z :=
  [(v / 16777216) mod 256; (v / 65536) mod 256; (v / 256) mod 256; v mod 256].

(* NetworkEndian::write_uN(&mut data[lo..hi], v): writes the first |enc| bytes of the slice *)
Definition wb_put_be (l : list Z) (lo hi : Z) (enc : list Z) : outcome (list Z) :=
  if (0 <=? lo) && (lo <=? hi) && (hi <=? blen l) && (blen enc <=? hi - lo)
  then Ok (firstn (Z.to_nat lo) l ++ enc ++ skipn (Z.to_nat (lo + blen enc)) l)
  else Panic.

Definition wb_put_u16 (l : list Z) (f : Z * Z) (v : Z) : outcome (list Z) :=
  wb_put_be l (fst f) (snd f) (be_enc2 v).
Definition wb_put_u32 (l : list Z) (f : Z * Z) (v : Z) : outcome (list Z) :=
  wb_put_be l (fst f) (snd f) (be_enc4 v).

(* data[i] = f(data[i]) *)
Definition wb_upd_u8 (l : list Z) (i : Z) (f : Z -> Z) : outcome (list Z) :=
  do x <- wb_get_u8 l i; wb_set_u8 l i (f x).

(* raw = read_u16(&data[f]); write_u16(&mut data[f], g raw) *)
Definition wb_upd_u16 (l : list Z) (f : Z * Z) (g : Z -> Z) : outcome (list Z) :=
  do x <- wb_get_u16 l f; wb_put_u16 l f (g x).

(* ---------- byte-range predicates (as booleans, so that [wf] is executable) ---------- *)

Definition is_u8 (x : Z) : bool := (0 <=? x) && (x <? 256).
Definition is_u16 (x : Z) : bool := (0 <=? x) && (x <? 65536).
Definition is_u32 (x : Z) : bool := (0 <=? x) && (x <? 4294967296).
Definition bytes_ok (l : list Z) : bool := forallb is_u8 l.
(* a fixed-size octet array ([u8; n]): the length is a Rust type invariant, not a proviso *)
Definition is_arr (n : Z) (l : list Z) : bool := (blen l =? n) && bytes_ok l.

(* ---------- RFC 1071 sum as a plain function (src/wire/ip.rs `checksum`) ----------
   Only used to instantiate the "checksum" parameters of the models in the correspondence
   driver; nothing is proved about it here (the arithmetic belongs to property C08). *)

Fixpoint wb_sum16 (l : list Z) : Z :=
  match l with
  | a :: b :: t => a * 256 + b + wb_sum16 t
  | [a] => a * 256
  | [] => 0
  end.

Definition wb_propagate_carries (w : Z) : Z :=
  let s := w / 65536 + w mod 65536 in s / 65536 + s mod 65536.

Definition wb_cksum_data (l : list Z) : Z := wb_propagate_carries (wb_sum16 l).

Definition wb_cksum_combine (ws : list Z) : Z :=
  wb_propagate_carries (fold_left Z.add ws 0).

(* pseudo_header_v4 / _v6: addresses as octet lists, length truncated to u16 *)
Definition wb_pseudo_header (src dst : list Z) (proto len : Z) : Z :=
  wb_cksum_combine [wb_cksum_data src; wb_cksum_data dst;
                    wb_cksum_data ([0; proto] ++ be_enc2 len)].

(* concrete checksum parameters used by the correspondence driver (src/dst = address octets):
   verification  `combine(&[pseudo_header(src, dst, proto, len), data(d)]) == !0`  and the value
   `!combine(...)` stored by fill_checksum; the "plain" forms have no pseudo header. *)
Definition wb_pseudo_ok (src dst : list Z) (proto : Z) (d : list Z) : bool :=
  wb_cksum_combine [wb_pseudo_header src dst proto (blen d); wb_cksum_data d] =? 65535.
Definition wb_pseudo_fill (src dst : list Z) (proto : Z) (d : list Z) : Z :=
  65535 - wb_cksum_combine [wb_pseudo_header src dst proto (blen d); wb_cksum_data d].
Definition wb_plain_ok (d : list Z) : bool := wb_cksum_data d =? 65535.
Definition wb_plain_fill (d : list Z) : Z := 65535 - wb_cksum_data d.

(* operate on the mutable sub-slice `&mut data[lo..]` (e.g. `Packet::new_unchecked(packet.payload_mut())`
   followed by an emit into it): [f] sees the sub-slice, the result is written back in place.
   [f] must preserve the length, as every in-place operation on a slice does. *)
Definition wb_on_from (l : list Z) (lo : Z) (f : list Z -> outcome (list Z)) : outcome (list Z) :=
  do s <- wb_from l lo;
  do s' <- f s;
  Ok (firstn (Z.to_nat lo) l ++ s').

(* slice.fill(v) on data[lo..hi] *)
Definition wb_fill (l : list Z) (lo hi : Z) (v : Z) : outcome (list Z) :=
  wb_set_slice l lo hi (repeat v (Z.to_nat (hi - lo))).
