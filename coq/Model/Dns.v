(* Executable model of the DNS resolver socket of smoltcp (src/socket/dns.rs) over the wire
   model Model/WireDns.v, plus the two pieces of interface glue that decide what the socket
   sees: the routing test of src/iface/interface/udp.rs (`accepts`, then `process`) and the
   egress loop of Interface::poll (call `dispatch` until it emits nothing).

   * times: Z, microseconds (Instant / Duration); constants from Gen.Consts by name;
   * addresses: byte lists (4 octets = IPv4, 16 octets = IPv6);
   * a query type is its u16 value (canonical Type values, see WireDns.v);
   * the random transaction id and source port (cx.rand()) are explicit inputs of start_query;
   * compile-time limits (config.rs) are the record [dns_cfg]; theorems hold for every value,
     Props/C19.v instantiates the generated defaults;
   * [c_has_v4]: whether the interface has an IPv4 address (get_source_address returns None for
     an IPv4 destination otherwise; for IPv6 it always returns Some);
   * features: proto-ipv4, proto-ipv6, socket-mdns on (the default build).

   The model is of the code AFTER the fix of D17 (poll_at covers timeout_at; the timeout fires
   at `timeout <= now`) and AFTER repo 4f2a12a (process follows CNAMEs on a local copy of the
   name; a pending query is never rewritten by a response).  Functions carry the Rust name with the prefix dns_.
   Panic sources: `self.queries[handle.0]`, `.unwrap()` on a free slot, cancel of a free slot
   (documented panics of the API: Panic in the model); `servers[pq.server_idx]` (guarded);
   set_hop_limit(Some(0)) (documented panic: Panic, state unchanged);
   `payload[..repr.buffer_len()]` on the 512-byte buffer (checked slice; excluded by the
   invariant |name| <= DNS_MAX_NAME_SIZE in Proofs/DnsProofs.v).  Instant + Duration overflow
   (i64 microseconds) is not modelled (unbounded Z).
   No proofs in this file. *)
From SV Require Import Lib.Base Gen.Consts Gen.WireFields Model.WireDns.

Record dns_cfg := mkCfg {
  c_max_name : Z;       (* DNS_MAX_NAME_SIZE *)
  c_max_results : Z;    (* DNS_MAX_RESULT_COUNT *)
  c_max_servers : Z;    (* DNS_MAX_SERVER_COUNT *)
  c_has_v4 : bool
}.

Definition dns_cfg_default (has_v4 : bool) : dns_cfg :=
  mkCfg cfg_DNS_MAX_NAME_SIZE cfg_DNS_MAX_RESULT_COUNT cfg_DNS_MAX_SERVER_COUNT has_v4.

(* MDNS_IPV6_ADDR = ff02::fb, MDNS_IPV4_ADDR = 224.0.0.251 *)
Definition dns_MDNS_IPV6_ADDR : list Z := [255; 2; 0; 0; 0; 0; 0; 0; 0; 0; 0; 0; 0; 0; 0; 251].
Definition dns_MDNS_IPV4_ADDR : list Z := [224; 0; 0; 251].

Record dns_pending := mkPending {
  pq_name : list Z;
  pq_type : Z;
  pq_port : Z;
  pq_txid : Z;
  pq_timeout_at : option Z;
  pq_retransmit_at : Z;
  pq_delay : Z;
  pq_server_idx : Z;
  pq_mdns : bool
}.

Inductive dns_qstate :=
| QPending (pq : dns_pending)
| QCompleted (addrs : list (list Z))
| QFailure.

Record dns_sock := mkSock {
  ds_servers : list (list Z);
  ds_queries : list (option dns_qstate);
  ds_owned : bool;          (* ManagedSlice::Owned (grows) or Borrowed (fixed) *)
  ds_hop_limit : option Z   (* hop_limit: Option<u8> *)
}.

Definition dns_pq_with_name (pq : dns_pending) (n : list Z) : dns_pending :=
  mkPending n (pq_type pq) (pq_port pq) (pq_txid pq) (pq_timeout_at pq) (pq_retransmit_at pq)
            (pq_delay pq) (pq_server_idx pq) (pq_mdns pq).

Definition dns_pq_with_timers (pq : dns_pending) (timeout_at : option Z) (retransmit_at delay idx : Z)
  : dns_pending :=
  mkPending (pq_name pq) (pq_type pq) (pq_port pq) (pq_txid pq) timeout_at retransmit_at delay idx
            (pq_mdns pq).

Fixpoint dns_bytes_eqb (a b : list Z) : bool :=
  match a, b with
  | [], [] => true
  | x :: a', y :: b' => (x =? y) && dns_bytes_eqb a' b'
  | _, _ => false
  end.

(* --- new / update_servers: the list is truncated to DNS_MAX_SERVER_COUNT --- *)
Definition dns_truncate_servers (cfg : dns_cfg) (servers : list (list Z)) : list (list Z) :=
  firstn (Z.to_nat (Z.min (Z.of_nat (length servers)) (c_max_servers cfg))) servers.

Definition dns_new (cfg : dns_cfg) (servers : list (list Z)) (nslots : nat) (owned : bool) : dns_sock :=
  mkSock (dns_truncate_servers cfg servers) (repeat None nslots) owned None.

Definition dns_update_servers (cfg : dns_cfg) (s : dns_sock) (servers : list (list Z)) : dns_sock :=
  mkSock (dns_truncate_servers cfg servers) (ds_queries s) (ds_owned s) (ds_hop_limit s).

(* --- hop_limit / set_hop_limit: Some(0) panics ("the time-to-live value of a packet must not be
       zero"), before anything is stored --- *)
Definition dns_hop_limit (s : dns_sock) : option Z := ds_hop_limit s.

Definition dns_set_hop_limit (s : dns_sock) (h : option Z) : dns_sock * outcome unit :=
  match h with
  | Some v => if v =? 0 then (s, Panic)
              else (mkSock (ds_servers s) (ds_queries s) (ds_owned s) h, Ok tt)
  | None => (mkSock (ds_servers s) (ds_queries s) (ds_owned s) None, Ok tt)
  end.

(* dispatch: `let hop_limit = self.hop_limit.unwrap_or(64)`; every datagram emitted by this
   dispatch call carries it in its IP header (IpRepr::new(.., hop_limit)) *)
Definition dns_tx_hop (s : dns_sock) : Z :=
  match ds_hop_limit s with
  | Some h => h
  | None => 64
  end.

(* --- start_query --- *)
Definition dns_E_NoFreeSlot : Z := 1.
Definition dns_E_InvalidName : Z := 2.
Definition dns_E_NameTooLong : Z := 3.

(* name.split(|&c| c == b'.'): never empty *)
Fixpoint dns_split_dot (s : list Z) : list (list Z) :=
  match s with
  | [] => [[]]
  | c :: r =>
    let segs := dns_split_dot r in
    if c =? 46 then [] :: segs
    else match segs with
         | seg :: t => (c :: seg) :: t
         | [] => [[c]]
         end
  end.

(* heapless::Vec<u8, N>::push / extend_from_slice: refuse (unchanged) when over capacity *)
Definition dns_vec_push (cap : Z) (v : list Z) (x : Z) : option (list Z) :=
  if wdns_len v <? cap then Some (v ++ [x]) else None.

Definition dns_vec_extend (cap : Z) (v s : list Z) : option (list Z) :=
  if wdns_len v + wdns_len s <=? cap then Some (v ++ s) else None.

Fixpoint dns_encode_labels (cap : Z) (segs : list (list Z)) (raw : list Z) : outcome (list Z) :=
  match segs with
  | [] => Ok raw
  | s :: r =>
    if wdns_len s >? 63 then Err dns_E_InvalidName
    else if wdns_len s =? 0 then Err dns_E_InvalidName
    else match dns_vec_push cap raw (wdns_len s) with
         | None => Err dns_E_NameTooLong
         | Some raw1 =>
           match dns_vec_extend cap raw1 s with
           | None => Err dns_E_NameTooLong
           | Some raw2 => dns_encode_labels cap r raw2
           end
         end
  end.

Definition dns_LOCAL : list Z := [108; 111; 99; 97; 108].   (* b"local" *)

(* find_free_query: first free slot; an Owned slice grows by one *)
Fixpoint dns_find_none (qs : list (option dns_qstate)) (i : nat) : option nat :=
  match qs with
  | [] => None
  | None :: _ => Some i
  | Some _ :: r => dns_find_none r (S i)
  end.

Definition dns_find_free_query (s : dns_sock) : dns_sock * option nat :=
  match dns_find_none (ds_queries s) 0 with
  | Some i => (s, Some i)
  | None =>
    if ds_owned s
    then (mkSock (ds_servers s) (ds_queries s ++ [None]) (ds_owned s) (ds_hop_limit s), Some (length (ds_queries s)))
    else (s, None)
  end.

Fixpoint dns_set_nth {A} (l : list A) (i : nat) (x : A) : list A :=
  match l, i with
  | [], _ => []
  | _ :: r, O => x :: r
  | y :: r, S j => y :: dns_set_nth r j x
  end.

Definition dns_set_slot (s : dns_sock) (i : nat) (q : option dns_qstate) : dns_sock :=
  mkSock (ds_servers s) (dns_set_nth (ds_queries s) i q) (ds_owned s) (ds_hop_limit s).

(* start_query_raw; [txid] and [port] are cx.rand().rand_u16() / rand_source_port().
   Returns the socket (changed even on NameTooLong when an Owned slice grew) and
   Ok(handle) / Err. *)
Definition dns_start_query_raw (cfg : dns_cfg) (s : dns_sock) (raw_name : list Z) (type_ : Z)
           (mdns : bool) (txid port : Z) : dns_sock * outcome nat :=
  match dns_find_free_query s with
  | (s1, None) => (s1, Err dns_E_NoFreeSlot)
  | (s1, Some h) =>
    if wdns_len raw_name >? c_max_name cfg then (s1, Err dns_E_NameTooLong)   (* Vec::from_slice *)
    else
      (dns_set_slot s1 h
         (Some (QPending (mkPending raw_name type_ port txid None 0 dns_RETRANSMIT_DELAY 0 mdns))),
       Ok h)
  end.

Definition dns_start_query (cfg : dns_cfg) (s : dns_sock) (name : list Z) (type_ : Z)
           (txid port : Z) : dns_sock * outcome nat :=
  match name with
  | [] => (s, Err dns_E_InvalidName)
  | _ =>
    (* remove one trailing dot *)
    let name1 := if last name 0 =? 46 then removelast name else name in
    let segs := dns_split_dot name1 in
    let mdns := dns_bytes_eqb (last segs []) dns_LOCAL in
    match dns_encode_labels (c_max_name cfg) segs [] with
    | Ok raw =>
      match dns_vec_push (c_max_name cfg) raw 0 with
      | None => (s, Err dns_E_NameTooLong)
      | Some raw_name => dns_start_query_raw cfg s raw_name type_ mdns txid port
      end
    | Err e => (s, Err e)
    | Panic => (s, Panic)
    end
  end.

(* --- get_query_result / cancel_query --- *)
Definition dns_E_Pending : Z := 1.
Definition dns_E_Failed : Z := 2.

Definition dns_get_query_result (s : dns_sock) (h : nat) : dns_sock * outcome (list (list Z)) :=
  match nth_error (ds_queries s) h with
  | None => (s, Panic)                       (* self.queries[handle.0] out of bounds *)
  | Some None => (s, Panic)                  (* slot.as_mut().unwrap() *)
  | Some (Some (QPending _)) => (s, Err dns_E_Pending)
  | Some (Some (QCompleted addrs)) => (dns_set_slot s h None, Ok addrs)
  | Some (Some QFailure) => (dns_set_slot s h None, Err dns_E_Failed)
  end.

Definition dns_cancel_query (s : dns_sock) (h : nat) : dns_sock * outcome unit :=
  match nth_error (ds_queries s) h with
  | None => (s, Panic)
  | Some None => (s, Panic)                  (* "Canceling query in a free slot." *)
  | Some (Some _) => (dns_set_slot s h None, Ok tt)
  end.

(* --- accepts --- *)
Definition dns_accepts (s : dns_sock) (src_addr : list Z) (src_port : Z) : bool :=
  ((src_port =? dns_DNS_PORT) && existsb (fun server => dns_bytes_eqb server src_addr) (ds_servers s))
  || (src_port =? dns_MDNS_DNS_PORT).

(* --- process --- *)

(* eq_names on the two label iterators (both `next()` are evaluated every round) *)
Fixpoint dns_eq_names (a b : wdns_names) : outcome bool :=
  match a with
  | NmPanic => Panic
  | NmFuel => Panic
  | NmErr => match b with NmPanic | NmFuel => Panic | _ => Err wdns_E end
  | NmEnd =>
    match b with
    | NmPanic | NmFuel => Panic
    | NmErr => Err wdns_E
    | NmEnd => Ok true
    | NmLabel _ _ => Ok false
    end
  | NmLabel la ra =>
    match b with
    | NmPanic | NmFuel => Panic
    | NmErr => Err wdns_E
    | NmEnd => Ok false
    | NmLabel lb rb => if dns_bytes_eqb la lb then dns_eq_names ra rb else Ok false
    end
  end.

(* copy_name: dest.truncate(0), then label by label; on error the partial content stays (in the
   local copy of the walk, which is then dropped) *)
Fixpoint dns_copy_name_go (cap : Z) (nm : wdns_names) (dest : list Z) : list Z * outcome unit :=
  match nm with
  | NmLabel l r =>
    match dns_vec_push cap dest (wdns_len l) with
    | None => (dest, Err wdns_E)
    | Some d1 =>
      match dns_vec_extend cap d1 l with
      | None => (d1, Err wdns_E)
      | Some d2 => dns_copy_name_go cap r d2
      end
    end
  | NmEnd =>
    match dns_vec_push cap dest 0 with
    | None => (dest, Err wdns_E)
    | Some d => (d, Ok tt)
    end
  | NmErr => (dest, Err wdns_E)
  | NmPanic => (dest, Panic)
  | NmFuel => (dest, Panic)
  end.

Definition dns_copy_name (cap : Z) (nm : wdns_names) : list Z * outcome unit :=
  dns_copy_name_go cap nm [].

(* addresses.push(addr): ignored when the result vector is full *)
Definition dns_push_addr (cfg : dns_cfg) (addrs : list (list Z)) (a : list Z) : list (list Z) :=
  if Z.of_nat (length addrs) <? c_max_results cfg then addrs ++ [a] else addrs.

(* result of the answer loop: an early `return` (the query stays pending and untouched: the
   head of the CNAME chain is a local copy `name` of pq.name; the value carried by WReturn is that
   local at the time of the return and is dropped) or the end of the loop *)
Inductive dns_walk_res :=
| WReturn (name : list Z)
| WDone (name : list Z) (addrs : list (list Z)).

(* Err of a wire parse: out-of-fuel is not a parse error *)
Definition dns_is_fuel (e : Z) : bool := e =? wdns_E_FUEL.

Fixpoint dns_walk (cfg : dns_cfg) (n : nat) (pkt payload name : list Z) (addrs : list (list Z))
  : outcome dns_walk_res :=
  match n with
  | O => Ok (WDone name addrs)
  | S n' =>
    match wdns_record_parse payload with
    | Panic => Panic
    | Err e => if dns_is_fuel e then Panic else Ok (WReturn name)      (* answer record malformed *)
    | Ok (payload2, r) =>
      match dns_eq_names (wdns_parse_name pkt (r_name r)) (wdns_parse_name pkt name) with
      | Panic => Panic
      | Err _ => Ok (WReturn name)                                     (* record name malformed *)
      | Ok false => dns_walk cfg n' pkt payload2 name addrs            (* answer name mismatch: continue *)
      | Ok true =>
        match r_data r with
        | RdA a => dns_walk cfg n' pkt payload2 name (dns_push_addr cfg addrs a)
        | RdAaaa a => dns_walk cfg n' pkt payload2 name (dns_push_addr cfg addrs a)
        | RdCname cname =>
          match dns_copy_name (c_max_name cfg) (wdns_parse_name pkt cname) with
          | (name', Ok _) => dns_walk cfg n' pkt payload2 name' addrs
          | (name', Err _) => Ok (WReturn name')                       (* cname malformed *)
          | (_, Panic) => Panic
          end
        | RdOther _ _ => dns_walk cfg n' pkt payload2 name addrs
        end
      end
    end
  end.

(* the body of the `for q` loop for a pending query whose port and txid matched and whose
   rcode is not NXDomain; every path ends in `return` *)
Definition dns_process_query (cfg : dns_cfg) (pkt : list Z) (pq : dns_pending) : outcome dns_qstate :=
  do payload <- wdns_payload pkt;
  match wdns_question_parse payload with
  | Panic => Panic
  | Err e => if dns_is_fuel e then Panic else Ok (QPending pq)         (* question malformed *)
  | Ok (payload1, question) =>
    if negb (q_type question =? pq_type pq) then Ok (QPending pq)      (* question type mismatch *)
    else
      match dns_eq_names (wdns_parse_name pkt (q_name question)) (wdns_parse_name pkt (pq_name pq)) with
      | Panic => Panic
      | Err _ => Ok (QPending pq)
      | Ok false => Ok (QPending pq)
      | Ok true =>
        do ancount <- wdns_answer_record_count pkt;
        do w <- dns_walk cfg (Z.to_nat ancount) pkt payload1 (pq_name pq) [];
        match w with
        | WReturn _ => Ok (QPending pq)        (* the walk works on a local copy of the name *)
        | WDone _ [] => Ok QFailure
        | WDone _ addrs => Ok (QCompleted addrs)
        end
      end
  end.

Fixpoint dns_process_slots (cfg : dns_cfg) (pkt : list Z) (dst_port txid rcode : Z)
         (qs : list (option dns_qstate)) : outcome (list (option dns_qstate)) :=
  match qs with
  | [] => Ok []
  | Some (QPending pq) :: rest =>
    if negb (dst_port =? pq_port pq) || negb (txid =? pq_txid pq) then
      do rest' <- dns_process_slots cfg pkt dst_port txid rcode rest; Ok (Some (QPending pq) :: rest')
    else if rcode =? wdns_RCODE_NXDOMAIN then
      do rest' <- dns_process_slots cfg pkt dst_port txid rcode rest; Ok (Some QFailure :: rest')
    else
      do st <- dns_process_query cfg pkt pq; Ok (Some st :: rest)      (* return *)
  | q :: rest =>
    do rest' <- dns_process_slots cfg pkt dst_port txid rcode rest; Ok (q :: rest')
  end.

Definition dns_process (cfg : dns_cfg) (s : dns_sock) (dst_port : Z) (pkt : list Z) : outcome dns_sock :=
  match wdns_check_len pkt with
  | Panic => Panic
  | Err _ => Ok s                                                      (* dns packet malformed *)
  | Ok _ =>
    do opcode <- wdns_opcode pkt;
    if negb (opcode =? wdns_OPCODE_QUERY) then Ok s
    else
      do flags <- wdns_flags pkt;
      if Z.land flags wdns_FLAG_RESPONSE =? 0 then Ok s                (* !contains(RESPONSE) *)
      else
        do qd <- wdns_question_count pkt;
        if negb (qd =? 1) then Ok s
        else
          do txid <- wdns_transaction_id pkt;
          do rcode <- wdns_rcode pkt;
          do qs <- dns_process_slots cfg pkt dst_port txid rcode (ds_queries s);
          Ok (mkSock (ds_servers s) qs (ds_owned s) (ds_hop_limit s))
  end.

(* InterfaceInner::process_udp: the socket sees the datagram iff accepts() *)
Definition dns_ingress (cfg : dns_cfg) (s : dns_sock) (src_addr : list Z) (src_port dst_port : Z)
           (pkt : list Z) : outcome (dns_sock * bool) :=
  if dns_accepts s src_addr src_port
  then do s' <- dns_process cfg s dst_port pkt; Ok (s', true)
  else Ok (s, false).

(* --- dispatch --- *)
Record dns_tx := mkTx {
  tx_dst_addr : list Z;
  tx_src_port : Z;
  tx_dst_port : Z;
  tx_payload : list Z
}.

Inductive dns_dq_res :=
| DqContinue (st : dns_qstate)              (* `continue` *)
| DqEmit (st : dns_qstate) (tx : dns_tx)    (* emitted, `return Ok(())` *)
| DqEmitErr (st : dns_qstate).              (* emit(...)? failed, `return Err(e)` *)

Definition dns_is_unspecified (a : list Z) : bool := forallb (fun x => x =? 0) a.

(* cx.get_source_address(&dst): IPv4 needs an interface IPv4 address, IPv6 always answers *)
Definition dns_get_source_address (cfg : dns_cfg) (dst : list Z) : bool :=
  if wdns_len dst =? 4 then c_has_v4 cfg else true.

Definition dns_dispatch_query (cfg : dns_cfg) (servers_cfg : list (list Z)) (now : Z) (emit_ok : bool)
           (pq : dns_pending) : outcome dns_dq_res :=
  let servers := if pq_mdns pq then [dns_MDNS_IPV6_ADDR; dns_MDNS_IPV4_ADDR] else servers_cfg in
  let timeout := match pq_timeout_at pq with
                 | Some t => t
                 | None => now + dns_RETRANSMIT_TIMEOUT
                 end in
  let pq1 := dns_pq_with_timers pq (Some timeout) (pq_retransmit_at pq) (pq_delay pq) (pq_server_idx pq) in
  (* Check timeout *)
  let pq2 := if timeout <=? now
             then dns_pq_with_timers pq1 (Some (now + dns_RETRANSMIT_TIMEOUT)) 0 dns_RETRANSMIT_DELAY
                                     (pq_server_idx pq1 + 1)
             else pq1 in
  (* run out of servers *)
  if Z.of_nat (length servers) <=? pq_server_idx pq2 then Ok (DqContinue QFailure)
  else
    match nth_error servers (Z.to_nat (pq_server_idx pq2)) with
    | None => Panic                                                    (* servers[pq.server_idx] *)
    | Some dst_addr =>
      if dns_is_unspecified dst_addr then Ok (DqContinue QFailure)
      else if now <? pq_retransmit_at pq2 then Ok (DqContinue (QPending pq2))
      else
        let repr := mkRepr (pq_txid pq2) wdns_OPCODE_QUERY wdns_FLAG_RECURSION_DESIRED
                           (mkQuestion (pq_name pq2) (pq_type pq2)) in
        do buf <- wdns_slice (repeat 0 512%nat) 0 (wdns_repr_buffer_len repr);
        do payload <- wdns_repr_emit repr buf;
        let dst_port := if pq_mdns pq2 then dns_MDNS_DNS_PORT else dns_DNS_PORT in
        if negb (dns_get_source_address cfg dst_addr) then Ok (DqContinue QFailure)
        else if negb emit_ok then Ok (DqEmitErr (QPending pq2))
        else
          Ok (DqEmit
                (QPending (dns_pq_with_timers pq2 (pq_timeout_at pq2) (now + pq_delay pq2)
                             (Z.min dns_MAX_RETRANSMIT_DELAY (pq_delay pq2 * 2)) (pq_server_idx pq2)))
                (mkTx dst_addr (pq_port pq2) dst_port payload))
    end.

Inductive dns_disp_res :=
| DrNone                (* nothing to dispatch: Ok(()) without emitting *)
| DrEmit (tx : dns_tx)
| DrErr.                (* the emit closure failed *)

Fixpoint dns_dispatch_slots (cfg : dns_cfg) (servers : list (list Z)) (now : Z) (emit_ok : bool)
         (qs : list (option dns_qstate)) : outcome (list (option dns_qstate) * dns_disp_res) :=
  match qs with
  | [] => Ok ([], DrNone)
  | Some (QPending pq) :: rest =>
    do r <- dns_dispatch_query cfg servers now emit_ok pq;
    match r with
    | DqContinue st =>
      do '(rest', res) <- dns_dispatch_slots cfg servers now emit_ok rest; Ok (Some st :: rest', res)
    | DqEmit st tx => Ok (Some st :: rest, DrEmit tx)
    | DqEmitErr st => Ok (Some st :: rest, DrErr)
    end
  | q :: rest =>
    do '(rest', res) <- dns_dispatch_slots cfg servers now emit_ok rest; Ok (q :: rest', res)
  end.

Definition dns_dispatch (cfg : dns_cfg) (s : dns_sock) (now : Z) (emit_ok : bool)
  : outcome (dns_sock * dns_disp_res) :=
  do '(qs, res) <- dns_dispatch_slots cfg (ds_servers s) now emit_ok (ds_queries s);
  Ok (mkSock (ds_servers s) qs (ds_owned s) (ds_hop_limit s), res).

(* --- poll_at: the earliest of retransmit_at and timeout_at over the pending queries;
       None = PollAt::Ingress --- *)
Definition dns_opt_min (a : option Z) (b : Z) : option Z :=
  match a with
  | None => Some b
  | Some x => Some (Z.min x b)
  end.

Definition dns_pq_deadline (pq : dns_pending) : Z :=
  match pq_timeout_at pq with
  | Some t => Z.min (pq_retransmit_at pq) t
  | None => pq_retransmit_at pq
  end.

Fixpoint dns_poll_at_slots (qs : list (option dns_qstate)) (acc : option Z) : option Z :=
  match qs with
  | [] => acc
  | Some (QPending pq) :: rest => dns_poll_at_slots rest (dns_opt_min acc (dns_pq_deadline pq))
  | _ :: rest => dns_poll_at_slots rest acc
  end.

Definition dns_poll_at (s : dns_sock) : option Z := dns_poll_at_slots (ds_queries s) None.

(* --- Interface::poll egress loop for this socket: dispatch until nothing is emitted (the
       device always accepts).  fuel = number of slots + 1 (DnsProofs: suffices); the flag
       reports fuel exhaustion = the real loop would still be running. --- *)
Fixpoint dns_poll_go (cfg : dns_cfg) (fuel : nat) (s : dns_sock) (now : Z) (acc : list dns_tx)
  : outcome (dns_sock * list dns_tx * bool) :=
  match fuel with
  | O => Ok (s, acc, true)
  | S fuel' =>
    do '(s', r) <- dns_dispatch cfg s now true;
    match r with
    | DrEmit tx => dns_poll_go cfg fuel' s' now (acc ++ [tx])
    | _ => Ok (s', acc, false)
    end
  end.

Definition dns_poll (cfg : dns_cfg) (s : dns_sock) (now : Z) : outcome (dns_sock * list dns_tx * bool) :=
  dns_poll_go cfg (S (length (ds_queries s))) s now [].

(* --- events and observations (correspondence driver and "every history" theorems) --- *)
Inductive dns_event :=
| EvQuery (name : list Z) (type_ : Z) (txid port : Z)
| EvQueryRaw (raw : list Z) (type_ : Z) (mdns : bool) (txid port : Z)
| EvGet (h : nat)
| EvCancel (h : nat)
| EvPoll (now : Z)
| EvRsp (src_addr : list Z) (src_port dst_port : Z) (pkt : list Z)
| EvServers (servers : list (list Z))        (* update_servers *)
| EvHop (h : option Z).                      (* set_hop_limit *)

Inductive dns_obs :=
| ObStart (r : outcome nat)
| ObGet (r : outcome (list (list Z)))
| ObCancel (r : outcome unit)
| ObPoll (txs : list dns_tx) (hang : bool)
| ObRsp (accepted : bool)
| ObServers
| ObHop (r : outcome unit)
| ObPanic.

Definition dns_step (cfg : dns_cfg) (s : dns_sock) (ev : dns_event) : dns_sock * dns_obs :=
  match ev with
  | EvQuery name t txid port =>
    let '(s', r) := dns_start_query cfg s name t txid port in (s', ObStart r)
  | EvQueryRaw raw t mdns txid port =>
    let '(s', r) := dns_start_query_raw cfg s raw t mdns txid port in (s', ObStart r)
  | EvGet h => let '(s', r) := dns_get_query_result s h in (s', ObGet r)
  | EvCancel h => let '(s', r) := dns_cancel_query s h in (s', ObCancel r)
  | EvPoll now =>
    match dns_poll cfg s now with
    | Ok (s', txs, hang) => (s', ObPoll txs hang)
    | _ => (s, ObPanic)
    end
  | EvRsp src sp dp pkt =>
    match dns_ingress cfg s src sp dp pkt with
    | Ok (s', acc) => (s', ObRsp acc)
    | _ => (s, ObPanic)
    end
  | EvServers l => (dns_update_servers cfg s l, ObServers)
  | EvHop h => let '(s', r) := dns_set_hop_limit s h in (s', ObHop r)
  end.

Fixpoint dns_run (cfg : dns_cfg) (s : dns_sock) (evs : list dns_event) : dns_sock :=
  match evs with
  | [] => s
  | ev :: evs' => dns_run cfg (fst (dns_step cfg s ev)) evs'
  end.
