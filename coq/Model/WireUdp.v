(* Executable model of smoltcp::wire::udp (src/wire/udp.rs): Packet accessors, check_len,
   verify_checksum / fill_checksum (arithmetic abstracted), Repr::{parse, header_len, emit}.

   Checksums.  The RFC 1071 arithmetic belongs to property C08.  Here it is a pair of
   parameters of the model (Section variables, i.e. explicit inputs):
     [sum_ok d]    = `checksum::combine(&[pseudo_header(src, dst, Udp, len), data(d)]) == !0`
     [sum_fill d]  = `!checksum::combine(&[pseudo_header(src, dst, Udp, len), data(d)])`
   for the fixed (src, dst) address pair of the call, where d = data[..len].  Everything
   around them (which bytes are summed, the "0 means no checksum" rules, the 0 -> 0xffff
   substitution, the IPv4-only exemption in parse) is modelled.  The correspondence driver
   instantiates them with the plain RFC 1071 function of WireBase.

   `Repr::emit` takes the payload as a closure `emit_payload(&mut [u8])`; the model takes the
   payload octets and the closure is `copy_from_slice` (panics on a length mismatch).

   Panic sources: slice indexing in accessors/setters, `data[..len]` in verify/fill_checksum,
   `copy_from_slice`.  No proofs in this file. *)
From SV Require Import Lib.Base Gen.WireFields Model.WireBase.

Record udp_repr := mkUdp { udp_sport : Z; udp_dport : Z }.

Definition udp_HEADER_LEN : Z := snd wudp_f_CHECKSUM.

Definition udp_src_port (bs : list Z) : outcome Z := wb_get_u16 bs wudp_f_SRC_PORT.
Definition udp_dst_port (bs : list Z) : outcome Z := wb_get_u16 bs wudp_f_DST_PORT.
Definition udp_len (bs : list Z) : outcome Z := wb_get_u16 bs wudp_f_LENGTH.
Definition udp_checksum (bs : list Z) : outcome Z := wb_get_u16 bs wudp_f_CHECKSUM.

(* Packet::check_len *)
Definition udp_check_len (bs : list Z) : outcome unit :=
  if blen bs <? udp_HEADER_LEN then Err 0
  else
    do fl <- udp_len bs;
    if (blen bs <? fl) || (fl <? udp_HEADER_LEN) then Err 0 else Ok tt.

(* Packet::payload: &data[field::PAYLOAD(length)] = data[8..length] *)
Definition udp_payload (bs : list Z) : outcome (list Z) :=
  do l <- udp_len bs; wb_sub bs (snd wudp_f_CHECKSUM) l.

Definition udp_set_src_port (bs : list Z) (v : Z) := wb_put_u16 bs wudp_f_SRC_PORT v.
Definition udp_set_dst_port (bs : list Z) (v : Z) := wb_put_u16 bs wudp_f_DST_PORT v.
Definition udp_set_len (bs : list Z) (v : Z) := wb_put_u16 bs wudp_f_LENGTH v.
Definition udp_set_checksum (bs : list Z) (v : Z) := wb_put_u16 bs wudp_f_CHECKSUM v.

Section Checksum.
Variable sum_ok : list Z -> bool.
Variable sum_fill : list Z -> Z.
(* both addresses are IPv4 (the `(&IpAddress::Ipv4(_), &IpAddress::Ipv4(_))` arm of parse) *)
Variable is_v4 : bool.

(* Packet::verify_checksum: a zero checksum field means "no checksum" over IPv4 only
   (RFC 768); over IPv6 it is rejected (RFC 8200 8.1) *)
Definition udp_verify_checksum (bs : list Z) : outcome bool :=
  do c <- udp_checksum bs;
  if c =? 0 then Ok is_v4
  else do l <- udp_len bs; do d <- wb_upto bs l; Ok (sum_ok d).

(* Packet::fill_checksum *)
Definition udp_fill_checksum (bs : list Z) : outcome (list Z) :=
  do bs <- udp_set_checksum bs 0;
  do l <- udp_len bs; do d <- wb_upto bs l;
  let c := sum_fill d in
  udp_set_checksum bs (if c =? 0 then 65535 else c).

(* Repr::parse; [rx] = checksum_caps.udp.rx() *)
Definition udp_parse (rx : bool) (bs : list Z) : outcome udp_repr :=
  do _ <- udp_check_len bs;
  do dp <- udp_dst_port bs;
  do _ <- wb_guard (negb (dp =? 0));
  do _ <- (if rx then
             do ok <- udp_verify_checksum bs;
             if ok then Ok tt
             else do c <- udp_checksum bs;
                  if is_v4 && (c =? 0) then Ok tt else Err 0
           else Ok tt);
  do sp <- udp_src_port bs;
  do dp <- udp_dst_port bs;
  Ok (mkUdp sp dp).

(* Repr::header_len (+ payload = the buffer emit expects) *)
Definition udp_buffer_len (r : udp_repr) (payload : list Z) : Z := udp_HEADER_LEN + blen payload.

(* Repr::emit; [tx] = checksum_caps.udp.tx() *)
Definition udp_emit (tx : bool) (r : udp_repr) (payload : list Z) (b : list Z) : outcome (list Z) :=
  do b <- udp_set_src_port b (udp_sport r);
  do b <- udp_set_dst_port b (udp_dport r);
  do b <- udp_set_len b ((udp_HEADER_LEN + blen payload) mod 65536);
  (* emit_payload(packet.payload_mut()) *)
  do l <- udp_len b;
  do b <- wb_set_slice b (snd wudp_f_CHECKSUM) l payload;
  if tx then udp_fill_checksum b else udp_set_checksum b 0.

End Checksum.

(* Proviso of C06 for UDP:
   - ports are u16 (Rust type);
   - dst_port <> 0: `Repr::parse` rejects destination port 0 ("cannot be omitted"), so a Repr with
     dst_port = 0 is outside what the protocol (as documented in parse) permits;
   - the datagram fits the 16-bit length field: 8 + |payload| <= 65535 (emit truncates with `as u16`).
   The round trip additionally needs a checksum configuration under which the receiver accepts
   what the sender produced: a datagram emitted without checksum (tx = false) is only accepted
   by a verifying receiver (rx = true) over IPv4 — stated as a hypothesis of the theorem. *)
Definition udp_wf (r : udp_repr) (payload : list Z) : bool :=
  is_u16 (udp_sport r) && is_u16 (udp_dport r) && negb (udp_dport r =? 0) &&
  bytes_ok payload && (udp_HEADER_LEN + blen payload <=? 65535).
