(* Executable model of smoltcp::wire::ieee802154 (src/wire/ieee802154.rs): IEEE 802.15.4 MAC
   frames.  `Frame<T>`: check_len, new_checked, every read accessor (frame control bits, sequence
   number, the addressing fields for every addressing-mode combination and frame version, the
   auxiliary security header, message integrity code, mac_header, payload), every setter;
   `Repr::{parse, buffer_len, emit}`.  The code modelled is /repo with its local "fix:" commits
   (see known_findings.txt: frame-control bit setters clear the bit, emit starts from a zeroed
   frame control word, key_identifier() honours a suppressed frame counter, check_len covers
   the message integrity code).

   Representation.
   * enum_with_unknown! types are their u8 code: FrameType 0 Beacon, 1 Data, 2 Acknowledgement,
     3 MacCommand, 5 Multipurpose, 6 FragmentOrFrak, 7 Extended, anything else Unknown(code);
     AddressingMode 0 Absent, 2 Short, 3 Extended, 1 = Unknown(1); FrameVersion 0 = 2003,
     1 = 2006, 2 = Ieee802154, 3 = Unknown(3).  `From<u8>` never produces `Unknown(k)` for a
     known code k, so the code is a faithful image of every value a parser returns; a hand-made
     `FrameType::Unknown(1)` is emitted like Data (and is outside [f154_wf]).
   * `Pan(u16)` is its number; `Address` is [f154_addr] with the octets in the order of the Rust
     array (on the wire they are stored reversed: `raw.reverse()` in the accessors, `value.reverse()`
     in the setters = [rev]).
   * The frame control word and the PAN ids are LITTLE endian: [f154_read_le16] is
     `LittleEndian::read_u16(slice)` (panics when the slice is shorter than 2 octets),
     [f154_get_le16]/[f154_put_le16] the same on `&data[lo..hi]`; `raw.to_le_bytes()` is
     [f154_le_enc2] and is stored with copy_from_slice ([wb_set_field], exact length).

   Panic sources (each is [Panic] here exactly when the Rust code panics):
   slice indexing `data[FRAMECONTROL]`, `data[SEQUENCE_NUMBER]`, `data[ADDRESSING][..offset]`,
   sub-slices of the addressing fields, `buffer[index..][0]`, `&b[1..1 + 4]`, `&b[offset..][..length]`,
   `ki[..len - 1]`, `ki[len - 1]`, `&data[len - mic_len..]` (usize underflow = negative lower bound
   of [wb_from]), `&data[..payload_start()]`, `&data[index..]`; `read_u16/read_u32` on a short slice;
   copy_from_slice length mismatch in the setters; `unreachable!()` in set_src_pan_id /
   set_src_addr when the destination addressing mode in the buffer is the reserved value 1;
   `panic!()` for a security level > 7 (unreachable: the level is masked with 7).
   Nested slices `data[ADDRESSING][lo..hi]` are written as one slice `data[3 + lo .. 3 + hi]` in
   the setters (both panic exactly when 3 + hi exceeds the length).
   Not modelled: `Display` (it only calls accessors modelled here), `Address::as_eui_64`,
   `as_link_local_address`, `is_broadcast` (no buffer access).  No proofs in this file. *)
From SV Require Import Lib.Base Gen.WireFields Model.WireBase.

Inductive f154_addr := F154Absent | F154Short (a : list Z) | F154Ext (a : list Z).

Record f154_repr := mkF154 {
  f154_r_frame_type : Z;
  f154_r_security : bool;
  f154_r_pending : bool;
  f154_r_ack_request : bool;
  f154_r_seq : option Z;
  f154_r_compression : bool;
  f154_r_version : Z;
  f154_r_dst_pan : option Z;
  f154_r_dst_addr : option f154_addr;
  f154_r_src_pan : option Z;
  f154_r_src_addr : option f154_addr }.

(* ---------- little-endian primitives ---------- *)

Definition f154_le_dec (l : list Z) : Z := fold_right (fun b a => b + 256 * a) 0 l.

(* LittleEndian::read_uN(slice) *)
Definition f154_read_le (s : list Z) (n : Z) : outcome Z :=
  if n <=? blen s then Ok (f154_le_dec (firstn (Z.to_nat n) s)) else Panic.
Definition f154_read_le16 (s : list Z) : outcome Z := f154_read_le s 2.
Definition f154_read_le32 (s : list Z) : outcome Z := f154_read_le s 4.

(* LittleEndian::read_u16(&data[f]) *)
Definition f154_get_le16 (l : list Z) (f : Z * Z) : outcome Z :=
  do s <- wb_field l f; f154_read_le16 s.

(* raw.to_le_bytes() / Pan::as_bytes() *)
Definition f154_le_enc2 (v : Z) : list Z := [v mod 256; (v / 256) mod 256].

(* LittleEndian::write_u16(&mut data[f], v) *)
Definition f154_put_le16 (l : list Z) (f : Z * Z) (v : Z) : outcome (list Z) :=
  wb_put_be l (fst f) (snd f) (f154_le_enc2 v).

(* ---------- enum codes ---------- *)

Definition f154_FT_BEACON : Z := 0.
Definition f154_FT_DATA : Z := 1.
Definition f154_FT_ACK : Z := 2.
Definition f154_FT_MAC_COMMAND : Z := 3.
Definition f154_FT_MULTIPURPOSE : Z := 5.
Definition f154_AM_ABSENT : Z := 0.
Definition f154_AM_SHORT : Z := 2.
Definition f154_AM_EXTENDED : Z := 3.
Definition f154_FV_2003 : Z := 0.
Definition f154_FV_2006 : Z := 1.
Definition f154_FV_2015 : Z := 2.

(* AddressingMode::size *)
Definition f154_mode_size (m : Z) : Z :=
  if m =? f154_AM_SHORT then 2 else if m =? f154_AM_EXTENDED then 8 else 0.

(* ---------- the frame control word ---------- *)

Definition f154_fc (bs : list Z) : outcome Z := f154_get_le16 bs w154_f_FRAMECONTROL.

Definition f154_ft_of (raw : Z) : Z := Z.land raw 7.
Definition f154_bit_of (raw bit : Z) : bool := Z.land (Z.shiftr raw bit) 1 =? 1.
Definition f154_dm_of (raw : Z) : Z := Z.land (Z.shiftr raw 10) 3.
Definition f154_ver_of (raw : Z) : Z := Z.land (Z.shiftr raw 12) 3.
Definition f154_sm_of (raw : Z) : Z := Z.land (Z.shiftr raw 14) 3.

Definition f154_frame_type (bs : list Z) : outcome Z := do raw <- f154_fc bs; Ok (f154_ft_of raw).
(* fc_bit_field!(name, bit) *)
Definition f154_fc_bit (bit : Z) (bs : list Z) : outcome bool :=
  do raw <- f154_fc bs; Ok (f154_bit_of raw bit).
Definition f154_security_enabled := f154_fc_bit 3.
Definition f154_frame_pending := f154_fc_bit 4.
Definition f154_ack_request := f154_fc_bit 5.
Definition f154_pan_id_compression := f154_fc_bit 6.
Definition f154_sequence_number_suppression := f154_fc_bit 8.
Definition f154_ie_present := f154_fc_bit 9.
Definition f154_dst_addressing_mode (bs : list Z) : outcome Z := do raw <- f154_fc bs; Ok (f154_dm_of raw).
Definition f154_frame_version (bs : list Z) : outcome Z := do raw <- f154_fc bs; Ok (f154_ver_of raw).
Definition f154_src_addressing_mode (bs : list Z) : outcome Z := do raw <- f154_fc bs; Ok (f154_sm_of raw).

(* frame types with a sequence number: Beacon, Data, Acknowledgement, MacCommand, Multipurpose *)
Definition f154_has_seq (ft : Z) : bool :=
  (ft =? f154_FT_BEACON) || (ft =? f154_FT_DATA) || (ft =? f154_FT_ACK) ||
  (ft =? f154_FT_MAC_COMMAND) || (ft =? f154_FT_MULTIPURPOSE).

(* Frame::sequence_number *)
Definition f154_sequence_number (bs : list Z) : outcome (option Z) :=
  do ft <- f154_frame_type bs;
  if f154_has_seq ft then do v <- wb_get_u8 bs w154_f_SEQUENCE_NUMBER; Ok (Some v) else Ok None.

(* Frame::addr_present_flags as a function of (version, dst mode, src mode, PAN id compression):
   (dst PAN id present, dst mode, src PAN id present, src mode).
   2003/2006:  (Absent, src) | (dst, Absent) | (dst, src) if compression | (dst, src) otherwise.
   2015: the 14 arms of the Rust match in their order (the first six are grouped by the source
   mode here: arms 1-4 have an Absent source, arms 5-6 an Absent destination and a source that
   is not Absent); the last arm `_ => return None` is reached exactly when one mode is the
   reserved value 1 and the other one is not Absent. *)
Definition f154_flags (ver dm sm : Z) (c : bool) : option (bool * Z * bool * Z) :=
  if (ver =? f154_FV_2003) || (ver =? f154_FV_2006) then
    if dm =? f154_AM_ABSENT then Some (false, f154_AM_ABSENT, true, sm)
    else if sm =? f154_AM_ABSENT then Some (true, dm, false, f154_AM_ABSENT)
    else if c then Some (true, dm, false, sm)
    else Some (true, dm, true, sm)
  else if ver =? f154_FV_2015 then
    if sm =? f154_AM_ABSENT then
      if dm =? f154_AM_ABSENT then
        if c then Some (true, f154_AM_ABSENT, false, f154_AM_ABSENT)     (* arm 2 *)
        else Some (false, f154_AM_ABSENT, false, f154_AM_ABSENT)         (* arm 1 *)
      else if c then Some (false, dm, false, f154_AM_ABSENT)             (* arm 4 *)
      else Some (true, dm, false, f154_AM_ABSENT)                        (* arm 3 *)
    else if dm =? f154_AM_ABSENT then Some (false, f154_AM_ABSENT, true, sm)   (* arms 5, 6 *)
    else if (dm =? f154_AM_EXTENDED) && (sm =? f154_AM_EXTENDED) then
      if c then Some (false, f154_AM_EXTENDED, false, f154_AM_EXTENDED)  (* arm 8 *)
      else Some (true, f154_AM_EXTENDED, false, f154_AM_EXTENDED)        (* arm 7 *)
    else if ((dm =? f154_AM_SHORT) || (dm =? f154_AM_EXTENDED)) &&
            ((sm =? f154_AM_SHORT) || (sm =? f154_AM_EXTENDED)) then
      Some (true, dm, negb c, sm)                                        (* arms 9-14 *)
    else None
  else None.

Definition f154_flags_of (raw : Z) : option (bool * Z * bool * Z) :=
  f154_flags (f154_ver_of raw) (f154_dm_of raw) (f154_sm_of raw) (f154_bit_of raw 6).

Definition f154_addr_present_flags (bs : list Z) : outcome (option (bool * Z * bool * Z)) :=
  do raw <- f154_fc bs; Ok (f154_flags_of raw).

Definition f154_pan_size (present : bool) : Z := if present then 2 else 0.

(* `offset` of check_len / addressing_fields: total length of the addressing fields *)
Definition f154_flags_len (fl : bool * Z * bool * Z) : Z :=
  let '(dp, da, sp, sa) := fl in
  f154_pan_size dp + f154_mode_size da + f154_pan_size sp + f154_mode_size sa.

(* first match of addressing_fields: Beacon | Data | MacCommand | Multipurpose, or an
   Acknowledgement of frame version Ieee802154 (the version is read from the same two octets
   as the frame type, so reading it unconditionally changes no panic condition) *)
Definition f154_has_addressing (ft ver : Z) : bool :=
  (ft =? f154_FT_BEACON) || (ft =? f154_FT_DATA) || (ft =? f154_FT_MAC_COMMAND) ||
  (ft =? f154_FT_MULTIPURPOSE) || ((ft =? f154_FT_ACK) && (ver =? f154_FV_2015)).

(* Frame::addressing_fields *)
Definition f154_addressing_fields (bs : list Z) : outcome (option (list Z)) :=
  do raw <- f154_fc bs;
  if negb (f154_has_addressing (f154_ft_of raw) (f154_ver_of raw)) then Ok None
  else
    do fl <- f154_addr_present_flags bs;
    match fl with
    | Some fl =>
        do d <- wb_from bs w154_f_ADDRESSING;
        do s <- wb_upto d (f154_flags_len fl);
        Ok (Some s)
    | None => Ok None
    end.

(* Frame::dst_pan_id *)
Definition f154_dst_pan_id (bs : list Z) : outcome (option Z) :=
  do fl <- f154_addr_present_flags bs;
  match fl with
  | Some (true, _, _, _) =>
      do af <- f154_addressing_fields bs;
      match af with
      | None => Ok None
      | Some af => do s <- wb_upto af 2; do v <- f154_read_le16 s; Ok (Some v)
      end
  | _ => Ok None
  end.

(* the `match dst_addr { ... }` of dst_addr / src_addr *)
Definition f154_read_addr (af : list Z) (offset mode : Z) : outcome (option f154_addr) :=
  if mode =? f154_AM_ABSENT then Ok (Some F154Absent)
  else if mode =? f154_AM_SHORT then
    do s <- wb_sub af offset (offset + 2); Ok (Some (F154Short (rev s)))
  else if mode =? f154_AM_EXTENDED then
    do s <- wb_sub af offset (offset + 8); Ok (Some (F154Ext (rev s)))
  else Ok None.

(* Frame::dst_addr *)
Definition f154_dst_addr (bs : list Z) : outcome (option f154_addr) :=
  do fl <- f154_addr_present_flags bs;
  match fl with
  | Some (dp, da, _, _) =>
      do af <- f154_addressing_fields bs;
      match af with
      | None => Ok None
      | Some af => f154_read_addr af (f154_pan_size dp) da
      end
  | None => Ok None
  end.

(* Frame::src_pan_id *)
Definition f154_src_pan_id (bs : list Z) : outcome (option Z) :=
  do fl <- f154_addr_present_flags bs;
  match fl with
  | Some (dp, da, true, _) =>
      let offset := f154_pan_size dp + f154_mode_size da in
      do af <- f154_addressing_fields bs;
      match af with
      | None => Ok None
      | Some af =>
          do t <- wb_from af offset; do s <- wb_upto t 2; do v <- f154_read_le16 s; Ok (Some v)
      end
  | _ => Ok None
  end.

(* Frame::src_addr *)
Definition f154_src_addr (bs : list Z) : outcome (option f154_addr) :=
  do fl <- f154_addr_present_flags bs;
  match fl with
  | Some (dp, da, sp, sa) =>
      do af <- f154_addressing_fields bs;
      match af with
      | None => Ok None
      | Some af => f154_read_addr af (f154_pan_size dp + f154_mode_size da + f154_pan_size sp) sa
      end
  | None => Ok None
  end.

(* ---------- auxiliary security header ---------- *)

(* Frame::aux_security_header_start *)
Definition f154_aux_security_header_start (bs : list Z) : outcome Z :=
  do af <- f154_addressing_fields bs;
  Ok (3 + match af with Some a => blen a | None => 0 end).

(* self.buffer.as_ref()[index..][0]: the security control octet *)
Definition f154_security_control (bs : list Z) : outcome Z :=
  do i <- f154_aux_security_header_start bs;
  do b <- wb_from bs i;
  wb_get_u8 b 0.

Definition f154_security_level (bs : list Z) : outcome Z :=
  do b <- f154_security_control bs; Ok (Z.land b 7).
Definition f154_key_identifier_mode (bs : list Z) : outcome Z :=
  do b <- f154_security_control bs; Ok (Z.land (Z.shiftr b 3) 3).
Definition f154_frame_counter_suppressed (bs : list Z) : outcome bool :=
  do b <- f154_security_control bs; Ok (Z.land (Z.shiftr b 5) 1 =? 1).

(* Frame::key_identifier_length *)
Definition f154_key_identifier_length (bs : list Z) : outcome (option Z) :=
  do m <- f154_key_identifier_mode bs;
  Ok (if m =? 0 then Some 0 else if m =? 1 then Some 1 else if m =? 2 then Some 5
      else if m =? 3 then Some 9 else None).

Definition f154_opt_len (k : option Z) : Z := match k with Some l => l | None => 0 end.

(* Frame::security_header_len *)
Definition f154_security_header_len (bs : list Z) : outcome Z :=
  do s <- f154_frame_counter_suppressed bs;
  do k <- f154_key_identifier_length bs;
  Ok (1 + (if s then 0 else 4) + f154_opt_len k).

(* Frame::payload_start *)
Definition f154_payload_start (bs : list Z) : outcome Z :=
  do i <- f154_aux_security_header_start bs;
  do se <- f154_security_enabled bs;
  if se then do l <- f154_security_header_len bs; Ok (i + l) else Ok i.

(* Frame::frame_counter *)
Definition f154_frame_counter (bs : list Z) : outcome (option Z) :=
  do s <- f154_frame_counter_suppressed bs;
  if s then Ok None
  else
    do i <- f154_aux_security_header_start bs;
    do b <- wb_from bs i;
    do f <- wb_sub b 1 5;
    do v <- f154_read_le32 f;
    Ok (Some v).

(* Frame::key_identifier: the field follows the security control octet and the frame counter,
   which is 4 octets long unless suppressed *)
Definition f154_key_identifier (bs : list Z) : outcome (list Z) :=
  do i <- f154_aux_security_header_start bs;
  do b <- wb_from bs i;
  do k <- f154_key_identifier_length bs;
  do s <- f154_frame_counter_suppressed bs;
  do t <- wb_from b (if s then 1 else 5);
  wb_upto t (f154_opt_len k).

(* Frame::key_source *)
Definition f154_key_source (bs : list Z) : outcome (option (list Z)) :=
  do ki <- f154_key_identifier bs;
  if blen ki >? 1 then do s <- wb_upto ki (blen ki - 1); Ok (Some s) else Ok None.

(* Frame::key_index *)
Definition f154_key_index (bs : list Z) : outcome (option Z) :=
  do ki <- f154_key_identifier bs;
  if blen ki >? 0 then do v <- wb_get_u8 ki (blen ki - 1); Ok (Some v) else Ok None.

(* Frame::mic_len *)
Definition f154_mic_len (bs : list Z) : outcome Z :=
  do l <- f154_security_level bs;
  if (l =? 0) || (l =? 4) then Ok 0
  else if (l =? 1) || (l =? 5) then Ok 4
  else if (l =? 2) || (l =? 6) then Ok 8
  else if (l =? 3) || (l =? 7) then Ok 16
  else Panic.

(* Frame::message_integrity_code *)
Definition f154_message_integrity_code (bs : list Z) : outcome (option (list Z)) :=
  do m <- f154_mic_len bs;
  if m =? 0 then Ok None
  else do s <- wb_from bs (blen bs - m); Ok (Some s).

(* Frame::mac_header *)
Definition f154_mac_header (bs : list Z) : outcome (list Z) :=
  do p <- f154_payload_start bs; wb_upto bs p.

(* Frame::payload: only Data frames; everything after the MAC header (including the MIC) *)
Definition f154_payload (bs : list Z) : outcome (option (list Z)) :=
  do ft <- f154_frame_type bs;
  if ft =? f154_FT_DATA then
    do p <- f154_payload_start bs; do s <- wb_from bs p; Ok (Some s)
  else Ok None.

(* ---------- check_len / new_checked ---------- *)

(* Frame::check_len *)
Definition f154_check_len (bs : list Z) : outcome unit :=
  if blen bs <? 3 then Err 0
  else if blen bs >? 127 then Err 0
  else
    do fl <- f154_addr_present_flags bs;
    do off <- match fl with
              | Some fl => if f154_flags_len fl >? blen bs then Err 0 else Ok (f154_flags_len fl)
              | None => Ok 0
              end;
    let offset := w154_f_ADDRESSING + off in
    do se <- f154_security_enabled bs;
    do offset <- (if se then
                    if offset + 1 >? blen bs then Err 0
                    else
                      do l <- f154_security_header_len bs;
                      do m <- f154_mic_len bs;
                      Ok (offset + l + m)
                  else Ok offset);
    if offset >? blen bs then Err 0 else Ok tt.

(* Frame::new_checked *)
Definition f154_new_checked (bs : list Z) : outcome unit :=
  do _ <- f154_check_len bs;
  do ver <- f154_frame_version bs;
  if negb ((ver =? f154_FV_2003) || (ver =? f154_FV_2006) || (ver =? f154_FV_2015)) then Err 0
  else
    do dm <- f154_dst_addressing_mode bs;
    do sm <- f154_src_addressing_mode bs;
    let unknown m := negb ((m =? f154_AM_ABSENT) || (m =? f154_AM_SHORT) || (m =? f154_AM_EXTENDED)) in
    if unknown dm || unknown sm then Err 0
    else
      do c <- f154_pan_id_compression bs;
      if ((ver =? f154_FV_2003) || (ver =? f154_FV_2006)) && c &&
         (dm =? f154_AM_ABSENT) && (sm =? f154_AM_ABSENT) then Err 0
      else Ok tt.

(* ---------- setters ---------- *)

(* let data = &mut buffer[FRAMECONTROL]; raw = read_u16(data); ...; data.copy_from_slice(&raw.to_le_bytes()) *)
Definition f154_upd_fc (bs : list Z) (g : Z -> Z) : outcome (list Z) :=
  do raw <- f154_get_le16 bs w154_f_FRAMECONTROL;
  wb_set_field bs w154_f_FRAMECONTROL (f154_le_enc2 (g raw)).

Definition f154_b2z (v : bool) : Z := if v then 1 else 0.

(* raw = (raw & !(0b111)) | (u8::from(frame_type) as u16 & 0b111) *)
Definition f154_set_frame_type (bs : list Z) (ft : Z) : outcome (list Z) :=
  f154_upd_fc bs (fun raw => Z.lor (Z.land raw 65528) (Z.land ft 7)).
(* set_fc_bit_field!: raw = (raw & !(1 << bit)) | ((val as u16) << bit) *)
Definition f154_set_fc_bit (bit : Z) (bs : list Z) (v : bool) : outcome (list Z) :=
  f154_upd_fc bs (fun raw => Z.lor (Z.land raw (65535 - Z.shiftl 1 bit)) (Z.shiftl (f154_b2z v) bit)).
Definition f154_set_security_enabled := f154_set_fc_bit 3.
Definition f154_set_frame_pending := f154_set_fc_bit 4.
Definition f154_set_ack_request := f154_set_fc_bit 5.
Definition f154_set_pan_id_compression := f154_set_fc_bit 6.
(* raw = (raw & !(0b11 << 12)) | ((u8::from(version) as u16 & 0b11) << 12) *)
Definition f154_set_frame_version (bs : list Z) (v : Z) : outcome (list Z) :=
  f154_upd_fc bs (fun raw => Z.lor (Z.land raw 53247) (Z.shiftl (Z.land v 3) 12)).
Definition f154_set_dst_addressing_mode (bs : list Z) (m : Z) : outcome (list Z) :=
  f154_upd_fc bs (fun raw => Z.lor (Z.land raw 62463) (Z.shiftl (Z.land m 3) 10)).
Definition f154_set_src_addressing_mode (bs : list Z) (m : Z) : outcome (list Z) :=
  f154_upd_fc bs (fun raw => Z.lor (Z.land raw 16383) (Z.shiftl (Z.land m 3) 14)).
(* Frame::clear_frame_control *)
Definition f154_clear_frame_control (bs : list Z) : outcome (list Z) :=
  wb_set_field bs w154_f_FRAMECONTROL [0; 0].

Definition f154_set_sequence_number (bs : list Z) (v : Z) : outcome (list Z) :=
  wb_set_u8 bs w154_f_SEQUENCE_NUMBER v.

(* Frame::set_dst_pan_id: "the destination addressing mode must be different than Absent.
   This is the reason why we set it to Extended." *)
Definition f154_set_dst_pan_id (bs : list Z) (v : Z) : outcome (list Z) :=
  do bs <- f154_set_dst_addressing_mode bs f154_AM_EXTENDED;
  wb_set_slice bs w154_f_ADDRESSING (w154_f_ADDRESSING + 2) (f154_le_enc2 v).

(* Frame::set_dst_addr: the address always goes behind a 2-octet destination PAN id *)
Definition f154_set_dst_addr (bs : list Z) (a : f154_addr) : outcome (list Z) :=
  match a with
  | F154Absent => f154_set_dst_addressing_mode bs f154_AM_ABSENT
  | F154Short v =>
      do bs <- f154_set_dst_addressing_mode bs f154_AM_SHORT;
      wb_set_slice bs (w154_f_ADDRESSING + 2) (w154_f_ADDRESSING + 2 + 2) (rev v)
  | F154Ext v =>
      do bs <- f154_set_dst_addressing_mode bs f154_AM_EXTENDED;
      wb_set_slice bs (w154_f_ADDRESSING + 2) (w154_f_ADDRESSING + 2 + 8) (rev v)
  end.

(* match self.dst_addressing_mode() { Absent => 0, Short => 2, Extended => 8, _ => unreachable!() } + 2 *)
Definition f154_src_offset (bs : list Z) : outcome Z :=
  do dm <- f154_dst_addressing_mode bs;
  if dm =? f154_AM_ABSENT then Ok (0 + 2)
  else if dm =? f154_AM_SHORT then Ok (2 + 2)
  else if dm =? f154_AM_EXTENDED then Ok (8 + 2)
  else Panic.

(* Frame::set_src_pan_id *)
Definition f154_set_src_pan_id (bs : list Z) (v : Z) : outcome (list Z) :=
  do offset <- f154_src_offset bs;
  wb_set_slice bs (w154_f_ADDRESSING + offset) (w154_f_ADDRESSING + offset + 2) (f154_le_enc2 v).

(* Frame::set_src_addr *)
Definition f154_set_src_addr (bs : list Z) (a : f154_addr) : outcome (list Z) :=
  do offset <- f154_src_offset bs;
  do c <- f154_pan_id_compression bs;
  let offset := offset + (if c then 0 else 2) in
  match a with
  | F154Absent => f154_set_src_addressing_mode bs f154_AM_ABSENT
  | F154Short v =>
      do bs <- f154_set_src_addressing_mode bs f154_AM_SHORT;
      wb_set_slice bs (w154_f_ADDRESSING + offset) (w154_f_ADDRESSING + offset + 2) (rev v)
  | F154Ext v =>
      do bs <- f154_set_src_addressing_mode bs f154_AM_EXTENDED;
      wb_set_slice bs (w154_f_ADDRESSING + offset) (w154_f_ADDRESSING + offset + 8) (rev v)
  end.

(* ---------- Repr ---------- *)

(* Repr::parse *)
Definition f154_parse (bs : list Z) : outcome f154_repr :=
  do _ <- f154_check_len bs;
  do ft <- f154_frame_type bs;
  do se <- f154_security_enabled bs;
  do fp <- f154_frame_pending bs;
  do ar <- f154_ack_request bs;
  do sn <- f154_sequence_number bs;
  do c <- f154_pan_id_compression bs;
  do ver <- f154_frame_version bs;
  do dp <- f154_dst_pan_id bs;
  do da <- f154_dst_addr bs;
  do sp <- f154_src_pan_id bs;
  do sa <- f154_src_addr bs;
  Ok (mkF154 ft se fp ar sn c ver dp da sp sa).

Definition f154_addr_size (a : option f154_addr) : Z :=
  match a with
  | Some F154Absent | None => 0
  | Some (F154Short _) => 2
  | Some (F154Ext _) => 8
  end.

(* Repr::buffer_len: always room for a destination PAN id, for a source PAN id unless compressed *)
Definition f154_buffer_len (r : f154_repr) : Z :=
  3 + 2 + f154_addr_size (f154_r_dst_addr r) + (if f154_r_compression r then 0 else 2) +
  f154_addr_size (f154_r_src_addr r).

Definition f154_opt_set {A} (bs : list Z) (x : option A) (f : list Z -> A -> outcome (list Z)) :=
  match x with Some v => f bs v | None => Ok bs end.

(* Repr::emit *)
Definition f154_emit (r : f154_repr) (b : list Z) : outcome (list Z) :=
  do b <- f154_clear_frame_control b;
  do b <- f154_set_frame_type b (f154_r_frame_type r);
  do b <- f154_set_security_enabled b (f154_r_security r);
  do b <- f154_set_frame_pending b (f154_r_pending r);
  do b <- f154_set_ack_request b (f154_r_ack_request r);
  do b <- f154_set_pan_id_compression b (f154_r_compression r);
  do b <- f154_set_frame_version b (f154_r_version r);
  do b <- f154_opt_set b (f154_r_seq r) f154_set_sequence_number;
  do b <- f154_opt_set b (f154_r_dst_pan r) f154_set_dst_pan_id;
  do b <- f154_opt_set b (f154_r_dst_addr r) f154_set_dst_addr;
  do b <- (if negb (f154_r_compression r)
           then f154_opt_set b (f154_r_src_pan r) f154_set_src_pan_id else Ok b);
  f154_opt_set b (f154_r_src_addr r) f154_set_src_addr.

(* ---------- the proviso of C06 ----------
   `Repr::emit` / `buffer_len` know ONE layout of the addressing fields:
       destination PAN id (2) | destination address | source PAN id (2, unless PAN id
       compression) | source address
   and neither writes an auxiliary security header.  [f154_wf] is the set of representations
   this layout carries and `parse` gives back:
   - frame type with addressing fields (Beacon, Data, MacCommand, Multipurpose, or an
     Acknowledgement of version Ieee802154): for every other type `addressing_fields()` is None,
     parse yields no addresses and the octets buffer_len reserves for them are never written;
     all of these types have a sequence number, so `sequence_number` is Some (an octet);
   - security_enabled = false: emit writes the bit but no auxiliary security header, and
     buffer_len has no room for one (check_len of the result fails);
   - frame version 2003, 2006 or Ieee802154 (two bits; `Unknown(3)` has no addressing layout);
   - dst_pan_id = Some (u16), dst_addr / src_addr = Some (Absent, or 2 / 8 octets: Rust array
     types); src_pan_id = None exactly when pan_id_compression (emit skips it, buffer_len omits it);
   - the presence flags that `addr_present_flags` derives from (version, modes, compression),
     i.e. what parse will read, are exactly this layout: destination PAN id present, source PAN
     id present iff not compressed.  Spelled out (see f154_wf_table in the proofs):
       2003/2006:   dst Short|Extended, and src Absent only with compression;
       Ieee802154:  dst = src = Absent with compression, or dst, src both Short|Extended and not
                    both Extended.
   Everything else `parse` can return (no destination PAN id, security enabled, frame types
   without addressing, ...) cannot be carried by emit: see f154_reparse_partial and the
   f154_reparse_refuted_* witnesses in the proofs. *)
Definition f154_addr_mode (a : f154_addr) : Z :=
  match a with F154Absent => f154_AM_ABSENT | F154Short _ => f154_AM_SHORT | F154Ext _ => f154_AM_EXTENDED end.

Definition f154_addr_ok (a : f154_addr) : bool :=
  match a with F154Absent => true | F154Short v => is_arr 2 v | F154Ext v => is_arr 8 v end.

Definition f154_flags_eqb (x y : bool * Z * bool * Z) : bool :=
  let '(a1, b1, c1, d1) := x in let '(a2, b2, c2, d2) := y in
  Bool.eqb a1 a2 && (b1 =? b2) && Bool.eqb c1 c2 && (d1 =? d2).

(* what parse derives from (version, modes, compression) is the layout emit writes *)
Definition f154_layout_ok (ver dm sm : Z) (c : bool) : bool :=
  match f154_flags ver dm sm c with
  | Some fl => f154_flags_eqb fl (true, dm, negb c, sm)
  | None => false
  end.

Definition f154_wf (r : f154_repr) : bool :=
  f154_has_addressing (f154_r_frame_type r) (f154_r_version r) &&
  negb (f154_r_security r) &&
  match f154_r_seq r with Some s => is_u8 s | None => false end &&
  (0 <=? f154_r_version r) && (f154_r_version r <=? 2) &&
  match f154_r_dst_pan r with Some p => is_u16 p | None => false end &&
  match f154_r_src_pan r with
  | Some p => negb (f154_r_compression r) && is_u16 p
  | None => f154_r_compression r
  end &&
  match f154_r_dst_addr r, f154_r_src_addr r with
  | Some da, Some sa =>
      f154_addr_ok da && f154_addr_ok sa &&
      f154_layout_ok (f154_r_version r) (f154_addr_mode da) (f154_addr_mode sa) (f154_r_compression r)
  | _, _ => false
  end.
