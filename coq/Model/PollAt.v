(* Executable model of the interface-level wake-up schedule (property C13):

   - [Interface::poll_at] (src/iface/interface/mod.rs): fragmenter pending => "now"
     (instant 0); otherwise the minimum over the sockets' deadlines (after [Meta::poll_at]),
     combined with the SLAAC deadline when SLAAC is enabled;
   - the SLAAC router-solicitation / expiry state machine of src/iface/slaac.rs
     ([rs_required], [rs_sent], [poll_at], [sync_required], [update_slaac_state],
     [process_advertisement]) and the two places of the poll loop that drive it
     ([poll_maintenance], [ndisc_rs_egress]).

   Times are integer microseconds (Instant::total_micros).  Constants come from
   Gen.Consts.  Prefixes and routes are keyed by abstract integers.  No proofs here. *)
From SV Require Import Lib.Base Gen.Consts.

(* ---------- Option<Instant> combination ---------- *)

Definition opt_min (a b : option Z) : option Z :=
  match a, b with
  | Some x, Some y => Some (Z.min x y)
  | Some x, None => Some x
  | None, b => b
  end.

Fixpoint opt_min_list (l : list (option Z)) : option Z :=
  match l with
  | [] => None
  | x :: r => opt_min x (opt_min_list r)
  end.

(* socket-level PollAt after Meta: Ingress = None, Time t = Some t, Now = Some 0 *)
Inductive pollat := PIngress | PTime (t : Z) | PNow.

Definition pollat_instant (p : pollat) : option Z :=
  match p with PIngress => None | PTime t => Some t | PNow => Some 0 end.

(* ---------- SLAAC ---------- *)

Inductive phase := PhStart | PhDiscovering | PhMaintaining | PhNone.

Record slaac := mkSlaac {
  sl_prefix : list (Z * Z);          (* key, valid_until *)
  sl_routes : list (Z * Z);          (* key, valid_until *)
  sl_phase : phase;
  sl_sync_required : bool;
  sl_retry_rs_at : Z;
  sl_num_solicitations : Z;
}.

Definition slaac_new : slaac :=
  mkSlaac [] [] PhStart false 0 slaac_MAX_RTR_SOLICITATIONS.

Definition is_valid (valid_until now : Z) : bool := now <? valid_until.

Definition slaac_sync_required (s : slaac) (now : Z) : bool :=
  sl_sync_required s
  || existsb (fun e => negb (is_valid (snd e) now)) (sl_prefix s)
  || existsb (fun e => negb (is_valid (snd e) now)) (sl_routes s).

Definition slaac_update_state (s : slaac) (now : Z) : slaac :=
  mkSlaac (filter (fun e => is_valid (snd e) now) (sl_prefix s))
          (filter (fun e => is_valid (snd e) now) (sl_routes s))
          (sl_phase s) false (sl_retry_rs_at s) (sl_num_solicitations s).

Definition slaac_rs_required (s : slaac) (now : Z) : bool :=
  match sl_phase s with
  | PhStart | PhDiscovering => (sl_retry_rs_at s <=? now) && (0 <? sl_num_solicitations s)
  | _ => false
  end.

Definition slaac_rs_sent (s : slaac) (now : Z) : slaac :=
  match sl_phase s with
  | PhStart | PhDiscovering =>
      if sl_retry_rs_at s <=? now then
        if sl_num_solicitations s =? 0 then
          mkSlaac (sl_prefix s) (sl_routes s) PhNone (sl_sync_required s)
                  (sl_retry_rs_at s) (sl_num_solicitations s)
        else
          mkSlaac (sl_prefix s) (sl_routes s) PhDiscovering (sl_sync_required s)
                  (now + slaac_RTR_SOLICITATION_INTERVAL) (sl_num_solicitations s - 1)
      else s
  | _ => s
  end.

Definition valid_deadlines (l : list (Z * Z)) (now : Z) : list (option Z) :=
  map (fun e => if is_valid (snd e) now then Some (snd e) else None) l.

(* Slaac::poll_at — as repaired by the "fix:" commit for D7c: a solicitation deadline is
   reported only while solicitations remain; otherwise only expiries are scheduled. *)
Definition slaac_poll_at (s : slaac) (now : Z) : option Z :=
  let expiries := opt_min (opt_min_list (valid_deadlines (sl_prefix s) now))
                          (opt_min_list (valid_deadlines (sl_routes s) now)) in
  match sl_phase s with
  | PhStart | PhDiscovering =>
      if 0 <? sl_num_solicitations s then Some (sl_retry_rs_at s) else expiries
  | PhMaintaining => expiries
  | PhNone => None
  end.

(* router advertisement: (source key, router lifetime, optional (prefix key, valid lifetime)) *)
Fixpoint assoc_set (k v : Z) (l : list (Z * Z)) : list (Z * Z) :=
  match l with
  | [] => []
  | (k', v') :: r => if k' =? k then (k, v) :: r else (k', v') :: assoc_set k v r
  end.

Definition assoc_mem (k : Z) (l : list (Z * Z)) : bool := existsb (fun e => fst e =? k) l.

Definition slaac_process_advertisement (cap_prefix cap_routes : Z) (s : slaac)
    (router router_lifetime : Z) (prefix : option (Z * Z)) (now : Z) : slaac :=
  (* prefix information with the autonomous flag (the harness only sends those) *)
  let '(pfx, sync1) :=
    match prefix with
    | None => (sl_prefix s, sl_sync_required s)
    | Some (k, valid_lifetime) =>
        if 0 <? valid_lifetime then
          if assoc_mem k (sl_prefix s)
          then (assoc_set k (now + valid_lifetime) (sl_prefix s), sl_sync_required s)
          else if Z.of_nat (length (sl_prefix s)) <? cap_prefix
               then (sl_prefix s ++ [(k, now + valid_lifetime)], true)
               else (sl_prefix s, sl_sync_required s)
        else
          if assoc_mem k (sl_prefix s)
          then (assoc_set k 0 (sl_prefix s), true)
          else (sl_prefix s, sl_sync_required s)
    end in
  let '(rts, sync2) :=
    if 0 <? router_lifetime then
      if assoc_mem router (sl_routes s)
      then (assoc_set router (now + router_lifetime) (sl_routes s), sync1)
      else if Z.of_nat (length (sl_routes s)) <? cap_routes
           then (sl_routes s ++ [(router, now + router_lifetime)], true)
           else (sl_routes s, true)
    else
      if assoc_mem router (sl_routes s)
      then (assoc_set router 0 (sl_routes s), true)
      else (sl_routes s, sync1) in
  mkSlaac pfx rts
          (match sl_phase s with PhDiscovering => PhMaintaining | p => p end)
          sync2 (sl_retry_rs_at s) (sl_num_solicitations s).

(* one Interface::poll as far as SLAAC is concerned, on a device that accepts frames:
   poll_maintenance (sync), then ingress of the router advertisements delivered in this
   poll, then ndisc_rs_egress.  Returns the new state and whether a router solicitation
   was transmitted. *)
Definition ra := (Z * Z * option (Z * Z))%type.   (* router, router lifetime, prefix *)

Definition slaac_maintenance (s : slaac) (now : Z) : slaac :=
  if slaac_sync_required s now then slaac_update_state s now else s.

Definition slaac_ingress (cap_prefix cap_routes : Z) (s : slaac) (ras : list ra) (now : Z) : slaac :=
  fold_left (fun st (r : ra) =>
               let '(router, life, pfx) := r in
               slaac_process_advertisement cap_prefix cap_routes st router life pfx now) ras s.

Definition slaac_rs_egress (s : slaac) (now : Z) : slaac * bool :=
  if slaac_rs_required s now then (slaac_rs_sent s now, true) else (s, false).

Definition slaac_poll (cap_prefix cap_routes : Z) (s : slaac) (ras : list ra) (now : Z) : slaac * bool :=
  slaac_rs_egress (slaac_ingress cap_prefix cap_routes (slaac_maintenance s now) ras now) now.

(* ---------- Interface::poll_at ---------- *)

Definition iface_poll_at (frag_pending : bool) (socks : list pollat)
           (slaac_enabled : bool) (s : slaac) (now : Z) : option Z :=
  if frag_pending then Some 0
  else
    let res := opt_min_list (map pollat_instant socks) in
    if slaac_enabled then opt_min res (slaac_poll_at s now) else res.

(* Interface::poll_delay *)
Definition iface_poll_delay (pa : option Z) (now : Z) : option Z :=
  match pa with
  | Some t => if now <? t then Some (t - now) else Some 0
  | None => None
  end.
