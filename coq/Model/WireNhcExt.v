(* Executable model of the EMIT side of the 6LoWPAN NHC extension header,
   src/wire/sixlowpan/nhc.rs  (ExtHeaderPacket setters, ExtHeaderRepr::emit), and of
   ExtHeaderRepr::parse at the level of the Repr (the `ExtHeaderId` enum, not the raw 3-bit field).
   The parse side on raw octets is Model/WireNhc.v (the nhc_ext_ functions); this file adds what property C06
   needs for the emit-then-parse round trip of this type.

     Rust                                         model
     ExtHeaderPacket::set_dispatch_field          nhc_ext_set_dispatch_field
       set_eid_field / set_nh_field (set_field!)  nhc_ext_set_eid_field / nhc_ext_set_nh_field
       set_extension_header_id                    nhc_ext_set_extension_header_id
       set_next_header                            nhc_ext_set_next_header
       set_length                                 nhc_ext_set_length
       extension_header_id                        nhc_ext_id_of_field
     ExtHeaderRepr::emit                          nhc_ext_emit
     ExtHeaderRepr::parse (as a Repr)             nhc_ext_repr_parse

   The enum ExtHeaderId is modelled by the number `set_extension_header_id` writes for it:
   HopByHop 0, Routing 1, Fragment 2, DestinationOptions 3, Mobility 4, Reserved 5, Header 7
   (`extension_header_id` reads both 5 and 6 as Reserved).  Panic sources: every `data[..]` index
   (wb_upd_u8 / wb_set_u8 return Panic outside the buffer).  No proofs in this file. *)
From SV Require Import Lib.Base Gen.Consts Gen.WireFields Model.WireBase Model.WireNhc.

(* data[0] = (data[0] & !(0b1111 << 4)) | (DISPATCH_EXT_HEADER << 4) *)
Definition nhc_ext_set_dispatch_field (b : list Z) : outcome (list Z) :=
  wb_upd_u8 b 0 (fun raw => Z.lor (Z.land raw (255 - Z.shiftl 15 4))
                                  ((Z.shiftl wsix_DISPATCH_EXT_HEADER 4) mod 256)).

Definition nhc_ext_set_eid_field (b : list Z) (v : Z) := nhc_set_field b 7 1 v.
Definition nhc_ext_set_nh_field (b : list Z) (v : Z) := nhc_set_field b 1 0 v.

(* the enum is its own number: set_extension_header_id writes it as is *)
Definition nhc_ext_set_extension_header_id (b : list Z) (id : Z) := nhc_ext_set_eid_field b id.

(* extension_header_id(): 5 | 6 => Reserved (number 5) *)
Definition nhc_ext_id_of_field (e : Z) : Z := if e =? 6 then 5 else e.

Definition nhc_ext_id_wf (id : Z) : bool :=
  (id =? 0) || (id =? 1) || (id =? 2) || (id =? 3) || (id =? 4) || (id =? 5) || (id =? 7).

Definition nhc_ext_set_next_header (b : list Z) (nh : option Z) : outcome (list Z) :=
  match nh with
  | None => nhc_ext_set_nh_field b 1
  | Some p => do b1 <- nhc_ext_set_nh_field b 0; wb_set_u8 b1 1 p
  end.

Definition nhc_ext_set_length (b : list Z) (len : Z) : outcome (list Z) :=
  do n <- nhc_ext_next_header_size b; wb_set_u8 b (1 + n) len.

Definition nhc_ext_emit (r : nhc_ext_repr) (b : list Z) : outcome (list Z) :=
  do b1 <- nhc_ext_set_dispatch_field b;
  do b2 <- nhc_ext_set_extension_header_id b1 (ne_eid r);
  do b3 <- nhc_ext_set_next_header b2 (ne_next r);
  nhc_ext_set_length b3 (ne_length r).

(* ExtHeaderRepr::parse with ext_header_id as the enum *)
Definition nhc_ext_repr_parse (b : list Z) : outcome nhc_ext_repr :=
  do r <- nhc_ext_parse b;
  Ok (mkExt (nhc_ext_id_of_field (ne_eid r)) (ne_next r) (ne_length r)).

Definition nhc_ext_repr_wf (r : nhc_ext_repr) : bool :=
  nhc_ext_id_wf (ne_eid r) && is_u8 (ne_length r) &&
  match ne_next r with None => true | Some p => is_u8 p end.
