(* Address algebra for the L3 ingress/egress decision model (properties C11, C10).
   Executable definitions only (no proofs): IPv4 addresses are Z in [0,2^32), IPv6
   addresses Z in [0,2^128), Ethernet addresses Z in [0,2^48), IEEE 802.15.4 addresses
   short (16 bit) / extended (64 bit).  Every predicate mirrors the Rust function named in
   the comment (src/wire/ipv4.rs, src/wire/ipv6.rs, src/wire/ip.rs, src/wire/ethernet.rs,
   src/wire/ieee802154.rs and core::net::Ipv{4,6}Addr); bit operations are written as
   division/modulo by powers of two. *)
From SV Require Import Lib.Base.

(* ------------------------------------------------------------------ IPv4 *)

Definition v4_BROADCAST : Z := 4294967295.            (* 255.255.255.255 *)
Definition v4_MULTICAST_ALL_SYSTEMS : Z := 3758096385. (* 224.0.0.1 *)
Definition v4_MULTICAST_ALL_ROUTERS : Z := 3758096386. (* 224.0.0.2 *)

(* core::net::Ipv4Addr::{is_unspecified,is_broadcast,is_multicast,is_loopback,is_link_local} *)
Definition v4_is_unspecified (a : Z) : bool := a =? 0.
Definition v4_is_broadcast (a : Z) : bool := a =? v4_BROADCAST.
Definition v4_is_multicast (a : Z) : bool := a / 268435456 =? 14.      (* 224.0.0.0/4 *)
Definition v4_is_loopback (a : Z) : bool := a / 16777216 =? 127.       (* 127.0.0.0/8 *)
Definition v4_is_link_local (a : Z) : bool := a / 65536 =? 43518.      (* 169.254.0.0/16 *)

(* wire/ipv4.rs AddressExt::x_is_unicast *)
Definition v4_x_is_unicast (a : Z) : bool :=
  negb (v4_is_broadcast a || v4_is_multicast a || v4_is_unspecified a).

(* wire/ipv4.rs Cidr: number of host addresses 2^(32-prefix_len); the netmask is
   0xffffffff << (32-p) (0 for p = 0), so `x & netmask` = (x / hostsize) * hostsize. *)
Definition c4_hostsize (plen : Z) : Z := 2 ^ (32 - plen).
(* Cidr::network().address *)
Definition c4_network (a plen : Z) : Z := (a / c4_hostsize plen) * c4_hostsize plen.
(* Cidr::contains_addr *)
Definition c4_contains (a plen x : Z) : bool := x / c4_hostsize plen =? a / c4_hostsize plen.
(* Cidr::broadcast: None for /31 and /32, else network | (0xffffffff >> p) *)
Definition c4_broadcast (a plen : Z) : option Z :=
  if (plen =? 31) || (plen =? 32) then None
  else Some (c4_network a plen + c4_hostsize plen - 1).

(* ------------------------------------------------------------------ IPv6 *)

Definition v6_LOCALHOST : Z := 1.
Definition v6_LINK_LOCAL_ALL_NODES : Z := 338963523518870617245727861364146307073.    (* ff02::1 *)
Definition v6_LINK_LOCAL_ALL_ROUTERS : Z := 338963523518870617245727861364146307074.  (* ff02::2 *)
Definition v6_LINK_LOCAL_ALL_MLDV2_ROUTERS : Z := 338963523518870617245727861364146307094. (* ff02::16 *)
Definition v6_SOLICITED_NODE_BASE : Z := 338963523518870617245727861372719464448.     (* ff02::1:ff00:0 *)

Definition v6_is_unspecified (a : Z) : bool := a =? 0.
Definition v6_is_loopback (a : Z) : bool := a =? 1.
Definition v6_is_multicast (a : Z) : bool := a / 2 ^ 120 =? 255.                      (* ff00::/8 *)
(* wire/ipv6.rs AddressExt::x_is_unicast *)
Definition v6_x_is_unicast (a : Z) : bool := negb (v6_is_multicast a || v6_is_unspecified a).
(* AddressExt::is_link_local: first 64 bits = fe80:0:0:0 *)
Definition v6_is_link_local (a : Z) : bool := a / 2 ^ 64 =? 18338657682652659712.
(* core::net::Ipv6Addr::is_unique_local: fc00::/7 *)
Definition v6_is_unique_local (a : Z) : bool := a / 2 ^ 121 =? 126.
(* AddressExt::is_global_unicast: 2000::/3 *)
Definition v6_is_global_unicast (a : Z) : bool := a / 2 ^ 125 =? 1.
(* AddressExt::is_solicited_node_multicast: first 104 bits = ff02:0:0:0:0:1:ff *)
Definition v6_is_solicited_node_multicast (a : Z) : bool :=
  a / 16777216 =? v6_SOLICITED_NODE_BASE / 16777216.
(* AddressExt::solicited_node (defined for unicast addresses; Rust asserts) *)
Definition v6_solicited_node (a : Z) : Z := v6_SOLICITED_NODE_BASE + a mod 16777216.

(* wire/ipv6.rs MulticastScope as its u8 discriminant; From<u8> *)
Definition v6_scope_of_nibble (n : Z) : Z :=
  if n =? 1 then 1 else if n =? 2 then 2 else if n =? 4 then 4 else if n =? 5 then 5
  else if n =? 8 then 8 else if n =? 14 then 14 else 255.
(* AddressExt::x_multicast_scope *)
Definition v6_multicast_scope (a : Z) : Z :=
  if v6_is_multicast a then v6_scope_of_nibble ((a / 2 ^ 112) mod 16)
  else if v6_is_link_local a then 2
  else if v6_is_unique_local a || v6_is_global_unicast a then 14
  else 255.

(* wire/ipv6.rs Cidr::contains_addr *)
Definition c6_contains (a plen x : Z) : bool :=
  if plen =? 0 then true else x / 2 ^ (128 - plen) =? a / 2 ^ (128 - plen).

(* number of leading bits two 128-bit values have in common (the octet loop of
   common_prefix_length in get_source_address_ipv6, before the min with prefix_len) *)
Definition v6_common_bits (a b : Z) : Z :=
  let x := Z.lxor a b in if x =? 0 then 128 else 127 - Z.log2 x.

(* ------------------------------------------------------------------ either family *)

Inductive ipaddr : Type := V4 (a : Z) | V6 (a : Z).

Definition ip_eqb (x y : ipaddr) : bool :=
  match x, y with
  | V4 a, V4 b => a =? b
  | V6 a, V6 b => a =? b
  | _, _ => false
  end.

Definition ip_is_v4 (x : ipaddr) : bool := match x with V4 _ => true | V6 _ => false end.

(* wire/ip.rs Address::{is_unicast,is_multicast,is_broadcast,is_unspecified} *)
Definition ip_is_unicast (x : ipaddr) : bool :=
  match x with V4 a => v4_x_is_unicast a | V6 a => v6_x_is_unicast a end.
Definition ip_is_multicast (x : ipaddr) : bool :=
  match x with V4 a => v4_is_multicast a | V6 a => v6_is_multicast a end.
Definition ip_is_broadcast (x : ipaddr) : bool :=
  match x with V4 a => v4_is_broadcast a | V6 _ => false end.
Definition ip_is_unspecified (x : ipaddr) : bool :=
  match x with V4 a => v4_is_unspecified a | V6 a => v6_is_unspecified a end.
Definition ip_is_loopback (x : ipaddr) : bool :=
  match x with V4 a => v4_is_loopback a | V6 a => v6_is_loopback a end.

(* wire/ip.rs Cidr *)
Record cidr : Type := mkCidr { c_addr : ipaddr; c_plen : Z }.

Definition cidr_contains (c : cidr) (x : ipaddr) : bool :=
  match c_addr c, x with
  | V4 a, V4 b => c4_contains a (c_plen c) b
  | V6 a, V6 b => c6_contains a (c_plen c) b
  | _, _ => false
  end.

(* ------------------------------------------------------------------ hardware addresses *)

Definition eth_BROADCAST : Z := 281474976710655.   (* ff:ff:ff:ff:ff:ff *)
(* wire/ethernet.rs Address::{is_broadcast,is_multicast,is_unicast} *)
Definition eth_is_broadcast (a : Z) : bool := a =? eth_BROADCAST.
Definition eth_is_multicast (a : Z) : bool := (a / 2 ^ 40) mod 2 =? 1.
Definition eth_is_unicast (a : Z) : bool := negb (eth_is_broadcast a || eth_is_multicast a).

(* HardwareAddress / Ieee802154Address: Ip medium has none; 802.15.4 addresses are absent,
   short or extended; the broadcast address is Short(ff ff). *)
Inductive hwaddr : Type :=
| HwIp
| HwEth (a : Z)
| HwAbsent
| HwShort (a : Z)
| HwExt (a : Z).

Definition hw_eqb (x y : hwaddr) : bool :=
  match x, y with
  | HwIp, HwIp => true
  | HwEth a, HwEth b => a =? b
  | HwAbsent, HwAbsent => true
  | HwShort a, HwShort b => a =? b
  | HwExt a, HwExt b => a =? b
  | _, _ => false
  end.

Definition hw154_BROADCAST : hwaddr := HwShort 65535.
(* wire/ieee802154.rs Address::is_broadcast *)
Definition hw154_is_broadcast (x : hwaddr) : bool := hw_eqb x hw154_BROADCAST.
Definition pan_BROADCAST : Z := 65535.

(* Ethernet address an IP multicast group maps to (lookup_hardware_addr):
   01:00:5e + low 23 bits / 33:33 + low 32 bits *)
Definition eth_of_multicast (x : ipaddr) : Z :=
  match x with
  | V4 a => 1101088686080 + a mod 8388608          (* 01:00:5e:00:00:00 *)
  | V6 a => 56294136348672 + a mod 4294967296      (* 33:33:00:00:00:00 *)
  end.
