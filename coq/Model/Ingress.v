(* L3 decision model of the interface (properties C11, C10): what is accepted, which socket
   gets it, what is answered and with which addresses, which source address egress picks and
   whether a packet fits the MTU.  Executable Gallina only, NO proofs.

   Every function mirrors the Rust function of the same name (prefix ing_) check by check, in
   the same order, of the FIXED sources (see known_findings.txt for the `fix:` commits):
     src/iface/interface/ethernet.rs   process_ethernet
     src/iface/interface/ieee802154.rs process_ieee802154 (+ the tail of process_sixlowpan)
     src/iface/interface/mod.rs        process_ip, has_ip_addr, has_multicast_group,
                                       raw_socket_filter, is_broadcast, in_same_network, route,
                                       lookup_hardware_addr, dispatch_ip (size decision)
     src/iface/interface/ipv4.rs       process_ipv4, process_icmpv4, icmpv4_reply,
                                       get_source_address_ipv4, is_broadcast_v4, is_unicast_v4, ipv4_addr
     src/iface/interface/ipv6.rs       process_ipv6, process_hopbyhop, process_nxt_hdr, process_icmpv6,
                                       icmpv6_reply, get_source_address_ipv6, has_solicited_node
     src/iface/interface/tcp.rs, udp.rs process_tcp, process_udp
     src/socket/{tcp,udp,icmp,raw,dns}.rs  accepts*, tcp::Socket::rst_reply, udp dispatch source choice
     src/iface/route.rs lookup, src/iface/neighbor.rs lookup (entries unexpired)
   Packets are abstract (already parsed, well-formed): the byte level is C06/C07/C08.
   Rust panics (assert!/unreachable!) are [Panic] of the outcome monad. *)
From SV Require Import Lib.Base Gen.Consts Gen.WireFields Model.Addr.

(* ------------------------------------------------------------------ state *)

Inductive medium : Type := MIp | MEth | M154.

Record iface : Type := mkIface {
  if_medium : medium;
  if_hw : hwaddr;                      (* hardware_addr *)
  if_pan : option Z;                   (* pan_id *)
  if_addrs : list cidr;                (* ip_addrs, in order *)
  if_groups : list ipaddr;             (* multicast.groups in state Joining/Joined *)
  if_any_ip : bool;
  if_routes : list (cidr * ipaddr);    (* unexpired routes (cidr, via_router), in order *)
  if_neigh : list (ipaddr * hwaddr);   (* unexpired neighbor cache entries *)
  if_neigh_silent : bool;              (* now < neighbor_cache.silent_until *)
  if_ip_mtu : Z;                       (* caps.ip_mtu() *)
  if_frag_buf : Z;                     (* fragmenter.buffer.len() *)
  if_frag_busy : bool                  (* !fragmenter.finished() *)
}.

(* ------------------------------------------------------------------ packets *)

Inductive tcp_ctl : Type := CtlNone | CtlPsh | CtlSyn | CtlFin | CtlRst.

Definition ctl_eqb (a b : tcp_ctl) : bool :=
  match a, b with
  | CtlNone, CtlNone | CtlPsh, CtlPsh | CtlSyn, CtlSyn | CtlFin, CtlFin | CtlRst, CtlRst => true
  | _, _ => false
  end.

(* what an ICMP error message quotes: the source port of a UDP / TCP packet that re-parses
   (valid checksum w.r.t. the quoted header), or something else *)
Inductive quoted : Type := QUdp (sport : Z) | QTcp (sport : Z) | QOther.

Inductive icmp_msg : Type :=
| IEchoReq (ident len : Z)            (* len = length of the echo data *)
| IEchoRep (ident len : Z)
| IErr (ty : Z) (q : quoted) (len : Z)  (* error message of wire type ty, total ICMP length len *)
(* NDISC (ICMPv6 only): target address, source / target link-layer address option, and the hop
   limit of the IPv6 header carrying the message (process_icmpv6 hands NDISC on only when 255) *)
| INeighSol (target : Z) (lladdr : option hwaddr) (hop_limit : Z)
| INeighAdv (target : Z) (lladdr : option hwaddr) (hop_limit : Z).

(* length of a link-layer address option: 8 octets for Ethernet, 16 for an extended 802.15.4 address *)
Definition ndisc_opt_len (l : option hwaddr) : Z :=
  match l with Some (HwEth _) => 8 | Some _ => 16 | None => 0 end.

Inductive upper : Type :=
| UTcp (sport dport : Z) (ctl : tcp_ctl) (ack : bool) (len : Z)   (* len = payload length *)
| UUdp (sport dport len : Z)
| UIcmp (m : icmp_msg)              (* ICMPv4 in an IPv4 packet, ICMPv6 in an IPv6 packet *)
| UIgmp
| UOther (proto len : Z).

(* hop-by-hop option types present (in order) and the total length of the extension header *)
Record hbh : Type := mkHbh { hbh_opts : list Z; hbh_len : Z }.

Record packet : Type := mkPacket {
  p_ll_dst : hwaddr;          (* Ethernet / 802.15.4 destination (HwIp on Medium::Ip) *)
  p_ll_pan : option Z;        (* 802.15.4 destination PAN id *)
  p_src : ipaddr;
  p_dst : ipaddr;
  p_hbh : option hbh;         (* IPv6 only *)
  p_upper : upper
}.

Definition upper_len (u : upper) : Z :=
  match u with
  | UTcp _ _ _ _ len => wtcp_HEADER_LEN + len
  | UUdp _ _ len => wudp_HEADER_LEN + len
  | UIcmp (IEchoReq _ len) | UIcmp (IEchoRep _ len) => 8 + len
  | UIcmp (IErr _ _ len) => len
  | UIcmp (INeighSol _ l _) | UIcmp (INeighAdv _ l _) => 24 + ndisc_opt_len l
  | UIgmp => 8
  | UOther _ len => len
  end.

(* IpProtocol number as seen by IpRepr::next_header() *)
Definition upper_proto (v4 : bool) (u : upper) : Z :=
  match u with
  | UTcp _ _ _ _ _ => 6
  | UUdp _ _ _ => 17
  | UIcmp _ => if v4 then 1 else 58
  | UIgmp => 2
  | UOther n _ => n
  end.

(* ------------------------------------------------------------------ sockets *)

Inductive icmp_bind : Type :=
| IbUnspec
| IbIdent (id : Z)
| IbUdp (a : option ipaddr) (port : Z)
| IbTcp (a : option ipaddr) (port : Z).

Inductive sock : Type :=
| STcpListen (a : option ipaddr) (port : Z)        (* state LISTEN, listen_endpoint *)
| STcpConn (la : ipaddr) (lp : Z) (ra : ipaddr) (rp : Z)  (* tuple set (SYN-SENT) *)
| STcpClosed
| SUdp (a : option ipaddr) (port : Z)              (* endpoint; port 0 = unbound *)
| SIcmp (b : icmp_bind)
| SRaw (ver : option Z) (proto : option Z)         (* ip_version (4/6), ip_protocol *)
| SDns (servers : list ipaddr).

(* ------------------------------------------------------------------ results *)

Inductive rkind : Type :=
| KRst            (* TCP RST built by rst_reply *)
| KEchoReply      (* ICMP echo reply *)
| KPortUnreach    (* ICMP destination unreachable: port *)
| KProtoUnreach   (* ICMPv4 destination unreachable: protocol *)
| KParamNxt       (* ICMPv6 parameter problem: unrecognized next header *)
| KParamOpt       (* ICMPv6 parameter problem: unrecognized option *)
| KUdp            (* datagram sent by a UDP socket *)
| KSyn            (* SYN of a connecting TCP socket *)
| KNeighSol       (* NDISC neighbor solicitation *)
| KNeighAdv.      (* NDISC neighbor advertisement answering a solicitation *)

Record reply : Type := mkReply { r_kind : rkind; r_src : ipaddr; r_dst : ipaddr; r_iplen : Z }.

Definition rkind_is_error (k : rkind) : bool :=
  match k with
  | KRst | KPortUnreach | KProtoUnreach | KParamNxt | KParamOpt => true
  | _ => false
  end.

(* res_deliv: indices (in the socket set) of the sockets whose process() ran;
   res_reply: the packet handed back to the interface for transmission *)
Record ing_result : Type := mkRes { res_deliv : list nat; res_reply : option reply }.
Definition res_none : ing_result := mkRes [] None.

(* ------------------------------------------------------------------ list helpers *)

Fixpoint find_idx_from {A} (f : A -> bool) (l : list A) (i : nat) : option nat :=
  match l with
  | [] => None
  | x :: t => if f x then Some i else find_idx_from f t (S i)
  end.
Definition find_idx {A} (f : A -> bool) (l : list A) : option nat := find_idx_from f l 0.

Fixpoint filter_idx_from {A} (f : A -> bool) (l : list A) (i : nat) : list nat :=
  match l with
  | [] => []
  | x :: t => if f x then i :: filter_idx_from f t (S i) else filter_idx_from f t (S i)
  end.
Definition filter_idx {A} (f : A -> bool) (l : list A) : list nat := filter_idx_from f l 0.

Definition is_nil {A} (l : list A) : bool := match l with [] => true | _ => false end.

(* ------------------------------------------------------------------ interface predicates *)

(* ip_addrs.iter().any(|c| c.address() == x) *)
Definition ing_own_addr (ifc : iface) (x : ipaddr) : bool :=
  existsb (fun c => ip_eqb (c_addr c) x) (if_addrs ifc).

(* InterfaceInner::has_ip_addr: always true with any_ip *)
Definition ing_has_ip_addr (ifc : iface) (x : ipaddr) : bool :=
  if if_any_ip ifc then true else ing_own_addr ifc x.

(* InterfaceInner::has_solicited_node (fixed: solicited-node form and low 24 bits) *)
Definition ing_has_solicited_node (ifc : iface) (a : Z) : bool :=
  existsb (fun c => match c_addr c with
                    | V6 b => negb (b =? v6_LOCALHOST) && v6_is_solicited_node_multicast a
                              && (a mod 16777216 =? b mod 16777216)
                    | V4 _ => false
                    end) (if_addrs ifc).

(* InterfaceInner::has_multicast_group *)
Definition ing_has_multicast_group (ifc : iface) (x : ipaddr) : bool :=
  if existsb (ip_eqb x) (if_groups ifc) then true
  else match x with
       | V4 a => a =? v4_MULTICAST_ALL_SYSTEMS
       | V6 a => (a =? v6_LINK_LOCAL_ALL_NODES) || ing_has_solicited_node ifc a
       end.

(* InterfaceInner::is_broadcast_v4 *)
Definition ing_is_broadcast_v4 (ifc : iface) (a : Z) : bool :=
  if v4_is_broadcast a then true
  else existsb (fun c => match c_addr c with
                         | V4 b => match c4_broadcast b (c_plen c) with
                                   | Some bc => a =? bc
                                   | None => false
                                   end
                         | V6 _ => false
                         end) (if_addrs ifc).

(* InterfaceInner::is_unicast_v4 *)
Definition ing_is_unicast_v4 (ifc : iface) (a : Z) : bool :=
  v4_x_is_unicast a && negb (ing_is_broadcast_v4 ifc a).

(* InterfaceInner::is_broadcast *)
Definition ing_is_broadcast (ifc : iface) (x : ipaddr) : bool :=
  match x with V4 a => ing_is_broadcast_v4 ifc a | V6 _ => false end.

(* InterfaceInner::ipv4_addr *)
Fixpoint first_v4 (l : list cidr) : option Z :=
  match l with
  | [] => None
  | c :: t => match c_addr c with V4 a => Some a | V6 _ => first_v4 t end
  end.
Definition ing_ipv4_addr (ifc : iface) : option Z := first_v4 (if_addrs ifc).

(* ------------------------------------------------------------------ source address selection *)

(* InterfaceInner::get_source_address_ipv4 *)
Fixpoint gsa4_loop (l : list cidr) (dst : Z) (first : option Z) : option Z :=
  match l with
  | [] => first
  | c :: t =>
      match c_addr c with
      | V4 a => if c4_contains a (c_plen c) dst then Some a
                else gsa4_loop t dst (match first with None => Some a | Some _ => first end)
      | V6 _ => gsa4_loop t dst first
      end
  end.
Definition ing_get_source_address_ipv4 (ifc : iface) (dst : Z) : option Z :=
  gsa4_loop (if_addrs ifc) dst None.

(* the IPv6 cidrs of the interface as (address, prefix_len) *)
Fixpoint v6_cidrs (l : list cidr) : list (Z * Z) :=
  match l with
  | [] => []
  | c :: t => match c_addr c with V6 a => (a, c_plen c) :: v6_cidrs t | V4 _ => v6_cidrs t end
  end.

(* get_source_address_ipv6::is_candidate_source_address *)
Definition gsa6_is_candidate (dst src : Z) : bool :=
  if v6_is_link_local dst && negb (v6_is_link_local src) then false
  else if v6_is_multicast dst && (v6_multicast_scope dst =? 2)
          && v6_is_multicast src && negb (v6_multicast_scope src =? 2) then false
  else if v6_is_unspecified src || v6_is_multicast src then false
  else true.

(* get_source_address_ipv6::common_prefix_length(cidr, addr) *)
Definition gsa6_common_prefix_length (c : Z * Z) (x : Z) : Z :=
  Z.min (v6_common_bits (fst c) x) (snd c).

(* one iteration of the candidate loop *)
Definition gsa6_step (dst : Z) (cand addr : Z * Z) : Z * Z :=
  if negb (gsa6_is_candidate dst (fst addr)) then cand
  else
    (* Rule 1 *)
    let c1 := if negb (fst cand =? dst) && (fst addr =? dst) then addr else cand in
    (* Rule 2 *)
    let c2 := if v6_multicast_scope (fst c1) <? v6_multicast_scope (fst addr)
              then (if v6_multicast_scope (fst c1) <? v6_multicast_scope dst then addr else c1)
              else (if v6_multicast_scope (fst addr) >? v6_multicast_scope dst then addr else c1) in
    (* Rule 8 *)
    if gsa6_common_prefix_length c2 dst <? gsa6_common_prefix_length addr dst then addr else c2.

(* InterfaceInner::get_source_address_ipv6 (assert!(!dst.is_unspecified())) *)
Definition ing_get_source_address_ipv6 (ifc : iface) (dst : Z) : outcome Z :=
  if v6_is_unspecified dst then Panic
  else
    let l := v6_cidrs (if_addrs ifc) in
    match l with
    | [] => Ok v6_LOCALHOST
    | c0 :: _ =>
        if v6_is_loopback dst then Ok v6_LOCALHOST
        else Ok (fst (fold_left (gsa6_step dst) l c0))
    end.

(* InterfaceInner::get_source_address *)
Definition ing_get_source_address (ifc : iface) (dst : ipaddr) : outcome (option ipaddr) :=
  match dst with
  | V4 a => Ok (match ing_get_source_address_ipv4 ifc a with Some s => Some (V4 s) | None => None end)
  | V6 a => do s <- ing_get_source_address_ipv6 ifc a; Ok (Some (V6 s))
  end.

(* ------------------------------------------------------------------ socket filters *)

Definition opt_addr_ok (a : option ipaddr) (dst : ipaddr) : bool :=
  match a with Some x => ip_eqb x dst | None => true end.

(* tcp::Socket::accepts *)
Definition ing_tcp_accepts (s : sock) (src dst : ipaddr) (sport dport : Z) (ctl : tcp_ctl) (ack : bool) : bool :=
  match s with
  | STcpListen a port =>
      if ack || ctl_eqb ctl CtlRst then false
      else opt_addr_ok a dst && negb (dport =? 0) && (dport =? port)
  | STcpConn la lp ra rp =>
      ip_eqb dst la && (dport =? lp) && ip_eqb src ra && (sport =? rp)
  | _ => false
  end.

(* what tcp::Socket::process does with an accepted segment, as far as this model cares:
   (state changes, the socket itself answers with rst_reply).  A connected socket is in
   SYN-SENT and the segment's ack number is not iss+1 (assumption of the harness). *)
Definition ing_tcp_process (s : sock) (ctl : tcp_ctl) (ack : bool) : bool * bool :=
  match s with
  | STcpListen _ _ => (ctl_eqb ctl CtlSyn, false)
  | STcpConn _ _ _ _ =>
      match ctl, ack with
      | CtlSyn, false => (true, false)
      | CtlSyn, true => (false, true)
      | CtlNone, true => (false, true)
      | _, _ => (false, false)
      end
  | _ => (false, false)
  end.

(* udp::Socket::accepts *)
Definition ing_udp_accepts (ifc : iface) (s : sock) (dst : ipaddr) (dport : Z) : bool :=
  match s with
  | SUdp a port =>
      if negb (port =? dport) then false
      else match a with
           | Some x => if negb (ip_eqb x dst) && negb (ing_is_broadcast ifc dst) && negb (ip_is_multicast dst)
                       then false else true
           | None => true
           end
  | _ => false
  end.

(* dns::Socket::accepts *)
Definition ing_dns_accepts (s : sock) (src : ipaddr) (sport : Z) : bool :=
  match s with
  | SDns servers => ((sport =? dns_DNS_PORT) && existsb (ip_eqb src) servers) || (sport =? dns_MDNS_DNS_PORT)
  | _ => false
  end.

(* DstUnreachable / TimeExceeded of the family *)
Definition icmp_err_is_unreach_or_timex (v4 : bool) (ty : Z) : bool :=
  if v4 then (ty =? 3) || (ty =? 11) else (ty =? 1) || (ty =? 3).

(* icmp::Socket::accepts_v4 / accepts_v6 *)
Definition ing_icmp_accepts (s : sock) (v4 : bool) (dst : ipaddr) (m : icmp_msg) : bool :=
  match s with
  | SIcmp b =>
      match b, m with
      | IbUdp a port, IErr ty (QUdp sp) _ =>
          icmp_err_is_unreach_or_timex v4 ty && opt_addr_ok a dst && (port =? sp)
      | IbTcp a port, IErr ty (QTcp sp) _ =>
          icmp_err_is_unreach_or_timex v4 ty && opt_addr_ok a dst && (port =? sp)
      | IbIdent id, IEchoReq ident _ => ident =? id
      | IbIdent id, IEchoRep ident _ => ident =? id
      | _, _ => false
      end
  | _ => false
  end.

Definition opt_z_ok (a : option Z) (x : Z) : bool :=
  match a with Some y => y =? x | None => true end.

(* raw::Socket::accepts *)
Definition ing_raw_accepts (s : sock) (ver proto : Z) : bool :=
  match s with
  | SRaw v p => opt_z_ok v ver && opt_z_ok p proto
  | _ => false
  end.

(* InterfaceInner::raw_socket_filter: every accepting raw socket gets the packet *)
Definition ing_raw_socket_filter (socks : list sock) (ver proto : Z) : list nat :=
  filter_idx (fun s => ing_raw_accepts s ver proto) socks.

(* ------------------------------------------------------------------ reply constructors *)

(* iface/packet.rs icmp_reply_payload_len *)
Definition icmp_reply_payload_len (len mtu header_len : Z) : Z :=
  Z.min len (mtu - header_len * 2 - 8).

(* tcp::Socket::rst_reply (addresses from Socket::reply); no options: 20-byte header *)
Definition ing_rst_reply (src dst : ipaddr) : reply :=
  mkReply KRst dst src ((if ip_is_v4 dst then wipv4_HEADER_LEN else wipv6_HEADER_LEN) + wtcp_HEADER_LEN).

(* InterfaceInner::icmpv4_reply; icmp_len = icmp_repr.buffer_len() *)
Definition ing_icmpv4_reply (ifc : iface) (src dst : Z) (k : rkind) (icmp_len : Z) : option reply :=
  if negb (ing_is_unicast_v4 ifc src) then None
  else if ing_is_unicast_v4 ifc dst then
    Some (mkReply k (V4 dst) (V4 src) (wipv4_HEADER_LEN + icmp_len))
  else if ing_is_broadcast_v4 ifc dst then
    match k with
    | KEchoReply =>
        match ing_ipv4_addr ifc with
        | Some a => Some (mkReply k (V4 a) (V4 src) (wipv4_HEADER_LEN + icmp_len))
        | None => None
        end
    | _ => None
    end
  else None.

(* InterfaceInner::icmpv6_reply (fixed: no Destination Unreachable about a multicast packet) *)
Definition ing_icmpv6_reply (ifc : iface) (src dst : Z) (k : rkind) (icmp_len : Z) : outcome (option reply) :=
  if v6_is_multicast dst && negb (match k with KEchoReply | KParamNxt | KParamOpt => true | _ => false end)
  then Ok None
  else
    do s <- (if v6_x_is_unicast dst then Ok dst else ing_get_source_address_ipv6 ifc src);
    Ok (Some (mkReply k (V6 s) (V6 src) (wipv6_HEADER_LEN + icmp_len))).

(* ------------------------------------------------------------------ transport demux *)

(* InterfaceInner::process_tcp (fixed: non-unicast destinations dropped first) *)
Definition ing_process_tcp (ifc : iface) (socks : list sock) (handled_by_raw : bool)
    (src dst : ipaddr) (sport dport : Z) (ctl : tcp_ctl) (ack : bool) : ing_result :=
  if ip_is_unspecified src || ip_is_unspecified dst then res_none
  else if ing_is_broadcast ifc dst || ip_is_multicast dst
          || (ip_is_loopback dst && negb (ing_own_addr ifc dst)) then res_none
  else
    match find_idx (fun s => ing_tcp_accepts s src dst sport dport ctl ack) socks with
    | Some i =>
        let s := nth i socks STcpClosed in
        mkRes [i] (if snd (ing_tcp_process s ctl ack) then Some (ing_rst_reply src dst) else None)
    | None =>
        if ctl_eqb ctl CtlRst || ip_is_unspecified dst || ip_is_unspecified src || handled_by_raw
        then res_none
        else mkRes [] (Some (ing_rst_reply src dst))
    end.

(* InterfaceInner::process_udp; ip_payload_len = ip_payload.len() *)
Definition ing_process_udp (ifc : iface) (socks : list sock) (handled_by_raw : bool)
    (src dst : ipaddr) (sport dport ip_payload_len : Z) : outcome ing_result :=
  match find_idx (fun s => ing_udp_accepts ifc s dst dport) socks with
  | Some i => Ok (mkRes [i] None)
  | None =>
      match find_idx (fun s => ing_dns_accepts s src sport) socks with
      | Some i => Ok (mkRes [i] None)
      | None =>
          if handled_by_raw then Ok res_none
          else match src, dst with
               | V4 s, V4 d =>
                   let pl := icmp_reply_payload_len ip_payload_len wipv4_MIN_MTU wipv4_HEADER_LEN in
                   Ok (mkRes [] (ing_icmpv4_reply ifc s d KPortUnreach (8 + wipv4_HEADER_LEN + pl)))
               | V6 s, V6 d =>
                   let pl := icmp_reply_payload_len ip_payload_len wipv6_MIN_MTU wipv6_HEADER_LEN in
                   do r <- ing_icmpv6_reply ifc s d KPortUnreach (8 + wipv6_HEADER_LEN + pl);
                   Ok (mkRes [] r)
               | _, _ => Ok res_none
               end
      end
  end.

(* ------------------------------------------------------------------ IPv4 *)

(* InterfaceInner::process_icmpv4 *)
Definition ing_process_icmpv4 (ifc : iface) (socks : list sock) (src dst : Z) (m : icmp_msg) : ing_result :=
  let deliv := filter_idx (fun s => ing_icmp_accepts s true (V4 dst) m) socks in
  match m with
  | IEchoReq _ len => mkRes deliv (ing_icmpv4_reply ifc src dst KEchoReply (8 + len))
  | _ => mkRes deliv None
  end.

Definition res_add_deliv (l : list nat) (r : ing_result) : ing_result :=
  mkRes (l ++ res_deliv r) (res_reply r).

(* InterfaceInner::process_ipv4 (no fragments, no DHCP socket in the set) *)
Definition ing_process_ipv4 (ifc : iface) (socks : list sock) (src dst : Z) (u : upper) : outcome ing_result :=
  if negb (ing_is_unicast_v4 ifc src) && negb (v4_is_unspecified src) then Ok res_none
  else
    let raws := ing_raw_socket_filter socks 4 (upper_proto true u) in
    let handled_by_raw := negb (is_nil raws) in
    if negb (ing_has_ip_addr ifc (V4 dst)) && negb (ing_has_multicast_group ifc (V4 dst))
       && negb (ing_is_broadcast_v4 ifc dst)
    then Ok (mkRes raws None)
    else
      match u with
      | UIcmp m => Ok (res_add_deliv raws (ing_process_icmpv4 ifc socks src dst m))
      | UIgmp => Ok (mkRes raws None)
      | UUdp sport dport _ =>
          do r <- ing_process_udp ifc socks handled_by_raw (V4 src) (V4 dst) sport dport (upper_len u);
          Ok (res_add_deliv raws r)
      | UTcp sport dport ctl ack _ =>
          Ok (res_add_deliv raws (ing_process_tcp ifc socks handled_by_raw (V4 src) (V4 dst) sport dport ctl ack))
      | UOther _ _ =>
          if handled_by_raw then Ok (mkRes raws None)
          else
            let pl := icmp_reply_payload_len (upper_len u) wipv4_MIN_MTU wipv4_HEADER_LEN in
            Ok (mkRes raws (ing_icmpv4_reply ifc src dst KProtoUnreach (8 + wipv4_HEADER_LEN + pl)))
      end.

(* ------------------------------------------------------------------ IPv6 *)

(* HardwareAddress::is_unicast of a parsed link-layer address option *)
Definition hw_is_unicast (h : hwaddr) : bool :=
  match h with
  | HwEth a => eth_is_unicast a
  | HwShort _ => negb (hw154_is_broadcast h)
  | _ => true
  end.

(* length of the neighbor advertisement built by process_ndisc (target link-layer address option
   of the medium: 8 / 16 octets) *)
Definition ing_na_iplen (ifc : iface) : Z :=
  wipv6_HEADER_LEN + 24 + (match if_medium ifc with M154 => 16 | _ => 8 end).

(* InterfaceInner::process_ndisc, NeighborSolicit arm (fixed: a non-unicast target is discarded
   with or without a source link-layer option).  The neighbor cache learns (source, lladdr);
   see ing_neigh_learned.  The advertisement: source = the target address, destination = the
   solicitation's source. *)
Definition ing_process_ndisc_ns (ifc : iface) (src dst target : Z) (lladdr : option hwaddr) : option reply :=
  if negb (v6_x_is_unicast target) then None
  else if (match lladdr with Some l => negb (hw_is_unicast l) | None => false end) then None
  else if (ing_has_solicited_node ifc dst || ing_has_ip_addr ifc (V6 dst)) && ing_has_ip_addr ifc (V6 target)
  then Some (mkReply KNeighAdv (V6 target) (V6 src) (ing_na_iplen ifc))
  else None.

(* InterfaceInner::process_icmpv6 (router solicitations / advertisements, redirects and MLD are not
   modelled; NDISC is handed to process_ndisc only with hop limit 255 and never on Medium::Ip;
   a neighbor advertisement only updates the neighbor cache) *)
Definition ing_process_icmpv6 (ifc : iface) (socks : list sock) (src dst : Z) (m : icmp_msg) : outcome ing_result :=
  let deliv := filter_idx (fun s => ing_icmp_accepts s false (V6 dst) m) socks in
  match m with
  | IEchoReq _ len =>
      do r <- ing_icmpv6_reply ifc src dst KEchoReply (8 + len);
      Ok (mkRes deliv r)
  | INeighSol target lladdr hl =>
      if hl =? 255 then
        match if_medium ifc with
        | MIp => Ok (mkRes deliv None)
        | _ => Ok (mkRes deliv (ing_process_ndisc_ns ifc src dst target lladdr))
        end
      else Ok (mkRes deliv None)
  | _ => Ok (mkRes deliv None)
  end.

(* InterfaceInner::process_nxt_hdr; ip_payload_len = length after the extension header *)
Definition ing_process_nxt_hdr (ifc : iface) (socks : list sock) (handled_by_raw : bool)
    (src dst : Z) (u : upper) : outcome ing_result :=
  match u with
  | UIcmp m => ing_process_icmpv6 ifc socks src dst m
  | UUdp sport dport _ => ing_process_udp ifc socks handled_by_raw (V6 src) (V6 dst) sport dport (upper_len u)
  | UTcp sport dport ctl ack _ =>
      Ok (ing_process_tcp ifc socks handled_by_raw (V6 src) (V6 dst) sport dport ctl ack)
  | UIgmp | UOther _ _ =>
      if handled_by_raw then Ok res_none
      else
        let pl := icmp_reply_payload_len (upper_len u) wipv6_MIN_MTU wipv6_HEADER_LEN in
        do r <- ing_icmpv6_reply ifc src dst KParamNxt (8 + wipv6_HEADER_LEN + pl);
        Ok (mkRes [] r)
  end.

(* the upper layer is an ICMPv6 error message or a TCP reset (process_hopbyhop, fixed) *)
Definition upper_is_error (u : upper) : bool :=
  match u with
  | UIcmp (IErr _ _ _) => true
  | UTcp _ _ ctl _ _ => ctl_eqb ctl CtlRst
  | _ => false
  end.

Inductive hbh_response : Type :=
| HbhContinue
| HbhDiscard (r : option reply).

(* Ipv6OptionRepr: Pad1 (0), PadN (1), RouterAlert (5) are recognised (no proto-rpl) *)
Definition hbh_opt_recognised (t : Z) : bool := (t =? 0) || (t =? 1) || (t =? 5).

(* InterfaceInner::process_hopbyhop; ip_payload_len = extension header + upper layer *)
Fixpoint hbh_loop (ifc : iface) (src dst : Z) (about_error : bool) (ip_payload_len : Z) (opts : list Z)
    : outcome hbh_response :=
  match opts with
  | [] => Ok HbhContinue
  | t :: rest =>
      if hbh_opt_recognised t then hbh_loop ifc src dst about_error ip_payload_len rest
      else
        let param_problem :=
          if about_error then Ok None
          else
            let pl := icmp_reply_payload_len ip_payload_len wipv6_MIN_MTU wipv6_HEADER_LEN in
            ing_icmpv6_reply ifc src dst KParamOpt (8 + wipv6_HEADER_LEN + pl) in
        let ft := (t / 64) mod 4 in     (* Ipv6OptionFailureType::from: type & 0b11000000 *)
        if ft =? 0 then hbh_loop ifc src dst about_error ip_payload_len rest
        else if ft =? 1 then Ok (HbhDiscard None)
        else if ft =? 2 then (do r <- param_problem; Ok (HbhDiscard r))
        else if negb (v6_is_multicast dst) then (do r <- param_problem; Ok (HbhDiscard r))
        else Ok (HbhDiscard None)
  end.

Definition ing_process_hopbyhop (ifc : iface) (src dst : Z) (h : hbh) (u : upper) : outcome hbh_response :=
  hbh_loop ifc src dst (upper_is_error u) (hbh_len h + upper_len u) (hbh_opts h).

(* InterfaceInner::process_ipv6 (fixed: destination filter first, no loopback exemption) *)
Definition ing_process_ipv6 (ifc : iface) (socks : list sock) (src dst : Z) (h : option hbh) (u : upper)
    : outcome ing_result :=
  if negb (v6_x_is_unicast src) then Ok res_none
  else if negb (ing_has_ip_addr ifc (V6 dst)) && negb (ing_has_multicast_group ifc (V6 dst)) then Ok res_none
  else
    do resp <- (match h with
                | Some hh => ing_process_hopbyhop ifc src dst hh u
                | None => Ok HbhContinue
                end);
    match resp with
    | HbhDiscard r => Ok (mkRes [] r)
    | HbhContinue =>
        (* raw sockets see ipv6_repr.next_header: HopByHop (0) when the header is present *)
        let raws := ing_raw_socket_filter socks 6 (match h with Some _ => 0 | None => upper_proto false u end) in
        do r <- ing_process_nxt_hdr ifc socks (negb (is_nil raws)) src dst u;
        Ok (res_add_deliv raws r)
    end.

(* ------------------------------------------------------------------ link layer *)

Definition ing_process_ip_any (ifc : iface) (socks : list sock) (p : packet) : outcome ing_result :=
  match p_src p, p_dst p with
  | V4 s, V4 d => ing_process_ipv4 ifc socks s d (p_upper p)
  | V6 s, V6 d => ing_process_ipv6 ifc socks s d (p_hbh p) (p_upper p)
  | _, _ => Ok res_none
  end.

(* InterfaceInner::process_ethernet (fixed: a datagram in a broadcast/multicast frame is dropped
   unless its IP destination is broadcast or multicast) *)
Definition ing_process_ethernet (ifc : iface) (socks : list sock) (p : packet) : outcome ing_result :=
  match p_ll_dst p with
  | HwEth d =>
      if negb (eth_is_broadcast d) && negb (eth_is_multicast d) && negb (hw_eqb (HwEth d) (if_hw ifc))
      then Ok res_none
      else
        let link_unicast := eth_is_unicast d in
        match p_dst p with
        | V4 a => if negb link_unicast && negb (v4_is_multicast a) && negb (ing_is_broadcast_v4 ifc a)
                  then Ok res_none
                  else ing_process_ip_any ifc socks p
        | V6 a => if negb link_unicast && negb (v6_is_multicast a) then Ok res_none
                  else ing_process_ip_any ifc socks p
        end
  | _ => Ok res_none
  end.

Definition opt_z_eqb (a b : option Z) : bool :=
  match a, b with
  | Some x, Some y => x =? y
  | None, None => true
  | _, _ => false
  end.

(* InterfaceInner::process_ieee802154 + the end of process_sixlowpan (data frames only;
   fixed: non-multicast IPv6 in a link-layer broadcast frame dropped) *)
Definition ing_process_ieee802154 (ifc : iface) (socks : list sock) (p : packet) : outcome ing_result :=
  if (match if_pan ifc with Some _ => true | None => false end)
     && negb (opt_z_eqb (p_ll_pan p) (if_pan ifc))
     && negb (opt_z_eqb (p_ll_pan p) (Some pan_BROADCAST))
  then Ok res_none
  else
    match p_dst p with
    | V6 a =>
        (* sixlowpan_to_ipv6 decompresses TCP, UDP and ICMPv6 only (after any NHC extension header) *)
        if negb (match p_upper p with UTcp _ _ _ _ _ | UUdp _ _ _ | UIcmp _ => true | _ => false end) then Ok res_none
        else if hw154_is_broadcast (p_ll_dst p) && negb (v6_is_multicast a) then Ok res_none
        else ing_process_ip_any ifc socks p
    | V4 _ => Ok res_none      (* 6LoWPAN carries IPv6 only *)
    end.

(* Interface::socket_ingress: by medium *)
Definition ing_process (ifc : iface) (socks : list sock) (p : packet) : outcome ing_result :=
  match if_medium ifc with
  | MEth => ing_process_ethernet ifc socks p
  | MIp => ing_process_ip_any ifc socks p
  | M154 => ing_process_ieee802154 ifc socks p
  end.

(* sockets whose user-visible state changes (receive queue grows / TCP state changes) *)
Definition ing_changed (socks : list sock) (p : packet) (deliv : list nat) : list nat :=
  filter (fun i => match nth i socks STcpClosed, p_upper p with
                   | (STcpListen _ _ | STcpConn _ _ _ _) as s, UTcp _ _ ctl ack _ => fst (ing_tcp_process s ctl ack)
                   | (STcpListen _ _ | STcpConn _ _ _ _ | STcpClosed), _ => false
                   | SDns _, _ => false       (* a DNS socket has no receive queue to observe *)
                   | _, _ => true
                   end) deliv.

(* ------------------------------------------------------------------ egress *)

(* Routes::lookup: most specific matching route, the last one among equals (max_by_key);
   assert!(addr.is_unicast()) *)
Fixpoint routes_best (l : list (cidr * ipaddr)) (x : ipaddr) (best : option (Z * ipaddr)) : option (Z * ipaddr) :=
  match l with
  | [] => best
  | (c, via) :: t =>
      if cidr_contains c x then
        routes_best t x (match best with
                         | Some (pl, _) => if c_plen c >=? pl then Some (c_plen c, via) else best
                         | None => Some (c_plen c, via)
                         end)
      else routes_best t x best
  end.
Definition ing_routes_lookup (ifc : iface) (x : ipaddr) : outcome (option ipaddr) :=
  if negb (ip_is_unicast x) then Panic
  else Ok (match routes_best (if_routes ifc) x None with Some (_, via) => Some via | None => None end).

(* InterfaceInner::in_same_network / route *)
Definition ing_in_same_network (ifc : iface) (x : ipaddr) : bool :=
  existsb (fun c => cidr_contains c x) (if_addrs ifc).
Definition ing_route (ifc : iface) (x : ipaddr) : outcome (option ipaddr) :=
  if ing_in_same_network ifc x || ip_is_broadcast x then Ok (Some x) else ing_routes_lookup ifc x.

Fixpoint neigh_find (l : list (ipaddr * hwaddr)) (x : ipaddr) : option hwaddr :=
  match l with
  | [] => None
  | (a, h) :: t => if ip_eqb a x then Some h else neigh_find t x
  end.

(* what the interface hands to the device *)
Inductive emitted : Type :=
| EmIp (k : rkind) (src dst : ipaddr) (lldst : hwaddr) (iplen : Z) (first_frag : bool)
| EmArpReq (src tgt : Z).

(* the size decision of dispatch_ip for Ethernet/Ip media: fits / first fragment / drop *)
Definition ing_dispatch_size (ifc : iface) (r : reply) (lldst : hwaddr) : list emitted :=
  if ip_is_v4 (r_dst r) then
    if r_iplen r >? if_ip_mtu ifc then
      if if_frag_buf ifc <? r_iplen r then []
      else if if_frag_busy ifc then []
      else
        (* caps.max_ipv4_fragment_size(header_len) *)
        let payload_mtu := if_ip_mtu ifc - wipv4_HEADER_LEN in
        let first := payload_mtu - payload_mtu mod phy_IPV4_FRAGMENT_PAYLOAD_ALIGNMENT in
        [EmIp (r_kind r) (r_src r) (r_dst r) lldst (first + wipv4_HEADER_LEN) true]
    else [EmIp (r_kind r) (r_src r) (r_dst r) lldst (r_iplen r) false]
  else
    if r_iplen r >? if_ip_mtu ifc then []
    else [EmIp (r_kind r) (r_src r) (r_dst r) lldst (r_iplen r) false].

(* length of the neighbor solicitation lookup_hardware_addr sends (lladdr option: 8 / 16 bytes) *)
Definition ns_iplen (ifc : iface) : Z :=
  wipv6_HEADER_LEN + 24 + (match if_medium ifc with M154 => 16 | _ => 8 end).

(* emission for a resolved link-layer destination: 802.15.4 goes through 6LoWPAN
   (compression / fragmentation: property C20), the others through the size decision *)
Definition ing_emit (ifc : iface) (r : reply) (lldst : hwaddr) : list emitted :=
  match if_medium ifc with
  | M154 => [EmIp (r_kind r) (r_src r) (r_dst r) lldst (r_iplen r) false]
  | _ => ing_dispatch_size ifc r lldst
  end.

Definition ll_broadcast (ifc : iface) : hwaddr :=
  match if_medium ifc with MEth => HwEth eth_BROADCAST | _ => hw154_BROADCAST end.

(* the link-layer address of a multicast group (lookup_hardware_addr); IPv4 multicast on
   802.15.4 is unreachable!() *)
Definition ll_multicast (ifc : iface) (dst : ipaddr) : outcome hwaddr :=
  match if_medium ifc, dst with
  | MEth, _ => Ok (HwEth (eth_of_multicast dst))
  | M154, V6 _ => Ok hw154_BROADCAST
  | _, _ => Panic
  end.

(* InterfaceInner::dispatch_ip together with lookup_hardware_addr *)
Definition ing_dispatch_ip (ifc : iface) (r : reply) : outcome (list emitted) :=
  let dst := r_dst r in
  if ip_is_unspecified dst then Panic
  else
    match if_medium ifc with
    | MIp => Ok (ing_dispatch_size ifc r HwIp)
    | _ =>
        if ing_is_broadcast ifc dst then Ok (ing_emit ifc r (ll_broadcast ifc))
        else if ip_is_multicast dst then (do h <- ll_multicast ifc dst; Ok (ing_emit ifc r h))
        else
          do ro <- ing_route ifc dst;
          match ro with
          | None => Ok []                                   (* DispatchError::NoRoute *)
          | Some via =>
              if negb (ip_is_unicast via) then Panic        (* neighbor_cache.lookup assert *)
              else
                match neigh_find (if_neigh ifc) via with
                | Some h => Ok (ing_emit ifc r h)
                | None =>
                    if if_neigh_silent ifc then Ok []       (* RateLimited *)
                    else
                      match via with
                      | V4 t =>
                          match if_medium ifc with
                          | MEth =>
                              match ing_get_source_address_ipv4 ifc t with
                              | Some s => Ok [EmArpReq s t]
                              | None => Ok []
                              end
                          | _ => Ok []
                          end
                      | V6 t =>
                          do s <- ing_get_source_address_ipv6 ifc t;
                          let sol := V6 (v6_solicited_node t) in
                          do h <- ll_multicast ifc sol;
                          Ok (ing_emit ifc (mkReply KNeighSol (V6 s) sol (ns_iplen ifc)) h)
                      end
                end
          end
    end.

(* what poll_ingress_single emits for a packet: the reply, dispatched *)
Definition ing_ingress_emits (ifc : iface) (res : ing_result) : outcome (list emitted) :=
  match res_reply res with
  | Some r => ing_dispatch_ip ifc r
  | None => Ok []
  end.

(* what process_ndisc put into the neighbor cache before the advertisement is dispatched: the
   solicitation's source with its source link-layer address option (NeighborCache::fill
   replaces an existing entry) *)
Definition ing_neigh_learned (p : packet) (r : reply) : option (ipaddr * hwaddr) :=
  match r_kind r, p_upper p with
  | KNeighAdv, UIcmp (INeighSol _ (Some l) _) => Some (p_src p, l)
  | _, _ => None
  end.

Definition ifc_learn (ifc : iface) (e : option (ipaddr * hwaddr)) : iface :=
  match e with
  | Some x =>
      mkIface (if_medium ifc) (if_hw ifc) (if_pan ifc) (if_addrs ifc) (if_groups ifc) (if_any_ip ifc)
              (if_routes ifc) (x :: if_neigh ifc) (if_neigh_silent ifc) (if_ip_mtu ifc) (if_frag_buf ifc)
              (if_frag_busy ifc)
  | None => ifc
  end.

(* what poll_ingress_single emits for packet p, neighbor learning included *)
Definition ing_ingress_emits_p (ifc : iface) (p : packet) (res : ing_result) : outcome (list emitted) :=
  match res_reply res with
  | Some r => ing_dispatch_ip (ifc_learn ifc (ing_neigh_learned p r)) r
  | None => Ok []
  end.

(* udp::Socket::dispatch: source address of a datagram sent to dst (no local_address in the
   metadata): the bound address, else get_source_address; then dispatch_ip *)
Definition ing_udp_send_packet (ifc : iface) (s : sock) (dst : ipaddr) (len : Z) : outcome (option reply) :=
  match s with
  | SUdp a _ =>
      do src <- (match a with
                 | Some x => Ok (Some x)
                 | None => ing_get_source_address ifc dst
                 end);
      match src with
      | Some sa => Ok (Some (mkReply KUdp sa dst
                              ((if ip_is_v4 dst then wipv4_HEADER_LEN else wipv6_HEADER_LEN) + wudp_HEADER_LEN + len)))
      | None => Ok None
      end
  | _ => Ok None
  end.

Definition ing_udp_send (ifc : iface) (s : sock) (dst : ipaddr) (len : Z) : outcome (list emitted) :=
  do r <- ing_udp_send_packet ifc s dst len;
  match r with
  | Some rr => ing_dispatch_ip ifc rr
  | None => Ok []
  end.

(* tcp::Socket::connect with an unspecified local address picks the source with
   get_source_address; tcp::Socket::dispatch resets the socket instead of sending when the
   interface does not have that address (has_ip_addr).  Length of the SYN not modelled (0). *)
Definition ing_tcp_connect_packet (ifc : iface) (dst : ipaddr) : outcome (option reply) :=
  do src <- ing_get_source_address ifc dst;
  match src with
  | Some sa => if ing_has_ip_addr ifc sa then Ok (Some (mkReply KSyn sa dst 0)) else Ok None
  | None => Ok None
  end.

Definition ing_tcp_connect (ifc : iface) (dst : ipaddr) : outcome (list emitted) :=
  do r <- ing_tcp_connect_packet ifc dst;
  match r with
  | Some rr => ing_dispatch_ip ifc rr
  | None => Ok []
  end.

(* DeviceCapabilities::ip_mtu and the size of the fragmentation buffer (config) *)
Definition ing_ip_mtu (m : medium) (dev_mtu : Z) : Z :=
  match m with MEth => dev_mtu - weth_f_PAYLOAD | _ => dev_mtu end.
Definition ing_frag_buffer_size : Z := cfg_FRAGMENTATION_BUFFER_SIZE.

(* ------------------------------------------------------------------ multicast reports *)

(* InterfaceInner::link_local_ipv6_address *)
Fixpoint first_link_local (l : list cidr) : option Z :=
  match l with
  | [] => None
  | c :: t => match c_addr c with
              | V6 a => if v6_is_link_local a then Some a else first_link_local t
              | V4 _ => first_link_local t
              end
  end.

(* InterfaceInner::mldv2_report_packet: source = first link-local address, else unspecified;
   destination ff02::16 *)
Definition ing_mld_report_src (ifc : iface) : Z :=
  match first_link_local (if_addrs ifc) with Some a => a | None => 0 end.

(* InterfaceInner::igmp_report_packet / igmp_leave_packet: source = ipv4_addr(), no packet without one *)
Definition ing_igmp_report_src (ifc : iface) : option Z := ing_ipv4_addr ifc.
