(* Executable model of LOWPAN_IPHC, src/wire/sixlowpan/iphc.rs and the address reconstruction of
   src/wire/sixlowpan/mod.rs (RFC 6282 s3.1; property C20, step 3).  Vocabulary of Model/WireBase.v.

     Rust                                               model
     get_field!/set_field! on the 16-bit base header    iphc_get_field / iphc_set_field
     Packet::{check_len, new_checked}                   iphc_check_len
       ip_fields_start, traffic_class_size, ..          iphc_ip_fields_start, iphc_tc_size, iphc_nh_size,
       src_address_size, dst_address_size, header_len     iphc_hl_size, iphc_src_size, iphc_dst_size, iphc_header_len
       next_header, hop_limit, src/dst_context_id       iphc_next_header, iphc_hop_limit, iphc_src_cid, iphc_dst_cid
       ecn_field, dscp_field, flow_label_field          iphc_ecn, iphc_dscp, iphc_flow
       src_addr, dst_addr (-> UnresolvedAddress)        iphc_src_unres, iphc_dst_unres
       payload                                          iphc_payload
     UnresolvedAddress::resolve                         iphc_resolve
     Address::as_eui_64 (wire/ieee802154.rs)            iphc_as_eui64
     Packet::{set_next_header, set_hop_limit,           iphc_set_next_header, iphc_set_hop_limit,
              set_src_address, set_dst_address}         iphc_set_src_address, iphc_set_dst_address
     Repr::{parse, buffer_len, emit}                    iphc_parse, iphc_buffer_len, iphc_emit

   The encoder is stateless (it never uses address contexts, CID is always 0, TF is always 0b11);
   the decoder handles contexts, all SAC/SAM/M/DAC/DAM combinations and the TF forms.  This is the
   code after repair f6482c2 (D13: a multicast destination that needs 128 bits gets DAM=00).

   IPv6 addresses are 16-octet lists, link-layer addresses 2- or 8-octet lists (Rust array types:
   the lengths are type invariants, [iphc_repr_wf]).  Panic sources: every index into the packet
   buffer ([wb_*]); `copy_from_slice` length mismatches in resolve ([wb_arr]); `unreachable!()` in
   buffer_len for a partially specified traffic class.  No proofs in this file. *)
From SV Require Import Lib.Base Gen.Consts Gen.WireFields Model.WireBase.

(* ---------- link-layer addresses ---------- *)
Inductive iphc_ll :=
| LlAbsent
| LlShort (a : list Z)       (* [u8; 2] *)
| LlExtended (a : list Z).   (* [u8; 8] *)

Definition iphc_list_eqb (a b : list Z) : bool :=
  (blen a =? blen b) && forallb (fun p => fst p =? snd p) (combine a b).

Definition iphc_ll_eqb (a b : iphc_ll) : bool :=
  match a, b with
  | LlAbsent, LlAbsent => true
  | LlShort x, LlShort y => iphc_list_eqb x y
  | LlExtended x, LlExtended y => iphc_list_eqb x y
  | _, _ => false
  end.

(* as_eui_64: Extended address with the universal/local bit flipped (bytes[0] ^= 1 << 1) *)
Definition iphc_as_eui64 (a : iphc_ll) : option (list Z) :=
  match a with
  | LlExtended (b0 :: r) => Some (Z.lxor b0 2 :: r)
  | LlExtended [] => Some []
  | _ => None
  end.

(* array slices of [u8; 16]: never out of range *)
Definition iphc_sl (l : list Z) (lo hi : nat) : list Z := firstn (hi - lo) (skipn lo l).

Definition iphc_zeros (n : nat) : list Z := repeat 0 n.
Definition iphc_UNSPECIFIED : list Z := iphc_zeros 16.
Definition iphc_is_unspecified (a : list Z) : bool := iphc_list_eqb a iphc_UNSPECIFIED.
(* octets[0..8] == [0xfe, 0x80, 0, 0, 0, 0, 0, 0] *)
Definition iphc_is_link_local (a : list Z) : bool := iphc_list_eqb (iphc_sl a 0 8) [254; 128; 0; 0; 0; 0; 0; 0].
Definition iphc_is_multicast (a : list Z) : bool := nth 0 a 0 =? 255.

(* ---------- the 16-bit base header ---------- *)

(* get_field!: ((read_u16(&data[IPHC_FIELD]) >> shift) & mask) as u8 *)
Definition iphc_get_field (b : list Z) (mask shift : Z) : outcome Z :=
  do raw <- wb_get_u16 b wiphc_f_IPHC_FIELD; Ok (Z.land (Z.shiftr raw shift) mask).

Definition iphc_dispatch_field b := iphc_get_field b 7 13.
Definition iphc_tf_field b := iphc_get_field b 3 11.
Definition iphc_nh_field b := iphc_get_field b 1 10.
Definition iphc_hlim_field b := iphc_get_field b 3 8.
Definition iphc_cid_field b := iphc_get_field b 1 7.
Definition iphc_sac_field b := iphc_get_field b 1 6.
Definition iphc_sam_field b := iphc_get_field b 3 4.
Definition iphc_m_field b := iphc_get_field b 1 3.
Definition iphc_dac_field b := iphc_get_field b 1 2.
Definition iphc_dam_field b := iphc_get_field b 3 0.

(* set_field!: raw = (raw & !(mask << shift)) | ((val as u16) << shift) *)
Definition iphc_set_field (b : list Z) (mask shift val : Z) : outcome (list Z) :=
  wb_upd_u16 b wiphc_f_IPHC_FIELD
    (fun raw => Z.lor (Z.land raw (65535 - Z.shiftl mask shift)) ((Z.shiftl val shift) mod 65536)).

(* set_dispatch_field: raw = (raw & !(0b111 << 13)) | (0b11 << 13) *)
Definition iphc_set_dispatch_field (b : list Z) : outcome (list Z) :=
  wb_upd_u16 b wiphc_f_IPHC_FIELD
    (fun raw => Z.lor (Z.land raw (65535 - Z.shiftl 7 13)) (Z.shiftl wsix_DISPATCH_IPHC_HEADER 13)).

Definition iphc_set_tf b v := iphc_set_field b 3 11 v.
Definition iphc_set_nh b v := iphc_set_field b 1 10 v.
Definition iphc_set_hlim b v := iphc_set_field b 3 8 v.
Definition iphc_set_cid b v := iphc_set_field b 1 7 v.
Definition iphc_set_sac b v := iphc_set_field b 1 6 v.
Definition iphc_set_sam b v := iphc_set_field b 3 4 v.
Definition iphc_set_m b v := iphc_set_field b 1 3 v.
Definition iphc_set_dac b v := iphc_set_field b 1 2 v.
Definition iphc_set_dam b v := iphc_set_field b 3 0 v.

(* ---------- field sizes ---------- *)

Definition iphc_tc_size_of (tf : Z) : Z := if tf =? 0 then 4 else if tf =? 1 then 3 else if tf =? 2 then 1 else 0.
Definition iphc_src_size_of (sac sam : Z) : Z :=
  if sac =? 0 then (if sam =? 0 then 16 else if sam =? 1 then 8 else if sam =? 2 then 2 else 0)
  else (if sam =? 0 then 0 else if sam =? 1 then 8 else if sam =? 2 then 2 else 0).
Definition iphc_dst_size_of (m dac dam : Z) : Z :=
  if m =? 0 then
    (if dac =? 0 then (if dam =? 0 then 16 else if dam =? 1 then 8 else if dam =? 2 then 2 else 0)
     else (if dam =? 0 then 0 else if dam =? 1 then 8 else if dam =? 2 then 2 else 0))
  else
    (if dac =? 0 then (if dam =? 0 then 16 else if dam =? 1 then 6 else if dam =? 2 then 4 else 1)
     else (if dam =? 0 then 6 else 0)).

Definition iphc_cid_size (b : list Z) : outcome Z := do c <- iphc_cid_field b; Ok (if c =? 1 then 1 else 0).
Definition iphc_ip_fields_start (b : list Z) : outcome Z := do c <- iphc_cid_size b; Ok (2 + c).
Definition iphc_tc_size (b : list Z) : outcome Z := do tf <- iphc_tf_field b; Ok (iphc_tc_size_of tf).
Definition iphc_nh_size (b : list Z) : outcome Z := do nh <- iphc_nh_field b; Ok (if nh =? 1 then 0 else 1).
Definition iphc_hl_size (b : list Z) : outcome Z := do h <- iphc_hlim_field b; Ok (if h =? 0 then 1 else 0).
Definition iphc_src_size (b : list Z) : outcome Z :=
  do sac <- iphc_sac_field b; do sam <- iphc_sam_field b; Ok (iphc_src_size_of sac sam).
Definition iphc_dst_size (b : list Z) : outcome Z :=
  do m <- iphc_m_field b; do dac <- iphc_dac_field b; do dam <- iphc_dam_field b;
  Ok (iphc_dst_size_of m dac dam).

(* header_len (also the offset computed by check_len and payload) *)
Definition iphc_header_len (b : list Z) : outcome Z :=
  do s <- iphc_ip_fields_start b; do tc <- iphc_tc_size b; do nh <- iphc_nh_size b;
  do hl <- iphc_hl_size b; do sa <- iphc_src_size b; do da <- iphc_dst_size b;
  Ok (s + tc + nh + hl + sa + da).

Definition iphc_check_len (b : list Z) : outcome unit :=
  if blen b <? 2 then Err 0 else
  do n <- iphc_header_len b;
  if blen b <? n then Err 0 else Ok tt.

Definition iphc_payload (b : list Z) : outcome (list Z) :=
  do n <- iphc_header_len b; wb_from b n.

(* ---------- in-line fields ---------- *)

(* NextHeader: None = Compressed, Some p = Uncompressed(p) *)
Definition iphc_next_header (b : list Z) : outcome (option Z) :=
  do nh <- iphc_nh_field b;
  if nh =? 1 then Ok None
  else do s <- iphc_ip_fields_start b; do tc <- iphc_tc_size b;
       do v <- wb_get_u8 b (s + tc); Ok (Some v).

Definition iphc_hop_limit (b : list Z) : outcome Z :=
  do h <- iphc_hlim_field b;
  if h =? 0 then
    do s <- iphc_ip_fields_start b; do tc <- iphc_tc_size b; do nh <- iphc_nh_size b;
    wb_get_u8 b (s + tc + nh)
  else if h =? 1 then Ok 1 else if h =? 2 then Ok 64 else Ok 255.

Definition iphc_src_cid (b : list Z) : outcome (option Z) :=
  do c <- iphc_cid_field b;
  if c =? 1 then (do x <- wb_get_u8 b 2; Ok (Some (Z.shiftr x 4))) else Ok None.
Definition iphc_dst_cid (b : list Z) : outcome (option Z) :=
  do c <- iphc_cid_field b;
  if c =? 1 then (do x <- wb_get_u8 b 2; Ok (Some (Z.land x 15))) else Ok None.

Definition iphc_ecn (b : list Z) : outcome (option Z) :=
  do tf <- iphc_tf_field b;
  if tf =? 3 then Ok None
  else do s <- iphc_ip_fields_start b; do x <- wb_get_u8 b s; Ok (Some (Z.land x 192)).
Definition iphc_dscp (b : list Z) : outcome (option Z) :=
  do tf <- iphc_tf_field b;
  if (tf =? 0) || (tf =? 2) then
    do s <- iphc_ip_fields_start b; do x <- wb_get_u8 b s; Ok (Some (Z.land x 63))
  else Ok None.
Definition iphc_flow (b : list Z) : outcome (option Z) :=
  do tf <- iphc_tf_field b;
  if tf =? 0 then do s <- iphc_ip_fields_start b; do v <- wb_get_be b (s + 2) (s + 4) 2; Ok (Some v)
  else if tf =? 1 then do s <- iphc_ip_fields_start b; do v <- wb_get_be b (s + 1) (s + 3) 2; Ok (Some v)
  else Ok None.

(* ---------- unresolved addresses ---------- *)

Inductive iphc_amode :=
| AmFullInline (v : list Z) | AmInline64 (v : list Z) | AmInline16 (v : list Z) | AmElided
| AmMc48 (v : list Z) | AmMc32 (v : list Z) | AmMc8 (v : list Z)
| AmUnspecified | AmNotSupported.
Inductive iphc_unres :=
| UrNoCtx (m : iphc_amode) | UrCtx (idx : Z) (m : iphc_amode) | UrReserved.

(* &data[start..][..n] *)
Definition iphc_inline (b : list Z) (start n : Z) : outcome (list Z) :=
  do r <- wb_from b start; wb_upto r n.

Definition iphc_src_start (b : list Z) : outcome Z :=
  do s <- iphc_ip_fields_start b; do tc <- iphc_tc_size b; do nh <- iphc_nh_size b; do hl <- iphc_hl_size b;
  Ok (s + tc + nh + hl).

(* Packet::src_addr; Err = Err(Error) *)
Definition iphc_src_unres (b : list Z) : outcome iphc_unres :=
  do start <- iphc_src_start b;
  do sac <- iphc_sac_field b; do sam <- iphc_sam_field b;
  if sac =? 0 then
    if sam =? 0 then (do v <- iphc_inline b start 16; Ok (UrNoCtx (AmFullInline v)))
    else if sam =? 1 then (do v <- iphc_inline b start 8; Ok (UrNoCtx (AmInline64 v)))
    else if sam =? 2 then (do v <- iphc_inline b start 2; Ok (UrNoCtx (AmInline16 v)))
    else Ok (UrNoCtx AmElided)
  else
    if sam =? 0 then Ok (UrCtx 0 AmUnspecified)
    else
      do cid <- iphc_src_cid b;
      match cid with
      | None => Err 0
      | Some id =>
          if sam =? 1 then (do v <- iphc_inline b start 8; Ok (UrCtx id (AmInline64 v)))
          else if sam =? 2 then (do v <- iphc_inline b start 2; Ok (UrCtx id (AmInline16 v)))
          else Ok (UrCtx id AmElided)
      end.

(* Packet::dst_addr *)
Definition iphc_dst_unres (b : list Z) : outcome iphc_unres :=
  do s0 <- iphc_src_start b; do sa <- iphc_src_size b;
  let start := s0 + sa in
  do m <- iphc_m_field b; do dac <- iphc_dac_field b; do dam <- iphc_dam_field b;
  if m =? 0 then
    if dac =? 0 then
      if dam =? 0 then (do v <- iphc_inline b start 16; Ok (UrNoCtx (AmFullInline v)))
      else if dam =? 1 then (do v <- iphc_inline b start 8; Ok (UrNoCtx (AmInline64 v)))
      else if dam =? 2 then (do v <- iphc_inline b start 2; Ok (UrNoCtx (AmInline16 v)))
      else Ok (UrNoCtx AmElided)
    else
      if dam =? 0 then Ok UrReserved
      else
        do cid <- iphc_dst_cid b;
        match cid with
        | None => Err 0
        | Some id =>
            if dam =? 1 then (do v <- iphc_inline b start 8; Ok (UrCtx id (AmInline64 v)))
            else if dam =? 2 then (do v <- iphc_inline b start 2; Ok (UrCtx id (AmInline16 v)))
            else Ok (UrCtx id AmElided)
        end
  else
    if dac =? 0 then
      if dam =? 0 then (do v <- iphc_inline b start 16; Ok (UrNoCtx (AmFullInline v)))
      else if dam =? 1 then (do v <- iphc_inline b start 6; Ok (UrNoCtx (AmMc48 v)))
      else if dam =? 2 then (do v <- iphc_inline b start 4; Ok (UrNoCtx (AmMc32 v)))
      else (do v <- iphc_inline b start 1; Ok (UrNoCtx (AmMc8 v)))
    else
      if dam =? 0 then Ok (UrCtx 0 AmNotSupported) else Ok UrReserved.

(* ---------- UnresolvedAddress::resolve ---------- *)

(* the interface identifier derived from the link-layer address (8 octets), or Err *)
Definition iphc_iid_of_ll (ll : option iphc_ll) : outcome (list Z) :=
  match ll with
  | Some (LlShort a) => do a <- wb_arr 2 a; Ok ([0; 0; 0; 255; 254; 0] ++ a)   (* 0000:00ff:fe00:XXXX *)
  | Some (LlExtended a) =>
      match iphc_as_eui64 (LlExtended a) with
      | Some e => do e <- wb_arr 8 e; Ok e
      | None => Err 0
      end
  | Some LlAbsent => Err 0
  | None => Err 0
  end.

(* copy_context: the 8-octet prefix of context [idx] *)
Definition iphc_context (ctx : list (list Z)) (idx : Z) : outcome (list Z) :=
  if Z.of_nat (length ctx) <=? idx then Err 0
  else if idx <? 0 then Err 0
  else Ok (nth (Z.to_nat idx) ctx []).

Definition iphc_LL_PREFIX : list Z := [254; 128; 0; 0; 0; 0; 0; 0].

Definition iphc_resolve (u : iphc_unres) (ll : option iphc_ll) (ctx : list (list Z)) : outcome (list Z) :=
  match u with
  | UrNoCtx m =>
      match m with
      | AmFullInline a => wb_arr 16 a
      | AmInline64 v => do v <- wb_arr 8 v; Ok (iphc_LL_PREFIX ++ v)
      | AmInline16 v => do v <- wb_arr 2 v; Ok (iphc_LL_PREFIX ++ [0; 0; 0; 255; 254; 0] ++ v)
      | AmElided => do iid <- iphc_iid_of_ll ll; Ok (iphc_LL_PREFIX ++ iid)
      | AmMc48 v => do v <- wb_arr 6 v; Ok ([255; nth 0 v 0] ++ iphc_zeros 9 ++ skipn 1 v)
      | AmMc32 v => do v <- wb_arr 4 v; Ok ([255; nth 0 v 0] ++ iphc_zeros 11 ++ skipn 1 v)
      | AmMc8 v => do v <- wb_arr 1 v; Ok ([255; 2] ++ iphc_zeros 13 ++ v)
      | _ => Err 0
      end
  | UrCtx idx m =>
      match m with
      | AmUnspecified => Ok iphc_UNSPECIFIED
      | AmInline64 v => do c <- iphc_context ctx idx; do v <- wb_arr 8 v; Ok (c ++ v)
      | AmInline16 v => do c <- iphc_context ctx idx; do v <- wb_arr 2 v; Ok (c ++ iphc_zeros 6 ++ v)
      | AmElided => do iid <- iphc_iid_of_ll ll; do c <- iphc_context ctx idx; Ok (c ++ iid)
      | _ => Err 0
      end
  | UrReserved => Err 0
  end.

(* ---------- Repr ---------- *)

Record iphc_repr := mkIphc {
  ir_src : list Z; ir_ll_src : option iphc_ll;
  ir_dst : list Z; ir_ll_dst : option iphc_ll;
  ir_nh : option Z;            (* None = NextHeader::Compressed *)
  ir_hl : Z;
  ir_ecn : option Z; ir_dscp : option Z; ir_flow : option Z }.

(* Repr::parse *)
Definition iphc_parse (b : list Z) (ll_src ll_dst : option iphc_ll) (ctx : list (list Z))
  : outcome iphc_repr :=
  do _ <- iphc_check_len b;
  do d <- iphc_dispatch_field b;
  if negb (d =? wsix_DISPATCH_IPHC_HEADER) then Err 0 else
  do us <- iphc_src_unres b; do src <- iphc_resolve us ll_src ctx;
  do ud <- iphc_dst_unres b; do dst <- iphc_resolve ud ll_dst ctx;
  do nh <- iphc_next_header b; do hl <- iphc_hop_limit b;
  do ecn <- iphc_ecn b; do dscp <- iphc_dscp b; do fl <- iphc_flow b;
  Ok (mkIphc src ll_src dst ll_dst nh hl ecn dscp fl).

(* the address-mode decisions shared by buffer_len and emit *)
Definition iphc_is_eui64 (a : list Z) (ll : option iphc_ll) : bool :=
  match ll with
  | Some l => match iphc_as_eui64 l with Some e => iphc_list_eqb e (iphc_sl a 8 16) | None => false end
  | None => false
  end.
Definition iphc_short_form (a : list Z) : bool := iphc_list_eqb (iphc_sl a 8 14) [0; 0; 0; 255; 254; 0].
Definition iphc_ll_is_short (a : list Z) (ll : option iphc_ll) : bool :=
  match ll with Some l => iphc_ll_eqb l (LlShort (iphc_sl a 14 16)) | None => false end.

(* number of in-line octets of a link-local address *)
Definition iphc_ll_addr_len (a : list Z) (ll : option iphc_ll) : Z :=
  if iphc_short_form a then (if iphc_ll_is_short a ll then 0 else 2)
  else if iphc_is_eui64 a ll then 0 else 8.

Definition iphc_mc_len (dst : list Z) : Z :=
  if (nth 1 dst 0 =? 2) && iphc_list_eqb (iphc_sl dst 2 15) (iphc_zeros 13) then 1
  else if iphc_list_eqb (iphc_sl dst 2 13) (iphc_zeros 11) then 4
  else if iphc_list_eqb (iphc_sl dst 2 11) (iphc_zeros 9) then 6
  else 16.

(* Repr::buffer_len *)
Definition iphc_buffer_len (r : iphc_repr) : outcome Z :=
  let len := 2 in
  let len := len + (match ir_nh r with None => 0 | Some _ => 1 end) in
  let len := len + (if (ir_hl r =? 255) || (ir_hl r =? 64) || (ir_hl r =? 1) then 0 else 1) in
  let len := len + (if iphc_is_unspecified (ir_src r) then 0
                    else if iphc_is_link_local (ir_src r) then iphc_ll_addr_len (ir_src r) (ir_ll_src r)
                    else 16) in
  let len := len + (if iphc_is_multicast (ir_dst r) then iphc_mc_len (ir_dst r)
                    else if iphc_is_link_local (ir_dst r) then iphc_ll_addr_len (ir_dst r) (ir_ll_dst r)
                    else 16) in
  match ir_ecn r, ir_dscp r, ir_flow r with
  | Some _, Some _, Some _ => Ok (len + 4)
  | Some _, None, Some _ => Ok (len + 3)
  | Some _, Some _, None => Ok (len + 1)
  | None, None, None => Ok len
  | _, _, _ => Panic (* unreachable!() *)
  end.

(* set_field(idx, value): raw[idx..idx + value.len()].copy_from_slice(value) *)
Definition iphc_put (b : list Z) (idx : Z) (v : list Z) : outcome (list Z) :=
  wb_set_slice b idx (idx + blen v) v.

Definition iphc_set_next_header (b : list Z) (nh : option Z) (idx : Z) : outcome (list Z * Z) :=
  match nh with
  | Some p => do b <- iphc_set_nh b 0; do b <- iphc_put b idx [p]; Ok (b, idx + 1)
  | None => do b <- iphc_set_nh b 1; Ok (b, idx)
  end.

Definition iphc_set_hop_limit (b : list Z) (hl : Z) (idx : Z) : outcome (list Z * Z) :=
  if hl =? 255 then (do b <- iphc_set_hlim b 3; Ok (b, idx))
  else if hl =? 64 then (do b <- iphc_set_hlim b 2; Ok (b, idx))
  else if hl =? 1 then (do b <- iphc_set_hlim b 1; Ok (b, idx))
  else (do b <- iphc_set_hlim b 0; do b <- iphc_put b idx [hl]; Ok (b, idx + 1)).

Definition iphc_set_src_address (b : list Z) (src : list Z) (ll : option iphc_ll) (idx : Z)
  : outcome (list Z * Z) :=
  do b <- iphc_set_cid b 0;
  do b <- iphc_set_sac b 0;
  if iphc_is_unspecified src then
    do b <- iphc_set_sac b 1; do b <- iphc_set_sam b 0; Ok (b, idx)
  else if iphc_is_link_local src then
    if iphc_short_form src then
      if iphc_ll_is_short src ll then (do b <- iphc_set_sam b 3; Ok (b, idx))
      else (do b <- iphc_set_sam b 2; do b <- iphc_put b idx (iphc_sl src 14 16); Ok (b, idx + 2))
    else if iphc_is_eui64 src ll then (do b <- iphc_set_sam b 3; Ok (b, idx))
    else (do b <- iphc_set_sam b 1; do b <- iphc_put b idx (iphc_sl src 8 16); Ok (b, idx + 8))
  else (do b <- iphc_set_sam b 0; do b <- iphc_put b idx src; Ok (b, idx + 16)).

Definition iphc_set_dst_address (b : list Z) (dst : list Z) (ll : option iphc_ll) (idx : Z)
  : outcome (list Z * Z) :=
  do b <- iphc_set_dac b 0;
  do b <- iphc_set_dam b 0;
  do b <- iphc_set_m b 0;
  if iphc_is_multicast dst then
    do b <- iphc_set_m b 1;
    if (nth 1 dst 0 =? 2) && iphc_list_eqb (iphc_sl dst 2 15) (iphc_zeros 13) then
      do b <- iphc_set_dam b 3; do b <- iphc_put b idx [nth 15 dst 0]; Ok (b, idx + 1)
    else if iphc_list_eqb (iphc_sl dst 2 13) (iphc_zeros 11) then
      do b <- iphc_set_dam b 2; do b <- iphc_put b idx [nth 1 dst 0];
      do b <- iphc_put b (idx + 1) (iphc_sl dst 13 16); Ok (b, idx + 4)
    else if iphc_list_eqb (iphc_sl dst 2 11) (iphc_zeros 9) then
      do b <- iphc_set_dam b 1; do b <- iphc_put b idx [nth 1 dst 0];
      do b <- iphc_put b (idx + 1) (iphc_sl dst 11 16); Ok (b, idx + 6)
    else
      do b <- iphc_set_dam b 0; do b <- iphc_put b idx dst; Ok (b, idx + 16)
  else if iphc_is_link_local dst then
    if iphc_short_form dst then
      if iphc_ll_is_short dst ll then (do b <- iphc_set_dam b 3; Ok (b, idx))
      else (do b <- iphc_set_dam b 2; do b <- iphc_put b idx (iphc_sl dst 14 16); Ok (b, idx + 2))
    else if iphc_is_eui64 dst ll then (do b <- iphc_set_dam b 3; Ok (b, idx))
    else (do b <- iphc_set_dam b 1; do b <- iphc_put b idx (iphc_sl dst 8 16); Ok (b, idx + 8))
  else (do b <- iphc_set_dam b 0; do b <- iphc_put b idx dst; Ok (b, idx + 16)).

(* Repr::emit (the traffic-class fields of the repr are not emitted: "FIXME" in the source) *)
Definition iphc_emit (r : iphc_repr) (b : list Z) : outcome (list Z) :=
  do b <- iphc_set_dispatch_field b;
  do b <- iphc_set_tf b 3;
  do '(b, idx) <- iphc_set_next_header b (ir_nh r) 2;
  do '(b, idx) <- iphc_set_hop_limit b (ir_hl r) idx;
  do '(b, idx) <- iphc_set_src_address b (ir_src r) (ir_ll_src r) idx;
  do '(b, _) <- iphc_set_dst_address b (ir_dst r) (ir_ll_dst r) idx;
  Ok b.

(* Rust type invariants of a repr the stack builds (ipv6_to_sixlowpan): 16-octet addresses,
   2-/8-octet link-layer addresses, u8 values, no traffic-class information *)
Definition iphc_ll_wf (l : option iphc_ll) : bool :=
  match l with
  | None => true | Some LlAbsent => true
  | Some (LlShort a) => is_arr 2 a | Some (LlExtended a) => is_arr 8 a
  end.
Definition iphc_repr_wf (r : iphc_repr) : bool :=
  is_arr 16 (ir_src r) && is_arr 16 (ir_dst r) && iphc_ll_wf (ir_ll_src r) && iphc_ll_wf (ir_ll_dst r) &&
  (match ir_nh r with None => true | Some p => is_u8 p end) && is_u8 (ir_hl r) &&
  (match ir_ecn r, ir_dscp r, ir_flow r with None, None, None => true | _, _, _ => false end).
