(* Executable model of 6LoWPAN fragmentation and reassembly (property C20, step 2):

     sender    src/iface/interface/sixlowpan.rs   dispatch_sixlowpan (size decision, first fragment),
                                                  dispatch_sixlowpan_frag, sixlowpan_egress
               src/iface/fragmentation.rs         Fragmenter (packet_len, sent_bytes, SixlowpanFragmenter)
     receiver  src/iface/fragmentation.rs         PacketAssembler (Vec-backed, feature `alloc`),
                                                  PacketAssemblerSet::{get, remove_expired}
               src/iface/interface/sixlowpan.rs   process_sixlowpan_fragment
               (the tracker is Model/Assembler.v, property C15)

   The compressed packet is an octet list [c] (what ipv6_to_sixlowpan wrote into Fragmenter.buffer);
   the decompression of the first fragment is an input of the receiver step ([d1]: the octets
   sixlowpan_to_ipv6 writes at offset 0, see Model/Lowpan.v), so that this file is independent of
   the header formats.

   Panic sources: usize subtractions ([lpf_usub]: header_diff, frag1_size, 125 - ieee_len - ..,
   packet_len - sent_bytes), slice indexing of the fragmentation buffer ([wb_sub]), the
   `assert!(offset + len <= buffer.len())` of add_with.  Numbers: header sizes and dispatch values
   from Gen; the 802.15.4 payload budget 125 is a literal in dispatch_sixlowpan ("TODO: use the MTU
   of the device") and is repeated here as [lpf_MAX_FRAME]: it is tied to the source by the
   correspondence only.  No proofs in this file. *)
From SV Require Import Lib.Base Gen.Consts Gen.WireFields Model.WireBase Model.WireSixFrag Model.Assembler.

(* ---------- constants ---------- *)
Definition lpf_MAX_FRAME : Z := 125.
Definition lpf_FRAG1_HDR : Z := wsixfrag_FIRST_FRAGMENT_HEADER_SIZE.
Definition lpf_FRAGN_HDR : Z := wsixfrag_NEXT_FRAGMENT_HEADER_SIZE.
Definition lpf_IPV6_HDR : Z := wipv6_HEADER_LEN.
Definition lpf_BUFFER : Z := cfg_FRAGMENTATION_BUFFER_SIZE.
Definition lpf_SLOTS : Z := cfg_REASSEMBLY_BUFFER_COUNT.
Definition lpf_ASM_SEGMENTS : Z := cfg_ASSEMBLER_MAX_SEGMENT_COUNT.

(* Ieee802154Repr::buffer_len for the header dispatch_ieee802154 builds (pan_id_compression = true):
   3 + 2 + |dst| + |src|; an address is a 0-, 2- or 8-octet list *)
Definition lpf_ieee_len (dst src : list Z) : Z := w154_f_ADDRESSING + 2 + blen dst + blen src.

(* usize subtraction *)
Definition lpf_usub (a b : Z) : outcome Z := if a <? b then Panic else Ok (a - b).

(* ---------- sender ---------- *)

(* Fragmenter + SixlowpanFragmenter (the fields the arithmetic uses) *)
Record lpf_tx := mkTx {
  tx_packet_len : Z; tx_sent_bytes : Z;
  tx_datagram_size : Z; tx_datagram_tag : Z; tx_datagram_offset : Z; tx_fragn_size : Z }.

Definition lpf_tx_new : lpf_tx := mkTx 0 0 0 0 0 0.
Definition lpf_finished (t : lpf_tx) : bool := tx_packet_len t =? tx_sent_bytes t.
Definition lpf_is_empty (t : lpf_tx) : bool := tx_packet_len t =? 0.
(* Fragmenter::reset: datagram_offset is not reset by the source *)
Definition lpf_reset (t : lpf_tx) : lpf_tx := mkTx 0 0 0 0 (tx_datagram_offset t) 0.

(* `if total_size + ieee_len > 125` *)
Definition lpf_needs_frag (total_size ieee_len : Z) : bool := total_size + ieee_len >? lpf_MAX_FRAME.

(* one 6LoWPAN frame without its MAC header: fragment header (if any) and payload octets *)
Record lpf_frame := mkFrame { fr_hdr : option sixfrag_repr; fr_payload : list Z }.
(* the octets of a fragment header (Repr::emit into a zeroed buffer of buffer_len octets) *)
Definition sixfrag_bytes_of (h : sixfrag_repr) : outcome (list Z) :=
  sixfrag_emit h (repeat 0 (Z.to_nat (sixfrag_buffer_len h))).

Definition lpf_frame_len (ieee_len : Z) (f : lpf_frame) : Z :=
  ieee_len + match fr_hdr f with Some h => sixfrag_buffer_len h | None => 0 end + blen (fr_payload f).

(* dispatch_sixlowpan, fragmentation branch.
   [c] compressed packet (total_size = |c|), [chdr]/[uhdr] compressed / uncompressed header sizes,
   [payload_length] = IPv6 payload length, [tag] = get_sixlowpan_fragment_tag().
   Returns None when the packet is dropped (fragmentation buffer too small). *)
Definition lpf_dispatch_first (ieee_len : Z) (c : list Z) (chdr uhdr payload_length tag : Z)
  : outcome (option (lpf_tx * lpf_frame)) :=
  let total_size := blen c in
  if lpf_BUFFER <? total_size then Ok None else
  let datagram_size := (payload_length + lpf_IPV6_HDR) mod 65536 in
  do header_diff <- lpf_usub uhdr chdr;
  do a <- lpf_usub lpf_MAX_FRAME ieee_len;
  do a1 <- lpf_usub a lpf_FRAG1_HDR;
  do frag1_size <- lpf_usub ((a1 + header_diff) / 8 * 8) header_diff;
  do an <- lpf_usub a lpf_FRAGN_HDR;
  let fragn_size := an / 8 * 8 in
  do pl <- wb_sub c 0 frag1_size;                      (* &pkt.buffer[..frag1_size] *)
  Ok (Some (mkTx total_size frag1_size datagram_size tag (frag1_size + header_diff) fragn_size,
            mkFrame (Some (SfFirst datagram_size tag)) pl)).

(* dispatch_sixlowpan_frag *)
Definition lpf_dispatch_next (c : list Z) (t : lpf_tx) : outcome (lpf_tx * lpf_frame) :=
  let off := (tx_datagram_offset t / 8) mod 256 in       (* (datagram_offset / 8) as u8 *)
  do rest <- lpf_usub (tx_packet_len t) (tx_sent_bytes t);
  let frag_size := Z.min rest (tx_fragn_size t) in
  do pl <- wb_sub c (tx_sent_bytes t) (tx_sent_bytes t + frag_size);
  Ok (mkTx (tx_packet_len t) (tx_sent_bytes t + frag_size) (tx_datagram_size t) (tx_datagram_tag t)
           (tx_datagram_offset t + frag_size) (tx_fragn_size t),
      mkFrame (Some (SfNext (tx_datagram_size t) (tx_datagram_tag t) off)) pl).

(* sixlowpan_egress: one call = at most one more fragment *)
Definition lpf_egress (c : list Z) (t : lpf_tx) : outcome (lpf_tx * option lpf_frame) :=
  let t := if lpf_finished t then lpf_reset t else t in
  if lpf_is_empty t then Ok (t, None)
  else if tx_sent_bytes t <? tx_packet_len t then
    do '(t', f) <- lpf_dispatch_next c t; Ok (t', Some f)
  else Ok (t, None).

(* all remaining fragments: repeated sixlowpan_egress until finished ([fuel] polls) *)
Fixpoint lpf_drain (fuel : nat) (c : list Z) (t : lpf_tx) : outcome (list lpf_frame) :=
  match fuel with
  | O => Ok []
  | S fuel' =>
      if tx_sent_bytes t <? tx_packet_len t then
        do '(t', f) <- lpf_dispatch_next c t;
        do fs <- lpf_drain fuel' c t';
        Ok (f :: fs)
      else Ok []
  end.

(* the whole transmission of one compressed packet: one plain frame, or FRAG1 + FRAGN.. *)
Definition lpf_send (ieee_len : Z) (c : list Z) (chdr uhdr payload_length tag : Z)
  : outcome (list lpf_frame) :=
  if lpf_needs_frag (blen c) ieee_len then
    do r <- lpf_dispatch_first ieee_len c chdr uhdr payload_length tag;
    match r with
    | None => Ok []
    | Some (t, f1) => do fs <- lpf_drain (Z.to_nat (blen c)) c t; Ok (f1 :: fs)
    end
  else Ok [mkFrame None c].

(* ---------- receiver: PacketAssembler (Vec<u8> buffer) ---------- *)

Record lpf_pa := mkPa { pa_buf : list Z; pa_asm : asm; pa_total : option Z }.

Definition lpf_pa_new : lpf_pa := mkPa [] asm_new None.
(* reset keeps the allocation (and its stale contents) *)
Definition lpf_pa_reset (p : lpf_pa) : lpf_pa := mkPa (pa_buf p) asm_new None.

(* Vec::resize(n, 0) when the buffer is shorter *)
Definition lpf_grow (b : list Z) (n : Z) : list Z :=
  if blen b <? n then b ++ repeat 0 (Z.to_nat (n - blen b)) else b.

(* set_total_size: None = Err(AssemblerError) *)
Definition lpf_pa_set_total_size (p : lpf_pa) (size : Z) : option lpf_pa :=
  match pa_total p with
  | Some old => if negb (old =? size) then None
                else Some (mkPa (lpf_grow (pa_buf p) size) (pa_asm p) (Some size))
  | None => Some (mkPa (lpf_grow (pa_buf p) size) (pa_asm p) (Some size))
  end.

(* add(data, offset): the result of assembler.add is ignored by the source *)
Definition lpf_pa_add (p : lpf_pa) (data : list Z) (offset : Z) : outcome lpf_pa :=
  let b := lpf_grow (pa_buf p) (offset + blen data) in
  do b' <- wb_set_slice b offset (offset + blen data) data;
  Ok (mkPa b' (fst (asm_add lpf_ASM_SEGMENTS (pa_asm p) offset (blen data))) (pa_total p)).

(* add_with(0, f) where f writes [d1] at the start of the slice and returns its length;
   Err = the closure failed / buffer shorter than offset *)
Definition lpf_pa_add_first (p : lpf_pa) (d1 : Z -> outcome (list Z)) : outcome lpf_pa :=
  do d <- d1 (blen (pa_buf p));
  if blen (pa_buf p) <? blen d then Panic            (* assert!(offset + len <= buffer.len()) *)
  else
    do b' <- wb_set_slice (pa_buf p) 0 (blen d) d;
    Ok (mkPa b' (fst (asm_add lpf_ASM_SEGMENTS (pa_asm p) 0 (blen d))) (pa_total p)).

Definition lpf_pa_is_complete (p : lpf_pa) : bool :=
  match pa_total p with Some t => t =? asm_peek_front (pa_asm p) | None => false end.

(* ---------- receiver: PacketAssemblerSet and process_sixlowpan_fragment ---------- *)

(* FragKey::Sixlowpan: (ll_src, ll_dst, datagram_size, datagram_tag) *)
Definition lpf_key : Type := (list Z * list Z * Z * Z)%type.
Definition lpf_list_eqb (a b : list Z) : bool :=
  (blen a =? blen b) && forallb (fun p => fst p =? snd p) (combine a b).
Definition lpf_key_eqb (a b : lpf_key) : bool :=
  let '(s1, d1, z1, t1) := a in let '(s2, d2, z2, t2) := b in
  lpf_list_eqb s1 s2 && lpf_list_eqb d1 d2 && (z1 =? z2) && (t1 =? t2).

Record lpf_slot := mkSlot { sl_key : option lpf_key; sl_pa : lpf_pa; sl_expires : Z }.
Definition lpf_slot_new : lpf_slot := mkSlot None lpf_pa_new 0.
Definition lpf_slots_new : list lpf_slot := repeat lpf_slot_new (Z.to_nat lpf_SLOTS).

Definition lpf_slot_reset (s : lpf_slot) : lpf_slot := mkSlot None (lpf_pa_reset (sl_pa s)) 0.

(* remove_expired(timestamp): `!is_free() && expires_at < timestamp` *)
Definition lpf_remove_expired (now : Z) (ss : list lpf_slot) : list lpf_slot :=
  map (fun s => match sl_key s with
                | Some _ => if sl_expires s <? now then lpf_slot_reset s else s
                | None => s end) ss.

(* get(key, expires_at): index of the slot with this key, else the LAST free slot (claimed) *)
Fixpoint lpf_find_key (k : lpf_key) (ss : list lpf_slot) (i : nat) : option nat :=
  match ss with
  | [] => None
  | s :: r => match sl_key s with
              | Some k' => if lpf_key_eqb k' k then Some i else lpf_find_key k r (S i)
              | None => lpf_find_key k r (S i)
              end
  end.
Fixpoint lpf_last_free (ss : list lpf_slot) (i : nat) (acc : option nat) : option nat :=
  match ss with
  | [] => acc
  | s :: r => lpf_last_free r (S i) (match sl_key s with None => Some i | Some _ => acc end)
  end.
Fixpoint lpf_update {A} (l : list A) (i : nat) (x : A) : list A :=
  match l, i with
  | [], _ => []
  | _ :: r, O => x :: r
  | a :: r, S j => a :: lpf_update r j x
  end.
Definition lpf_get (k : lpf_key) (expires_at : Z) (ss : list lpf_slot) : option (nat * list lpf_slot) :=
  match lpf_find_key k ss 0 with
  | Some i => Some (i, ss)
  | None =>
      match lpf_last_free ss 0 None with
      | Some i => let s := nth i ss lpf_slot_new in
                  Some (i, lpf_update ss i (mkSlot (Some k) (sl_pa s) expires_at))
      | None => None
      end
  end.

(* what the receiver learns from one fragment frame:
   the parsed fragment header, the fragment payload, and, for a first fragment, what
   sixlowpan_to_ipv6(payload, Some(total_size), buffer) writes at offset 0 (or its failure) as a
   function of buffer.len().  A failing decompression is modelled as leaving the buffer unchanged. *)
Record lpf_rx_frag := mkRxFrag { rf_hdr : sixfrag_repr; rf_payload : list Z; rf_first_dec : Z -> outcome (list Z) }.

Definition lpf_hdr_size (h : sixfrag_repr) : Z := match h with SfFirst s _ => s | SfNext s _ _ => s end.
Definition lpf_hdr_tag (h : sixfrag_repr) : Z := match h with SfFirst _ t => t | SfNext _ t _ => t end.

(* process_sixlowpan_fragment: new slot set and the reassembled datagram, if complete *)
Definition lpf_process_fragment (now timeout : Z) (ll_src ll_dst : list Z) (f : lpf_rx_frag)
    (ss : list lpf_slot) : outcome (list lpf_slot * option (list Z)) :=
  let size := lpf_hdr_size (rf_hdr f) in
  if size <? lpf_IPV6_HDR then Ok (ss, None) else
  let key := (ll_src, ll_dst, size, lpf_hdr_tag (rf_hdr f)) in
  match lpf_get key (now + timeout) ss with
  | None => Ok (ss, None)                                (* AssemblerFullError *)
  | Some (i, ss) =>
      let s := nth i ss lpf_slot_new in
      let put (p : lpf_pa) := lpf_update ss i (mkSlot (sl_key s) p (sl_expires s)) in
      do r <- match rf_hdr f with
              | SfFirst _ _ =>
                  match lpf_pa_set_total_size (sl_pa s) size with
                  | None => Ok (inl ss)
                  | Some p =>
                      match lpf_pa_add_first p (rf_first_dec f) with
                      | Ok p' => Ok (inr p')
                      | Err _ => Ok (inl (put p))        (* decompression failed: fragment dropped *)
                      | Panic => Panic
                      end
                  end
              | SfNext _ _ off =>
                  do p' <- lpf_pa_add (sl_pa s) (rf_payload f) (off * 8);
                  Ok (inr p')
              end;
      match r with
      | inl ss' => Ok (ss', None)
      | inr p =>
          if lpf_pa_is_complete p then
            match pa_total p with
            | Some total =>
                do d <- wb_sub (pa_buf p) 0 total;        (* &self.buffer[..total_size] *)
                Ok (lpf_update ss i (lpf_slot_reset (mkSlot (sl_key s) p (sl_expires s))), Some d)
            | None => Panic                               (* unwrap(); excluded by is_complete *)
            end
          else Ok (put p, None)
      end
  end.

(* a sequence of fragment arrivals (same link-layer addresses, fixed time): deliveries in order *)
Fixpoint lpf_process_all (now timeout : Z) (ll_src ll_dst : list Z) (fs : list lpf_rx_frag)
    (ss : list lpf_slot) : outcome (list lpf_slot * list (list Z)) :=
  match fs with
  | [] => Ok (ss, [])
  | f :: r =>
      do '(ss', d) <- lpf_process_fragment now timeout ll_src ll_dst f ss;
      do '(ss'', ds) <- lpf_process_all now timeout ll_src ll_dst r ss';
      Ok (ss'', match d with Some x => x :: ds | None => ds end)
  end.
