(* Abstract model of the egress loop of Interface::poll (src/iface/interface/mod.rs):

     loop { match self.poll_egress(..) { PollResult::None => break, SocketStateChanged => {} } }

   where one poll_egress pass (socket_egress) visits every socket once, in order, and calls its
   dispatch with an emit closure that transmits at most one packet; the pass reports
   SocketStateChanged iff some socket emitted.  Time does not advance inside one poll.

   Components are abstract: a state type, a dispatch function returning the new state and whether a
   packet was emitted.  The loop carries explicit fuel; the theorem (Proofs/EgressLoopProofs.v) is
   that fuel = (sum of the components' burst measures) + 1 always suffices, i.e. poll returns.
   No proofs in this file. *)
From SV Require Import Lib.Base.

Section Loop.
  Variable St : Type.
  Variable dispatch : St -> St * bool.

  (* one socket_egress pass over the socket list *)
  Fixpoint egress_pass (ss : list St) : list St * bool :=
    match ss with
    | [] => ([], false)
    | s :: rest =>
        let '(s', e) := dispatch s in
        let '(rest', e') := egress_pass rest in
        (s' :: rest', e || e')
    end.

  (* the poll loop: repeat passes until one emits nothing; None = fuel exhausted (never returned) *)
  Fixpoint poll_loop (fuel : nat) (ss : list St) : option (list St * nat) :=
    match fuel with
    | O => None
    | S f =>
        let '(ss', e) := egress_pass ss in
        if e then match poll_loop f ss' with
                  | Some (r, n) => Some (r, S n)
                  | None => None
                  end
        else Some (ss', O)
    end.
End Loop.
