(* Abstract model of the egress loop of Interface::poll (src/iface/interface/mod.rs):

     loop { match self.poll_egress(..) { PollResult::None => break, SocketStateChanged => {} } }

   where one poll_egress pass (socket_egress) visits every socket once, in order, and calls its
   dispatch with an emit closure that transmits at most one packet; the pass reports
   SocketStateChanged iff some socket emitted.  Time does not advance inside one poll.

   Components are abstract: a state type, a dispatch function returning the new state and whether a
   packet was emitted.  The loop carries explicit fuel; the theorem (Proofs/EgressLoopProofs.v) is
   that fuel = (sum of the components' burst measures) + 1 always suffices, i.e. poll returns.
   No proofs in this file. *)
From SV Require Import Lib.Base.

Section Loop.
  Variable St : Type.
  Variable dispatch : St -> St * bool.

  (* one socket_egress pass over the socket list *)
  Fixpoint egress_pass (ss : list St) : list St * bool :=
    match ss with
    | [] => ([], false)
    | s :: rest =>
        let '(s', e) := dispatch s in
        let '(rest', e') := egress_pass rest in
        (s' :: rest', e || e')
    end.

  (* the poll loop: repeat passes until one emits nothing; None = fuel exhausted (never returned) *)
  Fixpoint poll_loop (fuel : nat) (ss : list St) : option (list St * nat) :=
    match fuel with
    | O => None
    | S f =>
        let '(ss', e) := egress_pass ss in
        if e then match poll_loop f ss' with
                  | Some (r, n) => Some (r, S n)
                  | None => None
                  end
        else Some (ss', O)
    end.
End Loop.

(* Second, more faithful version: the sockets share an environment [E] (device transmit budget,
   neighbor cache, fragmenter, the interface's `now`) that every dispatch reads and updates, so a
   socket's emit may be refused because of what another socket did.  A dispatch ends in one of three
   ways, as `socket_egress` distinguishes them: the packet went out (RSent: the only case that sets
   PollResult::SocketStateChanged), nothing went out (RSilent: nothing to send, neighbor missing,
   fragmenter busy, egress not permitted), or the device had no transmit token (RExhausted: the `for`
   loop over the sockets breaks).  Before every pass the interface itself may transmit (pending
   fragments, router solicitations, multicast reports): [pre] changes only the environment. *)
Inductive dres := RSent | RSilent | RExhausted.

Section Loop2.
  Variable E St : Type.
  Variable dispatch : E -> St -> E * St * dres.
  Variable pre : E -> E.

  Fixpoint egress_pass2 (e : E) (ss : list St) : E * list St * bool :=
    match ss with
    | [] => (e, [], false)
    | s :: rest =>
        let '(e1, s1, r) := dispatch e s in
        match r with
        | RExhausted => (e1, s1 :: rest, false)
        | RSent => let '(e2, rest', _) := egress_pass2 e1 rest in (e2, s1 :: rest', true)
        | RSilent => let '(e2, rest', b) := egress_pass2 e1 rest in (e2, s1 :: rest', b)
        end
    end.

  Fixpoint poll_loop2 (fuel : nat) (e : E) (ss : list St) : option (E * list St * nat) :=
    match fuel with
    | O => None
    | S f =>
        let '(e1, ss', b) := egress_pass2 (pre e) ss in
        if b then match poll_loop2 f e1 ss' with
                  | Some (e2, r, n) => Some (e2, r, S n)
                  | None => None
                  end
        else Some (e1, ss', O)
    end.
End Loop2.
