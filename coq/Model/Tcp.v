(* Executable model of smoltcp::socket::tcp::Socket (src/socket/tcp.rs, everything before the tests)
   and of InterfaceInner::process_tcp (src/iface/interface/tcp.rs) for one socket.

   FILES     Model/Seq32.v (TcpSeqNumber)  Model/TcpBuf.v (byte ring = RingBuffer<u8>)
             Model/Assembler.v (C15 model, reused literally)  Model/TcpTypes.v (records + setters)
   STATE     record [socket] (TcpTypes.v), fields s_<rust field name>:
             state timer rtte assembler rx_buffer rx_fin_received tx_buffer timeout keep_alive hop_limit
             listen_endpoint tuple local_seq_no remote_seq_no remote_last_seq remote_last_ack
             remote_last_win remote_win_shift remote_win_len remote_win_scale remote_has_sack remote_mss
             remote_last_ts local_rx_last_seq local_rx_last_ack local_rx_dup_acks pending_fast_retransmit
             syn_unacked_in_fin_wait
             ack_delay ack_delay_timer challenge_ack_timer nagle congestion_controller
             tsval_generator (bool: is_some; the value it returns is the input cx_tsval) last_remote_tsval
   CONTEXT   record [ctx]: cx_now (us), cx_ip_mtu, cx_addr (the interface's only address),
             cx_tsval (what the timestamp generator returns), cx_isn (next random ISN)
   UNITS     all times in microseconds; rtte srtt/rttvar/rto in milliseconds (u32) as in the source

   FUNCTION (this file)            RUST (src/socket/tcp.rs at /repo d04325c; line numbers drift with fix commits)
   rtte_* / timer_* / reno_* cc_*  RttEstimator l.191-278 / Timer l.302-427 / congestion/reno.rs, congestion.rs
   tcp_new tcp_reset               Socket::new l.575, reset l.914   (+ set_congestion_control, set_tsval_generator)
   tcp_set_timeout/ack_delay/nagle/keep_alive/hop_limit            l.808-890
   tcp_scaled_window tcp_last_scaled_window                        l.768, l.781
   tcp_listen tcp_connect tcp_close tcp_abort                      l.953, l.1024, l.1095, l.1129
   tcp_is_open tcp_may_send tcp_may_recv tcp_can_send tcp_can_recv l.1153-1251
   tcp_send_slice tcp_recv_slice tcp_peek tcp_peek_slice tcp_send_queue tcp_recv_queue  l.1253-1444
   tcp_flight_size tcp_send_next_seq tcp_cwnd_remaining            l.1412, l.1423, l.1430
   tcp_reply tcp_rst_reply tcp_ack_reply tcp_challenge_ack_reply   l.1463-1582
   tcp_accepts                                                     l.1584
   tcp_sent_syn tcp_sent_fin                                       l.1623-1634 (the (sent_syn, sent_fin) match)
   tcp_process = phases, in source order:                          l.1614-2357
     tcp_process_ack_check    state/flag sanity, ACK acceptability      l.1636-1735
     tcp_process_window       segment acceptability test + trimming     l.1737-1868
     tcp_process_ack_len      ack_len / ack_of_fin / ack_all            l.1870-1896
     tcp_process_quash        PSH and out-of-order FIN quashing         l.1898-1916
     tcp_process_transition   the (state, control) table                l.1918-2110
     tcp_process_update_remote  remote_last_ts, window, tx dequeue      l.2112-2142
     tcp_process_dup_ack      duplicate-ACK counting, rtte/cc, SND.UNA  l.2144-2223
     tcp_process_timers / tcp_process_zwp                               l.2230-2271
     tcp_process_payload      assembler + ring, delayed ACK, reply      l.2273-2357
   tcp_timed_out tcp_seq_to_transmit tcp_delayed_ack_expired tcp_ack_to_transmit
   tcp_immediate_ack_to_transmit tcp_window_to_update              l.2359-2506
   tcp_dispatch = tcp_dispatch_timers; tcp_dispatch_decide; tcp_dispatch_build (tcp_syn_repr,
                  tcp_dispatch_build_data); tcp_dispatch_finish     l.2508-2925
   tcp_poll_at                                                     l.2928
   iface_tcp_ingress iface_poll_at iface_poll_egress(_acc)         iface/interface/tcp.rs, mod.rs l.582, l.468-536
   tcp_is_listening tcp_is_active  l.1138, l.1175
   tcp_connect_af                  connect l.1024 with the address families explicit (all four Unaddressable arms)
   tcp_send_with tcp_recv_with     the closure API Socket::send(f) l.1298 / recv(f) l.1362 (f = copy min(slice, k))
   tcp_step_x                      tcp_step extended by these three calls (event_x)
   tcp_step                        one event (API call | segment | one dispatch) as a function: what the
                                   theorems of Proofs/TcpStateProofs.v (C17) quantify over

   PANICS    every `SeqNumber - SeqNumber`, usize subtraction, `unwrap`, `assert!`/`debug_assert!`
             (debug profile), slice range and the u32 overflow checks of the RTT estimator are [Panic]
             in the outcome monad.  Not represented: `SeqNumber + usize` with an addend > i32::MAX
             (addends are buffer lengths/windows: [tcp_new] refuses rx capacity > 2^30 like the source;
             the tx capacity is assumed < 2^31) and i64 overflow of Instant arithmetic.
   RESULTS   API errors are [Err 1] = InvalidState, [Err 2] = Unaddressable (listen/connect) or
             Finished (recv).  [tcp_process] / [tcp_dispatch] also return the list of branch tags they
             went through (coverage accounting in the correspondence driver; irrelevant to behaviour).
   No proofs in this file: it must still run when a proof breaks. *)
From SV Require Import Lib.Base Gen.Consts.
From SV Require Import Model.Seq32 Model.Assembler Model.TcpBuf Model.TcpTypes.

(* ---------- machine arithmetic ---------- *)
Definition usize_max : Z := 2 ^ 64 - 1.
Definition u16_max : Z := 65535.
Definition u32_max : Z := 2 ^ 32 - 1.

(* usize subtraction (debug profile: overflow panics) *)
Definition usub (a b : Z) : outcome Z := if a - b <? 0 then Panic else Ok (a - b).
Definition sat_sub (a b : Z) : Z := Z.max 0 (a - b).
Definition sat_add_usize (a b : Z) : Z := Z.min usize_max (a + b).
Definition u32_chk (x : Z) : outcome Z := if (0 <=? x) && (x <=? u32_max) then Ok x else Panic.
Definition u16_try (x : Z) : Z := if x <=? u16_max then x else u16_max.   (* u16::try_from(x).unwrap_or(MAX) *)
Definition div_ceil (a b : Z) : Z := a / b + (if a mod b >? 0 then 1 else 0).
Definition to_i32 (x : Z) : Z := if x <? 2 ^ 31 then x else x - 2 ^ 32.
Definition shl (x n : Z) : Z := x * 2 ^ n.
Definition shr (x n : Z) : Z := x / 2 ^ n.
Definition is_some {A} (o : option A) : bool := match o with Some _ => true | None => false end.
Definition opt_eqb (a b : option Z) : bool :=
  match a, b with Some x, Some y => x =? y | None, None => true | _, _ => false end.

(* slice `&v[a..b]` *)
Definition slice_range (v : list Z) (a b : Z) : outcome (list Z) :=
  if (a <=? b) && (b <=? l_len v) then Ok (l_slice a (b - a) v) else Panic.

(* ---------- RttEstimator (l.162-278) ---------- *)
Definition rtte_default : rtt_estimator := mkRtte false 0 0 tcp_RTTE_INITIAL_RTO None None 0.

Definition rtte_retransmission_timeout (r : rtt_estimator) : Z := rt_rto r * 1000.

Definition rtte_sample (r : rtt_estimator) (new_rtt : Z) : outcome rtt_estimator :=
  do sv <-
    (if rt_have_measurement r then
       let d := to_i32 (rt_srtt r) - to_i32 new_rtt in
       if (d <? - 2 ^ 31) || (d >? 2 ^ 31 - 1) then Panic else
       let diff := Z.abs d in
       do a <- u32_chk (rt_rttvar r * 3);
       do a <- u32_chk (a + diff);
       do b <- u32_chk (rt_srtt r * 7);
       do b <- u32_chk (b + new_rtt);
       Ok (div_ceil b 8, div_ceil a 4)
     else Ok (new_rtt, new_rtt / 2));
  let '(srtt, rttvar) := sv in
  do m <- u32_chk (rttvar * tcp_RTTE_K);
  let margin := Z.max tcp_RTTE_MIN_MARGIN m in
  do x <- u32_chk (srtt + margin);
  let rto := if x <? tcp_RTTE_MIN_RTO then tcp_RTTE_MIN_RTO
             else if x >? tcp_RTTE_MAX_RTO then tcp_RTTE_MAX_RTO else x in
  Ok (mkRtte true srtt rttvar rto (rt_timestamp r) (rt_max_seq_sent r) 0).

Definition rtte_on_send (r : rtt_estimator) (timestamp seq : Z) : rtt_estimator :=
  if match rt_max_seq_sent r with Some m => seq_gt seq m | None => true end then
    mkRtte (rt_have_measurement r) (rt_srtt r) (rt_rttvar r) (rt_rto r)
           (match rt_timestamp r with None => Some (timestamp, seq) | Some t => Some t end)
           (Some seq) (rt_rto_count r)
  else r.

Definition rtte_on_ack (r : rtt_estimator) (timestamp seq : Z) : outcome rtt_estimator :=
  match rt_timestamp r with
  | Some (sent_timestamp, sent_seq) =>
      if seq_ge seq sent_seq then
        let millis := Z.abs (timestamp - sent_timestamp) / 1000 in
        do r' <- rtte_sample r (millis mod 2 ^ 32);
        Ok (mkRtte (rt_have_measurement r') (rt_srtt r') (rt_rttvar r') (rt_rto r') None
                   (rt_max_seq_sent r') (rt_rto_count r'))
      else Ok r
  | None => Ok r
  end.

Definition rtte_on_rto (r : rtt_estimator) : rtt_estimator :=
  let rto := Z.min (rt_rto r * 2) tcp_RTTE_MAX_RTO in
  let c := rt_rto_count r + 1 in
  if c >=? 3
  then mkRtte false (rt_srtt r) (rt_rttvar r) rto (rt_timestamp r) (rt_max_seq_sent r) 0
  else mkRtte (rt_have_measurement r) (rt_srtt r) (rt_rttvar r) rto (rt_timestamp r) (rt_max_seq_sent r) c.

Definition rtte_on_retransmit (r : rtt_estimator) : rtt_estimator :=
  mkRtte (rt_have_measurement r) (rt_srtt r) (rt_rttvar r) (rt_rto r) None (rt_max_seq_sent r)
         (rt_rto_count r).

(* ---------- Timer (l.302-427) ---------- *)
Definition timer_new : timer := TIdle None.

Definition timer_should_keep_alive (t : timer) (timestamp : Z) : bool :=
  match t with TIdle (Some at_) => timestamp >=? at_ | _ => false end.
Definition timer_should_retransmit (t : timer) (timestamp : Z) : bool :=
  match t with TRetransmit e => timestamp >=? e | TFastRetransmit => true | _ => false end.
Definition timer_should_close (t : timer) (timestamp : Z) : bool :=
  match t with TClose e => timestamp >=? e | _ => false end.
Definition timer_should_zero_window_probe (t : timer) (timestamp : Z) : bool :=
  match t with TZeroWindowProbe e _ => timestamp >=? e | _ => false end.

(* socket::PollAt (socket/mod.rs l.39); derived Ord: Now < Time _ < Ingress *)
Inductive poll_at := PNow | PTime (t : Z) | PIngress.
Definition poll_at_min (a b : poll_at) : poll_at :=
  match a, b with
  | PNow, _ => PNow
  | _, PNow => PNow
  | PTime x, PTime y => if x <=? y then PTime x else PTime y
  | PTime x, PIngress => PTime x
  | PIngress, b => b
  end.

Definition timer_poll_at (t : timer) : poll_at :=
  match t with
  | TIdle (Some at_) => PTime at_
  | TIdle None => PIngress
  | TZeroWindowProbe e _ => PTime e
  | TRetransmit e => PTime e
  | TFastRetransmit => PNow
  | TClose e => PTime e
  end.

Definition opt_add (timestamp : Z) (interval : option Z) : option Z :=
  match interval with Some i => Some (timestamp + i) | None => None end.

Definition timer_set_for_idle (timestamp : Z) (interval : option Z) : timer :=
  TIdle (opt_add timestamp interval).
Definition timer_set_keep_alive (t : timer) : timer :=
  match t with TIdle None => TIdle (Some 0) | _ => t end.
Definition timer_rewind_keep_alive (t : timer) (timestamp : Z) (interval : option Z) : timer :=
  match t with TIdle _ => TIdle (opt_add timestamp interval) | _ => t end.
Definition timer_set_for_retransmit (t : timer) (timestamp delay : Z) : timer :=
  match t with TClose _ => t | _ => TRetransmit (timestamp + delay) end.
Definition timer_set_for_close (timestamp : Z) : timer := TClose (timestamp + tcp_CLOSE_DELAY).
Definition timer_set_for_zero_window_probe (timestamp delay : Z) : timer :=
  TZeroWindowProbe (timestamp + delay) delay.
Definition timer_rewind_zero_window_probe (t : timer) (timestamp : Z) : timer :=
  match t with
  | TZeroWindowProbe _ delay =>
      let delay := Z.min (delay * 2) (tcp_RTTE_MAX_RTO * 1000) in
      TZeroWindowProbe (timestamp + delay) delay
  | _ => t
  end.
Definition timer_is_idle (t : timer) : bool := match t with TIdle _ => true | _ => false end.
Definition timer_is_zero_window_probe (t : timer) : bool :=
  match t with TZeroWindowProbe _ _ => true | _ => false end.
Definition timer_is_retransmit (t : timer) : bool :=
  match t with TRetransmit _ | TFastRetransmit => true | _ => false end.

(* ---------- congestion control (congestion.rs, congestion/reno.rs, no_control.rs) ---------- *)
Definition reno_new : reno := mkReno (reno_DEFAULT_MSS * 2) reno_DEFAULT_MSS usize_max (64 * reno_DEFAULT_MSS) false false.

Definition reno_clamp (r : reno) (cwnd : Z) : Z := Z.max (Z.min cwnd (rn_rwnd r)) (rn_mss r).

Definition reno_on_ack (r : reno) (len : Z) : outcome reno :=
  if len =? 0 then Ok r else
  if rn_in_fast_recovery r then
    Ok (mkReno (Z.max (rn_ssthresh r) (rn_mss r)) (rn_mss r) (rn_ssthresh r) (rn_rwnd r) false false)
  else
    do inc <- (if rn_cwnd r <? rn_ssthresh r then Ok (Z.min len (rn_mss r))
               else if rn_cwnd r =? 0 then Panic
               else Ok (Z.max (rn_mss r * rn_mss r / rn_cwnd r) 1));
    Ok (mkReno (reno_clamp r (sat_add_usize (rn_cwnd r) inc)) (rn_mss r) (rn_ssthresh r) (rn_rwnd r)
               false false).

Definition reno_on_dup_ack (r : reno) (len : Z) : reno :=
  if rn_in_fast_recovery r then
    mkReno (reno_clamp r (sat_add_usize (rn_cwnd r) len)) (rn_mss r) (rn_ssthresh r) (rn_rwnd r)
           (rn_in_fast_recovery r) (rn_in_rto_recovery r)
  else r.

Definition reno_on_loss (r : reno) (in_flight : Z) : reno :=
  if rn_in_fast_recovery r then r else
  let ssthresh := Z.max (shr in_flight 1) (2 * rn_mss r) in
  mkReno (sat_add_usize (Z.min ssthresh (rn_rwnd r)) (3 * rn_mss r)) (rn_mss r) ssthresh (rn_rwnd r)
         true (rn_in_rto_recovery r).

Definition reno_on_rto (r : reno) (in_flight : Z) : reno :=
  let ssthresh := if rn_in_rto_recovery r then rn_ssthresh r
                  else Z.max (shr in_flight 1) (2 * rn_mss r) in
  mkReno (rn_mss r) (rn_mss r) ssthresh (rn_rwnd r) false true.

Definition reno_set_mss (r : reno) (mss : Z) : reno :=
  mkReno (Z.max (rn_cwnd r) mss) mss (rn_ssthresh r) (rn_rwnd r) (rn_in_fast_recovery r) (rn_in_rto_recovery r).
Definition reno_set_remote_window (r : reno) (w : Z) : reno :=
  if rn_rwnd r <? w
  then mkReno (rn_cwnd r) (rn_mss r) (rn_ssthresh r) w (rn_in_fast_recovery r) (rn_in_rto_recovery r)
  else r.

Definition cc_window (c : controller) : Z :=
  match c with CcNone => usize_max | CcReno r => rn_cwnd r end.
Definition cc_set_remote_window (c : controller) (w : Z) : controller :=
  match c with CcNone => CcNone | CcReno r => CcReno (reno_set_remote_window r w) end.
Definition cc_set_mss (c : controller) (m : Z) : controller :=
  match c with CcNone => CcNone | CcReno r => CcReno (reno_set_mss r m) end.
Definition cc_on_ack (c : controller) (len : Z) : outcome controller :=
  match c with CcNone => Ok CcNone | CcReno r => do r' <- reno_on_ack r len; Ok (CcReno r') end.
Definition cc_on_dup_ack (c : controller) (len : Z) : controller :=
  match c with CcNone => CcNone | CcReno r => CcReno (reno_on_dup_ack r len) end.
Definition cc_on_loss (c : controller) (in_flight : Z) : controller :=
  match c with CcNone => CcNone | CcReno r => CcReno (reno_on_loss r in_flight) end.
Definition cc_on_rto (c : controller) (in_flight : Z) : controller :=
  match c with CcNone => CcNone | CcReno r => CcReno (reno_on_rto r in_flight) end.

(* ---------- construction, reset, setters (l.571-934) ---------- *)

(* `size_of::<usize>()*8 - capacity.leading_zeros()` then `.saturating_sub(16)` *)
Definition tcp_win_shift_for (rx_capacity : Z) : Z :=
  let log2 := if rx_capacity <=? 0 then 0 else Z.log2 rx_capacity + 1 in
  sat_sub log2 16.

(* Socket::new followed by set_congestion_control(cc) and set_tsval_generator(if ts then Some(g)) *)
Definition tcp_new (rx_storage tx_storage : list Z) (cc : controller) (ts : bool) : outcome socket :=
  let rx := rb_new rx_storage in
  let tx := rb_new tx_storage in
  if rb_cap rx >? 2 ^ 30 then Panic else
  Ok (mkSocket Closed timer_new rtte_default asm_new rx false tx
        None None None (mkListenEp None 0) None
        0 0 0 None 0 (tcp_win_shift_for (rb_cap rx)) 0 None false tcp_DEFAULT_MSS None None None 0 false false
        (Some tcp_ACK_DELAY_DEFAULT) ADIdle 0 true cc ts 0).

(* reset() leaves timeout, keep_alive, hop_limit, remote_has_sack, local_rx_last_seq/ack,
   local_rx_dup_acks, ack_delay, nagle, the congestion controller,
   the timestamp generator and last_remote_tsval untouched, like the source *)
Definition tcp_reset (s : socket) : socket :=
  let s := upd_state s Closed in
  let s := upd_timer s timer_new in
  let s := upd_rtte s rtte_default in
  let s := upd_assembler s asm_new in
  let s := upd_tx_buffer s (rb_clear (s_tx_buffer s)) in
  let s := upd_rx_buffer s (rb_clear (s_rx_buffer s)) in
  let s := upd_rx_fin_received s false in
  let s := upd_listen_endpoint s (mkListenEp None 0) in
  let s := upd_tuple s None in
  let s := upd_local_seq_no s 0 in
  let s := upd_remote_seq_no s 0 in
  let s := upd_remote_last_seq s 0 in
  let s := upd_remote_last_ack s None in
  let s := upd_remote_last_win s 0 in
  let s := upd_remote_win_len s 0 in
  let s := upd_remote_win_scale s None in
  let s := upd_remote_win_shift s (tcp_win_shift_for (rb_cap (s_rx_buffer s))) in
  let s := upd_remote_mss s tcp_DEFAULT_MSS in
  let s := upd_remote_last_ts s None in
  let s := upd_ack_delay_timer s ADIdle in
  let s := upd_challenge_ack_timer s 0 in
  let s := upd_syn_unacked_in_fin_wait s false in
  upd_pending_fast_retransmit s false.

Definition tcp_set_timeout (s : socket) (d : option Z) : socket := upd_timeout s d.
Definition tcp_set_ack_delay (s : socket) (d : option Z) : socket := upd_ack_delay s d.
Definition tcp_set_nagle_enabled (s : socket) (b : bool) : socket := upd_nagle s b.
Definition tcp_set_keep_alive (s : socket) (interval : option Z) : socket :=
  let s := upd_keep_alive s interval in
  if is_some interval then upd_timer s (timer_set_keep_alive (s_timer s)) else s.
Definition tcp_set_hop_limit (s : socket) (h : option Z) : outcome socket :=
  match h with Some 0 => Panic | _ => Ok (upd_hop_limit s h) end.

(* l.763 *)
Definition tcp_scaled_window (s : socket) : Z :=
  u16_try (shr (rb_window (s_rx_buffer s)) (s_remote_win_shift s)).

(* l.776; `last_ack + last_win - next_ack` is a panicking SeqNumber subtraction *)
Definition tcp_last_scaled_window (s : socket) : outcome (option Z) :=
  match s_remote_last_ack s with
  | None => Ok None
  | Some last_ack =>
      let next_ack := seq_add (s_remote_seq_no s) (rb_len (s_rx_buffer s)) in
      let last_win := shl (s_remote_last_win s) (s_remote_win_shift s) in
      let last_win_end := seq_add last_ack last_win in
      if seq_lt last_win_end next_ack then Ok (Some 0) else
      do last_win_adjusted <- seq_sub last_win_end next_ack;
      Ok (Some (u16_try (shr last_win_adjusted (s_remote_win_shift s))))
  end.

(* ---------- state predicates (l.1121-1235) ---------- *)
Definition tcp_is_open (s : socket) : bool :=
  match s_state s with Closed | TimeWait => false | _ => true end.
Definition tcp_may_send (s : socket) : bool :=
  match s_state s with Established | CloseWait => true | _ => false end.
Definition tcp_can_recv (s : socket) : bool := negb (rb_is_empty (s_rx_buffer s)).
Definition tcp_may_recv (s : socket) : bool :=
  match s_state s with
  | Established | FinWait1 | FinWait2 => true
  | _ => tcp_can_recv s
  end.
Definition tcp_can_send (s : socket) : bool :=
  if tcp_may_send s then negb (rb_is_full (s_tx_buffer s)) else false.
Definition tcp_send_queue (s : socket) : Z := rb_len (s_tx_buffer s).
Definition tcp_recv_queue (s : socket) : Z := rb_len (s_rx_buffer s).

Definition tcp_set_state (s : socket) (st : tcp_state) : socket := upd_state s st.

(* ---------- listen / connect / close / abort (l.941-1115) ---------- *)
Definition listen_endpoint_eqb (a b : listen_endpoint) : bool :=
  opt_eqb (le_addr a) (le_addr b) && (le_port a =? le_port b).

(* Err 2 = Unaddressable, Err 1 = InvalidState *)
Definition tcp_listen (s : socket) (local_endpoint : listen_endpoint) : outcome socket :=
  if le_port local_endpoint =? 0 then Err 2 else
  if tcp_is_open s then
    if tcp_state_eqb (s_state s) Listen && listen_endpoint_eqb (s_listen_endpoint s) local_endpoint
    then Ok s else Err 1
  else
    let s := tcp_reset s in
    let s := upd_listen_endpoint s local_endpoint in
    let s := upd_tuple s None in
    Ok (tcp_set_state s Listen).

(* the unspecified address is 0; the interface has the single address cx_addr, so
   get_source_address always answers Some cx_addr; all addresses are IPv4 *)
Definition tcp_connect (cx : ctx) (s : socket) (remote_addr remote_port : Z)
           (local_endpoint : listen_endpoint) : outcome socket :=
  if tcp_is_open s then Err 1 else
  if (remote_port =? 0) || (remote_addr =? 0) then Err 2 else
  if le_port local_endpoint =? 0 then Err 2 else
  do local_addr <- match le_addr local_endpoint with
                   | Some a => if a =? 0 then Err 2 else Ok a
                   | None => Ok (cx_addr cx)
                   end;
  let s := tcp_reset s in
  let s := upd_tuple s (Some (mkTuple local_addr (le_port local_endpoint) remote_addr remote_port)) in
  let s := tcp_set_state s SynSent in
  let seq := cx_isn cx in
  let s := upd_local_seq_no s seq in
  Ok (upd_remote_last_seq s seq).

Definition tcp_close (s : socket) : socket :=
  match s_state s with
  | Listen => tcp_set_state s Closed
  | SynSent => tcp_set_state s Closed
  | SynReceived => tcp_set_state (upd_syn_unacked_in_fin_wait s true) FinWait1
  | Established => tcp_set_state s FinWait1
  | CloseWait => tcp_set_state s LastAck
  | FinWait1 | FinWait2 | Closing | TimeWait | LastAck | Closed => s
  end.

Definition tcp_abort (s : socket) : socket := tcp_set_state s Closed.

(* ---------- send / recv / peek (l.1237-1414) ---------- *)
(* send_slice: Err 1 = InvalidState; returns the number of octets enqueued *)
Definition tcp_send_slice (s : socket) (data : list Z) : outcome (socket * Z) :=
  if negb (tcp_may_send s) then Err 1 else
  let old_length := rb_len (s_tx_buffer s) in
  let '(tx, size) := rb_enqueue_slice (s_tx_buffer s) data in
  let s := upd_tx_buffer s tx in
  if size >? 0 then
    let s := if old_length =? 0 then upd_remote_last_ts s None else s in
    let s := if (s_remote_win_len s =? 0) && timer_is_idle (s_timer s)
             then upd_timer s (timer_set_for_zero_window_probe 0 (rtte_retransmission_timeout (s_rtte s)))
             else s in
    Ok (s, size)
  else Ok (s, size).

(* Err 2 = Finished, Err 1 = InvalidState *)
Definition tcp_recv_error_check (s : socket) : outcome unit :=
  if negb (tcp_may_recv s) then
    if s_rx_fin_received s then Err 2 else Err 1
  else Ok tt.

Definition tcp_recv_slice (s : socket) (n : Z) : outcome (socket * list Z) :=
  do _ <- tcp_recv_error_check s;
  let '(rx, bytes) := rb_dequeue_slice (s_rx_buffer s) n in
  let s := upd_rx_buffer s rx in
  Ok (upd_remote_seq_no s (seq_add (s_remote_seq_no s) (l_len bytes)), bytes).

(* peek(size): contiguous slice only *)
Definition tcp_peek (s : socket) (size : Z) : outcome (list Z) :=
  do _ <- tcp_recv_error_check s;
  Ok (rb_get_allocated (s_rx_buffer s) 0 size).

(* peek_slice: no state check in the source *)
Definition tcp_peek_slice (s : socket) (n : Z) : outcome (list Z) :=
  Ok (rb_read_allocated (s_rx_buffer s) 0 n).

(* l.1396: panicking SeqNumber subtraction *)
Definition tcp_flight_size (s : socket) : outcome Z :=
  seq_sub (s_remote_last_seq s) (s_local_seq_no s).

(* send_next_seq (l.1416): the highest sequence number ever sent, also after an RTO rewound
   remote_last_seq; used for segments that occupy no sequence space *)
Definition tcp_send_next_seq (s : socket) : Z :=
  match rt_max_seq_sent (s_rtte s) with
  | Some m => if seq_gt m (s_remote_last_seq s) then m else s_remote_last_seq s
  | None => s_remote_last_seq s
  end.

Definition tcp_cwnd_remaining (s : socket) : outcome Z :=
  do f <- tcp_flight_size s;
  Ok (sat_sub (cc_window (s_congestion_controller s)) f).

(* ---------- replies (l.1433-1552) ---------- *)
Definition repr_header_len (r : tcp_repr) : Z :=
  let l := wtcp_HEADER_LEN in
  let l := if is_some (r_max_seg_size r) then l + 4 else l in
  let l := if is_some (r_window_scale r) then l + 3 else l in
  let l := if r_sack_permitted r then l + 2 else l in
  let l := if is_some (r_timestamp r) then l + 10 else l in
  let sack_range_len :=
    fold_left (fun acc o => match o with Some _ => acc + 8 | None => acc end) (r_sack_ranges r) 0 in
  let l := if sack_range_len >? 0 then l + sack_range_len + 2 else l in
  if l mod 4 =? 0 then l else l + (4 - l mod 4).

Definition repr_buffer_len (r : tcp_repr) : Z := repr_header_len r + l_len (r_payload r).
Definition control_len (c : control) : Z := match c with CSyn | CFin => 1 | _ => 0 end.
Definition repr_segment_len (r : tcp_repr) : Z := l_len (r_payload r) + control_len (r_control r).
Definition repr_is_empty (r : tcp_repr) : bool :=
  match r_payload r with
  | _ :: _ => false
  | [] => match r_control r with CSyn | CFin | CRst => false | CNone | CPsh => true end
  end.
Definition quash_psh (c : control) : control := match c with CPsh => CNone | _ => c end.

Definition no_sack : list (option (Z * Z)) := [None; None; None].

Definition with_payload_len (ip : ip_repr) (r : tcp_repr) : packet :=
  (mkIp (ip_src ip) (ip_dst ip) (ip_hop_limit ip) (repr_buffer_len r), r).

Definition tcp_reply (ip : ip_repr) (r : tcp_repr) : packet :=
  let reply := mkRepr (r_dst_port r) (r_src_port r) CNone 0 None 0 None None false no_sack None [] in
  with_payload_len (mkIp (ip_dst ip) (ip_src ip) 64 0) reply.

Definition repr_set_control (r : tcp_repr) (c : control) : tcp_repr :=
  mkRepr (r_src_port r) (r_dst_port r) c (r_seq_number r) (r_ack_number r) (r_window_len r)
         (r_window_scale r) (r_max_seg_size r) (r_sack_permitted r) (r_sack_ranges r) (r_timestamp r)
         (r_payload r).
Definition repr_set_seq (r : tcp_repr) (v : Z) : tcp_repr :=
  mkRepr (r_src_port r) (r_dst_port r) (r_control r) v (r_ack_number r) (r_window_len r)
         (r_window_scale r) (r_max_seg_size r) (r_sack_permitted r) (r_sack_ranges r) (r_timestamp r)
         (r_payload r).
Definition repr_set_ack (r : tcp_repr) (v : option Z) : tcp_repr :=
  mkRepr (r_src_port r) (r_dst_port r) (r_control r) (r_seq_number r) v (r_window_len r)
         (r_window_scale r) (r_max_seg_size r) (r_sack_permitted r) (r_sack_ranges r) (r_timestamp r)
         (r_payload r).
Definition repr_set_payload (r : tcp_repr) (v : list Z) : tcp_repr :=
  mkRepr (r_src_port r) (r_dst_port r) (r_control r) (r_seq_number r) (r_ack_number r) (r_window_len r)
         (r_window_scale r) (r_max_seg_size r) (r_sack_permitted r) (r_sack_ranges r) (r_timestamp r) v.

(* rst_reply: `debug_assert!(repr.control != Rst)` *)
Definition tcp_rst_reply (ip : ip_repr) (r : tcp_repr) : outcome packet :=
  if control_eqb (r_control r) CRst then Panic else
  let '(ip', reply) := tcp_reply ip r in
  let reply := repr_set_control reply CRst in
  let reply := repr_set_seq reply (match r_ack_number r with Some a => a | None => 0 end) in
  let reply := if control_eqb (r_control r) CSyn && negb (is_some (r_ack_number r))
               then repr_set_ack reply (Some (seq_add (r_seq_number r) (repr_segment_len r)))
               else reply in
  Ok (with_payload_len ip' reply).

(* the SACK block reported by ack_reply (l.1496-1531) *)
Definition tcp_sack_block (s : socket) (ack : Z) : option (Z * Z) :=
  let ranges := map (fun lr => (seq_add ack (fst lr), seq_add ack (snd lr)))
                    (asm_iter_data (s_assembler s)) in
  let first :=
    match s_local_rx_last_seq s with
    | Some last_seg_seq =>
        find (fun lr => seq_le (fst lr) last_seg_seq && seq_ge (snd lr) last_seg_seq) ranges
    | None => None
    end in
  match first with
  | Some b => Some b
  | None => match ranges with b :: _ => Some b | [] => None end
  end.

Definition tcp_ack_reply (cx : ctx) (s : socket) (ip : ip_repr) (r : tcp_repr) : socket * packet :=
  let '(ip', reply) := tcp_reply ip r in
  let ts := match r_timestamp r with
            | Some (tsval, _) => if s_tsval_generator s then Some (cx_tsval cx, tsval) else None
            | None => None
            end in
  let ack := seq_add (s_remote_seq_no s) (rb_len (s_rx_buffer s)) in
  let s := upd_remote_last_ack s (Some ack) in
  let win := tcp_scaled_window s in
  let s := upd_remote_last_win s win in
  let sack := if s_remote_has_sack s then [tcp_sack_block s ack; None; None] else no_sack in
  let reply := mkRepr (r_src_port reply) (r_dst_port reply) CNone (tcp_send_next_seq s) (Some ack) win
                      None None false sack ts [] in
  (s, with_payload_len ip' reply).

Definition tcp_challenge_ack_reply (cx : ctx) (s : socket) (ip : ip_repr) (r : tcp_repr)
  : socket * option packet :=
  if cx_now cx <? s_challenge_ack_timer s then (s, None) else
  let s := upd_challenge_ack_timer s (cx_now cx + 1000000) in
  let '(s, p) := tcp_ack_reply cx s ip r in
  (s, Some p).

(* ---------- accepts (l.1554) ---------- *)
Definition tcp_accepts (s : socket) (ip : ip_repr) (r : tcp_repr) : bool :=
  if tcp_state_eqb (s_state s) Closed then false else
  if tcp_state_eqb (s_state s) Listen
     && (is_some (r_ack_number r) || control_eqb (r_control r) CRst) then false else
  match s_tuple s with
  | Some t =>
      (ip_dst ip =? tu_local_addr t) && (r_dst_port r =? tu_local_port t)
      && (ip_src ip =? tu_remote_addr t) && (r_src_port r =? tu_remote_port t)
  | None =>
      let addr_ok := match le_addr (s_listen_endpoint s) with
                     | Some a => ip_dst ip =? a
                     | None => true
                     end in
      addr_ok && negb (r_dst_port r =? 0) && (r_dst_port r =? le_port (s_listen_endpoint s))
  end.

(* ---------- process (l.1584-2289) ---------- *)

(* A phase either continues with a value or leaves `process` (a `return` in the source) with the
   socket as it is at that point and the reply.  [tag] identifies the branch (coverage only). *)
Inductive phase (A : Type) :=
| Cont (tag : Z) (a : A)
| Ret (tag : Z) (s : socket) (reply : option packet).
Arguments Cont {A} tag a.
Arguments Ret {A} tag s reply.

(* l.1609: (sent_syn, sent_fin); FIN-WAIT-1 entered by close() in SYN-RECEIVED still has its SYN|ACK
   unacknowledged (syn_unacked_in_fin_wait) *)
Definition tcp_sent_syn (s : socket) : bool :=
  match s_state s with
  | SynSent | SynReceived => true
  | FinWait1 => s_syn_unacked_in_fin_wait s
  | _ => false
  end.
Definition tcp_sent_fin (s : socket) : bool :=
  match s_state s with
  | FinWait1 => negb (s_syn_unacked_in_fin_wait s)
  | LastAck | Closing => true
  | _ => false
  end.
Definition b2z (b : bool) : Z := if b then 1 else 0.

(* l.1604-1703: reject unacceptable acknowledgements.  Tags 100-119. *)
Definition tcp_process_ack_check (cx : ctx) (s : socket) (ip : ip_repr) (r : tcp_repr)
  : outcome (phase unit) :=
  let iss1 := seq_add (s_local_seq_no s) 1 in
  match s_state s, r_control r, r_ack_number r with
  | SynSent, CRst, None => Ok (Ret 100 s None)
  | SynSent, CRst, Some ack_number =>
      if negb (ack_number =? iss1) then Ok (Ret 101 s None) else Ok (Cont 102 tt)
  | _, CRst, _ => Ok (Cont 103 tt)
  | Listen, _, None => Ok (Cont 104 tt)
  | Listen, _, Some _ => Panic                         (* unreachable!(): excluded by accepts() *)
  | SynSent, CSyn, Some ack_number =>
      if negb (ack_number =? iss1)
      then do p <- tcp_rst_reply ip r; Ok (Ret 105 s (Some p))
      else Ok (Cont 106 tt)
  | SynSent, CSyn, None => Ok (Cont 107 tt)
  | SynSent, CNone, Some ack_number =>
      if ack_number =? iss1 then Ok (Ret 108 s None)
      else do p <- tcp_rst_reply ip r; Ok (Ret 109 s (Some p))
  | SynSent, _, _ => Ok (Ret 110 s None)
  | _, _, None => Ok (Ret 111 s None)
  | SynReceived, _, Some ack_number =>
      if negb (ack_number =? iss1)
      then do p <- tcp_rst_reply ip r; Ok (Ret 112 s (Some p))
      else Ok (Cont 113 tt)
  | _, _, Some ack_number =>
      let control_len := b2z (tcp_sent_syn s) + b2z (tcp_sent_fin s) in
      let unacknowledged := rb_len (s_tx_buffer s) + control_len in
      let ack_min := seq_add (s_local_seq_no s) (b2z (tcp_sent_syn s)) in
      let ack_max := seq_add (s_local_seq_no s) unacknowledged in
      if seq_lt ack_number ack_min then Ok (Ret 114 s None)
      else if seq_gt ack_number ack_max then
        let '(s', p) := tcp_challenge_ack_reply cx s ip r in Ok (Ret 115 s' p)
      else Ok (Cont 116 tt)
  end.

Definition tcp_window_start (s : socket) : Z := seq_add (s_remote_seq_no s) (rb_len (s_rx_buffer s)).
Definition tcp_window_end (s : socket) : Z :=
  match s_remote_last_ack s with
  | Some last_ack =>
      seq_max (seq_add last_ack (shl (s_remote_last_win s) (s_remote_win_shift s))) (tcp_window_start s)
  | None => tcp_window_start s
  end.

(* RFC 9293 segment acceptability test, l.1719-1769.  Returns (in_window, tag 120-127). *)
Definition tcp_segment_in_window (window_start window_end segment_start segment_end : Z) : bool * Z :=
  let seg_empty := segment_start =? segment_end in
  let win_empty := window_start =? window_end in
  if seg_empty && (segment_end =? seq_subn window_start 1) then (false, 120)
  else if seg_empty && win_empty then
    if window_start =? segment_start then (true, 121) else (false, 122)
  else if seg_empty then
    if seq_le window_start segment_start && seq_lt segment_start window_end then (true, 123)
    else (false, 124)
  else if win_empty then (false, 125)
  else if (seq_le window_start segment_start && seq_lt segment_start window_end)
          || (seq_lt window_start segment_end && seq_le segment_end window_end) then (true, 126)
  else (false, 127).

(* l.1705-1832: window check and trimming.  Cont (socket, payload, payload_offset).  Tags 120-135. *)
Definition tcp_process_window (cx : ctx) (s : socket) (ip : ip_repr) (r : tcp_repr)
  : outcome (phase (socket * list Z * Z)) :=
  let window_start := tcp_window_start s in
  let window_end := tcp_window_end s in
  let segment_start := r_seq_number r in
  let segment_end := seq_add (r_seq_number r) (l_len (r_payload r)) in
  match s_state s with
  | Listen | SynSent => Ok (Cont 128 (s, [], 0))
  | _ =>
      let '(in_window, tg) := tcp_segment_in_window window_start window_end segment_start segment_end in
      if in_window then
        let overlap_start := seq_max window_start segment_start in
        let overlap_end := seq_min window_end segment_end in
        if negb (seq_le overlap_start overlap_end) then Panic else     (* debug_assert! *)
        let s := upd_local_rx_last_seq s (Some (r_seq_number r)) in
        do a <- seq_sub overlap_start segment_start;
        do b <- seq_sub overlap_end segment_start;
        do payload <- slice_range (r_payload r) a b;
        do off <- seq_sub overlap_start window_start;
        Ok (Cont tg (s, payload, off))
      else if control_eqb (r_control r) CRst then Ok (Ret (tg + 1000) s None)
      else
        let s := if tcp_state_eqb (s_state s) TimeWait
                 then upd_timer s (timer_set_for_close (cx_now cx)) else s in
        if (match r_payload r with [] => false | _ => true end)
           && (match r_control r with CNone | CPsh | CFin => true | _ => false end)
        then let '(s', p) := tcp_ack_reply cx s ip r in Ok (Ret (tg + 2000) s' (Some p))
        else let '(s', p) := tcp_challenge_ack_reply cx s ip r in Ok (Ret (tg + 3000) s' p)
  end.

(* l.1834-1860: (ack_len, ack_of_fin, ack_all) *)
Definition tcp_process_ack_len (s : socket) (r : tcp_repr) : outcome (Z * bool * bool) :=
  let sent_syn := tcp_sent_syn s in
  let sent_fin := tcp_sent_fin s in
  match r_ack_number r with
  | Some ack_number =>
      if control_eqb (r_control r) CRst then Ok (0, false, false) else
      let tx_buffer_start_seq := seq_add (s_local_seq_no s) (b2z sent_syn) in
      if seq_ge ack_number tx_buffer_start_seq then
        do ack_len <- seq_sub ack_number tx_buffer_start_seq;
        let ack_all := seq_le (s_remote_last_seq s) ack_number in
        if sent_fin && (rb_len (s_tx_buffer s) + 1 =? ack_len)
        then Ok (ack_len - 1, true, ack_all)
        else Ok (ack_len, false, ack_all)
      else Ok (0, false, false)
  | None => Ok (0, false, false)
  end.

(* l.1862-1875 *)
Definition tcp_process_quash (s : socket) (r : tcp_repr) : control :=
  let control := quash_psh (r_control r) in
  let segment_end := seq_add (r_seq_number r) (l_len (r_payload r)) in
  if control_eqb control CFin
     && (seq_lt (tcp_window_start s) (r_seq_number r) || seq_lt (tcp_window_end s) segment_end)
  then CNone else control.

(* the MSS option of a SYN (zero = absent); the congestion controller is told the segment size
   in every case, also when remote_mss keeps its default *)
Definition tcp_apply_mss (s : socket) (r : tcp_repr) : socket :=
  let s := match r_max_seg_size r with
           | Some m => if m =? 0 then s else upd_remote_mss s (Z.max m tcp_MIN_REMOTE_MSS)
           | None => s
           end in
  upd_congestion_controller s (cc_set_mss (s_congestion_controller s) (s_remote_mss s)).

Definition tcp_fin_received (s : socket) : socket :=
  let s := upd_remote_seq_no s (seq_add (s_remote_seq_no s) 1) in
  upd_rx_fin_received s true.

Definition tcp_enter_time_wait (cx : ctx) (s : socket) : socket :=
  let s := tcp_set_state s TimeWait in
  upd_timer s (timer_set_for_close (cx_now cx)).

(* l.1877-2056: the transition table.  [window_start] is the value computed before the table.
   Tags 140-169. *)
Definition tcp_process_transition (cx : ctx) (s : socket) (ip : ip_repr) (r : tcp_repr)
           (control : control) (ack_len : Z) (ack_of_fin : bool) : outcome (phase socket) :=
  match s_state s, control with
  | Listen, CRst => Ok (Ret 140 s None)
  | SynReceived, CRst =>
      if negb (le_port (s_listen_endpoint s) =? 0) then
        (* back to a pristine LISTEN: reset() keeps nothing of the aborted handshake *)
        let listen_endpoint := s_listen_endpoint s in
        let s := tcp_reset s in
        let s := upd_listen_endpoint s listen_endpoint in
        Ok (Ret 141 (tcp_set_state s Listen) None)
      else
        let s := tcp_set_state s Closed in
        Ok (Ret 142 (upd_tuple s None) None)
  | _, CRst =>
      let s := tcp_set_state s Closed in
      Ok (Ret 142 (upd_tuple s None) None)
  | Listen, CSyn =>
      let s := tcp_apply_mss s r in
      let s := upd_tuple s (Some (mkTuple (ip_dst ip) (r_dst_port r) (ip_src ip) (r_src_port r))) in
      let s := upd_local_seq_no s (cx_isn cx) in
      let s := upd_remote_seq_no s (seq_add (r_seq_number r) 1) in
      let s := upd_remote_last_seq s (s_local_seq_no s) in
      let s := upd_remote_last_ack s None in
      let s := upd_remote_last_win s 0 in
      let s := upd_remote_has_sack s (r_sack_permitted r) in
      let s := upd_remote_win_scale s (r_window_scale r) in
      let s := if is_some (s_remote_win_scale s) then s else upd_remote_win_shift s 0 in
      let s := if is_some (r_timestamp r) then s else upd_tsval_generator s false in
      let s := tcp_set_state s SynReceived in
      Ok (Cont 143 (upd_timer s (timer_set_for_idle (cx_now cx) (s_keep_alive s))))
  | SynReceived, CNone => Ok (Cont 144 (tcp_set_state s Established))
  | SynReceived, CFin => Ok (Cont 145 (tcp_set_state (tcp_fin_received s) CloseWait))
  | SynSent, CSyn =>
      let s := tcp_apply_mss s r in
      let s := upd_remote_seq_no s (seq_add (r_seq_number r) 1) in
      let s := if is_some (r_ack_number r)
               then upd_remote_last_seq s (seq_add (s_local_seq_no s) 1) else s in
      let s := upd_remote_last_ack s (Some (r_seq_number r)) in
      let s := upd_remote_has_sack s (r_sack_permitted r) in
      let s := upd_remote_win_scale s (r_window_scale r) in
      let s := if is_some (s_remote_win_scale s) then s else upd_remote_win_shift s 0 in
      let s := if is_some (r_timestamp r) then s else upd_tsval_generator s false in
      if is_some (r_ack_number r)
      then Ok (Cont 146 (tcp_set_state s Established))
      else Ok (Cont 147 (tcp_set_state s SynReceived))
  | Established, CNone => Ok (Cont 148 s)
  | Established, CFin => Ok (Cont 149 (tcp_set_state (tcp_fin_received s) CloseWait))
  | FinWait1, CNone =>
      if ack_of_fin then Ok (Cont 150 (tcp_set_state s FinWait2)) else Ok (Cont 151 s)
  | FinWait1, CFin =>
      let s := tcp_fin_received s in
      if ack_of_fin then Ok (Cont 152 (tcp_enter_time_wait cx s))
      else Ok (Cont 153 (tcp_set_state s Closing))
  | FinWait2, CNone => Ok (Cont 154 s)
  | FinWait2, CFin => Ok (Cont 155 (tcp_enter_time_wait cx (tcp_fin_received s)))
  | Closing, CNone =>
      if ack_of_fin then Ok (Cont 156 (tcp_enter_time_wait cx s)) else Ok (Cont 157 s)
  | CloseWait, CNone => Ok (Cont 158 s)
  | LastAck, CNone =>
      if ack_of_fin then
        let s := tcp_set_state s Closed in
        Ok (Cont 159 (upd_tuple s None))
      else if (ack_len =? 0) && rb_is_empty (s_tx_buffer s) then
        let '(s', p) := tcp_challenge_ack_reply cx s ip r in Ok (Ret 160 s' p)
      else Ok (Cont 161 s)
  | _, _ => Ok (Ret 162 s None)
  end.

(* l.2058-2088: remote_last_ts, remote window, dequeue acknowledged octets.
   Returns the socket and is_window_update. *)
Definition tcp_process_update_remote (cx : ctx) (s : socket) (r : tcp_repr) (ack_len : Z)
  : outcome (socket * bool) :=
  let s := upd_remote_last_ts s (Some (cx_now cx)) in
  let scale := match r_control r with
               | CSyn => 0
               | _ => match s_remote_win_scale s with Some x => x | None => 0 end
               end in
  let new_remote_win_len := shl (r_window_len r) scale in
  let is_window_update := negb (new_remote_win_len =? s_remote_win_len s) in
  let s := upd_remote_win_len s new_remote_win_len in
  let s := upd_congestion_controller s (cc_set_remote_window (s_congestion_controller s) new_remote_win_len) in
  if ack_len >? 0 then
    if negb (rb_len (s_tx_buffer s) >=? ack_len) then Panic else          (* debug_assert! *)
    do tx <- rb_dequeue_allocated (s_tx_buffer s) ack_len;
    Ok (upd_tx_buffer s tx, is_window_update)
  else Ok (s, is_window_update).

(* l.2090-2165.  Tags 170-173. *)
Definition tcp_process_dup_ack (cx : ctx) (s : socket) (r : tcp_repr) (ack_len : Z)
           (is_window_update : bool) : outcome (socket * Z) :=
  match r_ack_number r with
  | None => Ok (s, 170)
  | Some ack_number =>
      let is_dup :=
        match s_local_rx_last_ack s with
        | Some last_rx_ack =>
            (match r_payload r with [] => true | _ => false end)
            && (last_rx_ack =? ack_number)
            && seq_lt ack_number (s_remote_last_seq s)
            && negb is_window_update
        | None => false
        end in
      do st <-
        (if is_dup then
           let n := Z.min 255 (s_local_rx_dup_acks s + 1) in
           let s := upd_local_rx_dup_acks s n in
           let s := if (n =? 3) && negb (rb_is_empty (s_tx_buffer s))
                    then upd_timer s TFastRetransmit else s in
           do in_flight <- tcp_flight_size s;
           Ok (upd_congestion_controller s (cc_on_dup_ack (s_congestion_controller s) (s_remote_mss s)),
               if n =? 3 then 172 else 171)
         else
           let s := if s_local_rx_dup_acks s >? 0 then upd_local_rx_dup_acks s 0 else s in
           let s := upd_local_rx_last_ack s (Some ack_number) in
           do rtte <- rtte_on_ack (s_rtte s) (cx_now cx) ack_number;
           let s := upd_rtte s rtte in
           do f <- tcp_flight_size s;
           do cc <- cc_on_ack (s_congestion_controller s) ack_len;
           Ok (upd_congestion_controller s cc, 173));
      let '(s, tg) := st in
      let s := upd_local_seq_no s ack_number in
      let s := upd_syn_unacked_in_fin_wait s false in
      let s := if seq_lt (s_remote_last_seq s) (s_local_seq_no s)
               then upd_remote_last_seq s (s_local_seq_no s) else s in
      Ok (s, tg)
  end.

(* l.2172-2189.  Tags 180-184. *)
Definition tcp_process_timers (cx : ctx) (s : socket) (ack_len : Z) (ack_all : bool) : socket * Z :=
  match s_timer s with
  | TRetransmit _ | TFastRetransmit =>
      if ack_all then (upd_timer s (timer_set_for_idle (cx_now cx) (s_keep_alive s)), 180)
      else if ack_len >? 0 then
        (upd_timer s (timer_set_for_retransmit (s_timer s) (cx_now cx)
                                               (rtte_retransmission_timeout (s_rtte s))), 181)
      else (s, 182)
  | TIdle _ => (upd_timer s (timer_set_for_idle (cx_now cx) (s_keep_alive s)), 183)
  | _ => (s, 184)
  end.

(* l.2191-2216.  Tags 185-188. *)
Definition tcp_process_zwp (cx : ctx) (s : socket) (ack_len : Z) : socket * Z :=
  let '(s, tg) :=
    if (s_remote_win_len s =? 0) && negb (rb_is_empty (s_tx_buffer s))
       && (timer_is_idle (s_timer s) || (ack_len >? 0))
    then (upd_timer s (timer_set_for_zero_window_probe (cx_now cx)
                         (rtte_retransmission_timeout (s_rtte s))), 186)
    else (s, 185) in
  if (negb (s_remote_win_len s =? 0) || rb_is_empty (s_tx_buffer s))
     && timer_is_zero_window_probe (s_timer s)
  then
    let s := upd_timer s (timer_set_for_idle (cx_now cx) (s_keep_alive s)) in
    if negb (s_remote_last_seq s =? s_local_seq_no s)
    then (upd_timer s (timer_set_for_retransmit (s_timer s) (cx_now cx)
                                                (rtte_retransmission_timeout (s_rtte s))), 188)
    else (s, 187)
  else (s, tg).

(* l.2291, l.2374-2406 *)
Definition tcp_timed_out (s : socket) (timestamp : Z) : bool :=
  match s_remote_last_ts s, s_timeout s with
  | Some remote_last_ts, Some timeout => timestamp >=? remote_last_ts + timeout
  | _, _ => false
  end.
Definition tcp_delayed_ack_expired (s : socket) (timestamp : Z) : bool :=
  match s_ack_delay_timer s with
  | ADIdle => true
  | ADWaiting t => t <=? timestamp
  | ADImmediate => true
  end.
Definition tcp_ack_to_transmit (s : socket) : bool :=
  match s_remote_last_ack s with
  | Some remote_last_ack => seq_lt remote_last_ack (tcp_window_start s)
  | None => false
  end.
Definition tcp_immediate_ack_to_transmit (s : socket) : bool :=
  match s_remote_last_ack s with
  | Some remote_last_ack => seq_lt (seq_add remote_last_ack (s_remote_mss s)) (tcp_window_start s)
  | None => false
  end.

(* l.2205-2289: payload into the assembler and the ring, delayed ACK, reply.  Tags 190-199. *)
Definition tcp_process_payload (cx : ctx) (s : socket) (ip : ip_repr) (r : tcp_repr)
           (payload : list Z) (payload_offset : Z) : outcome (socket * option packet * Z) :=
  let payload_len := l_len payload in
  if payload_len =? 0 then Ok (s, None, 190) else
  let assembler_was_empty := asm_is_empty (s_assembler s) in
  let '(asm', res) := asm_atrf cfg_ASSEMBLER_MAX_SEGMENT_COUNT (s_assembler s) payload_offset payload_len in
  match res with
  | None => Ok (s, None, 191)
  | Some contig_len =>
      let s := upd_assembler s asm' in
      let '(rx, len_written) := rb_write_unallocated (s_rx_buffer s) payload_offset payload in
      if negb (len_written =? payload_len) then Panic else               (* debug_assert! *)
      do rx <- (if negb (contig_len =? 0) then rb_enqueue_unallocated rx contig_len else Ok rx);
      let s := upd_rx_buffer s rx in
      let '(s, tg) :=
        match s_ack_delay s with
        | Some ack_delay =>
            if tcp_ack_to_transmit s then
              match s_ack_delay_timer s with
              | ADIdle => (upd_ack_delay_timer s (ADWaiting (cx_now cx + ack_delay)), 193)
              | ADWaiting _ =>
                  if tcp_immediate_ack_to_transmit s
                  then (upd_ack_delay_timer s ADImmediate, 194) else (s, 195)
              | ADImmediate => (s, 196)
              end
            else (s, 192)
        | None => (s, 197)
        end in
      if negb (asm_is_empty (s_assembler s)) || negb assembler_was_empty then
        let '(s', p) := tcp_ack_reply cx s ip r in Ok (s', Some p, tg + 10000)
      else Ok (s, None, tg)
  end.

(* process: returns the socket, the reply and the branch tags (coverage only) *)
Definition tcp_process (cx : ctx) (s : socket) (ip : ip_repr) (r : tcp_repr)
  : outcome (socket * option packet * list Z) :=
  if negb (tcp_accepts s ip r) then Panic else                           (* debug_assert! *)
  do p1 <- tcp_process_ack_check cx s ip r;
  match p1 with
  | Ret t1 s' reply => Ok (s', reply, [t1])
  | Cont t1 _ =>
  do p2 <- tcp_process_window cx s ip r;
  match p2 with
  | Ret t2 s' reply => Ok (s', reply, [t1; t2])
  | Cont t2 (s2, payload, payload_offset) =>
  (* ack_len and the FIN quash use the state/window before the table; local_rx_last_seq does not
     influence them *)
  do al <- tcp_process_ack_len s2 r;
  let '(ack_len, ack_of_fin, ack_all) := al in
  let control := tcp_process_quash s2 r in
  do p3 <- tcp_process_transition cx s2 ip r control ack_len ack_of_fin;
  match p3 with
  | Ret t3 s' reply => Ok (s', reply, [t1; t2; t3])
  | Cont t3 s3 =>
  do ur <- tcp_process_update_remote cx s3 r ack_len;
  let '(s4, is_window_update) := ur in
  do da <- tcp_process_dup_ack cx s4 r ack_len is_window_update;
  let '(s5, t5) := da in
  let s5 := match r_timestamp r with
            | Some (tsval, _) => upd_last_remote_tsval s5 tsval
            | None => s5
            end in
  let '(s6, t6) := tcp_process_timers cx s5 ack_len ack_all in
  let '(s7, t7) := tcp_process_zwp cx s6 ack_len in
  do pr <- tcp_process_payload cx s7 ip r payload payload_offset;
  let '(s8, reply, t8) := pr in
  Ok (s8, reply, [t1; t2; t3; t5; t6; t7; t8])
  end end end.

(* ---------- dispatch (l.2298-2810) ---------- *)

Definition tcp_window_to_update (s : socket) : outcome bool :=
  if s_syn_unacked_in_fin_wait s then Ok false else
  match s_state s with
  | SynSent | Established | FinWait1 | FinWait2 =>
      let new_win := tcp_scaled_window s in
      do lw <- tcp_last_scaled_window s;
      match lw with
      | Some last_win => Ok ((new_win >? 0) && (new_win / 2 >=? last_win))
      | None => Ok false
      end
  | _ => Ok false
  end.

(* `cx.ip_mtu() - ip_header_len - TCP_HEADER_LEN` (usize subtractions); IPv4 only *)
Definition tcp_local_mss (cx : ctx) : outcome Z :=
  do a <- usub (cx_ip_mtu cx) wipv4_HEADER_LEN;
  usub a wtcp_HEADER_LEN.

(* l.2298 *)
Definition tcp_seq_to_transmit (cx : ctx) (s : socket) : outcome bool :=
  if s_pending_fast_retransmit s && negb (rb_is_empty (s_tx_buffer s)) && (s_remote_win_len s >? 0)
  then Ok true else
  match s_tuple s with
  | None => Panic                                                       (* unwrap() *)
  | Some _ =>
      let options_len := if s_tsval_generator s then 12 else 0 in
      do local_mss <- tcp_local_mss cx;
      let effective_mss := sat_sub (Z.min local_mss (s_remote_mss s)) options_len in
      let data_in_flight := negb (s_remote_last_seq s =? s_local_seq_no s) in
      if ((match s_state s with SynSent | SynReceived => true | _ => false end)
          || s_syn_unacked_in_fin_wait s) && negb data_in_flight
      then Ok true else
      let max_send_seq :=
        seq_add (s_local_seq_no s) (Z.min (s_remote_win_len s) (rb_len (s_tx_buffer s))) in
      do capped_send_seq <-
        (if seq_ge max_send_seq (s_remote_last_seq s)
         then seq_sub max_send_seq (s_remote_last_seq s) else Ok 0);
      do cwr <- tcp_cwnd_remaining s;
      let max_send := Z.min capped_send_seq cwr in
      let can_send := negb (max_send =? 0) in
      let can_send_full := max_send >=? effective_mss in
      let want_fin := match s_state s with FinWait1 | Closing | LastAck => true | _ => false end in
      let can_send := if s_nagle s && data_in_flight && negb can_send_full && negb want_fin
                      then false else can_send in
      let can_fin := want_fin
                     && (s_remote_last_seq s =? seq_add (s_local_seq_no s) (rb_len (s_tx_buffer s))) in
      Ok (can_send || can_fin)
  end.

Inductive dispatch_result :=
| DNothing                      (* returned Ok(()) without calling emit *)
| DSent (p : packet)            (* emit succeeded *)
| DEmitFailed (p : packet).     (* emit returned Err: state as it was at the `?` *)

(* l.2453-2512: remote_last_ts initialisation and timer-driven state changes.  Tags 200-204. *)
Definition tcp_dispatch_timers (cx : ctx) (s : socket) : outcome (socket * Z) :=
  let now := cx_now cx in
  let s := if is_some (s_remote_last_ts s) then s else upd_remote_last_ts s (Some now) in
  if tcp_timed_out s now then Ok (tcp_set_state s Closed, 201)
  else if timer_should_retransmit (s_timer s) now then
    do in_flight <- tcp_flight_size s;
    let '(s, tg) :=
      match s_timer s with
      | TRetransmit _ =>
          let s := upd_congestion_controller s (cc_on_rto (s_congestion_controller s) in_flight) in
          let s := upd_remote_last_seq s (s_local_seq_no s) in
          let s := upd_rtte s (rtte_on_rto (s_rtte s)) in
          (upd_pending_fast_retransmit s false, 202)
      | _ =>
          let s := upd_congestion_controller s (cc_on_loss (s_congestion_controller s) in_flight) in
          (upd_pending_fast_retransmit s true, 203)
      end in
    let s := upd_timer s (timer_set_for_idle now (s_keep_alive s)) in
    let rto := rtte_retransmission_timeout (s_rtte s) in
    let s := if s_pending_fast_retransmit s
             then upd_timer s (timer_set_for_retransmit (s_timer s) now rto)
             else if (s_remote_win_len s =? 0) && negb (rb_is_empty (s_tx_buffer s))
             then upd_timer s (timer_set_for_zero_window_probe now rto)
             else s in
    Ok (upd_rtte s (rtte_on_retransmit (s_rtte s)), tg)
  else Ok (s, 200).

(* l.2519-2544: is there a reason to send?  Some tag = go on (210-215); None = return, with the
   socket (CLOSED, tuple cleared, when the TIME-WAIT timer expired).  Tags 210-217. *)
Definition tcp_dispatch_decide (cx : ctx) (s : socket) : outcome (socket * bool * Z) :=
  let now := cx_now cx in
  do stt <- tcp_seq_to_transmit cx s;
  if stt then Ok (s, true, 210) else
  if tcp_ack_to_transmit s && tcp_delayed_ack_expired s now then Ok (s, true, 211) else
  do wtu <- tcp_window_to_update s;
  if wtu then Ok (s, true, 212) else
  if tcp_state_eqb (s_state s) Closed then Ok (s, true, 213) else
  if timer_should_keep_alive (s_timer s) now then Ok (s, true, 214) else
  if timer_should_zero_window_probe (s_timer s) now then Ok (s, true, 215) else
  if timer_should_close (s_timer s) now
  then Ok (upd_tuple (tcp_set_state s Closed) None, false, 216) else
  Ok (s, false, 217).

(* l.2640-2671: the SYN (SYN-SENT) or SYN|ACK (SYN-RECEIVED, FIN-WAIT-1 with the SYN unacknowledged):
   unscaled window, window-scale and SACK-permitted options *)
Definition tcp_syn_repr (s : socket) (repr : tcp_repr) (ts : option (Z * Z)) (syn_sent : bool) : tcp_repr :=
  mkRepr (r_src_port repr) (r_dst_port repr) CSyn (s_local_seq_no s)
         (if syn_sent then None else r_ack_number repr)
         (u16_try (rb_window (s_rx_buffer s)))
         (if syn_sent then Some (s_remote_win_shift s)
          else match s_remote_win_scale s with
               | Some _ => Some (s_remote_win_shift s) | None => None end)
         None
         (if syn_sent then true else s_remote_has_sack s)
         no_sack ts [].

(* l.2673-2760: the data states of dispatch (ESTABLISHED, FIN-WAIT-1, CLOSING, CLOSE-WAIT, LAST-ACK):
   how much of the transmit buffer goes into the segment, PSH / FIN.  Tags 224-226. *)
Definition tcp_dispatch_build_data (cx : ctx) (s : socket) (repr : tcp_repr)
  : outcome (socket * option tcp_repr * bool * Z) :=
  let now := cx_now cx in
  do options_len <- usub (repr_header_len repr) wtcp_HEADER_LEN;
  do local_mss <- tcp_local_mss cx;
  let effective_mss := sat_sub (Z.min local_mss (s_remote_mss s)) options_len in
  do r1 <-
    (if s_pending_fast_retransmit s && (s_remote_win_len s >? 0) then
       let size := Z.min (Z.min effective_mss (rb_len (s_tx_buffer s))) (s_remote_win_len s) in
       let repr := repr_set_seq repr (s_local_seq_no s) in
       let repr := repr_set_payload repr (rb_get_allocated (s_tx_buffer s) 0 size) in
       Ok (upd_pending_fast_retransmit s false, repr, 0, false, 224)
     else
       let win_right_edge := seq_add (s_local_seq_no s) (s_remote_win_len s) in
       do win_limit <-
         (if seq_ge win_right_edge (s_remote_last_seq s)
          then seq_sub win_right_edge (s_remote_last_seq s) else Ok 0);
       let zwp := (win_limit =? 0) && timer_should_zero_window_probe (s_timer s) now in
       let win_limit := if zwp then 1 else win_limit in
       do size <-
         (if zwp then Ok (Z.min win_limit effective_mss)
          else do cwr <- tcp_cwnd_remaining s;
               Ok (Z.min (Z.min win_limit effective_mss) cwr));
       do offset <- tcp_flight_size s;
       let repr := repr_set_payload repr (rb_get_allocated (s_tx_buffer s) offset size) in
       Ok (s, repr, offset, zwp, if zwp then 225 else 226));
  let '(s, repr, offset, zwp, tg) := r1 in
  let has_payload := match r_payload repr with [] => false | _ => true end in
  let repr :=
    if offset + l_len (r_payload repr) =? rb_len (s_tx_buffer s) then
      match s_state s with
      | FinWait1 | LastAck | Closing => repr_set_control repr CFin
      | Established | CloseWait => if has_payload then repr_set_control repr CPsh else repr
      | _ => repr
      end
    else repr in
  Ok (s, Some repr, zwp, tg).

(* l.2546-2734: construct the segment.  Returns the socket (pending_fast_retransmit may be cleared),
   the segment or None (LISTEN), is_zero_window_probe, is_keep_alive.  Tags 220-228. *)
Definition tcp_dispatch_build (cx : ctx) (s : socket) (t : tuple)
  : outcome (socket * option tcp_repr * bool * bool * Z) :=
  let now := cx_now cx in
  let ts := if s_tsval_generator s then Some (cx_tsval cx, s_last_remote_tsval s) else None in
  let repr := mkRepr (tu_local_port t) (tu_remote_port t) CNone (s_remote_last_seq s)
                     (Some (tcp_window_start s)) (tcp_scaled_window s) None None false no_sack ts [] in
  do built <-
    match s_state s with
    | Closed => Ok (s, Some (repr_set_control repr CRst), false, 220)
    | Listen => Ok (s, None, false, 221)
    | FinWait1 =>
        if s_syn_unacked_in_fin_wait s
        then Ok (s, Some (tcp_syn_repr s repr ts false), false, 228)   (* SYN|ACK again, l.2663 *)
        else tcp_dispatch_build_data cx s repr
    | SynSent => Ok (s, Some (tcp_syn_repr s repr ts true), false, 222)
    | SynReceived => Ok (s, Some (tcp_syn_repr s repr ts false), false, 223)
    | Established | Closing | CloseWait | LastAck => tcp_dispatch_build_data cx s repr
    | FinWait2 | TimeWait => Ok (s, Some repr, false, 227)
    end;
  let '(s, orepr, zwp, tg) := built in
  match orepr with
  | None => Ok (s, None, false, false, tg)
  | Some repr =>
      let repr := if repr_is_empty repr && control_eqb (r_control repr) CNone
                  then repr_set_seq repr (tcp_send_next_seq s) else repr in
      let is_keep_alive := timer_should_keep_alive (s_timer s) now && repr_is_empty repr in
      let repr := if is_keep_alive
                  then repr_set_payload (repr_set_seq repr (seq_subn (r_seq_number repr) 1)) [0]
                  else repr in
      do repr <-
        (if control_eqb (r_control repr) CSyn then
           do m <- tcp_local_mss cx;
           Ok (mkRepr (r_src_port repr) (r_dst_port repr) (r_control repr) (r_seq_number repr)
                      (r_ack_number repr) (r_window_len repr) (r_window_scale repr)
                      (Some (m mod 65536)) (r_sack_permitted repr) (r_sack_ranges repr)
                      (r_timestamp repr) (r_payload repr))
         else Ok repr);
      Ok (s, Some repr, zwp, is_keep_alive, tg)
  end.

(* l.2746-2809: state update after a successful emit.  Tags 240-243. *)
Definition tcp_dispatch_finish (cx : ctx) (s : socket) (repr : tcp_repr)
           (is_zero_window_probe is_keep_alive : bool) : socket * Z :=
  let now := cx_now cx in
  let s := upd_timer s (timer_rewind_keep_alive (s_timer s) now (s_keep_alive s)) in
  let s := upd_ack_delay_timer s ADIdle in
  if is_zero_window_probe then (upd_timer s (timer_rewind_zero_window_probe (s_timer s) now), 240) else
  if is_keep_alive then (s, 241) else
  let seg_end := seq_add (r_seq_number repr) (repr_segment_len repr) in
  let s := if repr_segment_len repr >? 0
           then upd_remote_last_seq s (seq_max (s_remote_last_seq s) seg_end) else s in
  let s := upd_remote_last_ack s (r_ack_number repr) in
  let s := upd_remote_last_win s (if control_eqb (r_control repr) CSyn
                                  then shr (r_window_len repr) (s_remote_win_shift s)
                                  else r_window_len repr) in
  let s := if repr_segment_len repr >? 0
           then upd_rtte s (rtte_on_send (s_rtte s) now seg_end) else s in
  let '(s, tg) :=
    if (repr_segment_len repr >? 0) && negb (timer_is_retransmit (s_timer s))
    then (upd_timer s (timer_set_for_retransmit (s_timer s) now (rtte_retransmission_timeout (s_rtte s))), 242)
    else (s, 243) in
  if tcp_state_eqb (s_state s) Closed then (upd_tuple s None, tg) else (s, tg).

(* dispatch; [emit_ok] = what the `emit` callback returns (device has a tx token) *)
Definition tcp_dispatch (cx : ctx) (s : socket) (emit_ok : bool)
  : outcome (socket * dispatch_result * list Z) :=
  match s_tuple s with
  | None => Ok (s, DNothing, [205])
  | Some t =>
      if negb (tu_local_addr t =? cx_addr cx) then Ok (tcp_reset s, DNothing, [206]) else
      do d1 <- tcp_dispatch_timers cx s;
      let '(s, t1) := d1 in
      do d2 <- tcp_dispatch_decide cx s;
      let '(s, go, t2) := d2 in
      if negb go then Ok (s, DNothing, [t1; t2]) else
      do d3 <- tcp_dispatch_build cx s t;
      let '(s, orepr, zwp, ka, t3) := d3 in
      match orepr with
      | None => Ok (s, DNothing, [t1; t2; t3])
      | Some repr =>
          let hop := match s_hop_limit s with Some h => h | None => 64 end in
          let p := with_payload_len (mkIp (tu_local_addr t) (tu_remote_addr t) hop 0) repr in
          if negb emit_ok then Ok (s, DEmitFailed p, [t1; t2; t3; 244]) else
          let '(s, t4) := tcp_dispatch_finish cx s repr zwp ka in
          Ok (s, DSent p, [t1; t2; t3; t4; if ka then 245 else 246])
      end
  end.

(* l.2813 *)
Definition tcp_poll_at (cx : ctx) (s : socket) : outcome poll_at :=
  if negb (is_some (s_tuple s)) then Ok PIngress else
  if negb (is_some (s_remote_last_ts s)) then Ok PNow else
  if tcp_state_eqb (s_state s) Closed then Ok PNow else
  do stt <- tcp_seq_to_transmit cx s;
  if stt then Ok PNow else
  do wtu <- tcp_window_to_update s;
  if wtu then Ok PNow else
  let want_ack := tcp_ack_to_transmit s in
  let delayed_ack_poll_at :=
    if negb want_ack then PIngress else
    match s_ack_delay_timer s with
    | ADIdle => PNow
    | ADWaiting t => PTime t
    | ADImmediate => PNow
    end in
  let timeout_poll_at :=
    match s_remote_last_ts s, s_timeout s with
    | Some remote_last_ts, Some timeout => PTime (remote_last_ts + timeout)
    | _, _ => PIngress
    end in
  Ok (poll_at_min (poll_at_min (timer_poll_at (s_timer s)) timeout_poll_at) delayed_ack_poll_at).

(* ---------- interface glue for one socket ---------- *)

(* TcpRepr::parse (wire/tcp.rs l.921): flag combination -> Control; other combinations are a
   parse error (the segment is dropped by process_tcp) *)
Definition control_of_flags (syn fin rst psh : bool) : option control :=
  match syn, fin, rst, psh with
  | false, false, false, false => Some CNone
  | false, false, false, true => Some CPsh
  | true, false, false, _ => Some CSyn
  | false, true, false, _ => Some CFin
  | false, false, true, _ => Some CRst
  | _, _, _, _ => None
  end.

(* InterfaceInner::process_tcp (iface/interface/tcp.rs) with one TCP socket and no raw socket.
   [r] is the parsed segment (ports non-zero, window scale already clamped to 14 by the parser:
   [wire_clamp_wscale]).  Returns the socket, the reply, the tags. *)
Definition wire_clamp_wscale (o : option Z) : option Z :=
  match o with Some v => Some (if v >? 14 then 14 else v) | None => None end.

Definition iface_tcp_ingress (cx : ctx) (s : socket) (ip : ip_repr) (r : tcp_repr)
  : outcome (socket * option packet * list Z) :=
  (* the broadcast / multicast / foreign-loopback destination filter of process_tcp is not
     represented: in this model every segment is addressed to the interface address *)
  if (ip_src ip =? 0) || (ip_dst ip =? 0) then Ok (s, None, [300]) else
  if (r_src_port r =? 0) || (r_dst_port r =? 0) then Ok (s, None, [301]) else
  if tcp_accepts s ip r then tcp_process cx s ip r
  else if control_eqb (r_control r) CRst then Ok (s, None, [302])
  else do p <- tcp_rst_reply ip r; Ok (s, Some p, [303]).

(* Interface::poll_at (mod.rs l.582) for one socket whose Meta is Active *)
Definition iface_poll_at (cx : ctx) (s : socket) : outcome (option Z) :=
  do p <- tcp_poll_at cx s;
  Ok (match p with PIngress => None | PTime t => Some t | PNow => Some 0 end).

(* The egress loop of Interface::poll (mod.rs l.490-495, socket_egress l.700): dispatch is called
   until it emits nothing; [budget] = frames the device still accepts (None = unlimited); a refused
   frame (Exhausted) ends the loop.  Returns the frames sent (in order), the tags, and whether the
   loop ended by itself ([false] = [fuel] ran out).  Accumulator-passing so that the extracted code
   runs in constant stack. *)
Fixpoint iface_poll_egress_acc (fuel : nat) (cx : ctx) (s : socket) (budget : option Z)
         (sent : list packet) (tags : list Z) : outcome (socket * list packet * list Z * bool) :=
  match fuel with
  | O => Ok (s, rev_append sent [], rev_append tags [], false)
  | S fuel' =>
      let emit_ok := match budget with Some b => b >? 0 | None => true end in
      do d <- tcp_dispatch cx s emit_ok;
      let '(s, res, tg) := d in
      let tags := rev_append tg tags in
      match res with
      | DNothing => Ok (s, rev_append sent [], rev_append tags [], true)
      | DEmitFailed _ => Ok (s, rev_append sent [], rev_append tags [], true)
      | DSent p =>
          let budget := match budget with Some b => Some (b - 1) | None => None end in
          iface_poll_egress_acc fuel' cx s budget (p :: sent) tags
      end
  end.

Definition iface_poll_egress (fuel : nat) (cx : ctx) (s : socket) (budget : option Z)
  : outcome (socket * list packet * list Z * bool) :=
  iface_poll_egress_acc fuel cx s budget [] [].

(* ---------- events: one API call, one ingress segment, or one dispatch ---------- *)
Inductive event :=
| EvListen (ep : listen_endpoint)
| EvConnect (remote_addr remote_port : Z) (local : listen_endpoint)   (* ISN = cx_isn *)
| EvClose
| EvAbort
| EvSend (data : list Z)
| EvRecv (n : Z)
| EvPeek (n : Z)
| EvPeekSlice (n : Z)
| EvSetTimeout (d : option Z)
| EvSetKeepAlive (d : option Z)
| EvSetAckDelay (d : option Z)
| EvSetNagle (b : bool)
| EvSetHopLimit (h : option Z)
| EvSegment (ip : ip_repr) (r : tcp_repr)       (* process_tcp on a parsed segment *)
| EvDispatch (emit_ok : bool).                  (* one Socket::dispatch call *)

Inductive step_out :=
| OUnit
| OErr (e : Z)
| OSize (n : Z)
| OBytes (l : list Z)
| OReply (p : option packet)
| ODispatch (r : dispatch_result).

(* An API call that fails with Err leaves the socket unchanged (every Err above is returned before
   any mutation). *)
Definition tcp_step (cx : ctx) (s : socket) (ev : event) : outcome (socket * step_out * list Z) :=
  match ev with
  | EvListen ep =>
      match tcp_listen s ep with
      | Ok s' => Ok (s', OUnit, []) | Err e => Ok (s, OErr e, []) | Panic => Panic end
  | EvConnect ra rp local =>
      match tcp_connect cx s ra rp local with
      | Ok s' => Ok (s', OUnit, []) | Err e => Ok (s, OErr e, []) | Panic => Panic end
  | EvClose => Ok (tcp_close s, OUnit, [])
  | EvAbort => Ok (tcp_abort s, OUnit, [])
  | EvSend data =>
      match tcp_send_slice s data with
      | Ok (s', n) => Ok (s', OSize n, []) | Err e => Ok (s, OErr e, []) | Panic => Panic end
  | EvRecv n =>
      match tcp_recv_slice s n with
      | Ok (s', l) => Ok (s', OBytes l, []) | Err e => Ok (s, OErr e, []) | Panic => Panic end
  | EvPeek n =>
      match tcp_peek s n with
      | Ok l => Ok (s, OBytes l, []) | Err e => Ok (s, OErr e, []) | Panic => Panic end
  | EvPeekSlice n =>
      match tcp_peek_slice s n with
      | Ok l => Ok (s, OBytes l, []) | Err e => Ok (s, OErr e, []) | Panic => Panic end
  | EvSetTimeout d => Ok (tcp_set_timeout s d, OUnit, [])
  | EvSetKeepAlive d => Ok (tcp_set_keep_alive s d, OUnit, [])
  | EvSetAckDelay d => Ok (tcp_set_ack_delay s d, OUnit, [])
  | EvSetNagle b => Ok (tcp_set_nagle_enabled s b, OUnit, [])
  | EvSetHopLimit h => do s' <- tcp_set_hop_limit s h; Ok (s', OUnit, [])
  | EvSegment ip r =>
      do x <- iface_tcp_ingress cx s ip r;
      let '(s', reply, tags) := x in Ok (s', OReply reply, tags)
  | EvDispatch emit_ok =>
      do x <- tcp_dispatch cx s emit_ok;
      let '(s', res, tags) := x in Ok (s', ODispatch res, tags)
  end.

(* ---------- remaining public API: predicates, error arms of connect, closure send/recv ---------- *)
(* (added after the events above; nothing above depends on this part) *)

(* is_listening l.1138, is_active l.1175 *)
Definition tcp_is_listening (s : socket) : bool :=
  match s_state s with Listen => true | _ => false end.
Definition tcp_is_active (s : socket) : bool :=
  match s_state s with Closed | TimeWait | Listen => false | _ => true end.

(* connect (l.1024) with the address families made explicit.  [tcp_connect] is the IPv4 instance;
   here the remote may be an IPv6 address ([remote_v6]; [remote_addr] = 0 still means unspecified)
   and a local address, when given, is IPv4.  Same order of checks as the source:
   InvalidState (Err 1); remote port 0 / unspecified remote; local port 0; unspecified local
   address; address-family mismatch (all Err 2 = Unaddressable).  With no local address the
   interface would pick a source address of the remote's family: the model has IPv4 interfaces
   only, so [remote_v6] with [le_addr local = None] is outside the model (never generated). *)
Definition tcp_connect_af (cx : ctx) (s : socket) (remote_v6 : bool) (remote_addr remote_port : Z)
           (local_endpoint : listen_endpoint) : outcome socket :=
  if tcp_is_open s then Err 1 else
  if (remote_port =? 0) || (remote_addr =? 0) then Err 2 else
  if le_port local_endpoint =? 0 then Err 2 else
  match le_addr local_endpoint with
  | Some a =>
      if a =? 0 then Err 2 else
      if remote_v6 then Err 2 else tcp_connect cx s remote_addr remote_port local_endpoint
  | None => tcp_connect cx s remote_addr remote_port local_endpoint
  end.

(* send_impl (l.1253) after the buffer operation: remote_last_ts and the zero-window-probe timer *)
Definition tcp_send_impl_post (s : socket) (old_length size : Z) : socket :=
  if size >? 0 then
    let s := if old_length =? 0 then upd_remote_last_ts s None else s in
    if (s_remote_win_len s =? 0) && timer_is_idle (s_timer s)
    then upd_timer s (timer_set_for_zero_window_probe 0 (rtte_retransmission_timeout (s_rtte s)))
    else s
  else s.

(* Socket::send(f) (l.1298) with f = "write min(slice length, |data|) octets of data":
   returns the socket, the number of octets taken and the length of the slice f saw *)
Definition tcp_send_with (s : socket) (data : list Z) : outcome (socket * Z * Z) :=
  if negb (tcp_may_send s) then Err 1 else
  let old_length := rb_len (s_tx_buffer s) in
  let slice_len := rb_enqueue_window (s_tx_buffer s) in
  let '(tx, size, _) := rb_enqueue_pass (s_tx_buffer s) data in
  let s := upd_tx_buffer s tx in
  Ok (tcp_send_impl_post s old_length size, size, slice_len).

(* Socket::recv(f) (l.1362) with f = "take min(slice length, k) octets": the octets and the
   length of the slice f saw *)
Definition tcp_recv_with (s : socket) (k : Z) : outcome (socket * list Z * Z) :=
  do _ <- tcp_recv_error_check s;
  let slice_len := rb_dequeue_window (s_rx_buffer s) in
  let '(rx, bytes) := rb_dequeue_pass (s_rx_buffer s) k in
  let s := upd_rx_buffer s rx in
  Ok (upd_remote_seq_no s (seq_add (s_remote_seq_no s) (l_len bytes)), bytes, slice_len).

(* events including these calls *)
Inductive event_x :=
| XEv (ev : event)
| XConnectAf (remote_v6 : bool) (remote_addr remote_port : Z) (local : listen_endpoint)
| XSendWith (data : list Z)
| XRecvWith (k : Z).

Inductive step_out_x :=
| XOut (o : step_out)
| XSizeSlice (n slice_len : Z)
| XBytesSlice (l : list Z) (slice_len : Z).

Definition tcp_step_x (cx : ctx) (s : socket) (ev : event_x) : outcome (socket * step_out_x * list Z) :=
  match ev with
  | XEv e => do x <- tcp_step cx s e; let '(s', o, tags) := x in Ok (s', XOut o, tags)
  | XConnectAf v6 ra rp local =>
      match tcp_connect_af cx s v6 ra rp local with
      | Ok s' => Ok (s', XOut OUnit, []) | Err e => Ok (s, XOut (OErr e), []) | Panic => Panic end
  | XSendWith data =>
      match tcp_send_with s data with
      | Ok (s', n, sl) => Ok (s', XSizeSlice n sl, []) | Err e => Ok (s, XOut (OErr e), []) | Panic => Panic end
  | XRecvWith k =>
      match tcp_recv_with s k with
      | Ok (s', l, sl) => Ok (s', XBytesSlice l sl, []) | Err e => Ok (s, XOut (OErr e), []) | Panic => Panic end
  end.
