(* Executable model of smoltcp::wire::ndisc (src/wire/ndisc.rs): the Neighbor Discovery
   messages (RFC 4861 4.1-4.5) as views of the ICMPv6 packet buffer.  Names are prefixed ndisc_.

   Modelled: the NDISC accessors of icmpv6::Packet (current_hop_limit, router_flags,
   router_lifetime, reachable_time, retrans_time, target_addr, neighbor_flags, dest_addr) and
   their setters; Repr = RouterSolicit / RouterAdvert / NeighborSolicit / NeighborAdvert /
   Redirect; Repr::parse (the `while` loop over the options of the payload), Repr::buffer_len,
   Repr::emit; the compositions with Icmpv6Repr::emit (checksum step) and Icmpv6Repr::parse
   (dispatch).  The generic ICMPv6 packet pieces (check_len, msg_type, header_len, payload,
   set_msg_type/code, clear_reserved, the checksum step, the dispatch) are Model/WireIcmpv6Hdr.v;
   the options are Model/WireNdiscOpt.v.

   Representation.
   - lladdr: Option<RawHardwareAddress> = option (list of its octets);
   - RouterFlags (MANAGED 0x80, OTHER 0x40) and NeighborFlags (ROUTER 0x80, SOLICITED 0x40,
     OVERRIDE 0x20) = the `bits()` octet; `from_bits_truncate x` = x & mask;
   - Durations: router_lifetime is produced by `from_secs(u16)` and written `secs() as u16`: the
     model carries the SECOND count; reachable_time / retrans_time are produced by
     `from_millis(u32)` and written `total_millis() as u32`: the model carries the MILLISECOND
     count (Durations that are not whole seconds / milliseconds are outside the model's Repr);
   - prefix_info / redirected_hdr: the records of Model/WireNdiscOpt.v.

   The option loop of Repr::parse.
       let mut offset = 0;
       while packet.payload().len() > offset {
           let pkt = NdiscOption::new_checked(&packet.payload()[offset..])?;
           if let Ok(opt) = NdiscOptionRepr::parse(&pkt) { ... remember the five known kinds ... }
           let len = pkt.data_len() as usize * 8;
           if len == 0 { return Err(Error); }
           offset += len;
       }
   is [ndisc_parse_opts] with fuel; Repr::parse runs it with fuel = |payload|.  Running out of
   fuel (= the Rust loop would still be running) is reported as Panic, so that
   [ndisc_parse_total] (parse <> Panic) also says that the fuel suffices; independently
   [ndisc_parse_opts_fuel] shows that more fuel changes nothing.  A zero length field cannot make
   the loop spin: `NdiscOption::new_checked` rejects it ("A data length field of 0 is invalid")
   and the loop body itself returns Err when `len == 0` (unreachable second guard); every
   iteration therefore advances `offset` by at least 8.

   Panic sources: slice indexing in accessors/setters (`data[field]`, `try_into().unwrap()`),
   `packet.payload()` / `payload_mut()[offset..]` when the buffer is shorter than the header
   or the offset, everything NdiscOptionRepr::emit / parse can panic on, clear_reserved on a
   message type without reserved field (not reachable from emit: the type was just set).
   No proofs in this file. *)
From SV Require Import Lib.Base Gen.WireFields Model.WireBase Model.WireIpv6 Model.WireIcmpv6Hdr
  Model.WireNdiscOpt.

(* RouterFlags::all().bits(), NeighborFlags::all().bits() *)
Definition ndisc_ROUTER_FLAGS_MASK : Z := 192.
Definition ndisc_NEIGHBOR_FLAGS_MASK : Z := 224.

Inductive ndisc_repr :=
| NdiscRouterSolicit (lladdr : option (list Z))
| NdiscRouterAdvert (hop_limit flags router_lifetime reachable_time retrans_time : Z)
    (lladdr : option (list Z)) (mtu : option Z) (prefix_info : option ndopt_prefix_info)
| NdiscNeighborSolicit (target_addr : list Z) (lladdr : option (list Z))
| NdiscNeighborAdvert (flags : Z) (target_addr : list Z) (lladdr : option (list Z))
| NdiscRedirect (target_addr dest_addr : list Z) (lladdr : option (list Z))
    (redirected_hdr : option ndopt_redirected).

(* ---------- accessors ---------- *)
Definition ndisc_current_hop_limit (bs : list Z) : outcome Z := wb_get_u8 bs wicmpv6_f_CUR_HOP_LIMIT.
Definition ndisc_router_flags (bs : list Z) : outcome Z :=
  do x <- wb_get_u8 bs wicmpv6_f_ROUTER_FLAGS; Ok (Z.land x ndisc_ROUTER_FLAGS_MASK).
(* seconds *)
Definition ndisc_router_lifetime (bs : list Z) : outcome Z := wb_get_u16 bs wicmpv6_f_ROUTER_LT.
(* milliseconds *)
Definition ndisc_reachable_time (bs : list Z) : outcome Z := wb_get_u32 bs wicmpv6_f_REACHABLE_TM.
Definition ndisc_retrans_time (bs : list Z) : outcome Z := wb_get_u32 bs wicmpv6_f_RETRANS_TM.
Definition ndisc_target_addr (bs : list Z) : outcome (list Z) :=
  do s <- wb_field bs wicmpv6_f_TARGET_ADDR; wb_arr 16 s.
Definition ndisc_neighbor_flags (bs : list Z) : outcome Z :=
  do x <- wb_get_u8 bs wicmpv6_f_NEIGH_FLAGS; Ok (Z.land x ndisc_NEIGHBOR_FLAGS_MASK).
Definition ndisc_dest_addr (bs : list Z) : outcome (list Z) :=
  do s <- wb_field bs wicmpv6_f_DEST_ADDR; wb_arr 16 s.

(* ---------- setters ---------- *)
Definition ndisc_set_current_hop_limit (bs : list Z) (v : Z) := wb_set_u8 bs wicmpv6_f_CUR_HOP_LIMIT v.
Definition ndisc_set_router_flags (bs : list Z) (v : Z) := wb_set_u8 bs wicmpv6_f_ROUTER_FLAGS v.
(* write_u16(.., value.secs() as u16) *)
Definition ndisc_set_router_lifetime (bs : list Z) (secs : Z) :=
  wb_put_u16 bs wicmpv6_f_ROUTER_LT (secs mod 65536).
(* write_u32(.., value.total_millis() as u32) *)
Definition ndisc_set_reachable_time (bs : list Z) (ms : Z) :=
  wb_put_u32 bs wicmpv6_f_REACHABLE_TM (ms mod 4294967296).
Definition ndisc_set_retrans_time (bs : list Z) (ms : Z) :=
  wb_put_u32 bs wicmpv6_f_RETRANS_TM (ms mod 4294967296).
Definition ndisc_set_target_addr (bs : list Z) (v : list Z) := wb_set_field bs wicmpv6_f_TARGET_ADDR v.
Definition ndisc_set_neighbor_flags (bs : list Z) (v : Z) := wb_set_u8 bs wicmpv6_f_NEIGH_FLAGS v.
Definition ndisc_set_dest_addr (bs : list Z) (v : list Z) := wb_set_field bs wicmpv6_f_DEST_ADDR v.

(* ---------- Repr::parse ---------- *)

(* the five `let mut` slots of the loop *)
Record ndisc_opts := mkNdiscOpts {
  ndo_src_ll : option (list Z); ndo_mtu : option Z; ndo_prefix : option ndopt_prefix_info;
  ndo_tgt_ll : option (list Z); ndo_redir : option ndopt_redirected }.

Definition ndisc_opts_empty : ndisc_opts := mkNdiscOpts None None None None None.

(* the `match opt` of the loop body; unknown options are skipped *)
Definition ndisc_opts_put (st : ndisc_opts) (o : ndopt_repr) : ndisc_opts :=
  match o with
  | NdSourceLL a => mkNdiscOpts (Some a) (ndo_mtu st) (ndo_prefix st) (ndo_tgt_ll st) (ndo_redir st)
  | NdTargetLL a => mkNdiscOpts (ndo_src_ll st) (ndo_mtu st) (ndo_prefix st) (Some a) (ndo_redir st)
  | NdPrefixInfo p => mkNdiscOpts (ndo_src_ll st) (ndo_mtu st) (Some p) (ndo_tgt_ll st) (ndo_redir st)
  | NdRedirected h => mkNdiscOpts (ndo_src_ll st) (ndo_mtu st) (ndo_prefix st) (ndo_tgt_ll st) (Some h)
  | NdMtu m => mkNdiscOpts (ndo_src_ll st) (Some m) (ndo_prefix st) (ndo_tgt_ll st) (ndo_redir st)
  | NdUnknown _ _ _ => st
  end.

Fixpoint ndisc_parse_opts (fuel : nat) (payload : list Z) (offset : Z) (st : ndisc_opts)
    : outcome ndisc_opts :=
  if blen payload >? offset then
    match fuel with
    | O => Panic  (* out of fuel: see the header comment *)
    | S fuel' =>
        (* NdiscOption::new_checked(&packet.payload()[offset..])? *)
        do rest <- wb_from payload offset;
        do _ <- ndopt_new_checked rest;
        (* if let Ok(opt) = NdiscOptionRepr::parse(&pkt) { match opt ... } : errors are ignored *)
        do st' <- match ndopt_parse rest with
                  | Ok o => Ok (ndisc_opts_put st o)
                  | Err _ => Ok st
                  | Panic => Panic
                  end;
        do l <- ndopt_data_len rest;
        let len := l * 8 in
        if len =? 0 then Err 0
        else ndisc_parse_opts fuel' payload (offset + len) st'
    end
  else Ok st.

Definition ndisc_parse (bs : list Z) : outcome ndisc_repr :=
  do _ <- icmp6h_check_len bs;
  do payload <- icmp6h_payload bs;
  do st <- ndisc_parse_opts (length payload) payload 0 ndisc_opts_empty;
  do t <- icmp6h_msg_type bs;
  if t =? icmp6h_ROUTER_SOLICIT then Ok (NdiscRouterSolicit (ndo_src_ll st))
  else if t =? icmp6h_ROUTER_ADVERT then
    do hl <- ndisc_current_hop_limit bs;
    do fl <- ndisc_router_flags bs;
    do lt <- ndisc_router_lifetime bs;
    do rt <- ndisc_reachable_time bs;
    do xt <- ndisc_retrans_time bs;
    Ok (NdiscRouterAdvert hl fl lt rt xt (ndo_src_ll st) (ndo_mtu st) (ndo_prefix st))
  else if t =? icmp6h_NEIGHBOR_SOLICIT then
    do ta <- ndisc_target_addr bs;
    Ok (NdiscNeighborSolicit ta (ndo_src_ll st))
  else if t =? icmp6h_NEIGHBOR_ADVERT then
    do fl <- ndisc_neighbor_flags bs;
    do ta <- ndisc_target_addr bs;
    Ok (NdiscNeighborAdvert fl ta (ndo_tgt_ll st))
  else if t =? icmp6h_REDIRECT then
    do ta <- ndisc_target_addr bs;
    do da <- ndisc_dest_addr bs;
    Ok (NdiscRedirect ta da (ndo_tgt_ll st) (ndo_redir st))
  else Err 0.

(* ---------- Repr::buffer_len ---------- *)
Definition ndisc_opt_len {A} (mk : A -> ndopt_repr) (o : option A) : Z :=
  match o with Some a => ndopt_buffer_len (mk a) | None => 0 end.

Definition ndisc_buffer_len (r : ndisc_repr) : Z :=
  match r with
  | NdiscRouterSolicit ll => snd wicmpv6_f_UNUSED + ndisc_opt_len NdSourceLL ll
  | NdiscRouterAdvert _ _ _ _ _ ll mtu pi =>
      snd wicmpv6_f_RETRANS_TM +
      (ndisc_opt_len NdTargetLL ll + ndisc_opt_len NdMtu mtu + ndisc_opt_len NdPrefixInfo pi)
  | NdiscNeighborSolicit _ ll | NdiscNeighborAdvert _ _ ll =>
      snd wicmpv6_f_TARGET_ADDR + ndisc_opt_len NdSourceLL ll
  | NdiscRedirect _ _ ll rh =>
      snd wicmpv6_f_DEST_ADDR + ndisc_opt_len NdTargetLL ll + ndisc_opt_len NdRedirected rh
  end.

(* ---------- Repr::emit ---------- *)

(* let mut opt_pkt = NdiscOption::new_unchecked(&mut packet.payload_mut()[offset..]);
   opt.emit(&mut opt_pkt)        (offset = 0: `packet.payload_mut()` itself) *)
Definition ndisc_emit_opt_at (b : list Z) (offset : Z) (o : ndopt_repr) : outcome (list Z) :=
  do hl <- icmp6h_header_len b;
  do _ <- wb_from b hl;
  wb_on_from b (hl + offset) (ndopt_emit o).

(* `if let Some(x) = o { emit the option at offset; offset += its buffer_len }` *)
Definition ndisc_emit_opt {A} (mk : A -> ndopt_repr) (o : option A) (st : list Z * Z)
    : outcome (list Z * Z) :=
  match o with
  | Some a => do b <- ndisc_emit_opt_at (fst st) (snd st) (mk a);
              Ok (b, snd st + ndopt_buffer_len (mk a))
  | None => Ok st
  end.

Definition ndisc_emit (r : ndisc_repr) (b : list Z) : outcome (list Z) :=
  match r with
  | NdiscRouterSolicit ll =>
      do b <- icmp6h_set_msg_type b icmp6h_ROUTER_SOLICIT;
      do b <- icmp6h_set_msg_code b 0;
      do b <- icmp6h_clear_reserved b;
      do st <- ndisc_emit_opt NdSourceLL ll (b, 0);
      Ok (fst st)
  | NdiscRouterAdvert hop fl lt rt xt ll mtu pi =>
      do b <- icmp6h_set_msg_type b icmp6h_ROUTER_ADVERT;
      do b <- icmp6h_set_msg_code b 0;
      do b <- ndisc_set_current_hop_limit b hop;
      do b <- ndisc_set_router_flags b fl;
      do b <- ndisc_set_router_lifetime b lt;
      do b <- ndisc_set_reachable_time b rt;
      do b <- ndisc_set_retrans_time b xt;
      do st <- ndisc_emit_opt NdSourceLL ll (b, 0);
      do st <- ndisc_emit_opt NdMtu mtu st;
      do st <- ndisc_emit_opt NdPrefixInfo pi st;
      Ok (fst st)
  | NdiscNeighborSolicit ta ll =>
      do b <- icmp6h_set_msg_type b icmp6h_NEIGHBOR_SOLICIT;
      do b <- icmp6h_set_msg_code b 0;
      do b <- icmp6h_clear_reserved b;
      do b <- ndisc_set_target_addr b ta;
      do st <- ndisc_emit_opt NdSourceLL ll (b, 0);
      Ok (fst st)
  | NdiscNeighborAdvert fl ta ll =>
      do b <- icmp6h_set_msg_type b icmp6h_NEIGHBOR_ADVERT;
      do b <- icmp6h_set_msg_code b 0;
      do b <- icmp6h_clear_reserved b;
      do b <- ndisc_set_neighbor_flags b fl;
      do b <- ndisc_set_target_addr b ta;
      do st <- ndisc_emit_opt NdTargetLL ll (b, 0);
      Ok (fst st)
  | NdiscRedirect ta da ll rh =>
      do b <- icmp6h_set_msg_type b icmp6h_REDIRECT;
      do b <- icmp6h_set_msg_code b 0;
      do b <- icmp6h_clear_reserved b;
      do b <- ndisc_set_target_addr b ta;
      do b <- ndisc_set_dest_addr b da;
      do st <- ndisc_emit_opt NdTargetLL ll (b, 0);
      do st <- ndisc_emit_opt NdRedirected rh st;
      Ok (fst st)
  end.

Section Checksum.
Variable sum_ok : list Z -> bool.
Variable sum_fill : list Z -> Z.

(* Icmpv6Repr::Ndisc(r).emit(src, dst, packet, caps): NdiscRepr::emit, then the checksum step
   (NdiscRepr::emit never touches the checksum field); [tx] = caps.icmpv6.tx() *)
Definition ndisc_icmp_emit (tx : bool) (r : ndisc_repr) (b : list Z) : outcome (list Z) :=
  do b <- ndisc_emit r b; icmp6h_finish_emit sum_fill tx b.

(* Icmpv6Repr::parse restricted to the NDISC message types; [rx] = caps.icmpv6.rx() *)
Definition ndisc_icmp_parse (rx : bool) (bs : list Z) : outcome ndisc_repr :=
  icmp6h_parse_sub sum_ok icmp6h_is_ndisc ndisc_parse rx bs.

End Checksum.

(* Proviso of C06 for NDISC messages:
   - every link-layer address is 6 or 8 octets (see Model/WireNdiscOpt.v);
   - RouterAdvert: hop_limit u8 (Rust type); flags within RouterFlags::all() (bitflags
     invariant); router_lifetime fits the 16-bit field in seconds, reachable_time / retrans_time
     fit the 32-bit fields in milliseconds (emit truncates with `as u16` / `as u32`; parse
     produces exactly these ranges); mtu u32; prefix_info as for the option;
   - NeighborSolicit / NeighborAdvert / Redirect: addresses [u8; 16]; NeighborAdvert flags within
     NeighborFlags::all();
   - Redirect: the redirected header as for the option (header.payload_len = |data| <= 1992). *)
Definition ndisc_opt_wf {A} (wf : A -> bool) (o : option A) : bool :=
  match o with Some a => wf a | None => true end.

Definition ndisc_wf (r : ndisc_repr) : bool :=
  match r with
  | NdiscRouterSolicit ll => ndisc_opt_wf ndopt_lladdr_ok ll
  | NdiscRouterAdvert hop fl lt rt xt ll mtu pi =>
      is_u8 hop && is_u8 fl && (Z.land fl ndisc_ROUTER_FLAGS_MASK =? fl) && is_u16 lt && is_u32 rt &&
      is_u32 xt && ndisc_opt_wf ndopt_lladdr_ok ll && ndisc_opt_wf is_u32 mtu &&
      ndisc_opt_wf ndopt_prefix_info_wf pi
  | NdiscNeighborSolicit ta ll => is_arr 16 ta && ndisc_opt_wf ndopt_lladdr_ok ll
  | NdiscNeighborAdvert fl ta ll =>
      is_u8 fl && (Z.land fl ndisc_NEIGHBOR_FLAGS_MASK =? fl) && is_arr 16 ta &&
      ndisc_opt_wf ndopt_lladdr_ok ll
  | NdiscRedirect ta da ll rh =>
      is_arr 16 ta && is_arr 16 da && ndisc_opt_wf ndopt_lladdr_ok ll &&
      ndisc_opt_wf ndopt_redirected_wf rh
  end.
