(* Executable model of smoltcp::storage::PacketBuffer (src/storage/packet_buffer.rs) on top of
   Model/Ring.v, as fixed by the /repo commits
     "fix: PacketBuffer::enqueue_with_infallible clears an empty payload ring like enqueue does"
     "fix: PacketBuffer enqueue does not leave a padding record behind when refusing".

   Every operation returns the new state together with its result (None = Err(Full) / Err(Empty)),
   so that "a refused call leaves the queue unchanged" is a theorem and not an artefact of the
   encoding; [Panic] is the only outcome without a state.  Panic sources: `unwrap` of a header,
   `payload_buf[..size]`, the `debug_assert!`s (the harness builds with debug assertions) and
   everything inherited from the ring; all are proved unreachable under [pb_inv]
   (Proofs/PacketBufProofs.v) except the ring's `assert!(size <= max_size)` when the callback
   of enqueue_with_infallible claims more than the contiguous window.
   Not modelled: `meta.header.take()` in dequeue (it only changes a metadata slot that is no
   longer allocated and is overwritten as a whole by the next enqueue), mutation of header /
   payload through the `&mut` handed to the dequeue_with callback.
   No proofs in this file. *)
From SV Require Import Lib.Base Model.Ring.
Set Implicit Arguments.

Section PacketBuf.
Variable H : Type.

Record pmeta := mkMeta { pm_size : Z; pm_header : option H }.
Definition pm_empty : pmeta := mkMeta 0 None.            (* PacketMetadata::EMPTY *)
Definition pm_padding (size : Z) : pmeta := mkMeta size None.
Definition pm_packet (size : Z) (h : H) : pmeta := mkMeta size (Some h).
Definition pm_is_padding (m : pmeta) : bool :=
  match pm_header m with None => true | Some _ => false end.

Record pbuf := mkPbuf { pb_meta : ring pmeta; pb_payload : ring Z }.

Definition pb_new (mcap pcap : nat) : pbuf :=
  mkPbuf (ring_new (repeat pm_empty mcap)) (ring_new (repeat 0 pcap)).

Definition pb_is_empty (b : pbuf) : bool := ring_is_empty (pb_meta b).
Definition pb_is_full (b : pbuf) : bool := ring_is_full (pb_meta b).
Definition pb_packet_capacity (b : pbuf) : Z := ring_capacity (pb_meta b).
Definition pb_payload_capacity (b : pbuf) : Z := ring_capacity (pb_payload b).
Definition pb_payload_bytes_count (b : pbuf) : Z := ring_len (pb_payload b).

(* the common first half of enqueue / enqueue_with_infallible: capacity checks, clear-when-empty,
   window checks, padding.  Result: state and whether the call is refused. *)
Definition pb_make_room (b : pbuf) (size : Z) : outcome (pbuf * bool) :=
  let meta := pb_meta b in
  let payload := pb_payload b in
  if (ring_capacity payload <? size) || ring_is_full meta then Ok (b, true) else
  let payload := if ring_is_empty payload then ring_clear payload else payload in
  let window := ring_window payload in
  let contig_window := ring_contiguous_window payload in
  if window <? size then Ok (mkPbuf meta payload, true)
  else if contig_window <? size then
    if window - contig_window <? size then Ok (mkPbuf meta payload, true)
    else if ring_window meta <? 2 then Ok (mkPbuf meta payload, true)
    else
      match ring_enqueue_one meta with
      | Err _ => Ok (mkPbuf meta payload, true)            (* `?` *)
      | Panic => Panic
      | Ok (meta1, slot) =>
          let meta1 := ring_ref_write meta1 slot (pm_padding contig_window) in
          do x <- ring_enqueue_many payload contig_window [];
          let '(payload1, _) := x in
          Ok (mkPbuf meta1 payload1, false)
      end
  else Ok (mkPbuf meta payload, false).

(* enqueue(size, header); the caller writes [w] into the returned slice.
   Result: previous contents of the returned slice. *)
Definition pb_enqueue (b : pbuf) (size : Z) (header : H) (w : list Z)
  : outcome (pbuf * option (list Z)) :=
  do x <- pb_make_room b size;
  let '(b1, refused) := x in
  if refused then Ok (b1, None) else
  match ring_enqueue_one (pb_meta b1) with
  | Err _ => Ok (b1, None)
  | Panic => Panic
  | Ok (meta2, slot) =>
      let meta2 := ring_ref_write meta2 slot (pm_packet size header) in
      do y <- ring_enqueue_many (pb_payload b1) size w;
      let '(payload2, payload_buf) := y in
      if negb (zlen payload_buf =? size) then Panic (* debug_assert! *) else
      Ok (mkPbuf meta2 payload2, Some payload_buf)
  end.

(* enqueue_with_infallible(max_size, header, f): [f] sees the slice of max_size bytes, returns its
   new contents and the size.  Result: (size, what f saw). *)
Definition pb_enqueue_with_infallible (b : pbuf) (max_size : Z) (header : H)
  (f : list Z -> list Z * Z) : outcome (pbuf * option (Z * list Z)) :=
  do x <- pb_make_room b max_size;
  let '(b1, refused) := x in
  if refused then Ok (b1, None) else
  match ring_enqueue_one (pb_meta b1) with
  | Err _ => Ok (b1, None)
  | Panic => Panic
  | Ok (meta2, metadata_slot) =>
      do y <- ring_enqueue_many_with (pb_payload b1) (fun data =>
                if negb (in_range data 0 max_size) then Panic (* data[..max_size] *) else
                let buf := slice data 0 max_size in
                let '(new, k) := f buf in
                Ok (overlay new buf ++ skipn (Z.to_nat max_size) data, k, buf));
      let '(payload2, (size, seen)) := y in
      let meta2 := ring_ref_write meta2 metadata_slot (pm_packet size header) in
      Ok (mkPbuf meta2 payload2, Some (size, seen))
  end.

Definition pb_dequeue_padding (b : pbuf) : outcome pbuf :=
  match ring_dequeue_one_with (pb_meta b) (fun _ metadata =>
          if pm_is_padding metadata then
            do x <- ring_dequeue_many (pb_payload b) (pm_size metadata);
            let '(payload1, _) := x in Ok (true, payload1)
          else Ok (false, pb_payload b)) with
  | Ok (meta1, payload1) => Ok (mkPbuf meta1 payload1)
  | Err _ => Ok b                                            (* let _ = … *)
  | Panic => Panic
  end.

(* dequeue_with(f): [f] sees header and payload and accepts (true) or declines (false).
   Result: (header, payload, accepted). *)
Definition pb_dequeue_with (b : pbuf) (f : H -> list Z -> bool)
  : outcome (pbuf * option (H * list Z * bool)) :=
  do b1 <- pb_dequeue_padding b;
  match ring_dequeue_one_with (pb_meta b1) (fun _ metadata =>
          do x <- ring_dequeue_many_with (pb_payload b1) (fun payload_buf =>
                    if zlen payload_buf <? pm_size metadata then Panic (* debug_assert / slice *) else
                    match pm_header metadata with
                    | None => Panic (* unwrap *)
                    | Some h =>
                        let p := slice payload_buf 0 (pm_size metadata) in
                        if f h p then Ok (pm_size metadata, (h, p, true))
                        else Ok (0, (h, p, false))
                    end);
          let '(payload1, (_, res)) := x in
          Ok (snd res, (payload1, res))) with
  | Err _ => Ok (b1, None)
  | Panic => Panic
  | Ok (meta1, (payload1, res)) => Ok (mkPbuf meta1 payload1, Some res)
  end.

Definition pb_dequeue (b : pbuf) : outcome (pbuf * option (H * list Z)) :=
  do b1 <- pb_dequeue_padding b;
  match ring_dequeue_one (pb_meta b1) with
  | Err _ => Ok (b1, None)
  | Panic => Panic
  | Ok (meta1, (_, meta)) =>
      do x <- ring_dequeue_many (pb_payload b1) (pm_size meta);
      let '(payload1, payload_buf) := x in
      if negb (zlen payload_buf =? pm_size meta) then Panic (* debug_assert! *) else
      match pm_header meta with
      | None => Panic (* unwrap *)
      | Some h => Ok (mkPbuf meta1 payload1, Some (h, payload_buf))
      end
  end.

Definition pb_peek (b : pbuf) : outcome (pbuf * option (H * list Z)) :=
  do b1 <- pb_dequeue_padding b;
  do ms <- ring_get_allocated (pb_meta b1) 0 1;
  match ms with
  | metadata :: _ =>
      match pm_header metadata with
      | None => Panic (* unwrap *)
      | Some h =>
          do p <- ring_get_allocated (pb_payload b1) 0 (pm_size metadata);
          Ok (b1, Some (h, p))
      end
  | [] => Ok (b1, None)
  end.

Definition pb_reset (b : pbuf) : pbuf :=
  mkPbuf (ring_clear (pb_meta b)) (ring_clear (pb_payload b)).

(* --- operations as data --- *)
Inductive pb_op :=
| POEnq (size : Z) (h : H) (w : list Z)
| POEnqInf (max : Z) (h : H) (w : list Z) (k : Z)
| PODeq
| PODeqWith (acc : bool)
| POPeek
| POReset.

(* observable result: Some (numbers, header?, bytes) or None for Err *)
Definition pb_step (b : pbuf) (op : pb_op)
  : outcome (pbuf * option (list Z * option H * list Z)) :=
  match op with
  | POEnq size h w =>
      do x <- pb_enqueue b size h w;
      let '(b1, r) := x in
      Ok (b1, match r with Some old => Some ([zlen old], None, old) | None => None end)
  | POEnqInf max h w k =>
      do x <- pb_enqueue_with_infallible b max h (fun buf => (overlay w buf, k));
      let '(b1, r) := x in
      Ok (b1, match r with Some (size, seen) => Some ([size; zlen seen], None, seen) | None => None end)
  | PODeq =>
      do x <- pb_dequeue b;
      let '(b1, r) := x in
      Ok (b1, match r with Some (h, p) => Some ([], Some h, p) | None => None end)
  | PODeqWith acc =>
      do x <- pb_dequeue_with b (fun _ _ => acc);
      let '(b1, r) := x in
      Ok (b1, match r with Some (h, p, a) => Some ([b2z a], Some h, p) | None => None end)
  | POPeek =>
      do x <- pb_peek b;
      let '(b1, r) := x in
      Ok (b1, match r with Some (h, p) => Some ([], Some h, p) | None => None end)
  | POReset => Ok (pb_reset b, Some ([], None, []))
  end.

Definition pb_status (b : pbuf) : list Z :=
  [b2z (pb_is_empty b); b2z (pb_is_full b); pb_packet_capacity b; pb_payload_capacity b;
   pb_payload_bytes_count b].

Fixpoint pb_run (b : pbuf) (ops : list pb_op) : option pbuf :=   (* None: a panic occurred *)
  match ops with
  | [] => Some b
  | op :: ops' => match pb_step b op with Ok (b1, _) => pb_run b1 ops' | _ => None end
  end.

(* --- abstraction: the queue of (header, payload) pairs --- *)
Fixpoint pb_split (ms : list pmeta) (bytes : list Z) : list (H * list Z) :=
  match ms with
  | [] => []
  | m :: ms' =>
      let p := firstn (Z.to_nat (pm_size m)) bytes in
      let rest := skipn (Z.to_nat (pm_size m)) bytes in
      match pm_header m with
      | Some h => (h, p) :: pb_split ms' rest
      | None => pb_split ms' rest
      end
  end.

Definition pb_abs (b : pbuf) : list (H * list Z) :=
  pb_split (ring_abs (pb_meta b)) (ring_abs (pb_payload b)).

End PacketBuf.

Arguments PODeq {H}.
Arguments PODeqWith {H} acc.
Arguments POPeek {H}.
Arguments POReset {H}.
