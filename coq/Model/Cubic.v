(* Executable model of smoltcp's CUBIC congestion controller
   (src/socket/tcp/congestion/cubic.rs, `struct Cubic` + `impl Controller for Cubic`) in which
   every f64 computation is an INPUT of the call that evaluates it.

   WHY.  The property (C02: a sender with unacknowledged data is always allowed at least one
   segment by its congestion window) only depends on the integer (`usize`) half of the
   controller: clamps, saturating additions, the ssthresh floor, the state flags.  The floating
   point half (W_cubic, W_est, K, the cube root) decides *which* number is clamped, never
   *whether* it is clamped.  So the model takes the result of every float expression that flows
   into integer state or into control flow as an explicit argument ranging over ALL values an
   f64 can have (`fval`: None = NaN, Some z = the real value truncated toward zero, any z in Z;
   z beyond the usize range covers +-infinity and huge finite values), and performs Rust's
   `as usize` cast on it exactly (saturating; NaN -> 0).  Whatever the real arithmetic computes
   is one of the values the model quantifies over: the model over-approximates the code.

   The float-only fields `k` and `w_est` are therefore not part of the model state, and
   `recompute_k` / `cube_root` (which only write `k`) have no model counterpart: every value
   derived from them is an input.

   MODELLED EXACTLY: all usize logic - `len.min(mss)`, `saturating_add`, `.min(rwnd).max(mss)`,
   `saturating_sub`, `* segment / cwnd` (overflow and division by zero = Panic, see [cubic_mul]),
   `2 * mss`, `3 * mss`, the ssthresh floor, w_max / cwnd_prior / ssthresh / rwnd updates,
   in_fast_recovery / in_rto_recovery, recovery_start / idle_start bookkeeping (absorb_idle), the
   `t < 0` early return.  Times are `Instant::total_micros` (i64) as unbounded Z: i64 overflow of
   `start + (now - idle)` is not modelled (same convention as Model/Tcp.v).

   PROFILE.  [dbg = true] is the debug profile (overflow-checks: `a * b`, `a + b` on usize panic
   on overflow - what the harness builds); [dbg = false] is release (wrap modulo 2^64).  Division
   by zero panics in both.

   FUNCTION                     RUST (cubic.rs at /repo c276435, i.e. with the repairs 46f8035 + c276435)
   cubic_new                    Cubic::new
   cubic_absorb_idle            Cubic::absorb_idle
   cubic_window                 Controller::window
   cubic_on_ack                 Controller::on_ack        inputs: w_cubic < w_est, w_est as usize,
                                                                  w_cubic_target as usize
   cubic_on_dup_ack             Controller::on_dup_ack
   cubic_post_transmit          Controller::post_transmit
   cubic_pre_transmit           Controller::pre_transmit  (trait default: nothing)
   cubic_on_loss                Controller::on_loss       inputs: (cwnd*(1+beta)/2) as usize,
                                                                  (in_flight*beta) as usize
   cubic_on_rto                 Controller::on_rto        input:  (in_flight*beta) as usize
   cubic_set_mss                Controller::set_mss
   cubic_set_remote_window      Controller::set_remote_window
   cubic_apply / cubic_run      one event / a sequence of events (what tcp.rs can call) *)
From SV Require Import Lib.Base Gen.Consts.

Definition cubic_usize_max : Z := 2 ^ 64 - 1.

(* ---------- floats as inputs ---------- *)
(* the value of an f64 expression: None = NaN; Some z = a number whose truncation toward zero is
   z (z arbitrary: values outside [0, usize::MAX] stand for negative / huge / infinite results) *)
Definition fval := option Z.

(* Rust `x as usize` for f64 x: NaN -> 0, saturating at both ends, truncation toward zero *)
Definition cubic_as_usize (f : fval) : Z :=
  match f with
  | None => 0
  | Some z => Z.max 0 (Z.min cubic_usize_max z)
  end.

(* ---------- usize arithmetic ---------- *)
Definition cubic_sat_add (a b : Z) : Z := Z.min cubic_usize_max (a + b).
Definition cubic_sat_sub (a b : Z) : Z := Z.max 0 (a - b).
Definition cubic_wrap (dbg : bool) (x : Z) : outcome Z :=
  if x <=? cubic_usize_max then Ok x else if dbg then Panic else Ok (x mod 2 ^ 64).
Definition cubic_mul (dbg : bool) (a b : Z) : outcome Z := cubic_wrap dbg (a * b).
Definition cubic_add (dbg : bool) (a b : Z) : outcome Z := cubic_wrap dbg (a + b).
Definition cubic_div (a b : Z) : outcome Z := if b =? 0 then Panic else Ok (a / b).

(* ---------- state ---------- *)
Record cubic := mkCubic {
  cb_w_max : Z;
  cb_cwnd : Z;
  cb_mss : Z;
  cb_ssthresh : Z;
  cb_rwnd : Z;
  cb_cwnd_prior : Z;
  cb_recovery_start : option Z;   (* Option<Instant>, microseconds *)
  cb_in_fast_recovery : bool;
  cb_in_rto_recovery : bool;
  cb_idle_start : option Z
}.

Definition cb_set_w_max (c : cubic) (v : Z) : cubic :=
  mkCubic v (cb_cwnd c) (cb_mss c) (cb_ssthresh c) (cb_rwnd c) (cb_cwnd_prior c)
          (cb_recovery_start c) (cb_in_fast_recovery c) (cb_in_rto_recovery c) (cb_idle_start c).
Definition cb_set_cwnd (c : cubic) (v : Z) : cubic :=
  mkCubic (cb_w_max c) v (cb_mss c) (cb_ssthresh c) (cb_rwnd c) (cb_cwnd_prior c)
          (cb_recovery_start c) (cb_in_fast_recovery c) (cb_in_rto_recovery c) (cb_idle_start c).
Definition cb_set_mss (c : cubic) (v : Z) : cubic :=
  mkCubic (cb_w_max c) (cb_cwnd c) v (cb_ssthresh c) (cb_rwnd c) (cb_cwnd_prior c)
          (cb_recovery_start c) (cb_in_fast_recovery c) (cb_in_rto_recovery c) (cb_idle_start c).
Definition cb_set_ssthresh (c : cubic) (v : Z) : cubic :=
  mkCubic (cb_w_max c) (cb_cwnd c) (cb_mss c) v (cb_rwnd c) (cb_cwnd_prior c)
          (cb_recovery_start c) (cb_in_fast_recovery c) (cb_in_rto_recovery c) (cb_idle_start c).
Definition cb_set_rwnd (c : cubic) (v : Z) : cubic :=
  mkCubic (cb_w_max c) (cb_cwnd c) (cb_mss c) (cb_ssthresh c) v (cb_cwnd_prior c)
          (cb_recovery_start c) (cb_in_fast_recovery c) (cb_in_rto_recovery c) (cb_idle_start c).
Definition cb_set_cwnd_prior (c : cubic) (v : Z) : cubic :=
  mkCubic (cb_w_max c) (cb_cwnd c) (cb_mss c) (cb_ssthresh c) (cb_rwnd c) v
          (cb_recovery_start c) (cb_in_fast_recovery c) (cb_in_rto_recovery c) (cb_idle_start c).
Definition cb_set_recovery_start (c : cubic) (v : option Z) : cubic :=
  mkCubic (cb_w_max c) (cb_cwnd c) (cb_mss c) (cb_ssthresh c) (cb_rwnd c) (cb_cwnd_prior c)
          v (cb_in_fast_recovery c) (cb_in_rto_recovery c) (cb_idle_start c).
Definition cb_set_in_fast_recovery (c : cubic) (v : bool) : cubic :=
  mkCubic (cb_w_max c) (cb_cwnd c) (cb_mss c) (cb_ssthresh c) (cb_rwnd c) (cb_cwnd_prior c)
          (cb_recovery_start c) v (cb_in_rto_recovery c) (cb_idle_start c).
Definition cb_set_in_rto_recovery (c : cubic) (v : bool) : cubic :=
  mkCubic (cb_w_max c) (cb_cwnd c) (cb_mss c) (cb_ssthresh c) (cb_rwnd c) (cb_cwnd_prior c)
          (cb_recovery_start c) (cb_in_fast_recovery c) v (cb_idle_start c).
Definition cb_set_idle_start (c : cubic) (v : option Z) : cubic :=
  mkCubic (cb_w_max c) (cb_cwnd c) (cb_mss c) (cb_ssthresh c) (cb_rwnd c) (cb_cwnd_prior c)
          (cb_recovery_start c) (cb_in_fast_recovery c) (cb_in_rto_recovery c) v.

(* ---------- Cubic::new ---------- *)
(* k = 0.0, w_est = 2048.0 and the recompute_k() call only concern float fields *)
Definition cubic_new : cubic :=
  mkCubic (cubic_DEFAULT_MSS * 2) (cubic_DEFAULT_MSS * 2) cubic_DEFAULT_MSS cubic_usize_max
          (64 * cubic_DEFAULT_MSS) (cubic_DEFAULT_MSS * 2) None false false None.

(* ---------- Cubic::absorb_idle ---------- *)
Definition cubic_absorb_idle (c : cubic) (now : Z) : cubic :=
  let c1 :=
    match cb_idle_start c, cb_recovery_start c with
    | Some idle, Some start =>
        if idle <=? now then cb_set_recovery_start c (Some (start + (now - idle))) else c
    | _, _ => c
    end in
  cb_set_idle_start c1 None.

(* ---------- impl Controller for Cubic ---------- *)
Definition cubic_window (c : cubic) : Z := cb_cwnd c.

(* `.min(self.rwnd).max(self.mss)` *)
Definition cubic_clamp (c : cubic) (cwnd : Z) : Z := Z.max (Z.min cwnd (cb_rwnd c)) (cb_mss c).

(* float inputs of on_ack, in evaluation order:
     lt      `w_cubic < w_est`            (false also when either side is NaN)
     f_west  `w_est` (after the `+=`), cast by `as usize` in the reno-friendly branch
     f_tgt   `w_cubic_target` (after `.min(1.5 * cwnd)`), cast by `as usize`
   `rtt` only feeds float expressions (srtt -> t_ahead) and is therefore not an argument *)
Definition cubic_on_ack (dbg : bool) (c : cubic) (now len in_flight : Z)
                        (lt : bool) (f_west f_tgt : fval) : outcome cubic :=
  let segment := Z.min len (cb_mss c) in
  let c := cubic_absorb_idle c now in
  let c := if in_flight =? 0 then cb_set_idle_start c (Some now) else c in
  if len =? 0 then Ok c else
  let c := cb_set_in_rto_recovery c false in
  if cb_in_fast_recovery c then
    (* First new-data-ack exits fast recovery and deflates `cwnd` (w_est = cwnd: float only) *)
    let c := cb_set_in_fast_recovery c false in
    Ok (cb_set_cwnd c (Z.max (cb_ssthresh c) (cb_mss c)))
  else if cb_cwnd c <? cb_ssthresh c then
    (* Slow start *)
    Ok (cb_set_cwnd c (cubic_clamp c (cubic_sat_add (cb_cwnd c) segment)))
  else
  (* congestion avoidance *)
  let '(c, recovery_start) :=
    match cb_recovery_start c with
    | Some t => (c, t)
    | None =>
        (* w_max = cwnd; k = 0.0; w_est = cwnd; recovery_start = Some(now) *)
        (cb_set_recovery_start (cb_set_w_max c (cb_cwnd c)) (Some now), now)
    end in
  let t := now - recovery_start in
  if t <? 0 then Ok c else
  if lt then
    Ok (cb_set_cwnd c (cubic_clamp c (cubic_as_usize f_west)))
  else
    do prod <- cubic_mul dbg (cubic_sat_sub (cubic_as_usize f_tgt) (cb_cwnd c)) segment;
    do increment <- cubic_div prod (cb_cwnd c);
    do sum <- cubic_add dbg (cb_cwnd c) increment;
    Ok (cb_set_cwnd c (cubic_clamp c sum)).

Definition cubic_on_dup_ack (c : cubic) (now len in_flight : Z) : cubic :=
  if cb_in_fast_recovery c
  then cb_set_cwnd c (cubic_clamp c (cubic_sat_add (cb_cwnd c) len))
  else c.

Definition cubic_pre_transmit (c : cubic) (now : Z) : cubic := c.

Definition cubic_post_transmit (c : cubic) (now len : Z) : cubic := cubic_absorb_idle c now.

(* float inputs of on_loss (evaluated only on first entrance to fast recovery):
     f_wmax  `(self.cwnd as f64) * (1.0 + BETA_CUBIC) / 2.0`  (only when cwnd < w_max)
     f_ss    `in_flight as f64 * BETA_CUBIC` *)
Definition cubic_on_loss (dbg : bool) (c : cubic) (now in_flight : Z) (f_wmax f_ss : fval)
  : outcome cubic :=
  let c := cb_set_idle_start c None in
  if cb_in_fast_recovery c then Ok c else
  let c := cb_set_cwnd_prior c (cb_cwnd c) in
  let c := cb_set_w_max c (if cb_cwnd c <? cb_w_max c then cubic_as_usize f_wmax else cb_cwnd c) in
  do two_mss <- cubic_mul dbg 2 (cb_mss c);
  let c := cb_set_ssthresh c (Z.max (cubic_as_usize f_ss) two_mss) in
  do three_mss <- cubic_mul dbg 3 (cb_mss c);
  let c := cb_set_cwnd c (cubic_sat_add (Z.min (cb_ssthresh c) (cb_rwnd c)) three_mss) in
  let c := cb_set_recovery_start c (Some now) in
  Ok (cb_set_in_fast_recovery c true).

(* float input of on_rto: f_ss `in_flight as f64 * BETA_CUBIC` (only when !in_rto_recovery) *)
Definition cubic_on_rto (dbg : bool) (c : cubic) (now in_flight : Z) (f_ss : fval) : outcome cubic :=
  do c <- (if cb_in_rto_recovery c then Ok c else
           do two_mss <- cubic_mul dbg 2 (cb_mss c);
           Ok (cb_set_in_rto_recovery (cb_set_ssthresh c (Z.max (cubic_as_usize f_ss) two_mss)) true));
  let c := cb_set_cwnd c (cb_mss c) in
  let c := cb_set_cwnd_prior c in_flight in
  let c := cb_set_recovery_start c None in
  let c := cb_set_in_fast_recovery c false in
  Ok (cb_set_idle_start c None).

(* `self.mss = mss; self.cwnd = self.cwnd.max(mss); self.recompute_k()` *)
Definition cubic_set_mss (c : cubic) (mss : Z) : cubic :=
  let c := cb_set_mss c mss in
  cb_set_cwnd c (Z.max (cb_cwnd c) mss).

Definition cubic_set_remote_window (c : cubic) (remote_window : Z) : cubic :=
  if cb_rwnd c <? remote_window then cb_set_rwnd c remote_window else c.

(* ---------- events: every call tcp.rs makes on the controller ---------- *)
Inductive cubic_ev :=
| CSetMss (mss : Z)
| CSetRemoteWindow (w : Z)
| CAck (now len in_flight : Z) (lt : bool) (f_west f_tgt : fval)
| CDupAck (now len in_flight : Z)
| CLoss (now in_flight : Z) (f_wmax f_ss : fval)
| CRto (now in_flight : Z) (f_ss : fval)
| CPreTransmit (now : Z)
| CPostTransmit (now len : Z).

Definition cubic_apply (dbg : bool) (c : cubic) (e : cubic_ev) : outcome cubic :=
  match e with
  | CSetMss m => Ok (cubic_set_mss c m)
  | CSetRemoteWindow w => Ok (cubic_set_remote_window c w)
  | CAck now len fl lt fw ft => cubic_on_ack dbg c now len fl lt fw ft
  | CDupAck now len fl => Ok (cubic_on_dup_ack c now len fl)
  | CLoss now fl fw fs => cubic_on_loss dbg c now fl fw fs
  | CRto now fl fs => cubic_on_rto dbg c now fl fs
  | CPreTransmit now => Ok (cubic_pre_transmit c now)
  | CPostTransmit now len => Ok (cubic_post_transmit c now len)
  end.

Fixpoint cubic_run (dbg : bool) (c : cubic) (evs : list cubic_ev) : outcome cubic :=
  match evs with
  | [] => Ok c
  | e :: rest => do c' <- cubic_apply dbg c e; cubic_run dbg c' rest
  end.

(* ---------- the code before the two C02 repairs (kept executable for the refutation witnesses
   in Proofs/CubicProofs.v; NOT what the theorems are about) ---------- *)
(* set_mss before the repair: `self.mss = mss; self.recompute_k();` *)
Definition cubic_set_mss_unrepaired (c : cubic) (mss : Z) : cubic := cb_set_mss c mss.
(* leaving fast recovery before the repair: `self.cwnd = self.ssthresh;` *)
Definition cubic_fr_exit_unrepaired (c : cubic) : cubic :=
  cb_set_cwnd (cb_set_in_fast_recovery (cb_set_in_rto_recovery c false) false) (cb_ssthresh c).
