(* Executable model of smoltcp::wire::TcpSeqNumber (src/wire/tcp.rs lines 9-85).

   Rust: `struct SeqNumber(pub i32)`.  The model keeps the *unsigned* 32-bit value, a [Z] in
   [0, 2^32) (what `Display` prints and what is on the wire); the i32 view only matters for
   differences, which are computed by [seq_sdiff].

     Rust                                   model
     SeqNumber + usize  (wrapping_add)      seq_add a n       (panics iff n > i32::MAX: [seq_add_ok])
     SeqNumber - usize  (wrapping_sub)      seq_subn a n      (same side condition)
     SeqNumber - SeqNumber -> usize         seq_sub a b : outcome Z   Panic iff the signed
                                            32-bit wrapped difference is negative
     partial_cmp (sign of wrapping_sub)     seq_lt / seq_le / seq_gt / seq_ge
     ==                                     seq_eqb (equality of the 32-bit values)
     max / min                              seq_max / seq_min (same tie-breaking as the source)

   Note that the order is not transitive and that for a difference of exactly 2^31 both
   [seq_lt a b] and [seq_lt b a] hold, exactly as in the source.

   Panic source handled outside this file: `SeqNumber + usize` panics when the addend exceeds
   i32::MAX.  Every addend in the TCP socket model is a buffer length / capacity, a window
   (<= 65535 << 14) or a small constant; Model/Tcp.v documents the bound ([tcp_new] refuses
   receive buffers above 2^30 like the source, and the transmit capacity is assumed < 2^31).
   No proofs in this file. *)
From SV Require Import Lib.Base.

Definition seq_modulus : Z := 2 ^ 32.
Definition seq_half : Z := 2 ^ 31.

(* u32 value of any integer *)
Definition seq_norm (x : Z) : Z := x mod seq_modulus.

(* `SeqNumber + usize` *)
Definition seq_add (a n : Z) : Z := (a + n) mod seq_modulus.
(* side condition of `+ usize` / `- usize` (`rhs > i32::MAX` panics) *)
Definition seq_add_ok (n : Z) : bool := n <=? seq_half - 1.

(* `SeqNumber - usize` *)
Definition seq_subn (a n : Z) : Z := (a - n) mod seq_modulus.

(* `self.0.wrapping_sub(rhs.0)` as i32 *)
Definition seq_sdiff (a b : Z) : Z :=
  let d := (a - b) mod seq_modulus in
  if d <? seq_half then d else d - seq_modulus.

(* `SeqNumber - SeqNumber`: panics when the wrapped difference is negative *)
Definition seq_sub (a b : Z) : outcome Z :=
  let d := seq_sdiff a b in
  if d <? 0 then Panic else Ok d.

Definition seq_lt (a b : Z) : bool := seq_sdiff a b <? 0.
Definition seq_le (a b : Z) : bool := seq_sdiff a b <=? 0.
Definition seq_gt (a b : Z) : bool := seq_sdiff a b >? 0.
Definition seq_ge (a b : Z) : bool := seq_sdiff a b >=? 0.
Definition seq_eqb (a b : Z) : bool := a =? b.

(* `if self > rhs { self } else { rhs }` *)
Definition seq_max (a b : Z) : Z := if seq_gt a b then a else b.
(* `if self < rhs { self } else { rhs }` *)
Definition seq_min (a b : Z) : Z := if seq_lt a b then a else b.
