(* Executable model of smoltcp::wire::ipv6option (src/wire/ipv6option.rs): one IPv6 extension
   header option (`Ipv6Option<T>`: check_len, option_type, data_len, data, set_option_type,
   set_data_len, data_mut), `Repr::{parse, buffer_len, emit}`, the `FailureType` conversion
   (`From<u8>`, with its `unreachable!()` arm) and the options iterator
   `Ipv6OptionsIterator::{new, next}`.

   Compiled configuration: the harness builds smoltcp WITHOUT `proto-rpl` (harness/Cargo.toml), so
   `Repr::Rpl` does not exist and `Repr::parse` maps `Type::Rpl` (0x63) to
   `Repr::Unknown { type_: Type::Rpl, .. }` (the `#[cfg(not(feature = "proto-rpl"))]` arm).

   Representation.  `Type` and `RouterAlert` are `enum_with_unknown!` enums: a value is modelled
   by its raw octet / u16 (the canonical form: `Type::from(u8::from(t))`); the non-canonical
   spellings `Type::Unknown(0|1|5|0x63)` / `RouterAlert::Unknown(0|1|2)` have the same raw value as
   the named variant and are not distinguished.  `Repr::Unknown.data: &[u8]` is an octet list.
   `FailureType` is its discriminant (0, 64, 128, 192).

   Pad1 is ONE octet (no length octet); every other option is type, length, `length` data octets.

   Panic sources (all [Panic] in the outcome monad): slice indexing `data[field::TYPE]`,
   `data[field::LENGTH]` (data_len on a one-octet Pad1 buffer), `&data[field::DATA(len)]`,
   `NetworkEndian::read_u16 / write_u16` on a slice shorter than 2, `&data[..length as usize]` and
   `copy_from_slice` (length mismatch) in emit, `unreachable!()` in `FailureType::from`,
   `&self.data[self.pos..]` in the iterator.  `length as usize + 2` cannot overflow (u8).

   The loop (`Iterator::next` called until `None`) is [v6opt_iter_fuel] with fuel = number of
   octets; fuel-suffices is proved in Proofs/WireIpv6OptProofs.v (every successful step advances
   `pos` by `buffer_len() >= 1`).  No proofs in this file. *)
From SV Require Import Lib.Base Gen.Consts Gen.WireFields Model.WireBase.

(* enum Type(u8) *)
Definition v6opt_T_PAD1 : Z := 0.
Definition v6opt_T_PADN : Z := 1.
Definition v6opt_T_ROUTER_ALERT : Z := 5.
Definition v6opt_T_RPL : Z := 99.          (* 0x63 *)

Inductive v6opt_repr :=
| V6OptPad1
| V6OptPadN (len : Z)
| V6OptRouterAlert (kind : Z)
| V6OptUnknown (type_ : Z) (length : Z) (data : list Z).

(* field::DATA(length) = 2..length as usize + 2   (a `const fn`, not translated: written out) *)
Definition v6opt_f_DATA (len : Z) : Z * Z := (2, len + 2).

(* ---------- Ipv6Option<T> ---------- *)

Definition v6opt_option_type (bs : list Z) : outcome Z := wb_get_u8 bs wv6opt_f_TYPE.
Definition v6opt_data_len (bs : list Z) : outcome Z := wb_get_u8 bs wv6opt_f_LENGTH.
Definition v6opt_data (bs : list Z) : outcome (list Z) :=
  do l <- v6opt_data_len bs; wb_field bs (v6opt_f_DATA l).

(* Ipv6Option::check_len *)
Definition v6opt_check_len (bs : list Z) : outcome unit :=
  if blen bs <? wv6opt_f_LENGTH then Err 0
  else
    do t <- v6opt_option_type bs;
    if t =? v6opt_T_PAD1 then Ok tt
    else if blen bs =? wv6opt_f_LENGTH then Err 0
    else
      do l <- wb_get_u8 bs wv6opt_f_LENGTH;
      if blen bs <? snd (v6opt_f_DATA l) then Err 0 else Ok tt.

Definition v6opt_set_option_type (bs : list Z) (v : Z) := wb_set_u8 bs wv6opt_f_TYPE v.
Definition v6opt_set_data_len (bs : list Z) (v : Z) := wb_set_u8 bs wv6opt_f_LENGTH v.

(* the three uses of data_mut() in Repr::emit; data_mut = &mut data[field::DATA(self.data_len())] *)
(* for x in opt.data_mut().iter_mut() { *x = 0 } *)
Definition v6opt_zero_data (bs : list Z) : outcome (list Z) :=
  do l <- v6opt_data_len bs; wb_fill bs (fst (v6opt_f_DATA l)) (snd (v6opt_f_DATA l)) 0.
(* NetworkEndian::write_u16(opt.data_mut(), v) *)
Definition v6opt_put_data_u16 (bs : list Z) (v : Z) : outcome (list Z) :=
  do l <- v6opt_data_len bs; wb_put_u16 bs (v6opt_f_DATA l) v.
(* opt.data_mut().copy_from_slice(v) *)
Definition v6opt_copy_data (bs : list Z) (v : list Z) : outcome (list Z) :=
  do l <- v6opt_data_len bs; wb_set_field bs (v6opt_f_DATA l) v.

(* impl From<u8> for FailureType (and From<Type>, which masks with 0b11000000 first: the same
   function of the raw type octet) *)
Definition v6opt_failure_type (value : Z) : outcome Z :=
  let v := Z.land value 192 in
  if v =? 0 then Ok 0
  else if v =? 64 then Ok 64
  else if v =? 128 then Ok 128
  else if v =? 192 then Ok 192
  else Panic.                                   (* unreachable!() *)

(* ---------- Repr ---------- *)

(* Repr::parse *)
Definition v6opt_parse (bs : list Z) : outcome v6opt_repr :=
  do _ <- v6opt_check_len bs;
  do t <- v6opt_option_type bs;
  if t =? v6opt_T_PAD1 then Ok V6OptPad1
  else if t =? v6opt_T_PADN then
    do l <- v6opt_data_len bs; Ok (V6OptPadN l)
  else if t =? v6opt_T_ROUTER_ALERT then
    do l <- v6opt_data_len bs;
    if l =? wv6opt_DATA_LEN then
      (* NetworkEndian::read_u16(opt.data()) *)
      do l' <- v6opt_data_len bs;
      do raw <- wb_get_u16 bs (v6opt_f_DATA l');
      Ok (V6OptRouterAlert raw)
    else Err 0
  else if t =? v6opt_T_RPL then                (* #[cfg(not(feature = "proto-rpl"))] *)
    do l <- v6opt_data_len bs;
    do d <- v6opt_data bs;
    Ok (V6OptUnknown v6opt_T_RPL l d)
  else
    do l <- v6opt_data_len bs;
    do d <- v6opt_data bs;
    Ok (V6OptUnknown t l d).

(* Repr::buffer_len *)
Definition v6opt_buffer_len (r : v6opt_repr) : Z :=
  match r with
  | V6OptPad1 => 1
  | V6OptPadN l => snd (v6opt_f_DATA l)
  | V6OptRouterAlert _ => snd (v6opt_f_DATA wv6opt_DATA_LEN)
  | V6OptUnknown _ l _ => snd (v6opt_f_DATA l)
  end.

(* Repr::emit *)
Definition v6opt_emit (r : v6opt_repr) (b : list Z) : outcome (list Z) :=
  match r with
  | V6OptPad1 => v6opt_set_option_type b v6opt_T_PAD1
  | V6OptPadN l =>
      do b <- v6opt_set_option_type b v6opt_T_PADN;
      do b <- v6opt_set_data_len b l;
      v6opt_zero_data b
  | V6OptRouterAlert k =>
      do b <- v6opt_set_option_type b v6opt_T_ROUTER_ALERT;
      do b <- v6opt_set_data_len b wv6opt_DATA_LEN;
      v6opt_put_data_u16 b k
  | V6OptUnknown t l d =>
      do b <- v6opt_set_option_type b t;
      do b <- v6opt_set_data_len b l;
      (* opt.data_mut().copy_from_slice(&data[..length as usize]) *)
      do d' <- wb_upto d l;
      v6opt_copy_data b d'
  end.

(* Proviso of C06 for one option:
   - PadN(len): len is a u8 (Rust type);
   - RouterAlert(kind): the raw value of the enum is a u16 (Rust type);
   - Unknown { type_, length, data }:
       type_ and length are u8 (Rust types), data consists of octets;
       type_ is not one of the types `parse` gives their own variant (Pad1 = 0, PadN = 1,
       RouterAlert = 5): an Unknown carrying one of them is emitted with that type octet and parses
       back as the named variant (Type::Rpl = 0x63 IS allowed: without proto-rpl parse produces
       exactly Unknown { type_: Rpl, .. });
       |data| = length: `parse` always produces this; emit copies `data[..length]`, so a longer
       slice is cut (does not parse back equal) and a shorter one panics. *)
Definition v6opt_wf (r : v6opt_repr) : bool :=
  match r with
  | V6OptPad1 => true
  | V6OptPadN l => is_u8 l
  | V6OptRouterAlert k => is_u16 k
  | V6OptUnknown t l d =>
      is_u8 t && negb (t =? v6opt_T_PAD1) && negb (t =? v6opt_T_PADN) &&
      negb (t =? v6opt_T_ROUTER_ALERT) && is_u8 l && bytes_ok d && (blen d =? l)
  end.

(* ---------- Ipv6OptionsIterator ----------
   State: pos, hit_error (length and data are constant).  One call of next():
     pos < length && !hit_error:
         new_checked(&data[pos..]) Err  -> hit_error = true, Some(Err)
         Repr::parse               Err  -> hit_error = true, Some(Err)
         Ok(repr)                       -> pos += repr.buffer_len(), Some(Ok(repr))
     otherwise None.
   [v6opt_iter_fuel] is the list of items produced by calling next() until None; after an Err
   item hit_error is set, so the list ends there.  An item [Panic] stands for a panicking call
   (the list ends there too).  Fuel = |data| suffices: v6opt_iter_fuel_suffices. *)
Definition v6opt_iter_next (data : list Z) (pos : Z) : outcome v6opt_repr :=
  do s <- wb_from data pos;
  do _ <- v6opt_check_len s;          (* Ipv6Option::new_checked *)
  v6opt_parse s.

Fixpoint v6opt_iter_fuel (fuel : nat) (data : list Z) (pos : Z) : list (outcome v6opt_repr) :=
  match fuel with
  | O => []
  | S f =>
      if pos <? blen data then
        match v6opt_iter_next data pos with
        | Ok r => Ok r :: v6opt_iter_fuel f data (pos + v6opt_buffer_len r)
        | Err e => [Err e]
        | Panic => [Panic]
        end
      else []
  end.

(* Ipv6OptionsIterator::new(data) drained *)
Definition v6opt_iter (data : list Z) : list (outcome v6opt_repr) :=
  v6opt_iter_fuel (length data) data 0.
