(* Executable model of smoltcp::wire::ipv6routing (src/wire/ipv6routing.rs): the IPv6 Routing
   header `Header<T>` (check_len, routing_type, segments_left, home_address, cmpr_i, cmpr_e, pad,
   addresses, the setters, clear_reserved) and `Repr::{parse, buffer_len, emit}` for the two
   supported routing types: Type 2 (Mobile IPv6, RFC 6275) and the RPL Source Routing Header
   (RFC 6554).

   `Header` wraps the payload of a generic IPv6 extension header: "the fields start counting
   after the header length field", i.e. offset 0 here is octet 2 of the extension header (next
   header and length octets are Model/WireIpv6Ext.v).

   Representation.  `Type` is an `enum_with_unknown!` enum, modelled by its raw octet.
   `home_address: Ipv6Address` is a 16-octet list, `addresses: &[u8]` an octet list.

   Panic sources (all [Panic] in the outcome monad): slice indexing `data[i]`,
   `data[field::HOME_ADDRESS]`, `&data[field::ADDRESSES..]`; `try_into().unwrap()` to [u8; 16]
   ([wb_arr 16]); `copy_from_slice` length mismatch in set_home_address / set_addresses; the
   explicit `panic!("Unrecognized routing type when clearing reserved fields.")` of
   clear_reserved.  `value << 4` on a u8 does not panic (only the shift amount is checked): the
   high bits are lost, written `(v << 4) mod 256`.  No loops.  No proofs in this file. *)
From SV Require Import Lib.Base Gen.WireFields Model.WireBase.

(* enum Type(u8): the two types Repr knows *)
Definition v6rt_T_TYPE2 : Z := 2.
Definition v6rt_T_RPL : Z := 3.

Inductive v6rt_repr :=
| V6RtType2 (segments_left : Z) (home_address : list Z)
| V6RtRpl (segments_left cmpr_i cmpr_e pad : Z) (addresses : list Z).

(* ---------- Header<T>: getters ---------- *)

Definition v6rt_routing_type (bs : list Z) : outcome Z := wb_get_u8 bs wv6routing_f_TYPE.
Definition v6rt_segments_left (bs : list Z) : outcome Z := wb_get_u8 bs wv6routing_f_SEG_LEFT.

(* Header::check_len *)
Definition v6rt_check_len (bs : list Z) : outcome unit :=
  if blen bs <? wv6routing_f_MIN_HEADER_SIZE then Err 0
  else
    do t <- v6rt_routing_type bs;
    if (t =? v6rt_T_TYPE2) && (blen bs <? snd wv6routing_f_HOME_ADDRESS) then Err 0
    else if (t =? v6rt_T_RPL) && (blen bs <? wv6routing_f_ADDRESSES) then Err 0
    else Ok tt.

(* Address::from_octets(data[field::HOME_ADDRESS].try_into().unwrap()) *)
Definition v6rt_home_address (bs : list Z) : outcome (list Z) :=
  do s <- wb_field bs wv6routing_f_HOME_ADDRESS; wb_arr 16 s.

Definition v6rt_cmpr_i (bs : list Z) : outcome Z :=
  do x <- wb_get_u8 bs wv6routing_f_CMPR; Ok (Z.shiftr x 4).
Definition v6rt_cmpr_e (bs : list Z) : outcome Z :=
  do x <- wb_get_u8 bs wv6routing_f_CMPR; Ok (Z.land x 15).
Definition v6rt_pad (bs : list Z) : outcome Z :=
  do x <- wb_get_u8 bs wv6routing_f_PAD; Ok (Z.shiftr x 4).
Definition v6rt_addresses (bs : list Z) : outcome (list Z) := wb_from bs wv6routing_f_ADDRESSES.

(* ---------- Header<T>: setters ---------- *)

Definition v6rt_set_routing_type (bs : list Z) (v : Z) := wb_set_u8 bs wv6routing_f_TYPE v.
Definition v6rt_set_segments_left (bs : list Z) (v : Z) := wb_set_u8 bs wv6routing_f_SEG_LEFT v.

(* Header::clear_reserved: octets 2..5 are written with literal indices in the source *)
Definition v6rt_clear_reserved (bs : list Z) : outcome (list Z) :=
  do t <- v6rt_routing_type bs;
  if t =? v6rt_T_TYPE2 then
    do b <- wb_set_u8 bs 2 0;
    do b <- wb_set_u8 b 3 0;
    do b <- wb_set_u8 b 4 0;
    wb_set_u8 b 5 0
  else if t =? v6rt_T_RPL then
    (* Retain the higher order 4 bits of the padding field *)
    do b <- wb_upd_u8 bs wv6routing_f_PAD (fun x => Z.land x 240);
    do b <- wb_set_u8 b 4 0;
    wb_set_u8 b 5 0
  else Panic.                                   (* panic!("Unrecognized routing type ...") *)

(* data[field::HOME_ADDRESS].copy_from_slice(&value.octets()) *)
Definition v6rt_set_home_address (bs : list Z) (a : list Z) := wb_set_field bs wv6routing_f_HOME_ADDRESS a.

(* let raw = (value << 4) | (data[field::CMPR] & 0xF) *)
Definition v6rt_set_cmpr_i (bs : list Z) (v : Z) :=
  wb_upd_u8 bs wv6routing_f_CMPR (fun x => Z.lor (Z.shiftl v 4 mod 256) (Z.land x 15)).
(* let raw = (value & 0xF) | (data[field::CMPR] & 0xF0) *)
Definition v6rt_set_cmpr_e (bs : list Z) (v : Z) :=
  wb_upd_u8 bs wv6routing_f_CMPR (fun x => Z.lor (Z.land v 15) (Z.land x 240)).
(* data[field::PAD] = value << 4 *)
Definition v6rt_set_pad (bs : list Z) (v : Z) := wb_set_u8 bs wv6routing_f_PAD (Z.shiftl v 4 mod 256).
(* let addresses = &mut data[field::ADDRESSES..]; addresses.copy_from_slice(value) *)
Definition v6rt_set_addresses (bs : list Z) (v : list Z) :=
  wb_set_slice bs wv6routing_f_ADDRESSES (blen bs) v.

(* ---------- Repr ---------- *)

(* Repr::parse *)
Definition v6rt_parse (bs : list Z) : outcome v6rt_repr :=
  do _ <- v6rt_check_len bs;
  do t <- v6rt_routing_type bs;
  if t =? v6rt_T_TYPE2 then
    do sl <- v6rt_segments_left bs;
    do ha <- v6rt_home_address bs;
    Ok (V6RtType2 sl ha)
  else if t =? v6rt_T_RPL then
    do sl <- v6rt_segments_left bs;
    do ci <- v6rt_cmpr_i bs;
    do ce <- v6rt_cmpr_e bs;
    do p <- v6rt_pad bs;
    do a <- v6rt_addresses bs;
    Ok (V6RtRpl sl ci ce p a)
  else Err 0.

(* Repr::buffer_len: `2 + 4 + home_address.octets().len()` (= 16, the size of Ipv6Address) /
   `2 + 4 + addresses.len()` *)
Definition v6rt_buffer_len (r : v6rt_repr) : Z :=
  match r with
  | V6RtType2 _ _ => 2 + 4 + 16
  | V6RtRpl _ _ _ _ a => 2 + 4 + blen a
  end.

(* Repr::emit *)
Definition v6rt_emit (r : v6rt_repr) (b : list Z) : outcome (list Z) :=
  match r with
  | V6RtType2 sl ha =>
      do b <- v6rt_set_routing_type b v6rt_T_TYPE2;
      do b <- v6rt_set_segments_left b sl;
      do b <- v6rt_clear_reserved b;
      v6rt_set_home_address b ha
  | V6RtRpl sl ci ce p a =>
      do b <- v6rt_set_routing_type b v6rt_T_RPL;
      do b <- v6rt_set_segments_left b sl;
      do b <- v6rt_set_cmpr_i b ci;
      do b <- v6rt_set_cmpr_e b ce;
      do b <- v6rt_set_pad b p;
      do b <- v6rt_clear_reserved b;
      v6rt_set_addresses b a
  end.

(* Proviso of C06 for the Routing header:
   - segments_left is a u8 (Rust type);
   - Type2: home_address is an Ipv6Address: 16 octets (Rust type);
   - Rpl: cmpr_i, cmpr_e, pad are 4-bit fields of the wire format (RFC 6554 section 3): the
     setters keep only the low four bits (`value << 4` on a u8, `value & 0xF`) and the getters
     return values below 16, so larger values of the u8 fields do not survive; addresses
     consists of octets (its length is free: the header wraps whatever the extension header's
     length field announces). *)
Definition v6rt_wf (r : v6rt_repr) : bool :=
  match r with
  | V6RtType2 sl ha => is_u8 sl && is_arr 16 ha
  | V6RtRpl sl ci ce p a =>
      is_u8 sl && (0 <=? ci) && (ci <? 16) && (0 <=? ce) && (ce <? 16) && (0 <=? p) && (p <? 16) &&
      bytes_ok a
  end.
