(* Executable model of smoltcp::wire::icmpv6 (src/wire/icmpv6.rs), non-NDISC / non-MLD part:
   Packet::check_len and the accessors of the RFC 4443 messages, verify_checksum / fill_checksum
   (arithmetic abstracted), Repr::{parse, buffer_len, emit} for DstUnreachable, PktTooBig,
   TimeExceeded, ParamProblem, EchoRequest, EchoReply.

   NDISC (RouterSolicit .. Redirect) and MLD (query / report) messages are separate Repr types
   (`NdiscRepr`, `MldRepr`) modelled elsewhere: `check_len` and `header_len` cover them (they are
   part of Packet), `icmpv6_parse` answers [Err wb_delegated] for them, i.e. "handed to
   NdiscRepr::parse / MldRepr::parse", about which this file says nothing.  RPL is behind a
   non-default feature: `Message::RplControl` is rejected by check_len as in the harness build.

   The embedded IPv6 header of the error messages is the WireIpv6 model.

   Checksum parameters (Section variables, property C08), for the (src, dst) pair of the call:
     [sum_ok d]   = `combine(&[pseudo_header_v6(src, dst, Icmpv6, len), data(d)]) == !0`
     [sum_fill d] = `!combine(...)`                                   over the whole buffer d.

   Panic sources: slice indexing, copy_from_slice length mismatch, the `panic!` arm of
   clear_reserved, the usize subtraction MAX_ERROR_PACKET_LEN - header_len - 40.
   No proofs in this file. *)
From SV Require Import Lib.Base Gen.WireFields Gen.Consts Model.WireBase Model.WireIpv6.

Inductive icmpv6_repr :=
| Icmp6DstUnreachable (reason : Z) (header : ipv6_repr) (data : list Z)
| Icmp6PktTooBig (mtu : Z) (header : ipv6_repr) (data : list Z)
| Icmp6TimeExceeded (reason : Z) (header : ipv6_repr) (data : list Z)
| Icmp6ParamProblem (reason pointer : Z) (header : ipv6_repr) (data : list Z)
| Icmp6EchoRequest (ident seq_no : Z) (data : list Z)
| Icmp6EchoReply (ident seq_no : Z) (data : list Z).

(* enum Message *)
Definition icmpv6_DST_UNREACHABLE : Z := 1.
Definition icmpv6_PKT_TOO_BIG : Z := 2.
Definition icmpv6_TIME_EXCEEDED : Z := 3.
Definition icmpv6_PARAM_PROBLEM : Z := 4.
Definition icmpv6_ECHO_REQUEST : Z := 128.
Definition icmpv6_ECHO_REPLY : Z := 129.
Definition icmpv6_MLD_QUERY : Z := 130.
Definition icmpv6_ROUTER_SOLICIT : Z := 133.
Definition icmpv6_ROUTER_ADVERT : Z := 134.
Definition icmpv6_NEIGHBOR_SOLICIT : Z := 135.
Definition icmpv6_NEIGHBOR_ADVERT : Z := 136.
Definition icmpv6_REDIRECT : Z := 137.
Definition icmpv6_MLD_REPORT : Z := 143.
Definition icmpv6_RPL_CONTROL : Z := 155.

Definition icmpv6_MAX_ERROR_PACKET_LEN : Z := wipv6_MIN_MTU - wipv6_HEADER_LEN.

Definition icmpv6_is_ndisc (t : Z) : bool :=
  (t =? icmpv6_ROUTER_SOLICIT) || (t =? icmpv6_ROUTER_ADVERT) || (t =? icmpv6_NEIGHBOR_SOLICIT) ||
  (t =? icmpv6_NEIGHBOR_ADVERT) || (t =? icmpv6_REDIRECT).
Definition icmpv6_is_mld (t : Z) : bool := (t =? icmpv6_MLD_QUERY) || (t =? icmpv6_MLD_REPORT).
(* the message types named in the first arm of check_len *)
Definition icmpv6_is_known (t : Z) : bool :=
  (t =? icmpv6_DST_UNREACHABLE) || (t =? icmpv6_PKT_TOO_BIG) || (t =? icmpv6_TIME_EXCEEDED) ||
  (t =? icmpv6_PARAM_PROBLEM) || (t =? icmpv6_ECHO_REQUEST) || (t =? icmpv6_ECHO_REPLY) ||
  icmpv6_is_ndisc t || icmpv6_is_mld t.

(* ---------- accessors ---------- *)
Definition icmpv6_msg_type (bs : list Z) : outcome Z := wb_get_u8 bs wicmpv6_f_TYPE.
Definition icmpv6_msg_code (bs : list Z) : outcome Z := wb_get_u8 bs wicmpv6_f_CODE.
Definition icmpv6_checksum (bs : list Z) : outcome Z := wb_get_u16 bs wicmpv6_f_CHECKSUM.
Definition icmpv6_echo_ident (bs : list Z) : outcome Z := wb_get_u16 bs wicmpv6_f_ECHO_IDENT.
Definition icmpv6_echo_seq_no (bs : list Z) : outcome Z := wb_get_u16 bs wicmpv6_f_ECHO_SEQNO.
Definition icmpv6_pkt_too_big_mtu (bs : list Z) : outcome Z := wb_get_u32 bs wicmpv6_f_MTU.
Definition icmpv6_param_problem_ptr (bs : list Z) : outcome Z := wb_get_u32 bs wicmpv6_f_POINTER.

(* Packet::header_len *)
Definition icmpv6_header_len_of (t : Z) : Z :=
  if t =? icmpv6_DST_UNREACHABLE then snd wicmpv6_f_UNUSED
  else if t =? icmpv6_PKT_TOO_BIG then snd wicmpv6_f_MTU
  else if t =? icmpv6_TIME_EXCEEDED then snd wicmpv6_f_UNUSED
  else if t =? icmpv6_PARAM_PROBLEM then snd wicmpv6_f_POINTER
  else if t =? icmpv6_ECHO_REQUEST then snd wicmpv6_f_ECHO_SEQNO
  else if t =? icmpv6_ECHO_REPLY then snd wicmpv6_f_ECHO_SEQNO
  else if t =? icmpv6_ROUTER_SOLICIT then snd wicmpv6_f_UNUSED
  else if t =? icmpv6_ROUTER_ADVERT then snd wicmpv6_f_RETRANS_TM
  else if t =? icmpv6_NEIGHBOR_SOLICIT then snd wicmpv6_f_TARGET_ADDR
  else if t =? icmpv6_NEIGHBOR_ADVERT then snd wicmpv6_f_TARGET_ADDR
  else if t =? icmpv6_REDIRECT then snd wicmpv6_f_DEST_ADDR
  else if t =? icmpv6_MLD_QUERY then snd wicmpv6_f_QUERY_NUM_SRCS
  else if t =? icmpv6_MLD_REPORT then snd wicmpv6_f_NR_MCAST_RCRDS
  else snd wicmpv6_f_CHECKSUM.
Definition icmpv6_header_len (bs : list Z) : outcome Z :=
  do t <- icmpv6_msg_type bs; Ok (icmpv6_header_len_of t).
Definition icmpv6_payload (bs : list Z) : outcome (list Z) :=
  do hl <- icmpv6_header_len bs; wb_from bs hl.

(* Packet::check_len *)
Definition icmpv6_check_len (bs : list Z) : outcome unit :=
  if blen bs <? 4 then Err 0
  else
    do t <- icmpv6_msg_type bs;
    if icmpv6_is_known t then
      do hl <- icmpv6_header_len bs;
      if (blen bs <? wicmpv6_f_HEADER_END) || (blen bs <? hl) then Err 0 else Ok tt
    else Err 0.   (* RplControl without proto-rpl, Unknown(_) *)

(* ---------- setters ---------- *)
Definition icmpv6_set_msg_type (bs : list Z) (v : Z) := wb_set_u8 bs wicmpv6_f_TYPE v.
Definition icmpv6_set_msg_code (bs : list Z) (v : Z) := wb_set_u8 bs wicmpv6_f_CODE v.
Definition icmpv6_set_checksum (bs : list Z) (v : Z) := wb_put_u16 bs wicmpv6_f_CHECKSUM v.
Definition icmpv6_set_echo_ident (bs : list Z) (v : Z) := wb_put_u16 bs wicmpv6_f_ECHO_IDENT v.
Definition icmpv6_set_echo_seq_no (bs : list Z) (v : Z) := wb_put_u16 bs wicmpv6_f_ECHO_SEQNO v.
Definition icmpv6_set_pkt_too_big_mtu (bs : list Z) (v : Z) := wb_put_u32 bs wicmpv6_f_MTU v.
Definition icmpv6_set_param_problem_ptr (bs : list Z) (v : Z) := wb_put_u32 bs wicmpv6_f_POINTER v.

(* Packet::clear_reserved *)
Definition icmpv6_clear_reserved (bs : list Z) : outcome (list Z) :=
  do t <- icmpv6_msg_type bs;
  if (t =? icmpv6_DST_UNREACHABLE) || (t =? icmpv6_TIME_EXCEEDED) || (t =? icmpv6_ROUTER_SOLICIT) ||
     (t =? icmpv6_NEIGHBOR_SOLICIT) || (t =? icmpv6_NEIGHBOR_ADVERT) || (t =? icmpv6_REDIRECT)
  then wb_put_u32 bs wicmpv6_f_UNUSED 0
  else if t =? icmpv6_MLD_QUERY then
    do bs <- wb_put_u16 bs wicmpv6_f_QUERY_RESV 0;
    wb_upd_u8 bs wicmpv6_f_SQRV (fun x => Z.land x 15)
  else if t =? icmpv6_MLD_REPORT then wb_put_u16 bs wicmpv6_f_RECORD_RESV 0
  else Panic.

Section Checksum.
Variable sum_ok : list Z -> bool.
Variable sum_fill : list Z -> Z.

Definition icmpv6_verify_checksum (bs : list Z) : bool := sum_ok bs.
Definition icmpv6_fill_checksum (bs : list Z) : outcome (list Z) :=
  do bs <- icmpv6_set_checksum bs 0;
  icmpv6_set_checksum bs (sum_fill bs).

(* create_packet_from_payload *)
Definition icmpv6_packet_from_payload (bs : list Z) : outcome (list Z * ipv6_repr) :=
  do p <- icmpv6_payload bs;
  do _ <- wb_guard (blen p >=? wipv6_HEADER_LEN);
  do payload <- wb_from p (ipv6_header_len p);
  do s <- ipv6_src_addr p;
  do d <- ipv6_dst_addr p;
  do n <- ipv6_next_header p;
  do l <- ipv6_payload_len_ p;
  do h <- ipv6_hop_limit_ p;
  Ok (payload, mkIpv6 s d n l h).

(* Repr::parse *)
Definition icmpv6_parse (rx : bool) (bs : list Z) : outcome icmpv6_repr :=
  do _ <- icmpv6_check_len bs;
  do _ <- wb_guard (negb (rx && negb (icmpv6_verify_checksum bs)));
  do ty <- icmpv6_msg_type bs;
  do code <- icmpv6_msg_code bs;
  if ty =? icmpv6_DST_UNREACHABLE then
    do pr <- icmpv6_packet_from_payload bs; Ok (Icmp6DstUnreachable code (snd pr) (fst pr))
  else if (ty =? icmpv6_PKT_TOO_BIG) && (code =? 0) then
    do pr <- icmpv6_packet_from_payload bs;
    do mtu <- icmpv6_pkt_too_big_mtu bs; Ok (Icmp6PktTooBig mtu (snd pr) (fst pr))
  else if ty =? icmpv6_TIME_EXCEEDED then
    do pr <- icmpv6_packet_from_payload bs; Ok (Icmp6TimeExceeded code (snd pr) (fst pr))
  else if ty =? icmpv6_PARAM_PROBLEM then
    do pr <- icmpv6_packet_from_payload bs;
    do ptr <- icmpv6_param_problem_ptr bs; Ok (Icmp6ParamProblem code ptr (snd pr) (fst pr))
  else if (ty =? icmpv6_ECHO_REQUEST) && (code =? 0) then
    do i <- icmpv6_echo_ident bs; do s <- icmpv6_echo_seq_no bs; do d <- icmpv6_payload bs;
    Ok (Icmp6EchoRequest i s d)
  else if (ty =? icmpv6_ECHO_REPLY) && (code =? 0) then
    do i <- icmpv6_echo_ident bs; do s <- icmpv6_echo_seq_no bs; do d <- icmpv6_payload bs;
    Ok (Icmp6EchoReply i s d)
  else if (icmpv6_is_ndisc ty || icmpv6_is_mld ty) && (code =? 0) then Err wb_delegated
  else Err 0.

(* Repr::buffer_len *)
Definition icmpv6_buffer_len (r : icmpv6_repr) : Z :=
  match r with
  | Icmp6DstUnreachable _ header data | Icmp6PktTooBig _ header data
  | Icmp6TimeExceeded _ header data | Icmp6ParamProblem _ _ header data =>
      Z.min (snd wicmpv6_f_UNUSED + ipv6_buffer_len header + blen data) icmpv6_MAX_ERROR_PACKET_LEN
  | Icmp6EchoRequest _ _ data | Icmp6EchoReply _ _ data => snd wicmpv6_f_ECHO_SEQNO + blen data
  end.

(* emit_contained_packet *)
Definition icmpv6_emit_contained (header : ipv6_repr) (data : list Z) (b : list Z) : outcome (list Z) :=
  do hl <- icmpv6_header_len b;
  wb_on_from b hl (fun inner =>
    do inner <- ipv6_emit header inner;
    (* MAX_ERROR_PACKET_LEN - icmp_header_len - IPV6_HEADER_LEN : usize subtraction *)
    do _ <- wb_assert (hl + wipv6_HEADER_LEN <=? icmpv6_MAX_ERROR_PACKET_LEN);
    let n := Z.min (blen data) (icmpv6_MAX_ERROR_PACKET_LEN - hl - wipv6_HEADER_LEN) in
    do src <- wb_upto data n;
    (* payload = &mut inner[header.buffer_len()..]; payload[..n].copy_from_slice(&data[..n]) *)
    do _ <- wb_sub inner (ipv6_buffer_len header) (ipv6_buffer_len header + n);
    wb_set_slice inner (ipv6_buffer_len header) (ipv6_buffer_len header + n) src).

Definition icmpv6_emit_echo (ty ident seq_no : Z) (data : list Z) (b : list Z) : outcome (list Z) :=
  do b <- icmpv6_set_msg_type b ty;
  do b <- icmpv6_set_msg_code b 0;
  do b <- icmpv6_set_echo_ident b ident;
  do b <- icmpv6_set_echo_seq_no b seq_no;
  do hl <- icmpv6_header_len b;
  do dm <- wb_from b hl;
  let n := Z.min (blen dm) (blen data) in
  do src <- wb_upto data n;
  wb_set_slice b hl (hl + n) src.

(* Repr::emit *)
Definition icmpv6_emit (tx : bool) (r : icmpv6_repr) (b : list Z) : outcome (list Z) :=
  do b <- match r with
          | Icmp6DstUnreachable reason h d =>
              do b <- icmpv6_set_msg_type b icmpv6_DST_UNREACHABLE;
              do b <- icmpv6_set_msg_code b reason;
              do b <- icmpv6_clear_reserved b;
              icmpv6_emit_contained h d b
          | Icmp6PktTooBig mtu h d =>
              do b <- icmpv6_set_msg_type b icmpv6_PKT_TOO_BIG;
              do b <- icmpv6_set_msg_code b 0;
              do b <- icmpv6_set_pkt_too_big_mtu b mtu;
              icmpv6_emit_contained h d b
          | Icmp6TimeExceeded reason h d =>
              do b <- icmpv6_set_msg_type b icmpv6_TIME_EXCEEDED;
              do b <- icmpv6_set_msg_code b reason;
              do b <- icmpv6_clear_reserved b;
              icmpv6_emit_contained h d b
          | Icmp6ParamProblem reason ptr h d =>
              do b <- icmpv6_set_msg_type b icmpv6_PARAM_PROBLEM;
              do b <- icmpv6_set_msg_code b reason;
              do b <- icmpv6_set_param_problem_ptr b ptr;
              icmpv6_emit_contained h d b
          | Icmp6EchoRequest i s d => icmpv6_emit_echo icmpv6_ECHO_REQUEST i s d b
          | Icmp6EchoReply i s d => icmpv6_emit_echo icmpv6_ECHO_REPLY i s d b
          end;
  if tx then icmpv6_fill_checksum b else icmpv6_set_checksum b 0.

End Checksum.

(* Proviso of C06 for ICMPv6 (RFC 4443 messages):
   - identifier / sequence number u16, MTU / pointer u32, reason u8 (Rust types); data are octets;
   - error messages carry the offending packet's IPv6 header and as much of its payload as fits
     the minimum MTU: `buffer_len` and `emit` cut the payload at
     MAX_ERROR_PACKET_LEN - 8 - 40 = 1192 octets ("cut to the minimum MTU by design"), so only
     [|data| <= 1192] is carried unchanged;
   - the embedded header is well-formed (IPv6 proviso: payload_len is a u16); it is independent of
     |data| (parse does not relate them). *)
Definition icmpv6_MAX_ERROR_DATA : Z := icmpv6_MAX_ERROR_PACKET_LEN - snd wicmpv6_f_UNUSED - wipv6_HEADER_LEN.
Definition icmpv6_wf (r : icmpv6_repr) : bool :=
  match r with
  | Icmp6DstUnreachable reason h d | Icmp6TimeExceeded reason h d =>
      is_u8 reason && ipv6_wf h && bytes_ok d && (blen d <=? icmpv6_MAX_ERROR_DATA)
  | Icmp6PktTooBig mtu h d => is_u32 mtu && ipv6_wf h && bytes_ok d && (blen d <=? icmpv6_MAX_ERROR_DATA)
  | Icmp6ParamProblem reason ptr h d =>
      is_u8 reason && is_u32 ptr && ipv6_wf h && bytes_ok d && (blen d <=? icmpv6_MAX_ERROR_DATA)
  | Icmp6EchoRequest i s d | Icmp6EchoReply i s d => is_u16 i && is_u16 s && bytes_ok d
  end.
