(* Executable model of smoltcp::wire::ipv6 (src/wire/ipv6.rs): Packet accessors, check_len,
   Repr::{parse, buffer_len, emit} of the fixed 40-octet header (extension headers are
   separate wire types, modelled elsewhere).

   Representation: addresses are 16-octet lists, [next_header] the raw protocol octet,
   [payload_len] a usize.

   Panic sources: slice indexing, `try_into().unwrap()` to [u8; 16].  `payload_len as u16`
   in emit truncates silently.  No proofs in this file. *)
From SV Require Import Lib.Base Gen.WireFields Model.WireBase.

Record ipv6_repr := mkIpv6 {
  ipv6_src : list Z; ipv6_dst : list Z; ipv6_nxt : Z; ipv6_payload_len : Z; ipv6_hop_limit : Z }.

Definition ipv6_HEADER_LEN : Z := snd wipv6_f_DST_ADDR.

(* ---------- accessors ---------- *)
Definition ipv6_header_len (bs : list Z) : Z := snd wipv6_f_DST_ADDR.
Definition ipv6_version (bs : list Z) : outcome Z :=
  do x <- wb_get_u8 bs (fst wipv6_f_VER_TC_FLOW); Ok (Z.shiftr x 4).
(* ((read_u16(&data[0..2]) & 0x0ff0) >> 4) as u8 *)
Definition ipv6_traffic_class (bs : list Z) : outcome Z :=
  do x <- wb_get_be bs 0 2 2; Ok (Z.shiftr (Z.land x 4080) 4 mod 256).
(* read_u24(&data[1..4]) & 0x000fffff *)
Definition ipv6_flow_label (bs : list Z) : outcome Z :=
  do x <- wb_get_be bs 1 4 3; Ok (Z.land x 1048575).
Definition ipv6_payload_len_ (bs : list Z) : outcome Z := wb_get_u16 bs wipv6_f_LENGTH.
Definition ipv6_total_len (bs : list Z) : outcome Z :=
  do l <- ipv6_payload_len_ bs; Ok (ipv6_header_len bs + l).
Definition ipv6_next_header (bs : list Z) : outcome Z := wb_get_u8 bs wipv6_f_NXT_HDR.
Definition ipv6_hop_limit_ (bs : list Z) : outcome Z := wb_get_u8 bs wipv6_f_HOP_LIMIT.
Definition ipv6_src_addr (bs : list Z) : outcome (list Z) :=
  do s <- wb_field bs wipv6_f_SRC_ADDR; wb_arr 16 s.
Definition ipv6_dst_addr (bs : list Z) : outcome (list Z) :=
  do s <- wb_field bs wipv6_f_DST_ADDR; wb_arr 16 s.
(* Packet::payload: data[header_len..total_len] *)
Definition ipv6_payload (bs : list Z) : outcome (list Z) :=
  do tl <- ipv6_total_len bs; wb_sub bs (ipv6_header_len bs) tl.

(* Packet::check_len: `len < DST_ADDR.end || len < total_len()` (short-circuit: total_len is
   only read when the header is present) *)
Definition ipv6_check_len (bs : list Z) : outcome unit :=
  if blen bs <? snd wipv6_f_DST_ADDR then Err 0
  else do tl <- ipv6_total_len bs; if blen bs <? tl then Err 0 else Ok tt.

(* ---------- setters ---------- *)
Definition ipv6_set_version (bs : list Z) (v : Z) :=
  wb_upd_u8 bs 0 (fun x => Z.lor (Z.land x 15) (Z.shiftl (Z.land v 15) 4 mod 256)).
Definition ipv6_set_traffic_class (bs : list Z) (v : Z) :=
  do bs <- wb_upd_u8 bs 0 (fun x => Z.lor (Z.land x 240) (Z.shiftr (Z.land v 240) 4));
  wb_upd_u8 bs 1 (fun x => Z.lor (Z.land x 15) (Z.shiftl (Z.land v 15) 4 mod 256)).
Definition ipv6_set_flow_label (bs : list Z) (v : Z) :=
  do x <- wb_get_u8 bs 1;
  let raw := Z.lor (Z.shiftl (Z.land x 240) 16) (Z.land v 1048575) in
  wb_put_be bs 1 4 (be_enc3 raw).
Definition ipv6_set_payload_len (bs : list Z) (v : Z) := wb_put_u16 bs wipv6_f_LENGTH v.
Definition ipv6_set_next_header (bs : list Z) (v : Z) := wb_set_u8 bs wipv6_f_NXT_HDR v.
Definition ipv6_set_hop_limit (bs : list Z) (v : Z) := wb_set_u8 bs wipv6_f_HOP_LIMIT v.
Definition ipv6_set_src_addr (bs : list Z) (v : list Z) := wb_set_field bs wipv6_f_SRC_ADDR v.
Definition ipv6_set_dst_addr (bs : list Z) (v : list Z) := wb_set_field bs wipv6_f_DST_ADDR v.

(* Repr::parse *)
Definition ipv6_parse (bs : list Z) : outcome ipv6_repr :=
  do _ <- ipv6_check_len bs;
  do v <- ipv6_version bs;
  do _ <- wb_guard (v =? 6);
  do s <- ipv6_src_addr bs;
  do d <- ipv6_dst_addr bs;
  do n <- ipv6_next_header bs;
  do l <- ipv6_payload_len_ bs;
  do h <- ipv6_hop_limit_ bs;
  Ok (mkIpv6 s d n l h).

(* Repr::buffer_len *)
Definition ipv6_buffer_len (r : ipv6_repr) : Z := snd wipv6_f_DST_ADDR.

(* Repr::emit *)
Definition ipv6_emit (r : ipv6_repr) (b : list Z) : outcome (list Z) :=
  do b <- ipv6_set_version b 6;
  do b <- ipv6_set_traffic_class b 0;
  do b <- ipv6_set_flow_label b 0;
  do b <- ipv6_set_payload_len b (ipv6_payload_len r mod 65536);
  do b <- ipv6_set_hop_limit b (ipv6_hop_limit r);
  do b <- ipv6_set_next_header b (ipv6_nxt r);
  do b <- ipv6_set_src_addr b (ipv6_src r);
  ipv6_set_dst_addr b (ipv6_dst r).

(* Proviso of C06 for IPv6:
   - addresses [u8; 16], next header and hop limit u8 (Rust types);
   - payload_len fits the 16-bit payload-length field (emit truncates with `as u16`; jumbograms
     are not supported by the Repr). *)
Definition ipv6_wf (r : ipv6_repr) : bool :=
  is_arr 16 (ipv6_src r) && is_arr 16 (ipv6_dst r) && is_u8 (ipv6_nxt r) && is_u8 (ipv6_hop_limit r) &&
  is_u16 (ipv6_payload_len r).
