(* Executable model of smoltcp::wire::ndiscoption (src/wire/ndiscoption.rs): the NDISC option
   (RFC 4861 4.6): NdiscOption accessors and setters, check_len, new_checked,
   Repr::{parse, buffer_len, emit}.  Names are prefixed ndopt_.

   Modelled: check_len (option length 0, the per-type minimum sizes of Prefix Information and
   Redirected Header), new_checked (rejects a length field of 0), option_type, data_len,
   link_layer_addr, mtu, prefix_len, prefix_flags, valid_lifetime, preferred_lifetime, prefix,
   data; set_option_type, set_data_len, set_link_layer_addr, set_mtu, set_prefix_len,
   set_prefix_flags, set_valid_lifetime, set_preferred_lifetime, clear_prefix_reserved,
   set_prefix, clear_redirected_reserved, clear_mtu_reserved, data_mut; Repr::parse / buffer_len / emit for all six
   variants.  Not modelled: Display / PrettyPrint (they call Repr::parse and format the result),
   PrefixInformation::is_valid_prefix_info (a predicate on the Repr, no wire access).

   Representation.
   - RawHardwareAddress (an octet array of MAX_HARDWARE_ADDRESS_LEN with a length) = the list of
     its `len` octets.  Build features of the harness: medium-ethernet + medium-ieee802154, so
     MAX_HARDWARE_ADDRESS_LEN = 8 ([ndopt_MAX_HW]; src/wire/mod.rs, not a field constant).
   - PrefixInfoFlags (bitflags over u8, ON_LINK = 0x80, ADDRCONF = 0x40) = the `bits()` octet;
     `from_bits_truncate x` = x & 0xC0.
   - Duration: valid/preferred lifetime are produced by `Duration::from_secs(u32)` and written
     as `secs() as u32`; the model carries the SECOND COUNT (a Duration that is not a whole
     number of seconds is not representable on the wire and is outside the model's Repr).
   - RedirectedHeader = (Ipv6Repr, data): the IPv6 header is the first-wave model
     Model/WireIpv6.v (ipv6_parse / ipv6_emit), reused literally.
   - Type::Unknown(id): the raw type octet.

   Panic sources (each is Panic here exactly when the Rust code panics, debug build):
   - slice indexing in every accessor/setter;
   - link_layer_addr: `self.data_len() as usize * 8 - 2` underflows when the length field is 0
     (arithmetic-overflow panic; excluded after new_checked, and Repr::parse tests `>= 1` first);
   - data / data_mut: `&data[2..len * 8]` with len = 0 is an inverted range;
   - `try_into().unwrap()` to [u8; 16] in prefix();
   - copy_from_slice length mismatches in set_link_layer_addr, set_prefix, emit (Unknown data,
     RedirectedHeader data vs. the payload length written into the embedded IPv6 header);
   - `as u8` of the computed option length truncates silently.
   No proofs in this file. *)
From SV Require Import Lib.Base Gen.WireFields Model.WireBase Model.WireIpv6.

(* enum Type *)
Definition ndopt_T_SLLA : Z := 1.
Definition ndopt_T_TLLA : Z := 2.
Definition ndopt_T_PREFIX : Z := 3.
Definition ndopt_T_REDIR : Z := 4.
Definition ndopt_T_MTU : Z := 5.
(* the option types with a Type variant of their own (everything else is Type::Unknown) *)
Definition ndopt_type_known (t : Z) : bool := (1 <=? t) && (t <=? 5).

(* wire::MAX_HARDWARE_ADDRESS_LEN with medium-ieee802154 enabled *)
Definition ndopt_MAX_HW : Z := 8.
(* PrefixInfoFlags::all().bits() *)
Definition ndopt_PREFIX_FLAGS_MASK : Z := 192.

Record ndopt_prefix_info := mkNdPrefix {
  ndpi_prefix_len : Z; ndpi_flags : Z; ndpi_valid : Z; ndpi_preferred : Z; ndpi_prefix : list Z }.

Record ndopt_redirected := mkNdRedir { ndrh_header : ipv6_repr; ndrh_data : list Z }.

Inductive ndopt_repr :=
| NdSourceLL (a : list Z)
| NdTargetLL (a : list Z)
| NdPrefixInfo (p : ndopt_prefix_info)
| NdRedirected (h : ndopt_redirected)
| NdMtu (m : Z)
| NdUnknown (t l : Z) (d : list Z).

(* field::DATA(length) = 2 .. length * 8 *)
Definition ndopt_f_DATA (len : Z) : Z * Z := (2, len * 8).

(* ---------- core accessors ---------- *)
Definition ndopt_option_type (bs : list Z) : outcome Z := wb_get_u8 bs wndiscopt_f_TYPE.
Definition ndopt_data_len (bs : list Z) : outcome Z := wb_get_u8 bs wndiscopt_f_LENGTH.

(* NdiscOption::check_len *)
Definition ndopt_check_len (bs : list Z) : outcome unit :=
  if blen bs <? wndiscopt_f_MIN_OPT_LEN then Err 0
  else
    do l <- wb_get_u8 bs wndiscopt_f_LENGTH;
    let e := snd (ndopt_f_DATA l) in
    if blen bs <? e then Err 0
    else
      do t <- ndopt_option_type bs;
      if (t =? ndopt_T_SLLA) || (t =? ndopt_T_TLLA) || (t =? ndopt_T_MTU) then Ok tt
      else if (t =? ndopt_T_PREFIX) && (e >=? snd wndiscopt_f_PREFIX) then Ok tt
      else if (t =? ndopt_T_REDIR) && (e >=? wndiscopt_f_REDIR_MIN_SZ) then Ok tt
      else if negb (ndopt_type_known t) then Ok tt
      else Err 0.

(* NdiscOption::new_checked *)
Definition ndopt_new_checked (bs : list Z) : outcome unit :=
  do _ <- ndopt_check_len bs;
  do l <- ndopt_data_len bs;
  if l =? 0 then Err 0 else Ok tt.

(* link_layer_addr: len = MAX.min(data_len * 8 - 2) (usize subtraction), &data[2..len + 2],
   RawHardwareAddress::from_bytes (its copy_from_slice cannot fail: len <= MAX) *)
Definition ndopt_link_layer_addr (bs : list Z) : outcome (list Z) :=
  do l <- ndopt_data_len bs;
  do _ <- wb_assert (2 <=? l * 8);
  let len := Z.min ndopt_MAX_HW (l * 8 - 2) in
  wb_sub bs 2 (len + 2).

Definition ndopt_mtu (bs : list Z) : outcome Z := wb_get_u32 bs wndiscopt_f_MTU.

Definition ndopt_prefix_len (bs : list Z) : outcome Z := wb_get_u8 bs wndiscopt_f_PREFIX_LEN.
Definition ndopt_prefix_flags (bs : list Z) : outcome Z :=
  do x <- wb_get_u8 bs wndiscopt_f_FLAGS; Ok (Z.land x ndopt_PREFIX_FLAGS_MASK).
(* seconds *)
Definition ndopt_valid_lifetime (bs : list Z) : outcome Z := wb_get_u32 bs wndiscopt_f_VALID_LT.
Definition ndopt_preferred_lifetime (bs : list Z) : outcome Z := wb_get_u32 bs wndiscopt_f_PREF_LT.
Definition ndopt_prefix (bs : list Z) : outcome (list Z) :=
  do s <- wb_field bs wndiscopt_f_PREFIX; wb_arr 16 s.

(* data: &data[field::DATA(len)] *)
Definition ndopt_data (bs : list Z) : outcome (list Z) :=
  do l <- ndopt_data_len bs; wb_field bs (ndopt_f_DATA l).

(* ---------- setters ---------- *)
Definition ndopt_set_option_type (bs : list Z) (v : Z) := wb_set_u8 bs wndiscopt_f_TYPE v.
Definition ndopt_set_data_len (bs : list Z) (v : Z) := wb_set_u8 bs wndiscopt_f_LENGTH v.
(* data[2..2 + addr.len()].copy_from_slice(addr.as_bytes()) *)
Definition ndopt_set_link_layer_addr (bs : list Z) (a : list Z) := wb_set_slice bs 2 (2 + blen a) a.
Definition ndopt_set_mtu (bs : list Z) (v : Z) := wb_put_u32 bs wndiscopt_f_MTU v.
Definition ndopt_set_prefix_len (bs : list Z) (v : Z) := wb_set_u8 bs wndiscopt_f_PREFIX_LEN v.
Definition ndopt_set_prefix_flags (bs : list Z) (v : Z) := wb_set_u8 bs wndiscopt_f_FLAGS v.
(* write_u32(.., time.secs() as u32) *)
Definition ndopt_set_valid_lifetime (bs : list Z) (secs : Z) :=
  wb_put_u32 bs wndiscopt_f_VALID_LT (secs mod 4294967296).
Definition ndopt_set_preferred_lifetime (bs : list Z) (secs : Z) :=
  wb_put_u32 bs wndiscopt_f_PREF_LT (secs mod 4294967296).
Definition ndopt_clear_prefix_reserved (bs : list Z) := wb_put_u32 bs wndiscopt_f_PREF_RESERVED 0.
Definition ndopt_set_prefix (bs : list Z) (v : list Z) := wb_set_field bs wndiscopt_f_PREFIX v.
Definition ndopt_clear_redirected_reserved (bs : list Z) :=
  wb_fill bs (fst wndiscopt_f_REDIRECTED_RESERVED) (snd wndiscopt_f_REDIRECTED_RESERVED) 0.
(* clear_mtu_reserved: data[field::LENGTH + 1..field::MTU.start].fill(0) *)
Definition ndopt_clear_mtu_reserved (bs : list Z) :=
  wb_fill bs (wndiscopt_f_LENGTH + 1) (fst wndiscopt_f_MTU) 0.

(* operate on `&mut opt.data_mut()[from..]`, i.e. on data[2 + from .. len * 8] with len read from
   the option: [f] sees that sub-slice and must preserve its length; written back in place.
   data_mut() panics on an inverted range (len = 0), the sub-index when from > |data_mut()|. *)
Definition ndopt_on_data_from (bs : list Z) (from : Z) (f : list Z -> outcome (list Z)) : outcome (list Z) :=
  do l <- ndopt_data_len bs;
  do d <- wb_field bs (ndopt_f_DATA l);
  do s <- wb_from d from;
  do s' <- f s;
  Ok (firstn (Z.to_nat (2 + from)) bs ++ s' ++ skipn (Z.to_nat (l * 8)) bs).

(* slice.fill(0) on a whole slice *)
Definition ndopt_zero (s : list Z) : outcome (list Z) := Ok (repeat 0 (length s)).

(* ---------- Repr::parse ---------- *)
Definition ndopt_parse (bs : list Z) : outcome ndopt_repr :=
  do _ <- ndopt_check_len bs;
  do t <- ndopt_option_type bs;
  do l <- ndopt_data_len bs;
  if t =? ndopt_T_SLLA then
    if l >=? 1 then do a <- ndopt_link_layer_addr bs; Ok (NdSourceLL a) else Err 0
  else if t =? ndopt_T_TLLA then
    if l >=? 1 then do a <- ndopt_link_layer_addr bs; Ok (NdTargetLL a) else Err 0
  else if t =? ndopt_T_PREFIX then
    if l =? 4 then
      do pl <- ndopt_prefix_len bs;
      do fl <- ndopt_prefix_flags bs;
      do vl <- ndopt_valid_lifetime bs;
      do pf <- ndopt_preferred_lifetime bs;
      do px <- ndopt_prefix bs;
      Ok (NdPrefixInfo (mkNdPrefix pl fl vl pf px))
    else Err 0
  else if t =? ndopt_T_REDIR then
    if l <? 6 then Err 0
    else
      (* &opt.data()[field::REDIRECTED_RESERVED.len()..] *)
      do d <- ndopt_data bs;
      do rp <- wb_from d (snd wndiscopt_f_REDIRECTED_RESERVED - fst wndiscopt_f_REDIRECTED_RESERVED);
      (* Ipv6Packet::new_checked(redirected_packet)? ; Ipv6Repr::parse(&ip_packet)? *)
      do _ <- ipv6_check_len rp;
      do ip <- ipv6_parse rp;
      (* &redirected_packet[ip_repr.buffer_len()..][..ip_repr.payload_len] *)
      do rest <- wb_from rp (ipv6_buffer_len ip);
      do dd <- wb_upto rest (ipv6_payload_len ip);
      Ok (NdRedirected (mkNdRedir ip dd))
  else if t =? ndopt_T_MTU then
    if l =? 1 then do m <- ndopt_mtu bs; Ok (NdMtu m) else Err 0
  else
    if negb (l =? 0) then do d <- ndopt_data bs; Ok (NdUnknown t l d) else Err 0.

(* usize::div_ceil(8) *)
Definition ndopt_div_ceil8 (x : Z) : Z := (x + 7) / 8.

(* ---------- Repr::buffer_len ---------- *)
Definition ndopt_buffer_len (r : ndopt_repr) : Z :=
  match r with
  | NdSourceLL a | NdTargetLL a => ndopt_div_ceil8 (2 + blen a) * 8
  | NdPrefixInfo _ => snd wndiscopt_f_PREFIX
  | NdRedirected h => ndopt_div_ceil8 (8 + ipv6_buffer_len (ndrh_header h) + blen (ndrh_data h)) * 8
  | NdMtu _ => snd wndiscopt_f_MTU
  | NdUnknown _ l _ => snd (ndopt_f_DATA l)
  end.

(* ---------- Repr::emit (the code after the repairs listed in known_findings.txt: the padding
   of link-layer-address and redirected-header options and the reserved octets of the MTU
   option are zeroed) ---------- *)
Definition ndopt_emit_lladdr (ty : Z) (a : list Z) (b : list Z) : outcome (list Z) :=
  do b <- ndopt_set_option_type b ty;
  do b <- ndopt_set_data_len b (ndopt_div_ceil8 (blen a + 2) mod 256);
  do b <- ndopt_set_link_layer_addr b a;
  (* opt.data_mut()[addr.len()..].fill(0) *)
  ndopt_on_data_from b (blen a) ndopt_zero.

Definition ndopt_emit (r : ndopt_repr) (b : list Z) : outcome (list Z) :=
  match r with
  | NdSourceLL a => ndopt_emit_lladdr ndopt_T_SLLA a b
  | NdTargetLL a => ndopt_emit_lladdr ndopt_T_TLLA a b
  | NdPrefixInfo p =>
      do b <- ndopt_clear_prefix_reserved b;
      do b <- ndopt_set_option_type b ndopt_T_PREFIX;
      do b <- ndopt_set_data_len b 4;
      do b <- ndopt_set_prefix_len b (ndpi_prefix_len p);
      do b <- ndopt_set_prefix_flags b (ndpi_flags p);
      do b <- ndopt_set_valid_lifetime b (ndpi_valid p);
      do b <- ndopt_set_preferred_lifetime b (ndpi_preferred p);
      ndopt_set_prefix b (ndpi_prefix p)
  | NdRedirected h =>
      let hdr := ndrh_header h in
      let data := ndrh_data h in
      do b <- ndopt_clear_redirected_reserved b;
      do b <- ndopt_set_option_type b ndopt_T_REDIR;
      do b <- ndopt_set_data_len b (ndopt_div_ceil8 (8 + ipv6_buffer_len hdr + blen data) mod 256);
      (* packet = &mut opt.data_mut()[field::REDIRECTED_RESERVED.end - 2..] *)
      do b <- ndopt_on_data_from b (snd wndiscopt_f_REDIRECTED_RESERVED - 2) (fun p =>
        (* header.emit(&mut ip_packet); ip_packet.payload_mut().copy_from_slice(data) *)
        do p <- ipv6_emit hdr p;
        do tl <- ipv6_total_len p;
        wb_set_slice p (ipv6_header_len p) tl data);
      (* opt.data_mut()[6 + header.buffer_len() + data.len()..].fill(0) *)
      ndopt_on_data_from b (snd wndiscopt_f_REDIRECTED_RESERVED - 2 + ipv6_buffer_len hdr + blen data) ndopt_zero
  | NdMtu m =>
      do b <- ndopt_clear_mtu_reserved b;
      do b <- ndopt_set_option_type b ndopt_T_MTU;
      do b <- ndopt_set_data_len b 1;
      ndopt_set_mtu b m
  | NdUnknown t l d =>
      do b <- ndopt_set_option_type b t;
      do b <- ndopt_set_data_len b l;
      (* opt.data_mut().copy_from_slice(data) *)
      do l' <- ndopt_data_len b;
      wb_set_field b (ndopt_f_DATA l') d
  end.

(* Proviso of C06 for NDISC options ("its variable-length parts fit what the protocol permits"):
   - link-layer address: octets; its length is 6 (Ethernet) or 8 (IEEE 802.15.4 extended), the
     two link-layer address sizes of the supported media.  RawHardwareAddress can also hold
     0..8 octets (e.g. a 2-octet IEEE 802.15.4 short address), but `parse` cannot recover such a
     length: it returns min(MAX_HARDWARE_ADDRESS_LEN, 8 * length - 2) octets, i.e. 6 or 8.
   - prefix information: prefix_len u8 (Rust type), flags within PrefixInfoFlags::all() (bitflags
     type invariant: only from_bits_truncate / the two constants build values), lifetimes fit
     the 32-bit fields (emit truncates with `as u32`; parse produces u32 seconds), prefix [u8; 16].
   - redirected header: the embedded header is a well-formed Ipv6Repr (ipv6_wf), data are octets,
     `header.payload_len = data.len()`: emit copies data into the payload slice delimited by the
     payload length it has just written (copy_from_slice asserts equal lengths) and parse always
     returns exactly payload_len octets; 8 + 40 + |data| fits 255 units of 8 octets (the u8 length
     field; emit truncates with `as u8`), i.e. |data| <= 1992.
   - MTU u32 (Rust type).
   - unknown option: type_ u8 and not one of the five known types (Type::Unknown(id) with a known
     id is re-read as that type), length 1..255 (0 is invalid: parse and new_checked reject it),
     data are octets and |data| = 8 * length - 2 (emit's copy_from_slice asserts this; parse
     produces it). *)
Definition ndopt_lladdr_ok (a : list Z) : bool := bytes_ok a && ((blen a =? 6) || (blen a =? 8)).

Definition ndopt_prefix_info_wf (p : ndopt_prefix_info) : bool :=
  is_u8 (ndpi_prefix_len p) && is_u8 (ndpi_flags p) &&
  (Z.land (ndpi_flags p) ndopt_PREFIX_FLAGS_MASK =? ndpi_flags p) &&
  is_u32 (ndpi_valid p) && is_u32 (ndpi_preferred p) && is_arr 16 (ndpi_prefix p).

Definition ndopt_redirected_wf (h : ndopt_redirected) : bool :=
  ipv6_wf (ndrh_header h) && bytes_ok (ndrh_data h) &&
  (ipv6_payload_len (ndrh_header h) =? blen (ndrh_data h)) &&
  (blen (ndrh_data h) <=? 1992).

Definition ndopt_wf (r : ndopt_repr) : bool :=
  match r with
  | NdSourceLL a | NdTargetLL a => ndopt_lladdr_ok a
  | NdPrefixInfo p => ndopt_prefix_info_wf p
  | NdRedirected h => ndopt_redirected_wf h
  | NdMtu m => is_u32 m
  | NdUnknown t l d =>
      is_u8 t && negb (ndopt_type_known t) && (1 <=? l) && (l <=? 255) && bytes_ok d &&
      (blen d =? l * 8 - 2)
  end.
