(* Data types of the TCP socket model (src/socket/tcp.rs): states, timers, RTT estimator,
   congestion controller, wire representations, the `Socket` record (one field per Rust field
   that influences an observable) and one functional setter [upd_<field>] per field.

   The setters at the end of the file are mechanical (Coq has no record-update syntax); they are
   defined with projections so that  s_f (upd_g s v)  reduces by [cbn] without destructing [s].

   Units: every time value (Instant / Duration) is an integer number of MICROSECONDS, like
   `Instant::micros` / `Duration::micros` in src/time.rs.  Sequence numbers are u32 values
   (Model/Seq32.v).  Addresses are opaque integers (IPv4 address as a number).
   No proofs in this file. *)
From SV Require Import Lib.Base Model.Seq32 Model.Assembler Model.TcpBuf.

(* tcp.rs `enum State` (l.108) *)
Inductive tcp_state :=
| Closed | Listen | SynSent | SynReceived | Established
| FinWait1 | FinWait2 | CloseWait | Closing | LastAck | TimeWait.

Definition tcp_state_eqb (a b : tcp_state) : bool :=
  match a, b with
  | Closed, Closed | Listen, Listen | SynSent, SynSent | SynReceived, SynReceived
  | Established, Established | FinWait1, FinWait1 | FinWait2, FinWait2
  | CloseWait, CloseWait | Closing, Closing | LastAck, LastAck | TimeWait, TimeWait => true
  | _, _ => false
  end.

(* wire/tcp.rs `enum Control` (l.827) *)
Inductive control := CNone | CPsh | CSyn | CFin | CRst.

Definition control_eqb (a b : control) : bool :=
  match a, b with
  | CNone, CNone | CPsh, CPsh | CSyn, CSyn | CFin, CFin | CRst, CRst => true
  | _, _ => false
  end.

(* tcp.rs `enum Timer` (l.282) *)
Inductive timer :=
| TIdle (keep_alive_at : option Z)
| TRetransmit (expires_at : Z)
| TFastRetransmit
| TZeroWindowProbe (expires_at : Z) (delay : Z)
| TClose (expires_at : Z).

(* tcp.rs `struct RttEstimator` (l.162); srtt/rttvar/rto in milliseconds (u32) as in the source,
   the sampling timestamp in microseconds *)
Record rtt_estimator := mkRtte {
  rt_have_measurement : bool;
  rt_srtt : Z;
  rt_rttvar : Z;
  rt_rto : Z;
  rt_timestamp : option (Z * Z);      (* (sent at, seq) *)
  rt_max_seq_sent : option Z;
  rt_rto_count : Z
}.

(* tcp.rs `enum AckDelayTimer` (l.430) *)
Inductive ack_delay_timer := ADIdle | ADWaiting (t : Z) | ADImmediate.

(* congestion/reno.rs `struct Reno` *)
Record reno := mkReno {
  rn_cwnd : Z; rn_mss : Z; rn_ssthresh : Z; rn_rwnd : Z;
  rn_in_fast_recovery : bool; rn_in_rto_recovery : bool
}.

(* congestion.rs `enum AnyController`; CUBIC (f64) is not modelled *)
Inductive controller := CcNone | CcReno (r : reno).

(* IpListenEndpoint { addr: Option<IpAddress>, port } and Tuple { local, remote } *)
Record listen_endpoint := mkListenEp { le_addr : option Z; le_port : Z }.
Record tuple := mkTuple {
  tu_local_addr : Z; tu_local_port : Z; tu_remote_addr : Z; tu_remote_port : Z
}.

(* wire::TcpRepr (wire/tcp.rs l.856); [r_timestamp] = (tsval, tsecr); [r_sack_ranges] always has
   three entries *)
Record tcp_repr := mkRepr {
  r_src_port : Z;
  r_dst_port : Z;
  r_control : control;
  r_seq_number : Z;
  r_ack_number : option Z;
  r_window_len : Z;
  r_window_scale : option Z;
  r_max_seg_size : option Z;
  r_sack_permitted : bool;
  r_sack_ranges : list (option (Z * Z));
  r_timestamp : option (Z * Z);
  r_payload : list Z
}.

(* the part of wire::IpRepr the socket reads or writes *)
Record ip_repr := mkIp { ip_src : Z; ip_dst : Z; ip_hop_limit : Z; ip_payload_len : Z }.

Definition packet : Type := ip_repr * tcp_repr.

(* what the socket reads from `Context` (InterfaceInner): now(), ip_mtu(), has_ip_addr (the
   interface has exactly the address [cx_addr]), the value the timestamp generator returns when
   called, and the next value of the interface's random generator (used for the ISN). *)
Record ctx := mkCtx { cx_now : Z; cx_ip_mtu : Z; cx_addr : Z; cx_tsval : Z; cx_isn : Z }.

Record socket := mkSocket {
  s_state : tcp_state;
  s_timer : timer;
  s_rtte : rtt_estimator;
  s_assembler : asm;
  s_rx_buffer : ring;
  s_rx_fin_received : bool;
  s_tx_buffer : ring;
  s_timeout : option Z;
  s_keep_alive : option Z;
  s_hop_limit : option Z;
  s_listen_endpoint : listen_endpoint;
  s_tuple : option tuple;
  s_local_seq_no : Z;
  s_remote_seq_no : Z;
  s_remote_last_seq : Z;
  s_remote_last_ack : option Z;
  s_remote_last_win : Z;
  s_remote_win_shift : Z;
  s_remote_win_len : Z;
  s_remote_win_scale : option Z;
  s_remote_has_sack : bool;
  s_remote_mss : Z;
  s_remote_last_ts : option Z;
  s_local_rx_last_seq : option Z;
  s_local_rx_last_ack : option Z;
  s_local_rx_dup_acks : Z;
  s_pending_fast_retransmit : bool;
  s_syn_unacked_in_fin_wait : bool;
  s_ack_delay : option Z;
  s_ack_delay_timer : ack_delay_timer;
  s_challenge_ack_timer : Z;
  s_nagle : bool;
  s_congestion_controller : controller;
  s_tsval_generator : bool;
  s_last_remote_tsval : Z
}.

Definition upd_state (s : socket) (v : tcp_state) : socket :=
  mkSocket v (s_timer s) (s_rtte s) (s_assembler s) (s_rx_buffer s) (s_rx_fin_received s)
    (s_tx_buffer s) (s_timeout s) (s_keep_alive s) (s_hop_limit s) (s_listen_endpoint s) (s_tuple s)
    (s_local_seq_no s) (s_remote_seq_no s) (s_remote_last_seq s) (s_remote_last_ack s)
    (s_remote_last_win s) (s_remote_win_shift s) (s_remote_win_len s) (s_remote_win_scale s)
    (s_remote_has_sack s) (s_remote_mss s) (s_remote_last_ts s) (s_local_rx_last_seq s)
    (s_local_rx_last_ack s) (s_local_rx_dup_acks s) (s_pending_fast_retransmit s)
    (s_syn_unacked_in_fin_wait s) (s_ack_delay s) (s_ack_delay_timer s) (s_challenge_ack_timer s)
    (s_nagle s) (s_congestion_controller s) (s_tsval_generator s) (s_last_remote_tsval s).
Definition upd_timer (s : socket) (v : timer) : socket :=
  mkSocket (s_state s) v (s_rtte s) (s_assembler s) (s_rx_buffer s) (s_rx_fin_received s)
    (s_tx_buffer s) (s_timeout s) (s_keep_alive s) (s_hop_limit s) (s_listen_endpoint s) (s_tuple s)
    (s_local_seq_no s) (s_remote_seq_no s) (s_remote_last_seq s) (s_remote_last_ack s)
    (s_remote_last_win s) (s_remote_win_shift s) (s_remote_win_len s) (s_remote_win_scale s)
    (s_remote_has_sack s) (s_remote_mss s) (s_remote_last_ts s) (s_local_rx_last_seq s)
    (s_local_rx_last_ack s) (s_local_rx_dup_acks s) (s_pending_fast_retransmit s)
    (s_syn_unacked_in_fin_wait s) (s_ack_delay s) (s_ack_delay_timer s) (s_challenge_ack_timer s)
    (s_nagle s) (s_congestion_controller s) (s_tsval_generator s) (s_last_remote_tsval s).
Definition upd_rtte (s : socket) (v : rtt_estimator) : socket :=
  mkSocket (s_state s) (s_timer s) v (s_assembler s) (s_rx_buffer s) (s_rx_fin_received s)
    (s_tx_buffer s) (s_timeout s) (s_keep_alive s) (s_hop_limit s) (s_listen_endpoint s) (s_tuple s)
    (s_local_seq_no s) (s_remote_seq_no s) (s_remote_last_seq s) (s_remote_last_ack s)
    (s_remote_last_win s) (s_remote_win_shift s) (s_remote_win_len s) (s_remote_win_scale s)
    (s_remote_has_sack s) (s_remote_mss s) (s_remote_last_ts s) (s_local_rx_last_seq s)
    (s_local_rx_last_ack s) (s_local_rx_dup_acks s) (s_pending_fast_retransmit s)
    (s_syn_unacked_in_fin_wait s) (s_ack_delay s) (s_ack_delay_timer s) (s_challenge_ack_timer s)
    (s_nagle s) (s_congestion_controller s) (s_tsval_generator s) (s_last_remote_tsval s).
Definition upd_assembler (s : socket) (v : asm) : socket :=
  mkSocket (s_state s) (s_timer s) (s_rtte s) v (s_rx_buffer s) (s_rx_fin_received s) (s_tx_buffer
    s) (s_timeout s) (s_keep_alive s) (s_hop_limit s) (s_listen_endpoint s) (s_tuple s)
    (s_local_seq_no s) (s_remote_seq_no s) (s_remote_last_seq s) (s_remote_last_ack s)
    (s_remote_last_win s) (s_remote_win_shift s) (s_remote_win_len s) (s_remote_win_scale s)
    (s_remote_has_sack s) (s_remote_mss s) (s_remote_last_ts s) (s_local_rx_last_seq s)
    (s_local_rx_last_ack s) (s_local_rx_dup_acks s) (s_pending_fast_retransmit s)
    (s_syn_unacked_in_fin_wait s) (s_ack_delay s) (s_ack_delay_timer s) (s_challenge_ack_timer s)
    (s_nagle s) (s_congestion_controller s) (s_tsval_generator s) (s_last_remote_tsval s).
Definition upd_rx_buffer (s : socket) (v : ring) : socket :=
  mkSocket (s_state s) (s_timer s) (s_rtte s) (s_assembler s) v (s_rx_fin_received s) (s_tx_buffer
    s) (s_timeout s) (s_keep_alive s) (s_hop_limit s) (s_listen_endpoint s) (s_tuple s)
    (s_local_seq_no s) (s_remote_seq_no s) (s_remote_last_seq s) (s_remote_last_ack s)
    (s_remote_last_win s) (s_remote_win_shift s) (s_remote_win_len s) (s_remote_win_scale s)
    (s_remote_has_sack s) (s_remote_mss s) (s_remote_last_ts s) (s_local_rx_last_seq s)
    (s_local_rx_last_ack s) (s_local_rx_dup_acks s) (s_pending_fast_retransmit s)
    (s_syn_unacked_in_fin_wait s) (s_ack_delay s) (s_ack_delay_timer s) (s_challenge_ack_timer s)
    (s_nagle s) (s_congestion_controller s) (s_tsval_generator s) (s_last_remote_tsval s).
Definition upd_rx_fin_received (s : socket) (v : bool) : socket :=
  mkSocket (s_state s) (s_timer s) (s_rtte s) (s_assembler s) (s_rx_buffer s) v (s_tx_buffer s)
    (s_timeout s) (s_keep_alive s) (s_hop_limit s) (s_listen_endpoint s) (s_tuple s) (s_local_seq_no
    s) (s_remote_seq_no s) (s_remote_last_seq s) (s_remote_last_ack s) (s_remote_last_win s)
    (s_remote_win_shift s) (s_remote_win_len s) (s_remote_win_scale s) (s_remote_has_sack s)
    (s_remote_mss s) (s_remote_last_ts s) (s_local_rx_last_seq s) (s_local_rx_last_ack s)
    (s_local_rx_dup_acks s) (s_pending_fast_retransmit s) (s_syn_unacked_in_fin_wait s) (s_ack_delay
    s) (s_ack_delay_timer s) (s_challenge_ack_timer s) (s_nagle s) (s_congestion_controller s)
    (s_tsval_generator s) (s_last_remote_tsval s).
Definition upd_tx_buffer (s : socket) (v : ring) : socket :=
  mkSocket (s_state s) (s_timer s) (s_rtte s) (s_assembler s) (s_rx_buffer s) (s_rx_fin_received s)
    v (s_timeout s) (s_keep_alive s) (s_hop_limit s) (s_listen_endpoint s) (s_tuple s)
    (s_local_seq_no s) (s_remote_seq_no s) (s_remote_last_seq s) (s_remote_last_ack s)
    (s_remote_last_win s) (s_remote_win_shift s) (s_remote_win_len s) (s_remote_win_scale s)
    (s_remote_has_sack s) (s_remote_mss s) (s_remote_last_ts s) (s_local_rx_last_seq s)
    (s_local_rx_last_ack s) (s_local_rx_dup_acks s) (s_pending_fast_retransmit s)
    (s_syn_unacked_in_fin_wait s) (s_ack_delay s) (s_ack_delay_timer s) (s_challenge_ack_timer s)
    (s_nagle s) (s_congestion_controller s) (s_tsval_generator s) (s_last_remote_tsval s).
Definition upd_timeout (s : socket) (v : option Z) : socket :=
  mkSocket (s_state s) (s_timer s) (s_rtte s) (s_assembler s) (s_rx_buffer s) (s_rx_fin_received s)
    (s_tx_buffer s) v (s_keep_alive s) (s_hop_limit s) (s_listen_endpoint s) (s_tuple s)
    (s_local_seq_no s) (s_remote_seq_no s) (s_remote_last_seq s) (s_remote_last_ack s)
    (s_remote_last_win s) (s_remote_win_shift s) (s_remote_win_len s) (s_remote_win_scale s)
    (s_remote_has_sack s) (s_remote_mss s) (s_remote_last_ts s) (s_local_rx_last_seq s)
    (s_local_rx_last_ack s) (s_local_rx_dup_acks s) (s_pending_fast_retransmit s)
    (s_syn_unacked_in_fin_wait s) (s_ack_delay s) (s_ack_delay_timer s) (s_challenge_ack_timer s)
    (s_nagle s) (s_congestion_controller s) (s_tsval_generator s) (s_last_remote_tsval s).
Definition upd_keep_alive (s : socket) (v : option Z) : socket :=
  mkSocket (s_state s) (s_timer s) (s_rtte s) (s_assembler s) (s_rx_buffer s) (s_rx_fin_received s)
    (s_tx_buffer s) (s_timeout s) v (s_hop_limit s) (s_listen_endpoint s) (s_tuple s)
    (s_local_seq_no s) (s_remote_seq_no s) (s_remote_last_seq s) (s_remote_last_ack s)
    (s_remote_last_win s) (s_remote_win_shift s) (s_remote_win_len s) (s_remote_win_scale s)
    (s_remote_has_sack s) (s_remote_mss s) (s_remote_last_ts s) (s_local_rx_last_seq s)
    (s_local_rx_last_ack s) (s_local_rx_dup_acks s) (s_pending_fast_retransmit s)
    (s_syn_unacked_in_fin_wait s) (s_ack_delay s) (s_ack_delay_timer s) (s_challenge_ack_timer s)
    (s_nagle s) (s_congestion_controller s) (s_tsval_generator s) (s_last_remote_tsval s).
Definition upd_hop_limit (s : socket) (v : option Z) : socket :=
  mkSocket (s_state s) (s_timer s) (s_rtte s) (s_assembler s) (s_rx_buffer s) (s_rx_fin_received s)
    (s_tx_buffer s) (s_timeout s) (s_keep_alive s) v (s_listen_endpoint s) (s_tuple s)
    (s_local_seq_no s) (s_remote_seq_no s) (s_remote_last_seq s) (s_remote_last_ack s)
    (s_remote_last_win s) (s_remote_win_shift s) (s_remote_win_len s) (s_remote_win_scale s)
    (s_remote_has_sack s) (s_remote_mss s) (s_remote_last_ts s) (s_local_rx_last_seq s)
    (s_local_rx_last_ack s) (s_local_rx_dup_acks s) (s_pending_fast_retransmit s)
    (s_syn_unacked_in_fin_wait s) (s_ack_delay s) (s_ack_delay_timer s) (s_challenge_ack_timer s)
    (s_nagle s) (s_congestion_controller s) (s_tsval_generator s) (s_last_remote_tsval s).
Definition upd_listen_endpoint (s : socket) (v : listen_endpoint) : socket :=
  mkSocket (s_state s) (s_timer s) (s_rtte s) (s_assembler s) (s_rx_buffer s) (s_rx_fin_received s)
    (s_tx_buffer s) (s_timeout s) (s_keep_alive s) (s_hop_limit s) v (s_tuple s) (s_local_seq_no s)
    (s_remote_seq_no s) (s_remote_last_seq s) (s_remote_last_ack s) (s_remote_last_win s)
    (s_remote_win_shift s) (s_remote_win_len s) (s_remote_win_scale s) (s_remote_has_sack s)
    (s_remote_mss s) (s_remote_last_ts s) (s_local_rx_last_seq s) (s_local_rx_last_ack s)
    (s_local_rx_dup_acks s) (s_pending_fast_retransmit s) (s_syn_unacked_in_fin_wait s) (s_ack_delay
    s) (s_ack_delay_timer s) (s_challenge_ack_timer s) (s_nagle s) (s_congestion_controller s)
    (s_tsval_generator s) (s_last_remote_tsval s).
Definition upd_tuple (s : socket) (v : option tuple) : socket :=
  mkSocket (s_state s) (s_timer s) (s_rtte s) (s_assembler s) (s_rx_buffer s) (s_rx_fin_received s)
    (s_tx_buffer s) (s_timeout s) (s_keep_alive s) (s_hop_limit s) (s_listen_endpoint s) v
    (s_local_seq_no s) (s_remote_seq_no s) (s_remote_last_seq s) (s_remote_last_ack s)
    (s_remote_last_win s) (s_remote_win_shift s) (s_remote_win_len s) (s_remote_win_scale s)
    (s_remote_has_sack s) (s_remote_mss s) (s_remote_last_ts s) (s_local_rx_last_seq s)
    (s_local_rx_last_ack s) (s_local_rx_dup_acks s) (s_pending_fast_retransmit s)
    (s_syn_unacked_in_fin_wait s) (s_ack_delay s) (s_ack_delay_timer s) (s_challenge_ack_timer s)
    (s_nagle s) (s_congestion_controller s) (s_tsval_generator s) (s_last_remote_tsval s).
Definition upd_local_seq_no (s : socket) (v : Z) : socket :=
  mkSocket (s_state s) (s_timer s) (s_rtte s) (s_assembler s) (s_rx_buffer s) (s_rx_fin_received s)
    (s_tx_buffer s) (s_timeout s) (s_keep_alive s) (s_hop_limit s) (s_listen_endpoint s) (s_tuple s)
    v (s_remote_seq_no s) (s_remote_last_seq s) (s_remote_last_ack s) (s_remote_last_win s)
    (s_remote_win_shift s) (s_remote_win_len s) (s_remote_win_scale s) (s_remote_has_sack s)
    (s_remote_mss s) (s_remote_last_ts s) (s_local_rx_last_seq s) (s_local_rx_last_ack s)
    (s_local_rx_dup_acks s) (s_pending_fast_retransmit s) (s_syn_unacked_in_fin_wait s) (s_ack_delay
    s) (s_ack_delay_timer s) (s_challenge_ack_timer s) (s_nagle s) (s_congestion_controller s)
    (s_tsval_generator s) (s_last_remote_tsval s).
Definition upd_remote_seq_no (s : socket) (v : Z) : socket :=
  mkSocket (s_state s) (s_timer s) (s_rtte s) (s_assembler s) (s_rx_buffer s) (s_rx_fin_received s)
    (s_tx_buffer s) (s_timeout s) (s_keep_alive s) (s_hop_limit s) (s_listen_endpoint s) (s_tuple s)
    (s_local_seq_no s) v (s_remote_last_seq s) (s_remote_last_ack s) (s_remote_last_win s)
    (s_remote_win_shift s) (s_remote_win_len s) (s_remote_win_scale s) (s_remote_has_sack s)
    (s_remote_mss s) (s_remote_last_ts s) (s_local_rx_last_seq s) (s_local_rx_last_ack s)
    (s_local_rx_dup_acks s) (s_pending_fast_retransmit s) (s_syn_unacked_in_fin_wait s) (s_ack_delay
    s) (s_ack_delay_timer s) (s_challenge_ack_timer s) (s_nagle s) (s_congestion_controller s)
    (s_tsval_generator s) (s_last_remote_tsval s).
Definition upd_remote_last_seq (s : socket) (v : Z) : socket :=
  mkSocket (s_state s) (s_timer s) (s_rtte s) (s_assembler s) (s_rx_buffer s) (s_rx_fin_received s)
    (s_tx_buffer s) (s_timeout s) (s_keep_alive s) (s_hop_limit s) (s_listen_endpoint s) (s_tuple s)
    (s_local_seq_no s) (s_remote_seq_no s) v (s_remote_last_ack s) (s_remote_last_win s)
    (s_remote_win_shift s) (s_remote_win_len s) (s_remote_win_scale s) (s_remote_has_sack s)
    (s_remote_mss s) (s_remote_last_ts s) (s_local_rx_last_seq s) (s_local_rx_last_ack s)
    (s_local_rx_dup_acks s) (s_pending_fast_retransmit s) (s_syn_unacked_in_fin_wait s) (s_ack_delay
    s) (s_ack_delay_timer s) (s_challenge_ack_timer s) (s_nagle s) (s_congestion_controller s)
    (s_tsval_generator s) (s_last_remote_tsval s).
Definition upd_remote_last_ack (s : socket) (v : option Z) : socket :=
  mkSocket (s_state s) (s_timer s) (s_rtte s) (s_assembler s) (s_rx_buffer s) (s_rx_fin_received s)
    (s_tx_buffer s) (s_timeout s) (s_keep_alive s) (s_hop_limit s) (s_listen_endpoint s) (s_tuple s)
    (s_local_seq_no s) (s_remote_seq_no s) (s_remote_last_seq s) v (s_remote_last_win s)
    (s_remote_win_shift s) (s_remote_win_len s) (s_remote_win_scale s) (s_remote_has_sack s)
    (s_remote_mss s) (s_remote_last_ts s) (s_local_rx_last_seq s) (s_local_rx_last_ack s)
    (s_local_rx_dup_acks s) (s_pending_fast_retransmit s) (s_syn_unacked_in_fin_wait s) (s_ack_delay
    s) (s_ack_delay_timer s) (s_challenge_ack_timer s) (s_nagle s) (s_congestion_controller s)
    (s_tsval_generator s) (s_last_remote_tsval s).
Definition upd_remote_last_win (s : socket) (v : Z) : socket :=
  mkSocket (s_state s) (s_timer s) (s_rtte s) (s_assembler s) (s_rx_buffer s) (s_rx_fin_received s)
    (s_tx_buffer s) (s_timeout s) (s_keep_alive s) (s_hop_limit s) (s_listen_endpoint s) (s_tuple s)
    (s_local_seq_no s) (s_remote_seq_no s) (s_remote_last_seq s) (s_remote_last_ack s) v
    (s_remote_win_shift s) (s_remote_win_len s) (s_remote_win_scale s) (s_remote_has_sack s)
    (s_remote_mss s) (s_remote_last_ts s) (s_local_rx_last_seq s) (s_local_rx_last_ack s)
    (s_local_rx_dup_acks s) (s_pending_fast_retransmit s) (s_syn_unacked_in_fin_wait s) (s_ack_delay
    s) (s_ack_delay_timer s) (s_challenge_ack_timer s) (s_nagle s) (s_congestion_controller s)
    (s_tsval_generator s) (s_last_remote_tsval s).
Definition upd_remote_win_shift (s : socket) (v : Z) : socket :=
  mkSocket (s_state s) (s_timer s) (s_rtte s) (s_assembler s) (s_rx_buffer s) (s_rx_fin_received s)
    (s_tx_buffer s) (s_timeout s) (s_keep_alive s) (s_hop_limit s) (s_listen_endpoint s) (s_tuple s)
    (s_local_seq_no s) (s_remote_seq_no s) (s_remote_last_seq s) (s_remote_last_ack s)
    (s_remote_last_win s) v (s_remote_win_len s) (s_remote_win_scale s) (s_remote_has_sack s)
    (s_remote_mss s) (s_remote_last_ts s) (s_local_rx_last_seq s) (s_local_rx_last_ack s)
    (s_local_rx_dup_acks s) (s_pending_fast_retransmit s) (s_syn_unacked_in_fin_wait s) (s_ack_delay
    s) (s_ack_delay_timer s) (s_challenge_ack_timer s) (s_nagle s) (s_congestion_controller s)
    (s_tsval_generator s) (s_last_remote_tsval s).
Definition upd_remote_win_len (s : socket) (v : Z) : socket :=
  mkSocket (s_state s) (s_timer s) (s_rtte s) (s_assembler s) (s_rx_buffer s) (s_rx_fin_received s)
    (s_tx_buffer s) (s_timeout s) (s_keep_alive s) (s_hop_limit s) (s_listen_endpoint s) (s_tuple s)
    (s_local_seq_no s) (s_remote_seq_no s) (s_remote_last_seq s) (s_remote_last_ack s)
    (s_remote_last_win s) (s_remote_win_shift s) v (s_remote_win_scale s) (s_remote_has_sack s)
    (s_remote_mss s) (s_remote_last_ts s) (s_local_rx_last_seq s) (s_local_rx_last_ack s)
    (s_local_rx_dup_acks s) (s_pending_fast_retransmit s) (s_syn_unacked_in_fin_wait s) (s_ack_delay
    s) (s_ack_delay_timer s) (s_challenge_ack_timer s) (s_nagle s) (s_congestion_controller s)
    (s_tsval_generator s) (s_last_remote_tsval s).
Definition upd_remote_win_scale (s : socket) (v : option Z) : socket :=
  mkSocket (s_state s) (s_timer s) (s_rtte s) (s_assembler s) (s_rx_buffer s) (s_rx_fin_received s)
    (s_tx_buffer s) (s_timeout s) (s_keep_alive s) (s_hop_limit s) (s_listen_endpoint s) (s_tuple s)
    (s_local_seq_no s) (s_remote_seq_no s) (s_remote_last_seq s) (s_remote_last_ack s)
    (s_remote_last_win s) (s_remote_win_shift s) (s_remote_win_len s) v (s_remote_has_sack s)
    (s_remote_mss s) (s_remote_last_ts s) (s_local_rx_last_seq s) (s_local_rx_last_ack s)
    (s_local_rx_dup_acks s) (s_pending_fast_retransmit s) (s_syn_unacked_in_fin_wait s) (s_ack_delay
    s) (s_ack_delay_timer s) (s_challenge_ack_timer s) (s_nagle s) (s_congestion_controller s)
    (s_tsval_generator s) (s_last_remote_tsval s).
Definition upd_remote_has_sack (s : socket) (v : bool) : socket :=
  mkSocket (s_state s) (s_timer s) (s_rtte s) (s_assembler s) (s_rx_buffer s) (s_rx_fin_received s)
    (s_tx_buffer s) (s_timeout s) (s_keep_alive s) (s_hop_limit s) (s_listen_endpoint s) (s_tuple s)
    (s_local_seq_no s) (s_remote_seq_no s) (s_remote_last_seq s) (s_remote_last_ack s)
    (s_remote_last_win s) (s_remote_win_shift s) (s_remote_win_len s) (s_remote_win_scale s) v
    (s_remote_mss s) (s_remote_last_ts s) (s_local_rx_last_seq s) (s_local_rx_last_ack s)
    (s_local_rx_dup_acks s) (s_pending_fast_retransmit s) (s_syn_unacked_in_fin_wait s) (s_ack_delay
    s) (s_ack_delay_timer s) (s_challenge_ack_timer s) (s_nagle s) (s_congestion_controller s)
    (s_tsval_generator s) (s_last_remote_tsval s).
Definition upd_remote_mss (s : socket) (v : Z) : socket :=
  mkSocket (s_state s) (s_timer s) (s_rtte s) (s_assembler s) (s_rx_buffer s) (s_rx_fin_received s)
    (s_tx_buffer s) (s_timeout s) (s_keep_alive s) (s_hop_limit s) (s_listen_endpoint s) (s_tuple s)
    (s_local_seq_no s) (s_remote_seq_no s) (s_remote_last_seq s) (s_remote_last_ack s)
    (s_remote_last_win s) (s_remote_win_shift s) (s_remote_win_len s) (s_remote_win_scale s)
    (s_remote_has_sack s) v (s_remote_last_ts s) (s_local_rx_last_seq s) (s_local_rx_last_ack s)
    (s_local_rx_dup_acks s) (s_pending_fast_retransmit s) (s_syn_unacked_in_fin_wait s) (s_ack_delay
    s) (s_ack_delay_timer s) (s_challenge_ack_timer s) (s_nagle s) (s_congestion_controller s)
    (s_tsval_generator s) (s_last_remote_tsval s).
Definition upd_remote_last_ts (s : socket) (v : option Z) : socket :=
  mkSocket (s_state s) (s_timer s) (s_rtte s) (s_assembler s) (s_rx_buffer s) (s_rx_fin_received s)
    (s_tx_buffer s) (s_timeout s) (s_keep_alive s) (s_hop_limit s) (s_listen_endpoint s) (s_tuple s)
    (s_local_seq_no s) (s_remote_seq_no s) (s_remote_last_seq s) (s_remote_last_ack s)
    (s_remote_last_win s) (s_remote_win_shift s) (s_remote_win_len s) (s_remote_win_scale s)
    (s_remote_has_sack s) (s_remote_mss s) v (s_local_rx_last_seq s) (s_local_rx_last_ack s)
    (s_local_rx_dup_acks s) (s_pending_fast_retransmit s) (s_syn_unacked_in_fin_wait s) (s_ack_delay
    s) (s_ack_delay_timer s) (s_challenge_ack_timer s) (s_nagle s) (s_congestion_controller s)
    (s_tsval_generator s) (s_last_remote_tsval s).
Definition upd_local_rx_last_seq (s : socket) (v : option Z) : socket :=
  mkSocket (s_state s) (s_timer s) (s_rtte s) (s_assembler s) (s_rx_buffer s) (s_rx_fin_received s)
    (s_tx_buffer s) (s_timeout s) (s_keep_alive s) (s_hop_limit s) (s_listen_endpoint s) (s_tuple s)
    (s_local_seq_no s) (s_remote_seq_no s) (s_remote_last_seq s) (s_remote_last_ack s)
    (s_remote_last_win s) (s_remote_win_shift s) (s_remote_win_len s) (s_remote_win_scale s)
    (s_remote_has_sack s) (s_remote_mss s) (s_remote_last_ts s) v (s_local_rx_last_ack s)
    (s_local_rx_dup_acks s) (s_pending_fast_retransmit s) (s_syn_unacked_in_fin_wait s) (s_ack_delay
    s) (s_ack_delay_timer s) (s_challenge_ack_timer s) (s_nagle s) (s_congestion_controller s)
    (s_tsval_generator s) (s_last_remote_tsval s).
Definition upd_local_rx_last_ack (s : socket) (v : option Z) : socket :=
  mkSocket (s_state s) (s_timer s) (s_rtte s) (s_assembler s) (s_rx_buffer s) (s_rx_fin_received s)
    (s_tx_buffer s) (s_timeout s) (s_keep_alive s) (s_hop_limit s) (s_listen_endpoint s) (s_tuple s)
    (s_local_seq_no s) (s_remote_seq_no s) (s_remote_last_seq s) (s_remote_last_ack s)
    (s_remote_last_win s) (s_remote_win_shift s) (s_remote_win_len s) (s_remote_win_scale s)
    (s_remote_has_sack s) (s_remote_mss s) (s_remote_last_ts s) (s_local_rx_last_seq s) v
    (s_local_rx_dup_acks s) (s_pending_fast_retransmit s) (s_syn_unacked_in_fin_wait s) (s_ack_delay
    s) (s_ack_delay_timer s) (s_challenge_ack_timer s) (s_nagle s) (s_congestion_controller s)
    (s_tsval_generator s) (s_last_remote_tsval s).
Definition upd_local_rx_dup_acks (s : socket) (v : Z) : socket :=
  mkSocket (s_state s) (s_timer s) (s_rtte s) (s_assembler s) (s_rx_buffer s) (s_rx_fin_received s)
    (s_tx_buffer s) (s_timeout s) (s_keep_alive s) (s_hop_limit s) (s_listen_endpoint s) (s_tuple s)
    (s_local_seq_no s) (s_remote_seq_no s) (s_remote_last_seq s) (s_remote_last_ack s)
    (s_remote_last_win s) (s_remote_win_shift s) (s_remote_win_len s) (s_remote_win_scale s)
    (s_remote_has_sack s) (s_remote_mss s) (s_remote_last_ts s) (s_local_rx_last_seq s)
    (s_local_rx_last_ack s) v (s_pending_fast_retransmit s) (s_syn_unacked_in_fin_wait s)
    (s_ack_delay s) (s_ack_delay_timer s) (s_challenge_ack_timer s) (s_nagle s)
    (s_congestion_controller s) (s_tsval_generator s) (s_last_remote_tsval s).
Definition upd_pending_fast_retransmit (s : socket) (v : bool) : socket :=
  mkSocket (s_state s) (s_timer s) (s_rtte s) (s_assembler s) (s_rx_buffer s) (s_rx_fin_received s)
    (s_tx_buffer s) (s_timeout s) (s_keep_alive s) (s_hop_limit s) (s_listen_endpoint s) (s_tuple s)
    (s_local_seq_no s) (s_remote_seq_no s) (s_remote_last_seq s) (s_remote_last_ack s)
    (s_remote_last_win s) (s_remote_win_shift s) (s_remote_win_len s) (s_remote_win_scale s)
    (s_remote_has_sack s) (s_remote_mss s) (s_remote_last_ts s) (s_local_rx_last_seq s)
    (s_local_rx_last_ack s) (s_local_rx_dup_acks s) v (s_syn_unacked_in_fin_wait s) (s_ack_delay s)
    (s_ack_delay_timer s) (s_challenge_ack_timer s) (s_nagle s) (s_congestion_controller s)
    (s_tsval_generator s) (s_last_remote_tsval s).
Definition upd_syn_unacked_in_fin_wait (s : socket) (v : bool) : socket :=
  mkSocket (s_state s) (s_timer s) (s_rtte s) (s_assembler s) (s_rx_buffer s) (s_rx_fin_received s)
    (s_tx_buffer s) (s_timeout s) (s_keep_alive s) (s_hop_limit s) (s_listen_endpoint s) (s_tuple s)
    (s_local_seq_no s) (s_remote_seq_no s) (s_remote_last_seq s) (s_remote_last_ack s)
    (s_remote_last_win s) (s_remote_win_shift s) (s_remote_win_len s) (s_remote_win_scale s)
    (s_remote_has_sack s) (s_remote_mss s) (s_remote_last_ts s) (s_local_rx_last_seq s)
    (s_local_rx_last_ack s) (s_local_rx_dup_acks s) (s_pending_fast_retransmit s) v (s_ack_delay s)
    (s_ack_delay_timer s) (s_challenge_ack_timer s) (s_nagle s) (s_congestion_controller s)
    (s_tsval_generator s) (s_last_remote_tsval s).
Definition upd_ack_delay (s : socket) (v : option Z) : socket :=
  mkSocket (s_state s) (s_timer s) (s_rtte s) (s_assembler s) (s_rx_buffer s) (s_rx_fin_received s)
    (s_tx_buffer s) (s_timeout s) (s_keep_alive s) (s_hop_limit s) (s_listen_endpoint s) (s_tuple s)
    (s_local_seq_no s) (s_remote_seq_no s) (s_remote_last_seq s) (s_remote_last_ack s)
    (s_remote_last_win s) (s_remote_win_shift s) (s_remote_win_len s) (s_remote_win_scale s)
    (s_remote_has_sack s) (s_remote_mss s) (s_remote_last_ts s) (s_local_rx_last_seq s)
    (s_local_rx_last_ack s) (s_local_rx_dup_acks s) (s_pending_fast_retransmit s)
    (s_syn_unacked_in_fin_wait s) v (s_ack_delay_timer s) (s_challenge_ack_timer s) (s_nagle s)
    (s_congestion_controller s) (s_tsval_generator s) (s_last_remote_tsval s).
Definition upd_ack_delay_timer (s : socket) (v : ack_delay_timer) : socket :=
  mkSocket (s_state s) (s_timer s) (s_rtte s) (s_assembler s) (s_rx_buffer s) (s_rx_fin_received s)
    (s_tx_buffer s) (s_timeout s) (s_keep_alive s) (s_hop_limit s) (s_listen_endpoint s) (s_tuple s)
    (s_local_seq_no s) (s_remote_seq_no s) (s_remote_last_seq s) (s_remote_last_ack s)
    (s_remote_last_win s) (s_remote_win_shift s) (s_remote_win_len s) (s_remote_win_scale s)
    (s_remote_has_sack s) (s_remote_mss s) (s_remote_last_ts s) (s_local_rx_last_seq s)
    (s_local_rx_last_ack s) (s_local_rx_dup_acks s) (s_pending_fast_retransmit s)
    (s_syn_unacked_in_fin_wait s) (s_ack_delay s) v (s_challenge_ack_timer s) (s_nagle s)
    (s_congestion_controller s) (s_tsval_generator s) (s_last_remote_tsval s).
Definition upd_challenge_ack_timer (s : socket) (v : Z) : socket :=
  mkSocket (s_state s) (s_timer s) (s_rtte s) (s_assembler s) (s_rx_buffer s) (s_rx_fin_received s)
    (s_tx_buffer s) (s_timeout s) (s_keep_alive s) (s_hop_limit s) (s_listen_endpoint s) (s_tuple s)
    (s_local_seq_no s) (s_remote_seq_no s) (s_remote_last_seq s) (s_remote_last_ack s)
    (s_remote_last_win s) (s_remote_win_shift s) (s_remote_win_len s) (s_remote_win_scale s)
    (s_remote_has_sack s) (s_remote_mss s) (s_remote_last_ts s) (s_local_rx_last_seq s)
    (s_local_rx_last_ack s) (s_local_rx_dup_acks s) (s_pending_fast_retransmit s)
    (s_syn_unacked_in_fin_wait s) (s_ack_delay s) (s_ack_delay_timer s) v (s_nagle s)
    (s_congestion_controller s) (s_tsval_generator s) (s_last_remote_tsval s).
Definition upd_nagle (s : socket) (v : bool) : socket :=
  mkSocket (s_state s) (s_timer s) (s_rtte s) (s_assembler s) (s_rx_buffer s) (s_rx_fin_received s)
    (s_tx_buffer s) (s_timeout s) (s_keep_alive s) (s_hop_limit s) (s_listen_endpoint s) (s_tuple s)
    (s_local_seq_no s) (s_remote_seq_no s) (s_remote_last_seq s) (s_remote_last_ack s)
    (s_remote_last_win s) (s_remote_win_shift s) (s_remote_win_len s) (s_remote_win_scale s)
    (s_remote_has_sack s) (s_remote_mss s) (s_remote_last_ts s) (s_local_rx_last_seq s)
    (s_local_rx_last_ack s) (s_local_rx_dup_acks s) (s_pending_fast_retransmit s)
    (s_syn_unacked_in_fin_wait s) (s_ack_delay s) (s_ack_delay_timer s) (s_challenge_ack_timer s) v
    (s_congestion_controller s) (s_tsval_generator s) (s_last_remote_tsval s).
Definition upd_congestion_controller (s : socket) (v : controller) : socket :=
  mkSocket (s_state s) (s_timer s) (s_rtte s) (s_assembler s) (s_rx_buffer s) (s_rx_fin_received s)
    (s_tx_buffer s) (s_timeout s) (s_keep_alive s) (s_hop_limit s) (s_listen_endpoint s) (s_tuple s)
    (s_local_seq_no s) (s_remote_seq_no s) (s_remote_last_seq s) (s_remote_last_ack s)
    (s_remote_last_win s) (s_remote_win_shift s) (s_remote_win_len s) (s_remote_win_scale s)
    (s_remote_has_sack s) (s_remote_mss s) (s_remote_last_ts s) (s_local_rx_last_seq s)
    (s_local_rx_last_ack s) (s_local_rx_dup_acks s) (s_pending_fast_retransmit s)
    (s_syn_unacked_in_fin_wait s) (s_ack_delay s) (s_ack_delay_timer s) (s_challenge_ack_timer s)
    (s_nagle s) v (s_tsval_generator s) (s_last_remote_tsval s).
Definition upd_tsval_generator (s : socket) (v : bool) : socket :=
  mkSocket (s_state s) (s_timer s) (s_rtte s) (s_assembler s) (s_rx_buffer s) (s_rx_fin_received s)
    (s_tx_buffer s) (s_timeout s) (s_keep_alive s) (s_hop_limit s) (s_listen_endpoint s) (s_tuple s)
    (s_local_seq_no s) (s_remote_seq_no s) (s_remote_last_seq s) (s_remote_last_ack s)
    (s_remote_last_win s) (s_remote_win_shift s) (s_remote_win_len s) (s_remote_win_scale s)
    (s_remote_has_sack s) (s_remote_mss s) (s_remote_last_ts s) (s_local_rx_last_seq s)
    (s_local_rx_last_ack s) (s_local_rx_dup_acks s) (s_pending_fast_retransmit s)
    (s_syn_unacked_in_fin_wait s) (s_ack_delay s) (s_ack_delay_timer s) (s_challenge_ack_timer s)
    (s_nagle s) (s_congestion_controller s) v (s_last_remote_tsval s).
Definition upd_last_remote_tsval (s : socket) (v : Z) : socket :=
  mkSocket (s_state s) (s_timer s) (s_rtte s) (s_assembler s) (s_rx_buffer s) (s_rx_fin_received s)
    (s_tx_buffer s) (s_timeout s) (s_keep_alive s) (s_hop_limit s) (s_listen_endpoint s) (s_tuple s)
    (s_local_seq_no s) (s_remote_seq_no s) (s_remote_last_seq s) (s_remote_last_ack s)
    (s_remote_last_win s) (s_remote_win_shift s) (s_remote_win_len s) (s_remote_win_scale s)
    (s_remote_has_sack s) (s_remote_mss s) (s_remote_last_ts s) (s_local_rx_last_seq s)
    (s_local_rx_last_ack s) (s_local_rx_dup_acks s) (s_pending_fast_retransmit s)
    (s_syn_unacked_in_fin_wait s) (s_ack_delay s) (s_ack_delay_timer s) (s_challenge_ack_timer s)
    (s_nagle s) (s_congestion_controller s) (s_tsval_generator s) v.
