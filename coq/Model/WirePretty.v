(* Executable model of the pretty printers of smoltcp::wire (src/wire/pretty_print.rs and every
   `impl PrettyPrint for …` of src/wire/*.rs, plus `wire::ip::pretty_print_ip_payload`):
   their CONTROL FLOW AND BUFFER ACCESS, not the text they print (property C07, pretty-printer
   clause).

   The nine PrettyPrint impls of the tree:
     ethernet.rs  Frame        pp_ethernet     recurses by ethertype into ARP / IPv4 / IPv6
     arp.rs       Packet       pp_arp
     ipv4.rs      Packet       pp_ipv4         -> pretty_print_ip_payload
     ipv6.rs      Packet       pp_ipv6         -> pretty_print_ip_payload
     icmpv4.rs    Packet       pp_icmpv4       destination unreachable / time exceeded quote an
                                               IPv4 datagram and recurse into pp_ipv4
     udp.rs       Packet       pp_udp
     tcp.rs       Packet       pp_tcp
     igmp.rs      Packet       pp_igmp
     ndiscoption.rs NdiscOption pp_ndopt
   and ip.rs `pretty_print_ip_payload` (pp_ip_payload), which prints UDP and TCP itself
   (pp_udp_in_ip / pp_tcp_in_ip: it calls UdpRepr::parse / TcpRepr::parse, not the PrettyPrint
   impls of udp.rs / tcp.rs) and calls the ICMPv4 printer.  ICMPv6, IEEE 802.15.4 and 6LoWPAN have no
   PrettyPrint impl (pretty_print_ip_payload prints nothing below an ICMPv6 next header).

   A printer is a function  offset -> octets -> outcome pp_trace.  The trace has one entry per
   printer that ran (= one line of output): which printer, on which slice of the input (absolute
   offset and length; the offset is ghost state, the Rust code only holds the slice), what it
   found (status: header rejected by new_checked / printed / which variant) and one number the
   line shows (ethertype, protocol, payload length).  Each printer calls the check_len / accessor /
   Repr::parse functions of the existing wire models in the order the Rust code (including the
   `Display` impl it formats with) calls them, so every slice index of the Rust code is a checked
   read here: [Panic] = the Rust code panics (index out of range, ...).  [Err] never leaves a
   printer (the Rust printers turn wire::Error into text).

   Recursion.  pretty_print(IPv4) -> pretty_print_ip_payload -> pretty_print(ICMPv4) ->
   pretty_print(IPv4) -> ... is the only cycle.  It is modelled by open recursion ([pp_*_with]
   take the printers they call as arguments) closed by fuel: one unit per IPv4 level, out of fuel
   = [Panic] (non-termination of the Rust code would be a Panic of the model).  The top-level
   printers start with fuel = number of octets + 1; Proofs/WirePrettyProofs.v shows that this is
   never exhausted (every level strips at least the 20-octet IPv4 header).

   Checksums: [sum_ok d] = `checksum::data(d) == !0` (IPv4 header, ICMPv4 message: the ICMPv4
   Display impl parses with ChecksumCapabilities::default(), i.e. it verifies); [psum_ok d] = the
   pseudo-header verification of UDP/TCP, whose result only selects the text " (checksum
   incorrect)" — it is called for its buffer accesses.  Both are Section variables (C08 owns the
   arithmetic); the correspondence driver instantiates them with RFC 1071.

   No proofs in this file. *)
From SV Require Import Lib.Base Gen.WireFields Model.WireBase.
From SV Require Import Model.WireEth Model.WireArp Model.WireIpv4 Model.WireIpv6 Model.WireIcmpv4.
From SV Require Import Model.WireUdp Model.WireTcp Model.WireIgmp Model.WireNdiscOpt.

Record pp_entry := mkPP { pp_fmt : Z; pp_off : Z; pp_len : Z; pp_st : Z; pp_info : Z }.
Definition pp_trace := list pp_entry.

(* printers *)
Definition pp_ETH : Z := 1.
Definition pp_ARP : Z := 2.
Definition pp_IPV4 : Z := 3.
Definition pp_IPV6 : Z := 4.
Definition pp_ICMPV4 : Z := 5.
Definition pp_UDP : Z := 6.        (* udp.rs PrettyPrint impl *)
Definition pp_TCP : Z := 7.        (* tcp.rs PrettyPrint impl *)
Definition pp_IGMP : Z := 8.
Definition pp_NDOPT : Z := 9.
Definition pp_UDP_IN_IP : Z := 10. (* the Protocol::Udp arm of pretty_print_ip_payload *)
Definition pp_TCP_IN_IP : Z := 11. (* the Protocol::Tcp arm of pretty_print_ip_payload *)

(* statuses.  0 and 1 mean the same for every printer. *)
Definition pp_ST_ERR : Z := 0.     (* new_checked failed: the line is "({err})" *)
Definition pp_ST_OK : Z := 1.      (* the packet's line was printed *)
Definition pp_ST_SILENT : Z := 2.  (* IPv4 / IPv6 / NDISC option: Repr::parse failed, `return Ok(())` prints nothing *)
Definition pp_ST_FRAG : Z := 3.    (* IPv4: "IPv4 Fragment ..." line, no descent *)
Definition pp_ST_UNRECOGNIZED : Z := 2.  (* ARP: "ARP (unrecognized) ..." *)
Definition pp_ST_PARSE_ERR : Z := 2.     (* UDP/TCP in IP: "{packet} ({err})" *)
Definition pp_ST_OPT_ERR : Z := 3.       (* TCP: Display of the packet stopped at a malformed option *)
(* ICMPv4: 1 echo request, 2 echo reply, 3 destination unreachable, 4 time exceeded, 5 "ICMPv4 ({err}) type=.. code=.."
   IGMP:   1 membership query, 2 membership report, 3 leave group, 4 "IGMP ({err})" *)

(* enum EtherType / enum IpProtocol (src/wire/ethernet.rs, src/wire/ip.rs) *)
Definition pp_ETHERTYPE_IPV4 : Z := 2048.    (* 0x0800 *)
Definition pp_ETHERTYPE_ARP : Z := 2054.     (* 0x0806 *)
Definition pp_ETHERTYPE_IPV6 : Z := 34525.   (* 0x86DD *)
Definition pp_PROTO_ICMP : Z := 1.
Definition pp_PROTO_TCP : Z := 6.
Definition pp_PROTO_UDP : Z := 17.

Definition pp_printer := Z -> list Z -> outcome pp_trace.

(* the line of a printer followed by the lines of the printer it descends into
   (`indent.increase(f)?; X::pretty_print(&payload, f, indent)`) *)
Definition pp_descend (e : pp_entry) (child : outcome pp_trace) : outcome pp_trace :=
  do t <- child; Ok (e :: t).

Section Checksum.
Variable sum_ok : list Z -> bool.
Variable psum_ok : list Z -> bool.

(* ---------- arp.rs ---------- *)

(* impl Display for Packet: Repr::parse, else the raw fields *)
Definition pp_arp_display (bs : list Z) : outcome Z :=
  match arp_parse bs with
  | Panic => Panic
  | Ok _ => Ok pp_ST_OK
  | Err _ =>
      do _ <- arp_hardware_type bs; do _ <- arp_protocol_type bs;
      do _ <- arp_hardware_len bs; do _ <- arp_protocol_len bs; do _ <- arp_operation bs;
      do _ <- arp_source_hardware_addr bs; do _ <- arp_source_protocol_addr bs;
      do _ <- arp_target_hardware_addr bs; do _ <- arp_target_protocol_addr bs;
      Ok pp_ST_UNRECOGNIZED
  end.

Definition pp_arp_at (off : Z) (bs : list Z) : outcome pp_trace :=
  match arp_check_len bs with                           (* Packet::new_checked(buffer) *)
  | Panic => Panic
  | Err _ => Ok [mkPP pp_ARP off (blen bs) pp_ST_ERR 0]
  | Ok _ => do st <- pp_arp_display bs; Ok [mkPP pp_ARP off (blen bs) st 0]
  end.

(* ---------- udp.rs ---------- *)

(* impl Display for Packet: src_port, dst_port, payload().len() *)
Definition pp_udp_display (bs : list Z) : outcome Z :=
  do _ <- udp_src_port bs; do _ <- udp_dst_port bs; do p <- udp_payload bs; Ok (blen p).

Definition pp_udp_at (off : Z) (bs : list Z) : outcome pp_trace :=
  match udp_check_len bs with
  | Panic => Panic
  | Err _ => Ok [mkPP pp_UDP off (blen bs) pp_ST_ERR 0]
  | Ok _ => do n <- pp_udp_display bs; Ok [mkPP pp_UDP off (blen bs) pp_ST_OK n]
  end.

(* the Protocol::Udp arm of pretty_print_ip_payload; UdpRepr::parse with
   ChecksumCapabilities::ignored() *)
Definition pp_udp_in_ip (is_v4 : bool) (off : Z) (bs : list Z) : outcome pp_trace :=
  match udp_check_len bs with                           (* UdpPacket::new_checked(payload) *)
  | Panic => Panic
  | Err _ => Ok [mkPP pp_UDP_IN_IP off (blen bs) pp_ST_ERR 0]
  | Ok _ =>
      match udp_parse psum_ok is_v4 false bs with
      | Panic => Panic
      | Err _ =>                                        (* "{indent}{udp_packet} ({err})" *)
          do n <- pp_udp_display bs; Ok [mkPP pp_UDP_IN_IP off (blen bs) pp_ST_PARSE_ERR n]
      | Ok _ =>
          do p <- udp_payload bs;                       (* udp_packet.payload().len() *)
          do _ <- udp_verify_checksum psum_ok is_v4 bs;
          (* verify_partial_checksum: pseudo_header(.., self.len()) == self.checksum() *)
          do _ <- udp_len bs; do _ <- udp_checksum bs;
          Ok [mkPP pp_UDP_IN_IP off (blen bs) pp_ST_OK (blen p)]
      end
  end.

(* ---------- tcp.rs ---------- *)

(* impl Display for Packet: the header accessors, then
   `while !options.is_empty() { match TcpOption::parse(options) { Err(err) => return write!(" ({err})"), … } }`
   (EndOfList breaks).  Returns (status, payload().len()). *)
Definition pp_tcp_display (bs : list Z) : outcome (Z * Z) :=
  do _ <- tcp_src_port bs; do _ <- tcp_dst_port bs;
  do _ <- tcp_syn bs; do _ <- tcp_fin bs; do _ <- tcp_rst bs; do _ <- tcp_psh bs;
  do _ <- tcp_ece bs; do _ <- tcp_cwr bs; do _ <- tcp_ns bs;
  do _ <- tcp_seq_number bs;
  do a <- tcp_ack_ bs; do _ <- (if a then tcp_ack_number bs else Ok 0);
  do _ <- tcp_window_len bs;
  do u <- tcp_urg bs; do _ <- (if u then tcp_urgent_at bs else Ok 0);
  do p <- tcp_payload_ bs;
  do o <- tcp_options bs;
  match tcp_walk (fun (acc : unit) opt => match opt with OptEnd => (acc, false) | _ => (acc, true) end)
                 (length o) o tt with
  | Panic => Panic
  | Err _ => Ok (pp_ST_OPT_ERR, blen p)
  | Ok _ => Ok (pp_ST_OK, blen p)
  end.

Definition pp_tcp_at (off : Z) (bs : list Z) : outcome pp_trace :=
  match tcp_check_len bs with
  | Panic => Panic
  | Err _ => Ok [mkPP pp_TCP off (blen bs) pp_ST_ERR 0]
  | Ok _ => do sn <- pp_tcp_display bs; Ok [mkPP pp_TCP off (blen bs) (fst sn) (snd sn)]
  end.

(* the Protocol::Tcp arm of pretty_print_ip_payload; TcpRepr::parse with
   ChecksumCapabilities::ignored().  A parse error prints the packet's Display and the error:
   status 2, or 2 + 1 when the Display itself stopped at a malformed option. *)
Definition pp_tcp_in_ip (off : Z) (bs : list Z) : outcome pp_trace :=
  match tcp_check_len bs with                           (* TcpPacket::new_checked(payload) *)
  | Panic => Panic
  | Err _ => Ok [mkPP pp_TCP_IN_IP off (blen bs) pp_ST_ERR 0]
  | Ok _ =>
      match tcp_parse psum_ok false bs with
      | Panic => Panic
      | Err _ =>                                        (* "{indent}{tcp_packet} ({err})" *)
          do sn <- pp_tcp_display bs;
          Ok [mkPP pp_TCP_IN_IP off (blen bs)
                   (if fst sn =? pp_ST_OPT_ERR then pp_ST_PARSE_ERR + 1 else pp_ST_PARSE_ERR) (snd sn)]
      | Ok r =>
          (* "{indent}{tcp_repr}"; verify_checksum over the whole buffer;
             verify_partial_checksum: data.len(), self.checksum() *)
          do _ <- tcp_checksum bs;
          Ok [mkPP pp_TCP_IN_IP off (blen bs) pp_ST_OK (blen (tcp_payload r))]
      end
  end.

(* ---------- igmp.rs ---------- *)

(* impl Display for Packet: Repr::parse *)
Definition pp_igmp_at (off : Z) (bs : list Z) : outcome pp_trace :=
  match igmp_check_len bs with
  | Panic => Panic
  | Err _ => Ok [mkPP pp_IGMP off (blen bs) pp_ST_ERR 0]
  | Ok _ =>
      match igmp_parse bs with
      | Panic => Panic
      | Ok (IgmpQuery _ _ _) => Ok [mkPP pp_IGMP off (blen bs) 1 0]
      | Ok (IgmpReport _ _) => Ok [mkPP pp_IGMP off (blen bs) 2 0]
      | Ok (IgmpLeave _) => Ok [mkPP pp_IGMP off (blen bs) 3 0]
      | Err _ => Ok [mkPP pp_IGMP off (blen bs) 4 0]
      end
  end.

(* ---------- ndiscoption.rs ---------- *)

(* the number identifies the variant the line names *)
Definition pp_ndopt_kind (r : ndopt_repr) : Z :=
  match r with
  | NdSourceLL _ => 1 | NdTargetLL _ => 2 | NdPrefixInfo _ => 3 | NdRedirected _ => 4
  | NdMtu _ => 5 | NdUnknown _ _ _ => 6
  end.

Definition pp_ndopt_at (off : Z) (bs : list Z) : outcome pp_trace :=
  match ndopt_new_checked bs with
  | Panic => Panic
  | Err _ => Ok [mkPP pp_NDOPT off (blen bs) pp_ST_ERR 0]
  | Ok _ =>
      match ndopt_parse bs with
      | Panic => Panic
      | Err _ => Ok [mkPP pp_NDOPT off (blen bs) pp_ST_SILENT 0]     (* Err(_) => Ok(()) *)
      | Ok r => Ok [mkPP pp_NDOPT off (blen bs) pp_ST_OK (pp_ndopt_kind r)]
      end
  end.

(* ---------- ip.rs: pretty_print_ip_payload ---------- *)

Definition pp_ip_payload_with (icmpv4 : pp_printer) (is_v4 : bool) (proto : Z) (off : Z) (payload : list Z)
  : outcome pp_trace :=
  if proto =? pp_PROTO_ICMP then icmpv4 off payload
  else if proto =? pp_PROTO_UDP then pp_udp_in_ip is_v4 off payload
  else if proto =? pp_PROTO_TCP then pp_tcp_in_ip off payload
  else Ok [].

(* ---------- ipv4.rs ---------- *)

Definition pp_ipv4_with (icmpv4 : pp_printer) (off : Z) (bs : list Z) : outcome pp_trace :=
  match ipv4_check_len bs with                          (* Packet::new_checked(buffer) *)
  | Panic => Panic
  | Err _ => Ok [mkPP pp_IPV4 off (blen bs) pp_ST_ERR 0]
  | Ok _ =>
      match ipv4_parse sum_ok false bs with             (* Repr::parse(&ip_packet, &ignored()) *)
      | Panic => Panic
      | Err _ => Ok [mkPP pp_IPV4 off (blen bs) pp_ST_SILENT 0]     (* Err(_) => return Ok(()) *)
      | Ok r =>
          do mf <- ipv4_more_frags bs; do fo <- ipv4_frag_offset bs;
          if mf || negb (fo =? 0) then
            do _ <- ipv4_more_frags bs; do _ <- ipv4_frag_offset bs;
            Ok [mkPP pp_IPV4 off (blen bs) pp_ST_FRAG 0]
          else
            do _ <- ipv4_verify_checksum sum_ok bs;     (* format_checksum(f, ip_packet.verify_checksum(), false) *)
            do p <- ipv4_payload bs;                    (* ip_packet.payload() = data[header_len..total_len] *)
            do hl <- ipv4_header_len bs;                (* ghost: where that slice starts *)
            pp_descend (mkPP pp_IPV4 off (blen bs) pp_ST_OK (ipv4_proto r))
                       (pp_ip_payload_with icmpv4 true (ipv4_proto r) (off + hl) p)
      end
  end.

(* ---------- icmpv4.rs ---------- *)

(* impl Display for Packet: Repr::parse(self, &ChecksumCapabilities::default()), else type and code.
   Returns (status, data length shown). *)
Definition pp_icmpv4_display (bs : list Z) : outcome (Z * Z) :=
  match icmpv4_parse sum_ok true bs with
  | Panic => Panic
  | Ok (Icmp4EchoRequest _ _ d) => Ok (1, blen d)
  | Ok (Icmp4EchoReply _ _ d) => Ok (2, blen d)
  | Ok (Icmp4DstUnreachable _ _ _) => Ok (3, 0)
  | Ok (Icmp4TimeExceeded _ _ _) => Ok (4, 0)
  | Err _ => do _ <- icmpv4_msg_type bs; do _ <- icmpv4_msg_type bs; do _ <- icmpv4_msg_code bs; Ok (5, 0)
  end.

Definition pp_icmpv4_with (ipv4 : pp_printer) (off : Z) (bs : list Z) : outcome pp_trace :=
  match icmpv4_check_len bs with
  | Panic => Panic
  | Err _ => Ok [mkPP pp_ICMPV4 off (blen bs) pp_ST_ERR 0]
  | Ok _ =>
      do sn <- pp_icmpv4_display bs;
      let e := mkPP pp_ICMPV4 off (blen bs) (fst sn) (snd sn) in
      do ty <- icmpv4_msg_type bs;
      if (ty =? icmpv4_DST_UNREACHABLE) || (ty =? icmpv4_TIME_EXCEEDED) then
        do d <- icmpv4_data bs;                         (* packet.data() = data[header_len..] *)
        do hl <- icmpv4_header_len bs;                  (* ghost *)
        pp_descend e (ipv4 (off + hl) d)
      else Ok [e]
  end.

(* ---------- ipv6.rs ---------- *)

Definition pp_ipv6_with (icmpv4 : pp_printer) (off : Z) (bs : list Z) : outcome pp_trace :=
  match ipv6_check_len bs with
  | Panic => Panic
  | Err _ => Ok [mkPP pp_IPV6 off (blen bs) pp_ST_ERR 0]
  | Ok _ =>
      match ipv6_parse bs with
      | Panic => Panic
      | Err _ => Ok [mkPP pp_IPV6 off (blen bs) pp_ST_SILENT 0]
      | Ok r =>
          do p <- ipv6_payload bs;                      (* data[header_len..total_len] *)
          pp_descend (mkPP pp_IPV6 off (blen bs) pp_ST_OK (ipv6_nxt r))
                     (pp_ip_payload_with icmpv4 false (ipv6_nxt r) (off + ipv6_header_len bs) p)
      end
  end.

(* ---------- ethernet.rs ---------- *)

Definition pp_ethernet_with (arp ipv4 ipv6 : pp_printer) (off : Z) (bs : list Z) : outcome pp_trace :=
  match eth_check_len bs with
  | Panic => Panic
  | Err _ => Ok [mkPP pp_ETH off (blen bs) pp_ST_ERR 0]
  | Ok _ =>
      (* "{indent}{frame}": impl Display for Frame reads src_addr, dst_addr, ethertype *)
      do _ <- eth_src_addr bs; do _ <- eth_dst_addr bs; do _ <- eth_ethertype bs;
      do ty <- eth_ethertype bs;
      let e := mkPP pp_ETH off (blen bs) pp_ST_OK ty in
      if ty =? pp_ETHERTYPE_ARP then
        do p <- eth_payload bs; pp_descend e (arp (off + eth_HEADER_LEN) p)
      else if ty =? pp_ETHERTYPE_IPV4 then
        do p <- eth_payload bs; pp_descend e (ipv4 (off + eth_HEADER_LEN) p)
      else if ty =? pp_ETHERTYPE_IPV6 then
        do p <- eth_payload bs; pp_descend e (ipv6 (off + eth_HEADER_LEN) p)
      else Ok [e]
  end.

(* ---------- closing the recursion ---------- *)

(* Ipv4Packet::pretty_print with [fuel] levels of IPv4-in-ICMPv4 nesting left *)
Fixpoint pp_ipv4_fuel (fuel : nat) (off : Z) (bs : list Z) : outcome pp_trace :=
  match fuel with
  | O => Panic
  | S fuel' => pp_ipv4_with (pp_icmpv4_with (pp_ipv4_fuel fuel')) off bs
  end.

Definition pp_icmpv4_fuel (fuel : nat) : pp_printer := pp_icmpv4_with (pp_ipv4_fuel fuel).
Definition pp_ipv6_fuel (fuel : nat) : pp_printer := pp_ipv6_with (pp_icmpv4_fuel fuel).
Definition pp_ethernet_fuel (fuel : nat) : pp_printer :=
  pp_ethernet_with pp_arp_at (pp_ipv4_fuel fuel) (pp_ipv6_fuel fuel).

(* the fuel every top-level call starts with *)
Definition pp_fuel (bs : list Z) : nat := S (length bs).

(* `format!("{}", PrettyPrinter::<T>::new("", &bytes))` for the nine T *)
Definition pp_ethernet (bs : list Z) : outcome pp_trace := pp_ethernet_fuel (pp_fuel bs) 0 bs.
Definition pp_arp (bs : list Z) : outcome pp_trace := pp_arp_at 0 bs.
Definition pp_ipv4 (bs : list Z) : outcome pp_trace := pp_ipv4_fuel (pp_fuel bs) 0 bs.
Definition pp_ipv6 (bs : list Z) : outcome pp_trace := pp_ipv6_fuel (pp_fuel bs) 0 bs.
Definition pp_icmpv4 (bs : list Z) : outcome pp_trace := pp_icmpv4_fuel (pp_fuel bs) 0 bs.
Definition pp_udp (bs : list Z) : outcome pp_trace := pp_udp_at 0 bs.
Definition pp_tcp (bs : list Z) : outcome pp_trace := pp_tcp_at 0 bs.
Definition pp_igmp (bs : list Z) : outcome pp_trace := pp_igmp_at 0 bs.
Definition pp_ndopt (bs : list Z) : outcome pp_trace := pp_ndopt_at 0 bs.

End Checksum.
