(* The part of smoltcp::wire::icmpv6::Packet (src/wire/icmpv6.rs) that the MLD and NDISC
   representations are built on (they are views of the ICMPv6 packet buffer):
   check_len, msg_type, msg_code, checksum, header_len, payload, payload_mut, set_msg_type,
   set_msg_code, clear_reserved, verify_checksum / fill_checksum (arithmetic abstracted), and
   the dispatch of `Icmpv6Repr::parse` / the checksum step of `Icmpv6Repr::emit` around a
   sub-representation.  (The ICMPv6 messages proper - echo, errors - are modelled by the first
   wave in Model/WireIcmpv6.v; this file is self-contained so that the two can be built
   independently.  Names are prefixed icmp6h_.)

   Build features: default (no proto-rpl): `Message::RplControl` and unknown types fail check_len.

   Checksum: [sum_ok d] = `combine(&[pseudo_header_v6(src, dst, Icmpv6, |d|), data(d)]) == !0`,
   [sum_fill d] = `!combine(...)` for the address pair of the call - Section variables
   (explicit inputs; the arithmetic is property C08's).

   Panic sources: slice indexing; `clear_reserved` panics for message types without reserved
   fields.  No proofs in this file. *)
From SV Require Import Lib.Base Gen.WireFields Model.WireBase.

(* enum Message *)
Definition icmp6h_DST_UNREACHABLE : Z := 1.
Definition icmp6h_PKT_TOO_BIG : Z := 2.
Definition icmp6h_TIME_EXCEEDED : Z := 3.
Definition icmp6h_PARAM_PROBLEM : Z := 4.
Definition icmp6h_ECHO_REQUEST : Z := 128.
Definition icmp6h_ECHO_REPLY : Z := 129.
Definition icmp6h_MLD_QUERY : Z := 130.
Definition icmp6h_ROUTER_SOLICIT : Z := 133.
Definition icmp6h_ROUTER_ADVERT : Z := 134.
Definition icmp6h_NEIGHBOR_SOLICIT : Z := 135.
Definition icmp6h_NEIGHBOR_ADVERT : Z := 136.
Definition icmp6h_REDIRECT : Z := 137.
Definition icmp6h_MLD_REPORT : Z := 143.

Definition icmp6h_msg_type (bs : list Z) : outcome Z := wb_get_u8 bs wicmpv6_f_TYPE.
Definition icmp6h_msg_code (bs : list Z) : outcome Z := wb_get_u8 bs wicmpv6_f_CODE.
Definition icmp6h_checksum (bs : list Z) : outcome Z := wb_get_u16 bs wicmpv6_f_CHECKSUM.

(* the message types check_len knows (every variant of Message except RplControl / Unknown) *)
Definition icmp6h_known (t : Z) : bool :=
  (t =? icmp6h_DST_UNREACHABLE) || (t =? icmp6h_PKT_TOO_BIG) || (t =? icmp6h_TIME_EXCEEDED) ||
  (t =? icmp6h_PARAM_PROBLEM) || (t =? icmp6h_ECHO_REQUEST) || (t =? icmp6h_ECHO_REPLY) ||
  (t =? icmp6h_MLD_QUERY) || (t =? icmp6h_ROUTER_SOLICIT) || (t =? icmp6h_ROUTER_ADVERT) ||
  (t =? icmp6h_NEIGHBOR_SOLICIT) || (t =? icmp6h_NEIGHBOR_ADVERT) || (t =? icmp6h_REDIRECT) ||
  (t =? icmp6h_MLD_REPORT).

(* Packet::header_len as a function of the message type *)
Definition icmp6h_header_len_of (t : Z) : Z :=
  if t =? icmp6h_DST_UNREACHABLE then snd wicmpv6_f_UNUSED
  else if t =? icmp6h_PKT_TOO_BIG then snd wicmpv6_f_MTU
  else if t =? icmp6h_TIME_EXCEEDED then snd wicmpv6_f_UNUSED
  else if t =? icmp6h_PARAM_PROBLEM then snd wicmpv6_f_POINTER
  else if t =? icmp6h_ECHO_REQUEST then snd wicmpv6_f_ECHO_SEQNO
  else if t =? icmp6h_ECHO_REPLY then snd wicmpv6_f_ECHO_SEQNO
  else if t =? icmp6h_ROUTER_SOLICIT then snd wicmpv6_f_UNUSED
  else if t =? icmp6h_ROUTER_ADVERT then snd wicmpv6_f_RETRANS_TM
  else if t =? icmp6h_NEIGHBOR_SOLICIT then snd wicmpv6_f_TARGET_ADDR
  else if t =? icmp6h_NEIGHBOR_ADVERT then snd wicmpv6_f_TARGET_ADDR
  else if t =? icmp6h_REDIRECT then snd wicmpv6_f_DEST_ADDR
  else if t =? icmp6h_MLD_QUERY then snd wicmpv6_f_QUERY_NUM_SRCS
  else if t =? icmp6h_MLD_REPORT then snd wicmpv6_f_NR_MCAST_RCRDS
  else snd wicmpv6_f_CHECKSUM.

Definition icmp6h_header_len (bs : list Z) : outcome Z :=
  do t <- icmp6h_msg_type bs; Ok (icmp6h_header_len_of t).

(* Packet::check_len *)
Definition icmp6h_check_len (bs : list Z) : outcome unit :=
  if blen bs <? 4 then Err 0
  else
    do t <- icmp6h_msg_type bs;
    if icmp6h_known t then
      do hl <- icmp6h_header_len bs;
      if (blen bs <? wicmpv6_f_HEADER_END) || (blen bs <? hl) then Err 0 else Ok tt
    else Err 0.

(* Packet::payload: &data[self.header_len()..] *)
Definition icmp6h_payload (bs : list Z) : outcome (list Z) :=
  do hl <- icmp6h_header_len bs; wb_from bs hl.

Definition icmp6h_set_msg_type (bs : list Z) (v : Z) := wb_set_u8 bs wicmpv6_f_TYPE v.
Definition icmp6h_set_msg_code (bs : list Z) (v : Z) := wb_set_u8 bs wicmpv6_f_CODE v.
Definition icmp6h_set_checksum (bs : list Z) (v : Z) := wb_put_u16 bs wicmpv6_f_CHECKSUM v.

(* packet.payload_mut().copy_from_slice(d) *)
Definition icmp6h_set_payload (bs : list Z) (d : list Z) : outcome (list Z) :=
  do hl <- icmp6h_header_len bs; wb_set_slice bs hl (blen bs) d.

(* Packet::clear_reserved *)
Definition icmp6h_clear_reserved (bs : list Z) : outcome (list Z) :=
  do t <- icmp6h_msg_type bs;
  if (t =? icmp6h_DST_UNREACHABLE) || (t =? icmp6h_TIME_EXCEEDED) || (t =? icmp6h_ROUTER_SOLICIT) ||
     (t =? icmp6h_NEIGHBOR_SOLICIT) || (t =? icmp6h_NEIGHBOR_ADVERT) || (t =? icmp6h_REDIRECT)
  then wb_put_u32 bs wicmpv6_f_UNUSED 0
  else if t =? icmp6h_MLD_QUERY then
    do bs <- wb_put_u16 bs wicmpv6_f_QUERY_RESV 0;
    wb_upd_u8 bs wicmpv6_f_SQRV (fun x => Z.land x 15)
  else if t =? icmp6h_MLD_REPORT then wb_put_u16 bs wicmpv6_f_RECORD_RESV 0
  else Panic.

Definition icmp6h_is_ndisc (t : Z) : bool :=
  (t =? icmp6h_ROUTER_SOLICIT) || (t =? icmp6h_ROUTER_ADVERT) || (t =? icmp6h_NEIGHBOR_SOLICIT) ||
  (t =? icmp6h_NEIGHBOR_ADVERT) || (t =? icmp6h_REDIRECT).
Definition icmp6h_is_mld (t : Z) : bool := (t =? icmp6h_MLD_QUERY) || (t =? icmp6h_MLD_REPORT).

Section Checksum.
Variable sum_ok : list Z -> bool.
Variable sum_fill : list Z -> Z.

(* Packet::verify_checksum / fill_checksum: over the whole buffer *)
Definition icmp6h_verify_checksum (bs : list Z) : outcome bool := Ok (sum_ok bs).
Definition icmp6h_fill_checksum (bs : list Z) : outcome (list Z) :=
  do bs <- icmp6h_set_checksum bs 0; icmp6h_set_checksum bs (sum_fill bs).

(* the tail of Icmpv6Repr::emit after the sub-representation was emitted; [tx] = icmpv6.tx() *)
Definition icmp6h_finish_emit (tx : bool) (bs : list Z) : outcome (list Z) :=
  if tx then icmp6h_fill_checksum bs else icmp6h_set_checksum bs 0.

(* Icmpv6Repr::parse around a sub-representation selected by [mine] (is_ndisc / is_mld);
   [rx] = icmpv6.rx().  Other message types belong to the first-wave model: Err wb_delegated. *)
Definition icmp6h_parse_sub {A} (mine : Z -> bool) (sub : list Z -> outcome A) (rx : bool)
    (bs : list Z) : outcome A :=
  do _ <- icmp6h_check_len bs;
  do _ <- (if rx then do ok <- icmp6h_verify_checksum bs; wb_guard ok else Ok tt);
  do t <- icmp6h_msg_type bs;
  do c <- icmp6h_msg_code bs;
  if mine t then (if c =? 0 then sub bs else Err 0) else Err wb_delegated.

End Checksum.
