(* Executable model of smoltcp::wire::dhcpv4 (src/wire/dhcpv4.rs): Packet::check_len, every
   fixed-header accessor and setter, Packet::options (the DhcpOption iterator), get_sname /
   get_boot_file, DhcpOptionWriter::{emit, end}, Repr::{parse, buffer_len, emit}.

   Representation.
   - addresses are octet lists (Ipv4Address: 4, EthernetAddress: 6 — the lengths are Rust type
     invariants); `secs`, `transaction_id`, `max_size`, the three durations are the integers
     (the durations are the u32 second counts the Repr carries);
   - `MessageType`, `OpCode`, `Hardware` (enum_with_unknown!) are represented by the octet
     `u8::from(x)`: `From<u8>`/`Into<u8>` are mutually inverse on the values `From<u8>` produces, and
     the derived `==` on those values is equality of the octets.  `MessageType::Unknown(n)` with n in
     1..=8 (a value `From<u8>` never produces, not distinguished from the named variant here) is
     outside the model.  `MessageType::opcode()` is [dhcpw_mt_opcode]: Request = 1, Reply = 2,
     Unknown(_) |-> OpCode::Unknown(0) = 0;
   - `DhcpOption { kind, data }` is [dhcpw_opt]; `dns_servers : Option<heapless::Vec<_, 3>>` is
     an `option (list (list Z))` (at most MAX_DNS_SERVER_COUNT entries: type invariant, part of wf);
   - `Flags` is its `bits()`.

   The options walk.  `Packet::options()` is `iter::from_fn(closure)`; [dhcpw_opt_next] is ONE call
   of the closure (the inner `loop` skips PAD octets): `Ok None` = the iterator is finished,
   `Ok (Some (opt, rest))` = one option and the new `buf`.  It stops SILENTLY (never an error) on:
   empty buffer, END (255), a lone kind octet without a length octet, a length running past the
   buffer; PAD (0) is ONE octet, every other kind has a length octet, zero lengths are fine (the
   walk advances by 2).  [dhcpw_options_go] is the `for option in packet.options()` driver,
   collecting what the iterator yields.  Both recurse on fuel (|buf| + 1 suffices:
   dhcpw_opt_next_fuel / dhcpw_options_go_fuel in the proofs); [Err dhcpw_E_FUEL] = out of
   fuel = the Rust loop would not terminate (proved impossible).
   `Repr::parse` consumes the iterator lazily and can leave the loop early (`return Err` in the
   CLIENT_ID arm); the model folds [dhcpw_parse_opt] over the collected list.  The iterator is
   pure and proved panic-free (dhcpw_options_walk_total), so laziness is not observable.

   Option 52 (OVERLOAD) is ignored by the code (falls into `_ => {}`): options are never read from
   the sname/file fields.  get_sname / get_boot_file read those fields as NUL-terminated UTF-8
   strings; `core::str::from_utf8` is modelled by the Unicode well-formedness table
   ([dhcpw_utf8_valid], Unicode 15 Table 3-7), not by the core library's code.

   Repr::parse details: validation order check_len, (reads), hardware type / len, magic number,
   option loop, flags, `message_type?` last.  Later duplicates of an option overwrite earlier
   ones.  DNS servers: `chunks_exact(4)`, a remainder of 1..3 octets is ignored, servers beyond
   MAX_DNS_SERVER_COUNT are dropped (`push(..).ok()`), a zero-length option gives `Some([])`.
   `additional_options` is always `&[]` after parse.

   MODELLED CODE = /repo after "fix: DhcpRepr emit writes the renew and rebind durations"
   (before it `emit`/`buffer_len` ignored `renew_duration`/`rebind_duration`, which `parse` fills:
   a parsed Repr did not re-emit to itself).

   Panic sources: slice indexing / `try_into().unwrap()` / `copy_from_slice` length checks in the
   accessors and setters ([wb_sub], [wb_arr], [wb_set_slice] ...), `assert!` in
   set_hardware_type, `&self.buffer.as_ref()[field::OPTIONS]`, `split_at_mut` and the indexing in
   DhcpOptionWriter, `servers[i*4..(i+1)*4]` in emit.  No proofs in this file. *)
From SV Require Import Lib.Base Gen.Consts Gen.WireFields Model.WireBase.

Definition dhcpw_E_FUEL : Z := 99.  (* out of fuel (never returned, see WireDhcpv4Proofs) *)

Record dhcpw_opt := mkDhcpwOpt { dhcpw_o_kind : Z; dhcpw_o_data : list Z }.

Record dhcpw_repr := mkDhcpw {
  dhcpw_r_message_type : Z;
  dhcpw_r_transaction_id : Z;
  dhcpw_r_secs : Z;
  dhcpw_r_client_hardware_address : list Z;
  dhcpw_r_client_ip : list Z;
  dhcpw_r_your_ip : list Z;
  dhcpw_r_server_ip : list Z;
  dhcpw_r_router : option (list Z);
  dhcpw_r_subnet_mask : option (list Z);
  dhcpw_r_relay_agent_ip : list Z;
  dhcpw_r_broadcast : bool;
  dhcpw_r_requested_ip : option (list Z);
  dhcpw_r_client_identifier : option (list Z);
  dhcpw_r_server_identifier : option (list Z);
  dhcpw_r_parameter_request_list : option (list Z);
  dhcpw_r_dns_servers : option (list (list Z));
  dhcpw_r_max_size : option Z;
  dhcpw_r_lease_duration : option Z;
  dhcpw_r_renew_duration : option Z;
  dhcpw_r_rebind_duration : option Z;
  dhcpw_r_additional_options : list dhcpw_opt }.

(* enum OpCode / Hardware / bitflags Flags *)
Definition dhcpw_OP_REQUEST : Z := 1.
Definition dhcpw_OP_REPLY : Z := 2.
Definition dhcpw_HW_ETHERNET : Z := 1.
Definition dhcpw_FLAG_BROADCAST : Z := 32768.   (* 0b1000_0000_0000_0000 *)

(* MessageType::opcode on the octet of the message type *)
Definition dhcpw_mt_opcode (mt : Z) : Z :=
  if (mt =? 1) || (mt =? 8) || (mt =? 3) || (mt =? 4) || (mt =? 7) then dhcpw_OP_REQUEST
  else if (mt =? 2) || (mt =? 5) || (mt =? 6) then dhcpw_OP_REPLY
  else 0.

(* ---------- Packet: check_len and the fixed-header accessors ---------- *)

Definition dhcpw_check_len (bs : list Z) : outcome unit :=
  if blen bs <? snd wdhcp_f_MAGIC_NUMBER then Err 0 else Ok tt.

Definition dhcpw_opcode (bs : list Z) : outcome Z := wb_get_u8 bs wdhcp_f_OP.
Definition dhcpw_hardware_type (bs : list Z) : outcome Z := wb_get_u8 bs wdhcp_f_HTYPE.
Definition dhcpw_hardware_len (bs : list Z) : outcome Z := wb_get_u8 bs wdhcp_f_HLEN.
Definition dhcpw_transaction_id (bs : list Z) : outcome Z := wb_get_u32 bs wdhcp_f_XID.
Definition dhcpw_client_hardware_address (bs : list Z) : outcome (list Z) :=
  do s <- wb_field bs wdhcp_f_CHADDR; wb_arr 6 s.
Definition dhcpw_hops (bs : list Z) : outcome Z := wb_get_u8 bs wdhcp_f_HOPS.
Definition dhcpw_secs (bs : list Z) : outcome Z := wb_get_u16 bs wdhcp_f_SECS.
Definition dhcpw_magic_number (bs : list Z) : outcome Z := wb_get_u32 bs wdhcp_f_MAGIC_NUMBER.
Definition dhcpw_client_ip (bs : list Z) : outcome (list Z) :=
  do s <- wb_field bs wdhcp_f_CIADDR; wb_arr 4 s.
Definition dhcpw_your_ip (bs : list Z) : outcome (list Z) :=
  do s <- wb_field bs wdhcp_f_YIADDR; wb_arr 4 s.
Definition dhcpw_server_ip (bs : list Z) : outcome (list Z) :=
  do s <- wb_field bs wdhcp_f_SIADDR; wb_arr 4 s.
Definition dhcpw_relay_agent_ip (bs : list Z) : outcome (list Z) :=
  do s <- wb_field bs wdhcp_f_GIADDR; wb_arr 4 s.
(* Flags::from_bits_truncate(read_u16(..)) *)
Definition dhcpw_flags (bs : list Z) : outcome Z :=
  do v <- wb_get_u16 bs wdhcp_f_FLAGS; Ok (Z.land v dhcpw_FLAG_BROADCAST).

(* ---------- Packet::options ---------- *)

(* one call of the from_fn closure on the iterator state [buf] *)
Fixpoint dhcpw_opt_next (fuel : nat) (buf : list Z) : outcome (option (dhcpw_opt * list Z)) :=
  match fuel with
  | O => Err dhcpw_E_FUEL
  | S fuel' =>
      match buf with
      | [] => Ok None                                               (* buf.first() = None *)
      | kind :: _ =>
          if kind =? wdhcp_OPT_END then Ok None
          else if kind =? wdhcp_OPT_PAD then
            do b <- wb_from buf 1; dhcpw_opt_next fuel' b           (* buf = &buf[1..]; loop *)
          else if blen buf <? 2 then Ok None
          else
            do len <- wb_get_u8 buf 1;
            if blen buf <? 2 + len then Ok None
            else
              do data <- wb_sub buf 2 (2 + len);
              do rest <- wb_from buf (2 + len);
              Ok (Some (mkDhcpwOpt kind data, rest))
      end
  end.

(* `for option in packet.options()`: everything the iterator yields *)
Fixpoint dhcpw_options_go (fuel : nat) (buf : list Z) : outcome (list dhcpw_opt) :=
  match fuel with
  | O => Err dhcpw_E_FUEL
  | S fuel' =>
      do nx <- dhcpw_opt_next (S (length buf)) buf;
      match nx with
      | None => Ok []
      | Some (o, rest) => do tl <- dhcpw_options_go fuel' rest; Ok (o :: tl)
      end
  end.

Definition dhcpw_options (bs : list Z) : outcome (list dhcpw_opt) :=
  do buf <- wb_from bs wdhcp_f_OPTIONS; dhcpw_options_go (S (length buf)) buf.

(* ---------- get_sname / get_boot_file ---------- *)

(* data.iter().position(|&x| x == 0) *)
Fixpoint dhcpw_position0 (l : list Z) : option Z :=
  match l with
  | [] => None
  | x :: t => if x =? 0 then Some 0
              else match dhcpw_position0 t with Some n => Some (n + 1) | None => None end
  end.

Definition dhcpw_cont (b : Z) : bool := (128 <=? b) && (b <=? 191).

(* core::str::from_utf8(..).is_ok(): well-formed UTF-8 byte sequences (Unicode Table 3-7) *)
Fixpoint dhcpw_utf8_valid (l : list Z) : bool :=
  match l with
  | [] => true
  | a :: t =>
      if a <? 128 then dhcpw_utf8_valid t
      else if (194 <=? a) && (a <=? 223) then
        match t with b :: t' => dhcpw_cont b && dhcpw_utf8_valid t' | _ => false end
      else if (224 <=? a) && (a <=? 239) then
        match t with
        | b :: c :: t' =>
            (if a =? 224 then (160 <=? b) && (b <=? 191)
             else if a =? 237 then (128 <=? b) && (b <=? 159)
             else dhcpw_cont b) && dhcpw_cont c && dhcpw_utf8_valid t'
        | _ => false
        end
      else if (240 <=? a) && (a <=? 244) then
        match t with
        | b :: c :: d :: t' =>
            (if a =? 240 then (144 <=? b) && (b <=? 191)
             else if a =? 244 then (128 <=? b) && (b <=? 143)
             else dhcpw_cont b) && dhcpw_cont c && dhcpw_cont d && dhcpw_utf8_valid t'
        | _ => false
        end
      else false
  end.

(* the common body of get_sname (field SNAME) and get_boot_file (field FILE); the result is
   the octets of the &str *)
Definition dhcpw_get_str (bs : list Z) (f : Z * Z) : outcome (list Z) :=
  do data <- wb_field bs f;
  match dhcpw_position0 data with
  | None => Err 0
  | Some len =>
      if len =? 0 then Err 0
      else do s <- wb_upto data len;
           if dhcpw_utf8_valid s then Ok s else Err 0
  end.
Definition dhcpw_get_sname (bs : list Z) : outcome (list Z) := dhcpw_get_str bs wdhcp_f_SNAME.
Definition dhcpw_get_boot_file (bs : list Z) : outcome (list Z) := dhcpw_get_str bs wdhcp_f_FILE.

(* ---------- setters ---------- *)

Definition dhcpw_set_sname_and_boot_file_to_zero (bs : list Z) : outcome (list Z) :=
  do bs <- wb_fill bs (fst wdhcp_f_SNAME) (snd wdhcp_f_SNAME) 0;
  wb_fill bs (fst wdhcp_f_FILE) (snd wdhcp_f_FILE) 0.
Definition dhcpw_set_opcode (bs : list Z) (v : Z) := wb_set_u8 bs wdhcp_f_OP v.
(* assert!(number <= u16::from(u8::MAX)) *)
Definition dhcpw_set_hardware_type (bs : list Z) (v : Z) :=
  do _ <- wb_assert (v <=? 255); wb_set_u8 bs wdhcp_f_HTYPE (v mod 256).
Definition dhcpw_set_hardware_len (bs : list Z) (v : Z) := wb_set_u8 bs wdhcp_f_HLEN v.
Definition dhcpw_set_transaction_id (bs : list Z) (v : Z) := wb_put_u32 bs wdhcp_f_XID v.
Definition dhcpw_set_client_hardware_address (bs : list Z) (v : list Z) :=
  wb_set_field bs wdhcp_f_CHADDR v.
Definition dhcpw_set_hops (bs : list Z) (v : Z) := wb_set_u8 bs wdhcp_f_HOPS v.
Definition dhcpw_set_secs (bs : list Z) (v : Z) := wb_put_u16 bs wdhcp_f_SECS v.
Definition dhcpw_set_magic_number (bs : list Z) (v : Z) := wb_put_u32 bs wdhcp_f_MAGIC_NUMBER v.
Definition dhcpw_set_client_ip (bs : list Z) (v : list Z) := wb_set_field bs wdhcp_f_CIADDR v.
Definition dhcpw_set_your_ip (bs : list Z) (v : list Z) := wb_set_field bs wdhcp_f_YIADDR v.
Definition dhcpw_set_server_ip (bs : list Z) (v : list Z) := wb_set_field bs wdhcp_f_SIADDR v.
Definition dhcpw_set_relay_agent_ip (bs : list Z) (v : list Z) := wb_set_field bs wdhcp_f_GIADDR v.
Definition dhcpw_set_flags (bs : list Z) (v : Z) := wb_put_u16 bs wdhcp_f_FLAGS v.

(* ---------- DhcpOptionWriter ----------
   State (done, buffer): [buffer] is the writer's `self.buffer` (what is still writable),
   [done] the octets of the underlying options area in front of it. *)
Definition dhcpw_writer : Type := (list Z * list Z)%type.

(* DhcpOptionWriter::emit *)
Definition dhcpw_ow_emit (w : dhcpw_writer) (o : dhcpw_opt) : outcome dhcpw_writer :=
  let (done, buffer) := w in
  let data := dhcpw_o_data o in
  if 255 <? blen data then Err 0
  else
    let total_len := 2 + blen data in
    if blen buffer <? total_len then Err 0
    else
      do buf <- wb_upto buffer total_len;            (* split_at_mut(total_len) *)
      do rest <- wb_from buffer total_len;
      do buf <- wb_set_u8 buf 0 (dhcpw_o_kind o);
      do buf <- wb_set_u8 buf 1 (blen data mod 256);
      do buf <- wb_set_slice buf 2 (blen buf) data;  (* buf[2..].copy_from_slice(data) *)
      Ok (done ++ buf, rest).

(* `if let Some(val) = .. { options.emit(..)?; }` *)
Definition dhcpw_ow_emit_opt (w : dhcpw_writer) (o : option dhcpw_opt) : outcome dhcpw_writer :=
  match o with Some x => dhcpw_ow_emit w x | None => Ok w end.

(* `for option in self.additional_options { options.emit(option)?; }` *)
Fixpoint dhcpw_ow_emit_all (w : dhcpw_writer) (l : list dhcpw_opt) : outcome dhcpw_writer :=
  match l with
  | [] => Ok w
  | o :: t => do w <- dhcpw_ow_emit w o; dhcpw_ow_emit_all w t
  end.

(* DhcpOptionWriter::end *)
Definition dhcpw_ow_end (w : dhcpw_writer) : outcome dhcpw_writer :=
  let (done, buffer) := w in
  if blen buffer =? 0 then Err 0
  else do b <- wb_set_u8 buffer 0 wdhcp_OPT_END; Ok (done ++ b, []).

(* ---------- Repr::buffer_len ---------- *)

Definition dhcpw_if_some {A} (o : option A) (n : Z) : Z := match o with Some _ => n | None => 0 end.

Definition dhcpw_opts_len (l : list dhcpw_opt) : Z :=
  fold_left (fun len o => len + (2 + blen (dhcpw_o_data o))) l 0.

Definition dhcpw_buffer_len (r : dhcpw_repr) : Z :=
  wdhcp_f_OPTIONS + (3 + 1)
  + dhcpw_if_some (dhcpw_r_requested_ip r) 6
  + dhcpw_if_some (dhcpw_r_client_identifier r) 9
  + dhcpw_if_some (dhcpw_r_server_identifier r) 6
  + dhcpw_if_some (dhcpw_r_max_size r) 4
  + dhcpw_if_some (dhcpw_r_router r) 6
  + dhcpw_if_some (dhcpw_r_subnet_mask r) 6
  + dhcpw_if_some (dhcpw_r_lease_duration r) 6
  + dhcpw_if_some (dhcpw_r_renew_duration r) 6
  + dhcpw_if_some (dhcpw_r_rebind_duration r) 6
  + match dhcpw_r_dns_servers r with
    | Some s => 2 + Z.of_nat (length s) * 4
    | None => 0
    end
  + match dhcpw_r_parameter_request_list r with
    | Some l => blen l + 2
    | None => 0
    end
  + dhcpw_opts_len (dhcpw_r_additional_options r).

(* ---------- Repr::parse ---------- *)

(* the `let mut` variables of Repr::parse ([None] for message_type = the initial Err(Error)) *)
Record dhcpw_acc := mkDhcpwAcc {
  dhcpw_a_message_type : option Z;
  dhcpw_a_requested_ip : option (list Z);
  dhcpw_a_client_identifier : option (list Z);
  dhcpw_a_server_identifier : option (list Z);
  dhcpw_a_router : option (list Z);
  dhcpw_a_subnet_mask : option (list Z);
  dhcpw_a_parameter_request_list : option (list Z);
  dhcpw_a_dns_servers : option (list (list Z));
  dhcpw_a_max_size : option Z;
  dhcpw_a_lease_duration : option Z;
  dhcpw_a_renew_duration : option Z;
  dhcpw_a_rebind_duration : option Z }.

Definition dhcpw_acc0 : dhcpw_acc :=
  mkDhcpwAcc None None None None None None None None None None None None.

(* data.chunks_exact(IP_ADDR_BYTE_LEN), IP_ADDR_BYTE_LEN = 4: the remainder is not a chunk *)
Fixpoint dhcpw_chunks4 (d : list Z) : list (list Z) :=
  match d with
  | a :: b :: c :: e :: t => [a; b; c; e] :: dhcpw_chunks4 t
  | _ => []
  end.

(* heapless::Vec<_, MAX_DNS_SERVER_COUNT>::push(..).ok(): pushes beyond the capacity are dropped *)
Definition dhcpw_dns_parse (d : list Z) : list (list Z) :=
  firstn (Z.to_nat wdhcp_MAX_DNS_SERVER_COUNT) (dhcpw_chunks4 d).

(* u32::from_be_bytes([data[0], data[1], data[2], data[3]]) *)
Definition dhcpw_be4 (d : list Z) : outcome Z :=
  do a <- wb_get_u8 d 0; do b <- wb_get_u8 d 1; do c <- wb_get_u8 d 2; do e <- wb_get_u8 d 3;
  Ok (be_dec [a; b; c; e]).

(* the body of the option loop: `match (option.kind, data.len())`, arms in source order *)
Definition dhcpw_parse_opt (bs : list Z) (a : dhcpw_acc) (o : dhcpw_opt) : outcome dhcpw_acc :=
  let kind := dhcpw_o_kind o in
  let data := dhcpw_o_data o in
  let n := blen data in
  let '(mkDhcpwAcc mt rip cid sid rt sm prl dns ms ld rn rb) := a in
  if (kind =? wdhcp_OPT_DHCP_MESSAGE_TYPE) && (n =? 1) then
    do v <- wb_get_u8 data 0;
    do op <- dhcpw_opcode bs;
    if dhcpw_mt_opcode v =? op
    then Ok (mkDhcpwAcc (Some v) rip cid sid rt sm prl dns ms ld rn rb)
    else Ok a
  else if (kind =? wdhcp_OPT_REQUESTED_IP) && (n =? 4) then
    do x <- wb_arr 4 data; Ok (mkDhcpwAcc mt (Some x) cid sid rt sm prl dns ms ld rn rb)
  else if (kind =? wdhcp_OPT_CLIENT_ID) && (n =? 7) then
    do h <- wb_get_u8 data 0;
    if negb (h =? dhcpw_HW_ETHERNET) then Err 0
    else do s <- wb_from data 1; do x <- wb_arr 6 s;
         Ok (mkDhcpwAcc mt rip (Some x) sid rt sm prl dns ms ld rn rb)
  else if (kind =? wdhcp_OPT_SERVER_IDENTIFIER) && (n =? 4) then
    do x <- wb_arr 4 data; Ok (mkDhcpwAcc mt rip cid (Some x) rt sm prl dns ms ld rn rb)
  else if (kind =? wdhcp_OPT_ROUTER) && (n =? 4) then
    do x <- wb_arr 4 data; Ok (mkDhcpwAcc mt rip cid sid (Some x) sm prl dns ms ld rn rb)
  else if (kind =? wdhcp_OPT_SUBNET_MASK) && (n =? 4) then
    do x <- wb_arr 4 data; Ok (mkDhcpwAcc mt rip cid sid rt (Some x) prl dns ms ld rn rb)
  else if (kind =? wdhcp_OPT_MAX_DHCP_MESSAGE_SIZE) && (n =? 2) then
    do x <- wb_get_u8 data 0; do y <- wb_get_u8 data 1;
    Ok (mkDhcpwAcc mt rip cid sid rt sm prl dns (Some (be_dec [x; y])) ld rn rb)
  else if (kind =? wdhcp_OPT_RENEWAL_TIME_VALUE) && (n =? 4) then
    do x <- dhcpw_be4 data; Ok (mkDhcpwAcc mt rip cid sid rt sm prl dns ms ld (Some x) rb)
  else if (kind =? wdhcp_OPT_REBINDING_TIME_VALUE) && (n =? 4) then
    do x <- dhcpw_be4 data; Ok (mkDhcpwAcc mt rip cid sid rt sm prl dns ms ld rn (Some x))
  else if (kind =? wdhcp_OPT_IP_LEASE_TIME) && (n =? 4) then
    do x <- dhcpw_be4 data; Ok (mkDhcpwAcc mt rip cid sid rt sm prl dns ms (Some x) rn rb)
  else if kind =? wdhcp_OPT_PARAMETER_REQUEST_LIST then
    Ok (mkDhcpwAcc mt rip cid sid rt sm (Some data) dns ms ld rn rb)
  else if kind =? wdhcp_OPT_DOMAIN_NAME_SERVER then
    Ok (mkDhcpwAcc mt rip cid sid rt sm prl (Some (dhcpw_dns_parse data)) ms ld rn rb)
  else Ok a.

Fixpoint dhcpw_parse_opts (bs : list Z) (a : dhcpw_acc) (l : list dhcpw_opt) : outcome dhcpw_acc :=
  match l with
  | [] => Ok a
  | o :: t => do a <- dhcpw_parse_opt bs a o; dhcpw_parse_opts bs a t
  end.

Definition dhcpw_parse (bs : list Z) : outcome dhcpw_repr :=
  do _ <- dhcpw_check_len bs;
  do transaction_id <- dhcpw_transaction_id bs;
  do client_hardware_address <- dhcpw_client_hardware_address bs;
  do client_ip <- dhcpw_client_ip bs;
  do your_ip <- dhcpw_your_ip bs;
  do server_ip <- dhcpw_server_ip bs;
  do relay_agent_ip <- dhcpw_relay_agent_ip bs;
  do secs <- dhcpw_secs bs;
  do ht <- dhcpw_hardware_type bs;
  do _ <- (if ht =? dhcpw_HW_ETHERNET
           then do hl <- dhcpw_hardware_len bs; wb_guard (hl =? 6)
           else Err 0);
  do magic <- dhcpw_magic_number bs;
  do _ <- wb_guard (magic =? wdhcp_DHCP_MAGIC_NUMBER);
  do opts <- dhcpw_options bs;
  do a <- dhcpw_parse_opts bs dhcpw_acc0 opts;
  do flags <- dhcpw_flags bs;
  let broadcast := Z.land flags dhcpw_FLAG_BROADCAST =? dhcpw_FLAG_BROADCAST in
  match dhcpw_a_message_type a with
  | None => Err 0
  | Some message_type =>
      Ok (mkDhcpw message_type transaction_id secs client_hardware_address client_ip your_ip
            server_ip (dhcpw_a_router a) (dhcpw_a_subnet_mask a) relay_agent_ip broadcast
            (dhcpw_a_requested_ip a) (dhcpw_a_client_identifier a) (dhcpw_a_server_identifier a)
            (dhcpw_a_parameter_request_list a) (dhcpw_a_dns_servers a) (dhcpw_a_max_size a)
            (dhcpw_a_lease_duration a) (dhcpw_a_renew_duration a) (dhcpw_a_rebind_duration a) [])
  end.

(* ---------- Repr::emit ---------- *)

(* `.inspect(|(i, ip)| servers[i*4..(i+1)*4].copy_from_slice(&ip.octets()))` over the servers *)
Fixpoint dhcpw_dns_fill (servers : list Z) (i : Z) (ips : list (list Z)) : outcome (list Z) :=
  match ips with
  | [] => Ok servers
  | ip :: t => do s <- wb_set_slice servers (i * 4) ((i + 1) * 4) ip; dhcpw_dns_fill s (i + 1) t
  end.

(* `servers = [0; MAX_DNS_SERVER_COUNT * IP_SIZE]`, filled, then `&servers[..data_len]` *)
Definition dhcpw_dns_data (ips : list (list Z)) : outcome (list Z) :=
  do s <- dhcpw_dns_fill (repeat 0 (Z.to_nat (wdhcp_MAX_DNS_SERVER_COUNT * 4))) 0 ips;
  wb_upto s (Z.of_nat (length ips) * 4).

Definition dhcpw_emit_options (r : dhcpw_repr) (s : list Z) : outcome (list Z) :=
  let w : dhcpw_writer := ([], s) in
  do w <- dhcpw_ow_emit w (mkDhcpwOpt wdhcp_OPT_DHCP_MESSAGE_TYPE [dhcpw_r_message_type r]);
  do w <- dhcpw_ow_emit_opt w
            (option_map (fun v => mkDhcpwOpt wdhcp_OPT_CLIENT_ID (dhcpw_HW_ETHERNET :: v))
                        (dhcpw_r_client_identifier r));
  do w <- dhcpw_ow_emit_opt w
            (option_map (mkDhcpwOpt wdhcp_OPT_SERVER_IDENTIFIER) (dhcpw_r_server_identifier r));
  do w <- dhcpw_ow_emit_opt w (option_map (mkDhcpwOpt wdhcp_OPT_ROUTER) (dhcpw_r_router r));
  do w <- dhcpw_ow_emit_opt w (option_map (mkDhcpwOpt wdhcp_OPT_SUBNET_MASK) (dhcpw_r_subnet_mask r));
  do w <- dhcpw_ow_emit_opt w (option_map (mkDhcpwOpt wdhcp_OPT_REQUESTED_IP) (dhcpw_r_requested_ip r));
  do w <- dhcpw_ow_emit_opt w
            (option_map (fun v => mkDhcpwOpt wdhcp_OPT_MAX_DHCP_MESSAGE_SIZE (be_enc2 v))
                        (dhcpw_r_max_size r));
  do w <- dhcpw_ow_emit_opt w
            (option_map (fun v => mkDhcpwOpt wdhcp_OPT_IP_LEASE_TIME (be_enc4 v))
                        (dhcpw_r_lease_duration r));
  do w <- dhcpw_ow_emit_opt w
            (option_map (fun v => mkDhcpwOpt wdhcp_OPT_RENEWAL_TIME_VALUE (be_enc4 v))
                        (dhcpw_r_renew_duration r));
  do w <- dhcpw_ow_emit_opt w
            (option_map (fun v => mkDhcpwOpt wdhcp_OPT_REBINDING_TIME_VALUE (be_enc4 v))
                        (dhcpw_r_rebind_duration r));
  do w <- dhcpw_ow_emit_opt w
            (option_map (mkDhcpwOpt wdhcp_OPT_PARAMETER_REQUEST_LIST)
                        (dhcpw_r_parameter_request_list r));
  do w <- match dhcpw_r_dns_servers r with
          | Some ips => do data <- dhcpw_dns_data ips;
                        dhcpw_ow_emit w (mkDhcpwOpt wdhcp_OPT_DOMAIN_NAME_SERVER data)
          | None => Ok w
          end;
  do w <- dhcpw_ow_emit_all w (dhcpw_r_additional_options r);
  do w <- dhcpw_ow_end w;
  Ok (fst w ++ snd w).

(* the first part of Repr::emit: the setters of the fixed header, in source order *)
Definition dhcpw_emit_fixed (r : dhcpw_repr) (b : list Z) : outcome (list Z) :=
  do b <- dhcpw_set_sname_and_boot_file_to_zero b;
  do b <- dhcpw_set_opcode b (dhcpw_mt_opcode (dhcpw_r_message_type r));
  do b <- dhcpw_set_hardware_type b dhcpw_HW_ETHERNET;
  do b <- dhcpw_set_hardware_len b 6;
  do b <- dhcpw_set_transaction_id b (dhcpw_r_transaction_id r);
  do b <- dhcpw_set_client_hardware_address b (dhcpw_r_client_hardware_address r);
  do b <- dhcpw_set_hops b 0;
  do b <- dhcpw_set_secs b (dhcpw_r_secs r);
  do b <- dhcpw_set_magic_number b 1669485411;      (* the literal 0x63825363 in Repr::emit *)
  do b <- dhcpw_set_client_ip b (dhcpw_r_client_ip r);
  do b <- dhcpw_set_your_ip b (dhcpw_r_your_ip r);
  do b <- dhcpw_set_server_ip b (dhcpw_r_server_ip r);
  do b <- dhcpw_set_relay_agent_ip b (dhcpw_r_relay_agent_ip r);
  dhcpw_set_flags b (if dhcpw_r_broadcast r then dhcpw_FLAG_BROADCAST else 0).

(* Repr::emit: the fixed header, then the block
   `{ let mut options = packet.options_mut(); … options.end()?; }` with
   packet.options_mut() = DhcpOptionWriter::new(&mut buffer[field::OPTIONS]) *)
Definition dhcpw_emit (r : dhcpw_repr) (b : list Z) : outcome (list Z) :=
  do b <- dhcpw_emit_fixed r b;
  wb_on_from b wdhcp_f_OPTIONS (dhcpw_emit_options r).

(* ---------- the proviso of C06 for DHCPv4 ----------
   Rust type ranges (not restrictions): message type / kinds are u8, transaction_id and the three
   durations u32, secs and max_size u16, addresses 4 and hardware addresses 6 octets, at most
   MAX_DNS_SERVER_COUNT (3) DNS servers (heapless::Vec capacity; `Some([])` is allowed and is what
   parse produces for a zero-length option 6).
   Protocol limit on a variable-length part: an option carries at most 255 data octets (one
   length octet; DhcpOptionWriter::emit returns Err beyond that): parameter_request_list <= 255.
   [dhcpw_wf_emit] (enough for "emit does not panic / ignores the old bytes") also admits
   additional_options of <= 255 data octets each.  [dhcpw_wf] (the round trip) requires
   additional_options = []: `Repr::parse` never produces them (documented on the field: "When
   returned from Repr::parse, this field will be None"), so a Repr carrying any cannot be equal to
   a parsed one; what parse makes of them is stated separately (dhcpw_roundtrip_additional). *)
Definition dhcpw_opt_all {A} (p : A -> bool) (o : option A) : bool :=
  match o with Some x => p x | None => true end.

Definition dhcpw_opt_ok (o : dhcpw_opt) : bool :=
  is_u8 (dhcpw_o_kind o) && bytes_ok (dhcpw_o_data o) && (blen (dhcpw_o_data o) <=? 255).

Definition dhcpw_prl_ok (l : list Z) : bool := bytes_ok l && (blen l <=? 255).
Definition dhcpw_dns_ok (s : list (list Z)) : bool :=
  (Z.of_nat (length s) <=? wdhcp_MAX_DNS_SERVER_COUNT) && forallb (is_arr 4) s.

Definition dhcpw_wf_emit (r : dhcpw_repr) : bool :=
  is_u8 (dhcpw_r_message_type r) && is_u32 (dhcpw_r_transaction_id r) && is_u16 (dhcpw_r_secs r) &&
  is_arr 6 (dhcpw_r_client_hardware_address r) &&
  is_arr 4 (dhcpw_r_client_ip r) && is_arr 4 (dhcpw_r_your_ip r) &&
  is_arr 4 (dhcpw_r_server_ip r) && is_arr 4 (dhcpw_r_relay_agent_ip r) &&
  dhcpw_opt_all (is_arr 4) (dhcpw_r_router r) &&
  dhcpw_opt_all (is_arr 4) (dhcpw_r_subnet_mask r) &&
  dhcpw_opt_all (is_arr 4) (dhcpw_r_requested_ip r) &&
  dhcpw_opt_all (is_arr 6) (dhcpw_r_client_identifier r) &&
  dhcpw_opt_all (is_arr 4) (dhcpw_r_server_identifier r) &&
  dhcpw_opt_all dhcpw_prl_ok (dhcpw_r_parameter_request_list r) &&
  dhcpw_opt_all dhcpw_dns_ok (dhcpw_r_dns_servers r) &&
  dhcpw_opt_all is_u16 (dhcpw_r_max_size r) &&
  dhcpw_opt_all is_u32 (dhcpw_r_lease_duration r) &&
  dhcpw_opt_all is_u32 (dhcpw_r_renew_duration r) &&
  dhcpw_opt_all is_u32 (dhcpw_r_rebind_duration r) &&
  forallb dhcpw_opt_ok (dhcpw_r_additional_options r).

Definition dhcpw_wf (r : dhcpw_repr) : bool :=
  dhcpw_wf_emit r &&
  match dhcpw_r_additional_options r with [] => true | _ => false end.
