(* Executable model of the next-hop / link-layer addressing decisions of
   smoltcp::iface::InterfaceInner (src/iface/interface/{mod,ipv4,ipv6,ethernet}.rs):

     in_same_network, has_ip_addr, is_broadcast(_v4), is_unicast_v4, get_source_address_ipv4 (Some/None),
     route, has_neighbor, lookup_hardware_addr, dispatch_ip (addressing part only),
     process_ethernet (destination filter), process_ieee802154 / process_sixlowpan (PAN filter, broadcast
     rule), process_arp, process_ipv4 / process_ipv6 (up to the neighbor-cache refresh and the auto
     echo reply), process_ndisc (NA / NS), flush_neighbor_cache,
     update_ip_addrs, and - for the correspondence stream `neigh` - Interface::poll's
     ingress loop + socket_egress over datagram-like sockets (UDP / ICMP / raw, all of which
     dispatch the head of a FIFO with dequeue_with, i.e. keep the packet when emit fails).

   Packets are abstract (already parsed): addresses are Z, see Model/Neighbor.v.
   Hardware addresses as Z:  Ethernet  = the 48-bit value;
                             802.15.4  = Extended a  -> a (64 bit),  Short s -> 2^64 + s,  BROADCAST = Short ffff.
   Time: microseconds.

   Panic sources of the modelled Rust code (all become [Panic] here; NexthopProofs shows they are
   unreachable for well-formed configurations = every gateway is a unicast address):
     dispatch_ip:           assert!(!dst.is_unspecified())
     Routes::lookup:        assert!(addr.is_unicast())
     Cache::lookup:         assert!(protocol_addr.is_unicast())    (the routed address)
     lookup_hardware_addr:  unreachable!() for an IPv4 multicast destination on 802.15.4
     solicited_node():      assert!(x_is_unicast)                   (implied by the Cache::lookup assert)
   No proofs in this file. *)
From SV Require Import Lib.Base Gen.Consts Model.Neighbor Model.Route Model.Meta.

(* ---------- address classes (wire::ipv4 / wire::ipv6 / wire::ip / wire::ethernet) ---------- *)

Definition v4_is_broadcast (a : Z) : bool := a =? 2 ^ 32 - 1.
Definition v4_is_multicast (a : Z) : bool := a / 2 ^ 28 =? 14.
Definition v4_is_unspecified (a : Z) : bool := a =? 0.
Definition v4_x_is_unicast (a : Z) : bool :=
  negb (v4_is_broadcast a || v4_is_multicast a || v4_is_unspecified a).

Definition v6_is_multicast (a : Z) : bool := a / 2 ^ 120 =? 255.
Definition v6_is_unspecified (a : Z) : bool := a =? 0.
Definition v6_is_loopback (a : Z) : bool := a =? 1.
Definition v6_x_is_unicast (a : Z) : bool := negb (v6_is_multicast a || v6_is_unspecified a).
(* Ipv6Address::solicited_node: ff02::1:ffXX:XXXX *)
Definition v6_solicited_node (a : Z) : Z := 0xff02 * 2 ^ 112 + 0x1ff * 2 ^ 24 + a mod 2 ^ 24.
Definition V6_ALL_NODES : Z := 0xff02 * 2 ^ 112 + 1.
Definition V4_ALL_SYSTEMS : Z := 224 * 2 ^ 24 + 1.

Definition ip_is_unicast (a : ipaddr) : bool :=
  match a with V4 x => v4_x_is_unicast x | V6 x => v6_x_is_unicast x end.
Definition ip_is_multicast (a : ipaddr) : bool :=
  match a with V4 x => v4_is_multicast x | V6 x => v6_is_multicast x end.
Definition ip_is_broadcast (a : ipaddr) : bool :=
  match a with V4 x => v4_is_broadcast x | V6 _ => false end.
Definition ip_is_unspecified (a : ipaddr) : bool :=
  match a with V4 x => v4_is_unspecified x | V6 x => v6_is_unspecified x end.

Definition ETH_BROADCAST : Z := 2 ^ 48 - 1.
Definition eth_is_broadcast (h : Z) : bool := h =? ETH_BROADCAST.
Definition eth_is_multicast (h : Z) : bool := (h / 2 ^ 40) mod 2 =? 1.
Definition eth_is_unicast (h : Z) : bool := negb (eth_is_broadcast h || eth_is_multicast h).
Definition IEEE_BROADCAST : Z := 2 ^ 64 + 65535.

(* ---------- the interface ---------- *)

Record iface := mkIface {
  if_ether : bool;              (* Medium::Ethernet, otherwise Medium::Ieee802154 *)
  if_hw : Z;                    (* own hardware address *)
  if_cap : Z;                   (* IFACE_NEIGHBOR_CACHE_COUNT *)
  if_addrs : list cidr;         (* ip_addrs *)
  if_routes : list route;
  if_cache : cache }.

Definition nh_init (ether : bool) (hw : Z) (cap : Z) : iface := mkIface ether hw cap [] [] neigh_new.

Definition set_cache (i : iface) (c : cache) : iface :=
  mkIface (if_ether i) (if_hw i) (if_cap i) (if_addrs i) (if_routes i) c.
Definition set_routes (i : iface) (r : list route) : iface :=
  mkIface (if_ether i) (if_hw i) (if_cap i) (if_addrs i) r (if_cache i).

(* HardwareAddress::is_unicast for the interface's medium *)
Definition hw_is_unicast (i : iface) (h : Z) : bool :=
  if if_ether i then eth_is_unicast h else negb (h =? IEEE_BROADCAST).

Definition hw_broadcast (i : iface) : Z := if if_ether i then ETH_BROADCAST else IEEE_BROADCAST.

(* hardware address derived from a multicast IP address (lookup_hardware_addr, second block);
   None = unreachable!() *)
Definition hw_multicast (i : iface) (a : ipaddr) : option Z :=
  match a with
  | V4 x => if if_ether i then Some (0x01005e * 2 ^ 24 + x mod 2 ^ 23) else None
  | V6 x => if if_ether i then Some (0x3333 * 2 ^ 32 + x mod 2 ^ 32) else Some IEEE_BROADCAST
  end.

(* InterfaceInner::in_same_network *)
Definition nh_in_same_network (i : iface) (a : ipaddr) : bool :=
  existsb (fun c => cidr_contains c a) (if_addrs i).

(* InterfaceInner::has_ip_addr (any_ip = false) *)
Definition nh_has_ip_addr (i : iface) (a : ipaddr) : bool :=
  existsb (fun c => ip_eqb (cidr_addr c) a) (if_addrs i).

(* InterfaceInner::is_broadcast_v4 / is_broadcast / is_unicast_v4 *)
Definition nh_is_broadcast_v4 (i : iface) (a : Z) : bool :=
  v4_is_broadcast a ||
  existsb (fun c => match cidr_broadcast c with Some b => a =? b | None => false end) (if_addrs i).
Definition nh_is_broadcast (i : iface) (a : ipaddr) : bool :=
  match a with V4 x => nh_is_broadcast_v4 i x | V6 _ => false end.
Definition nh_is_unicast_v4 (i : iface) (a : Z) : bool :=
  v4_x_is_unicast a && negb (nh_is_broadcast_v4 i a).

(* get_source_address_ipv4(..).is_some(): some IPv4 address is configured *)
Definition nh_has_ipv4_source (i : iface) : bool :=
  existsb (fun c => match cidr_addr c with V4 _ => true | V6 _ => false end) (if_addrs i).

(* Ipv6Address::is_solicited_node_multicast: ff02::1:ffXX:XXXX *)
Definition v6_is_solicited_node_multicast (a : Z) : bool :=
  a / 2 ^ 24 =? 0xff02 * 2 ^ 88 + 0x1ff.

(* InterfaceInner::has_solicited_node: the solicited-node group of one of our addresses *)
Definition nh_has_solicited_node (i : iface) (a : Z) : bool :=
  existsb (fun c => match cidr_addr c with
                    | V6 x => negb (v6_is_loopback x) &&
                              (v6_is_solicited_node_multicast a && (a mod 2 ^ 24 =? x mod 2 ^ 24))
                    | V4 _ => false end) (if_addrs i).

(* InterfaceInner::has_multicast_group with no explicitly joined group (the solicited-node
   groups joined by update_ip_addrs all satisfy has_solicited_node) *)
Definition nh_has_multicast_group (i : iface) (a : ipaddr) : bool :=
  match a with
  | V4 x => x =? V4_ALL_SYSTEMS
  | V6 x => (x =? V6_ALL_NODES) || nh_has_solicited_node i x
  end.

(* InterfaceInner::route (the assert inside Routes::lookup is checked by the caller) *)
Definition nh_route (i : iface) (a : ipaddr) (now : Z) : option ipaddr :=
  if nh_in_same_network i a || ip_is_broadcast a then Some a
  else route_lookup (if_routes i) a now.

(* InterfaceInner::has_neighbor.  Only ever called (through Meta) with the destination of a
   dispatch that failed, which is a unicast address. *)
Definition nh_has_neighbor (i : iface) (now : Z) (a : ipaddr) : bool :=
  match nh_route i a now with
  | Some n => answer_found (neigh_lookup (if_cache i) n now)
  | None => false
  end.

(* ---------- egress decision ---------- *)

Inductive frame :=
| FArpReq (hw : Z) (target : Z)          (* ARP request for [target], Ethernet destination hw *)
| FArpRep (hw : Z) (target : Z)          (* ARP reply to protocol address [target] at hw *)
| FNs (hw : Z) (target : Z)              (* neighbor solicitation for [target] sent to hw *)
| FIp (hw : Z) (dst : ipaddr) (tag : Z). (* any other IP packet for [dst] sent to hw *)

Inductive dispatch_result :=
| DSend (hw : Z)       (* Ok((hw, tx_token)) *)
| DNoRoute             (* Err(DispatchError::NoRoute) *)
| DPending.            (* Err(DispatchError::NeighborPending) *)

(* InterfaceInner::lookup_hardware_addr: new interface state, frames emitted by the lookup
   itself (discovery request), result *)
Definition nh_lookup_hardware_addr (i : iface) (dst : ipaddr) (now : Z)
  : outcome (iface * list frame * dispatch_result) :=
  if nh_is_broadcast i dst then Ok (i, [], DSend (hw_broadcast i))
  else if ip_is_multicast dst then
    match hw_multicast i dst with
    | Some h => Ok (i, [], DSend h)
    | None => Panic
    end
  else
    if negb (nh_in_same_network i dst || ip_is_broadcast dst) && negb (ip_is_unicast dst)
    then Panic                                         (* assert in Routes::lookup *)
    else
    match nh_route i dst now with
    | None => Ok (i, [], DNoRoute)
    | Some n =>
        if negb (ip_is_unicast n) then Panic           (* assert in Cache::lookup *)
        else
        match neigh_lookup (if_cache i) n now with
        | Found h => Ok (i, [], DSend h)
        | RateLimited => Ok (i, [], DPending)
        | NotFound =>
            match n with
            | V4 t =>
                if if_ether i then
                  if nh_has_ipv4_source i
                  then Ok (set_cache i (neigh_limit_rate (if_cache i) now), [FArpReq ETH_BROADCAST t], DPending)
                  else Ok (i, [], DNoRoute)
                else Ok (set_cache i (neigh_limit_rate (if_cache i) now), [], DPending)
            | V6 t =>
                match hw_multicast i (V6 (v6_solicited_node t)) with
                | Some h => Ok (set_cache i (neigh_limit_rate (if_cache i) now), [FNs h t], DPending)
                | None => Panic
                end
            end
        end
    end.

(* InterfaceInner::dispatch_ip, addressing part: the packet (identified by [tag]) leaves for the
   looked-up hardware address or not at all *)
Definition nh_dispatch_ip (i : iface) (dst : ipaddr) (tag : Z) (now : Z)
  : outcome (iface * list frame * dispatch_result) :=
  if ip_is_unspecified dst then Panic
  else
    do '(i', fr, r) <- nh_lookup_hardware_addr i dst now;
    match r with
    | DSend h => Ok (i', fr ++ [FIp h dst tag], r)
    | _ => Ok (i', fr, r)
    end.

(* ---------- ingress: what may fill or refresh the cache ---------- *)

Definition TAG_ECHO_REPLY : Z := -1.
Definition TAG_NA : Z := -2.

(* a response packet handed to dispatch_ip by the ingress path; failure is only logged *)
Definition nh_respond (i : iface) (dst : ipaddr) (tag : Z) (now : Z) : outcome (iface * list frame) :=
  do '(i', fr, _) <- nh_dispatch_ip i dst tag now; Ok (i', fr).

(* InterfaceInner::process_arp (Ethernet only) *)
Definition nh_process_arp (i : iface) (now : Z) (op sha spa tpa : Z) : iface * list frame :=
  if negb (nh_has_ip_addr i (V4 tpa)) then (i, [])
  else if negb ((op =? 1) || (op =? 2)) then (i, [])
  else if negb (v4_x_is_unicast spa) || negb (eth_is_unicast sha) then (i, [])
  else if negb (nh_in_same_network i (V4 spa)) then (i, [])
  else
    let i' := set_cache i (neigh_fill (if_cap i) (if_cache i) (V4 spa) sha now) in
    if op =? 1 then (i', [FArpRep sha spa]) else (i', []).

(* InterfaceInner::process_ipv4 for an unfragmented ICMPv4 echo request that no raw/DHCP socket
   takes: source filter, destination filter, cache refresh, auto echo reply (icmpv4_reply) *)
Definition nh_process_ipv4_echo (i : iface) (now : Z) (shw src dst : Z) (l4ok : bool) : outcome (iface * list frame) :=
  if negb (nh_is_unicast_v4 i src) && negb (v4_is_unspecified src) then Ok (i, [])
  else if negb (nh_has_ip_addr i (V4 dst)) && negb (nh_has_multicast_group i (V4 dst))
          && negb (nh_is_broadcast_v4 i dst) then Ok (i, [])
  else
    let i1 := if nh_is_unicast_v4 i dst
              then set_cache i (neigh_reset_expiry_if_existing (if_cache i) (V4 src) shw now)
              else i in
    if negb l4ok then Ok (i1, [])   (* Icmpv4Repr::parse rejects the checksum - after the cache refresh *)
    else if negb (nh_is_unicast_v4 i1 src) then Ok (i1, [])
    else if nh_is_unicast_v4 i1 dst then nh_respond i1 (V4 src) TAG_ECHO_REPLY now
    else if nh_is_broadcast_v4 i1 dst then
      if nh_has_ipv4_source i1 then nh_respond i1 (V4 src) TAG_ECHO_REPLY now else Ok (i1, [])
    else Ok (i1, []).

Inductive v6payload :=
| P6Echo
| P6Na (target : Z) (lladdr : option Z) (override : bool)
| P6Ns (target : Z) (lladdr : option Z)
| P6Bad.      (* ICMPv6 message whose checksum the interface verifies and rejects (Icmpv6Repr::parse fails) *)

(* RawHardwareAddress::parse(medium) of a link-layer address option succeeds iff the option carries
   6 octets on Ethernet, 8 octets (an extended address) on 802.15.4; otherwise `check!` abandons the
   packet.  In the Z encoding of hardware addresses: *)
Definition hw_option_ok (i : iface) (l : Z) : bool :=
  (0 <=? l) && (l <? (if if_ether i then 2 ^ 48 else 2 ^ 64)).

(* InterfaceInner::process_ndisc, NeighborAdvert / NeighborSolicit arms *)
Definition nh_process_ndisc (i : iface) (now : Z) (src dst : Z) (p : v6payload) : outcome (iface * list frame) :=
  match p with
  | P6Echo | P6Bad => Ok (i, [])
  | P6Na target lladdr override =>
      match lladdr with
      | Some l =>
          if negb (hw_option_ok i l) then Ok (i, [])
          else if negb (hw_is_unicast i l) || negb (v6_x_is_unicast target) then Ok (i, [])
          else if override || negb (answer_found (neigh_lookup (if_cache i) (V6 src) now))
          then Ok (set_cache i (neigh_fill (if_cap i) (if_cache i) (V6 src) l now), [])
          else Ok (i, [])
      | None => Ok (i, [])
      end
  | P6Ns target lladdr =>
      if negb (v6_x_is_unicast target) then Ok (i, []) else
      let filled :=
        match lladdr with
        | Some l =>
            if negb (hw_option_ok i l) then None
            else if negb (hw_is_unicast i l) then None
            else Some (set_cache i (neigh_fill (if_cap i) (if_cache i) (V6 src) l now))
        | None => Some i
        end in
      match filled with
      | None => Ok (i, [])
      | Some i1 =>
          if (nh_has_solicited_node i1 dst || nh_has_ip_addr i1 (V6 dst)) && nh_has_ip_addr i1 (V6 target)
          then nh_respond i1 (V6 src) TAG_NA now
          else Ok (i1, [])
      end
  end.

(* InterfaceInner::process_ipv6 for an ICMPv6 echo request / NA / NS without extension headers *)
Definition nh_process_ipv6 (i : iface) (now : Z) (shw src dst hop : Z) (p : v6payload) : outcome (iface * list frame) :=
  if negb (v6_x_is_unicast src) then Ok (i, [])
  else if negb (nh_has_ip_addr i (V6 dst)) && negb (nh_has_multicast_group i (V6 dst)) then Ok (i, [])
  else
    let i1 := if v6_x_is_unicast dst
              then set_cache i (neigh_reset_expiry_if_existing (if_cache i) (V6 src) shw now)
              else i in
    match p with
    | P6Echo => nh_respond i1 (V6 src) TAG_ECHO_REPLY now
    | P6Bad => Ok (i1, [])        (* the cache refresh above precedes the ICMPv6 checksum verification *)
    | _ => if hop =? 255 then nh_process_ndisc i1 now src dst p else Ok (i1, [])
    end.

Inductive rxframe :=
| RxArp (edst : Z) (op sha spa tpa : Z)
| RxV4Echo (edst esrc src dst : Z)
| RxV6 (edst esrc src dst hop : Z) (p : v6payload)
(* an IEEE 802.15.4 data frame carrying an (IPHC-compressed) IPv6 packet; panok = the destination
   PAN id is ours or the broadcast PAN, or no PAN id is configured *)
| Rx154 (panok : bool) (ldst lsrc src dst hop : Z) (p : v6payload)
(* an ICMPv4 echo request whose ICMP checksum the interface verifies and rejects *)
| RxV4Bad (edst esrc src dst : Z)
(* a frame that does not parse beyond the Ethernet header (e.g. rejected IPv4 header checksum) *)
| RxJunk (edst : Z).

Definition rx_edst (f : rxframe) : Z :=
  match f with
  | RxArp e _ _ _ _ => e | RxV4Echo e _ _ _ => e | RxV6 e _ _ _ _ _ => e | Rx154 _ e _ _ _ _ _ => e
  | RxV4Bad e _ _ _ => e | RxJunk e => e
  end.

(* InterfaceInner::process_ethernet: frames for another station are ignored; an IP datagram in a
   link-layer broadcast / multicast frame is discarded unless its IP destination is broadcast /
   multicast (RFC 1122 3.3.6) *)
Definition nh_process_ethernet (i : iface) (now : Z) (f : rxframe) : outcome (iface * list frame) :=
  let e := rx_edst f in
  if negb (eth_is_broadcast e) && negb (eth_is_multicast e) && negb (e =? if_hw i) then Ok (i, [])
  else
    let link_unicast := eth_is_unicast e in
    match f with
    | RxArp _ op sha spa tpa => Ok (nh_process_arp i now op sha spa tpa)
    | RxV4Echo _ esrc src dst =>
        if negb link_unicast && negb (v4_is_multicast dst) && negb (nh_is_broadcast_v4 i dst) then Ok (i, [])
        else nh_process_ipv4_echo i now esrc src dst true
    | RxV4Bad _ esrc src dst =>
        if negb link_unicast && negb (v4_is_multicast dst) && negb (nh_is_broadcast_v4 i dst) then Ok (i, [])
        else nh_process_ipv4_echo i now esrc src dst false
    | RxV6 _ esrc src dst hop p =>
        if negb link_unicast && negb (v6_is_multicast dst) then Ok (i, [])
        else nh_process_ipv6 i now esrc src dst hop p
    | Rx154 _ _ _ _ _ _ _ => Ok (i, [])      (* not an Ethernet frame *)
    | RxJunk _ => Ok (i, [])
    end.

(* InterfaceInner::process_ieee802154 + process_sixlowpan for an unfragmented data frame: only the PAN
   id is filtered (NOT the destination hardware address); an IPv6 datagram in a link-layer
   broadcast frame must have a multicast destination *)
Definition nh_process_ieee802154 (i : iface) (now : Z) (f : rxframe) : outcome (iface * list frame) :=
  match f with
  | Rx154 panok ldst lsrc src dst hop p =>
      if negb panok then Ok (i, [])
      else if (ldst =? IEEE_BROADCAST) && negb (v6_is_multicast dst) then Ok (i, [])
      else nh_process_ipv6 i now lsrc src dst hop p
  | _ => Ok (i, [])
  end.

(* socket_ingress: by medium *)
Definition nh_process_rx (i : iface) (now : Z) (f : rxframe) : outcome (iface * list frame) :=
  if if_ether i then nh_process_ethernet i now f else nh_process_ieee802154 i now f.

(* Interface::set_hardware_addr: check_hardware_addr panics for a non-unicast address; the neighbor
   cache is kept *)
Definition nh_set_hardware_addr (i : iface) (hw : Z) : outcome iface :=
  if hw_is_unicast i hw
  then Ok (mkIface (if_ether i) hw (if_cap i) (if_addrs i) (if_routes i) (if_cache i))
  else Panic.

(* Interface::update_ip_addrs: new address list, neighbor cache flushed *)
Definition nh_update_ip_addrs (i : iface) (l : list cidr) : iface :=
  mkIface (if_ether i) (if_hw i) (if_cap i) l (if_routes i) (neigh_flush (if_cache i)).

(* ---------- sockets + Interface::poll (correspondence stream `neigh`) ---------- *)

Record sock := mkSock {
  sk_kind : Z;                        (* 0 udp, 1 icmp, 2 raw *)
  sk_meta : neighbor_state;
  sk_q : list (ipaddr * Z) }.         (* tx FIFO: destination, tag *)

Record sim := mkSim {
  sim_if : iface;
  sim_qcap : Z;                       (* packet slots of every socket's tx buffer *)
  sim_rcap : Z;                       (* IFACE_MAX_ROUTE_COUNT *)
  sim_socks : list sock;
  sim_rx : list rxframe;              (* device rx queue, oldest first *)
  sim_txb : option Z }.               (* frames the device accepts per poll (None = unlimited) *)

Definition sim_init (ether : bool) (hw cap rcap qcap : Z) (kinds : list Z) : sim :=
  mkSim (nh_init ether hw cap) qcap rcap (map (fun k => mkSock k Active []) kinds) [] None.

(* device back-pressure (svh::dev::QDev::tx_budget): with budget 0 neither receive() nor transmit()
   hands out a token; every transmitted frame takes one (saturating) *)
Definition bud_empty (b : option Z) : bool :=
  match b with Some n => n <=? 0 | None => false end.
Definition bud_take (b : option Z) (n : nat) : option Z :=
  match b with Some x => Some (Z.max 0 (x - Z.of_nat n)) | None => None end.

(* udp/icmp/raw Socket::poll_at *)
Definition sock_poll_at (s : sock) : poll_at :=
  match sk_q s with [] => PollIngress | _ => PollNow end.

(* one socket's turn inside socket_egress.  Returns interface, socket, frames, "a packet was
   dispatched successfully" *)
Definition sim_sock_egress (i : iface) (s : sock) (now : Z) : outcome (iface * sock * list frame * bool) :=
  let '(permitted, m1) := meta_egress_permitted (sk_meta s) now (nh_has_neighbor i now) in
  let s1 := mkSock (sk_kind s) m1 (sk_q s) in
  if negb permitted then Ok (i, s1, [], false)
  else
    match sk_q s with
    | [] => Ok (i, s1, [], false)
    | (dst, tag) :: rest =>
        (* udp / icmp: no source address for an IPv4 destination -> packet dropped by the socket *)
        if ((sk_kind s <? 2) && (match dst with V4 _ => true | V6 _ => false end) && negb (nh_has_ipv4_source i))
           || (negb (sk_kind s <? 2) && ip_is_unspecified dst)   (* raw: unspecified destination dropped *)
        then Ok (i, mkSock (sk_kind s) m1 rest, [], false)
        else
          do '(i', fr, r) <- nh_dispatch_ip i dst tag now;
          match r with
          | DSend _ => Ok (i', mkSock (sk_kind s) m1 rest, fr, true)
          | _ => Ok (i', mkSock (sk_kind s) (meta_neighbor_missing now dst) (sk_q s), fr, false)
          end
    end.

(* would this socket's turn reach `device.transmit()`?  Some s1 = yes (s1: the socket after
   egress_permitted, which may already have cleared the back-off), None = no *)
Definition sim_sock_wants_token (i : iface) (s : sock) (now : Z) : option sock :=
  let '(permitted, m1) := meta_egress_permitted (sk_meta s) now (nh_has_neighbor i now) in
  if negb permitted then None
  else
    match sk_q s with
    | [] => None
    | (dst, tag) :: rest =>
        if ((sk_kind s <? 2) && (match dst with V4 _ => true | V6 _ => false end) && negb (nh_has_ipv4_source i))
           || (negb (sk_kind s <? 2) && ip_is_unspecified dst)
        then None
        else Some (mkSock (sk_kind s) m1 (sk_q s))
    end.

(* Interface::socket_egress: every socket once, in handle order; `transmit()` returning None
   (EgressError::Exhausted) ends the pass: nothing is looked up, armed or dequeued *)
Fixpoint sim_socket_egress (i : iface) (ss : list sock) (now : Z) (b : option Z)
  : outcome (iface * list sock * list frame * bool * option Z) :=
  match ss with
  | [] => Ok (i, [], [], false, b)
  | s :: rest =>
      match (if bud_empty b then sim_sock_wants_token i s now else None) with
      | Some s1 => Ok (i, s1 :: rest, [], false, b)
      | None =>
          do '(i1, s1, f1, b1) <- sim_sock_egress i s now;
          do '(i2, r2, f2, b2, bd) <- sim_socket_egress i1 rest now (bud_take b (length f1));
          Ok (i2, s1 :: r2, f1 ++ f2, b1 || b2, bd)
      end
  end.

(* the `loop { match poll_egress() { None => break, .. } }` of Interface::poll.  Every repeated
   pass has dequeued at least one packet, so fuel = 1 + number of queued packets suffices. *)
Fixpoint sim_egress_loop (fuel : nat) (i : iface) (ss : list sock) (now : Z) (b : option Z)
  : outcome (iface * list sock * list frame) :=
  match fuel with
  | O => Ok (i, ss, [])
  | S fuel' =>
      do '(i1, ss1, f1, again, b1) <- sim_socket_egress i ss now b;
      if again then
        do '(i2, ss2, f2) <- sim_egress_loop fuel' i1 ss1 now b1;
        Ok (i2, ss2, f1 ++ f2)
      else Ok (i1, ss1, f1)
  end.

(* the ingress loop of Interface::poll: frames stay in the device while it has no tx budget *)
Fixpoint sim_ingress (i : iface) (rx : list rxframe) (now : Z) (b : option Z)
  : outcome (iface * list frame * list rxframe * option Z) :=
  match rx with
  | [] => Ok (i, [], [], b)
  | f :: rest =>
      if bud_empty b then Ok (i, [], rx, b)
      else
        do '(i1, f1) <- nh_process_rx i now f;
        do '(i2, f2, lft, b2) <- sim_ingress i1 rest now (bud_take b (length f1));
        Ok (i2, f1 ++ f2, lft, b2)
  end.

Definition sim_queued (ss : list sock) : nat :=
  fold_right (fun s n => (length (sk_q s) + n)%nat) O ss.

(* Interface::poll *)
Definition sim_poll (st : sim) (now : Z) : outcome (sim * list frame) :=
  do '(i1, f1, lft, b1) <- sim_ingress (sim_if st) (sim_rx st) now (sim_txb st);
  do '(i2, ss2, f2) <- sim_egress_loop (S (sim_queued (sim_socks st))) i1 (sim_socks st) now b1;
  Ok (mkSim i2 (sim_qcap st) (sim_rcap st) ss2 lft (sim_txb st), f1 ++ f2).

(* Interface::poll_at over the sockets (fragmenter empty, SLAAC disabled): None = no deadline *)
Definition sim_poll_at (st : sim) (now : Z) : option Z :=
  fold_left (fun acc s =>
      match meta_poll_at (sk_meta s) (sock_poll_at s) (nh_has_neighbor (sim_if st) now) now with
      | PollIngress => acc
      | PollNow => Some (match acc with Some a => Z.min a 0 | None => 0 end)
      | PollTime t => Some (match acc with Some a => Z.min a t | None => t end)
      end) (sim_socks st) None.

Inductive sim_ev :=
| SAddrs (l : list cidr)
| SSend (s : nat) (dst : ipaddr) (tag : Z)
| SRx (f : rxframe)
| SRtDef4 (gw : Z)
| SRtDef6 (gw : Z)
| SRtRmDef4
| SRtRmDef6
| SRtPush (r : route)
| SRtRm (idx : nat)
| SRtClear
| SSetHw (hw : Z)
| STxb (b : option Z)
| SPoll (now : Z).

Fixpoint list_update {A} (l : list A) (n : nat) (f : A -> A) : list A :=
  match l, n with
  | [], _ => []
  | x :: r, O => f x :: r
  | x :: r, S n' => x :: list_update r n' f
  end.

Fixpoint list_remove_nth {A} (l : list A) (n : nat) : list A :=
  match l, n with
  | [], _ => []
  | _ :: r, O => r
  | x :: r, S n' => x :: list_remove_nth r n'
  end.

Definition sim_set_if (st : sim) (i : iface) : sim :=
  mkSim i (sim_qcap st) (sim_rcap st) (sim_socks st) (sim_rx st) (sim_txb st).

(* one event of the stream: new state, frames put on the wire, return value (1 ok / 0 refused) *)
Definition sim_step (st : sim) (e : sim_ev) : outcome (sim * list frame * Z) :=
  match e with
  | SAddrs l => Ok (sim_set_if st (nh_update_ip_addrs (sim_if st) l), [], 1)
  | SSend n dst tag =>
      match nth_error (sim_socks st) n with
      | None => Ok (st, [], 0)
      | Some s =>
          if (sk_kind s <? 2) && ip_is_unspecified dst then Ok (st, [], 0)   (* udp/icmp send: Unaddressable *)
          else
          if Z.of_nat (length (sk_q s)) <? sim_qcap st
          then Ok (mkSim (sim_if st) (sim_qcap st) (sim_rcap st)
                         (list_update (sim_socks st) n
                            (fun s => mkSock (sk_kind s) (sk_meta s) (sk_q s ++ [(dst, tag)])))
                         (sim_rx st) (sim_txb st), [], 1)
          else Ok (st, [], 0)
      end
  | SRx f => Ok (mkSim (sim_if st) (sim_qcap st) (sim_rcap st) (sim_socks st) (sim_rx st ++ [f]) (sim_txb st), [], 1)
  | SRtDef4 gw =>
      let '(r, ok) := route_add_default_ipv4_route (sim_rcap st) (if_routes (sim_if st)) gw in
      Ok (sim_set_if st (set_routes (sim_if st) r), [], if ok then 1 else 0)
  | SRtDef6 gw =>
      let '(r, ok) := route_add_default_ipv6_route (sim_rcap st) (if_routes (sim_if st)) gw in
      Ok (sim_set_if st (set_routes (sim_if st) r), [], if ok then 1 else 0)
  | SRtRmDef4 =>
      Ok (sim_set_if st (set_routes (sim_if st) (route_remove_default_ipv4_route (if_routes (sim_if st)))), [], 1)
  | SRtRmDef6 =>
      Ok (sim_set_if st (set_routes (sim_if st) (route_remove_default_ipv6_route (if_routes (sim_if st)))), [], 1)
  | SRtPush r =>
      let '(l, ok) := route_push (sim_rcap st) (if_routes (sim_if st)) r in
      Ok (sim_set_if st (set_routes (sim_if st) l), [], if ok then 1 else 0)
  | SRtRm idx =>
      Ok (sim_set_if st (set_routes (sim_if st) (list_remove_nth (if_routes (sim_if st)) idx)), [], 1)
  | SRtClear => Ok (sim_set_if st (set_routes (sim_if st) []), [], 1)
  | SSetHw hw => do i' <- nh_set_hardware_addr (sim_if st) hw; Ok (sim_set_if st i', [], 1)
  | STxb b => Ok (mkSim (sim_if st) (sim_qcap st) (sim_rcap st) (sim_socks st) (sim_rx st) b, [], 1)
  | SPoll now =>
      do '(st', fr) <- sim_poll st now; Ok (st', fr, 1)
  end.

Definition sim_qlens (st : sim) : list Z := map (fun s => Z.of_nat (length (sk_q s))) (sim_socks st).
