(* Executable model of smoltcp::wire::tcp (src/wire/tcp.rs): Packet accessors, check_len,
   TcpOption::{parse, buffer_len, emit}, the option walks (Repr::parse, options_summary,
   selective_ack_permitted, selective_ack_ranges), verify_checksum / fill_checksum (arithmetic
   abstracted), Repr::{parse, header_len, buffer_len, emit}.

   Checksum parameters (Section variables, property C08), for the (src, dst) pair of the call:
     [sum_ok d]   = `combine(&[pseudo_header(src, dst, Tcp, len), data(d)]) == !0`
     [sum_fill d] = `!combine(...)`                                  over the whole buffer d.

   Representation: sequence numbers are the u32 view of `SeqNumber(i32)`; [tcp_control] is
   0 None, 1 Psh, 2 Syn, 3 Fin, 4 Rst; the `[Option<(u32, u32)>; 3]` SACK array is three option
   fields.

   Loops.  The option walks are `while !options.is_empty() { (next, opt) = TcpOption::parse(options)?; … }`.
   They are modelled with fuel = number of remaining octets and answer [Panic] when the fuel is
   exhausted before the slice is: non-termination of the Rust loop is thereby a [Panic] of the
   model, and the C07 theorems (never [Panic]) include termination.  Every `TcpOption::parse`
   consumes at least one octet (kinds 0/1: one; others: `length >= 2`, because
   `buffer.get(2..length)` fails for length < 2), which is what the fuel argument uses.

   Panic sources: slice indexing, `buffer[i]` in TcpOption::emit, copy_from_slice.  u8/u16
   casts and shifts wrap ([mod]).  No proofs in this file. *)
From SV Require Import Lib.Base Gen.WireFields Gen.Consts Model.WireBase.

Record tcp_repr := mkTcp {
  tcp_sport : Z; tcp_dport : Z;
  tcp_control : Z;
  tcp_seq : Z;
  tcp_ack : option Z;
  tcp_window : Z;
  tcp_wscale : option Z;
  tcp_mss : option Z;
  tcp_sack_permitted : bool;
  tcp_sack0 : option (Z * Z); tcp_sack1 : option (Z * Z); tcp_sack2 : option (Z * Z);
  tcp_ts : option (Z * Z);
  tcp_payload : list Z }.

Definition tcp_CTL_NONE : Z := 0.
Definition tcp_CTL_PSH : Z := 1.
Definition tcp_CTL_SYN : Z := 2.
Definition tcp_CTL_FIN : Z := 3.
Definition tcp_CTL_RST : Z := 4.

Definition tcp_HEADER_LEN : Z := snd wtcp_f_URGENT.

(* ---------- accessors ---------- *)
Definition tcp_src_port (bs : list Z) : outcome Z := wb_get_u16 bs wtcp_f_SRC_PORT.
Definition tcp_dst_port (bs : list Z) : outcome Z := wb_get_u16 bs wtcp_f_DST_PORT.
Definition tcp_seq_number (bs : list Z) : outcome Z := wb_get_u32 bs wtcp_f_SEQ_NUM.
Definition tcp_ack_number (bs : list Z) : outcome Z := wb_get_u32 bs wtcp_f_ACK_NUM.
Definition tcp_flags (bs : list Z) : outcome Z := wb_get_u16 bs wtcp_f_FLAGS.
Definition tcp_flag (m : Z) (bs : list Z) : outcome bool :=
  do raw <- tcp_flags bs; Ok (negb (Z.land raw m =? 0)).
Definition tcp_fin := tcp_flag wtcp_FLG_FIN.
Definition tcp_syn := tcp_flag wtcp_FLG_SYN.
Definition tcp_rst := tcp_flag wtcp_FLG_RST.
Definition tcp_psh := tcp_flag wtcp_FLG_PSH.
Definition tcp_ack_ := tcp_flag wtcp_FLG_ACK.
Definition tcp_urg := tcp_flag wtcp_FLG_URG.
Definition tcp_ece := tcp_flag wtcp_FLG_ECE.
Definition tcp_cwr := tcp_flag wtcp_FLG_CWR.
Definition tcp_ns := tcp_flag wtcp_FLG_NS.
(* ((raw >> 12) * 4) as u8 *)
Definition tcp_header_len_ (bs : list Z) : outcome Z :=
  do raw <- tcp_flags bs; Ok ((Z.shiftr raw 12 * 4) mod 256).
Definition tcp_window_len (bs : list Z) : outcome Z := wb_get_u16 bs wtcp_f_WIN_SIZE.
Definition tcp_checksum (bs : list Z) : outcome Z := wb_get_u16 bs wtcp_f_CHECKSUM.
Definition tcp_urgent_at (bs : list Z) : outcome Z := wb_get_u16 bs wtcp_f_URGENT.
(* data[field::OPTIONS(header_len)] = data[20..header_len] *)
Definition tcp_options (bs : list Z) : outcome (list Z) :=
  do hl <- tcp_header_len_ bs; wb_sub bs (snd wtcp_f_URGENT) hl.
Definition tcp_payload_ (bs : list Z) : outcome (list Z) :=
  do hl <- tcp_header_len_ bs; wb_from bs hl.
(* segment_len: data.len() - header_len (usize subtraction) + syn + fin *)
Definition tcp_segment_len (bs : list Z) : outcome Z :=
  do hl <- tcp_header_len_ bs;
  do _ <- wb_assert (hl <=? blen bs);
  do s <- tcp_syn bs; do f <- tcp_fin bs;
  Ok (blen bs - hl + (if s then 1 else 0) + (if f then 1 else 0)).

(* Packet::check_len *)
Definition tcp_check_len (bs : list Z) : outcome unit :=
  if blen bs <? snd wtcp_f_URGENT then Err 0
  else
    do hl <- tcp_header_len_ bs;
    if (blen bs <? hl) || (hl <? snd wtcp_f_URGENT) then Err 0 else Ok tt.

(* ---------- TcpOption ---------- *)
Inductive tcp_option :=
| OptEnd | OptNop
| OptMss (v : Z) | OptWs (v : Z) | OptSackPerm
| OptSackRange (r0 r1 r2 : option (Z * Z))
| OptTs (tsval tsecr : Z)
| OptUnknown (kind : Z) (data : list Z).

(* one element of the sack_ranges array: `if left < data.len() { Some((read_u32, read_u32)) } else { None }` *)
Definition tcp_sack_slot (data : list Z) (i : Z) : outcome (option (Z * Z)) :=
  let left := i * 8 in
  if left <? blen data then
    do a <- wb_get_be data left (left + 4) 4;
    do b <- wb_get_be data (left + 4) (left + 8) 4;
    Ok (Some (a, b))
  else Ok None.

(* TcpOption::parse: (rest, option) *)
Definition tcp_option_parse (buf : list Z) : outcome (list Z * tcp_option) :=
  match buf with
  | [] => Err 0                                             (* buffer.first().ok_or(Error)? *)
  | kind :: _ =>
      if kind =? wtcp_OPT_END then do r <- wb_from buf 1; Ok (r, OptEnd)
      else if kind =? wtcp_OPT_NOP then do r <- wb_from buf 1; Ok (r, OptNop)
      else
        match nth_error buf 1 with
        | None => Err 0                                     (* buffer.get(1).ok_or(Error)? *)
        | Some length =>
            match wb_sub_opt buf 2 length with
            | None => Err 0                                 (* buffer.get(2..length).ok_or(Error)? *)
            | Some data =>
                do opt <-
                  (if kind =? wtcp_OPT_MSS then
                     if length =? 4 then do v <- wb_get_be data 0 (blen data) 2; Ok (OptMss v) else Err 0
                   else if kind =? wtcp_OPT_WS then
                     if length =? 3 then do v <- wb_get_u8 data 0; Ok (OptWs v) else Err 0
                   else if kind =? wtcp_OPT_SACKPERM then
                     if length =? 2 then Ok OptSackPerm else Err 0
                   else if kind =? wtcp_OPT_SACKRNG then
                     if (length <? 10) || negb ((length - 2) mod 8 =? 0) then Err 0
                     else
                       do r0 <- tcp_sack_slot data 0;
                       do r1 <- tcp_sack_slot data 1;
                       do r2 <- tcp_sack_slot data 2;
                       Ok (OptSackRange r0 r1 r2)
                   else if (kind =? wtcp_OPT_TSTAMP) && (length =? 10) then
                     do a <- wb_get_be data 0 4 4;
                     do b <- wb_get_be data 4 8 4;
                     Ok (OptTs a b)
                   else Ok (OptUnknown kind data));
                do r <- wb_from buf length;                 (* &buffer[length..] *)
                Ok (r, opt)
            end
        end
  end.

Definition tcp_sack_count (r0 r1 r2 : option (Z * Z)) : Z :=
  (if r0 then 1 else 0) + (if r1 then 1 else 0) + (if r2 then 1 else 0).

(* TcpOption::buffer_len *)
Definition tcp_option_buffer_len (o : tcp_option) : Z :=
  match o with
  | OptEnd | OptNop => 1
  | OptMss _ => 4
  | OptWs _ => 3
  | OptSackPerm => 2
  | OptSackRange r0 r1 r2 => tcp_sack_count r0 r1 r2 * 8 + 2
  | OptTs _ _ => 10
  | OptUnknown _ data => 2 + blen data
  end.

(* buffer[i] = v  inside the sub-slice data[..lim] *)
Definition tcp_set_in (b : list Z) (i lim v : Z) : outcome (list Z) :=
  if i <? lim then wb_set_u8 b i v else Panic.

(* the `.filter(is_some).enumerate()` writes of SackRange *)
Fixpoint tcp_emit_sack_slots (b : list Z) (pos lim : Z) (i : Z) (rs : list (option (Z * Z)))
  : outcome (list Z) :=
  match rs with
  | [] => Ok b
  | None :: rest => tcp_emit_sack_slots b pos lim i rest
  | Some (l, r) :: rest =>
      let p := pos + i * 8 + 2 in
      do b <- wb_put_be b p lim (be_enc4 l);
      do b <- wb_put_be b (p + 4) lim (be_enc4 r);
      tcp_emit_sack_slots b pos lim (i + 1) rest
  end.

(* TcpOption::emit into the sub-slice `buffer = data[pos..lim]` of the packet buffer [b];
   returns the buffer and the position of the returned rest `&mut buffer[length..]` *)
Definition tcp_option_emit (o : tcp_option) (b : list Z) (pos lim : Z) : outcome (list Z * Z) :=
  do b <-
    match o with
    | OptEnd => wb_fill b pos lim wtcp_OPT_END           (* for p in buffer.iter_mut() { *p = OPT_END } *)
    | OptNop => tcp_set_in b pos lim wtcp_OPT_NOP
    | _ =>
        let length := tcp_option_buffer_len o in
        do b <- tcp_set_in b (pos + 1) lim (length mod 256);
        match o with
        | OptMss v => do b <- tcp_set_in b pos lim wtcp_OPT_MSS; wb_put_be b (pos + 2) lim (be_enc2 v)
        | OptWs v => do b <- tcp_set_in b pos lim wtcp_OPT_WS; tcp_set_in b (pos + 2) lim v
        | OptSackPerm => tcp_set_in b pos lim wtcp_OPT_SACKPERM
        | OptSackRange r0 r1 r2 =>
            do b <- tcp_set_in b pos lim wtcp_OPT_SACKRNG;
            tcp_emit_sack_slots b pos lim 0 [r0; r1; r2]
        | OptTs a c =>
            do b <- tcp_set_in b pos lim wtcp_OPT_TSTAMP;
            do b <- wb_put_be b (pos + 2) lim (be_enc4 a);
            wb_put_be b (pos + 6) lim (be_enc4 c)
        | OptUnknown kind data =>
            do b <- tcp_set_in b pos lim kind;
            do _ <- wb_assert (pos + 2 <=? lim);
            wb_set_slice b (pos + 2) lim data              (* buffer[2..].copy_from_slice(provided) *)
        | _ => Ok b
        end
    end;
  (* &mut buffer[length..] *)
  do _ <- wb_assert (pos + tcp_option_buffer_len o <=? lim);
  Ok (b, pos + tcp_option_buffer_len o).

(* ---------- option walks ---------- *)
Record tcp_optsum := mkOptSum {
  os_mss : option Z; os_ws : option Z; os_sack_permitted : bool;
  os_sack0 : option (Z * Z); os_sack1 : option (Z * Z); os_sack2 : option (Z * Z);
  os_ts : option (Z * Z) }.
Definition tcp_optsum_default : tcp_optsum := mkOptSum None None false None None None None.

(* the loop body shared by Repr::parse ([clamp] = true: window scale > 14 becomes 14) and
   options_summary; the boolean says whether the loop continues ([false] = break / return) *)
Definition tcp_optsum_step (clamp : bool) (acc : tcp_optsum) (o : tcp_option) : tcp_optsum * bool :=
  match o with
  | OptEnd => (acc, false)
  | OptNop => (acc, true)
  | OptMss v => (mkOptSum (Some v) (os_ws acc) (os_sack_permitted acc) (os_sack0 acc) (os_sack1 acc) (os_sack2 acc) (os_ts acc), true)
  | OptWs v => (mkOptSum (os_mss acc) (Some (if clamp && (v >? 14) then 14 else v)) (os_sack_permitted acc) (os_sack0 acc) (os_sack1 acc) (os_sack2 acc) (os_ts acc), true)
  | OptSackPerm => (mkOptSum (os_mss acc) (os_ws acc) true (os_sack0 acc) (os_sack1 acc) (os_sack2 acc) (os_ts acc), true)
  | OptSackRange r0 r1 r2 => (mkOptSum (os_mss acc) (os_ws acc) (os_sack_permitted acc) r0 r1 r2 (os_ts acc), true)
  | OptTs a b => (mkOptSum (os_mss acc) (os_ws acc) (os_sack_permitted acc) (os_sack0 acc) (os_sack1 acc) (os_sack2 acc) (Some (a, b)), true)
  | OptUnknown _ _ => (acc, true)
  end.

(* while !options.is_empty() { let (next, opt) = TcpOption::parse(options)?; body; options = next } *)
Fixpoint tcp_walk {A : Type} (step : A -> tcp_option -> A * bool) (fuel : nat) (opts : list Z) (acc : A)
  : outcome A :=
  match opts with
  | [] => Ok acc
  | _ :: _ =>
      match fuel with
      | O => Panic                                          (* the Rust loop would not have terminated *)
      | S fuel' =>
          do ro <- tcp_option_parse opts;
          let (acc', continue) := step acc (snd ro) in
          if continue then tcp_walk step fuel' (fst ro) acc' else Ok acc'
      end
  end.

Definition tcp_options_summary (bs : list Z) : outcome tcp_optsum :=
  do o <- tcp_options bs; tcp_walk (tcp_optsum_step false) (length o) o tcp_optsum_default.
(* selective_ack_permitted: Ok(true) at the first SackPermitted, Ok(false) at the end; it does not
   stop at EndOfList *)
Definition tcp_selective_ack_permitted (bs : list Z) : outcome bool :=
  do o <- tcp_options bs;
  tcp_walk (fun (acc : bool) opt => match opt with OptSackPerm => (true, false) | _ => (acc, true) end)
           (length o) o false.
(* selective_ack_ranges: the first SackRange option, [None; 3] at the end *)
Definition tcp_selective_ack_ranges (bs : list Z) : outcome (option (Z * Z) * option (Z * Z) * option (Z * Z)) :=
  do o <- tcp_options bs;
  tcp_walk (fun acc opt => match opt with OptSackRange r0 r1 r2 => ((r0, r1, r2), false) | _ => (acc, true) end)
           (length o) o (None, None, None).

Section Checksum.
Variable sum_ok : list Z -> bool.
Variable sum_fill : list Z -> Z.

Definition tcp_verify_checksum (bs : list Z) : bool := sum_ok bs.

(* ---------- setters ---------- *)
Definition tcp_set_src_port (bs : list Z) (v : Z) := wb_put_u16 bs wtcp_f_SRC_PORT v.
Definition tcp_set_dst_port (bs : list Z) (v : Z) := wb_put_u16 bs wtcp_f_DST_PORT v.
Definition tcp_set_seq_number (bs : list Z) (v : Z) := wb_put_u32 bs wtcp_f_SEQ_NUM v.
Definition tcp_set_ack_number (bs : list Z) (v : Z) := wb_put_u32 bs wtcp_f_ACK_NUM v.
Definition tcp_clear_flags (bs : list Z) := wb_upd_u16 bs wtcp_f_FLAGS (fun raw => Z.land raw 61440).
Definition tcp_set_flag (m : Z) (bs : list Z) (v : bool) :=
  wb_upd_u16 bs wtcp_f_FLAGS (fun raw => if v then Z.lor raw m else Z.land raw (65535 - m)).
(* (raw & !0xf000) | ((value as u16) / 4) << 12 *)
Definition tcp_set_header_len (bs : list Z) (v : Z) :=
  wb_upd_u16 bs wtcp_f_FLAGS (fun raw => Z.lor (Z.land raw 4095) (Z.shiftl (v / 4) 12 mod 65536)).
Definition tcp_set_window_len (bs : list Z) (v : Z) := wb_put_u16 bs wtcp_f_WIN_SIZE v.
Definition tcp_set_checksum (bs : list Z) (v : Z) := wb_put_u16 bs wtcp_f_CHECKSUM v.
Definition tcp_set_urgent_at (bs : list Z) (v : Z) := wb_put_u16 bs wtcp_f_URGENT v.

Definition tcp_fill_checksum (bs : list Z) : outcome (list Z) :=
  do bs <- tcp_set_checksum bs 0;
  tcp_set_checksum bs (sum_fill bs).

(* ---------- Repr ---------- *)

(* Repr::parse; [rx] = checksum_caps.tcp.rx() *)
Definition tcp_parse (rx : bool) (bs : list Z) : outcome tcp_repr :=
  do _ <- tcp_check_len bs;
  do sp <- tcp_src_port bs;
  do _ <- wb_guard (negb (sp =? 0));
  do dp <- tcp_dst_port bs;
  do _ <- wb_guard (negb (dp =? 0));
  do _ <- wb_guard (negb (rx && negb (tcp_verify_checksum bs)));
  do syn <- tcp_syn bs; do fin <- tcp_fin bs; do rst <- tcp_rst bs; do psh <- tcp_psh bs;
  do control <-
    (match syn, fin, rst, psh with
     | false, false, false, false => Ok tcp_CTL_NONE
     | false, false, false, true => Ok tcp_CTL_PSH
     | true, false, false, _ => Ok tcp_CTL_SYN
     | false, true, false, _ => Ok tcp_CTL_FIN
     | false, false, true, _ => Ok tcp_CTL_RST
     | _, _, _, _ => Err 0
     end);
  do a <- tcp_ack_ bs;
  do ack_number <- (if a then do n <- tcp_ack_number bs; Ok (Some n) else Ok None);
  do opts <- tcp_options bs;
  do os <- tcp_walk (tcp_optsum_step true) (length opts) opts tcp_optsum_default;
  do seq <- tcp_seq_number bs;
  do win <- tcp_window_len bs;
  do payload <- tcp_payload_ bs;
  Ok (mkTcp sp dp control seq ack_number win (os_ws os) (os_mss os) (os_sack_permitted os)
            (os_sack0 os) (os_sack1 os) (os_sack2 os) (os_ts os) payload).

(* Repr::header_len *)
Definition tcp_repr_header_len (r : tcp_repr) : Z :=
  let l := snd wtcp_f_URGENT in
  let l := if tcp_mss r then l + 4 else l in
  let l := if tcp_wscale r then l + 3 else l in
  let l := if tcp_sack_permitted r then l + 2 else l in
  let l := if tcp_ts r then l + 10 else l in
  let srl := (if tcp_sack0 r then 8 else 0) + (if tcp_sack1 r then 8 else 0) + (if tcp_sack2 r then 8 else 0) in
  let l := if srl >? 0 then l + srl + 2 else l in
  if l mod 4 =? 0 then l else l + (4 - l mod 4).

(* Repr::buffer_len *)
Definition tcp_buffer_len (r : tcp_repr) : Z := tcp_repr_header_len r + blen (tcp_payload r).

Definition tcp_opt_step (o : option tcp_option) (st : list Z * Z) (lim : Z) : outcome (list Z * Z) :=
  match o with
  | Some opt => tcp_option_emit opt (fst st) (snd st) lim
  | None => Ok st
  end.

(* Repr::emit; [tx] = checksum_caps.tcp.tx() *)
Definition tcp_emit (tx : bool) (r : tcp_repr) (b : list Z) : outcome (list Z) :=
  do b <- tcp_set_src_port b (tcp_sport r);
  do b <- tcp_set_dst_port b (tcp_dport r);
  do b <- tcp_set_seq_number b (tcp_seq r);
  do b <- tcp_set_ack_number b (match tcp_ack r with Some a => a | None => 0 end);
  do b <- tcp_set_window_len b (tcp_window r);
  do b <- tcp_set_header_len b (tcp_repr_header_len r mod 256);
  do b <- tcp_clear_flags b;
  do b <- (if tcp_control r =? tcp_CTL_PSH then tcp_set_flag wtcp_FLG_PSH b true
           else if tcp_control r =? tcp_CTL_SYN then tcp_set_flag wtcp_FLG_SYN b true
           else if tcp_control r =? tcp_CTL_FIN then tcp_set_flag wtcp_FLG_FIN b true
           else if tcp_control r =? tcp_CTL_RST then tcp_set_flag wtcp_FLG_RST b true
           else Ok b);
  do b <- tcp_set_flag wtcp_FLG_ACK b (if tcp_ack r then true else false);
  (* let mut options = packet.options_mut(); = &mut data[20..header_len] *)
  do lim <- tcp_header_len_ b;
  do _ <- wb_sub b (snd wtcp_f_URGENT) lim;
  let st := (b, snd wtcp_f_URGENT) in
  do st <- tcp_opt_step (match tcp_mss r with Some v => Some (OptMss v) | None => None end) st lim;
  do st <- tcp_opt_step (match tcp_wscale r with Some v => Some (OptWs v) | None => None end) st lim;
  do st <- tcp_opt_step
             (if tcp_sack_permitted r then Some OptSackPerm
              else if (if tcp_ack r then true else false) &&
                      ((if tcp_sack0 r then true else false) || (if tcp_sack1 r then true else false) ||
                       (if tcp_sack2 r then true else false))
                   then Some (OptSackRange (tcp_sack0 r) (tcp_sack1 r) (tcp_sack2 r)) else None) st lim;
  do st <- tcp_opt_step (match tcp_ts r with Some (a, c) => Some (OptTs a c) | None => None end) st lim;
  (* if !options.is_empty() { TcpOption::EndOfList.emit(options); } *)
  do st <- (if snd st <? lim then tcp_option_emit OptEnd (fst st) (snd st) lim else Ok st);
  let b := fst st in
  do b <- tcp_set_urgent_at b 0;
  (* packet.payload_mut()[..self.payload.len()].copy_from_slice(self.payload) *)
  do hl <- tcp_header_len_ b;
  do pm <- wb_from b hl;
  do _ <- wb_upto pm (blen (tcp_payload r));
  do b <- wb_set_slice b hl (hl + blen (tcp_payload r)) (tcp_payload r);
  if tx then tcp_fill_checksum b else tcp_set_checksum b 0.

End Checksum.

(* Proviso of C06 for TCP ("variable-length parts fit what the protocol permits"):
   - ports, window u16; sequence / acknowledgement numbers, SACK edges, timestamps u32; MSS u16 (types);
   - src_port <> 0 and dst_port <> 0: Repr::parse rejects port 0 ("must be present");
   - control is one of the five `Control` values;
   - window scale <= 14: RFC 7323 2.3 limits the shift count to 14 and parse clamps larger values,
     so a larger value is not representable on the wire;
   - the options fit the 40 octets of TCP option space: header_len() <= 60 (the data-offset field
     has 4 bits; emit would otherwise write a wrapped header length);
   - SACK ranges only as the source can re-emit them: the `Some` entries form a prefix of the array
     (emit compacts them, parse fills the array from the front), they accompany an ACK
     (RFC 2018: SACK blocks qualify the acknowledgement number; emit drops them without one) and
     not a SACK-permitted option (RFC 2018 2: that option is sent in SYN segments only, where no
     data has been received that could be selectively acknowledged; emit writes one or the other).
     This last clause is the decision on candidate defect D15: such a Repr is outside the proviso,
     `header_len()` merely over-reserves space for it and the round trip is not claimed. *)
Definition tcp_sack_ok (r : tcp_repr) : bool :=
  match tcp_sack0 r, tcp_sack1 r, tcp_sack2 r with
  | None, None, None => true
  | _, _, _ => (if tcp_ack r then true else false) && negb (tcp_sack_permitted r)
  end.
Definition tcp_sack_prefix (r : tcp_repr) : bool :=
  match tcp_sack0 r, tcp_sack1 r, tcp_sack2 r with
  | None, Some _, _ | None, _, Some _ | Some _, None, Some _ => false
  | _, _, _ => true
  end.
Definition is_u32_pair (p : option (Z * Z)) : bool :=
  match p with Some (a, b) => is_u32 a && is_u32 b | None => true end.
Definition tcp_wf (r : tcp_repr) : bool :=
  is_u16 (tcp_sport r) && negb (tcp_sport r =? 0) && is_u16 (tcp_dport r) && negb (tcp_dport r =? 0) &&
  (0 <=? tcp_control r) && (tcp_control r <=? 4) && is_u32 (tcp_seq r) &&
  (match tcp_ack r with Some a => is_u32 a | None => true end) && is_u16 (tcp_window r) &&
  (match tcp_wscale r with Some v => (0 <=? v) && (v <=? 14) | None => true end) &&
  (match tcp_mss r with Some v => is_u16 v | None => true end) &&
  is_u32_pair (tcp_sack0 r) && is_u32_pair (tcp_sack1 r) && is_u32_pair (tcp_sack2 r) &&
  is_u32_pair (tcp_ts r) && bytes_ok (tcp_payload r) &&
  (tcp_repr_header_len r <=? 60) && tcp_sack_prefix r && tcp_sack_ok r.
