(* Executable model of the IPv4 reassembling receiver (property C12):
     iface::fragmentation::PacketAssembler  (reset, set_total_size, add, assemble, is_complete)
     iface::fragmentation::PacketAssemblerSet (get, remove_expired)      (src/iface/fragmentation.rs)
     InterfaceInner::process_ipv4, the fragment block                    (src/iface/interface/ipv4.rs)
   built on the C15 model of storage::Assembler (Model/Assembler.v).

   Configuration modelled: feature "alloc" (Buffer = Vec<u8>, grows on demand, keeps its
   contents and length across reset) -- this is what the harness crate (std) builds.  The
   capacity [n] of the Assembler (ASSEMBLER_MAX_SEGMENT_COUNT), the number of slots
   (REASSEMBLY_BUFFER_COUNT = length of the slot list) and the reassembly timeout are parameters.
   Times are integers (the unit only has to be the same for [now] and [timeout]).

   Panic sources: buffer[offset..][..len] after the resize (in range by construction);
   total_len - header_len (+ frag_offset): Ipv4Packet::check_len guarantees header_len <=
   total_len, all u16 widened to usize; total_size.unwrap() guarded by is_complete.
   No proofs in this file. *)
From SV Require Import Lib.Base Model.Assembler Model.Frag4.

(* Ipv4FragKey: (ident, src, dst, protocol) *)
Definition fkey := (Z * Z * Z * Z)%type.
Definition fkey_eqb (a b : fkey) : bool :=
  let '(a1, a2, a3, a4) := a in let '(b1, b2, b3, b4) := b in
  (a1 =? b1) && (a2 =? b2) && (a3 =? b3) && (a4 =? b4).

Record pasm := mkPa {
  pa_key : option fkey;
  pa_buffer : list Z;
  pa_asm : asm;
  pa_total : option Z;
  pa_expires : Z
}.

Definition pa_new : pasm := mkPa None [] asm_new None 0.

Definition pa_reset (p : pasm) : pasm :=
  mkPa None (pa_buffer p) (asm_clear (pa_asm p)) None 0.

(* Vec::resize(size, 0) when shorter *)
Definition pa_grow (buf : list Z) (size : Z) : list Z :=
  if zlen buf <? size then buf ++ repeat 0 (Z.to_nat (size - zlen buf)) else buf.

(* set_total_size: None = Err(AssemblerError) *)
Definition pa_set_total_size (p : pasm) (size : Z) : option pasm :=
  match pa_total p with
  | Some old_size =>
      if negb (old_size =? size) then None
      else Some (mkPa (pa_key p) (pa_grow (pa_buffer p) size) (pa_asm p) (Some size) (pa_expires p))
  | None => Some (mkPa (pa_key p) (pa_grow (pa_buffer p) size) (pa_asm p) (Some size) (pa_expires p))
  end.

(* add: always Ok with "alloc"; the result of Assembler::add is ignored by the source *)
Definition pa_add (n : Z) (p : pasm) (data : list Z) (offset : Z) : pasm :=
  let buf := pa_grow (pa_buffer p) (offset + zlen data) in
  mkPa (pa_key p) (f4_write buf offset data)
       (fst (asm_add n (pa_asm p) offset (zlen data))) (pa_total p) (pa_expires p).

Definition pa_is_complete (p : pasm) : bool :=
  match pa_total p with
  | Some t => t =? asm_peek_front (pa_asm p)
  | None => false
  end.

(* assemble: Some payload and the slot is reset, or None and nothing changes *)
Definition pa_assemble (p : pasm) : pasm * option (list Z) :=
  if pa_is_complete p then
    match pa_total p with
    | Some total_size => (pa_reset p, Some (firstn (Z.to_nat total_size) (pa_buffer p)))
    | None => (p, None)
    end
  else (p, None).

Definition pa_is_free (p : pasm) : bool :=
  match pa_key p with None => true | Some _ => false end.

Definition pa_has_key (k : fkey) (p : pasm) : bool :=
  match pa_key p with Some k' => fkey_eqb k' k | None => false end.

(* ---- PacketAssemblerSet ---- *)
Definition paset := list pasm.

Definition pas_new (slots : nat) : paset := repeat pa_new slots.

(* the scan of get(): first slot with the key wins; otherwise the LAST free slot *)
Fixpoint pas_find (k : fkey) (s : paset) (i : nat) (empty_slot : option nat) : option nat :=
  match s with
  | [] => empty_slot
  | p :: rest =>
      if pa_has_key k p then Some i
      else pas_find k rest (S i) (if pa_is_free p then Some i else empty_slot)
  end.

Fixpoint pas_update (s : paset) (i : nat) (p : pasm) : paset :=
  match s, i with
  | [], _ => []
  | _ :: rest, O => p :: rest
  | q :: rest, S j => q :: pas_update rest j p
  end.

(* get: None = Err(AssemblerFullError); Some (index of the slot, set with that slot claimed) *)
Definition pas_get (s : paset) (k : fkey) (expires_at : Z) : option (nat * paset) :=
  match pas_find k s O None with
  | None => None
  | Some i =>
      let p := nth i s pa_new in
      if pa_has_key k p then Some (i, s)
      else Some (i, pas_update s i
                      (mkPa (Some k) (pa_buffer p) (pa_asm p) (pa_total p) expires_at))
  end.

Definition pas_remove_expired (s : paset) (timestamp : Z) : paset :=
  map (fun p => if negb (pa_is_free p) && (pa_expires p <? timestamp) then pa_reset p else p) s.

(* ---- process_ipv4, fragment block ---- *)
(* a received IPv4 packet reduced to what that block reads: key, frag_offset() in octets,
   more_frags(), payload() *)
Record frag_in := mkFi { fi_key : fkey; fi_offset : Z; fi_mf : bool; fi_payload : list Z }.

(* returns the new set and the ip_payload handed on to the protocol dispatch (None = the
   function returned without delivering anything) *)
Definition rs_process_ipv4 (n timeout now : Z) (s : paset) (f : frag_in)
  : paset * option (list Z) :=
  if fi_mf f || negb (fi_offset f =? 0) then
    match pas_get s (fi_key f) (now + timeout) with
    | None => (s, None)
    | Some (i, s1) =>
        let p := nth i s1 pa_new in
        match (if negb (fi_mf f)
               then pa_set_total_size p (zlen (fi_payload f) + fi_offset f)
               else Some p) with
        | None => (s1, None)
        | Some p1 =>
            let p2 := pa_add n p1 (fi_payload f) (fi_offset f) in
            let '(p3, r) := pa_assemble p2 in
            (pas_update s1 i p3, r)
        end
    end
  else (s, Some (fi_payload f)).

(* one Interface::poll at time [now] with one received packet: poll_maintenance expires
   slots first *)
Definition rs_poll (n timeout now : Z) (s : paset) (f : frag_in) : paset * option (list Z) :=
  rs_process_ipv4 n timeout now (pas_remove_expired s now) f.

(* a whole arrival history: (time, packet) list -> what was delivered at each arrival *)
Fixpoint rs_run (n timeout : Z) (s : paset) (arr : list (Z * frag_in))
  : paset * list (option (list Z)) :=
  match arr with
  | [] => (s, [])
  | (t, f) :: rest =>
      let '(s1, r) := rs_poll n timeout t s f in
      let '(s2, rs) := rs_run n timeout s1 rest in
      (s2, r :: rs)
  end.
