(* Executable model of the part of Interface::poll that orders IPv4 fragment egress against
   socket egress and ingress-triggered replies (property C12, "back to back"):
     Interface::poll            ingress loop, then poll_egress until it reports no change
     Interface::socket_ingress  one received packet -> at most one reply through dispatch_ip
     Interface::poll_egress     ipv4_egress (one pending fragment) BEFORE socket_egress
     Interface::socket_egress   sockets in handle order, one packet each; while the fragmenter is
                                not finished every socket packet stays queued
                                (EgressError::FragmenterBusy); device exhaustion breaks the loop
     InterfaceInner::next_ipv4_frag_ident   one ident per dispatch_ip call, wrapping u16
   (src/iface/interface/mod.rs, ipv4.rs).

   Link-layer destination (Ethernet): dispatch_ip resolves the hardware address of the packet's
   next hop before anything else (lookup_hardware_addr); the packet it emits itself (whole
   packet or first fragment) goes to that address, and ONLY on the path that starts a fragment
   train -- after the "buffer too small" and "fragmenter busy" drops -- is it stored in
   Ipv4Fragmenter::dst_hardware_addr, from where dispatch_ipv4_frag addresses the later
   fragments; Fragmenter::reset clears it.  A datagram is therefore a pair (resolved link-layer
   address, IP payload) and an emitted frame a pair (link-layer destination, packet).

   Abstractions: a socket is the queue of IP payloads it will hand to dispatch_ip (UDP, ICMP and
   raw sockets all dequeue one packet per socket_egress pass and keep it when the emit closure
   fails); a received packet that triggers a reply (echo request) is represented by the reply's
   IP payload; the device is a budget of frames it still accepts (None = unlimited;
   receive()/transmit() hand out no token at 0, a token that is consumed costs 1).
   Not modelled: neighbor discovery (the destination's hardware address is known), SLAAC and
   multicast egress (they run between ipv4_egress and socket_egress and never use the
   fragmenter for IPv4), TCP sockets (segments never exceed the MTU).
   No proofs in this file. *)
From SV Require Import Lib.Base Model.Frag4.

(* (link-layer address resolved for the next hop, IP payload) *)
Definition dgram := (Z * list Z)%type.
(* (link-layer destination, packet) *)
Definition frame := (Z * ip4pkt)%type.
Definition eg_hw_default : Z := 0.   (* EthernetAddress::default() *)
Definition frame_is_fragment (f : frame) : bool := p_is_fragment (snd f).

Record egress := mkEg {
  eg_fr : fragmenter;
  eg_hw : Z;                        (* Fragmenter::ipv4.dst_hardware_addr *)
  eg_id : Z;                        (* InterfaceInner::ipv4_id *)
  eg_socks : list (list dgram);     (* per socket (handle order): queued datagrams *)
  eg_rx : list dgram                (* device rx queue: the reply each pending request triggers *)
}.

Definition budget := option Z.
Definition bud_has (b : budget) : bool := match b with Some k => 0 <? k | None => true end.
Definition bud_dec (b : budget) : budget := match b with Some k => Some (k - 1) | None => None end.

Definition eg_next_id (id : Z) : Z := (id + 1) mod 65536.

Definition eg_needs_frag (ip_mtu : Z) (payload : list Z) : bool :=
  f4_hdr + zlen payload >? ip_mtu.

(* dispatch_ip with the link-layer side: what it emits goes to the address resolved for this
   packet; the fragmenter's stored address changes only when a train is started *)
Definition eg_dispatch_ip (ip_mtu ident : Z) (fr : fragmenter) (hwst : Z) (d : dgram)
  : fragmenter * Z * list frame * dip_result :=
  let '(fr', out, r) := f4_dispatch_ip ip_mtu ident fr (snd d) in
  (fr', match r with DipFragStarted => fst d | _ => hwst end, map (pair (fst d)) out, r).

(* ipv4_egress: reset() (when finished) also clears the stored address; a pending fragment goes
   to the stored address *)
Definition eg_ipv4_egress (ip_mtu : Z) (can_tx : bool) (fr : fragmenter) (hwst : Z)
  : fragmenter * Z * list frame :=
  let hw1 := if fr_finished fr then eg_hw_default else hwst in
  let '(fr', out) := f4_ipv4_egress ip_mtu can_tx fr in
  (fr', hw1, map (pair hw1) out).

(* socket_ingress for the packets of the rx queue, as long as the device hands out tokens *)
Fixpoint eg_ingress (ip_mtu : Z) (fr : fragmenter) (hwst id : Z) (b : budget) (rx : list dgram)
  : fragmenter * Z * Z * budget * list dgram * list frame :=
  match rx with
  | [] => (fr, hwst, id, b, [], [])
  | reply :: rest =>
      if bud_has b then
        let '(fr1, hw1, out, _) := eg_dispatch_ip ip_mtu id fr hwst reply in
        let b1 := match out with [] => b | _ => bud_dec b end in
        let '(fr2, hw2, id2, b2, rx2, out2) := eg_ingress ip_mtu fr1 hw1 (eg_next_id id) b1 rest in
        (fr2, hw2, id2, b2, rx2, out ++ out2)
      else (fr, hwst, id, b, rx, [])
  end.

(* socket_egress: returns also whether any socket was served (PollResult::SocketStateChanged) *)
Fixpoint eg_socket_egress (ip_mtu : Z) (fr : fragmenter) (hwst id : Z) (b : budget)
         (socks : list (list dgram))
  : fragmenter * Z * Z * budget * list (list dgram) * list frame * bool :=
  match socks with
  | [] => (fr, hwst, id, b, [], [], false)
  | q :: rest =>
      match q with
      | [] =>
          let '(fr2, hw2, id2, b2, rest2, out2, ch) := eg_socket_egress ip_mtu fr hwst id b rest in
          (fr2, hw2, id2, b2, q :: rest2, out2, ch)
      | d :: q' =>
          if negb (fr_finished fr) then
            (* FragmenterBusy: while fragments are unsent EVERY socket packet stays in its socket
               (one that needs fragmentation would be dropped, one that does not would overtake
               the remaining fragments on the wire); next socket *)
            let '(fr2, hw2, id2, b2, rest2, out2, ch) := eg_socket_egress ip_mtu fr hwst id b rest in
            (fr2, hw2, id2, b2, q :: rest2, out2, ch)
          else if negb (bud_has b) then
            (* Exhausted: break *)
            (fr, hwst, id, b, socks, [], false)
          else
            let '(fr1, hw1, out, _) := eg_dispatch_ip ip_mtu id fr hwst d in
            let b1 := match out with [] => b | _ => bud_dec b end in
            let '(fr2, hw2, id2, b2, rest2, out2, _) :=
              eg_socket_egress ip_mtu fr1 hw1 (eg_next_id id) b1 rest in
            (fr2, hw2, id2, b2, q' :: rest2, out ++ out2, true)
      end
  end.

(* one poll_egress pass *)
Definition eg_poll_egress (ip_mtu : Z) (st : egress) (b : budget)
  : egress * budget * list frame * bool :=
  let '(fr1, hw1, out1) := eg_ipv4_egress ip_mtu (bud_has b) (eg_fr st) (eg_hw st) in
  let b1 := match out1 with [] => b | _ => bud_dec b end in
  let '(fr2, hw2, id2, b2, socks2, out2, ch) :=
    eg_socket_egress ip_mtu fr1 hw1 (eg_id st) b1 (eg_socks st) in
  (mkEg fr2 hw2 id2 socks2 (eg_rx st), b2, out1 ++ out2, ch).

Fixpoint eg_egress_loop (fuel : nat) (ip_mtu : Z) (st : egress) (b : budget)
  : egress * budget * list frame :=
  match fuel with
  | O => (st, b, [])
  | S k =>
      let '(st1, b1, out1, ch) := eg_poll_egress ip_mtu st b in
      if ch then
        let '(st2, b2, out2) := eg_egress_loop k ip_mtu st1 b1 in (st2, b2, out1 ++ out2)
      else (st1, b1, out1)
  end.

Definition eg_queued (socks : list (list dgram)) : nat :=
  fold_right (fun q acc => (length q + acc)%nat) O socks.

(* Interface::poll with the device accepting [b] frames.  Every pass that reports a change
   dequeued a packet, so 1 + (number of queued packets) passes suffice. *)
Definition eg_poll (ip_mtu : Z) (st : egress) (b : budget) : egress * list frame :=
  let '(fr1, hw1, id1, b1, rx1, out1) :=
    eg_ingress ip_mtu (eg_fr st) (eg_hw st) (eg_id st) b (eg_rx st) in
  let st1 := mkEg fr1 hw1 id1 (eg_socks st) rx1 in
  let '(st2, _, out2) := eg_egress_loop (S (eg_queued (eg_socks st))) ip_mtu st1 b1 in
  (st2, out1 ++ out2).

(* ---- operations, for the correspondence driver and the trace theorems ---- *)
Inductive eg_op :=
| ESend (sock : nat) (d : dgram)   (* application queues a datagram on a socket *)
| ERecv (reply : dgram)            (* a request arrives in the device rx queue *)
| EPoll (b : budget).

Fixpoint eg_enqueue (socks : list (list dgram)) (i : nat) (d : dgram) :=
  match socks, i with
  | [], _ => []
  | q :: rest, O => (q ++ [d]) :: rest
  | q :: rest, S j => q :: eg_enqueue rest j d
  end.

Definition eg_step (ip_mtu : Z) (st : egress) (op : eg_op) : egress * list frame :=
  match op with
  | ESend i d => (mkEg (eg_fr st) (eg_hw st) (eg_id st) (eg_enqueue (eg_socks st) i d) (eg_rx st), [])
  | ERecv reply => (mkEg (eg_fr st) (eg_hw st) (eg_id st) (eg_socks st) (eg_rx st ++ [reply]), [])
  | EPoll b => eg_poll ip_mtu st b
  end.

Fixpoint eg_run (ip_mtu : Z) (st : egress) (ops : list eg_op) : egress * list frame :=
  match ops with
  | [] => (st, [])
  | op :: rest =>
      let '(st1, out1) := eg_step ip_mtu st op in
      let '(st2, out2) := eg_run ip_mtu st1 rest in
      (st2, out1 ++ out2)
  end.

Definition eg_init (bufsize id0 : Z) (nsocks : nat) : egress :=
  mkEg (fr_new bufsize) eg_hw_default id0 (repeat [] nsocks) [].
