(* Executable model of smoltcp::wire::ipv6fragment (src/wire/ipv6fragment.rs): the IPv6
   Fragment header *after* the two octets (next header, reserved) that the generic extension
   header (Model/WireIpv6Ext.v) owns: Header accessors, check_len, Repr::{parse, buffer_len, emit}.

   Panic sources: slice indexing in accessors / setters.  `(value & 0x1fff) << 3` fits u16.
   No proofs in this file. *)
From SV Require Import Lib.Base Gen.WireFields Model.WireBase.

Record v6frag_repr := mkV6Frag { v6frag_offset : Z; v6frag_more : bool; v6frag_ident : Z }.

(* Header::check_len *)
Definition v6frag_check_len (bs : list Z) : outcome unit :=
  if blen bs <? snd wv6frag_f_IDENT then Err 0 else Ok tt.

Definition v6frag_frag_offset (bs : list Z) : outcome Z :=
  do v <- wb_get_u16 bs wv6frag_f_FR_OF_M; Ok (Z.shiftr v 3).
Definition v6frag_more_frags (bs : list Z) : outcome bool :=
  do x <- wb_get_u8 bs wv6frag_f_M; Ok (Z.land x 1 =? 1).
Definition v6frag_ident_ (bs : list Z) : outcome Z := wb_get_u32 bs wv6frag_f_IDENT.

(* data[field::M] &= 0xf9 *)
Definition v6frag_clear_reserved (bs : list Z) : outcome (list Z) :=
  wb_upd_u8 bs wv6frag_f_M (fun x => Z.land x 249).
(* raw = ((value & 0x1fff) << 3) | ((data[field::M] & 0x7) as u16) *)
Definition v6frag_set_frag_offset (bs : list Z) (v : Z) : outcome (list Z) :=
  do x <- wb_get_u8 bs wv6frag_f_M;
  wb_put_u16 bs wv6frag_f_FR_OF_M (Z.lor (Z.shiftl (Z.land v 8191) 3) (Z.land x 7)).
(* raw = (data[field::M] & 0xfe) | (value as u8 & 0x1) *)
Definition v6frag_set_more_frags (bs : list Z) (v : bool) : outcome (list Z) :=
  wb_upd_u8 bs wv6frag_f_M (fun x => Z.lor (Z.land x 254) (Z.land (if v then 1 else 0) 1)).
Definition v6frag_set_ident (bs : list Z) (v : Z) : outcome (list Z) := wb_put_u32 bs wv6frag_f_IDENT v.

(* Repr::parse *)
Definition v6frag_parse (bs : list Z) : outcome v6frag_repr :=
  do _ <- v6frag_check_len bs;
  do o <- v6frag_frag_offset bs;
  do m <- v6frag_more_frags bs;
  do i <- v6frag_ident_ bs;
  Ok (mkV6Frag o m i).

(* Repr::buffer_len *)
Definition v6frag_buffer_len (r : v6frag_repr) : Z := snd wv6frag_f_IDENT.

(* Repr::emit *)
Definition v6frag_emit (r : v6frag_repr) (b : list Z) : outcome (list Z) :=
  do b <- v6frag_clear_reserved b;
  do b <- v6frag_set_frag_offset b (v6frag_offset r);
  do b <- v6frag_set_more_frags b (v6frag_more r);
  v6frag_set_ident b (v6frag_ident r).

(* Proviso of C06 for the IPv6 Fragment header:
   - frag_offset fits the 13-bit Fragment Offset field (RFC 8200 4.5; emit masks with 0x1fff);
   - ident is a u32 (Rust type). *)
Definition v6frag_wf (r : v6frag_repr) : bool :=
  (0 <=? v6frag_offset r) && (v6frag_offset r <? 8192) && is_u32 (v6frag_ident r).
