(* Executable model of smoltcp::iface::socket_meta::Meta (src/iface/socket_meta.rs):
   the per-socket neighbor back-off.  DISCOVERY_SILENT_TIME = Gen.Consts.meta_DISCOVERY_SILENT_TIME
   (microseconds).  The `has_neighbor` closure is an explicit function argument.
   No panic sources.  No proofs in this file. *)
From SV Require Import Lib.Base Gen.Consts Model.Neighbor.

Inductive neighbor_state :=
| Active
| Waiting (neighbor : ipaddr) (silent_until : Z).

(* socket::PollAt *)
Inductive poll_at := PollNow | PollTime (t : Z) | PollIngress.

(* Meta::poll_at *)
Definition meta_poll_at (st : neighbor_state) (socket_poll_at : poll_at)
           (has_neighbor : ipaddr -> bool) (timestamp : Z) : poll_at :=
  match st with
  | Active => socket_poll_at
  | Waiting neighbor silent_until =>
      if has_neighbor neighbor then socket_poll_at
      else if timestamp >=? silent_until then socket_poll_at
      else PollTime silent_until
  end.

(* Meta::egress_permitted: (result, new state) *)
Definition meta_egress_permitted (st : neighbor_state) (timestamp : Z)
           (has_neighbor : ipaddr -> bool) : bool * neighbor_state :=
  match st with
  | Active => (true, Active)
  | Waiting neighbor silent_until =>
      if has_neighbor neighbor then (true, Active)
      else if timestamp >=? silent_until then (true, st)
      else (false, st)
  end.

(* Meta::neighbor_missing *)
Definition meta_neighbor_missing (timestamp : Z) (neighbor : ipaddr) : neighbor_state :=
  Waiting neighbor (timestamp + meta_DISCOVERY_SILENT_TIME).
