(* Executable model of smoltcp::wire::arp (src/wire/arp.rs): Packet accessors, check_len,
   Repr::{parse, buffer_len, emit}.  The variable field positions SHA/SPA/THA/TPA are the
   `const fn`s of `mod field`, written out from OPER.end (Gen/WireFields.v).

   Representation: the only Repr variant is EthernetIpv4; [Operation] is its raw u16,
   hardware addresses are 6-octet lists, protocol addresses 4-octet lists.

   Panic sources: slice indexing in accessors/setters, `EthernetAddress::from_bytes`
   ([wb_arr 6]), `try_into().unwrap()` to [u8; 4] ([wb_arr 4]), copy_from_slice length
   mismatch in the address setters.  No proofs in this file. *)
From SV Require Import Lib.Base Gen.WireFields Model.WireBase.

Record arp_repr := mkArp {
  arp_oper : Z;
  arp_sha : list Z; arp_spa : list Z;
  arp_tha : list Z; arp_tpa : list Z }.

(* field::SHA / SPA / THA / TPA (hardware_len, protocol_len) *)
Definition arp_f_SHA (hl pl : Z) : Z * Z := (snd warp_f_OPER, snd warp_f_OPER + hl).
Definition arp_f_SPA (hl pl : Z) : Z * Z := (snd (arp_f_SHA hl pl), snd (arp_f_SHA hl pl) + pl).
Definition arp_f_THA (hl pl : Z) : Z * Z := (snd (arp_f_SPA hl pl), snd (arp_f_SPA hl pl) + hl).
Definition arp_f_TPA (hl pl : Z) : Z * Z := (snd (arp_f_THA hl pl), snd (arp_f_THA hl pl) + pl).

Definition arp_hardware_type (bs : list Z) : outcome Z := wb_get_u16 bs warp_f_HTYPE.
Definition arp_protocol_type (bs : list Z) : outcome Z := wb_get_u16 bs warp_f_PTYPE.
Definition arp_hardware_len (bs : list Z) : outcome Z := wb_get_u8 bs warp_f_HLEN.
Definition arp_protocol_len (bs : list Z) : outcome Z := wb_get_u8 bs warp_f_PLEN.
Definition arp_operation (bs : list Z) : outcome Z := wb_get_u16 bs warp_f_OPER.

Definition arp_var_field (f : Z -> Z -> Z * Z) (bs : list Z) : outcome (list Z) :=
  do hl <- arp_hardware_len bs; do pl <- arp_protocol_len bs; wb_field bs (f hl pl).
Definition arp_source_hardware_addr := arp_var_field arp_f_SHA.
Definition arp_source_protocol_addr := arp_var_field arp_f_SPA.
Definition arp_target_hardware_addr := arp_var_field arp_f_THA.
Definition arp_target_protocol_addr := arp_var_field arp_f_TPA.

(* Packet::check_len (reads hardware_len / protocol_len only after the first test passed) *)
Definition arp_check_len (bs : list Z) : outcome unit :=
  if blen bs <? snd warp_f_OPER then Err 0
  else
    do hl <- arp_hardware_len bs; do pl <- arp_protocol_len bs;
    if blen bs <? snd (arp_f_TPA hl pl) then Err 0 else Ok tt.

Definition arp_HTYPE_ETHERNET : Z := 1.
Definition arp_PTYPE_IPV4 : Z := 2048.

(* Repr::parse *)
Definition arp_parse (bs : list Z) : outcome arp_repr :=
  do _ <- arp_check_len bs;
  do ht <- arp_hardware_type bs;
  do pt <- arp_protocol_type bs;
  do hl <- arp_hardware_len bs;
  do pl <- arp_protocol_len bs;
  if (ht =? arp_HTYPE_ETHERNET) && (pt =? arp_PTYPE_IPV4) && (hl =? 6) && (pl =? 4) then
    do op <- arp_operation bs;
    do s <- arp_source_hardware_addr bs; do sha <- wb_arr 6 s;
    do s <- arp_source_protocol_addr bs; do spa <- wb_arr 4 s;
    do s <- arp_target_hardware_addr bs; do tha <- wb_arr 6 s;
    do s <- arp_target_protocol_addr bs; do tpa <- wb_arr 4 s;
    Ok (mkArp op sha spa tha tpa)
  else Err 0.

(* Repr::buffer_len *)
Definition arp_buffer_len (r : arp_repr) : Z := snd (arp_f_TPA 6 4).

Definition arp_set_var_field (f : Z -> Z -> Z * Z) (bs : list Z) (v : list Z) : outcome (list Z) :=
  do hl <- arp_hardware_len bs; do pl <- arp_protocol_len bs; wb_set_field bs (f hl pl) v.

(* Repr::emit *)
Definition arp_emit (r : arp_repr) (b : list Z) : outcome (list Z) :=
  do b <- wb_put_u16 b warp_f_HTYPE arp_HTYPE_ETHERNET;
  do b <- wb_put_u16 b warp_f_PTYPE arp_PTYPE_IPV4;
  do b <- wb_set_u8 b warp_f_HLEN 6;
  do b <- wb_set_u8 b warp_f_PLEN 4;
  do b <- wb_put_u16 b warp_f_OPER (arp_oper r);
  do b <- arp_set_var_field arp_f_SHA b (arp_sha r);
  do b <- arp_set_var_field arp_f_SPA b (arp_spa r);
  do b <- arp_set_var_field arp_f_THA b (arp_tha r);
  arp_set_var_field arp_f_TPA b (arp_tpa r).

(* Proviso of C06: nothing beyond the Rust types (u16 operation, [u8; 6] / [u8; 4] addresses). *)
Definition arp_wf (r : arp_repr) : bool :=
  is_u16 (arp_oper r) && is_arr 6 (arp_sha r) && is_arr 4 (arp_spa r) &&
  is_arr 6 (arp_tha r) && is_arr 4 (arp_tpa r).
