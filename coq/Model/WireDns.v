(* Executable byte-level model of the DNS wire code of smoltcp (src/wire/dns.rs):
   Packet accessors, Packet::parse_name (with compression pointers), parse_name_part,
   Question::parse/emit, RecordData::parse, Record::parse, Repr::buffer_len/emit (after the
   fix of D3: emit clears the flags word first; set_opcode masks 0x7800).

   Conventions
   * a byte string is a [list Z]; theorems about "all byte strings" carry the hypothesis
     [Forall wdns_is_byte bs] (0 <= b < 256) where a value read from the string is used as an
     index (compression pointers);
   * every Rust slice expression [&b[lo..hi]] is the checked [wdns_slice] (Panic when Rust
     panics); [b.get(..n)] is [wdns_get_to] (None); [first()] is a list match;
   * results live in the outcome monad: [Err wdns_E] = wire::Error, [Panic] = a Rust panic,
     [Err wdns_E_FUEL] / [NmFuel] = the model ran out of fuel, i.e. the Rust loop would not
     terminate.  Proofs/WireDnsProofs.v shows Panic and out-of-fuel never happen.
   * a record/question type is its u16 value (Type::from(u16) is a bijection onto the
     canonical values A = 1, Ns = 2, Cname = 5, Soa = 6, Aaaa = 28, Unknown(x) otherwise).

   Self-contained (Lib.Base + Gen only); reused by C06/C07.  No proofs in this file. *)
From SV Require Import Lib.Base Gen.Consts Gen.WireFields.

Definition wdns_E : Z := 0.        (* wire::Error *)
Definition wdns_E_FUEL : Z := 99.  (* out of fuel (never returned, see WireDnsProofs) *)

Definition wdns_is_byte (x : Z) : Prop := 0 <= x < 256.

Definition wdns_len (b : list Z) : Z := Z.of_nat (length b).

(* &b[lo..hi] *)
Definition wdns_slice (b : list Z) (lo hi : Z) : outcome (list Z) :=
  if (0 <=? lo) && (lo <=? hi) && (hi <=? wdns_len b)
  then Ok (firstn (Z.to_nat (hi - lo)) (skipn (Z.to_nat lo) b))
  else Panic.

(* b.get(..n) *)
Definition wdns_get_to (b : list Z) (n : Z) : option (list Z) :=
  if (0 <=? n) && (n <=? wdns_len b) then Some (firstn (Z.to_nat n) b) else None.

(* NetworkEndian::read_u16 / read_u32 on a slice (panics when the slice is too short) *)
Definition wdns_be16 (s : list Z) : outcome Z :=
  match s with
  | h :: l :: _ => Ok (h * 256 + l)
  | _ => Panic
  end.

Definition wdns_be32 (s : list Z) : outcome Z :=
  match s with
  | a :: b :: c :: d :: _ => Ok (((a * 256 + b) * 256 + c) * 256 + d)
  | _ => Panic
  end.

Definition wdns_field16 (buf : list Z) (f : Z * Z) : outcome Z :=
  do s <- wdns_slice buf (fst f) (snd f); wdns_be16 s.

(* --- constants that are not plain `const` items in the source (enum_with_unknown! /
       bitflags! bodies); the generated ones are used by name --- *)
Definition wdns_TYPE_A : Z := 1.
Definition wdns_TYPE_CNAME : Z := 5.
Definition wdns_TYPE_AAAA : Z := 28.
Definition wdns_OPCODE_QUERY : Z := 0.
Definition wdns_RCODE_NXDOMAIN : Z := 3.
Definition wdns_FLAG_RESPONSE : Z := 32768.          (* 0b1000_0000_0000_0000 *)
Definition wdns_FLAG_RECURSION_DESIRED : Z := 256.   (* 0b0000_0001_0000_0000 *)
(* Flags::all(): 0x8000 | 0x0400 | 0x0200 | 0x0100 | 0x0080 | 0x0020 | 0x0010 *)
Definition wdns_FLAGS_ALL : Z := 34736.

(* --- Packet accessors --- *)

(* check_len: Err if the buffer is shorter than the header *)
Definition wdns_check_len (buf : list Z) : outcome unit :=
  if wdns_len buf <? wdns_f_HEADER_END then Err wdns_E else Ok tt.

Definition wdns_payload (buf : list Z) : outcome (list Z) :=
  wdns_slice buf wdns_f_HEADER_END (wdns_len buf).

Definition wdns_transaction_id (buf : list Z) : outcome Z := wdns_field16 buf wdns_f_ID.

Definition wdns_flags_raw (buf : list Z) : outcome Z := wdns_field16 buf wdns_f_FLAGS.

(* Flags::from_bits_truncate *)
Definition wdns_flags (buf : list Z) : outcome Z :=
  do f <- wdns_flags_raw buf; Ok (Z.land f wdns_FLAGS_ALL).

(* Opcode::from((flags >> 11 & 0xF) as u8)  -- `>>` binds tighter than `&` *)
Definition wdns_opcode (buf : list Z) : outcome Z :=
  do f <- wdns_flags_raw buf; Ok (Z.land (Z.shiftr f 11) 15).

Definition wdns_rcode (buf : list Z) : outcome Z :=
  do f <- wdns_flags_raw buf; Ok (Z.land f 15).

Definition wdns_question_count (buf : list Z) : outcome Z := wdns_field16 buf wdns_f_QDCOUNT.
Definition wdns_answer_record_count (buf : list Z) : outcome Z := wdns_field16 buf wdns_f_ANCOUNT.
Definition wdns_authority_record_count (buf : list Z) : outcome Z := wdns_field16 buf wdns_f_NSCOUNT.
Definition wdns_additional_record_count (buf : list Z) : outcome Z := wdns_field16 buf wdns_f_ARCOUNT.

(* --- Packet::parse_name: the iterator, materialised ---
   The Rust iterator keeps two slices: [bytes] (what is being read) and [packet] (where a
   pointer may still point).  A pointer jump sets bytes = packet[ptr..] and packet =
   packet[..ptr]: the region a pointer may target shrinks strictly at every jump.  That is
   the only thing that bounds the chase: a pointer is NOT required to point backwards from
   where it is read (the first jump may go forward), but it must point below every earlier
   jump target.  [wdns_parse_name_go] is the `loop` of the closure, unrolled over successive
   `next()` calls; one unit of fuel per loop iteration. *)
Inductive wdns_names :=
| NmLabel (l : list Z) (rest : wdns_names)   (* Some(Ok(label)), then the rest *)
| NmEnd                                       (* None *)
| NmErr                                       (* Some(Err(Error)) *)
| NmPanic                                     (* a slice index would panic *)
| NmFuel.                                     (* out of fuel = would not terminate *)

Fixpoint wdns_parse_name_go (fuel : nat) (packet bytes : list Z) : wdns_names :=
  match fuel with
  | O => NmFuel
  | S fuel' =>
    match bytes with
    | [] => NmErr                                    (* if bytes.is_empty() *)
    | x :: _ =>
      if x =? 0 then NmEnd                           (* 0x00 => return None *)
      else if Z.land x 192 =? 0 then                 (* x & 0xC0 == 0x00 *)
        let len := Z.land x 63 in
        if wdns_len bytes <? 1 + len then NmErr
        else
          match wdns_slice bytes 1 (1 + len), wdns_slice bytes (1 + len) (wdns_len bytes) with
          | Ok label, Ok rest => NmLabel label (wdns_parse_name_go fuel' packet rest)
          | _, _ => NmPanic
          end
      else if Z.land x 192 =? 192 then               (* x & 0xC0 == 0xC0 *)
        if wdns_len bytes <? 2 then NmErr
        else
          match bytes with
          | _ :: y :: _ =>
            let ptr := Z.lor (Z.shiftl (Z.land x 63) 8) y in
            if wdns_len packet <=? ptr then NmErr
            else
              match wdns_slice packet ptr (wdns_len packet), wdns_slice packet 0 ptr with
              | Ok bytes', Ok packet' => wdns_parse_name_go fuel' packet' bytes'
              | _, _ => NmPanic
              end
          | _ => NmPanic                             (* bytes[1] *)
          end
      else NmErr
    end
  end.

(* fuel: 2 * |packet| + |bytes| + 1.  A label step removes >= 1 byte from [bytes]; a jump to
   ptr < |packet| gives 2 * ptr + (|packet| - ptr) <= 2 * |packet| - 1. *)
Definition wdns_parse_name_fuel (packet bytes : list Z) : nat :=
  S (2 * length packet + length bytes).

Definition wdns_parse_name (packet bytes : list Z) : wdns_names :=
  wdns_parse_name_go (wdns_parse_name_fuel packet bytes) packet bytes.

(* --- parse_name_part (private helper of Question::parse / Record::parse): labels without
       following pointers; returns the unused bytes and the pointer, if any. --- *)
Fixpoint wdns_parse_name_part_go (fuel : nat) (bytes : list Z)
  : outcome (list Z * option Z) :=
  match fuel with
  | O => Err wdns_E_FUEL
  | S fuel' =>
    match bytes with
    | [] => Err wdns_E                               (* bytes.first().ok_or(Error)? *)
    | x :: bytes1 =>                                 (* bytes = &bytes[1..] *)
      if x =? 0 then Ok (bytes1, None)
      else if Z.land x 192 =? 0 then
        let len := Z.land x 63 in
        match wdns_get_to bytes1 len with            (* bytes.get(..len).ok_or(Error)? *)
        | None => Err wdns_E
        | Some _label =>
          do rest <- wdns_slice bytes1 len (wdns_len bytes1);
          wdns_parse_name_part_go fuel' rest
        end
      else if Z.land x 192 =? 192 then
        match bytes1 with
        | [] => Err wdns_E
        | y :: bytes2 => Ok (bytes2, Some (Z.lor (Z.shiftl (Z.land x 63) 8) y))
        end
      else Err wdns_E
    end
  end.

Definition wdns_parse_name_part (bytes : list Z) : outcome (list Z * option Z) :=
  wdns_parse_name_part_go (S (length bytes)) bytes.

(* --- Question --- *)
Record wdns_question := mkQuestion { q_name : list Z; q_type : Z }.

Definition wdns_question_parse (buffer : list Z) : outcome (list Z * wdns_question) :=
  do '(rest, _) <- wdns_parse_name_part buffer;
  do name <- wdns_slice buffer 0 (wdns_len buffer - wdns_len rest);
  if wdns_len rest <? 4 then Err wdns_E
  else
    do s0 <- wdns_slice rest 0 2; do type_ <- wdns_be16 s0;
    do s1 <- wdns_slice rest 2 4; do class <- wdns_be16 s1;
    do rest' <- wdns_slice rest 4 (wdns_len rest);
    if negb (class =? wdns_CLASS_IN) then Err wdns_E
    else Ok (rest', mkQuestion name type_).

Definition wdns_question_buffer_len (q : wdns_question) : Z := wdns_len (q_name q) + 4.

(* dst[off .. off+|data|].copy_from_slice(data) / write_u16 into a sub-slice *)
Definition wdns_write (buf : list Z) (off : Z) (data : list Z) : outcome (list Z) :=
  if (0 <=? off) && (off + wdns_len data <=? wdns_len buf)
  then Ok (firstn (Z.to_nat off) buf ++ data ++ skipn (Z.to_nat (off + wdns_len data)) buf)
  else Panic.

Definition wdns_u16_bytes (v : Z) : list Z := [v / 256 mod 256; v mod 256].

Definition wdns_question_emit (q : wdns_question) (packet : list Z) : outcome (list Z) :=
  let n := wdns_len (q_name q) in
  do p1 <- wdns_write packet 0 (q_name q);
  (* rest = &mut packet[name.len()..]; rest[0..2], rest[2..4] *)
  do p2 <- wdns_write p1 n (wdns_u16_bytes (q_type q));
  wdns_write p2 (n + 2) (wdns_u16_bytes wdns_CLASS_IN).

(* --- Record --- *)
Inductive wdns_rdata :=
| RdA (a : list Z)            (* 4 octets *)
| RdAaaa (a : list Z)         (* 16 octets *)
| RdCname (n : list Z)
| RdOther (t : Z) (d : list Z).

Record wdns_record := mkRecord { r_name : list Z; r_ttl : Z; r_data : wdns_rdata }.

Definition wdns_rdata_parse (type_ : Z) (data : list Z) : outcome wdns_rdata :=
  if type_ =? wdns_TYPE_A then
    (if wdns_len data =? 4 then Ok (RdA data) else Err wdns_E)        (* try_into [u8; 4] *)
  else if type_ =? wdns_TYPE_AAAA then
    (if wdns_len data =? 16 then Ok (RdAaaa data) else Err wdns_E)
  else if type_ =? wdns_TYPE_CNAME then Ok (RdCname data)
  else Ok (RdOther type_ data).

Definition wdns_record_parse (buffer : list Z) : outcome (list Z * wdns_record) :=
  do '(rest, _) <- wdns_parse_name_part buffer;
  do name <- wdns_slice buffer 0 (wdns_len buffer - wdns_len rest);
  if wdns_len rest <? 10 then Err wdns_E
  else
    do s0 <- wdns_slice rest 0 2; do type_ <- wdns_be16 s0;
    do s1 <- wdns_slice rest 2 4; do class <- wdns_be16 s1;
    do s2 <- wdns_slice rest 4 8; do ttl <- wdns_be32 s2;
    do s3 <- wdns_slice rest 8 10; do len <- wdns_be16 s3;
    do rest1 <- wdns_slice rest 10 (wdns_len rest);
    if negb (class =? wdns_CLASS_IN) then Err wdns_E
    else
      match wdns_get_to rest1 len with               (* rest.get(..len).ok_or(Error)? *)
      | None => Err wdns_E
      | Some data =>
        do rest2 <- wdns_slice rest1 len (wdns_len rest1);
        do d <- wdns_rdata_parse type_ data;
        Ok (rest2, mkRecord name ttl d)
      end.

(* --- Repr (queries only) --- *)
Record wdns_repr := mkRepr {
  rp_transaction_id : Z;
  rp_opcode : Z;
  rp_flags : Z;
  rp_question : wdns_question
}.

Definition wdns_repr_buffer_len (r : wdns_repr) : Z :=
  wdns_f_HEADER_END + wdns_question_buffer_len (rp_question r).

Definition wdns_set_field16 (buf : list Z) (f : Z * Z) (v : Z) : outcome (list Z) :=
  (* &mut buffer[field] then write_u16 *)
  do _ <- wdns_slice buf (fst f) (snd f);
  if snd f - fst f <? 2 then Panic else wdns_write buf (fst f) (wdns_u16_bytes v).

(* set_flags: (old & !mask) | val.bits()  with mask = Flags::all() *)
Definition wdns_set_flags (buf : list Z) (val : Z) : outcome (list Z) :=
  do old <- wdns_flags_raw buf;
  wdns_set_field16 buf wdns_f_FLAGS (Z.lor (Z.land old (65535 - wdns_FLAGS_ALL)) val).

(* set_opcode: mask 0x7800, ((val as u16) << 11) & mask *)
Definition wdns_set_opcode (buf : list Z) (val : Z) : outcome (list Z) :=
  do old <- wdns_flags_raw buf;
  wdns_set_field16 buf wdns_f_FLAGS
    (Z.lor (Z.land old (65535 - 30720)) (Z.land (Z.shiftl val 11) 30720)).

Definition wdns_repr_emit (r : wdns_repr) (buf : list Z) : outcome (list Z) :=
  do b1 <- wdns_set_field16 buf wdns_f_ID (rp_transaction_id r);
  (* the whole flags word is cleared first (fix of D3): nothing of the old buffer survives *)
  do b1 <- wdns_set_field16 b1 wdns_f_FLAGS 0;
  do b2 <- wdns_set_flags b1 (rp_flags r);
  do b3 <- wdns_set_opcode b2 (rp_opcode r);
  do b4 <- wdns_set_field16 b3 wdns_f_QDCOUNT 1;
  do b5 <- wdns_set_field16 b4 wdns_f_ANCOUNT 0;
  do b6 <- wdns_set_field16 b5 wdns_f_NSCOUNT 0;
  do b7 <- wdns_set_field16 b6 wdns_f_ARCOUNT 0;
  (* self.question.emit(packet.payload_mut()) *)
  do pl <- wdns_payload b7;
  do pl' <- wdns_question_emit (rp_question r) pl;
  wdns_write b7 wdns_f_HEADER_END pl'.
