(* Executable model of smoltcp::wire::ipv6hbh (src/wire/ipv6hbh.rs): the Hop-by-Hop options
   header `Header<T>` (check_len, options, options_mut) and `Repr::{parse, buffer_len, emit,
   mldv2_router_alert, push_padn_option}`.

   `Header` wraps ONLY the option area of a generic IPv6 extension header (next header and
   length octets are Model/WireIpv6Ext.v; the option area is its payload).  There is no
   `mod field`: the whole buffer is the option area.

   Representation.  `Repr { options: heapless::Vec<Ipv6OptionRepr, IPV6_HBH_MAX_OPTIONS> }` is a
   list of option reprs (Model/WireIpv6Opt.v); the capacity [cfg_IPV6_HBH_MAX_OPTIONS]
   (Gen/Consts.v, from the defaults table of build.rs) is a type invariant stated in [v6hbh_wf].

   Repr::parse drains `Ipv6OptionsIterator` over the option area: an Err item is returned
   (`option?`); when the Vec is full, `push` fails and the loop BREAKS: the remaining options are
   silently dropped and parse still returns Ok (the iterator is lazy: no further next() call
   is made, so items after the break are irrelevant).  Repr::emit writes the options back to back
   into `buffer[..opt.buffer_len()]`, advancing the buffer; it writes no padding: padding is an
   explicit PadN / Pad1 option of the repr (`push_padn_option`, done by the caller).

   Panic sources: `&mut buffer[..n]` / `&mut buffer[n..]` in emit, everything Ipv6OptionRepr::emit
   can panic on, `push(..).unwrap()` on a full Vec in push_padn_option (and in
   mldv2_router_alert, impossible for a capacity >= 1).  `.sum()` of at most capacity * 257
   cannot overflow.  No proofs in this file. *)
From SV Require Import Lib.Base Gen.Consts Gen.WireFields Model.WireBase Model.WireIpv6Opt.

Record v6hbh_repr := mkV6Hbh { v6hbh_opts : list v6opt_repr }.

(* ---------- Header<T> ---------- *)

(* Header::check_len: `if self.buffer.as_ref().is_empty() { return Err(Error) }` *)
Definition v6hbh_check_len (bs : list Z) : outcome unit :=
  if blen bs =? 0 then Err 0 else Ok tt.

(* Header::options: the whole buffer *)
Definition v6hbh_options (bs : list Z) : outcome (list Z) := Ok bs.

(* ---------- Repr ---------- *)

(* heapless::Vec::push: Err(item) when full *)
Definition v6hbh_push (opts : list v6opt_repr) (o : v6opt_repr) : outcome (list v6opt_repr) :=
  if Z.of_nat (length opts) <? cfg_IPV6_HBH_MAX_OPTIONS then Ok (opts ++ [o]) else Err 0.

(* for option in iter { let option = option?; if let Err(e) = options.push(option) { break; } } *)
Fixpoint v6hbh_collect (items : list (outcome v6opt_repr)) (acc : list v6opt_repr)
  : outcome (list v6opt_repr) :=
  match items with
  | [] => Ok acc
  | Ok o :: rest =>
      match v6hbh_push acc o with
      | Ok acc' => v6hbh_collect rest acc'
      | _ => Ok acc                             (* break *)
      end
  | Err e :: _ => Err e                         (* option? *)
  | Panic :: _ => Panic
  end.

(* Repr::parse *)
Definition v6hbh_parse (bs : list Z) : outcome v6hbh_repr :=
  do _ <- v6hbh_check_len bs;
  do data <- v6hbh_options bs;
  do opts <- v6hbh_collect (v6opt_iter data) [];
  Ok (mkV6Hbh opts).

(* Repr::buffer_len: self.options.iter().map(|o| o.buffer_len()).sum() *)
Definition v6hbh_opts_len (opts : list v6opt_repr) : Z :=
  fold_right (fun o a => v6opt_buffer_len o + a) 0 opts.
Definition v6hbh_buffer_len (r : v6hbh_repr) : Z := v6hbh_opts_len (v6hbh_opts r).

(* the loop of Repr::emit:
     opt.emit(&mut Ipv6Option::new_unchecked(&mut buffer[..opt.buffer_len()]));
     buffer = &mut buffer[opt.buffer_len()..]; *)
Fixpoint v6hbh_emit_opts (opts : list v6opt_repr) (buffer : list Z) : outcome (list Z) :=
  match opts with
  | [] => Ok buffer
  | o :: rest =>
      do h <- wb_upto buffer (v6opt_buffer_len o);
      do h' <- v6opt_emit o h;
      do t <- wb_from buffer (v6opt_buffer_len o);
      do t' <- v6hbh_emit_opts rest t;
      Ok (h' ++ t')
  end.

(* Repr::emit *)
Definition v6hbh_emit (r : v6hbh_repr) (b : list Z) : outcome (list Z) :=
  v6hbh_emit_opts (v6hbh_opts r) b.

(* Repr::mldv2_router_alert: push(RouterAlert(MulticastListenerDiscovery = 0)).unwrap() on an empty Vec *)
Definition v6hbh_mldv2_router_alert : outcome v6hbh_repr :=
  match v6hbh_push [] (V6OptRouterAlert 0) with
  | Ok opts => Ok (mkV6Hbh opts)
  | _ => Panic                                  (* unwrap *)
  end.

(* Repr::push_padn_option: self.options.push(PadN(n)).unwrap() *)
Definition v6hbh_push_padn_option (r : v6hbh_repr) (n : Z) : outcome v6hbh_repr :=
  match v6hbh_push (v6hbh_opts r) (V6OptPadN n) with
  | Ok opts => Ok (mkV6Hbh opts)
  | _ => Panic                                  (* unwrap *)
  end.

(* Proviso of C06 for the Hop-by-Hop options header:
   - every option is well-formed ([v6opt_wf], Model/WireIpv6Opt.v);
   - at most IPV6_HBH_MAX_OPTIONS options: capacity of the heapless::Vec (Rust type invariant);
   - at least one option: `parse` rejects an empty option area (check_len), and the option area
     of an extension header is never empty (it has length * 8 + 6 >= 6 octets).
   The option area is consumed exactly: emit writes buffer_len = sum of the options' lengths, so
   there is no trailing garbage inside the declared length. *)
Definition v6hbh_wf (r : v6hbh_repr) : bool :=
  forallb v6opt_wf (v6hbh_opts r) &&
  (Z.of_nat (length (v6hbh_opts r)) <=? cfg_IPV6_HBH_MAX_OPTIONS) &&
  negb (Z.of_nat (length (v6hbh_opts r)) =? 0).
