(* Executable model of 6LoWPAN compression / decompression of whole datagrams
   (property C20, step 4), src/iface/interface/sixlowpan.rs:

     compressed_packet_size                 lp_compressed_packet_size
     ipv6_to_sixlowpan                      lp_ipv6_to_sixlowpan
     dispatch_sixlowpan (+ egress)          lp_dispatch          (via Model/LowpanFrag.v)
     sixlowpan_to_ipv6                      lp_sixlowpan_to_ipv6
     decompress_next_header                 lp_decompress_next_header
     decompress_ext_hdr                     lp_decompress_ext_hdr
     decompress_udp                         lp_decompress_udp
     process_sixlowpan (+ _fragment)        lp_process_sixlowpan (via Model/LowpanFrag.v)

   This is the code after the repairs 2838b45 (D9: decompress_udp validates the datagram size),
   d7840d0 (decompress_ext_hdr bounds check) and 33f177e (the in-line UDP checksum is carried into
   the decompressed header; an elided one is recomputed for unfragmented datagrams).

   A datagram the stack sends is an IPv6 header (Ipv6Repr) plus an upper-layer payload that is either
   UDP (ports + data, compressed with LOWPAN_NHC) or the already emitted octets of an ICMPv6 message
   or TCP segment (copied verbatim: Icmpv6Repr::emit / TcpRepr::emit are properties C06/C08's
   subject).  Hop-by-hop / routing extension headers are only *decompressed* (the harness build
   has no proto-ipv6-hbh / proto-ipv6-routing, so the compressor never emits them).

   Panic sources: `buffer.split_at_mut(40)`, every slice index of decompress_* ([wb_*]), the usize
   subtraction `total_len.unwrap_or(payload_len) - 40` ([lpf_usub]); the wire-level ones are in the
   WireIphc / WireNhc models.  No proofs in this file. *)
From SV Require Import Lib.Base Gen.Consts Gen.WireFields Model.WireBase Model.WireSixFrag Model.WireNhc.
From SV Require Import Model.WireIphc Model.Assembler Model.LowpanFrag.

Definition lp_PROTO_TCP : Z := 6.
Definition lp_PROTO_UDP : Z := 17.
Definition lp_PROTO_ICMPV6 : Z := 58.
Definition lp_IPV6_HDR : Z := wipv6_HEADER_LEN.
Definition lp_UDP_HDR : Z := wudp_HEADER_LEN.
(* MAX_DECOMPRESSED_LEN: the decompression buffer of unfragmented packets *)
Definition lp_MAX_DECOMPRESSED_LEN : Z := frag_MAX_DECOMPRESSED_LEN.

(* ---------- datagrams ---------- *)

Inductive lp_payload :=
| LpUdp (ports : nhc_ports) (data : list Z)     (* IpPayload::Udp(udp_repr, payload) *)
| LpRaw (proto : Z) (bytes : list Z).           (* IpPayload::Icmpv6 / ::Tcp, as emitted octets *)

Record lp_dgram := mkDgram { ld_src : list Z; ld_dst : list Z; ld_hl : Z; ld_pl : lp_payload }.

Definition lp_payload_len (p : lp_payload) : Z :=
  match p with LpUdp _ data => lp_UDP_HDR + blen data | LpRaw _ bytes => blen bytes end.
Definition lp_next_header (p : lp_payload) : Z :=
  match p with LpUdp _ _ => lp_PROTO_UDP | LpRaw proto _ => proto end.

(* Ipv6Repr::emit: version 6, traffic class 0, flow label 0 *)
Definition lp_ipv6_header (src dst : list Z) (nh hl plen : Z) : list Z :=
  [96; 0; 0; 0] ++ be_enc2 plen ++ [nh; hl] ++ src ++ dst.

(* UdpRepr::emit_header + set_checksum *)
Definition lp_udp_header (r : nhc_ports) (len ck : Z) : list Z :=
  be_enc2 (np_src r) ++ be_enc2 (np_dst r) ++ be_enc2 len ++ be_enc2 ck.

(* the datagram as octets, as the same stack sends it over a plain IPv6 medium (UdpRepr::emit with
   fill_checksum: a computed 0 becomes 0xffff) *)
Definition lp_ipv6_bytes (d : lp_dgram) : outcome (list Z) :=
  match ld_pl d with
  | LpUdp r data =>
      do ck <- nhc_udp_cksum (ld_src d) (ld_dst d) (np_src r) (np_dst r) data;
      Ok (lp_ipv6_header (ld_src d) (ld_dst d) lp_PROTO_UDP (ld_hl d) (lp_UDP_HDR + blen data) ++
          lp_udp_header r (lp_UDP_HDR + blen data) (if ck =? 0 then 65535 else ck) ++ data)
  | LpRaw proto bytes =>
      Ok (lp_ipv6_header (ld_src d) (ld_dst d) proto (ld_hl d) (blen bytes) ++ bytes)
  end.

(* ---------- compression ---------- *)

Definition lp_iphc_repr (d : lp_dgram) (ll_src ll_dst : option iphc_ll) : iphc_repr :=
  mkIphc (ld_src d) ll_src (ld_dst d) ll_dst
         (match ld_pl d with LpUdp _ _ => None | LpRaw proto _ => Some proto end)
         (ld_hl d) None None None.

(* compressed_packet_size: (total_size, compressed_hdr_size, uncompressed_hdr_size) *)
Definition lp_compressed_packet_size (d : lp_dgram) (ll_src ll_dst : option iphc_ll) : outcome (Z * Z * Z) :=
  do n <- iphc_buffer_len (lp_iphc_repr d ll_src ll_dst);
  match ld_pl d with
  | LpUdp r data =>
      Ok (n + nhc_udp_header_len r + blen data, n + nhc_udp_header_len r, lp_IPV6_HDR + lp_UDP_HDR)
  | LpRaw _ bytes => Ok (n + blen bytes, n, lp_IPV6_HDR)
  end.

(* ipv6_to_sixlowpan into [buffer] *)
Definition lp_ipv6_to_sixlowpan (d : lp_dgram) (ll_src ll_dst : option iphc_ll) (buffer : list Z)
  : outcome (list Z) :=
  let r := lp_iphc_repr d ll_src ll_dst in
  do n <- iphc_buffer_len r;
  do h <- wb_upto buffer n;                         (* &mut buffer[..iphc_repr.buffer_len()] *)
  do h' <- iphc_emit r h;
  do rest <- wb_from buffer n;                      (* buffer = &mut buffer[len..] *)
  match ld_pl d with
  | LpUdp ports data =>
      let m := nhc_udp_header_len ports + blen data in
      do u <- wb_upto rest m;
      do u' <- nhc_udp_emit ports (ld_src d) (ld_dst d) data true u;
      do tail <- wb_from rest m;
      Ok (h' ++ u' ++ tail)
  | LpRaw _ bytes =>
      do u' <- wb_set_slice rest 0 (blen bytes) bytes;     (* repr.emit into buffer[..buffer_len()] *)
      Ok (h' ++ u')
  end.

(* dispatch_sixlowpan + the following sixlowpan_egress calls: all frames of one datagram
   (None = dropped: the compressed packet does not fit the fragmentation buffer) *)
Definition lp_dispatch (d : lp_dgram) (ll_src_a ll_dst_a : list Z) (ll_src ll_dst : option iphc_ll)
    (tag : Z) (fill : Z) : outcome (list lpf_frame) :=
  do '(total, chdr, uhdr) <- lp_compressed_packet_size d ll_src ll_dst;
  let ieee_len := lpf_ieee_len ll_dst_a ll_src_a in
  if lpf_needs_frag total ieee_len then
    if lpf_BUFFER <? total then Ok []
    else
      do buf <- lp_ipv6_to_sixlowpan d ll_src ll_dst (repeat fill (Z.to_nat lpf_BUFFER));
      do c <- wb_upto buf total;
      lpf_send ieee_len c chdr uhdr (lp_payload_len (ld_pl d)) tag
  else
    do c <- lp_ipv6_to_sixlowpan d ll_src ll_dst (repeat fill (Z.to_nat total));
    Ok [mkFrame None c].

(* ---------- decompression ---------- *)

(* decompress_next_header: IpProtocol of a 6LoWPAN next header; [payload] follows the header *)
Definition lp_decompress_next_header (nh : option Z) (payload : list Z) : outcome Z :=
  match nh with
  | Some p => Ok p
  | None =>
      do k <- nhc_dispatch payload;
      if k =? 0 then
        do _ <- nhc_ext_new_checked payload;
        do e <- nhc_ext_eid_field payload;
        Ok (nhc_ext_proto_of_eid e)
      else Ok lp_PROTO_UDP
  end.

(* state of the loop in sixlowpan_to_ipv6: octets written behind the IPv6 header, room left in the
   buffer, payload_len *)
Record lp_dstate := mkDs { ds_out : list Z; ds_room : Z; ds_payload_len : Z }.

(* decompress_ext_hdr: new state, remaining data, next header *)
Definition lp_decompress_ext_hdr (data : list Z) (s : lp_dstate) : outcome (lp_dstate * list Z * option Z) :=
  do _ <- nhc_ext_new_checked data;
  do er <- nhc_ext_parse data;
  if blen data <? nhc_ext_buffer_len er + ne_length er then Err 0 else
  do after <- wb_from data (ne_length er + nhc_ext_buffer_len er);
  do nh <- lp_decompress_next_header (ne_next er) after;
  do pl <- nhc_ext_payload data;
  if ds_room s <? 2 + blen pl then Err 0 else
  (* Ipv6ExtHeaderRepr { next_header: nh, length: ext_repr.length / 8, data }.emit + copy *)
  let bytes := [nh mod 256; ne_length er / 8] ++ pl in
  do rest <- wb_from data (nhc_ext_buffer_len er + ne_length er);
  Ok (mkDs (ds_out s ++ bytes) (ds_room s - (2 + blen pl)) (ds_payload_len s + 2 + blen pl),
      rest, ne_next er).

(* udp::Packet::fill_checksum over the 8-octet header and the payload *)
Definition lp_udp_fill_checksum (src dst : list Z) (hdr_no_ck payload : list Z) (len : Z) : Z :=
  let ck := 65535 - wb_cksum_combine
              [wb_pseudo_header src dst lp_PROTO_UDP len;
               wb_cksum_data (firstn (Z.to_nat len) (hdr_no_ck ++ [0; 0] ++ payload))] in
  if ck =? 0 then 65535 else ck.

(* decompress_udp *)
Definition lp_decompress_udp (data : list Z) (src dst : list Z) (total_len : option Z) (s : lp_dstate)
  : outcome lp_dstate :=
  do _ <- nhc_udp_check_len data;
  do payload <- nhc_udp_payload data;
  do ports <- nhc_udp_parse data src dst false;
  if ds_room s <? lp_UDP_HDR + blen payload then Err 0 else
  do udp_payload_len <-
    match total_len with
    | Some t => if t <? ds_payload_len s + lp_UDP_HDR then Err 0 else Ok (t - (ds_payload_len s + lp_UDP_HDR))
    | None => Ok (blen payload)
    end;
  do ck <- nhc_udp_checksum data;
  let len := (lp_UDP_HDR + udp_payload_len) mod 65536 in
  let hdr6 := be_enc2 (np_src ports) ++ be_enc2 (np_dst ports) ++ be_enc2 len in
  let ckv := match ck, total_len with
             | Some c, _ => c
             | None, None => lp_udp_fill_checksum src dst hdr6 payload len
             | None, Some _ => 0
             end in
  Ok (mkDs (ds_out s ++ hdr6 ++ be_enc2 ckv ++ payload)
           (ds_room s - (lp_UDP_HDR + blen payload))
           (ds_payload_len s + udp_payload_len + lp_UDP_HDR)).

(* the `while let Some(nh) = next_header` loop; every iteration consumes input, [fuel] = |data| + 1 *)
Fixpoint lp_decompress_loop (fuel : nat) (data : list Z) (nh : option Z) (src dst : list Z)
    (total_len : option Z) (s : lp_dstate) : outcome lp_dstate :=
  match fuel with
  | O => Err 0
  | S fuel' =>
      match nh with
      | None =>
          do k <- nhc_dispatch data;
          if k =? 0 then
            do '(s', data', nh') <- lp_decompress_ext_hdr data s;
            lp_decompress_loop fuel' data' nh' src dst total_len s'
          else lp_decompress_udp data src dst total_len s
      | Some proto =>
          if (proto =? lp_PROTO_TCP) || (proto =? lp_PROTO_UDP) || (proto =? lp_PROTO_ICMPV6) then
            if ds_room s <? blen data then Err 0
            else Ok (mkDs (ds_out s ++ data) (ds_room s - blen data) (ds_payload_len s + blen data))
          else Err 0
      end
  end.

(* sixlowpan_to_ipv6(address_context, ieee802154_repr, iphc_payload, total_len, buffer):
   the octets written at the start of the buffer (their number is the returned length) *)
Definition lp_sixlowpan_to_ipv6 (ctx : list (list Z)) (ll_src ll_dst : option iphc_ll)
    (pkt : list Z) (total_len : option Z) (buflen : Z) : outcome (list Z) :=
  do _ <- iphc_check_len pkt;
  do r <- iphc_parse pkt ll_src ll_dst ctx;
  if buflen <? lp_IPV6_HDR then Panic else              (* buffer.split_at_mut(40) *)
  do data <- iphc_payload pkt;
  do s <- lp_decompress_loop (S (length data)) data (ir_nh r) (ir_src r) (ir_dst r) total_len
            (mkDs [] (buflen - lp_IPV6_HDR) lp_IPV6_HDR);
  do nh <- lp_decompress_next_header (ir_nh r) data;
  do plen <- lpf_usub (match total_len with Some t => t | None => ds_payload_len s end) lp_IPV6_HDR;
  Ok (lp_ipv6_header (ir_src r) (ir_dst r) (nh mod 256) (ir_hl r) (plen mod 65536) ++ ds_out s).

(* ---------- the receiver: process_sixlowpan ---------- *)

(* one received 6LoWPAN payload (MAC header stripped): new reassembly state and the IPv6 datagram
   handed to process_ipv6, if any.  [ll_src_a]/[ll_dst_a] are the raw address octets for the
   fragment key *)
Definition lp_process_sixlowpan (ctx : list (list Z)) (now timeout : Z)
    (ll_src_a ll_dst_a : list Z) (ll_src ll_dst : option iphc_ll) (payload : list Z)
    (ss : list lpf_slot) : outcome (list lpf_slot * option (list Z)) :=
  match sixlowpan_dispatch payload with
  | Err _ => Ok (ss, None)
  | Panic => Panic
  | Ok k =>
      if k =? 0 then
        match sixfrag_new_checked payload with
        | Err _ => Ok (ss, None)
        | Panic => Panic
        | Ok _ =>
            do h <- sixfrag_parse payload;
            do pl <- sixfrag_payload payload;
            let f := mkRxFrag h pl (fun buflen =>
                       lp_sixlowpan_to_ipv6 ctx ll_src ll_dst pl (Some (lpf_hdr_size h)) buflen) in
            lpf_process_fragment now timeout ll_src_a ll_dst_a f ss
        end
      else
        match lp_sixlowpan_to_ipv6 ctx ll_src ll_dst payload None lp_MAX_DECOMPRESSED_LEN with
        | Ok d => Ok (ss, Some d)
        | Err _ => Ok (ss, None)
        | Panic => Panic
        end
  end.

(* ---------- helper for the correspondence driver: an IPv6 datagram (octets) as [lp_dgram] ---------- *)
Definition lp_dgram_of_bytes (b : list Z) : outcome lp_dgram :=
  do nh <- wb_get_u8 b wipv6_f_NXT_HDR;
  do hl <- wb_get_u8 b wipv6_f_HOP_LIMIT;
  do src <- wb_field b wipv6_f_SRC_ADDR;
  do dst <- wb_field b wipv6_f_DST_ADDR;
  do pl <- wb_from b lp_IPV6_HDR;
  if nh =? lp_PROTO_UDP then
    do sp <- wb_get_u16 pl wudp_f_SRC_PORT;
    do dp <- wb_get_u16 pl wudp_f_DST_PORT;
    do data <- wb_from pl lp_UDP_HDR;
    Ok (mkDgram src dst hl (LpUdp (mkPorts sp dp) data))
  else Ok (mkDgram src dst hl (LpRaw nh pl)).
