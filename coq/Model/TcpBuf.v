(* Byte ring buffer used by the TCP socket model: exactly the part of
   smoltcp::storage::RingBuffer<u8> (src/storage/ring_buffer.rs) that tcp::Socket uses.

   State = the Rust fields: the storage (a list of bytes of length [rb_cap], *including* the bytes
   outside the allocated region: stale bytes and out-of-order data parked in the unallocated
   area stay visible), [rb_read_at] and [rb_len].

     Rust (ring_buffer.rs)            model
     new(storage)            l.39     rb_new storage
     clear                   l.50     rb_clear
     capacity/len/window     l.56-78  rb_cap / rb_len / rb_window
     contiguous_window       l.82     rb_contiguous_window
     is_empty / is_full      l.87-94  rb_is_empty / rb_is_full
     get_idx                 l.98     rb_get_idx
     enqueue_many_with       l.180    rb_enqueue_pass   (callback = "copy min(len) bytes", the only
                                                          one tcp.rs uses through enqueue_slice)
     enqueue_slice           l.217    rb_enqueue_slice  (two passes)
     dequeue_many_with       l.240    rb_dequeue_pass
     dequeue_slice           l.275    rb_dequeue_slice  (two passes)
     get_unallocated         l.300    rb_get_unallocated (position and size of the slice)
     write_unallocated       l.325    rb_write_unallocated (two passes)
     enqueue_unallocated     l.349    rb_enqueue_unallocated  (assert! -> Panic)
     get_allocated           l.357    rb_get_allocated
     read_allocated          l.381    rb_read_allocated (two passes)
     dequeue_allocated       l.403    rb_dequeue_allocated    (assert! -> Panic)

   Panic sources: the two `assert!`s above are [Panic]; slice indexing `storage[a..a+n]` is always
   in range under the invariant  rb_len <= rb_cap /\ (rb_cap = 0 \/ rb_read_at < rb_cap) /\
   length rb_store = rb_cap  (the C14 invariant); `capacity - len` likewise.

   The list helpers are tail recursive and indexed by [Z] because the extracted code is run on
   buffers of several hundred KiB.  No proofs in this file. *)
From SV Require Import Lib.Base.

(* ---------- list helpers (Z-indexed, tail recursive) ---------- *)

Fixpoint l_len_acc (l : list Z) (acc : Z) : Z :=
  match l with [] => acc | _ :: r => l_len_acc r (acc + 1) end.
Definition l_len (l : list Z) : Z := l_len_acc l 0.

(* the first [n] elements of [l], reversed, pushed onto [acc] *)
Fixpoint l_rev_take (n : Z) (l acc : list Z) : list Z :=
  match l with
  | [] => acc
  | x :: r => if n <=? 0 then acc else l_rev_take (n - 1) r (x :: acc)
  end.

Fixpoint l_drop (n : Z) (l : list Z) : list Z :=
  match l with
  | [] => []
  | _ :: r => if n <=? 0 then l else l_drop (n - 1) r
  end.

Definition l_take (n : Z) (l : list Z) : list Z := rev_append (l_rev_take n l []) [].

(* l[at .. at+n] *)
Definition l_slice (at_ n : Z) (l : list Z) : list Z := l_take n (l_drop at_ l).

(* l with l[at .. at+|data|] := data   (data must fit) *)
Definition l_write (at_ : Z) (data l : list Z) : list Z :=
  rev_append (l_rev_take at_ l [])
             (rev_append (rev_append data []) (l_drop (at_ + l_len data) l)).

Definition l_app (a b : list Z) : list Z := rev_append (rev_append a []) b.

(* ---------- the ring ---------- *)

Record ring := mkRing { rb_cap : Z; rb_store : list Z; rb_read_at : Z; rb_len : Z }.

Definition rb_new (storage : list Z) : ring := mkRing (l_len storage) storage 0 0.

Definition rb_clear (r : ring) : ring := mkRing (rb_cap r) (rb_store r) 0 0.

Definition rb_window (r : ring) : Z := rb_cap r - rb_len r.
Definition rb_is_empty (r : ring) : bool := rb_len r =? 0.
Definition rb_is_full (r : ring) : bool := rb_window r =? 0.

Definition rb_get_idx (r : ring) (idx : Z) : Z :=
  if rb_cap r >? 0 then (rb_read_at r + idx) mod rb_cap r else 0.

Definition rb_contiguous_window (r : ring) : Z :=
  Z.min (rb_window r) (rb_cap r - rb_get_idx r (rb_len r)).

(* enqueue_many_with(|buf| copy min(buf.len, data.len)): returns ring, size, rest of data *)
Definition rb_enqueue_pass (r : ring) (data : list Z) : ring * Z * list Z :=
  let r := if rb_len r =? 0 then mkRing (rb_cap r) (rb_store r) 0 (rb_len r) else r in
  let write_at := rb_get_idx r (rb_len r) in
  let max_size := rb_contiguous_window r in
  let size := Z.min max_size (l_len data) in
  let st := l_write write_at (l_take size data) (rb_store r) in
  (mkRing (rb_cap r) st (rb_read_at r) (rb_len r + size), size, l_drop size data).

Definition rb_enqueue_slice (r : ring) (data : list Z) : ring * Z :=
  let '(r1, size_1, rest) := rb_enqueue_pass r data in
  let '(r2, size_2, _) := rb_enqueue_pass r1 rest in
  (r2, size_1 + size_2).

(* dequeue_many_with(|buf| copy min(buf.len, n)): returns ring, the bytes *)
Definition rb_dequeue_pass (r : ring) (n : Z) : ring * list Z :=
  let max_size := Z.min (rb_len r) (rb_cap r - rb_read_at r) in
  let size := Z.min max_size n in
  let bytes := l_slice (rb_read_at r) size (rb_store r) in
  let read_at := if rb_cap r >? 0 then (rb_read_at r + size) mod rb_cap r else 0 in
  (mkRing (rb_cap r) (rb_store r) read_at (rb_len r - size), bytes).

Definition rb_dequeue_slice (r : ring) (n : Z) : ring * list Z :=
  let '(r1, b1) := rb_dequeue_pass r n in
  let '(r2, b2) := rb_dequeue_pass r1 (n - l_len b1) in
  (r2, l_app b1 b2).

(* get_unallocated: (start index, size) of the returned storage slice *)
Definition rb_get_unallocated (r : ring) (offset size : Z) : Z * Z :=
  let start_at := rb_get_idx r (rb_len r + offset) in
  if offset >? rb_window r then (start_at, 0)
  else
    let size := Z.min size (rb_window r - offset) in
    let size := Z.min size (rb_cap r - start_at) in
    (start_at, size).

Definition rb_write_pass (r : ring) (offset : Z) (data : list Z) : ring * Z :=
  let '(start_at, n) := rb_get_unallocated r offset (l_len data) in
  (mkRing (rb_cap r) (l_write start_at (l_take n data) (rb_store r)) (rb_read_at r) (rb_len r), n).

Definition rb_write_unallocated (r : ring) (offset : Z) (data : list Z) : ring * Z :=
  let '(r1, size_1) := rb_write_pass r offset data in
  let '(r2, size_2) := rb_write_pass r1 (offset + size_1) (l_drop size_1 data) in
  (r2, size_1 + size_2).

Definition rb_enqueue_unallocated (r : ring) (count : Z) : outcome ring :=
  if count <=? rb_window r
  then Ok (mkRing (rb_cap r) (rb_store r) (rb_read_at r) (rb_len r + count))
  else Panic.

Definition rb_get_allocated (r : ring) (offset size : Z) : list Z :=
  let start_at := rb_get_idx r offset in
  if offset >? rb_len r then []
  else
    let size := Z.min size (rb_len r - offset) in
    let size := Z.min size (rb_cap r - start_at) in
    l_slice start_at size (rb_store r).

Definition rb_read_allocated (r : ring) (offset n : Z) : list Z :=
  let b1 := rb_get_allocated r offset n in
  let b2 := rb_get_allocated r (offset + l_len b1) (n - l_len b1) in
  l_app b1 b2.

Definition rb_dequeue_allocated (r : ring) (count : Z) : outcome ring :=
  if count <=? rb_len r
  then Ok (mkRing (rb_cap r) (rb_store r) (rb_get_idx r count) (rb_len r - count))
  else Panic.

(* The slices the closure API sees (RingBuffer::enqueue_many_with / dequeue_many_with, l.180 / l.240):
   the largest contiguous unallocated slice (read_at is reset first when the ring is empty) and
   the largest contiguous allocated slice.  [rb_enqueue_pass] / [rb_dequeue_pass] are these two
   methods with the callback "copy min(slice length, wanted) elements". *)
Definition rb_enqueue_window (r : ring) : Z :=
  let r := if rb_len r =? 0 then mkRing (rb_cap r) (rb_store r) 0 (rb_len r) else r in
  rb_contiguous_window r.
Definition rb_dequeue_window (r : ring) : Z := Z.min (rb_len r) (rb_cap r - rb_read_at r).
