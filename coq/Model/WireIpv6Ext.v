(* Executable model of smoltcp::wire::ipv6ext_header (src/wire/ipv6ext_header.rs): the generic
   IPv6 extension header (next header, length in 8-octet units not counting the first 8
   octets, payload): Header accessors, check_len, Repr::{parse, header_len, emit}.

   `Repr` carries `data: &[u8]` (the payload, borrowed from the parsed buffer) but
   `Repr::emit` writes only the two header octets and `Repr::header_len()` is 2: the payload
   is emitted by the caller into `payload_mut()` (hop-by-hop options, routing header, fragment
   header).  The model follows this: [v6ext_emit] writes 2 octets into a buffer of
   [v6ext_buffer_len] = 2 octets (or the prefix of a longer one: [v6ext_emit_frame] in the
   proofs), [v6ext_put_payload] is the caller's `payload_mut().copy_from_slice(data)`, and the
   round trip is stated for header ++ data.

   Panic sources: slice indexing (data[LENGTH], &data[PAYLOAD(len)]).  No proofs in this file. *)
From SV Require Import Lib.Base Gen.WireFields Model.WireBase.

Record v6ext_repr := mkV6Ext { v6ext_nxt : Z; v6ext_length : Z; v6ext_data : list Z }.

(* field::PAYLOAD(length_field) = 2 .. length_field * 8 + 8 *)
Definition v6ext_f_PAYLOAD (len : Z) : Z * Z := (2, len * 8 + 8).

(* Header::check_len *)
Definition v6ext_check_len (bs : list Z) : outcome unit :=
  if blen bs <? wv6ext_f_MIN_HEADER_SIZE then Err 0
  else
    do l <- wb_get_u8 bs wv6ext_f_LENGTH;
    if blen bs <? snd (v6ext_f_PAYLOAD l) then Err 0 else Ok tt.

Definition v6ext_next_header (bs : list Z) : outcome Z := wb_get_u8 bs wv6ext_f_NXT_HDR.
Definition v6ext_header_len (bs : list Z) : outcome Z := wb_get_u8 bs wv6ext_f_LENGTH.
Definition v6ext_payload (bs : list Z) : outcome (list Z) :=
  do l <- wb_get_u8 bs wv6ext_f_LENGTH; wb_field bs (v6ext_f_PAYLOAD l).

Definition v6ext_set_next_header (bs : list Z) (v : Z) := wb_set_u8 bs wv6ext_f_NXT_HDR v.
Definition v6ext_set_header_len (bs : list Z) (v : Z) := wb_set_u8 bs wv6ext_f_LENGTH v.

(* payload_mut().copy_from_slice(data) — done by the caller of emit *)
Definition v6ext_put_payload (bs : list Z) (data : list Z) : outcome (list Z) :=
  do l <- wb_get_u8 bs wv6ext_f_LENGTH; wb_set_field bs (v6ext_f_PAYLOAD l) data.

(* Repr::parse *)
Definition v6ext_parse (bs : list Z) : outcome v6ext_repr :=
  do _ <- v6ext_check_len bs;
  do n <- v6ext_next_header bs;
  do l <- v6ext_header_len bs;
  do p <- v6ext_payload bs;
  Ok (mkV6Ext n l p).

(* Repr::header_len *)
Definition v6ext_buffer_len (r : v6ext_repr) : Z := 2.

(* Repr::emit *)
Definition v6ext_emit (r : v6ext_repr) (b : list Z) : outcome (list Z) :=
  do b <- v6ext_set_next_header b (v6ext_nxt r);
  v6ext_set_header_len b (v6ext_length r).

(* Proviso of C06 for the IPv6 extension header:
   - next_header and length are u8 (Rust types), data consists of octets;
   - data is exactly the payload the length field announces: |data| = length * 8 + 6
     (RFC 8200 4.3 / 4.4: the header is length * 8 + 8 octets long, two of them are the fixed
     part).  `parse` always produces this; a Repr built by hand with another data length
     describes no extension header. *)
Definition v6ext_wf (r : v6ext_repr) : bool :=
  is_u8 (v6ext_nxt r) && is_u8 (v6ext_length r) && bytes_ok (v6ext_data r) &&
  (blen (v6ext_data r) =? v6ext_length r * 8 + 6).

(* What every caller does (iface: `ext_hdr.emit(..)`, then the specific header is written into
   `payload_mut()`): header + payload into a buffer of the full header length. *)
Definition v6ext_total_len (r : v6ext_repr) : Z := v6ext_length r * 8 + 8.
Definition v6ext_emit_full (r : v6ext_repr) (b : list Z) : outcome (list Z) :=
  do b <- v6ext_emit r b; v6ext_put_payload b (v6ext_data r).
