(* Executable model of smoltcp::wire::igmp (src/wire/igmp.rs): Packet accessors, check_len,
   verify_checksum / fill_checksum (arithmetic abstracted), Repr::{parse, buffer_len, emit},
   max_resp_code_to_duration / duration_to_max_resp_code.

   Representation: group addresses are 4-octet lists; `max_resp_time : Duration` is its
   microsecond count (u64); `IgmpVersion` is an inductive.

   Checksum.  The RFC 1071 arithmetic belongs to property C08; here
     [sum_ok d]   = `checksum::data(d) == !0`
     [sum_fill d] = `!checksum::data(d)`
   are Section variables (explicit inputs); the driver instantiates them with the plain
   RFC 1071 function of WireBase.  `Repr::parse` does NOT verify the checksum (the caller does),
   so no link between the two is needed for the round trip.

   Panic sources: slice indexing in accessors / setters, `try_into().unwrap()` to [u8; 4]
   ([wb_arr 4]), copy_from_slice length mismatch in set_group_address.  The `while` loop of
   duration_to_max_resp_code runs at most 8 times (`exp < 8` is part of its condition): it is
   structural recursion on a fuel of 8 (see igmp_mant_exp_fuel in the proofs).
   No proofs in this file. *)
From SV Require Import Lib.Base Gen.WireFields Model.WireBase.

Inductive igmp_version := IgmpV1 | IgmpV2.

Inductive igmp_repr :=
| IgmpQuery (max_resp_time : Z) (group : list Z) (ver : igmp_version)
| IgmpReport (group : list Z) (ver : igmp_version)
| IgmpLeave (group : list Z).

(* enum Message *)
Definition igmp_MSG_QUERY : Z := 17.       (* 0x11 *)
Definition igmp_MSG_REPORT_V2 : Z := 22.   (* 0x16 *)
Definition igmp_MSG_LEAVE : Z := 23.       (* 0x17 *)
Definition igmp_MSG_REPORT_V1 : Z := 18.   (* 0x12 *)

Definition igmp_HEADER_LEN : Z := snd wigmp_f_GROUP_ADDRESS.

(* Packet::check_len *)
Definition igmp_check_len (bs : list Z) : outcome unit :=
  if blen bs <? snd wigmp_f_GROUP_ADDRESS then Err 0 else Ok tt.

Definition igmp_msg_type (bs : list Z) : outcome Z := wb_get_u8 bs wigmp_f_TYPE.
Definition igmp_max_resp_code (bs : list Z) : outcome Z := wb_get_u8 bs wigmp_f_MAX_RESP_CODE.
Definition igmp_checksum (bs : list Z) : outcome Z := wb_get_u16 bs wigmp_f_CHECKSUM.
Definition igmp_group_addr (bs : list Z) : outcome (list Z) :=
  do s <- wb_field bs wigmp_f_GROUP_ADDRESS; wb_arr 4 s.

Definition igmp_set_msg_type (bs : list Z) (v : Z) := wb_set_u8 bs wigmp_f_TYPE v.
Definition igmp_set_max_resp_code (bs : list Z) (v : Z) := wb_set_u8 bs wigmp_f_MAX_RESP_CODE v.
Definition igmp_set_checksum (bs : list Z) (v : Z) := wb_put_u16 bs wigmp_f_CHECKSUM v.
Definition igmp_set_group_address (bs : list Z) (a : list Z) := wb_set_field bs wigmp_f_GROUP_ADDRESS a.

(* Ipv4Address::is_unspecified / is_multicast on the octet list *)
Definition ipv4_addr_is_unspecified (a : list Z) : bool := forallb (fun x => x =? 0) a.
Definition ipv4_addr_is_multicast (a : list Z) : bool := (224 <=? nth 0 a 0) && (nth 0 a 0 <=? 239).

(* max_resp_code_to_duration; result in microseconds (Duration::from_millis(decisecs * 100)) *)
Definition igmp_max_resp_code_to_duration (value : Z) : Z :=
  let decisecs :=
    if value <? 128 then value
    else
      let mant := Z.land value 15 in
      let exp := Z.land (Z.shiftr value 4) 7 in
      Z.shiftl (Z.lor mant 16) (exp + 3) in
  decisecs * 100 * 1000.

(* the `while mant > 0x1F && exp < 0x8 { mant >>= 1; exp += 1 }` loop *)
Fixpoint igmp_mant_exp (fuel : nat) (mant exp : Z) : Z * Z :=
  match fuel with
  | O => (mant, exp)
  | S f => if (mant >? 31) && (exp <? 8) then igmp_mant_exp f (Z.shiftr mant 1) (exp + 1) else (mant, exp)
  end.

(* duration_to_max_resp_code; `duration.total_millis()` = micros / 1000 *)
Definition igmp_duration_to_max_resp_code (micros : Z) : Z :=
  let decisecs := (micros / 1000) / 100 in
  if decisecs <? 128 then decisecs mod 256
  else if decisecs <? 31744 then
    let '(mant, exp) := igmp_mant_exp 8 (Z.shiftr decisecs 3) 0 in
    Z.lor (Z.lor 128 (Z.shiftl exp 4)) (Z.land (mant mod 256) 15)
  else 255.

Section Checksum.
Variable sum_ok : list Z -> bool.
Variable sum_fill : list Z -> Z.

(* Packet::verify_checksum: over the whole buffer *)
Definition igmp_verify_checksum (bs : list Z) : outcome bool := Ok (sum_ok bs).

(* Packet::fill_checksum *)
Definition igmp_fill_checksum (bs : list Z) : outcome (list Z) :=
  do bs <- igmp_set_checksum bs 0;
  igmp_set_checksum bs (sum_fill bs).

(* Repr::parse *)
Definition igmp_parse (bs : list Z) : outcome igmp_repr :=
  do _ <- igmp_check_len bs;
  do addr <- igmp_group_addr bs;
  do _ <- wb_guard (ipv4_addr_is_unspecified addr || ipv4_addr_is_multicast addr);
  do t <- igmp_msg_type bs;
  if t =? igmp_MSG_QUERY then
    do c <- igmp_max_resp_code bs;
    let max_resp_time := igmp_max_resp_code_to_duration c in
    do c <- igmp_max_resp_code bs;
    Ok (IgmpQuery max_resp_time addr (if c =? 0 then IgmpV1 else IgmpV2))
  else if t =? igmp_MSG_REPORT_V2 then
    do a <- igmp_group_addr bs; Ok (IgmpReport a IgmpV2)
  else if t =? igmp_MSG_LEAVE then
    do a <- igmp_group_addr bs; Ok (IgmpLeave a)
  else if t =? igmp_MSG_REPORT_V1 then
    do a <- igmp_group_addr bs; Ok (IgmpReport a IgmpV1)
  else Err 0.

(* Repr::buffer_len *)
Definition igmp_buffer_len (r : igmp_repr) : Z := snd wigmp_f_GROUP_ADDRESS.

(* Repr::emit *)
Definition igmp_emit (r : igmp_repr) (b : list Z) : outcome (list Z) :=
  do b <-
    match r with
    | IgmpQuery max_resp_time group ver =>
        do b <- igmp_set_msg_type b igmp_MSG_QUERY;
        do b <- match ver with
                | IgmpV1 => igmp_set_max_resp_code b 0
                | IgmpV2 => igmp_set_max_resp_code b (igmp_duration_to_max_resp_code max_resp_time)
                end;
        igmp_set_group_address b group
    | IgmpReport group ver =>
        do b <- match ver with
                | IgmpV1 => igmp_set_msg_type b igmp_MSG_REPORT_V1
                | IgmpV2 => igmp_set_msg_type b igmp_MSG_REPORT_V2
                end;
        do b <- igmp_set_max_resp_code b 0;
        igmp_set_group_address b group
    | IgmpLeave group =>
        do b <- igmp_set_msg_type b igmp_MSG_LEAVE;
        do b <- igmp_set_max_resp_code b 0;
        igmp_set_group_address b group
    end;
  igmp_fill_checksum b.

End Checksum.

(* Proviso of C06 for IGMP:
   - the group address is a [u8; 4] (Rust type) and is 0.0.0.0 or multicast: `Repr::parse`
     rejects every other group address (RFC 2236: general queries carry 0.0.0.0, everything
     else a class D address);
   - MembershipQuery / Version1: the IGMPv1 query has no Max Resp Time (the octet is sent as 0),
     so only max_resp_time = 0 survives;
   - MembershipQuery / Version2: the Max Resp Time travels as an 8-bit code (RFC 3376 4.1.1:
     linear below 128 deciseconds, 4-bit mantissa / 3-bit exponent above) - only the 255
     durations that are the value of a non-zero code are representable, all others are
     rounded by design; code 0 means Version1.  Stated directly: the code emitted for the
     duration is non-zero and decodes to the same duration;
   - max_resp_time is a u64 microsecond count (Rust type). *)
Definition igmp_group_ok (a : list Z) : bool :=
  is_arr 4 a && (ipv4_addr_is_unspecified a || ipv4_addr_is_multicast a).

Definition igmp_wf (r : igmp_repr) : bool :=
  match r with
  | IgmpQuery d group IgmpV1 => igmp_group_ok group && (d =? 0)
  | IgmpQuery d group IgmpV2 =>
      igmp_group_ok group && (0 <=? d) && (d <? 2 ^ 64) &&
      negb (igmp_duration_to_max_resp_code d =? 0) &&
      (igmp_max_resp_code_to_duration (igmp_duration_to_max_resp_code d) =? d)
  | IgmpReport group _ => igmp_group_ok group
  | IgmpLeave group => igmp_group_ok group
  end.
