(* Executable model of smoltcp::wire::ethernet (src/wire/ethernet.rs): Frame accessors,
   check_len, Repr::{parse, buffer_len, emit}.  Field offsets come from Gen/WireFields.v.

   Representation: addresses are 6-octet lists; [EtherType] is its raw u16 (the Rust enum
   `enum_with_unknown!` is a bijection with u16 once `Unknown(x)` is restricted to values
   that are not a named variant, which is what `EtherType::from` produces).

   Panic sources: slice indexing in every accessor/setter ([wb_sub]/[wb_set_slice]),
   `Address::from_bytes` (copy_from_slice into [u8; 6]: [wb_arr 6]) and the `assert!` at the
   top of `Repr::emit`.  No proofs in this file. *)
From SV Require Import Lib.Base Gen.WireFields Model.WireBase.

Record eth_repr := mkEth { eth_src : list Z; eth_dst : list Z; eth_type : Z }.

Definition eth_HEADER_LEN : Z := weth_f_PAYLOAD.

(* Frame::check_len *)
Definition eth_check_len (bs : list Z) : outcome unit :=
  if blen bs <? eth_HEADER_LEN then Err 0 else Ok tt.

(* Frame::dst_addr / src_addr / ethertype / payload *)
Definition eth_dst_addr (bs : list Z) : outcome (list Z) :=
  do s <- wb_field bs weth_f_DESTINATION; wb_arr 6 s.
Definition eth_src_addr (bs : list Z) : outcome (list Z) :=
  do s <- wb_field bs weth_f_SOURCE; wb_arr 6 s.
Definition eth_ethertype (bs : list Z) : outcome Z := wb_get_u16 bs weth_f_ETHERTYPE.
Definition eth_payload (bs : list Z) : outcome (list Z) := wb_from bs weth_f_PAYLOAD.

(* Frame::set_dst_addr / set_src_addr / set_ethertype *)
Definition eth_set_dst_addr (bs : list Z) (v : list Z) := wb_set_field bs weth_f_DESTINATION v.
Definition eth_set_src_addr (bs : list Z) (v : list Z) := wb_set_field bs weth_f_SOURCE v.
Definition eth_set_ethertype (bs : list Z) (v : Z) := wb_put_u16 bs weth_f_ETHERTYPE v.

(* Repr::parse *)
Definition eth_parse (bs : list Z) : outcome eth_repr :=
  do _ <- eth_check_len bs;
  do s <- eth_src_addr bs;
  do d <- eth_dst_addr bs;
  do t <- eth_ethertype bs;
  Ok (mkEth s d t).

(* Repr::buffer_len *)
Definition eth_buffer_len (r : eth_repr) : Z := eth_HEADER_LEN.

(* Repr::emit *)
Definition eth_emit (r : eth_repr) (b : list Z) : outcome (list Z) :=
  do _ <- wb_assert (blen b >=? eth_buffer_len r);
  do b <- eth_set_src_addr b (eth_src r);
  do b <- eth_set_dst_addr b (eth_dst r);
  eth_set_ethertype b (eth_type r).

(* Proviso of C06 for this format: none beyond the Rust types themselves
   ([u8; 6] addresses, u16 EtherType). *)
Definition eth_wf (r : eth_repr) : bool :=
  is_arr 6 (eth_src r) && is_arr 6 (eth_dst r) && is_u16 (eth_type r).
