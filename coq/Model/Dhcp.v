(* Executable model of the DHCPv4 client socket, src/socket/dhcpv4.rs (property C18), and of the
   part of the Interface that feeds it (src/iface/interface/{mod,ipv4,ethernet}.rs, socket_meta.rs,
   neighbor.rs) as far as the correspondence stream `dhcp` observes it.  NO proofs in this file.

   Conventions
   * Instant = i64 microseconds, Duration = u64 microseconds, both as Z.  Every Rust operation that can
     panic under overflow checks (Instant + Duration, Instant - Instant, Duration - Duration, Duration *
     u32, Duration << u32, u16 += 1, usize -) is a checked operation in the [outcome] monad; the wrapping
     casts (`as i64`, `as u16`) wrap explicitly.
   * Function names are the Rust names with the prefix dhcp_ (socket) / dhif_ (interface glue); branch order
     follows the source.  The model is of the code AFTER the three `fix:` commits of known_findings.txt
     (ACK in Requesting needs retry > 0; OFFER needs a unicast IP source; reset is followed by the
     DISCOVER in the same dispatch).
   * IPv4 addresses are Z in [0, 2^32), hardware addresses Z; the byte-level DHCP parser is not modelled:
     [dhcp_process] takes the result of DhcpPacket::new_checked + DhcpRepr::parse as [option dhcp_repr]. *)
From SV Require Import Lib.Base Gen.Consts.

(* ------------------------------------------------------------------------------------------------ *)
(** * time arithmetic (src/time.rs) *)

Definition dh_I64_MAX : Z := 9223372036854775807.
Definition dh_I64_MIN : Z := -9223372036854775808.
Definition dh_U64 : Z := 18446744073709551616.
Definition dh_DURATION_MAX : Z := 18446744073709551615.

Definition dh_in_i64 (x : Z) : bool := (dh_I64_MIN <=? x) && (x <=? dh_I64_MAX).
(* `rhs.total_micros() as i64` *)
Definition dh_as_i64 (d : Z) : Z := if d <=? dh_I64_MAX then d else d - dh_U64.
(* impl Add<Duration> for Instant *)
Definition dh_inst_add (t d : Z) : outcome Z :=
  let r := t + dh_as_i64 d in if dh_in_i64 r then Ok r else Panic.
(* impl Sub<Instant> for Instant : (a - b).unsigned_abs() *)
Definition dh_inst_sub (a b : Z) : outcome Z :=
  let r := a - b in if dh_in_i64 r then Ok (Z.abs r) else Panic.
(* impl Sub<Duration> for Duration : checked_sub().expect() *)
Definition dh_dur_sub (a b : Z) : outcome Z := if b <=? a then Ok (a - b) else Panic.
Definition dh_dur_add (a b : Z) : outcome Z := if a + b <? dh_U64 then Ok (a + b) else Panic.
Definition dh_dur_mul (a k : Z) : outcome Z := if a * k <? dh_U64 then Ok (a * k) else Panic.
(* impl Shl<u32> for Duration : `self.micros << rhs` panics (overflow checks) iff rhs >= 64, bits shifted out are lost *)
Definition dh_dur_shl (a k : Z) : outcome Z := if k <? 64 then Ok ((a * 2 ^ k) mod dh_U64) else Panic.
Definition dh_from_secs (s : Z) : Z := s * 1000000.

(* ------------------------------------------------------------------------------------------------ *)
(** * IPv4 address predicates (src/wire/ipv4.rs) *)

Definition ip_BROADCAST : Z := 4294967295.
Definition ip_is_broadcast (a : Z) : bool := a =? ip_BROADCAST.
Definition ip_is_multicast (a : Z) : bool := a / 268435456 =? 14.     (* 224.0.0.0/4 *)
Definition ip_is_unspecified (a : Z) : bool := a =? 0.
Definition ip_x_is_unicast (a : Z) : bool :=
  negb (ip_is_broadcast a || ip_is_multicast a || ip_is_unspecified a).

(* Cidr::netmask : prefix_len -> mask *)
Definition ip_netmask (p : Z) : Z := if p =? 0 then 0 else 4294967296 - 2 ^ (32 - p).
(* AddressExt::prefix_len : Some p iff the mask is p ones followed by zeroes *)
Definition ip_prefix_len (m : Z) : option Z :=
  find (fun p => m =? ip_netmask p) (map Z.of_nat (seq 0 33)).

(* ------------------------------------------------------------------------------------------------ *)
(** * socket data *)

Record dhcp_server_info := mkServerInfo { si_address : Z; si_identifier : Z }.

Record dhcp_config := mkConfig {
  cf_server : dhcp_server_info;
  cf_address : Z;              (* Ipv4Cidr address *)
  cf_prefix_len : Z;           (* Ipv4Cidr prefix length *)
  cf_router : option Z;
  cf_dns_servers : list Z }.

Definition dh_opt_eqb (a b : option Z) : bool :=
  match a, b with Some x, Some y => x =? y | None, None => true | _, _ => false end.
Fixpoint dh_list_eqb (a b : list Z) : bool :=
  match a, b with
  | [], [] => true
  | x :: a', y :: b' => (x =? y) && dh_list_eqb a' b'
  | _, _ => false
  end.
(* derive(PartialEq) on Config (the `packet` field is None on both sides where the socket compares) *)
Definition dhcp_config_eqb (a b : dhcp_config) : bool :=
  (si_address (cf_server a) =? si_address (cf_server b)) &&
  (si_identifier (cf_server a) =? si_identifier (cf_server b)) &&
  (cf_address a =? cf_address b) && (cf_prefix_len a =? cf_prefix_len b) &&
  dh_opt_eqb (cf_router a) (cf_router b) && dh_list_eqb (cf_dns_servers a) (cf_dns_servers b).

Inductive dhcp_client_state :=
| Discovering (retry_at : Z)
| Requesting (retry_at : Z) (retry : Z) (server : dhcp_server_info) (requested_ip : Z)
| Renewing (config : dhcp_config) (renew_at rebind_at : Z) (rebinding : bool) (expires_at : Z).

Record dhcp_retry_config := mkRetry {
  rc_discover_timeout : Z;
  rc_initial_request_timeout : Z;
  rc_request_retries : Z;          (* u16 *)
  rc_min_renew_timeout : Z;
  rc_max_renew_timeout : Z }.

(* impl Default for RetryConfig (a struct literal, not `const`s: not reachable by the translator; the
   theorems quantify over every RetryConfig, the correspondence runs this default in most cases) *)
Definition dhcp_retry_default : dhcp_retry_config :=
  mkRetry 10000000 5000000 5 60000000 dh_DURATION_MAX.

Record dhcp_socket := mkSock {
  ds_state : dhcp_client_state;
  ds_config_changed : bool;
  ds_transaction_id : Z;
  ds_max_lease_duration : option Z;
  ds_retry_config : dhcp_retry_config;
  ds_ignore_naks : bool;
  ds_server_port : Z;
  ds_client_port : Z;
  ds_has_rx_buffer : bool }.      (* receive_packet_buffer.is_some() *)

Definition dhcp_set_state (s : dhcp_socket) (st : dhcp_client_state) : dhcp_socket :=
  mkSock st (ds_config_changed s) (ds_transaction_id s) (ds_max_lease_duration s) (ds_retry_config s)
         (ds_ignore_naks s) (ds_server_port s) (ds_client_port s) (ds_has_rx_buffer s).
Definition dhcp_set_config_changed (s : dhcp_socket) (b : bool) : dhcp_socket :=
  mkSock (ds_state s) b (ds_transaction_id s) (ds_max_lease_duration s) (ds_retry_config s)
         (ds_ignore_naks s) (ds_server_port s) (ds_client_port s) (ds_has_rx_buffer s).
Definition dhcp_set_transaction_id (s : dhcp_socket) (x : Z) : dhcp_socket :=
  mkSock (ds_state s) (ds_config_changed s) x (ds_max_lease_duration s) (ds_retry_config s)
         (ds_ignore_naks s) (ds_server_port s) (ds_client_port s) (ds_has_rx_buffer s).

(* Socket::new *)
Definition dhcp_new : dhcp_socket :=
  mkSock (Discovering 0) true 1 None dhcp_retry_default false wdhcp_SERVER_PORT wdhcp_CLIENT_PORT false.

(* setters *)
Definition dhcp_set_retry_config (s : dhcp_socket) (c : dhcp_retry_config) : dhcp_socket :=
  mkSock (ds_state s) (ds_config_changed s) (ds_transaction_id s) (ds_max_lease_duration s) c
         (ds_ignore_naks s) (ds_server_port s) (ds_client_port s) (ds_has_rx_buffer s).
Definition dhcp_set_max_lease_duration (s : dhcp_socket) (m : option Z) : dhcp_socket :=
  mkSock (ds_state s) (ds_config_changed s) (ds_transaction_id s) m (ds_retry_config s)
         (ds_ignore_naks s) (ds_server_port s) (ds_client_port s) (ds_has_rx_buffer s).
Definition dhcp_set_ignore_naks (s : dhcp_socket) (b : bool) : dhcp_socket :=
  mkSock (ds_state s) (ds_config_changed s) (ds_transaction_id s) (ds_max_lease_duration s) (ds_retry_config s)
         b (ds_server_port s) (ds_client_port s) (ds_has_rx_buffer s).
Definition dhcp_set_ports (s : dhcp_socket) (sp cp : Z) : dhcp_socket :=
  mkSock (ds_state s) (ds_config_changed s) (ds_transaction_id s) (ds_max_lease_duration s) (ds_retry_config s)
         (ds_ignore_naks s) sp cp (ds_has_rx_buffer s).
Definition dhcp_set_receive_packet_buffer (s : dhcp_socket) : dhcp_socket :=
  mkSock (ds_state s) (ds_config_changed s) (ds_transaction_id s) (ds_max_lease_duration s) (ds_retry_config s)
         (ds_ignore_naks s) (ds_server_port s) (ds_client_port s) true.

(* ------------------------------------------------------------------------------------------------ *)
(** * received message (the DhcpRepr fields the socket reads) *)

Inductive dhcp_msg_type :=
| MtDiscover | MtOffer | MtRequest | MtDecline | MtAck | MtNak | MtRelease | MtInform | MtUnknown.

Record dhcp_repr := mkRepr {
  r_message_type : dhcp_msg_type;
  r_transaction_id : Z;
  r_client_hardware_address : Z;
  r_your_ip : Z;
  r_server_identifier : option Z;
  r_subnet_mask : option Z;
  r_router : option Z;
  r_lease_duration : option Z;      (* seconds, u32 *)
  r_renew_duration : option Z;      (* T1, seconds *)
  r_rebind_duration : option Z;     (* T2, seconds *)
  r_dns_servers : option (list Z) }.

(* ------------------------------------------------------------------------------------------------ *)
(** * poll_at, reset, config_changed, poll *)

Definition dhcp_poll_at (s : dhcp_socket) : Z :=
  match ds_state s with
  | Discovering retry_at => retry_at
  | Requesting retry_at _ _ _ => retry_at
  | Renewing _ renew_at rebind_at rebinding expires_at =>
      Z.min (if rebinding then rebind_at else Z.min renew_at rebind_at) expires_at
  end.

Definition dhcp_reset (s : dhcp_socket) : dhcp_socket :=
  let s1 := match ds_state s with
            | Renewing _ _ _ _ _ => dhcp_set_config_changed s true
            | _ => s
            end in
  dhcp_set_state s1 (Discovering 0).

Inductive dhcp_event :=
| EvDeconfigured
| EvConfigured (c : dhcp_config) (has_packet : bool).

Definition dhcp_poll (s : dhcp_socket) : dhcp_socket * option dhcp_event :=
  if negb (ds_config_changed s) then (s, None)
  else match ds_state s with
       | Renewing config _ _ _ _ =>
           (dhcp_set_config_changed s false, Some (EvConfigured config (ds_has_rx_buffer s)))
       | _ => (dhcp_set_config_changed s false, Some EvDeconfigured)
       end.

(* ------------------------------------------------------------------------------------------------ *)
(** * parse_ack *)

Definition dhcp_t1_t2 (lease : Z) (t1 t2 : option Z) : outcome (Z * Z) :=
  let dflt := do m <- dh_dur_mul lease 7; Ok (lease / 2, m / 8) in
  match option_map dh_from_secs t1, option_map dh_from_secs t2 with
  | Some renew, Some rebind =>
      if (renew <? rebind) && (rebind <? lease) then Ok (renew, rebind) else dflt
  | Some renew, None =>
      if renew <? lease then
        do d <- dh_dur_sub lease renew;
        do m <- dh_dur_mul d 3;
        do r <- dh_dur_add renew (m / 4);
        Ok (renew, r)
      else dflt
  | None, Some rebind =>
      if rebind <? lease then Ok (Z.min (lease / 2) rebind, rebind) else dflt
  | None, None => dflt
  end.

Definition dhcp_lease_duration (r : dhcp_repr) (max_lease_duration : option Z) : Z :=
  let lease := match r_lease_duration r with
               | Some d => dh_from_secs d
               | None => dhcp_DEFAULT_LEASE_DURATION
               end in
  match max_lease_duration with Some m => Z.min lease m | None => lease end.

Definition dhcp_parse_ack (now : Z) (r : dhcp_repr) (max_lease_duration : option Z) (server : dhcp_server_info)
  : outcome (option (dhcp_config * Z * Z * Z)) :=
  match r_subnet_mask r with
  | None => Ok None
  | Some subnet_mask =>
  match ip_prefix_len subnet_mask with
  | None => Ok None
  | Some prefix_len =>
  if negb (ip_x_is_unicast (r_your_ip r)) then Ok None else
  let lease_duration := dhcp_lease_duration r max_lease_duration in
  let dns_servers :=
    firstn (Z.to_nat wdhcp_MAX_DNS_SERVER_COUNT)
           (filter ip_x_is_unicast (match r_dns_servers r with Some l => l | None => [] end)) in
  let config := mkConfig server (r_your_ip r) prefix_len (r_router r) dns_servers in
  do rr <- dhcp_t1_t2 lease_duration (r_renew_duration r) (r_rebind_duration r);
  let '(renew_duration, rebind_duration) := rr in
  do renew_at <- dh_inst_add now renew_duration;
  do rebind_at <- dh_inst_add now rebind_duration;
  do expires_at <- dh_inst_add now lease_duration;
  Ok (Some (config, renew_at, rebind_at, expires_at))
  end end.

(* ------------------------------------------------------------------------------------------------ *)
(** * process *)

(* [parsed] = result of DhcpPacket::new_checked + DhcpRepr::parse (None = Err: the datagram is ignored);
   [hw] = cx.hardware_addr(), [now] = cx.now(), [src_ip] = ip_repr.src_addr. *)
Definition dhcp_process (hw now src_ip src_port dst_port : Z) (parsed : option dhcp_repr) (s : dhcp_socket)
  : outcome dhcp_socket :=
  (* assert!(repr.src_port == self.server_port && repr.dst_port == self.client_port) *)
  if negb ((src_port =? ds_server_port s) && (dst_port =? ds_client_port s)) then Panic else
  match parsed with
  | None => Ok s
  | Some r =>
  if negb (r_client_hardware_address r =? hw) then Ok s else
  if negb (r_transaction_id r =? ds_transaction_id s) then Ok s else
  match r_server_identifier r with
  | None => Ok s
  | Some server_identifier =>
  match ds_state s, r_message_type r with
  | Discovering _, MtOffer =>
      if negb (ip_x_is_unicast (r_your_ip r)) then Ok s else
      if negb (ip_x_is_unicast src_ip) then Ok s else
      Ok (dhcp_set_state s (Requesting now 0 (mkServerInfo src_ip server_identifier) (r_your_ip r)))
  | Requesting _ retry server _, MtAck =>
      if retry =? 0 then Ok s else
      do pa <- dhcp_parse_ack now r (ds_max_lease_duration s) server;
      match pa with
      | Some (config, renew_at, rebind_at, expires_at) =>
          Ok (dhcp_set_config_changed
                (dhcp_set_state s (Renewing config renew_at rebind_at false expires_at)) true)
      | None => Ok s
      end
  | Requesting _ _ _ _, MtNak =>
      if ds_ignore_naks s then Ok s else Ok (dhcp_reset s)
  | Renewing old_config _ _ _ _, MtAck =>
      do pa <- dhcp_parse_ack now r (ds_max_lease_duration s) (cf_server old_config);
      match pa with
      | Some (config, renew_at, rebind_at, expires_at) =>
          let differs := negb (dhcp_config_eqb old_config config) in
          let config_changed := differs || ds_has_rx_buffer s in
          let s1 := dhcp_set_state s (Renewing (if differs then config else old_config)
                                               renew_at rebind_at false expires_at) in
          Ok (if config_changed then dhcp_set_config_changed s1 true else s1)
      | None => Ok s
      end
  | Renewing _ _ _ _ _, MtNak =>
      if ds_ignore_naks s then Ok s else Ok (dhcp_reset s)
  | _, _ => Ok s
  end end end.

(* ------------------------------------------------------------------------------------------------ *)
(** * dispatch *)

(* the (Ipv4Repr, UdpRepr, DhcpRepr) handed to `emit`, restricted to the fields that vary *)
Record dhcp_tx := mkTx {
  tx_message_type : dhcp_msg_type;
  tx_transaction_id : Z;
  tx_client_ip : Z;
  tx_requested_ip : option Z;
  tx_server_identifier : option Z;
  tx_src_addr : Z;
  tx_dst_addr : Z;
  tx_src_port : Z;
  tx_dst_port : Z;
  tx_max_size : Z }.

Inductive dhcp_dispatch_result :=
| DrNone                      (* dispatch returned Ok(()) without calling emit *)
| DrSent (f : dhcp_tx)        (* emit called and returned Ok *)
| DrErr (f : dhcp_tx).        (* emit called and returned Err (propagated by `?`) *)

(* max_size: Some((cx.ip_mtu() - MAX_IPV4_HEADER_LEN - UDP_HEADER_LEN) as u16) *)
Definition dhcp_max_size (ip_mtu : Z) : outcome Z :=
  if ip_mtu <? dhcp_MAX_IPV4_HEADER_LEN + wudp_HEADER_LEN then Panic
  else Ok ((ip_mtu - dhcp_MAX_IPV4_HEADER_LEN - wudp_HEADER_LEN) mod 65536).

(* ClientState::Discovering branch; [next_xid] = the value Self::random_transaction_id(cx) returns *)
Definition dhcp_dispatch_discovering (max_size now next_xid : Z) (emit : dhcp_tx -> bool)
           (s : dhcp_socket) (retry_at : Z) : outcome (dhcp_socket * dhcp_dispatch_result) :=
  if now <? retry_at then Ok (s, DrNone) else
  let f := mkTx MtDiscover next_xid 0 None None 0 ip_BROADCAST (ds_client_port s) (ds_server_port s) max_size in
  if emit f then
    do retry_at' <- dh_inst_add now (rc_discover_timeout (ds_retry_config s));
    Ok (dhcp_set_transaction_id (dhcp_set_state s (Discovering retry_at')) next_xid, DrSent f)
  else Ok (s, DrErr f).

Definition dhcp_dispatch (ip_mtu now next_xid : Z) (emit : dhcp_tx -> bool) (s : dhcp_socket)
  : outcome (dhcp_socket * dhcp_dispatch_result) :=
  do max_size <- dhcp_max_size ip_mtu;
  match ds_state s with
  | Discovering retry_at => dhcp_dispatch_discovering max_size now next_xid emit s retry_at
  | Requesting retry_at retry server requested_ip =>
      if now <? retry_at then Ok (s, DrNone) else
      if rc_request_retries (ds_retry_config s) <=? retry then
        (* self.reset(); return self.dispatch(cx, emit) *)
        dhcp_dispatch_discovering max_size now next_xid emit (dhcp_reset s) 0
      else
      let f := mkTx MtRequest (ds_transaction_id s) 0 (Some requested_ip) (Some (si_identifier server))
                    0 ip_BROADCAST (ds_client_port s) (ds_server_port s) max_size in
      if emit f then
        (* initial_request_timeout << (retry as u32 / 2) *)
        do backoff <- dh_dur_shl (rc_initial_request_timeout (ds_retry_config s)) (retry / 2);
        do retry_at' <- dh_inst_add now backoff;
        (* state.retry += 1   (u16) *)
        if 65535 <? retry + 1 then Panic else
        Ok (dhcp_set_state s (Requesting retry_at' (retry + 1) server requested_ip), DrSent f)
      else Ok (s, DrErr f)
  | Renewing config renew_at rebind_at rebinding expires_at =>
      if expires_at <=? now then
        dhcp_dispatch_discovering max_size now next_xid emit (dhcp_reset s) 0
      else
      if (now <? renew_at) || (rebinding && (now <? rebind_at)) then Ok (s, DrNone) else
      (* state.rebinding |= now >= state.rebind_at   -- before emit *)
      let rebinding' := rebinding || (rebind_at <=? now) in
      let dst := if rebinding' then ip_BROADCAST else si_address (cf_server config) in
      let f := mkTx MtRequest next_xid (cf_address config) None None (cf_address config) dst
                    (ds_client_port s) (ds_server_port s) max_size in
      if emit f then
        let rc := ds_retry_config s in
        if rebinding' then
          do d <- dh_inst_sub expires_at now;
          let wait := Z.min (Z.max (rc_min_renew_timeout rc) (d / 2)) (rc_max_renew_timeout rc) in
          do rebind_at' <- dh_inst_add now wait;
          Ok (dhcp_set_transaction_id
                (dhcp_set_state s (Renewing config renew_at rebind_at' true expires_at)) next_xid, DrSent f)
        else
          do d <- dh_inst_sub rebind_at now;
          let wait := Z.min (Z.min (Z.max (rc_min_renew_timeout rc) (d / 2)) d) (rc_max_renew_timeout rc) in
          do renew_at' <- dh_inst_add now wait;
          Ok (dhcp_set_transaction_id
                (dhcp_set_state s (Renewing config renew_at' rebind_at false expires_at)) next_xid, DrSent f)
      else
        Ok (dhcp_set_state s (Renewing config renew_at rebind_at rebinding' expires_at), DrErr f)
  end.

(* ------------------------------------------------------------------------------------------------ *)
(** * the socket as a state machine over its whole API (used by the theorems) *)

Inductive dhcp_call :=
| CProcess (now src_ip src_port dst_port : Z) (parsed : option dhcp_repr)
| CDispatch (ip_mtu now next_xid : Z) (emit_ok : bool)
| CPoll
| CReset
| CSetRetryConfig (c : dhcp_retry_config)
| CSetMaxLeaseDuration (m : option Z)
| CSetIgnoreNaks (b : bool)
| CSetPorts (sp cp : Z)
| CSetReceivePacketBuffer.

Inductive dhcp_ret :=
| RUnit
| RDispatch (r : dhcp_dispatch_result)
| REvent (e : option dhcp_event).

Definition dhcp_call_step (hw : Z) (s : dhcp_socket) (c : dhcp_call) : outcome (dhcp_socket * dhcp_ret) :=
  match c with
  | CProcess now src_ip sp dp parsed =>
      do s' <- dhcp_process hw now src_ip sp dp parsed s; Ok (s', RUnit)
  | CDispatch ip_mtu now next_xid emit_ok =>
      do sr <- dhcp_dispatch ip_mtu now next_xid (fun _ => emit_ok) s;
      Ok (fst sr, RDispatch (snd sr))
  | CPoll => let (s', e) := dhcp_poll s in Ok (s', REvent e)
  | CReset => Ok (dhcp_reset s, RUnit)
  | CSetRetryConfig c => Ok (dhcp_set_retry_config s c, RUnit)
  | CSetMaxLeaseDuration m => Ok (dhcp_set_max_lease_duration s m, RUnit)
  | CSetIgnoreNaks b => Ok (dhcp_set_ignore_naks s b, RUnit)
  | CSetPorts sp cp => Ok (dhcp_set_ports s sp cp, RUnit)
  | CSetReceivePacketBuffer => Ok (dhcp_set_receive_packet_buffer s, RUnit)
  end.

(* ------------------------------------------------------------------------------------------------ *)
(** * Interface glue (what stream `dhcp` drives): ingress filters, socket Meta, neighbor cache, routes *)

Inductive dhif_frame :=
| FrDhcp (eth_dst : Z) (ip_ok udp_ok : bool) (src_ip dst_ip src_port dst_port : Z) (parsed : option dhcp_repr)
    (* eth_dst: 0 = broadcast, 1 = the interface's own address, anything else = another station *)
| FrArp (spa tpa : Z).

Record dhif := mkIf {
  if_sock : dhcp_socket;
  if_meta : option (Z * Z);          (* socket_meta::NeighborState::Waiting { neighbor, silent_until } *)
  if_cidr : option (Z * Z);          (* ip_addrs = [address/prefix] applied by the application *)
  if_router : option Z;              (* default IPv4 route *)
  if_ncache : list (Z * Z);          (* neighbor cache: protocol address -> expires_at *)
  if_nc_silent_until : Z;            (* neighbor cache silent_until *)
  if_rxq : list dhif_frame;          (* frames waiting in the device *)
  if_draws : Z }.                    (* number of values taken from the interface RNG *)

Definition dhif_new (s : dhcp_socket) : dhif := mkIf s None None None [] 0 [] 0.

Definition dhif_with_sock (i : dhif) (s : dhcp_socket) : dhif :=
  mkIf s (if_meta i) (if_cidr i) (if_router i) (if_ncache i) (if_nc_silent_until i) (if_rxq i) (if_draws i).
Definition dhif_with_meta (i : dhif) (m : option (Z * Z)) : dhif :=
  mkIf (if_sock i) m (if_cidr i) (if_router i) (if_ncache i) (if_nc_silent_until i) (if_rxq i) (if_draws i).
Definition dhif_with_rxq (i : dhif) (q : list dhif_frame) : dhif :=
  mkIf (if_sock i) (if_meta i) (if_cidr i) (if_router i) (if_ncache i) (if_nc_silent_until i) q (if_draws i).

(* Ipv4Cidr::contains_addr / broadcast *)
Definition ip_cidr_contains (addr p a : Z) : bool :=
  Z.land addr (ip_netmask p) =? Z.land a (ip_netmask p).
Definition ip_cidr_broadcast (addr p : Z) : option Z :=
  if (p =? 31) || (p =? 32) then None
  else Some (Z.lor (Z.land addr (ip_netmask p)) (Z.shiftr ip_BROADCAST p)).

Definition dhif_is_broadcast_v4 (i : dhif) (a : Z) : bool :=
  ip_is_broadcast a ||
  match if_cidr i with
  | Some (addr, p) => match ip_cidr_broadcast addr p with Some b => a =? b | None => false end
  | None => false
  end.
Definition dhif_is_unicast_v4 (i : dhif) (a : Z) : bool :=
  ip_x_is_unicast a && negb (dhif_is_broadcast_v4 i a).
Definition dhif_in_same_network (i : dhif) (a : Z) : bool :=
  match if_cidr i with Some (addr, p) => ip_cidr_contains addr p a | None => false end.
(* InterfaceInner::route *)
Definition dhif_route (i : dhif) (a : Z) : option Z :=
  if dhif_in_same_network i a || ip_is_broadcast a then Some a else if_router i.

Inductive dhif_answer := NcFound | NcNotFound | NcRateLimited.
Fixpoint dhif_assoc (l : list (Z * Z)) (k : Z) : option Z :=
  match l with
  | [] => None
  | (k', v) :: l' => if k' =? k then Some v else dhif_assoc l' k
  end.
(* neighbor::Cache::lookup *)
Definition dhif_nc_lookup (i : dhif) (a now : Z) : dhif_answer :=
  match dhif_assoc (if_ncache i) a with
  | Some expires_at => if now <? expires_at then NcFound
                       else if now <? if_nc_silent_until i then NcRateLimited else NcNotFound
  | None => if now <? if_nc_silent_until i then NcRateLimited else NcNotFound
  end.
Definition dhif_has_neighbor (i : dhif) (a now : Z) : bool :=
  match dhif_route i a with
  | Some r => match dhif_nc_lookup i r now with NcFound => true | _ => false end
  | None => false
  end.
(* neighbor::Cache::fill (capacity/eviction not modelled) *)
Fixpoint dhif_nc_insert (l : list (Z * Z)) (k v : Z) : list (Z * Z) :=
  match l with
  | [] => [(k, v)]
  | (k', v') :: l' => if k' =? k then (k, v) :: l' else (k', v') :: dhif_nc_insert l' k v
  end.

(* what the `respond` closure of socket_egress does with the frame: Ok / Err, purely *)
Inductive dhif_emit_outcome :=
| EoSent (eth_dst : Z)         (* 0 = broadcast, else the IPv4 address whose cached MAC is used *)
| EoNoRoute
| EoPending                    (* neighbor cache rate limited: nothing sent *)
| EoArp (spa tpa : Z)          (* ARP request sent, NeighborPending *)
| EoAssert.                    (* assert!(!dst_addr.is_unspecified()) *)
Definition dhif_emit_outcome_of (i : dhif) (now : Z) (f : dhcp_tx) : dhif_emit_outcome :=
  let dst := tx_dst_addr f in
  if ip_is_unspecified dst then EoAssert else
  if dhif_is_broadcast_v4 i dst then EoSent 0 else
  match dhif_route i dst with
  | None => EoNoRoute
  | Some nh =>
      match dhif_nc_lookup i nh now with
      | NcFound => EoSent nh
      | NcRateLimited => EoPending
      | NcNotFound =>
          match if_cidr i with
          | Some (addr, _) => EoArp addr nh
          | None => EoNoRoute
          end
      end
  end.
Definition dhif_emit_ok (i : dhif) (now : Z) (f : dhcp_tx) : bool :=
  match dhif_emit_outcome_of i now f with EoSent _ => true | _ => false end.

Inductive dhif_obs :=
| ObTxDhcp (f : dhcp_tx) (eth_dst : Z)
| ObTxArp (spa tpa : Z)
| ObEvent (e : option dhcp_event)
| ObPollAt (t : Z)
| ObPanic
| ObDiverge.

(* Meta::egress_permitted *)
Definition dhif_egress_permitted (i : dhif) (now : Z) : dhif * bool :=
  match if_meta i with
  | None => (i, true)
  | Some (neighbor, silent_until) =>
      if dhif_has_neighbor i neighbor now then (dhif_with_meta i None, true)
      else if silent_until <=? now then (i, true)
      else (i, false)
  end.

(* one pass of Interface::socket_egress over the (single) socket.
   Returns the new interface, the frames put on the wire, and whether the socket emitted (loop again). *)
Definition dhif_socket_egress (xid_of : Z -> Z) (ip_mtu now : Z) (i : dhif)
  : outcome (dhif * list dhif_obs * bool) :=
  let (i, permitted) := dhif_egress_permitted i now in
  if negb permitted then Ok (i, [], false) else
  let next_xid := xid_of (if_draws i) in
  let s := if_sock i in
  do sr <- dhcp_dispatch ip_mtu now next_xid (dhif_emit_ok i now) s;
  let '(s', r) := sr in
  let i1 := dhif_with_sock i s' in
  match r with
  | DrNone => Ok (i1, [], false)
  | DrSent f =>
      let i2 := mkIf (if_sock i1) (if_meta i1) (if_cidr i1) (if_router i1) (if_ncache i1)
                     (if_nc_silent_until i1) (if_rxq i1)
                     (match tx_message_type f, tx_requested_ip f with
                      | MtRequest, Some _ => if_draws i1      (* REQUEST in Requesting: no draw *)
                      | _, _ => if_draws i1 + 1
                      end) in
      let eth := match dhif_emit_outcome_of i now f with EoSent e => e | _ => 0 end in
      Ok (i2, [ObTxDhcp f eth], true)
  | DrErr f =>
      let draws' := match tx_message_type f, tx_requested_ip f with
                    | MtRequest, Some _ => if_draws i1
                    | _, _ => if_draws i1 + 1
                    end in
      match dhif_emit_outcome_of i now f with
      | EoAssert => Panic
      | EoArp spa tpa =>
          (* ARP request sent; neighbor_cache.limit_rate(now); meta.neighbor_missing(now, dst) *)
          Ok (mkIf (if_sock i1) (Some (tx_dst_addr f, now + meta_DISCOVERY_SILENT_TIME)) (if_cidr i1) (if_router i1)
                   (if_ncache i1) (now + neigh_SILENT_TIME) (if_rxq i1) draws',
              [ObTxArp spa tpa], false)
      | _ =>
          Ok (mkIf (if_sock i1) (Some (tx_dst_addr f, now + meta_DISCOVERY_SILENT_TIME)) (if_cidr i1) (if_router i1)
                   (if_ncache i1) (if_nc_silent_until i1) (if_rxq i1) draws',
              [], false)
      end
  end.

(* `loop { match self.poll_egress(..) { None => break, SocketStateChanged => .. } }` *)
Fixpoint dhif_egress_loop (fuel : nat) (xid_of : Z -> Z) (ip_mtu now : Z) (i : dhif) (acc : list dhif_obs)
  : outcome (dhif * list dhif_obs) :=
  match fuel with
  | O => Ok (i, acc ++ [ObDiverge])
  | S fuel' =>
      do r <- dhif_socket_egress xid_of ip_mtu now i;
      let '(i', obs, again) := r in
      if again then dhif_egress_loop fuel' xid_of ip_mtu now i' (acc ++ obs)
      else Ok (i', acc ++ obs)
  end.

(* process_ethernet / process_ipv4 / process_arp for one received frame *)
Definition dhif_ingress (hw now : Z) (i : dhif) (fr : dhif_frame) : outcome dhif :=
  match fr with
  | FrDhcp eth_dst ip_ok udp_ok src_ip dst_ip src_port dst_port parsed =>
      if negb ((eth_dst =? 0) || (eth_dst =? 1)) then Ok i else
      (* RFC 1122 3.3.6: a link-layer broadcast must carry an IP broadcast/multicast destination *)
      if (eth_dst =? 0) && negb (ip_is_multicast dst_ip) && negb (dhif_is_broadcast_v4 i dst_ip) then Ok i else
      if negb ip_ok then Ok i else
      (* non-unicast source addresses are discarded, the unspecified one is let through *)
      if negb (dhif_is_unicast_v4 i src_ip) && negb (ip_is_unspecified src_ip) then Ok i else
      let s := if_sock i in
      if negb ((src_port =? ds_server_port s) && (dst_port =? ds_client_port s)) then Ok i else
      if negb udp_ok then Ok i else
      do s' <- dhcp_process hw now src_ip src_port dst_port parsed s;
      Ok (dhif_with_sock i s')
  | FrArp spa tpa =>
      match if_cidr i with
      | Some (addr, p) =>
          if negb (tpa =? addr) then Ok i else
          if negb (ip_x_is_unicast spa) then Ok i else
          if negb (ip_cidr_contains addr p spa) then Ok i else
          Ok (mkIf (if_sock i) (if_meta i) (if_cidr i) (if_router i)
                   (dhif_nc_insert (if_ncache i) spa (now + neigh_ENTRY_LIFETIME))
                   (if_nc_silent_until i) (if_rxq i) (if_draws i))
      | None => Ok i
      end
  end.

Fixpoint dhif_ingress_all (hw now : Z) (i : dhif) (q : list dhif_frame) : outcome dhif :=
  match q with
  | [] => Ok i
  | fr :: q' => do i' <- dhif_ingress hw now i fr; dhif_ingress_all hw now i' q'
  end.

(* what the application does with the event (examples/dhcp_client.rs); [apply] = false: nothing *)
Definition dhif_apply (apply : bool) (i : dhif) (e : option dhcp_event) : dhif :=
  if negb apply then i else
  match e with
  | Some (EvConfigured c _) =>
      mkIf (if_sock i) (if_meta i) (Some (cf_address c, cf_prefix_len c))
           (match cf_router c with Some r => if ip_x_is_unicast r then Some r else None | None => None end)
           [] (if_nc_silent_until i) (if_rxq i) (if_draws i)
  | Some EvDeconfigured =>
      mkIf (if_sock i) (if_meta i) None None [] (if_nc_silent_until i) (if_rxq i) (if_draws i)
  | None => i
  end.

(* Interface::poll_at for the single DHCP socket (Meta::poll_at over Socket::poll_at) *)
Definition dhif_poll_at (i : dhif) (now : Z) : Z :=
  let t := dhcp_poll_at (if_sock i) in
  match if_meta i with
  | None => t
  | Some (neighbor, silent_until) =>
      if dhif_has_neighbor i neighbor now then t
      else if silent_until <=? now then t
      else silent_until
  end.

Definition dhif_EGRESS_FUEL : nat := Z.to_nat 70000.

(* event `poll t`: Interface::poll(t); socket.poll(); application applies the event; Interface::poll_at(t) *)
Definition dhif_poll (xid_of : Z -> Z) (hw ip_mtu : Z) (apply : bool) (now : Z) (i : dhif)
  : dhif * list dhif_obs :=
  match (do i1 <- dhif_ingress_all hw now (dhif_with_rxq i []) (if_rxq i);
         dhif_egress_loop dhif_EGRESS_FUEL xid_of ip_mtu now i1 []) with
  | Ok (i2, obs) =>
      let (s', e) := dhcp_poll (if_sock i2) in
      let i3 := dhif_apply apply (dhif_with_sock i2 s') e in
      (i3, obs ++ [ObEvent e; ObPollAt (dhif_poll_at i3 now)])
  | _ => (i, [ObPanic])
  end.

Definition dhif_enqueue (i : dhif) (fr : dhif_frame) : dhif := dhif_with_rxq i (if_rxq i ++ [fr]).
(* the address an `arp` event is aimed at *)
Definition dhif_own_addr (i : dhif) : Z := match if_cidr i with Some (a, _) => a | None => 0 end.
Definition dhif_map_sock (f : dhcp_socket -> dhcp_socket) (i : dhif) : dhif := dhif_with_sock i (f (if_sock i)).
