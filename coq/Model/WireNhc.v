(* Executable model of 6LoWPAN next-header compression, src/wire/sixlowpan/nhc.rs
   (RFC 6282 s4; property C20, step 1): the LOWPAN_NHC UDP header (all four port forms,
   checksum in-line / elided), the NHC dispatch and the NHC extension-header view used by
   the decompressor.  Vocabulary of Model/WireBase.v.

     Rust                                        model
     NhcPacket::dispatch                         nhc_dispatch            (0 = ExtHeader, 1 = UdpHeader)
     UdpNhcPacket::{check_len,new_checked}       nhc_udp_check_len
       dispatch_field/checksum_field/ports_field nhc_udp_dispatch_field / _checksum_field / _ports_field
       ports_size / checksum_size                nhc_udp_ports_size / nhc_udp_checksum_size
       src_port / dst_port / checksum / payload  nhc_udp_src_port / _dst_port / _checksum / _payload
       set_dispatch_field/set_ports/set_checksum nhc_udp_set_dispatch_field / _set_ports / _set_checksum
       payload_mut                               nhc_udp_payload_mut_start
     UdpNhcRepr::{parse, header_len, emit}       nhc_udp_parse / nhc_udp_header_len / nhc_udp_emit
     ExtHeaderPacket::{check_len,new_checked,..} nhc_ext_*
     ExtHeaderRepr::{parse, buffer_len}          nhc_ext_parse / nhc_ext_buffer_len

   This is the code after the repairs 33cc16a (D2: `set_ports` 4-bit form uses `|`, `dst_port`
   masks 0x0f), 3a5c5cf (0b01 form of `dst_port` reads the octet after the in-line source port),
   e90e929 (a computed checksum 0 is sent as 0xffff; parse sums the checksum in and rejects 0)
   and d95c319 (emit without checksum offload writes checksum 0 and clears C).
   Panic sources: every `data[..]` index; `unreachable!()` arms are unreachable by the masks and
   are not modelled as branches.  The RFC 1071 checksum is the plain function of WireBase
   (its arithmetic is property C08's subject); `payload_len as u16 + 8` is a debug-overflow
   panic source and modelled as such.  No proofs in this file. *)
From SV Require Import Lib.Base Gen.Consts Gen.WireFields Model.WireBase.

(* ---------- NhcPacket::dispatch ---------- *)
Definition nhc_dispatch (b : list Z) : outcome Z :=
  if blen b =? 0 then Err 0 else
  do x <- wb_get_u8 b 0;
  if Z.shiftr x 4 =? wsix_DISPATCH_EXT_HEADER then Ok 0
  else if Z.shiftr x 3 =? wsix_DISPATCH_UDP_HEADER then Ok 1
  else Err 0.

(* ---------- UdpNhcPacket ---------- *)

(* get_field!(name, mask, shift): ((data[0] >> shift) & mask) *)
Definition nhc_get_field (b : list Z) (mask shift : Z) : outcome Z :=
  do raw <- wb_get_u8 b 0; Ok (Z.land (Z.shiftr raw shift) mask).

Definition nhc_udp_dispatch_field (b : list Z) := nhc_get_field b 31 3.
Definition nhc_udp_checksum_field (b : list Z) := nhc_get_field b 1 2.
Definition nhc_udp_ports_field (b : list Z) := nhc_get_field b 3 0.

Definition nhc_udp_ports_size_of (p : Z) : Z :=
  if p =? 0 then 4 else if p =? 1 then 3 else if p =? 2 then 3 else 1.
Definition nhc_udp_ports_size (b : list Z) : outcome Z :=
  do p <- nhc_udp_ports_field b; Ok (nhc_udp_ports_size_of p).
Definition nhc_udp_checksum_size (b : list Z) : outcome Z :=
  do c <- nhc_udp_checksum_field b; Ok (if c =? 0 then 2 else 0).

Definition nhc_udp_check_len (b : list Z) : outcome unit :=
  if blen b =? 0 then Err 0 else
  do ps <- nhc_udp_ports_size b;
  do cs <- nhc_udp_checksum_size b;
  if 1 + ps + cs >? blen b then Err 0 else Ok tt.

Definition nhc_udp_src_port (b : list Z) : outcome Z :=
  do p <- nhc_udp_ports_field b;
  if (p =? 0) || (p =? 1) then wb_get_be b 1 3 2
  else if p =? 2 then (do x <- wb_get_u8 b 1; Ok (61440 + x))             (* 0xf000 + data[1] *)
  else (do x <- wb_get_u8 b 1; Ok (61616 + Z.shiftr x 4)).               (* 0xf0b0 + (data[1] >> 4) *)

Definition nhc_udp_dst_port (b : list Z) : outcome Z :=
  do p <- nhc_udp_ports_field b;
  if p =? 0 then wb_get_be b 3 5 2
  else if p =? 1 then (do x <- wb_get_u8 b 3; Ok (61440 + x))            (* after the 16-bit source port *)
  else if p =? 2 then wb_get_be b 2 4 2
  else (do x <- wb_get_u8 b 1; Ok (61616 + Z.land x 15)).                (* 0xf0b0 + (data[1] & 0x0f) *)

(* Option<u16>: None = elided *)
Definition nhc_udp_checksum (b : list Z) : outcome (option Z) :=
  do c <- nhc_udp_checksum_field b;
  if c =? 0 then
    (do ps <- nhc_udp_ports_size b; do v <- wb_get_be b (1 + ps) (1 + ps + 2) 2; Ok (Some v))
  else Ok None.

Definition nhc_udp_payload (b : list Z) : outcome (list Z) :=
  do ps <- nhc_udp_ports_size b;
  do cs <- nhc_udp_checksum_size b;
  wb_from b (1 + ps + cs).

(* data[0] = (data[0] & !(0b11111 << 3)) | (DISPATCH_UDP_HEADER << 3) *)
Definition nhc_udp_set_dispatch_field (b : list Z) : outcome (list Z) :=
  wb_upd_u8 b 0 (fun raw => Z.lor (Z.land raw (255 - Z.shiftl 31 3))
                                  ((Z.shiftl wsix_DISPATCH_UDP_HEADER 3) mod 256)).

(* set_field!(name, mask, shift): raw = (raw & !(mask << shift)) | (val << shift) *)
Definition nhc_set_field (b : list Z) (mask shift val : Z) : outcome (list Z) :=
  wb_upd_u8 b 0 (fun raw => Z.lor (Z.land raw (255 - Z.shiftl mask shift))
                                  ((Z.shiftl val shift) mod 256)).
Definition nhc_udp_set_checksum_field (b : list Z) (v : Z) := nhc_set_field b 1 2 v.
Definition nhc_udp_set_ports_field (b : list Z) (v : Z) := nhc_set_field b 3 0 v.

Definition nhc_port_4bit (p : Z) : bool := (61616 <=? p) && (p <=? 61631).   (* 0xf0b0..=0xf0bf *)
Definition nhc_port_8bit (p : Z) : bool := (61440 <=? p) && (p <=? 61695).   (* 0xf000..=0xf0ff *)

Definition nhc_udp_set_ports (b : list Z) (sp dp : Z) : outcome (list Z) :=
  if nhc_port_4bit sp && nhc_port_4bit dp then
    do b <- nhc_udp_set_ports_field b 3;
    wb_set_u8 b 1 (Z.lor ((Z.shiftl ((sp - 61616) mod 256) 4) mod 256) ((dp - 61616) mod 256))
  else if nhc_port_8bit sp then
    do b <- nhc_udp_set_ports_field b 2;
    do b <- wb_set_u8 b 1 ((sp - 61440) mod 256);
    wb_put_be b 2 4 (be_enc2 dp)
  else if nhc_port_8bit dp then
    do b <- nhc_udp_set_ports_field b 1;
    do b <- wb_put_be b 1 3 (be_enc2 sp);
    wb_set_u8 b 3 ((dp - 61440) mod 256)
  else
    do b <- nhc_udp_set_ports_field b 0;
    do b <- wb_put_be b 1 3 (be_enc2 sp);
    wb_put_be b 3 5 (be_enc2 dp).

Definition nhc_udp_set_checksum (b : list Z) (ck : Z) : outcome (list Z) :=
  do b <- nhc_udp_set_checksum_field b 0;
  do ps <- nhc_udp_ports_size b;
  wb_put_be b (1 + ps) (1 + ps + 2) (be_enc2 ck).

(* struct UdpRepr { src_port, dst_port } *)
Record nhc_ports := mkPorts { np_src : Z; np_dst : Z }.

(* UdpNhcRepr::header_len (the checksum is always carried in-line by this emitter) *)
Definition nhc_udp_header_len (r : nhc_ports) : Z :=
  let len := 1 + 2 in
  if nhc_port_4bit (np_src r) && nhc_port_4bit (np_dst r) then len + 1
  else if nhc_port_8bit (np_src r) || nhc_port_8bit (np_dst r) then len + 3
  else len + 4.

(* the words summed by emit and parse:
   [pseudo_header_v6(src, dst, Udp, payload_len as u32 + 8), src_port, dst_port,
    payload_len as u16 + 8, checksum::data(payload)] *)
Definition nhc_PROTO_UDP : Z := 17.
Definition nhc_udp_sum_words (src dst : list Z) (sp dp : Z) (payload : list Z) : list Z :=
  let plen := blen payload in
  [wb_pseudo_header src dst nhc_PROTO_UDP ((plen + 8) mod 4294967296);
   sp; dp; plen mod 65536 + 8; wb_cksum_data payload].
(* `payload_len as u16 + 8` overflows u16 (debug build panics) *)
Definition nhc_udp_len_overflow (payload : list Z) : bool := 65535 <? blen payload mod 65536 + 8.

(* emit: !checksum::combine(&[..]) *)
Definition nhc_udp_cksum (src dst : list Z) (sp dp : Z) (payload : list Z) : outcome Z :=
  if nhc_udp_len_overflow payload then Panic
  else Ok (65535 - wb_cksum_combine (nhc_udp_sum_words src dst sp dp payload)).

(* parse: checksum == 0 || combine(&[.., checksum]) != !0  ->  Err *)
Definition nhc_udp_verify (src dst : list Z) (sp dp : Z) (payload : list Z) (c : Z) : outcome unit :=
  if nhc_udp_len_overflow payload then Panic
  else if (c =? 0) ||
          negb (wb_cksum_combine (nhc_udp_sum_words src dst sp dp payload ++ [c]) =? 65535)
       then Err 0 else Ok tt.

(* UdpNhcRepr::parse; [rx] = checksum_caps.udp.rx() *)
Definition nhc_udp_parse (b : list Z) (src dst : list Z) (rx : bool) : outcome nhc_ports :=
  do _ <- nhc_udp_check_len b;
  do d <- nhc_udp_dispatch_field b;
  if negb (d =? wsix_DISPATCH_UDP_HEADER) then Err 0 else
  do _ <- (if rx then
             do c <- nhc_udp_checksum b;
             match c with
             | Some c =>
                 do payload <- nhc_udp_payload b;
                 do sp <- nhc_udp_src_port b;
                 do dp <- nhc_udp_dst_port b;
                 nhc_udp_verify src dst sp dp payload c
             | None => Ok tt
             end
           else Ok tt);
  do sp <- nhc_udp_src_port b;
  do dp <- nhc_udp_dst_port b;
  Ok (mkPorts sp dp).

(* payload_mut: start = 1 + ports_size() + 2 ("we assume we put the checksum inlined") *)
Definition nhc_udp_payload_mut_start (b : list Z) : outcome Z :=
  do ps <- nhc_udp_ports_size b; Ok (1 + ps + 2).

(* UdpNhcRepr::emit with emit_payload = |buf| buf.copy_from_slice(payload);
   [tx] = checksum_caps.udp.tx() *)
Definition nhc_udp_emit (r : nhc_ports) (src dst : list Z) (payload : list Z) (tx : bool)
    (b : list Z) : outcome (list Z) :=
  do b <- nhc_udp_set_dispatch_field b;
  do b <- nhc_udp_set_ports b (np_src r) (np_dst r);
  do st <- nhc_udp_payload_mut_start b;
  do _ <- wb_from b st;                                  (* &mut data[start..] *)
  do b <- wb_set_slice b st (blen b) payload;            (* copy_from_slice: lengths must agree *)
  if tx then
    do pl <- wb_from b st;
    do ck <- nhc_udp_cksum src dst (np_src r) (np_dst r) pl;
    (* a computed zero is transmitted as all-ones *)
    nhc_udp_set_checksum b (if ck =? 0 then 65535 else ck)
  else nhc_udp_set_checksum b 0.

Definition nhc_ports_wf (r : nhc_ports) : bool := is_u16 (np_src r) && is_u16 (np_dst r).

(* ---------- ExtHeaderPacket / ExtHeaderRepr (decompression side only) ---------- *)

Definition nhc_ext_dispatch_field (b : list Z) := nhc_get_field b 15 4.
Definition nhc_ext_eid_field (b : list Z) := nhc_get_field b 7 1.
Definition nhc_ext_nh_field (b : list Z) := nhc_get_field b 1 0.

(* next_header_size: nh = 0 -> 1 (carried in-line), nh = 1 -> 0 *)
Definition nhc_ext_next_header_size (b : list Z) : outcome Z :=
  do nh <- nhc_ext_nh_field b; Ok (if nh =? 0 then 1 else 0).

Definition nhc_ext_check_len (b : list Z) : outcome unit :=
  if blen b =? 0 then Err 0 else
  do n <- nhc_ext_next_header_size b;
  if blen b <? 2 + n then Err 0 else
  (* repair 2b2776a: the payload announced by the length field must be present as well *)
  do len <- wb_get_u8 b (1 + n);
  if 2 + n + len <=? blen b then Ok tt else Err 0.

(* new_checked: check_len, then eid_field() > 7 (never true for a 3-bit field) *)
Definition nhc_ext_new_checked (b : list Z) : outcome unit :=
  do _ <- nhc_ext_check_len b;
  do e <- nhc_ext_eid_field b;
  if 7 <? e then Err 0 else Ok tt.

Definition nhc_ext_length (b : list Z) : outcome Z :=
  do n <- nhc_ext_next_header_size b; wb_get_u8 b (1 + n).

(* NextHeader: None = Compressed, Some p = Uncompressed(p) *)
Definition nhc_ext_next_header (b : list Z) : outcome (option Z) :=
  do nh <- nhc_ext_nh_field b;
  if nh =? 1 then Ok None else (do p <- wb_get_u8 b 1; Ok (Some p)).

(* payload: &buffer[start..][..len] *)
Definition nhc_ext_payload (b : list Z) : outcome (list Z) :=
  do n <- nhc_ext_next_header_size b;
  do len <- nhc_ext_length b;
  do rest <- wb_from b (2 + n);
  wb_upto rest len.

(* ExtHeaderId -> IpProtocol (extension_header_id().into()) *)
Definition nhc_ext_proto_of_eid (e : Z) : Z :=
  if e =? 0 then 0          (* HopByHop *)
  else if e =? 1 then 43    (* Ipv6Route *)
  else if e =? 2 then 44    (* Ipv6Frag *)
  else if e =? 3 then 60    (* Ipv6Opts *)
  else 0.                   (* Mobility / Reserved / Header -> Unknown(0) *)

Record nhc_ext_repr := mkExt { ne_eid : Z; ne_next : option Z; ne_length : Z }.

Definition nhc_ext_parse (b : list Z) : outcome nhc_ext_repr :=
  do _ <- nhc_ext_check_len b;
  do d <- nhc_ext_dispatch_field b;
  if negb (d =? wsix_DISPATCH_EXT_HEADER) then Err 0 else
  do e <- nhc_ext_eid_field b;
  do nh <- nhc_ext_next_header b;
  do len <- nhc_ext_length b;
  Ok (mkExt e nh len).

Definition nhc_ext_buffer_len (r : nhc_ext_repr) : Z :=
  1 + (match ne_next r with None => 0 | Some _ => 1 end) + 1.
