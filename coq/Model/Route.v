(* Executable model of smoltcp::iface::route::Routes (src/iface/route.rs) together with the
   small piece of wire::{Ipv4Cidr, Ipv6Cidr, IpCidr} arithmetic it needs.

   storage : heapless::Vec<Route, IFACE_MAX_ROUTE_COUNT>  ~  list route in the same order
   (lookup uses `max_by_key`, which returns the LAST maximal element).
   The capacity is a parameter [rcap]; [route_cap] is the configured value from Gen.Consts.

   CIDR arithmetic: `a & netmask == b & netmask` with netmask = !0 << (bits - prefix_len)
   (0 when prefix_len = 0) is  a / 2^(bits - p) = b / 2^(bits - p)  on the unsigned values;
   the IPv6 byte-wise `mask` comparison is the same relation on the 128-bit value.
   Ipv4Cidr::new asserts prefix_len <= 32, Ipv6Cidr::new asserts <= 128: [cidr_ok].

   Panic source: Routes::lookup starts with assert!(addr.is_unicast()) - treated at the call
   site (Nexthop.nh_lookup_hardware_addr returns Panic for such an address).
   No proofs in this file. *)
From SV Require Import Lib.Base Gen.Consts Model.Neighbor.

Record cidr := mkCidr { cidr_addr : ipaddr; cidr_plen : Z }.

Definition ip_bits (a : ipaddr) : Z := match a with V4 _ => 32 | V6 _ => 128 end.

Definition cidr_ok (c : cidr) : bool := (0 <=? cidr_plen c) && (cidr_plen c <=? ip_bits (cidr_addr c)).

(* IpCidr::contains_addr *)
Definition cidr_contains (c : cidr) (a : ipaddr) : bool :=
  match cidr_addr c, a with
  | V4 x, V4 y => (x / 2 ^ (32 - cidr_plen c)) =? (y / 2 ^ (32 - cidr_plen c))
  | V6 x, V6 y =>
      if cidr_plen c =? 0 then true
      else (x / 2 ^ (128 - cidr_plen c)) =? (y / 2 ^ (128 - cidr_plen c))
  | _, _ => false
  end.

Definition cidr_eqb (c d : cidr) : bool :=
  ip_eqb (cidr_addr c) (cidr_addr d) && (cidr_plen c =? cidr_plen d).

(* Ipv4Cidr::broadcast *)
Definition cidr_broadcast (c : cidr) : option Z :=
  match cidr_addr c with
  | V4 x =>
      if (cidr_plen c =? 31) || (cidr_plen c =? 32) then None
      else let h := 2 ^ (32 - cidr_plen c) in Some ((x / h) * h + (h - 1))
  | V6 _ => None
  end.

Record route := mkRoute { rt_cidr : cidr; rt_via : ipaddr; rt_expires : option Z }.

Definition route_cap : Z := cfg_IFACE_MAX_ROUTE_COUNT.

Definition IPV4_DEFAULT : cidr := mkCidr (V4 0) 0.
Definition IPV6_DEFAULT : cidr := mkCidr (V6 0) 0.

(* Route::new_ipv4_gateway / new_ipv6_gateway *)
Definition route_new_ipv4_gateway (gw : Z) : route := mkRoute IPV4_DEFAULT (V4 gw) None.
Definition route_new_ipv6_gateway (gw : Z) : route := mkRoute IPV6_DEFAULT (V6 gw) None.

Definition route_is_ipv4_gateway (r : route) : bool := cidr_eqb (rt_cidr r) IPV4_DEFAULT.
Definition route_is_ipv6_gateway (r : route) : bool := cidr_eqb (rt_cidr r) IPV6_DEFAULT.

(* Vec::remove(i) for the first element satisfying p; returns whether one was removed *)
Fixpoint route_remove_first (p : route -> bool) (l : list route) : list route :=
  match l with
  | [] => []
  | r :: t => if p r then t else r :: route_remove_first p t
  end.

(* Routes::remove_default_ipv4_route / ipv6 *)
Definition route_remove_default_ipv4_route (l : list route) : list route :=
  route_remove_first route_is_ipv4_gateway l.
Definition route_remove_default_ipv6_route (l : list route) : list route :=
  route_remove_first route_is_ipv6_gateway l.

(* Vec::push: Err (list unchanged) when full *)
Definition route_push (rcap : Z) (l : list route) (r : route) : list route * bool :=
  if Z.of_nat (length l) <? rcap then (l ++ [r], true) else (l, false).

(* Routes::add_default_ipv4_route: the old default is removed first, even when the push fails *)
Definition route_add_default_ipv4_route (rcap : Z) (l : list route) (gw : Z) : list route * bool :=
  route_push rcap (route_remove_default_ipv4_route l) (route_new_ipv4_gateway gw).
Definition route_add_default_ipv6_route (rcap : Z) (l : list route) (gw : Z) : list route * bool :=
  route_push rcap (route_remove_default_ipv6_route l) (route_new_ipv6_gateway gw).

(* the filter closure of Routes::lookup: not expired (`timestamp > expires_at` = expired) and matching *)
Definition route_unexpired (r : route) (timestamp : Z) : bool :=
  match rt_expires r with
  | Some e => negb (timestamp >? e)
  | None => true
  end.

Definition route_live (r : route) (addr : ipaddr) (timestamp : Z) : bool :=
  route_unexpired r timestamp && cidr_contains (rt_cidr r) addr.

(* max_by_key(prefix_len): last maximal element *)
Fixpoint route_max (best : route) (l : list route) : route :=
  match l with
  | [] => best
  | x :: r => if cidr_plen (rt_cidr x) >=? cidr_plen (rt_cidr best) then route_max x r else route_max best r
  end.

(* Routes::lookup (without the leading assert, see header) *)
Definition route_lookup (l : list route) (addr : ipaddr) (timestamp : Z) : option ipaddr :=
  match filter (fun r => route_live r addr timestamp) l with
  | [] => None
  | x :: r => Some (rt_via (route_max x r))
  end.
