(* Executable model of smoltcp::wire::ipv4 (src/wire/ipv4.rs): Packet accessors, check_len,
   verify_checksum / fill_checksum (arithmetic abstracted), Repr::{parse, buffer_len, emit}.

   Feature set: `proto-ipv4-fragmentation` is enabled (smoltcp default and the harness build),
   so `Repr::parse` does not reject fragments.

   Checksum parameters (Section variables; the arithmetic belongs to C08):
     [sum_ok d]   = `checksum::data(d) == !0`       over d = data[..header_len]
     [sum_fill d] = `!checksum::data(d)`

   Representation: addresses are 4-octet lists, [next_header] is the raw protocol octet
   (IpProtocol is an `enum_with_unknown!`, bijective with u8), [payload_len] a usize.

   Panic sources: slice indexing, `try_into().unwrap()` to [u8; 4], the u16 addition
   `header_len + payload_len as u16` in emit (overflow-checked in debug builds), the usize
   subtraction `total_len - header_len` in parse.  u8/u16 shifts wrap ([mod]).
   No proofs in this file. *)
From SV Require Import Lib.Base Gen.WireFields Gen.Consts Model.WireBase.

Record ipv4_repr := mkIpv4 {
  ipv4_src : list Z; ipv4_dst : list Z; ipv4_proto : Z; ipv4_payload_len : Z; ipv4_hop_limit : Z }.

Definition ipv4_HEADER_LEN : Z := snd wipv4_f_DST_ADDR.
Definition ipv4_MINIMUM_IHL_BYTES : Z := 20.

(* ---------- accessors ---------- *)
Definition ipv4_version (bs : list Z) : outcome Z :=
  do x <- wb_get_u8 bs wipv4_f_VER_IHL; Ok (Z.shiftr x 4).
Definition ipv4_header_len (bs : list Z) : outcome Z :=
  do x <- wb_get_u8 bs wipv4_f_VER_IHL; Ok (Z.land x 15 * 4).
Definition ipv4_dscp (bs : list Z) : outcome Z :=
  do x <- wb_get_u8 bs wipv4_f_DSCP_ECN; Ok (Z.shiftr x 2).
Definition ipv4_ecn (bs : list Z) : outcome Z :=
  do x <- wb_get_u8 bs wipv4_f_DSCP_ECN; Ok (Z.land x 3).
Definition ipv4_total_len (bs : list Z) : outcome Z := wb_get_u16 bs wipv4_f_LENGTH.
Definition ipv4_ident (bs : list Z) : outcome Z := wb_get_u16 bs wipv4_f_IDENT.
Definition ipv4_dont_frag (bs : list Z) : outcome bool :=
  do x <- wb_get_u16 bs wipv4_f_FLG_OFF; Ok (negb (Z.land x 16384 =? 0)).
Definition ipv4_more_frags (bs : list Z) : outcome bool :=
  do x <- wb_get_u16 bs wipv4_f_FLG_OFF; Ok (negb (Z.land x 8192 =? 0)).
Definition ipv4_frag_offset (bs : list Z) : outcome Z :=
  do x <- wb_get_u16 bs wipv4_f_FLG_OFF; Ok (Z.shiftl x 3 mod 65536).
Definition ipv4_hop_limit_ (bs : list Z) : outcome Z := wb_get_u8 bs wipv4_f_TTL.
Definition ipv4_next_header (bs : list Z) : outcome Z := wb_get_u8 bs wipv4_f_PROTOCOL.
Definition ipv4_checksum (bs : list Z) : outcome Z := wb_get_u16 bs wipv4_f_CHECKSUM.
Definition ipv4_src_addr (bs : list Z) : outcome (list Z) :=
  do s <- wb_field bs wipv4_f_SRC_ADDR; wb_arr 4 s.
Definition ipv4_dst_addr (bs : list Z) : outcome (list Z) :=
  do s <- wb_field bs wipv4_f_DST_ADDR; wb_arr 4 s.
(* Packet::payload: data[header_len..total_len] *)
Definition ipv4_payload (bs : list Z) : outcome (list Z) :=
  do hl <- ipv4_header_len bs; do tl <- ipv4_total_len bs; wb_sub bs hl tl.

(* Packet::check_len (same order of tests) *)
Definition ipv4_check_len (bs : list Z) : outcome unit :=
  if blen bs <? snd wipv4_f_DST_ADDR then Err 0
  else
    do hl <- ipv4_header_len bs;
    if blen bs <? hl then Err 0
    else
      do tl <- ipv4_total_len bs;
      if hl >? tl then Err 0
      else if blen bs <? tl then Err 0
      else if hl <? ipv4_MINIMUM_IHL_BYTES then Err 0
      else Ok tt.

(* ---------- setters ---------- *)
Definition ipv4_set_version (bs : list Z) (v : Z) :=
  wb_upd_u8 bs wipv4_f_VER_IHL (fun x => Z.lor (Z.land x 15) (Z.shiftl v 4 mod 256)).
Definition ipv4_set_header_len (bs : list Z) (v : Z) :=
  wb_upd_u8 bs wipv4_f_VER_IHL (fun x => Z.lor (Z.land x 240) (Z.land (v / 4) 15)).
Definition ipv4_set_dscp (bs : list Z) (v : Z) :=
  wb_upd_u8 bs wipv4_f_DSCP_ECN (fun x => Z.lor (Z.land x 3) (Z.shiftl v 2 mod 256)).
Definition ipv4_set_ecn (bs : list Z) (v : Z) :=
  wb_upd_u8 bs wipv4_f_DSCP_ECN (fun x => Z.lor (Z.land x 252) (Z.land v 3)).
Definition ipv4_set_total_len (bs : list Z) (v : Z) := wb_put_u16 bs wipv4_f_LENGTH v.
Definition ipv4_set_ident (bs : list Z) (v : Z) := wb_put_u16 bs wipv4_f_IDENT v.
Definition ipv4_clear_flags (bs : list Z) :=
  wb_upd_u16 bs wipv4_f_FLG_OFF (fun x => Z.land x 8191).
Definition ipv4_set_dont_frag (bs : list Z) (v : bool) :=
  wb_upd_u16 bs wipv4_f_FLG_OFF (fun x => if v then Z.lor x 16384 else Z.land x 49151).
Definition ipv4_set_more_frags (bs : list Z) (v : bool) :=
  wb_upd_u16 bs wipv4_f_FLG_OFF (fun x => if v then Z.lor x 8192 else Z.land x 57343).
Definition ipv4_set_frag_offset (bs : list Z) (v : Z) :=
  wb_upd_u16 bs wipv4_f_FLG_OFF (fun x => Z.lor (Z.land x 57344) (Z.shiftr v 3)).
Definition ipv4_set_hop_limit (bs : list Z) (v : Z) := wb_set_u8 bs wipv4_f_TTL v.
Definition ipv4_set_next_header (bs : list Z) (v : Z) := wb_set_u8 bs wipv4_f_PROTOCOL v.
Definition ipv4_set_checksum (bs : list Z) (v : Z) := wb_put_u16 bs wipv4_f_CHECKSUM v.
Definition ipv4_set_src_addr (bs : list Z) (v : list Z) := wb_set_field bs wipv4_f_SRC_ADDR v.
Definition ipv4_set_dst_addr (bs : list Z) (v : list Z) := wb_set_field bs wipv4_f_DST_ADDR v.

Section Checksum.
Variable sum_ok : list Z -> bool.
Variable sum_fill : list Z -> Z.

(* Packet::verify_checksum *)
Definition ipv4_verify_checksum (bs : list Z) : outcome bool :=
  do hl <- ipv4_header_len bs; do d <- wb_upto bs hl; Ok (sum_ok d).

(* Packet::fill_checksum *)
Definition ipv4_fill_checksum (bs : list Z) : outcome (list Z) :=
  do bs <- ipv4_set_checksum bs 0;
  do hl <- ipv4_header_len bs; do d <- wb_upto bs hl;
  ipv4_set_checksum bs (sum_fill d).

(* Repr::parse; [rx] = checksum_caps.ipv4.rx() *)
Definition ipv4_parse (rx : bool) (bs : list Z) : outcome ipv4_repr :=
  do _ <- ipv4_check_len bs;
  do v <- ipv4_version bs;
  do _ <- wb_guard (v =? 4);
  do _ <- (if rx then do ok <- ipv4_verify_checksum bs; wb_guard ok else Ok tt);
  do tl <- ipv4_total_len bs;
  do hl <- ipv4_header_len bs;
  (* total_len as usize - header_len as usize *)
  do _ <- wb_assert (hl <=? tl);
  do s <- ipv4_src_addr bs;
  do d <- ipv4_dst_addr bs;
  do p <- ipv4_next_header bs;
  do h <- ipv4_hop_limit_ bs;
  Ok (mkIpv4 s d p (tl - hl) h).

(* Repr::buffer_len *)
Definition ipv4_buffer_len (r : ipv4_repr) : Z := snd wipv4_f_DST_ADDR.

(* Repr::emit; [tx] = checksum_caps.ipv4.tx() *)
Definition ipv4_emit (tx : bool) (r : ipv4_repr) (b : list Z) : outcome (list Z) :=
  do b <- ipv4_set_version b 4;
  do b <- ipv4_set_header_len b (snd wipv4_f_DST_ADDR mod 256);
  do b <- ipv4_set_dscp b 0;
  do b <- ipv4_set_ecn b 0;
  do hl <- ipv4_header_len b;
  (* packet.header_len() as u16 + self.payload_len as u16 : overflow-checked addition *)
  let total := hl + ipv4_payload_len r mod 65536 in
  do _ <- wb_assert (total <? 65536);
  do b <- ipv4_set_total_len b total;
  do b <- ipv4_set_ident b 0;
  do b <- ipv4_clear_flags b;
  do b <- ipv4_set_more_frags b false;
  do b <- ipv4_set_dont_frag b true;
  do b <- ipv4_set_frag_offset b 0;
  do b <- ipv4_set_hop_limit b (ipv4_hop_limit r);
  do b <- ipv4_set_next_header b (ipv4_proto r);
  do b <- ipv4_set_src_addr b (ipv4_src r);
  do b <- ipv4_set_dst_addr b (ipv4_dst r);
  if tx then ipv4_fill_checksum b else ipv4_set_checksum b 0.

End Checksum.

(* Proviso of C06 for IPv4:
   - addresses [u8; 4], protocol and hop limit u8 (Rust types);
   - the datagram fits the 16-bit total-length field: 20 + payload_len <= 65535.  `emit`
     computes `header_len() as u16 + payload_len as u16`: a larger payload_len is silently
     truncated by the cast or panics on the overflow-checked addition; IPv4 does not permit
     datagrams longer than 65535 octets. *)
Definition ipv4_wf (r : ipv4_repr) : bool :=
  is_arr 4 (ipv4_src r) && is_arr 4 (ipv4_dst r) && is_u8 (ipv4_proto r) && is_u8 (ipv4_hop_limit r) &&
  (0 <=? ipv4_payload_len r) && (ipv4_HEADER_LEN + ipv4_payload_len r <=? 65535).
