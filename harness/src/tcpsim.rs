//! Deterministic TCP simulations on the real crate (implementation-side failing-input search
//! for C01 / C02 / C04 / C05, plus helpers for C10 / C13).
//!
//! * `e2e`: two real `Interface`s, one TCP socket each, joined by an adversarial link
//!   (per-packet fate deliver / drop / duplicate / delay / bit-flip during a finite chaos
//!   prefix, then reliable FIFO).  Virtual time in µs.  An interface is polled when a frame
//!   arrives for it and at the instant it last returned from `poll_at` (earlier only when the
//!   early-poll probe is enabled).  Applications are seed-driven scripts (chunked send / recv /
//!   close, reader stalls, half close, simultaneous close/open).
//! * `rx`: one real socket behind a real `Interface` driven by a scripted adversarial peer
//!   (explicit op list; the generator runs "in the loop" and records the ops it produced).
//!
//! Stream content is never random: byte i of A's stream is `i mod 251`, byte k of B's (or the
//! scripted peer's) stream is `(7k+3) mod 253`, so every check works from offsets.
//!
//! Everything that parses or builds frames here is hand-written (independent of
//! `smoltcp::wire`), including the Internet checksum.
#![allow(clippy::too_many_arguments)]

use crate::dev::QDev;
use crate::{Case, Rng};
use smoltcp::iface::{Config, Interface, SocketHandle, SocketSet};
use smoltcp::phy::Medium;
use smoltcp::socket::tcp;
use smoltcp::time::{Duration, Instant};
use smoltcp::wire::{EthernetAddress, HardwareAddress, IpAddress, IpCidr, Ipv4Address, Ipv6Address};
use std::collections::{BTreeMap, BinaryHeap};
use std::fmt::Write as _;

// ---------------------------------------------------------------------------------------------
// stream contents
// ---------------------------------------------------------------------------------------------

#[inline]
pub fn byte_a(i: u64) -> u8 {
    (i % 251) as u8
}
#[inline]
pub fn byte_b(i: u64) -> u8 {
    ((7 * i + 3) % 253) as u8
}
#[inline]
pub fn stream_byte(side: usize, i: u64) -> u8 {
    if side == 0 {
        byte_a(i)
    } else {
        byte_b(i)
    }
}

// ---------------------------------------------------------------------------------------------
// independent wire helpers
// ---------------------------------------------------------------------------------------------

pub const F_FIN: u8 = 0x01;
pub const F_SYN: u8 = 0x02;
pub const F_RST: u8 = 0x04;
pub const F_PSH: u8 = 0x08;
pub const F_ACK: u8 = 0x10;

fn be16(b: &[u8], o: usize) -> u16 {
    ((b[o] as u16) << 8) | b[o + 1] as u16
}
fn be32(b: &[u8], o: usize) -> u32 {
    ((b[o] as u32) << 24) | ((b[o + 1] as u32) << 16) | ((b[o + 2] as u32) << 8) | b[o + 3] as u32
}

/// ones'-complement sum of 16-bit big-endian words (odd trailing byte padded with zero)
fn csum_add(mut acc: u32, data: &[u8]) -> u32 {
    let mut i = 0;
    while i + 1 < data.len() {
        acc += be16(data, i) as u32;
        if acc > 0xffff_0000 {
            acc = (acc & 0xffff) + (acc >> 16);
        }
        i += 2;
    }
    if i < data.len() {
        acc += (data[i] as u32) << 8;
    }
    acc
}
fn csum_fold(mut acc: u32) -> u16 {
    while acc >> 16 != 0 {
        acc = (acc & 0xffff) + (acc >> 16);
    }
    acc as u16
}
/// true iff the data (with its checksum field in place) sums to 0xffff
fn csum_ok(acc: u32) -> bool {
    csum_fold(acc) == 0xffff
}
fn pseudo(src: &IpAddress, dst: &IpAddress, proto: u8, len: usize) -> u32 {
    let mut acc = 0u32;
    match (src, dst) {
        (IpAddress::Ipv4(s), IpAddress::Ipv4(d)) => {
            acc = csum_add(acc, &s.octets());
            acc = csum_add(acc, &d.octets());
        }
        (IpAddress::Ipv6(s), IpAddress::Ipv6(d)) => {
            acc = csum_add(acc, &s.octets());
            acc = csum_add(acc, &d.octets());
        }
        _ => {}
    }
    acc = csum_add(acc, &[0, proto]);
    acc = csum_add(acc, &[(len >> 24) as u8, (len >> 16) as u8, (len >> 8) as u8, len as u8]);
    acc
}

fn v4(b: &[u8]) -> IpAddress {
    IpAddress::Ipv4(Ipv4Address::new(b[0], b[1], b[2], b[3]))
}
fn v6(b: &[u8]) -> IpAddress {
    let mut a = [0u8; 16];
    a.copy_from_slice(&b[..16]);
    IpAddress::Ipv6(Ipv6Address::from(a))
}

fn is_unspecified(a: &IpAddress) -> bool {
    match a {
        IpAddress::Ipv4(x) => x.octets() == [0; 4],
        IpAddress::Ipv6(x) => x.octets() == [0; 16],
    }
}
fn is_multicast_or_bcast(a: &IpAddress) -> bool {
    match a {
        IpAddress::Ipv4(x) => {
            let o = x.octets();
            (o[0] & 0xf0) == 0xe0 || o == [255; 4]
        }
        IpAddress::Ipv6(x) => x.octets()[0] == 0xff,
    }
}

/// A TCP segment as seen on the wire (only produced when every checksum verifies).
#[derive(Clone, Debug)]
pub struct Seg {
    pub src: IpAddress,
    pub dst: IpAddress,
    pub sport: u16,
    pub dport: u16,
    pub seq: u32,
    pub ack: u32,
    pub flags: u8,
    pub win: u16,
    pub mss: Option<u16>,
    pub ws: Option<u8>,
    pub sack_perm: bool,
    pub ts: Option<(u32, u32)>,
    pub opt_len: usize,
    /// payload position inside the frame
    pub pay_off: usize,
    pub pay_len: usize,
    pub ip_hdr_len: usize,
}

impl Seg {
    pub fn has(&self, f: u8) -> bool {
        self.flags & f != 0
    }
    pub fn flag_str(&self) -> String {
        let mut s = String::new();
        for (f, c) in [(F_SYN, 'S'), (F_FIN, 'F'), (F_RST, 'R'), (F_PSH, 'P'), (F_ACK, '.')] {
            if self.has(f) {
                s.push(c);
            }
        }
        s
    }
}

/// where the IP packet starts inside a frame of this medium, or None if the frame is not IP
fn l3_offset(medium: Medium, frame: &[u8]) -> Option<usize> {
    match medium {
        Medium::Ip => Some(0),
        Medium::Ethernet => {
            if frame.len() < 14 {
                return None;
            }
            match be16(frame, 12) {
                0x0800 | 0x86dd => Some(14),
                _ => None,
            }
        }
        _ => None,
    }
}

/// Lenient-in-scope, strict-in-content parser used by the oracles: returns the TCP segment
/// carried by `frame` iff it is an unfragmented IPv4/IPv6 packet whose IP header checksum (v4),
/// lengths and TCP checksum are all valid — i.e. iff a correct receiver would hand it to TCP.
pub fn parse_tcp(medium: Medium, frame: &[u8]) -> Option<Seg> {
    let o = l3_offset(medium, frame)?;
    let p = &frame[o..];
    if p.is_empty() {
        return None;
    }
    let (src, dst, proto, hl, total) = match p[0] >> 4 {
        4 => {
            if p.len() < 20 {
                return None;
            }
            let ihl = ((p[0] & 0xf) as usize) * 4;
            let total = be16(p, 2) as usize;
            if ihl < 20 || total < ihl || total > p.len() {
                return None;
            }
            if !csum_ok(csum_add(0, &p[..ihl])) {
                return None;
            }
            if be16(p, 6) & 0x3fff != 0 {
                return None; // fragment
            }
            (v4(&p[12..16]), v4(&p[16..20]), p[9], ihl, total)
        }
        6 => {
            if p.len() < 40 {
                return None;
            }
            let pl = be16(p, 4) as usize;
            if 40 + pl > p.len() {
                return None;
            }
            (v6(&p[8..24]), v6(&p[24..40]), p[6], 40, 40 + pl)
        }
        _ => return None,
    };
    if proto != 6 {
        return None;
    }
    let t = &p[hl..total];
    if t.len() < 20 {
        return None;
    }
    let doff = ((t[12] >> 4) as usize) * 4;
    if doff < 20 || doff > t.len() {
        return None;
    }
    if !csum_ok(csum_add(pseudo(&src, &dst, 6, t.len()), t)) {
        return None;
    }
    let mut seg = Seg {
        src,
        dst,
        sport: be16(t, 0),
        dport: be16(t, 2),
        seq: be32(t, 4),
        ack: be32(t, 8),
        flags: t[13] & 0x3f,
        win: be16(t, 14),
        mss: None,
        ws: None,
        sack_perm: false,
        ts: None,
        opt_len: doff - 20,
        pay_off: o + hl + doff,
        pay_len: t.len() - doff,
        ip_hdr_len: hl,
    };
    let mut i = 20;
    while i < doff {
        match t[i] {
            0 => break,
            1 => i += 1,
            k => {
                if i + 1 >= doff {
                    break;
                }
                let l = t[i + 1] as usize;
                if l < 2 || i + l > doff {
                    break;
                }
                match (k, l) {
                    (2, 4) => seg.mss = Some(be16(t, i + 2)),
                    (3, 3) => seg.ws = Some(t[i + 2]),
                    (4, 2) => seg.sack_perm = true,
                    (8, 10) => seg.ts = Some((be32(t, i + 2), be32(t, i + 6))),
                    _ => {}
                }
                i += l;
            }
        }
    }
    Some(seg)
}

/// Build an IP packet (no link header) carrying one TCP segment. `opts` must already be padded to
/// a multiple of four bytes.
pub fn build_tcp(
    src: &IpAddress,
    dst: &IpAddress,
    sport: u16,
    dport: u16,
    seq: u32,
    ack: Option<u32>,
    flags: u8,
    win: u16,
    opts: &[u8],
    payload: &[u8],
) -> Vec<u8> {
    assert!(opts.len() % 4 == 0);
    let tlen = 20 + opts.len() + payload.len();
    let mut t = vec![0u8; tlen];
    t[0..2].copy_from_slice(&sport.to_be_bytes());
    t[2..4].copy_from_slice(&dport.to_be_bytes());
    t[4..8].copy_from_slice(&seq.to_be_bytes());
    t[8..12].copy_from_slice(&ack.unwrap_or(0).to_be_bytes());
    t[12] = (((20 + opts.len()) / 4) as u8) << 4;
    t[13] = flags | if ack.is_some() { F_ACK } else { 0 };
    t[14..16].copy_from_slice(&win.to_be_bytes());
    t[20..20 + opts.len()].copy_from_slice(opts);
    t[20 + opts.len()..].copy_from_slice(payload);
    let c = !csum_fold(csum_add(pseudo(src, dst, 6, tlen), &t));
    t[16..18].copy_from_slice(&c.to_be_bytes());
    let mut p;
    match (src, dst) {
        (IpAddress::Ipv4(s), IpAddress::Ipv4(d)) => {
            p = vec![0u8; 20];
            p[0] = 0x45;
            p[2..4].copy_from_slice(&((20 + tlen) as u16).to_be_bytes());
            p[6] = 0x40; // DF
            p[8] = 64;
            p[9] = 6;
            p[12..16].copy_from_slice(&s.octets());
            p[16..20].copy_from_slice(&d.octets());
            let c = !csum_fold(csum_add(0, &p));
            p[10..12].copy_from_slice(&c.to_be_bytes());
        }
        (IpAddress::Ipv6(s), IpAddress::Ipv6(d)) => {
            p = vec![0u8; 40];
            p[0] = 0x60;
            p[4..6].copy_from_slice(&(tlen as u16).to_be_bytes());
            p[6] = 6;
            p[7] = 64;
            p[8..24].copy_from_slice(&s.octets());
            p[24..40].copy_from_slice(&d.octets());
        }
        _ => panic!("mixed address families"),
    }
    p.extend_from_slice(&t);
    p
}

/// An IP packet carrying an ICMPv4 / ICMPv6 echo request (the interface answers it by itself when
/// `auto-icmp-echo-reply` is enabled).
pub fn build_echo_request(src: &IpAddress, dst: &IpAddress, ident: u16, seq_no: u16, data_len: usize) -> Vec<u8> {
    let mut m = vec![0u8; 8 + data_len];
    m[4..6].copy_from_slice(&ident.to_be_bytes());
    m[6..8].copy_from_slice(&seq_no.to_be_bytes());
    for (i, b) in m[8..].iter_mut().enumerate() {
        *b = i as u8;
    }
    let mut p;
    match (src, dst) {
        (IpAddress::Ipv4(s), IpAddress::Ipv4(d)) => {
            m[0] = 8;
            let c = !csum_fold(csum_add(0, &m));
            m[2..4].copy_from_slice(&c.to_be_bytes());
            p = vec![0u8; 20];
            p[0] = 0x45;
            p[2..4].copy_from_slice(&((20 + m.len()) as u16).to_be_bytes());
            p[6] = 0x40;
            p[8] = 64;
            p[9] = 1;
            p[12..16].copy_from_slice(&s.octets());
            p[16..20].copy_from_slice(&d.octets());
            let c = !csum_fold(csum_add(0, &p));
            p[10..12].copy_from_slice(&c.to_be_bytes());
        }
        (IpAddress::Ipv6(s), IpAddress::Ipv6(d)) => {
            m[0] = 128;
            let c = !csum_fold(csum_add(pseudo(src, dst, 58, m.len()), &m));
            m[2..4].copy_from_slice(&c.to_be_bytes());
            p = vec![0u8; 40];
            p[0] = 0x60;
            p[4..6].copy_from_slice(&(m.len() as u16).to_be_bytes());
            p[6] = 58;
            p[7] = 64;
            p[8..24].copy_from_slice(&s.octets());
            p[24..40].copy_from_slice(&d.octets());
        }
        _ => panic!("mixed address families"),
    }
    p.extend_from_slice(&m);
    p
}

/// TCP options builder (padded with NOPs to a multiple of 4).
pub fn tcp_opts(mss: Option<u16>, ws: Option<u8>, sack_perm: bool, ts: Option<(u32, u32)>) -> Vec<u8> {
    let mut o = vec![];
    if let Some(m) = mss {
        o.extend_from_slice(&[2, 4, (m >> 8) as u8, m as u8]);
    }
    if let Some(w) = ws {
        o.extend_from_slice(&[3, 3, w]);
    }
    if sack_perm {
        o.extend_from_slice(&[4, 2]);
    }
    if let Some((v, e)) = ts {
        o.extend_from_slice(&[8, 10]);
        o.extend_from_slice(&v.to_be_bytes());
        o.extend_from_slice(&e.to_be_bytes());
    }
    while o.len() % 4 != 0 {
        o.push(1);
    }
    o
}

// ---------------------------------------------------------------------------------------------
// C10: strict validator for every frame an interface hands to its device
// ---------------------------------------------------------------------------------------------

/// Strictly re-parse `frame` as emitted by an interface on `medium` whose unicast addresses are
/// `own` and whose device MTU is `mtu`.  `Err("<slug>: detail")` names the first rule violated;
/// callers report it as class `c10-<slug>`.
///
/// Rules: frame <= MTU; Ethernet type known; ARP fields consistent; IPv4 version/IHL/total length
/// = frame size, header checksum; IPv6 payload length = frame size, extension-header chain
/// consistent; TCP data offset, option list well formed, checksum; UDP length field = IP payload,
/// checksum (zero only over IPv4); ICMPv4/ICMPv6 checksum; IP source address is one of `own`, or
/// unspecified only where the protocol requires it (DHCP client, MLD report, DAD neighbour
/// solicitation, IGMP is always sourced); never broadcast / multicast.
pub fn validate_frame(medium: Medium, frame: &[u8], own: &[IpAddress], mtu: usize) -> std::result::Result<(), String> {
    if frame.len() > mtu {
        return Err(format!("over-mtu: frame {} > mtu {}", frame.len(), mtu));
    }
    let p: &[u8] = match medium {
        Medium::Ip => frame,
        Medium::Ethernet => {
            if frame.len() < 14 {
                return Err(format!("eth-short: {}", frame.len()));
            }
            if frame[6] & 1 != 0 {
                return Err("eth-src-multicast: group bit set in source MAC".into());
            }
            match be16(frame, 12) {
                0x0806 => return validate_arp(&frame[14..], own),
                0x0800 => {
                    if frame[14] >> 4 != 4 {
                        return Err("eth-type-mismatch: ethertype IPv4 but version != 4".into());
                    }
                    &frame[14..]
                }
                0x86dd => {
                    if frame.len() < 15 || frame[14] >> 4 != 6 {
                        return Err("eth-type-mismatch: ethertype IPv6 but version != 6".into());
                    }
                    &frame[14..]
                }
                t => return Err(format!("eth-type-unknown: {:#06x}", t)),
            }
        }
        _ => return Err("medium-unsupported: validator handles Ip and Ethernet".into()),
    };
    if p.is_empty() {
        return Err("ip-empty: no IP header".into());
    }
    match p[0] >> 4 {
        4 => validate_ipv4(p, own),
        6 => validate_ipv6(p, own),
        v => Err(format!("ip-version: {}", v)),
    }
}

fn validate_arp(a: &[u8], own: &[IpAddress]) -> std::result::Result<(), String> {
    if a.len() < 28 {
        return Err(format!("arp-short: {}", a.len()));
    }
    if be16(a, 0) != 1 || be16(a, 2) != 0x0800 || a[4] != 6 || a[5] != 4 {
        return Err("arp-fields: htype/ptype/hlen/plen".into());
    }
    let op = be16(a, 6);
    if op != 1 && op != 2 {
        return Err(format!("arp-oper: {}", op));
    }
    let spa = v4(&a[14..18]);
    if !own.contains(&spa) {
        return Err(format!("arp-src: sender protocol address {} is not ours", spa));
    }
    Ok(())
}

fn src_rule(src: &IpAddress, own: &[IpAddress], unspec_ok: bool) -> std::result::Result<(), String> {
    if is_unspecified(src) {
        if unspec_ok {
            return Ok(());
        }
        return Err("src-unspecified: unspecified source where the protocol does not require it".into());
    }
    if is_multicast_or_bcast(src) {
        return Err(format!("src-not-unicast: {}", src));
    }
    if !own.contains(src) {
        return Err(format!("src-not-own: {} is not an address of this interface", src));
    }
    Ok(())
}

fn validate_ipv4(p: &[u8], own: &[IpAddress]) -> std::result::Result<(), String> {
    if p.len() < 20 {
        return Err(format!("ipv4-short: {}", p.len()));
    }
    let ihl = ((p[0] & 0xf) as usize) * 4;
    let total = be16(p, 2) as usize;
    if ihl < 20 || ihl > p.len() {
        return Err(format!("ipv4-ihl: {}", ihl));
    }
    if total != p.len() {
        return Err(format!("ipv4-total-len: header says {} frame carries {}", total, p.len()));
    }
    if !csum_ok(csum_add(0, &p[..ihl])) {
        return Err("ipv4-checksum: header checksum wrong".into());
    }
    if p[8] == 0 {
        return Err("ipv4-ttl: zero".into());
    }
    let (src, dst) = (v4(&p[12..16]), v4(&p[16..20]));
    let proto = p[9];
    let fragfield = be16(p, 6);
    let frag_off = (fragfield & 0x1fff) as usize * 8;
    let more = fragfield & 0x2000 != 0;
    let body = &p[ihl..];
    // DHCP client messages are the only IPv4 traffic that must use 0.0.0.0
    let dhcp_client = proto == 17 && frag_off == 0 && body.len() >= 8 && be16(body, 0) == 68 && be16(body, 2) == 67;
    src_rule(&src, own, dhcp_client)?;
    if more && body.len() % 8 != 0 {
        return Err(format!("ipv4-frag-align: non-final fragment of {} bytes", body.len()));
    }
    if frag_off != 0 || more {
        return Ok(()); // L4 is checked on unfragmented packets only
    }
    validate_l4(proto, &src, &dst, body, false)
}

fn validate_ipv6(p: &[u8], own: &[IpAddress]) -> std::result::Result<(), String> {
    if p.len() < 40 {
        return Err(format!("ipv6-short: {}", p.len()));
    }
    let pl = be16(p, 4) as usize;
    if 40 + pl != p.len() {
        return Err(format!("ipv6-payload-len: header says {} frame carries {}", pl, p.len() - 40));
    }
    if p[7] == 0 {
        return Err("ipv6-hop-limit: zero".into());
    }
    let (src, dst) = (v6(&p[8..24]), v6(&p[24..40]));
    let mut nh = p[6];
    let mut body = &p[40..];
    // walk extension headers: hop-by-hop(0), routing(43), destination options(60)
    let mut guard = 0;
    while nh == 0 || nh == 43 || nh == 60 {
        if body.len() < 8 {
            return Err("ipv6-ext-short: extension header truncated".into());
        }
        let l = (body[1] as usize + 1) * 8;
        if l > body.len() {
            return Err("ipv6-ext-len: extension header longer than packet".into());
        }
        if nh == 0 || nh == 60 {
            // options must tile the header exactly
            let mut i = 2;
            while i < l {
                if body[i] == 0 {
                    i += 1;
                } else {
                    if i + 1 >= l {
                        return Err("ipv6-ext-opt: option header truncated".into());
                    }
                    i += 2 + body[i + 1] as usize;
                }
            }
            if i != l {
                return Err("ipv6-ext-opt: options do not tile the header".into());
            }
        }
        nh = body[0];
        body = &body[l..];
        guard += 1;
        if guard > 8 {
            return Err("ipv6-ext-chain: too long".into());
        }
    }
    if nh == 44 {
        src_rule(&src, own, false)?;
        return Ok(()); // fragment
    }
    // unspecified source: DAD neighbour solicitation (135), MLD reports (143 / 131)
    let unspec_ok = nh == 58 && !body.is_empty() && matches!(body[0], 135 | 143 | 131 | 133);
    src_rule(&src, own, unspec_ok)?;
    validate_l4(nh, &src, &dst, body, true)
}

fn validate_l4(proto: u8, src: &IpAddress, dst: &IpAddress, b: &[u8], is_v6: bool) -> std::result::Result<(), String> {
    match proto {
        6 => {
            if b.len() < 20 {
                return Err(format!("tcp-short: {}", b.len()));
            }
            let doff = ((b[12] >> 4) as usize) * 4;
            if doff < 20 || doff > b.len() {
                return Err(format!("tcp-data-offset: {} of {}", doff, b.len()));
            }
            if !csum_ok(csum_add(pseudo(src, dst, 6, b.len()), b)) {
                return Err("tcp-checksum: wrong".into());
            }
            if b[12] & 0x0f != 0 {
                return Err("tcp-reserved: reserved bits set".into());
            }
            if be16(b, 0) == 0 || be16(b, 2) == 0 {
                return Err("tcp-port-zero: port 0".into());
            }
            let fl = b[13];
            if fl & F_SYN != 0 && fl & F_FIN != 0 {
                return Err("tcp-flags: SYN+FIN".into());
            }
            if fl & F_RST != 0 && fl & (F_SYN | F_FIN) != 0 {
                return Err("tcp-flags: RST with SYN/FIN".into());
            }
            if fl & F_ACK == 0 && fl & (F_SYN | F_RST) == 0 {
                return Err("tcp-flags: neither ACK nor SYN nor RST".into());
            }
            // options: every option inside the header, list ends with EOL/NOP padding only
            let mut i = 20;
            let mut ended = false;
            while i < doff {
                if ended {
                    if b[i] != 0 {
                        return Err("tcp-options: data after end-of-list".into());
                    }
                    i += 1;
                    continue;
                }
                match b[i] {
                    0 => {
                        ended = true;
                        i += 1
                    }
                    1 => i += 1,
                    k => {
                        if i + 1 >= doff {
                            return Err(format!("tcp-options: option {} truncated", k));
                        }
                        let l = b[i + 1] as usize;
                        if l < 2 || i + l > doff {
                            return Err(format!("tcp-options: option {} length {} overruns header", k, l));
                        }
                        let want = match k {
                            2 => Some(4),
                            3 => Some(3),
                            4 => Some(2),
                            8 => Some(10),
                            _ => None,
                        };
                        if let Some(w) = want {
                            if l != w {
                                return Err(format!("tcp-options: option {} has length {}", k, l));
                            }
                        }
                        if k == 5 && (l < 10 || (l - 2) % 8 != 0) {
                            return Err(format!("tcp-options: SACK length {}", l));
                        }
                        if (k == 2 || k == 3 || k == 4) && fl & F_SYN == 0 {
                            return Err(format!("tcp-options: option {} outside a SYN", k));
                        }
                        if k == 3 && b[i + 2] > 14 {
                            return Err(format!("tcp-options: window scale {}", b[i + 2]));
                        }
                        i += l;
                    }
                }
            }
            Ok(())
        }
        17 => {
            if b.len() < 8 {
                return Err(format!("udp-short: {}", b.len()));
            }
            if be16(b, 4) as usize != b.len() {
                return Err(format!("udp-length: field {} payload {}", be16(b, 4), b.len()));
            }
            let ck = be16(b, 6);
            if ck == 0 {
                if is_v6 {
                    return Err("udp-checksum: zero checksum over IPv6".into());
                }
            } else if !csum_ok(csum_add(pseudo(src, dst, 17, b.len()), b)) {
                return Err("udp-checksum: wrong".into());
            }
            Ok(())
        }
        1 if !is_v6 => {
            if b.len() < 8 {
                return Err(format!("icmpv4-short: {}", b.len()));
            }
            if !csum_ok(csum_add(0, b)) {
                return Err("icmpv4-checksum: wrong".into());
            }
            Ok(())
        }
        2 if !is_v6 => {
            if b.len() < 8 {
                return Err(format!("igmp-short: {}", b.len()));
            }
            if !csum_ok(csum_add(0, b)) {
                return Err("igmp-checksum: wrong".into());
            }
            Ok(())
        }
        58 if is_v6 => {
            if b.len() < 4 {
                return Err(format!("icmpv6-short: {}", b.len()));
            }
            if !csum_ok(csum_add(pseudo(src, dst, 58, b.len()), b)) {
                return Err("icmpv6-checksum: wrong".into());
            }
            // NDISC options must tile the message
            let fixed = match b[0] {
                133 => Some(8),
                134 => Some(16),
                135 | 136 => Some(24),
                _ => None,
            };
            if let Some(f) = fixed {
                if b.len() < f {
                    return Err(format!("ndisc-short: type {} len {}", b[0], b.len()));
                }
                let mut i = f;
                while i < b.len() {
                    if i + 2 > b.len() || b[i + 1] == 0 {
                        return Err("ndisc-option: zero/truncated length".into());
                    }
                    i += b[i + 1] as usize * 8;
                }
                if i != b.len() {
                    return Err("ndisc-option: options overrun the message".into());
                }
            }
            Ok(())
        }
        59 if is_v6 => Ok(()),
        _ => Ok(()), // protocols without a validator here (raw sockets): length rules above still applied
    }
}

/// The offloading NIC of a device with `Checksum::Rx` / `None` capabilities: fill in the IPv4
/// header, TCP, UDP, ICMPv4 and ICMPv6 checksums the stack left zero (unfragmented packets).
pub fn fill_checksums(medium: Medium, frame: &mut [u8]) {
    let Some(o) = l3_offset(medium, frame) else { return };
    let p = &mut frame[o..];
    if p.is_empty() {
        return;
    }
    let (src, dst, mut proto, mut off, end) = match p[0] >> 4 {
        4 => {
            if p.len() < 20 {
                return;
            }
            let ihl = ((p[0] & 0xf) as usize) * 4;
            let total = (be16(p, 2) as usize).min(p.len());
            if ihl < 20 || total < ihl {
                return;
            }
            p[10] = 0;
            p[11] = 0;
            let c = !csum_fold(csum_add(0, &p[..ihl]));
            p[10..12].copy_from_slice(&c.to_be_bytes());
            if be16(p, 6) & 0x3fff != 0 {
                return;
            }
            (v4(&p[12..16]), v4(&p[16..20]), p[9], ihl, total)
        }
        6 => {
            if p.len() < 40 {
                return;
            }
            (v6(&p[8..24]), v6(&p[24..40]), p[6], 40, (40 + be16(p, 4) as usize).min(p.len()))
        }
        _ => return,
    };
    // IPv6 extension headers in front of the transport header
    while matches!(proto, 0 | 43 | 60) && off + 8 <= end {
        let l = (p[off + 1] as usize + 1) * 8;
        proto = p[off];
        off += l;
    }
    if off >= end {
        return;
    }
    let len = end - off;
    let (cko, pseudo_sum) = match proto {
        6 if len >= 20 => (16, pseudo(&src, &dst, 6, len)),
        17 if len >= 8 => (6, pseudo(&src, &dst, 17, len)),
        1 if len >= 4 => (2, 0),
        58 if len >= 4 => (2, pseudo(&src, &dst, 58, len)),
        _ => return,
    };
    let t = &mut p[off..end];
    t[cko] = 0;
    t[cko + 1] = 0;
    let mut c = !csum_fold(csum_add(pseudo_sum, t));
    if proto == 17 && c == 0 {
        c = 0xffff;
    }
    t[cko..cko + 2].copy_from_slice(&c.to_be_bytes());
}

/// slug of a `validate_frame` error ("tcp-checksum: wrong" -> "c10-tcp-checksum")
pub fn c10_class(err: &str) -> String {
    format!("c10-{}", err.split(':').next().unwrap_or("invalid").trim())
}

// ---------------------------------------------------------------------------------------------
// C13 helpers
// ---------------------------------------------------------------------------------------------

/// Early-poll probe: poll `iface` at `t`, which the caller guarantees to be strictly before the
/// deadline `iface.poll_at` last returned (or any instant if it returned None), with no frame
/// queued and no socket call since.  Returns the frames transmitted by that poll: the property
/// (C13) demands there are none.  Class: `c13-early-poll-transmits`.
pub fn early_poll_probe(iface: &mut Interface, dev: &mut QDev, sockets: &mut SocketSet<'_>, t: Instant) -> std::result::Result<(), String> {
    assert!(dev.rx.is_empty(), "early_poll_probe: frames queued");
    let before = dev.tx.len();
    iface.poll(t, dev, sockets);
    let n = dev.tx.len() - before;
    if n > 0 {
        Err(format!("early poll at t={}us transmitted {} frame(s)", t.total_micros(), n))
    } else {
        Ok(())
    }
}

/// Non-spinning clause of C13: after a poll at `t` that neither received nor transmitted a
/// frame, `poll_at` must be None or strictly later than `t`.  Class: `c13-spin`.
pub fn spin_check(t: Instant, received: usize, transmitted: usize, poll_at: Option<Instant>) -> std::result::Result<(), String> {
    if received == 0 && transmitted == 0 {
        if let Some(d) = poll_at {
            if d <= t {
                return Err(format!("idle poll at t={}us but poll_at={}us", t.total_micros(), d.total_micros()));
            }
        }
    }
    Ok(())
}

// ---------------------------------------------------------------------------------------------
// ISN control: replica of smoltcp's sPCG32 so that a `Config::random_seed` with a wanted ISN can
// be computed (the ISN actually used is always read back from the SYN on the wire).
// ---------------------------------------------------------------------------------------------

const PCG_M: u64 = 0xbb2efcec3c39611d;
const PCG_A: u64 = 0x7590ef39;

fn pcg_next(state: &mut u64) -> u32 {
    let s = state.wrapping_mul(PCG_M).wrapping_add(PCG_A);
    *state = s;
    let shift = 29 - (s >> 61);
    (s >> shift) as u32
}
fn pcg_u16(state: &mut u64) -> u16 {
    let n = pcg_next(state);
    (n ^ (n >> 16)) as u16
}
fn inv_m() -> u64 {
    // Newton iteration for the inverse of an odd number modulo 2^64
    let mut x: u64 = PCG_M;
    for _ in 0..6 {
        x = x.wrapping_mul(2u64.wrapping_sub(PCG_M.wrapping_mul(x)));
    }
    x
}
/// what the replica predicts as the first ISN drawn by an interface created with `seed`
/// (Interface::new draws an 802.15.4 sequence number, a 6LoWPAN tag and an IPv4 ident first)
pub fn predicted_isn(seed: u64) -> u32 {
    let mut s = seed;
    while pcg_next(&mut s) & 0xff == 0 {}
    while pcg_u16(&mut s) == 0 {}
    while pcg_u16(&mut s) == 0 {}
    pcg_next(&mut s)
}
/// a `Config::random_seed` for which the replica predicts ISN = `isn`; `salt` varies the free bits
pub fn seed_for_isn(isn: u32, salt: u64) -> u64 {
    let im = inv_m();
    let mut salt = salt;
    for _ in 0..64 {
        // state after the 4th step: top three bits 0 -> shift 29 -> output = bits 29..60
        let mut s = ((isn as u64) << 29) | (salt & ((1 << 29) - 1));
        for _ in 0..4 {
            s = s.wrapping_sub(PCG_A).wrapping_mul(im);
        }
        if predicted_isn(s) == isn {
            return s;
        }
        salt = salt.wrapping_mul(6364136223846793005).wrapping_add(1442695040888963407);
    }
    salt // give up: caller reads the real ISN back anyway
}

// ---------------------------------------------------------------------------------------------
// shared: failures, stats
// ---------------------------------------------------------------------------------------------

#[derive(Default, Clone, Debug)]
pub struct RunOut {
    /// (class, detail) — at most one entry per class and run
    pub fails: Vec<(String, String)>,
    pub stats: BTreeMap<String, u64>,
    /// `rx` simulation: the explicit op list that was executed (generated in the loop or replayed)
    pub ops: Vec<String>,
}

impl RunOut {
    pub fn fail(&mut self, class: &str, detail: String) {
        if !self.fails.iter().any(|(c, _)| c == class) {
            self.fails.push((class.to_string(), detail));
        }
    }
    pub fn bump(&mut self, k: &str, n: u64) {
        *self.stats.entry(k.to_string()).or_default() += n;
    }
}

fn seqdiff(a: u32, b: u32) -> i64 {
    a.wrapping_sub(b) as i32 as i64
}

static TSVAL: std::sync::atomic::AtomicU32 = std::sync::atomic::AtomicU32::new(1);
fn tsgen() -> u32 {
    TSVAL.fetch_add(1, std::sync::atomic::Ordering::Relaxed)
}

fn state_name(s: tcp::State) -> &'static str {
    match s {
        tcp::State::Closed => "CLOSED",
        tcp::State::Listen => "LISTEN",
        tcp::State::SynSent => "SYN-SENT",
        tcp::State::SynReceived => "SYN-RECEIVED",
        tcp::State::Established => "ESTABLISHED",
        tcp::State::FinWait1 => "FIN-WAIT-1",
        tcp::State::FinWait2 => "FIN-WAIT-2",
        tcp::State::CloseWait => "CLOSE-WAIT",
        tcp::State::Closing => "CLOSING",
        tcp::State::LastAck => "LAST-ACK",
        tcp::State::TimeWait => "TIME-WAIT",
    }
}

/// C02 deadline clause: does this socket have unacknowledged data / SYN / FIN?
pub fn has_unacked(s: &tcp::Socket) -> bool {
    // a CLOSED socket may still hold the bytes of an aborted connection: there is no connection any
    // more whose data could be unacknowledged (LISTEN / TIME-WAIT cannot hold unsent data)
    (s.send_queue() > 0 && !matches!(s.state(), tcp::State::Closed | tcp::State::Listen | tcp::State::TimeWait))
        || matches!(
            s.state(),
            tcp::State::SynSent | tcp::State::SynReceived | tcp::State::FinWait1 | tcp::State::Closing | tcp::State::LastAck
        )
}

// ---------------------------------------------------------------------------------------------
// C05: sender-side oracle, fed with every segment an endpoint emits and every segment that is
// delivered to it
// ---------------------------------------------------------------------------------------------

pub struct TxCtx {
    /// bytes the application has handed to send() so far
    pub written: u64,
    pub closed: bool,
    /// offset of the first unacknowledged byte (written - send_queue, +1 once the FIN is acknowledged),
    /// read after the poll
    pub una: i64,
    /// free receive-buffer space before / after the poll that emitted the segment
    pub rxfree_before: usize,
    pub rxfree_after: usize,
    pub ip_mtu: usize,
    pub keep_alive: bool,
    /// this poll ingested at least one frame (statistics: fast retransmit vs RTO)
    pub had_rx: bool,
    /// DeviceCapabilities::max_burst_size and max_transmission_unit of the emitting device: the
    /// interface clamps the window field to max_burst * (mtu - IP header - TCP header)
    pub max_burst: Option<usize>,
    pub dev_mtu: usize,
}

/// What the harness knows about the receiving socket at the moment a segment is handed to it
/// (only meaningful when that segment is the only one ingested by the next poll).
pub struct RxCtx {
    /// first unacknowledged byte of the socket's own stream (offset) and bytes queued behind it
    pub una: i64,
    pub sendq: i64,
    /// next expected sequence number of the peer's stream, as offset from irs+1 (FIN counted)
    pub rcv_nxt: i64,
    pub state: tcp::State,
}

#[derive(Default)]
pub struct TxOracle {
    pub side: usize,
    pub iss: Option<u32>,
    pub irs: Option<u32>,
    pub syn_ws: Option<u8>,
    pub peer_syn: bool,
    pub peer_mss: Option<u16>,
    pub peer_ws: Option<u8>,
    pub snd_max: i64,
    pub fin_off: Option<i64>,
    /// right edge the socket may assume: the edge of the last segment it certainly accepted, or any
    /// edge of a segment delivered since whose acceptance the harness cannot decide (maximum kept)
    pub max_edge: Option<i64>,
    pub zero_window_adv: bool,
    pub n_rto: u64,
    pub n_fast: u64,
    pub n_data: u64,
    pub n_probe: u64,
    /// window fields clamped by max_burst_size although a window scale is in force
    pub n_burst_clamp_scaled: u64,
}

impl TxOracle {
    pub fn new(side: usize) -> TxOracle {
        TxOracle { side, ..Default::default() }
    }

    /// the socket is back in LISTEN (handshake reset): whatever it sends next belongs to a new
    /// connection with a new initial sequence number; statistics are kept
    pub fn new_incarnation(&mut self) {
        let keep = (self.n_rto, self.n_fast, self.n_data, self.n_probe, self.zero_window_adv, self.n_burst_clamp_scaled);
        *self = TxOracle::new(self.side);
        (self.n_rto, self.n_fast, self.n_data, self.n_probe, self.zero_window_adv, self.n_burst_clamp_scaled) = keep;
    }

    /// iface/packet.rs: with `max_burst_size` the window field of every TCP segment is cut down to
    /// max_burst * (device MTU - IP header - TCP header), whatever the socket computed
    fn burst_clamp(s: &Seg, cx: &TxCtx) -> usize {
        match cx.max_burst {
            Some(b) => b * cx.dev_mtu.saturating_sub(s.ip_hdr_len + 20 + s.opt_len),
            None => usize::MAX,
        }
    }

    fn peer_scale(&self) -> u32 {
        match (self.syn_ws, self.peer_ws) {
            (Some(_), Some(p)) => p as u32,
            _ => 0,
        }
    }
    fn own_shift(&self) -> u32 {
        match (self.syn_ws, self.peer_ws) {
            (Some(s), Some(_)) => s as u32,
            _ => 0,
        }
    }
    pub fn mss_eff(&self) -> usize {
        match self.peer_mss {
            None | Some(0) => 536,
            Some(m) => (m as usize).max(48),
        }
    }

    /// A segment (valid checksums) from the peer was handed to this endpoint's interface.
    /// `cx = Some(..)`: it was the only segment ingested by that poll, so the harness can decide in
    /// the clear-cut case (an in-order pure ACK with an acceptable acknowledgment number in a state
    /// that processes it) that the socket learned exactly this window ("last learned").  Otherwise the
    /// edge only widens what the socket may legitimately assume.
    pub fn on_delivered(&mut self, s: &Seg, cx: Option<&RxCtx>) {
        if s.has(F_RST) {
            return;
        }
        if s.has(F_SYN) {
            if !self.peer_syn {
                self.peer_syn = true;
                self.peer_mss = s.mss;
                self.peer_ws = s.ws;
                self.irs = Some(s.seq);
            }
            // SYN windows are never scaled
            let edge = if s.has(F_ACK) {
                match self.iss {
                    Some(iss) => {
                        let a = seqdiff(s.ack, iss.wrapping_add(1));
                        if a != 0 {
                            return;
                        }
                        a + s.win as i64
                    }
                    None => return,
                }
            } else {
                s.win as i64
            };
            self.max_edge = Some(self.max_edge.map_or(edge, |e| e.max(edge)));
            return;
        }
        if !s.has(F_ACK) {
            return;
        }
        let Some(iss) = self.iss else { return };
        let a = seqdiff(s.ack, iss.wrapping_add(1));
        // an acknowledgment of something never sent teaches nothing (the socket must reject it)
        let top = self.fin_off.map_or(self.snd_max, |f| f + 1);
        if a < 0 || a > top {
            return;
        }
        let edge = a + ((s.win as i64) << self.peer_scale());
        let mut certain = false;
        if let (Some(c), Some(irs)) = (cx, self.irs) {
            let so = seqdiff(s.seq, irs.wrapping_add(1));
            let state_ok = matches!(c.state, tcp::State::Established | tcp::State::FinWait1 | tcp::State::FinWait2 | tcp::State::CloseWait | tcp::State::Closing);
            if a < c.una {
                return; // below SND.UNA: dropped as a duplicate before the window is looked at
            }
            certain = state_ok && s.pay_len == 0 && !s.has(F_FIN) && so == c.rcv_nxt && a <= c.una + c.sendq;
        }
        if certain {
            self.max_edge = Some(edge);
        } else {
            self.max_edge = Some(self.max_edge.map_or(edge, |e| e.max(edge)));
        }
    }

    /// this endpoint emitted `s` (frame bytes in `frame`)
    pub fn on_emitted(&mut self, frame: &[u8], s: &Seg, cx: &TxCtx, out: &mut RunOut, who: &str) {
        if s.has(F_RST) {
            return;
        }
        let pay = &frame[s.pay_off..s.pay_off + s.pay_len];
        if s.has(F_SYN) {
            match self.iss {
                None => self.iss = Some(s.seq),
                Some(i) if i != s.seq => out.fail("c05-seq-gap", format!("{} SYN retransmitted with a different sequence number {} != {}", who, s.seq, i)),
                _ => {}
            }
            self.syn_ws = s.ws;
            let clamp = Self::burst_clamp(s, cx);
            let lo = cx.rxfree_after.min(65535).min(clamp) as u16;
            let hi = cx.rxfree_before.min(65535).min(clamp) as u16;
            if s.win < lo || s.win > hi {
                out.fail("c05-syn-window", format!("{} SYN window field {} but free receive space is {}..{} (must be unscaled, capped at 65535)", who, s.win, cx.rxfree_after, cx.rxfree_before));
            }
            if s.pay_len != 0 {
                out.fail("c05-wrong-bytes", format!("{} SYN carries {} payload bytes", who, s.pay_len));
            }
            return;
        }
        let Some(iss) = self.iss else {
            out.fail("c05-seq-gap", format!("{} non-SYN segment before any SYN", who));
            return;
        };
        let off = seqdiff(s.seq, iss.wrapping_add(1));
        let len = s.pay_len as i64;
        // window field scaled as negotiated
        let sh = self.own_shift();
        let clamp = Self::burst_clamp(s, cx);
        let lo = (cx.rxfree_after >> sh).min(65535).min(clamp) as u16;
        let hi = (cx.rxfree_before >> sh).min(65535).min(clamp) as u16;
        if cx.max_burst.is_some() && sh > 0 && (s.win as usize) == clamp && ((s.win as usize) << sh) > clamp {
            // the clamp (a byte count) was applied to the scaled field: the peer reads clamp << shift
            self.n_burst_clamp_scaled += 1;
        }
        if s.win < lo || s.win > hi {
            out.fail("c05-window-scale", format!("{} window field {} (shift {}) but free receive space is {}..{}", who, s.win, sh, cx.rxfree_after, cx.rxfree_before));
        }
        if s.win == 0 {
            self.zero_window_adv = true;
        }
        if len == 0 && !s.has(F_FIN) {
            // a segment that occupies no sequence space carries SND.NXT (or, rewound, something
            // below it): never a sequence number this connection has not reached yet
            let top = self.fin_off.map_or(self.snd_max, |f| f + 1);
            if off > top || off < -1 {
                out.fail("c05-seq-beyond-sent", format!("{} bare ACK with sequence offset {} but this connection has only sent up to offset {} (iss {})", who, off, top, iss));
            }
        }
        if len > 0 {
            // keep-alive: one garbage byte at an already acknowledged sequence number
            let is_keepalive = cx.keep_alive && len == 1 && off < cx.una.max(0) && off >= -1;
            if !is_keepalive {
                self.n_data += 1;
                let mut bad = None;
                if off < 0 || (off + len) as u64 > cx.written {
                    bad = Some(format!("segment covers offsets {}..{} but the application wrote only {} bytes", off, off + len, cx.written));
                } else {
                    for (i, b) in pay.iter().enumerate() {
                        let w = stream_byte(self.side, off as u64 + i as u64);
                        if *b != w {
                            bad = Some(format!("byte at stream offset {} is {:#04x}, application wrote {:#04x} (segment off={} len={})", off + i as i64, b, w, off, len));
                            break;
                        }
                    }
                }
                if let Some(b) = bad {
                    out.fail("c05-wrong-bytes", format!("{} {}", who, b));
                }
                let mss = self.mss_eff();
                if s.pay_len > mss {
                    out.fail("c05-over-mss", format!("{} payload {} > peer MSS {} (announced {:?})", who, s.pay_len, mss, self.peer_mss));
                }
                if s.ip_hdr_len + 20 + s.opt_len + s.pay_len > cx.ip_mtu {
                    out.fail("c05-over-mss", format!("{} IP packet {} > MTU {}", who, s.ip_hdr_len + 20 + s.opt_len + s.pay_len, cx.ip_mtu));
                }
                match self.max_edge {
                    None => out.fail("c05-beyond-window", format!("{} data sent before any window was learned", who)),
                    Some(e) => {
                        // "one-byte zero-window probes excepted": with a window the peer shrank below
                        // what is in flight the probe byte lies beyond the learned edge
                        let probe = len == 1;
                        if off + len > e && !probe {
                            out.fail(
                                "c05-beyond-window",
                                format!("{} segment off={} len={} ends {} bytes beyond the right edge {} of the window learned from the segments delivered so far{}", who, off, len, off + len - e, e, if off + len <= self.snd_max { " (retransmission)" } else { "" }),
                            );
                        }
                        if probe && off + len > e {
                            self.n_probe += 1;
                        }
                    }
                }
                if off + len > self.snd_max {
                    if off > self.snd_max {
                        out.fail("c05-seq-gap", format!("{} new data at offset {} but only {} bytes were sent before", who, off, self.snd_max));
                    }
                } else if cx.had_rx {
                    self.n_fast += 1;
                } else {
                    self.n_rto += 1;
                }
                if let Some(f) = self.fin_off {
                    if off + len > f {
                        out.fail("c05-data-after-fin", format!("{} data up to offset {} after a FIN at offset {}", who, off + len, f));
                    }
                }
                self.snd_max = self.snd_max.max(off + len);
            }
        }
        if s.has(F_FIN) {
            let fpos = off + len;
            if !cx.closed || fpos as u64 != cx.written {
                out.fail("c05-fin-misplaced", format!("{} FIN at offset {} but the application {} and wrote {} bytes", who, fpos, if cx.closed { "closed" } else { "did not close" }, cx.written));
            }
            if let Some(f) = self.fin_off {
                if f != fpos {
                    out.fail("c05-data-after-fin", format!("{} FIN moved from offset {} to {}", who, f, fpos));
                }
            }
            self.fin_off = Some(fpos);
            self.snd_max = self.snd_max.max(fpos);
        }
    }
}

// ---------------------------------------------------------------------------------------------
// e2e configuration
// ---------------------------------------------------------------------------------------------

#[derive(Clone, Debug, PartialEq)]
pub enum CloseMode {
    /// close as soon as everything was handed to send()
    Done,
    /// close after the peer's FIN was reported (recv = Finished)
    OnFin,
    /// close at this virtual time (ms) even if not everything was written
    At(i64),
}

#[derive(Clone, Debug)]
pub struct EpCfg {
    pub rx: usize,
    pub tx: usize,
    pub cc: u8,
    pub nagle: bool,
    pub ackd_ms: u64,
    pub ka_ms: u64,
    pub to_ms: u64,
    pub ts: bool,
    pub rs: u64,
    pub n: u64,
    pub wch: usize,
    pub rch: usize,
    pub tick_us: i64,
    pub react: u64,
    pub stall_at_ms: i64,
    pub stall_for_ms: i64,
    pub close: CloseMode,
    /// DeviceCapabilities::max_burst_size of this endpoint's device (0 = None)
    pub burst: usize,
    /// checksum capabilities of the device for all protocols: 0 = Both, 1 = Tx (fills, does not
    /// verify), 2 = Rx (verifies, does not fill: the channel plays the offloading NIC)
    pub ck: u8,
}

#[derive(Clone, Debug)]
pub struct E2eCfg {
    pub id: String,
    pub seed: u64,
    pub eth: bool,
    pub v6: bool,
    pub mtu: usize,
    pub ep: [EpCfg; 2],
    pub loss: u64,
    pub dup: u64,
    pub reord: u64,
    pub flip: u64,
    pub chaos_ms: i64,
    pub lat_us: i64,
    pub dmax_ms: i64,
    pub simopen: bool,
    pub probe: bool,
    /// the application may call close() while the socket is still in SYN-RECEIVED
    pub ecl: bool,
    /// device back-pressure: percentage of polls in which the device hands out only 0, 1 or 2
    /// transmit tokens (replenished before the next poll); 0 = the device always accepts frames
    pub bp: u64,
    /// Config.slaac = true on both interfaces (Ethernet; link-local addresses; no router answers)
    pub slaac: bool,
    /// competing traffic: percentage of delivered frames that are accompanied by an ICMP echo
    /// request, which the interface answers by itself (and which uses up transmit tokens)
    pub ping: u64,
}

impl E2eCfg {
    pub fn to_case(&self) -> Case {
        let mut cfg: Vec<(String, String)> = vec![];
        let mut put = |k: &str, v: String| cfg.push((k.to_string(), v));
        put("sim", "e2e".into());
        put("seed", self.seed.to_string());
        put("med", if self.eth { "eth" } else { "ip" }.into());
        put("ipv", if self.v6 { "6" } else { "4" }.into());
        put("mtu", self.mtu.to_string());
        put("loss", self.loss.to_string());
        put("dup", self.dup.to_string());
        put("reord", self.reord.to_string());
        put("flip", self.flip.to_string());
        put("chaos", self.chaos_ms.to_string());
        put("lat", self.lat_us.to_string());
        put("dmax", self.dmax_ms.to_string());
        put("simopen", (self.simopen as u8).to_string());
        put("probe", (self.probe as u8).to_string());
        put("ecl", (self.ecl as u8).to_string());
        put("bp", self.bp.to_string());
        put("slaac", (self.slaac as u8).to_string());
        put("ping", self.ping.to_string());
        for (i, e) in self.ep.iter().enumerate() {
            let s = if i == 0 { "a" } else { "b" };
            let mut put = |k: &str, v: String| cfg.push((format!("{}{}", k, s), v));
            put("rx", e.rx.to_string());
            put("tx", e.tx.to_string());
            put("cc", e.cc.to_string());
            put("nagle", (e.nagle as u8).to_string());
            put("ackd", e.ackd_ms.to_string());
            put("ka", e.ka_ms.to_string());
            put("to", e.to_ms.to_string());
            put("ts", (e.ts as u8).to_string());
            put("rs", e.rs.to_string());
            put("n", e.n.to_string());
            put("wch", e.wch.to_string());
            put("rch", e.rch.to_string());
            put("tick", e.tick_us.to_string());
            put("react", e.react.to_string());
            put("stall", format!("{}:{}", e.stall_at_ms, e.stall_for_ms));
            put(
                "close",
                match e.close {
                    CloseMode::Done => "done".into(),
                    CloseMode::OnFin => "fin".into(),
                    CloseMode::At(t) => format!("t{}", t),
                },
            );
            put("burst", e.burst.to_string());
            put("ck", e.ck.to_string());
        }
        Case { id: self.id.clone(), cfg, ops: vec![] }
    }

    pub fn from_case(c: &Case) -> E2eCfg {
        let g = |k: &str| -> String { c.get(k).unwrap_or_else(|| panic!("case {}: missing {}", c.id, k)).to_string() };
        let gi = |k: &str| -> i64 { g(k).parse().unwrap_or_else(|_| panic!("case {}: bad int {}", c.id, k)) };
        let gu = |k: &str| -> u64 { g(k).parse().unwrap_or_else(|_| panic!("case {}: bad u64 {}", c.id, k)) };
        let ep = |s: &str| -> EpCfg {
            let k = |n: &str| format!("{}{}", n, s);
            let st = g(&k("stall"));
            let (sa, sf) = st.split_once(':').expect("stall a:b");
            let cl = g(&k("close"));
            EpCfg {
                rx: gu(&k("rx")) as usize,
                tx: gu(&k("tx")) as usize,
                cc: gu(&k("cc")) as u8,
                nagle: gu(&k("nagle")) != 0,
                ackd_ms: gu(&k("ackd")),
                ka_ms: gu(&k("ka")),
                to_ms: gu(&k("to")),
                ts: gu(&k("ts")) != 0,
                rs: gu(&k("rs")),
                n: gu(&k("n")),
                wch: gu(&k("wch")) as usize,
                rch: gu(&k("rch")) as usize,
                tick_us: gi(&k("tick")),
                react: gu(&k("react")),
                stall_at_ms: sa.parse().unwrap(),
                stall_for_ms: sf.parse().unwrap(),
                close: match cl.as_str() {
                    "done" => CloseMode::Done,
                    "fin" => CloseMode::OnFin,
                    x => CloseMode::At(x[1..].parse().expect("close tN")),
                },
                burst: c.get_i(&k("burst"), 0) as usize,
                ck: c.get_i(&k("ck"), 0) as u8,
            }
        };
        E2eCfg {
            id: c.id.clone(),
            seed: gu("seed"),
            eth: g("med") == "eth",
            v6: g("ipv") == "6",
            mtu: gu("mtu") as usize,
            ep: [ep("a"), ep("b")],
            loss: gu("loss"),
            dup: gu("dup"),
            reord: gu("reord"),
            flip: gu("flip"),
            chaos_ms: gi("chaos"),
            lat_us: gi("lat"),
            dmax_ms: gi("dmax"),
            simopen: gu("simopen") != 0,
            probe: gu("probe") != 0,
            ecl: c.get_i("ecl", 0) != 0,
            bp: c.get_i("bp", 0) as u64,
            slaac: c.get_i("slaac", 0) != 0,
            ping: c.get_i("ping", 0) as u64,
        }
    }
}

/// Random configuration around the boundaries the property quantifiers name.
pub fn gen_e2e(rng: &mut Rng, id: String, tier: &str) -> E2eCfg {
    let thorough = tier == "thorough";
    let v6 = rng.chance(1, 5);
    let eth = rng.chance(1, 4);
    let mtu = if v6 {
        *rng.pick(&[1280usize, 1280, 1281, 1400, 1500])
    } else {
        match rng.below(8) {
            0 | 1 => 576,
            2 => 1500,
            3 => 1006,
            4 => 577,
            _ => rng.range(576, 1500) as usize,
        }
    };
    let iphdr = if v6 { 40 } else { 20 };
    let mss = mtu - iphdr - 20;
    let bufsize = |rng: &mut Rng| -> usize {
        match rng.below(20) {
            0 => rng.range(1, 8) as usize,
            1 => rng.range(9, 64) as usize,
            2 | 3 => mss,
            4 => mss - 1,
            5 => mss + 1,
            6 | 7 => rng.range(2, 4) as usize * mss,
            8 => 536,
            9 | 10 => rng.range(65, 2000) as usize,
            11 | 12 => rng.range(2000, 20000) as usize,
            13 => 65535,
            14 => 65536,
            15 => *rng.pick(&[131072usize, 262144, 100_000, 200_000]),
            16 => rng.range(65537, 262144) as usize,
            _ => rng.range(1, 6) as usize * 1024,
        }
    };
    let isn_seed = |rng: &mut Rng, total: u64| -> u64 {
        match rng.below(10) {
            // sequence numbers cross 2^31 / 2^32 somewhere inside the transfer
            0 | 1 | 2 => {
                let back = rng.below(total + 3);
                seed_for_isn((0x8000_0000u32).wrapping_sub(back as u32), rng.next())
            }
            3 | 4 | 5 => {
                let back = rng.below(total + 3);
                seed_for_isn((0u32).wrapping_sub(back as u32), rng.next())
            }
            6 => seed_for_isn(*rng.pick(&[0u32, 1, 0xffff_ffff, 0x7fff_ffff, 0x8000_0000, 0xffff_fffe]), rng.next()),
            _ => rng.next(),
        }
    };
    let big = rng.chance(1, if thorough { 8 } else { 20 });
    let mut eps = vec![];
    for side in 0..2 {
        let rx = bufsize(rng);
        let tx = bufsize(rng);
        let n: u64 = if side == 1 && rng.chance(1, 3) {
            0
        } else {
            match rng.below(10) {
                0 => 0,
                1 => rng.range(1, 10) as u64,
                2 | 3 => rng.range(10, 2000) as u64,
                4..=7 => rng.range(2000, 30000) as u64,
                _ => {
                    if big {
                        rng.range(100_000, 700_000) as u64
                    } else {
                        rng.range(20_000, 90_000) as u64
                    }
                }
            }
        };
        let tick_us = *rng.pick(&[50i64, 300, 1000, 5000, 20000, 100000]);
        let stall = if rng.chance(2, 5) { (rng.range(0, 3000), rng.range(1, 8000)) } else { (0, 0) };
        eps.push(EpCfg {
            rx,
            tx,
            cc: rng.below(3) as u8,
            nagle: rng.chance(1, 2),
            ackd_ms: if rng.chance(1, 2) { 10 } else { 0 },
            ka_ms: if rng.chance(1, 6) { *rng.pick(&[200u64, 1000, 5000]) } else { 0 },
            to_ms: if rng.chance(1, 25) { *rng.pick(&[500u64, 3000, 20000]) } else { 0 },
            ts: false,
            rs: 0,
            n,
            wch: match rng.below(4) {
                0 => rng.range(1, 16) as usize,
                1 => rng.range(16, 1000) as usize,
                2 => rng.range(1000, 10000) as usize,
                _ => 70000,
            },
            rch: match rng.below(4) {
                0 => rng.range(1, 16) as usize,
                1 => rng.range(16, 1000) as usize,
                2 => rng.range(1000, 10000) as usize,
                _ => 70000,
            },
            tick_us,
            react: *rng.pick(&[0u64, 30, 100, 100]),
            stall_at_ms: stall.0,
            stall_for_ms: stall.1,
            close: CloseMode::Done,
            burst: 0,
            ck: 0,
        });
    }
    // a window of a few bytes moves a few bytes per round trip: keep such transfers short
    for side in 0..2 {
        let w = eps[side].tx.min(eps[1 - side].rx) as u64;
        let cap = (w * 300).max(1500);
        if eps[side].n > cap {
            eps[side].n = cap;
        }
    }
    // tiny write chunks with big transfers would only burn time
    for e in eps.iter_mut() {
        if e.n > 50_000 {
            e.wch = e.wch.max(2000);
            e.rch = e.rch.max(2000);
            e.tick_us = e.tick_us.min(5000);
        }
    }
    // timestamps are negotiated: useful only when both ask
    let ts = rng.chance(1, 4);
    eps[0].ts = ts;
    eps[1].ts = ts && rng.chance(4, 5);
    // close choreography
    match rng.below(10) {
        0 | 1 => eps[1].close = CloseMode::OnFin,
        2 => eps[0].close = CloseMode::OnFin,
        3 => {
            let t = rng.range(0, 4000);
            eps[0].close = CloseMode::At(t);
            eps[1].close = CloseMode::At(t + rng.range(0, 2));
        }
        4 => eps[rng.below(2) as usize].close = CloseMode::At(rng.range(0, 6000)),
        5 => {
            // symmetric: simultaneous close is likely
            let n = eps[0].n;
            eps[1].n = n;
            let (w, t) = (eps[0].wch, eps[0].tick_us);
            eps[1].wch = w;
            eps[1].tick_us = t;
        }
        _ => {}
    }
    let total = eps[0].n.max(eps[1].n);
    eps[0].rs = isn_seed(rng, eps[0].n);
    eps[1].rs = isn_seed(rng, eps[1].n);
    let _ = total;
    let (loss, dup, reord, flip) = match rng.below(10) {
        0 => (0, 0, 0, 0),
        1 => (rng.range(10, 80) as u64, 0, 0, 0),
        2 => (0, 0, rng.range(50, 400) as u64, 0),
        3 => (rng.range(100, 450) as u64, rng.range(0, 100) as u64, rng.range(0, 300) as u64, rng.range(0, 50) as u64),
        4 => (rng.range(0, 50) as u64, rng.range(100, 400) as u64, rng.range(0, 100) as u64, 0),
        5 => (0, 0, 0, rng.range(20, 300) as u64),
        _ => (rng.range(0, 200) as u64, rng.range(0, 100) as u64, rng.range(0, 250) as u64, rng.range(0, 40) as u64),
    };
    let mut c = E2eCfg {
        id,
        seed: rng.next(),
        eth,
        v6,
        mtu,
        ep: [eps[0].clone(), eps[1].clone()],
        loss,
        dup,
        reord,
        flip,
        chaos_ms: *rng.pick(&[50i64, 300, 1000, 3000, 8000, 20000]),
        lat_us: *rng.pick(&[10i64, 200, 1000, 5000, 20000, 80000]),
        dmax_ms: *rng.pick(&[1i64, 10, 100, 500, 3000]),
        simopen: rng.chance(1, 16),
        probe: rng.chance(1, 3),
        ecl: rng.chance(1, 12),
        bp: 0,
        slaac: false,
        ping: 0,
    };
    // device back-pressure and competing traffic in a third of the schedules
    if rng.chance(1, 3) {
        c.bp = *rng.pick(&[3u64, 10, 30, 60]);
        c.ping = *rng.pick(&[0u64, 5, 25, 60]);
    }
    // DeviceCapabilities::max_burst_size (TCP window clamp in iface/packet.rs) on one or both devices
    if rng.chance(1, 6) {
        let b = *rng.pick(&[1usize, 2, 4, 16]);
        match rng.below(3) {
            0 => c.ep[0].burst = b,
            1 => c.ep[1].burst = b,
            _ => {
                c.ep[0].burst = b;
                c.ep[1].burst = *rng.pick(&[1usize, 2, 4, 16]);
            }
        }
    }
    // checksum offload: one device only fills (Tx) / only verifies (Rx) the checksums of all protocols
    match rng.below(6) {
        0 => c.ep[rng.below(2) as usize].ck = 1,
        1 => c.ep[rng.below(2) as usize].ck = 2,
        _ => {}
    }
    // SLAAC enabled on a link without router (Ethernet): three router solicitations at 0 / 4 / 8 s, then
    // SLAAC has nothing scheduled any more; the connection is kept busy past that instant
    if rng.chance(1, 6) {
        c.slaac = true;
        c.eth = true;
        if c.ep[0].close == CloseMode::Done {
            c.ep[0].close = CloseMode::At(rng.range(8500, 14000));
        }
        c.chaos_ms = c.chaos_ms.max(*rng.pick(&[300i64, 9000, 20000]));
    }
    c
}

// ---------------------------------------------------------------------------------------------
// e2e runtime
// ---------------------------------------------------------------------------------------------

pub struct Ep {
    pub name: char,
    pub side: usize,
    pub iface: Interface,
    pub dev: QDev,
    pub sockets: SocketSet<'static>,
    pub h: SocketHandle,
    pub addr: IpAddress,
    pub own: Vec<IpAddress>,
    pub cfg: EpCfg,
    /// µs; what poll_at returned last (None = no deadline)
    pub deadline: Option<i64>,
    pub got_frame: bool,
    // application
    pub written: u64,
    pub read: u64,
    pub closed: bool,
    pub finished: bool,
    pub next_tick: i64,
    pub idle_ticks: u32,
    pub app_rng: Rng,
    pub was_active: bool,
    pub closed_in_synrcvd: bool,
    // probing (C13)
    pub probe_at: Option<i64>,
    pub idle_polls_here: u32,
    pub last_poll_t: i64,
    // oracle
    pub txo: TxOracle,
    /// segments handed to the device since the last poll, with the socket state seen at that moment
    pending: Vec<(Seg, RxCtx)>,
    buf: Vec<u8>,
}

impl Ep {
    pub fn sock(&mut self) -> &mut tcp::Socket<'static> {
        self.sockets.get_mut::<tcp::Socket>(self.h)
    }
    pub fn sock_ref(&self) -> &tcp::Socket<'static> {
        self.sockets.get::<tcp::Socket>(self.h)
    }
    fn rxfree(&self) -> usize {
        self.cfg.rx - self.sock_ref().recv_queue()
    }
    fn rx_ctx(&self) -> RxCtx {
        let s = self.sock_ref();
        let st = s.state();
        let fin = matches!(st, tcp::State::CloseWait | tcp::State::LastAck | tcp::State::Closing | tcp::State::TimeWait) as i64;
        RxCtx { una: self.written as i64 - s.send_queue() as i64, sendq: s.send_queue() as i64, rcv_nxt: self.read as i64 + s.recv_queue() as i64 + fin, state: st }
    }
    fn refresh_deadline(&mut self, now: i64) {
        self.deadline = self.iface.poll_at(Instant::from_micros(now), &self.sockets).map(|t| t.total_micros());
    }
    fn app_done(&self) -> bool {
        let s = self.sock_ref();
        // a closed socket can still hold received data the application has to read
        let dead = self.was_active && s.state() == tcp::State::Closed && s.recv_queue() == 0;
        (self.closed && self.finished) || dead
    }
    fn describe(&self) -> String {
        let s = self.sock_ref();
        format!(
            "{}[{} sendq={} recvq={} written={} read={} closed={} finished={} poll_at={:?}]",
            self.name,
            state_name(s.state()),
            s.send_queue(),
            s.recv_queue(),
            self.written,
            self.read,
            self.closed as u8,
            self.finished as u8,
            self.deadline
        )
    }
}

fn ep_addr(v6: bool, side: usize) -> IpAddress {
    if v6 {
        IpAddress::Ipv6(Ipv6Address::new(0xfd00, 0, 0, 0, 0, 0, 0, side as u16 + 1))
    } else {
        IpAddress::Ipv4(Ipv4Address::new(10, 0, 0, side as u8 + 1))
    }
}

pub fn make_iface(eth: bool, v6: bool, ip_mtu: usize, side: usize, random_seed: u64) -> (Interface, QDev, IpAddress) {
    make_iface_caps(eth, v6, ip_mtu, side, random_seed, 0, 0, false)
}

/// the link-local address an endpoint gets when SLAAC is enabled
pub fn link_local_addr(side: usize) -> IpAddress {
    IpAddress::Ipv6(Ipv6Address::new(0xfe80, 0, 0, 0, 0, 0, 0, side as u16 + 1))
}

/// `burst`: max_burst_size (0 = None); `ck`: 0 = Checksum::Both, 1 = Tx, 2 = Rx for every protocol
/// `slaac`: Config.slaac = true and a link-local IPv6 address (Ethernet only: router solicitations
/// carry the hardware address); there is no router on the simulated link
pub fn make_iface_caps(eth: bool, v6: bool, ip_mtu: usize, side: usize, random_seed: u64, burst: usize, ck: u8, slaac: bool) -> (Interface, QDev, IpAddress) {
    use smoltcp::phy::{Checksum, ChecksumCapabilities};
    let medium = if eth { Medium::Ethernet } else { Medium::Ip };
    let mut dev = QDev::new(medium, ip_mtu + if eth { 14 } else { 0 });
    dev.max_burst = if burst == 0 { None } else { Some(burst) };
    if ck != 0 {
        let c = || if ck == 1 { Checksum::Tx } else { Checksum::Rx };
        let mut caps = ChecksumCapabilities::default();
        caps.ipv4 = c();
        caps.udp = c();
        caps.tcp = c();
        caps.icmpv4 = c();
        caps.icmpv6 = c();
        dev.checksum = caps;
    }
    let hw = if eth { HardwareAddress::Ethernet(EthernetAddress([2, 0, 0, 0, 0, side as u8 + 1])) } else { HardwareAddress::Ip };
    let mut c = Config::new(hw);
    c.random_seed = random_seed;
    c.slaac = slaac && eth;
    let mut iface = Interface::new(c, &mut dev, Instant::ZERO);
    let addr = ep_addr(v6, side);
    iface.update_ip_addrs(|a| {
        a.push(IpCidr::new(addr, if v6 { 64 } else { 24 })).unwrap();
        if slaac && eth {
            a.push(IpCidr::new(link_local_addr(side), 64)).unwrap();
        }
    });
    (iface, dev, addr)
}

fn make_socket(e: &EpCfg) -> tcp::Socket<'static> {
    let mut s = tcp::Socket::new(tcp::SocketBuffer::new(vec![0u8; e.rx]), tcp::SocketBuffer::new(vec![0u8; e.tx]));
    s.set_nagle_enabled(e.nagle);
    s.set_ack_delay(if e.ackd_ms == 0 { None } else { Some(Duration::from_millis(e.ackd_ms)) });
    s.set_keep_alive(if e.ka_ms == 0 { None } else { Some(Duration::from_millis(e.ka_ms)) });
    s.set_timeout(if e.to_ms == 0 { None } else { Some(Duration::from_millis(e.to_ms)) });
    s.set_congestion_control(match e.cc {
        1 => tcp::CongestionControl::Reno,
        2 => tcp::CongestionControl::Cubic,
        _ => tcp::CongestionControl::None,
    });
    if e.ts {
        s.set_tsval_generator(Some(tsgen));
    }
    s
}

fn make_ep(cfg: &E2eCfg, side: usize) -> Ep {
    let (iface, dev, addr) = make_iface_caps(cfg.eth, cfg.v6, cfg.mtu, side, cfg.ep[side].rs, cfg.ep[side].burst, cfg.ep[side].ck, cfg.slaac);
    let mut sockets = SocketSet::new(vec![]);
    let h = sockets.add(make_socket(&cfg.ep[side]));
    let mut own = vec![addr];
    if cfg.slaac && cfg.eth {
        own.push(link_local_addr(side));
    }
    Ep {
        name: if side == 0 { 'A' } else { 'B' },
        side,
        iface,
        dev,
        sockets,
        h,
        addr,
        own,
        cfg: cfg.ep[side].clone(),
        deadline: None,
        got_frame: false,
        written: 0,
        read: 0,
        closed: false,
        finished: false,
        next_tick: 0,
        idle_ticks: 0,
        app_rng: Rng::new(cfg.seed ^ (0xA99 + side as u64)),
        was_active: false,
        closed_in_synrcvd: false,
        probe_at: None,
        idle_polls_here: 0,
        last_poll_t: -1,
        txo: TxOracle::new(side),
        pending: vec![],
        buf: vec![],
    }
}

#[derive(PartialEq, Eq, PartialOrd, Ord)]
struct InFlight {
    t: i64,
    ord: u64,
    to: usize,
    frame: Vec<u8>,
}

pub struct Link {
    heap: BinaryHeap<std::cmp::Reverse<InFlight>>,
    ord: u64,
    rng: [Rng; 2],
}

const PORT_A: u16 = 49152;
const PORT_B: u16 = 80;

pub struct E2e {
    pub cfg: E2eCfg,
    pub eps: [Ep; 2],
    pub link: Link,
    pub now: i64,
    pub out: RunOut,
    pub tracing: bool,
    probe_rng: Rng,
    bp_rng: Rng,
    /// per endpoint: the previous poll at `.1` was a back-pressured one (the next is not)
    bp_last: [(bool, i64); 2],
    medium: Medium,
    /// the run cannot continue (poll livelock)
    dead: bool,
}

/// frames one `Interface::poll` may transmit before the harness declares it a livelock
pub const POLL_TX_BUDGET: usize = 5000;

fn seg_brief(s: &Seg, iss: Option<u32>, irs: Option<u32>) -> String {
    let so = iss.map(|i| seqdiff(s.seq, i.wrapping_add(1)).to_string()).unwrap_or_else(|| "?".into());
    let ao = if s.has(F_ACK) { irs.map(|i| seqdiff(s.ack, i.wrapping_add(1)).to_string()).unwrap_or_else(|| "?".into()) } else { "-".into() };
    let mut o = format!("[{}] seq={}(off {}) ack={}(off {}) win={} len={}", s.flag_str(), s.seq, so, s.ack, ao, s.win, s.pay_len);
    if let Some(m) = s.mss {
        let _ = write!(o, " mss={}", m);
    }
    if let Some(w) = s.ws {
        let _ = write!(o, " ws={}", w);
    }
    if s.ts.is_some() {
        o.push_str(" ts");
    }
    o
}

impl E2e {
    pub fn new(cfg: &E2eCfg, tracing: bool) -> E2e {
        TSVAL.store(1, std::sync::atomic::Ordering::Relaxed);
        let eps = [make_ep(cfg, 0), make_ep(cfg, 1)];
        E2e {
            cfg: cfg.clone(),
            eps,
            link: Link { heap: BinaryHeap::new(), ord: 0, rng: [Rng::new(cfg.seed ^ 0xF0), Rng::new(cfg.seed ^ 0xF1)] },
            now: 0,
            out: RunOut::default(),
            tracing,
            probe_rng: Rng::new(cfg.seed ^ 0x9E0B),
            bp_rng: Rng::new(cfg.seed ^ 0xB9E5),
            bp_last: [(false, -1); 2],
            medium: if cfg.eth { Medium::Ethernet } else { Medium::Ip },
            dead: false,
        }
    }

    fn tr(&mut self, s: String) {
        if self.tracing {
            println!("{:>10} {}", self.now, s);
        }
    }

    /// an ICMP echo request from the peer's address for endpoint `to` (competing traffic)
    fn echo_frame(&mut self, to: usize) -> Vec<u8> {
        let (src, dst) = (self.eps[1 - to].addr, self.eps[to].addr);
        let n = self.bp_rng.below(48) as usize;
        let ip = build_echo_request(&src, &dst, 0x7e57, self.link.ord as u16, n);
        if self.cfg.eth {
            let mut f = vec![2, 0, 0, 0, 0, to as u8 + 1, 2, 0, 0, 0, 0, (1 - to) as u8 + 1];
            f.extend_from_slice(if self.cfg.v6 { &[0x86, 0xdd] } else { &[0x08, 0x00] });
            f.extend_from_slice(&ip);
            f
        } else {
            ip
        }
    }

    /// hand a frame emitted by `from` to the link, applying the fate drawn for it
    fn link_send(&mut self, from: usize, mut frame: Vec<u8>) {
        let to = 1 - from;
        let chaos = self.now < self.cfg.chaos_ms * 1000;
        let lat = self.cfg.lat_us;
        self.out.bump("frames", 1);
        let mut fate = "deliver";
        let mut delay = lat;
        let mut dup_delay = None;
        if chaos {
            let c = &self.cfg;
            let (loss, dup, reord, flip, dmax) = (c.loss, c.dup, c.reord, c.flip, c.dmax_ms * 1000);
            let r = &mut self.link.rng[from];
            let x = r.below(1000);
            if x < loss {
                fate = "drop";
            } else if x < loss + dup {
                fate = "dup";
                dup_delay = Some(lat + if r.chance(1, 3) { 0 } else { r.below(dmax as u64 + 1) as i64 });
            } else if x < loss + dup + reord {
                fate = "delay";
                delay = lat + 1 + r.below(dmax as u64 + 1) as i64;
            } else if x < loss + dup + reord + flip {
                // Ethernet: the frame check sequence covers the whole frame, so a flipped frame never
                // reaches the stack; only flips the IP/TCP checksums must catch are simulated
                let lo = if self.cfg.eth { 14 } else { 0 };
                let is_ip = l3_offset(self.medium, &frame).is_some();
                // (a device that does not verify checksums relies on its NIC to drop corrupted frames)
                if !is_ip || frame.len() <= lo || self.cfg.ep[to].ck == 1 {
                    fate = "drop";
                } else {
                    fate = "flip";
                    let bit = r.below(((frame.len() - lo) * 8) as u64) as usize;
                    frame[lo + bit / 8] ^= 1 << (bit % 8);
                }
            }
        }
        match fate {
            "drop" => self.out.bump("drops", 1),
            "dup" => self.out.bump("dups", 1),
            "delay" => self.out.bump("delays", 1),
            "flip" => self.out.bump("flips", 1),
            _ => {}
        }
        if self.tracing {
            let n = self.eps[from].name;
            let m = self.eps[to].name;
            self.tr(format!("link {}->{} {} (+{}us{})", n, m, fate, delay, dup_delay.map(|d| format!(", copy +{}us", d)).unwrap_or_default()));
        }
        if fate == "drop" {
            return;
        }
        if let Some(d) = dup_delay {
            self.link.ord += 1;
            self.link.heap.push(std::cmp::Reverse(InFlight { t: self.now + d, ord: self.link.ord, to, frame: frame.clone() }));
        }
        self.link.ord += 1;
        self.link.heap.push(std::cmp::Reverse(InFlight { t: self.now + delay, ord: self.link.ord, to, frame }));
    }

    fn check_deadline_invariant(&mut self, i: usize, when: &str) {
        let e = &self.eps[i];
        if has_unacked(e.sock_ref()) && e.deadline.is_none() {
            let d = format!("case {} t={}us {} {}: unacknowledged data/SYN/FIN but Interface::poll_at = None; {}", self.cfg.id, self.now, e.name, when, e.describe());
            self.out.fail("c02-no-deadline", d);
        }
    }

    /// poll endpoint i at `now`; `probing` = this is an early probe (must transmit nothing)
    fn poll(&mut self, i: usize, probing: bool) {
        let now = self.now;
        let medium = self.medium;
        let ip_mtu = self.cfg.mtu;
        let id = self.cfg.id.clone();
        let (rx_n, frames, rxfree_before, rxfree_after);
        let livelock;
        let mut tw_lost = None;
        // device back-pressure: this poll gets only a few transmit tokens (never two such polls of
        // the same interface in a row at one instant: the driver frees the buffers in between)
        let mut limit: Option<usize> = None;
        if self.cfg.bp > 0 && !probing && !(self.bp_last[i].0 && self.bp_last[i].1 == now) && self.bp_rng.below(100) < self.cfg.bp {
            limit = Some(self.bp_rng.below(3) as usize);
        }
        self.bp_last[i] = (limit.is_some(), now);
        let refused;
        {
            let e = &mut self.eps[i];
            let st0 = e.sock_ref().state();
            let q0 = e.sock_ref().recv_queue();
            rxfree_before = e.rxfree();
            let n0 = e.dev.n_rx;
            // what the socket learns from the segments ingested by this poll (ingress precedes egress)
            let pend = std::mem::take(&mut e.pending);
            // (under back-pressure the device may leave frames queued: nothing is certain then)
            let single = pend.len() == 1 && e.dev.rx.len() == 1 && limit.is_none();
            for (sg, cx) in &pend {
                e.txo.on_delivered(sg, if single { Some(cx) } else { None });
            }
            // watchdog: a poll that keeps transmitting would never return on a real device
            // (every ingested frame may be answered at once, so the budget grows with the input)
            e.dev.tx_budget = Some(limit.unwrap_or(POLL_TX_BUDGET + 2 * e.dev.rx.len()));
            e.iface.poll(Instant::from_micros(now), &mut e.dev, &mut e.sockets);
            refused = limit.is_some() && e.dev.tx_budget == Some(0);
            livelock = limit.is_none() && e.dev.tx_budget == Some(0);
            e.dev.tx_budget = None;
            rx_n = e.dev.n_rx - n0;
            frames = e.dev.drain_tx();
            rxfree_after = e.rxfree();
            if st0 == tcp::State::TimeWait && e.sock_ref().state() == tcp::State::Closed && q0 > 0 && e.sock_ref().recv_queue() == 0 {
                tw_lost = Some(q0);
            }
            // frames the device did not hand over stay queued: the interface is polled again
            e.got_frame = !e.dev.rx.is_empty();
            e.refresh_deadline(now);
            if e.sock_ref().state() != tcp::State::Closed && e.sock_ref().state() != tcp::State::Listen {
                e.was_active = true;
            }
            if e.sock_ref().state() == tcp::State::Listen && e.txo.iss.is_some() {
                e.txo.new_incarnation();
            }
        }
        self.out.bump("polls", 1);
        if limit.is_some() {
            self.out.bump("polls_backpressured", 1);
            self.out.bump("polls_tx_refused", refused as u64);
        }
        if livelock {
            let d = format!("case {} t={}us {}: one Interface::poll transmitted {} frames and was still going (it never returns on a device that always accepts frames); {}", id, now, self.eps[i].name, POLL_TX_BUDGET, self.eps[i].describe());
            self.out.fail("c03-poll-never-returns", d);
        }
        if let Some(q) = tw_lost {
            let d = format!("case {} t={}us {}: TIME-WAIT expired and the socket discarded {} received bytes the application had not read yet (recv can never return them or Finished)", id, now, self.eps[i].name, q);
            self.out.fail("c02-timewait-discards-unread", d);
        }
        if self.tracing {
            let d = self.eps[i].describe();
            let bp = limit.map(|l| format!(" (device: {} tx token(s){})", l, if refused { ", exhausted" } else { "" })).unwrap_or_default();
            self.tr(format!("poll {}{}{} rx={} tx={} -> {}", self.eps[i].name, if probing { " (early probe)" } else { "" }, bp, rx_n, frames.len(), d));
        }
        if probing && !frames.is_empty() {
            self.out.fail("c13-early-poll-transmits", format!("case {} t={}us {}: early poll before the deadline transmitted {} frame(s)", id, now, self.eps[i].name, frames.len()));
        }
        // C13 non-spinning clause
        // (the clause is about a device that accepts frames: not when the tokens ran out)
        let spin = if refused { Ok(()) } else { spin_check(Instant::from_micros(now), rx_n, frames.len(), self.eps[i].deadline.map(Instant::from_micros)) };
        if let Err(m) = spin {
            let e = &mut self.eps[i];
            if e.last_poll_t == now {
                e.idle_polls_here += 1;
            } else {
                e.idle_polls_here = 1;
            }
            if e.idle_polls_here >= 2 {
                let d = format!("case {} {}: {}; {}", id, e.name, m, e.describe());
                // keep the simulation going: pretend the stack asked for a poll a millisecond later
                e.deadline = Some(now + 1000);
                self.out.fail("c13-spin", d);
            }
        } else {
            self.eps[i].idle_polls_here = 0;
        }
        self.eps[i].last_poll_t = now;
        // emitted frames: C10 validation, C05 oracle, link
        let frames = if livelock { self.dead = true; vec![] } else { frames };
        let offload = self.eps[i].cfg.ck == 2;
        for mut f in frames {
            if offload {
                // this device does not compute checksums: the channel is its offloading NIC
                fill_checksums(medium, &mut f);
            }
            if let Err(m) = validate_frame(medium, &f, &self.eps[i].own, self.eps[i].dev.mtu) {
                let c = c10_class(&m);
                self.out.fail(&c, format!("case {} t={}us {}: {} frame={}", id, now, self.eps[i].name, m, crate::hex(&f[..f.len().min(80)])));
            }
            if let Some(s) = parse_tcp(medium, &f) {
                let e = &mut self.eps[i];
                let sq = e.sock_ref().send_queue() as i64;
                let cx = TxCtx {
                    written: e.written,
                    closed: e.closed,
                    una: e.written as i64 - sq + matches!(e.sock_ref().state(), tcp::State::FinWait2 | tcp::State::TimeWait | tcp::State::Closed) as i64,
                    rxfree_before,
                    rxfree_after,
                    ip_mtu,
                    keep_alive: e.cfg.ka_ms != 0,
                    had_rx: rx_n > 0,
                    max_burst: e.dev.max_burst,
                    dev_mtu: e.dev.mtu,
                };
                let who = format!("case {} t={}us {}:", id, now, e.name);
                e.txo.on_emitted(&f, &s, &cx, &mut self.out, &who);
                if self.tracing {
                    let b = seg_brief(&s, self.eps[i].txo.iss, self.eps[i].txo.irs);
                    let n = self.eps[i].name;
                    self.tr(format!("  {} tx {}", n, b));
                }
            } else if self.tracing {
                let n = self.eps[i].name;
                self.tr(format!("  {} tx non-TCP frame len={}", n, f.len()));
            }
            self.link_send(i, f);
        }
        self.check_deadline_invariant(i, "after poll");
        {
            let e = &self.eps[i];
            if matches!(e.sock_ref().state(), tcp::State::FinWait2 | tcp::State::TimeWait) && e.txo.fin_off.is_none() {
                let d = format!("case {} t={}us {}: state {} (own FIN acknowledged) although the socket never emitted a FIN; {}", id, now, e.name, state_name(e.sock_ref().state()), e.describe());
                self.out.fail("c02-fin-acked-never-sent", d);
            }
        }
        // schedule an early probe strictly before the deadline (or at some instant if there is none)
        if self.cfg.probe && !probing {
            let e = &mut self.eps[i];
            e.probe_at = None;
            match e.deadline {
                Some(d) if d > now + 1 => {
                    if self.probe_rng.chance(1, 3) {
                        e.probe_at = Some(now + 1 + self.probe_rng.below((d - now - 1) as u64) as i64);
                    }
                }
                None => {
                    if self.probe_rng.chance(1, 6) {
                        e.probe_at = Some(now + 1 + self.probe_rng.below(3_000_000) as i64);
                    }
                }
                _ => {}
            }
        }
    }

    /// one application step of endpoint i; returns true if it changed the socket
    fn app_step(&mut self, i: usize) -> bool {
        let now = self.now;
        let id = self.cfg.id.clone();
        let (peer_written, peer_closed) = {
            let p = &self.eps[1 - i];
            (p.written, p.closed)
        };
        let mut acted = false;
        let mut notes: Vec<String> = vec![];
        let tracing = self.tracing;
        let ecl = self.cfg.ecl;
        let mut fails: Vec<(&'static str, String)> = vec![];
        {
            let e = &mut self.eps[i];
            let stalled = e.cfg.stall_for_ms > 0 && now >= e.cfg.stall_at_ms * 1000 && now < (e.cfg.stall_at_ms + e.cfg.stall_for_ms) * 1000;
            // ---- read
            if !stalled && !e.finished {
                let want = 1 + e.app_rng.below(e.cfg.rch as u64) as usize;
                if e.buf.len() < want {
                    e.buf.resize(want, 0);
                }
                let mut buf = std::mem::take(&mut e.buf);
                let r = e.sock().recv_slice(&mut buf[..want]);
                match r {
                    Ok(0) => {}
                    Ok(k) => {
                        acted = true;
                        for (j, b) in buf[..k].iter().enumerate() {
                            let w = stream_byte(1 - e.side, e.read + j as u64);
                            if *b != w {
                                fails.push(("c01-stream-corrupt", format!("case {} t={}us {}: byte {} handed out by recv is {:#04x}, the peer wrote {:#04x} there", id, now, e.name, e.read + j as u64, b, w)));
                                break;
                            }
                        }
                        e.read += k as u64;
                        if e.read > peer_written {
                            fails.push(("c01-stream-corrupt", format!("case {} t={}us {}: recv handed out {} bytes, the peer wrote only {}", id, now, e.name, e.read, peer_written)));
                        }
                        if tracing {
                            notes.push(format!("app {} recv {} (total {})", e.name, k, e.read));
                        }
                    }
                    Err(tcp::RecvError::Finished) => {
                        e.finished = true;
                        acted = true;
                        if !(peer_closed && e.read == peer_written) {
                            fails.push(("c01-finished-early", format!("case {} t={}us {}: recv = Finished after {} bytes; the peer {} and wrote {} bytes", id, now, e.name, e.read, if peer_closed { "closed" } else { "has not closed" }, peer_written)));
                        }
                        if tracing {
                            notes.push(format!("app {} recv -> Finished (total {})", e.name, e.read));
                        }
                    }
                    Err(tcp::RecvError::InvalidState) => {}
                }
                e.buf = buf;
            }
            // ---- write
            if !e.closed && e.written < e.cfg.n && e.sock_ref().may_send() {
                let want = (1 + e.app_rng.below(e.cfg.wch as u64)).min(e.cfg.n - e.written) as usize;
                let mut data = Vec::with_capacity(want);
                for j in 0..want {
                    data.push(stream_byte(e.side, e.written + j as u64));
                }
                if let Ok(k) = e.sock().send_slice(&data) {
                    if k > 0 {
                        e.written += k as u64;
                        acted = true;
                        if tracing {
                            notes.push(format!("app {} send {} of {} (total {})", e.name, k, want, e.written));
                        }
                    }
                }
            }
            // ---- close
            if !e.closed {
                let st = e.sock_ref().state();
                let can = !matches!(st, tcp::State::Closed | tcp::State::Listen | tcp::State::SynSent) && (st != tcp::State::SynReceived || ecl);
                let want = match e.cfg.close {
                    CloseMode::Done => e.written == e.cfg.n,
                    CloseMode::OnFin => e.finished,
                    CloseMode::At(t) => now >= t * 1000,
                };
                if can && want {
                    if st == tcp::State::SynReceived {
                        e.closed_in_synrcvd = true;
                    }
                    e.sock().close();
                    e.closed = true;
                    acted = true;
                    if tracing {
                        notes.push(format!("app {} close (wrote {})", e.name, e.written));
                    }
                }
            }
            if acted {
                e.refresh_deadline(now);
                e.probe_at = None;
            }
        }
        for n in notes {
            self.tr(n);
        }
        for (c, d) in fails {
            self.out.fail(c, d);
        }
        if acted {
            self.check_deadline_invariant(i, "after socket call");
        }
        acted
    }

    fn schedule_tick(&mut self, i: usize, acted: bool) {
        let now = self.now;
        let e = &mut self.eps[i];
        if e.app_done() {
            e.next_tick = i64::MAX;
            return;
        }
        if acted {
            e.idle_ticks = 0;
        } else {
            e.idle_ticks = (e.idle_ticks + 1).min(16);
        }
        let base = e.cfg.tick_us / 4 + e.app_rng.below((e.cfg.tick_us - e.cfg.tick_us / 4 + 1) as u64) as i64;
        let iv = (base << e.idle_ticks.min(14)).min(1_500_000);
        e.next_tick = now + iv.max(1);
    }

    pub fn run(mut self) -> RunOut {
        let t_wall = std::time::Instant::now();
        let cfg = self.cfg.clone();
        // open
        {
            let (a, b) = self.eps.split_at_mut(1);
            let (a, b) = (&mut a[0], &mut b[0]);
            let (ba, aa) = (b.addr, a.addr);
            a.sockets.get_mut::<tcp::Socket>(a.h).connect(a.iface.context(), (ba, PORT_B), PORT_A).expect("connect A");
            if cfg.simopen {
                b.sockets.get_mut::<tcp::Socket>(b.h).connect(b.iface.context(), (aa, PORT_A), PORT_B).expect("connect B");
            } else {
                b.sockets.get_mut::<tcp::Socket>(b.h).listen(PORT_B).expect("listen B");
            }
            a.refresh_deadline(0);
            b.refresh_deadline(0);
        }
        self.check_deadline_invariant(0, "after connect");
        if cfg.simopen {
            self.check_deadline_invariant(1, "after connect");
        }
        let stall_end = cfg.ep.iter().map(|e| (e.stall_at_ms + e.stall_for_ms) * 1000).max().unwrap_or(0);
        let close_at = cfg.ep.iter().map(|e| if let CloseMode::At(t) = e.close { t * 1000 } else { 0 }).max().unwrap_or(0);
        // no progress (bytes moved, state changes) for 10 virtual minutes after every scripted
        // disturbance is over = stalled
        let t_quiet = cfg.chaos_ms * 1000 + cfg.dmax_ms * 1000 + stall_end + close_at;
        let mut progress_mark: (u64, u64) = (0, 0);
        let mut progress_t: i64 = 0;
        let max_steps: u64 = 4_000_000;
        let mut steps: u64 = 0;
        let reason;
        loop {
            steps += 1;
            // finished?
            let all_closed = self.eps.iter().all(|e| e.app_done() && e.sock_ref().state() == tcp::State::Closed);
            if all_closed && self.link.heap.is_empty() {
                reason = "closed";
                break;
            }
            // next event
            let mut t_next = i64::MAX;
            if let Some(std::cmp::Reverse(f)) = self.link.heap.peek() {
                t_next = t_next.min(f.t);
            }
            for e in &self.eps {
                if let Some(d) = e.deadline {
                    t_next = t_next.min(d.max(self.now));
                }
                if e.got_frame {
                    t_next = self.now;
                }
                t_next = t_next.min(e.next_tick);
                if let Some(p) = e.probe_at {
                    t_next = t_next.min(p);
                }
            }
            if t_next == i64::MAX {
                reason = "quiescent";
                break;
            }
            let mark = {
                let mut a = 0u64;
                let mut b = 0u64;
                for e in &self.eps {
                    a += e.read + e.written;
                    b = b * 64 + e.sock_ref().state() as u64 * 4 + e.closed as u64 * 2 + e.finished as u64;
                }
                (a, b)
            };
            if mark != progress_mark {
                progress_mark = mark;
                progress_t = self.now;
            }
            if t_next > progress_t.max(t_quiet) + 600_000_000 {
                reason = "no-progress-for-10-virtual-minutes";
                break;
            }
            if self.dead {
                reason = "poll-livelock";
                break;
            }
            if steps > max_steps || (steps % 4096 == 0 && t_wall.elapsed().as_secs() > 120) {
                reason = "step-or-wall-limit";
                break;
            }
            self.now = t_next.max(self.now);
            let now = self.now;
            // deliveries
            while let Some(std::cmp::Reverse(f)) = self.link.heap.peek() {
                if f.t > now {
                    break;
                }
                let std::cmp::Reverse(f) = self.link.heap.pop().unwrap();
                let to = f.to;
                if let Some(s) = parse_tcp(self.medium, &f.frame) {
                    let e = &mut self.eps[to];
                    let (sp, dp) = if to == 0 { (PORT_B, PORT_A) } else { (PORT_A, PORT_B) };
                    if s.sport == sp && s.dport == dp && s.dst == e.addr {
                        let cx = e.rx_ctx();
                        e.pending.push((s.clone(), cx));
                    }
                    if self.tracing {
                        let b = seg_brief(&s, self.eps[1 - to].txo.iss, self.eps[1 - to].txo.irs);
                        let n = self.eps[to].name;
                        self.tr(format!("deliver to {} {}", n, b));
                    }
                } else if self.tracing {
                    let n = self.eps[to].name;
                    self.tr(format!("deliver to {} frame len={} (not a valid TCP segment)", n, f.frame.len()));
                }
                let ping = if self.cfg.ping > 0 && self.bp_rng.below(100) < self.cfg.ping { Some(self.bp_rng.chance(1, 2)) } else { None };
                let echo = ping.map(|_| self.echo_frame(to));
                let e = &mut self.eps[to];
                if ping == Some(true) {
                    e.dev.rx.push_back(echo.clone().unwrap());
                }
                e.dev.rx.push_back(f.frame);
                if ping == Some(false) {
                    e.dev.rx.push_back(echo.unwrap());
                }
                e.got_frame = true;
                e.probe_at = None;
                if ping.is_some() {
                    self.out.bump("echo_requests", 1);
                    self.tr(format!("deliver to {} an ICMP echo request ({} the frame above)", if to == 0 { 'A' } else { 'B' }, if ping == Some(true) { "before" } else { "after" }));
                }
            }
            // early probes
            for i in 0..2 {
                if let Some(p) = self.eps[i].probe_at {
                    if p <= now {
                        self.eps[i].probe_at = None;
                        let valid = !self.eps[i].got_frame && self.eps[i].deadline.map_or(true, |d| d > now);
                        if valid {
                            self.out.bump("probes", 1);
                            self.poll(i, true);
                        }
                    }
                }
            }
            // application ticks
            for i in 0..2 {
                if self.eps[i].next_tick <= now {
                    let acted = self.app_step(i);
                    self.schedule_tick(i, acted);
                }
            }
            // polls that are due
            for i in 0..2 {
                let due = self.eps[i].got_frame || self.eps[i].deadline.map_or(false, |d| d <= now);
                if due {
                    self.poll(i, false);
                    // event-driven application: react to the poll
                    let r = self.eps[i].cfg.react;
                    if r > 0 && self.eps[i].app_rng.below(100) < r && !self.eps[i].app_done() {
                        self.app_step(i);
                    }
                }
            }
        }
        // ---- verdict
        let timeouts = cfg.ep.iter().any(|e| e.to_ms != 0);
        let mut complete = true;
        for i in 0..2 {
            let (x, p) = (&self.eps[i], &self.eps[1 - i]);
            let st = x.sock_ref().state();
            // (after TIME-WAIT the socket forgets that it saw a FIN, so `finished` is not required)
            if !(x.closed && p.read == x.written && matches!(st, tcp::State::Closed | tcp::State::TimeWait)) {
                complete = false;
            }
        }
        let desc = format!("{} {}", self.eps[0].describe(), self.eps[1].describe());
        self.tr(format!("end: {} complete={} {}", reason, complete, desc));
        self.out.bump("runs_e2e", 1);
        if complete {
            self.out.bump("completed", 1);
            self.out.bump("completed_e2e", 1);
        } else if timeouts {
            self.out.bump("ended_with_timeout_configured", 1);
        } else if self.out.fails.iter().any(|(c, _)| c == "c02-timewait-discards-unread" || c == "c03-poll-never-returns") {
            // already reported with its own class
        } else if self.eps.iter().any(|e| e.closed_in_synrcvd) {
            self.out.fail("c02-close-in-syn-received", format!("case {}: close() was called in SYN-RECEIVED and the shutdown never completed ({}); {}", cfg.id, reason, desc));
        } else {
            self.out.fail("c02-stall", format!("case {}: run ended ({}) at t={}us without delivering everything and closing both sides; {}", cfg.id, reason, self.now, desc));
        }
        // ---- statistics
        self.out.bump("runs", 1);
        self.out.bump("virtual_ms", (self.now / 1000) as u64);
        for i in 0..2 {
            let e = &self.eps[i];
            let t = &e.txo;
            self.out.stats.entry("rto_retransmits".into()).and_modify(|v| *v += t.n_rto).or_insert(t.n_rto);
            self.out.stats.entry("fast_retransmits".into()).and_modify(|v| *v += t.n_fast).or_insert(t.n_fast);
            self.out.stats.entry("data_segments".into()).and_modify(|v| *v += t.n_data).or_insert(t.n_data);
            self.out.stats.entry("zero_window_probes".into()).and_modify(|v| *v += t.n_probe).or_insert(t.n_probe);
            self.out.stats.entry("bytes".into()).and_modify(|v| *v += e.read).or_insert(e.read);
        }
        let any = |f: &dyn Fn(&Ep) -> bool| self.eps.iter().any(|e| f(e)) as u64;
        let zw = any(&|e| e.txo.zero_window_adv);
        let rto = any(&|e| e.txo.n_rto > 0);
        let fr = any(&|e| e.txo.n_fast > 0);
        let w31 = any(&|e| e.txo.iss.map_or(false, |i| (i as u64) < 0x8000_0000 && i as u64 + e.written + 2 >= 0x8000_0000));
        let w32 = any(&|e| e.txo.iss.map_or(false, |i| i as u64 + e.written + 2 >= 0x1_0000_0000));
        self.out.bump("runs_zero_window", zw);
        self.out.bump("runs_rto", rto);
        self.out.bump("runs_fast_retransmit", fr);
        self.out.bump("runs_wrap_2_31", w31);
        self.out.bump("runs_wrap_2_32", w32);
        self.out.bump("runs_ethernet", cfg.eth as u64);
        self.out.bump("runs_ipv6", cfg.v6 as u64);
        self.out.bump("runs_simultaneous_open", cfg.simopen as u64);
        self.out.bump("runs_early_poll_probe", cfg.probe as u64);
        let cc = |k: u8| cfg.ep.iter().any(|e| e.cc == k) as u64;
        self.out.bump("runs_cc_reno", cc(1));
        self.out.bump("runs_cc_cubic", cc(2));
        self.out.bump("runs_window_scaling", cfg.ep.iter().any(|e| e.rx > 65535) as u64);
        self.out.bump("runs_tiny_rx_buffer", cfg.ep.iter().any(|e| e.rx < 64) as u64);
        self.out.bump("runs_slaac", cfg.slaac as u64);
        self.out.bump("runs_max_burst", cfg.ep.iter().any(|e| e.burst != 0) as u64);
        self.out.bump("runs_checksum_tx_only", cfg.ep.iter().any(|e| e.ck == 1) as u64);
        self.out.bump("runs_checksum_rx_only", cfg.ep.iter().any(|e| e.ck == 2) as u64);
        let bcs: u64 = self.eps.iter().map(|e| e.txo.n_burst_clamp_scaled).sum();
        self.out.bump("segments_burst_clamp_on_scaled_window", bcs);
        self.out
    }
}

pub fn run_e2e(cfg: &E2eCfg, tracing: bool) -> RunOut {
    E2e::new(cfg, tracing).run()
}

// ---------------------------------------------------------------------------------------------
// rx: one real socket against a scripted adversarial peer (C04; C05 on what the socket emits)
// ---------------------------------------------------------------------------------------------

pub fn recorded_ops(r: &RunOut) -> Option<Vec<String>> {
    if r.ops.is_empty() {
        None
    } else {
        Some(r.ops.clone())
    }
}

pub struct RxSim {
    pub id: String,
    pub iface: Interface,
    pub dev: QDev,
    pub sockets: SocketSet<'static>,
    pub h: SocketHandle,
    pub ip_mtu: usize,
    pub rxcap: usize,
    pub sock_addr: IpAddress,
    pub peer_addr: IpAddress,
    pub sock_port: u16,
    pub peer_port: u16,
    pub listen: bool,
    pub now: i64,
    pub out: RunOut,
    pub tracing: bool,
    // scripted peer
    pub irs: u32,
    pub f_len: i64,
    pub pmss: Option<u16>,
    pub pws: Option<u8>,
    pub pts: bool,
    pub psack: bool,
    pub peer_syn_sent: bool,
    pub ts_ecr: u32,
    pub ts_val: u32,
    // receiver oracle (offsets are relative to irs+1)
    pub sent: Vec<bool>,
    pub inwin: Vec<bool>,
    pub fin_sent: bool,
    pub fin_inwin: bool,
    /// max_burst_size only: bytes / FIN that arrived inside the window the socket computed (buffer
    /// room) although beyond the smaller, clamped window field the interface put on the wire
    pub inbuf: Vec<bool>,
    pub fin_inbuf: bool,
    pub edge_unclamped: Option<i64>,
    pub shift: u32,
    pub sock_ws: Option<u8>,
    pub edge_max: Option<i64>,
    pub last_ack: i64,
    pub last_win: i64,
    // application on the socket
    pub nsend: u64,
    pub written: u64,
    pub read: u64,
    pub closed: bool,
    pub finished: bool,
    pub keep_alive: bool,
    pub deadline: Option<i64>,
    pub txo: TxOracle,
    /// `ingress-only on`: peer segments are ingested with poll_ingress_single (no socket egress)
    pub ingress_only: bool,
    /// `device-busy on`: the device hands out no transmit token (back-pressure)
    pub device_busy: bool,
    /// `budget=<n>` on an op: the next poll gets only n transmit tokens
    pub next_budget: Option<usize>,
    /// `ping=1` on a seg op: an ICMP echo request is queued right behind the segment
    pub next_ping: bool,
    /// back-pressure ops are generated (case key bp=1)
    pub gen_bp: bool,
    /// one entry per frame queued in `dev.rx`: the peer segment (offset, length, FIN) it carries, if
    /// any.  The receiver oracle's books are written when the frame is really ingested (under
    /// back-pressure that can be a later poll than the one following the transmission).
    rxq_meta: std::collections::VecDeque<Option<(i64, i64, bool)>>,
    /// an explicit script acknowledged something the socket had not sent yet (no consistent peer
    /// does; the socket accepts it): the "FIN acknowledged but never sent" check is off then
    peer_acked_unsent: bool,
    /// polls made exactly at the reported deadline, in a row, with octets / SYN / FIN outstanding,
    /// that transmitted nothing
    silent_deadline_polls: u32,
    last_tx_n: usize,
    last_poll_t: i64,
    idle_here: u32,
}

pub fn gen_rx(rng: &mut Rng, id: String, tier: &str) -> Case {
    let v6 = rng.chance(1, 6);
    let mtu: usize = if v6 { 1280 + rng.below(3) as usize * 110 } else { *rng.pick(&[576usize, 1500, 1500, 1006, 600]) };
    let mss = mtu - if v6 { 60 } else { 40 };
    let rx: usize = match rng.below(14) {
        0 => rng.range(1, 8) as usize,
        1 | 2 => rng.range(4, 64) as usize,
        3 | 4 => rng.range(64, 600) as usize,
        5 => mss,
        6 => 2 * mss,
        7 | 8 => rng.range(600, 5000) as usize,
        9 => 65535,
        10 => *rng.pick(&[65536usize, 131072, 262144, 100_000]),
        11 => rng.range(65537, 300_000) as usize,
        _ => rng.range(1, 4) as usize * 1024,
    };
    let tx: usize = *rng.pick(&[1usize, 16, 100, 536, 1460, 4096, 70000]);
    let f_len: i64 = match rng.below(8) {
        0 => 0,
        1 => rng.range(1, 20),
        2 | 3 => rng.range(1, 3 * rx as i64 + 10),
        _ => rng.range(20, 6000).max(rx as i64 / 2),
    };
    let irs: u32 = match rng.below(8) {
        0 | 1 => (0x8000_0000u32).wrapping_sub(rng.below(f_len as u64 + 3) as u32),
        2 | 3 => (0u32).wrapping_sub(rng.below(f_len as u64 + 3) as u32),
        4 => *rng.pick(&[0u32, 0xffff_ffff, 0x7fff_ffff, 0x8000_0000]),
        _ => rng.next() as u32,
    };
    let rs = match rng.below(6) {
        0 => seed_for_isn((0x8000_0000u32).wrapping_sub(rng.below(200) as u32), rng.next()),
        1 => seed_for_isn((0u32).wrapping_sub(rng.below(200) as u32), rng.next()),
        _ => rng.next(),
    };
    let pmss = match rng.below(8) {
        0 => "-".to_string(),
        1 => "0".to_string(),
        2 => rng.range(1, 60).to_string(),
        3 => "536".to_string(),
        _ => rng.range(48, 1460).to_string(),
    };
    let pws = if rng.chance(3, 5) { rng.range(0, 14).to_string() } else { "-".to_string() };
    let nops = if tier == "thorough" { rng.range(10, 200) } else { rng.range(6, 90) };
    let cfg: Vec<(String, String)> = [
        ("sim", "rx".to_string()),
        ("seed", rng.next().to_string()),
        ("ipv", if v6 { "6" } else { "4" }.to_string()),
        ("mtu", mtu.to_string()),
        ("rx", rx.to_string()),
        ("tx", tx.to_string()),
        ("role", if rng.chance(3, 4) { "listen" } else { "connect" }.to_string()),
        ("rs", rs.to_string()),
        ("irs", irs.to_string()),
        ("pmss", pmss),
        ("pws", pws),
        ("pts", (rng.chance(1, 5) as u8).to_string()),
        ("psack", (rng.chance(1, 2) as u8).to_string()),
        ("ts", (rng.chance(1, 4) as u8).to_string()),
        ("flen", f_len.to_string()),
        ("nsend", if rng.chance(1, 2) { 0 } else { rng.range(1, 5000) }.to_string()),
        ("cc", rng.below(3).to_string()),
        ("nagle", rng.below(2).to_string()),
        ("ackd", if rng.chance(1, 2) { "10" } else { "0" }.to_string()),
        ("ka", if rng.chance(1, 8) { "500" } else { "0" }.to_string()),
        ("nops", nops.to_string()),
        ("bp", (rng.chance(1, 3) as u8).to_string()),
        ("burst", if rng.chance(1, 8) { *rng.pick(&[1i64, 2, 4]) } else { 0 }.to_string()),
    ]
    .iter()
    .map(|(k, v)| (k.to_string(), v.clone()))
    .collect();
    Case { id, cfg, ops: vec![] }
}

impl RxSim {
    pub fn new(c: &Case, tracing: bool) -> RxSim {
        TSVAL.store(1, std::sync::atomic::Ordering::Relaxed);
        let gi = |k: &str, d: i64| c.get_i(k, d);
        let v6 = c.get("ipv") == Some("6");
        let ip_mtu = gi("mtu", 1500) as usize;
        let rs: u64 = c.get("rs").map(|v| v.parse().expect("rs")).unwrap_or(1);
        let (iface, dev, sock_addr) = make_iface_caps(false, v6, ip_mtu, 0, rs, gi("burst", 0) as usize, 0, false);
        let e = EpCfg {
            rx: gi("rx", 64) as usize,
            tx: gi("tx", 64) as usize,
            cc: gi("cc", 0) as u8,
            nagle: gi("nagle", 1) != 0,
            ackd_ms: gi("ackd", 10) as u64,
            ka_ms: gi("ka", 0) as u64,
            to_ms: 0,
            ts: gi("ts", 0) != 0,
            rs,
            n: 0,
            wch: 1,
            rch: 1,
            tick_us: 1,
            react: 0,
            stall_at_ms: 0,
            stall_for_ms: 0,
            close: CloseMode::Done,
            burst: 0,
            ck: 0,
        };
        let mut sockets = SocketSet::new(vec![]);
        let h = sockets.add(make_socket(&e));
        let listen = c.get("role") != Some("connect");
        let f_len = gi("flen", 0);
        let opt = |k: &str| -> Option<i64> {
            match c.get(k) {
                None | Some("-") => None,
                Some(v) => Some(v.parse().expect("int")),
            }
        };
        RxSim {
            id: c.id.clone(),
            iface,
            dev,
            sockets,
            h,
            ip_mtu,
            rxcap: e.rx,
            sock_addr,
            peer_addr: ep_addr(v6, 1),
            sock_port: if listen { 80 } else { 49152 },
            peer_port: if listen { 40000 } else { 80 },
            listen,
            now: 0,
            out: RunOut::default(),
            tracing,
            irs: c.get("irs").map(|v| v.parse::<u32>().expect("irs")).unwrap_or(1000),
            f_len,
            pmss: opt("pmss").map(|v| v as u16),
            pws: opt("pws").map(|v| v as u8),
            pts: gi("pts", 0) != 0,
            psack: gi("psack", 0) != 0,
            peer_syn_sent: false,
            ts_ecr: 0,
            ts_val: 7,
            sent: vec![false; f_len as usize],
            inwin: vec![false; f_len as usize],
            fin_sent: false,
            fin_inwin: false,
            inbuf: vec![false; f_len as usize],
            fin_inbuf: false,
            edge_unclamped: None,
            shift: 0,
            sock_ws: None,
            edge_max: None,
            last_ack: 0,
            last_win: 0,
            nsend: gi("nsend", 0) as u64,
            written: 0,
            read: 0,
            closed: false,
            finished: false,
            keep_alive: e.ka_ms != 0,
            deadline: None,
            txo: TxOracle::new(0),
            ingress_only: false,
            device_busy: false,
            next_budget: None,
            next_ping: false,
            gen_bp: gi("bp", 0) != 0,
            rxq_meta: Default::default(),
            peer_acked_unsent: false,
            silent_deadline_polls: 0,
            last_tx_n: 0,
            last_poll_t: -1,
            idle_here: 0,
        }
    }

    fn sock(&mut self) -> &mut tcp::Socket<'static> {
        self.sockets.get_mut::<tcp::Socket>(self.h)
    }
    fn sock_ref(&self) -> &tcp::Socket<'static> {
        self.sockets.get::<tcp::Socket>(self.h)
    }
    fn tr(&mut self, s: String) {
        if self.tracing {
            println!("{:>10} {}", self.now, s);
        }
    }
    fn describe(&self) -> String {
        let s = self.sock_ref();
        format!("[{} sendq={} recvq={} written={} read={} poll_at={:?}]", state_name(s.state()), s.send_queue(), s.recv_queue(), self.written, self.read, self.deadline)
    }
    fn refresh(&mut self) {
        self.deadline = self.iface.poll_at(Instant::from_micros(self.now), &self.sockets).map(|t| t.total_micros());
    }
    fn deadline_invariant(&mut self, when: &str) {
        if has_unacked(self.sock_ref()) && self.deadline.is_none() {
            let d = format!("case {} t={}us {}: unacknowledged data/SYN/FIN but Interface::poll_at = None; {}", self.id, self.now, when, self.describe());
            self.out.fail("c02-no-deadline", d);
        }
    }

    /// contiguous prefix of `v`
    fn prefix(v: &[bool]) -> i64 {
        v.iter().take_while(|b| **b).count() as i64
    }

    fn poll(&mut self) {
        let now = self.now;
        let before = self.rxcap - self.sock_ref().recv_queue();
        let n0 = self.dev.n_rx;
        let limit = if self.device_busy { Some(0) } else { self.next_budget.take() };
        self.dev.tx_budget = Some(limit.unwrap_or(POLL_TX_BUDGET + 2 * self.dev.rx.len()));
        let st0 = self.sock_ref().state();
        let q0 = self.sock_ref().recv_queue();
        let (edge0, edge0u) = (self.edge_max.unwrap_or(0), self.edge_unclamped.unwrap_or(0));
        self.iface.poll(Instant::from_micros(now), &mut self.dev, &mut self.sockets);
        let ingested = self.dev.n_rx - n0;
        self.account_ingested(ingested, edge0, edge0u);
        if st0 == tcp::State::TimeWait && self.sock_ref().state() == tcp::State::Closed && q0 > 0 && self.sock_ref().recv_queue() == 0 {
            let d = format!("case {} t={}us: TIME-WAIT expired and the socket discarded {} received bytes the application had not read yet (recv can never return them or Finished)", self.id, now, q0);
            self.out.fail("c02-timewait-discards-unread", d);
        }
        let livelock = self.dev.tx_budget == Some(0) && limit.is_none();
        let refused = self.dev.tx_budget == Some(0) && limit.is_some();
        self.dev.tx_budget = None;
        let rx_n = self.dev.n_rx - n0;
        let mut frames = self.dev.drain_tx();
        self.last_tx_n = frames.len();
        if !frames.is_empty() || rx_n > 0 {
            self.silent_deadline_polls = 0;
        }
        if livelock {
            let d = format!("case {} t={}us: one Interface::poll transmitted {} frames and was still going (it never returns on a device that always accepts frames); {}", self.id, now, POLL_TX_BUDGET, self.describe());
            self.out.fail("c03-poll-never-returns", d);
            frames.truncate(3);
        }
        let after = self.rxcap - self.sock_ref().recv_queue();
        self.refresh();
        self.out.bump("polls", 1);
        if self.tracing {
            let d = self.describe();
            self.tr(format!("poll rx={} tx={} -> {}", rx_n, frames.len(), d));
        }
        let spin = if refused { Ok(()) } else { spin_check(Instant::from_micros(now), rx_n, frames.len(), self.deadline.map(Instant::from_micros)) };
        if let Err(m) = spin {
            if self.last_poll_t == now {
                self.idle_here += 1;
            } else {
                self.idle_here = 1;
            }
            if self.idle_here >= 2 {
                let d = format!("case {}: {}; {}", self.id, m, self.describe());
                self.out.fail("c13-spin", d);
            }
        } else {
            self.idle_here = 0;
        }
        self.last_poll_t = now;
        for f in frames {
            self.out.bump("frames", 1);
            if let Err(m) = validate_frame(Medium::Ip, &f, &[self.sock_addr], self.dev.mtu) {
                let c = c10_class(&m);
                self.out.fail(&c, format!("case {} t={}us: {} frame={}", self.id, now, m, crate::hex(&f[..f.len().min(80)])));
            }
            let Some(s) = parse_tcp(Medium::Ip, &f) else { continue };
            let sq = self.sock_ref().send_queue() as i64;
            let cx = TxCtx { written: self.written, closed: self.closed, una: self.written as i64 - sq + matches!(self.sock_ref().state(), tcp::State::FinWait2 | tcp::State::TimeWait | tcp::State::Closed) as i64, rxfree_before: before, rxfree_after: after, ip_mtu: self.ip_mtu, keep_alive: self.keep_alive, had_rx: rx_n > 0, max_burst: self.dev.max_burst, dev_mtu: self.dev.mtu };
            let who = format!("case {} t={}us socket:", self.id, now);
            self.txo.on_emitted(&f, &s, &cx, &mut self.out, &who);
            if self.tracing {
                let b = seg_brief(&s, self.txo.iss, Some(self.irs));
                self.tr(format!("  socket tx {}", b));
            }
            self.on_socket_segment(&s, after);
        }
        self.deadline_invariant("after poll");
        if matches!(self.sock_ref().state(), tcp::State::FinWait2 | tcp::State::TimeWait) && self.txo.fin_off.is_none() && !self.peer_acked_unsent {
            let d = format!("case {} t={}us: state {} (own FIN acknowledged) although the socket never emitted a FIN; {}", self.id, now, state_name(self.sock_ref().state()), self.describe());
            self.out.fail("c02-fin-acked-never-sent", d);
        }
    }

    /// the interface took `n` frames from the device: write the receiver oracle's books for the peer
    /// segments among them, with the right edge the socket had advertised before that poll
    fn account_ingested(&mut self, n: usize, edge: i64, edge_unclamped: i64) {
        for _ in 0..n {
            let Some(m) = self.rxq_meta.pop_front() else { break };
            let Some((so, len, fin)) = m else { continue };
            for o in so..so + len {
                self.sent[o as usize] = true;
                if o < edge {
                    self.inwin[o as usize] = true;
                }
                if o < edge_unclamped {
                    self.inbuf[o as usize] = true;
                }
            }
            if fin {
                self.fin_sent = true;
                if so + len <= edge {
                    self.fin_inwin = true;
                }
                if so + len <= edge_unclamped {
                    self.fin_inbuf = true;
                }
            }
        }
    }

    /// receiver-side oracle on a segment the socket emitted
    fn on_socket_segment(&mut self, s: &Seg, free: usize) {
        if s.has(F_RST) {
            return;
        }
        if s.has(F_SYN) {
            self.sock_ws = s.ws;
            self.shift = match (s.ws, self.pws) {
                (Some(w), Some(_)) => w as u32,
                _ => 0,
            };
            if s.has(F_ACK) && !self.peer_syn_sent {
                let d = format!("case {}: SYN-ACK although the peer never sent a SYN", self.id);
                self.out.fail("c04-ack-ahead", d);
            }
        }
        if let Some((v, _)) = s.ts {
            self.ts_ecr = v;
        }
        if !s.has(F_ACK) {
            return;
        }
        let a = seqdiff(s.ack, self.irs.wrapping_add(1));
        let edge = a + ((s.win as i64) << if s.has(F_SYN) { 0 } else { self.shift });
        // keep-alives and window probes (one payload byte) do not update the socket's own record of
        // what it advertised; the socket may still be using the previous, larger edge
        // what the socket itself recorded as advertised (before iface/packet.rs clamped the field)
        let sh = self.shift;
        let own = if s.has(F_SYN) { ((free.min(65535) >> sh) << sh) as i64 } else { ((free >> sh).min(65535) << sh) as i64 };
        let edge_u = (a + own).max(edge);
        if s.pay_len == 1 {
            self.edge_max = Some(self.edge_max.map_or(edge, |e| e.max(edge)));
            self.edge_unclamped = Some(self.edge_unclamped.map_or(edge_u, |e| e.max(edge_u)));
        } else {
            self.edge_max = Some(edge);
            self.edge_unclamped = Some(edge_u);
        }
        self.last_ack = a;
        self.last_win = (s.win as i64) << if s.has(F_SYN) { 0 } else { self.shift };
        if s.win == 0 && !s.has(F_SYN) {
            self.out.stats.insert("runs_zero_window".into(), 1);
        }
        // acknowledgment number never covers a byte or FIN that was not (legitimately) received
        let p_in = Self::prefix(&self.inwin);
        let legal = p_in + if self.fin_inwin && p_in == self.f_len { 1 } else { 0 };
        if a > legal {
            let p_sent = Self::prefix(&self.sent);
            let d = format!(
                "case {} t={}us: socket acknowledges stream offset {} but only {} contiguous bytes{} were delivered inside its advertised window ({} contiguous bytes were sent at all; peer FIN position {}, FIN sent={})",
                self.id,
                self.now,
                a,
                p_in,
                if self.fin_inwin && p_in == self.f_len { " + FIN" } else { "" },
                p_sent,
                self.f_len,
                self.fin_sent
            );
            // max_burst_size: is the excess explained by the unclamped window the socket computed?
            let p_buf = Self::prefix(&self.inbuf);
            let legal_buf = p_buf + if self.fin_inbuf && p_buf == self.f_len { 1 } else { 0 };
            if self.dev.max_burst.is_some() && a <= legal_buf {
                let d = format!(
                    "case {} t={}us: max_burst_size = {:?}: socket acknowledges stream offset {}; only {} contiguous bytes arrived inside the (clamped) window field it put on the wire, the rest inside the unclamped window it computed (buffer room)",
                    self.id, self.now, self.dev.max_burst, a, p_in
                );
                self.out.fail("c04-accepts-beyond-burst-clamped-window", d);
            } else {
                self.out.fail("c04-ack-ahead", d);
            }
        }
    }

    /// the scripted peer sends one segment; the interface is polled right away
    fn peer_send(&mut self, so: i64, len: i64, fin: bool, psh: bool, syn: bool, ack_off: Option<i64>, win: u16) {
        let seq = if syn { self.irs } else { self.irs.wrapping_add(1).wrapping_add(so as u32) };
        let mut payload = Vec::with_capacity(len as usize);
        for j in 0..len {
            payload.push(byte_b((so + j) as u64));
        }
        let ack = match (ack_off, self.txo.iss) {
            (Some(a), Some(iss)) => Some(iss.wrapping_add(1).wrapping_add(a as u32)),
            _ => None,
        };
        self.ts_val = self.ts_val.wrapping_add(1);
        let ts = if self.pts { Some((self.ts_val, self.ts_ecr)) } else { None };
        let opts = if syn { tcp_opts(self.pmss, self.pws, self.psack, ts) } else { tcp_opts(None, None, false, ts) };
        let flags = if syn { F_SYN } else { 0 } | if fin { F_FIN } else { 0 } | if psh { F_PSH } else { 0 };
        let pkt = build_tcp(&self.peer_addr, &self.sock_addr, self.peer_port, self.sock_port, seq, ack, flags, win, &opts, &payload);
        // frames a back-pressured device left queued are ingested first, so that this segment meets
        // the window the socket advertises now (at most one peer segment per poll)
        if !self.dev.rx.is_empty() {
            let b = self.next_budget.take();
            while !self.dev.rx.is_empty() && !self.device_busy {
                self.poll();
            }
            self.next_budget = b;
        }
        if syn {
            self.peer_syn_sent = true;
        } else if let Some(a) = ack_off {
            if a > self.txo.fin_off.map_or(self.txo.snd_max, |f| f + 1) {
                self.peer_acked_unsent = true;
            }
        }
        self.rxq_meta.push_back(if syn { None } else { Some((so, len, fin)) });
        let uncertain = self.next_budget.is_some() || self.device_busy;
        let seg = parse_tcp(Medium::Ip, &pkt).expect("own segment parses");
        let cx = {
            let s = self.sock_ref();
            let st = s.state();
            let fin = matches!(st, tcp::State::CloseWait | tcp::State::LastAck | tcp::State::Closing | tcp::State::TimeWait) as i64;
            RxCtx { una: self.written as i64 - s.send_queue() as i64, sendq: s.send_queue() as i64, rcv_nxt: self.read as i64 + s.recv_queue() as i64 + fin, state: st }
        };
        self.txo.on_delivered(&seg, if uncertain { None } else { Some(&cx) });
        if self.tracing {
            let b = seg_brief(&seg, Some(self.irs), self.txo.iss);
            self.tr(format!("peer tx {}", b));
        }
        self.dev.rx.push_back(pkt);
        if std::mem::take(&mut self.next_ping) {
            // competing traffic right behind the segment: the interface answers it by itself
            let e = build_echo_request(&self.peer_addr, &self.sock_addr, 0x7e57, self.ts_val as u16, 8);
            self.dev.rx.push_back(e);
            self.rxq_meta.push_back(None);
            self.tr("peer tx ICMP echo request".into());
        }
        if self.ingress_only {
            // the application drives ingress and egress separately (poll_ingress_single / poll_egress)
            let (n0, edge0, edge0u) = (self.dev.n_rx, self.edge_max.unwrap_or(0), self.edge_unclamped.unwrap_or(0));
            self.iface.poll_ingress_single(Instant::from_micros(self.now), &mut self.dev, &mut self.sockets);
            let n = self.dev.n_rx - n0;
            self.account_ingested(n, edge0, edge0u);
            let frames = self.dev.drain_tx();
            for f in frames {
                if let Some(s) = parse_tcp(Medium::Ip, &f) {
                    if self.tracing {
                        let b = seg_brief(&s, self.txo.iss, Some(self.irs));
                        self.tr(format!("  socket tx (ingress reply) {}", b));
                    }
                    let free = self.rxcap - self.sock_ref().recv_queue();
                    self.on_socket_segment(&s, free);
                }
            }
            self.refresh();
            self.deadline_invariant("after poll_ingress_single");
        } else {
            self.poll();
        }
    }

    fn peer_send_raw(&mut self, so: i64, len: i64, fin: bool, ack_off: Option<i64>, win: u16) {
        let seq = self.irs.wrapping_add(1).wrapping_add(so as u32);
        let payload: Vec<u8> = (0..len).map(|j| byte_b((so + j) as u64)).collect();
        let ack = match (ack_off, self.txo.iss) {
            (Some(a), Some(iss)) => Some(iss.wrapping_add(1).wrapping_add(a as u32)),
            _ => None,
        };
        let pkt = build_tcp(&self.peer_addr, &self.sock_addr, self.peer_port, self.sock_port, seq, ack, if fin { F_FIN } else { 0 }, win, &[], &payload);
        if self.tracing {
            self.tr(format!("peer tx RAW seq={}(off {}) len={} fin={}", seq, so, len, fin));
        }
        self.dev.rx.push_back(pkt);
        self.rxq_meta.push_back(None);
        self.poll();
    }

    fn app_recv(&mut self, n: usize) {
        let mut buf = vec![0u8; n];
        let r = self.sock().recv_slice(&mut buf);
        match r {
            Ok(k) => {
                for j in 0..k {
                    let o = self.read + j as u64;
                    let w = byte_b(o);
                    if (o as i64) >= self.f_len || buf[j] != w {
                        let d = format!("case {} t={}us: byte {} handed out by recv is {:#04x}; the peer's byte there is {}", self.id, self.now, o, buf[j], if (o as i64) < self.f_len { format!("{:#04x}", w) } else { "beyond its FIN".into() });
                        self.out.fail("c04-stream-corrupt", d);
                        break;
                    }
                    if !self.inwin[o as usize] {
                        if self.dev.max_burst.is_some() && self.inbuf[o as usize] {
                            let d = format!("case {} t={}us: max_burst_size = {:?}: byte {} was delivered to the application; it arrived beyond the (clamped) window field on the wire but inside the unclamped window the socket computed", self.id, self.now, self.dev.max_burst, o);
                            self.out.fail("c04-accepts-beyond-burst-clamped-window", d);
                        } else {
                            let d = format!("case {} t={}us: byte {} was delivered to the application although it never arrived inside the advertised window", self.id, self.now, o);
                            self.out.fail("c04-beyond-window", d);
                        }
                        break;
                    }
                }
                self.read += k as u64;
                self.tr(format!("app recv {} -> {} (total {})", n, k, self.read));
            }
            Err(tcp::RecvError::Finished) => {
                if !self.finished && !(self.fin_sent && self.read as i64 == self.f_len) {
                    let d = format!("case {} t={}us: recv = Finished after {} bytes; the peer's FIN is at {} (FIN sent={})", self.id, self.now, self.read, self.f_len, self.fin_sent);
                    self.out.fail("c04-finished-early", d);
                }
                self.finished = true;
                self.tr(format!("app recv {} -> Finished (total {})", n, self.read));
            }
            Err(tcp::RecvError::InvalidState) => {
                self.tr(format!("app recv {} -> InvalidState", n));
            }
        }
        self.refresh();
        self.deadline_invariant("after recv");
    }

    fn app_send(&mut self, n: usize) {
        let data: Vec<u8> = (0..n).map(|j| byte_a(self.written + j as u64)).collect();
        let r = self.sock().send_slice(&data);
        if let Ok(k) = r {
            self.written += k as u64;
            self.tr(format!("app send {} -> {} (total {})", n, k, self.written));
        } else {
            self.tr(format!("app send {} -> InvalidState", n));
        }
        self.refresh();
        self.deadline_invariant("after send");
    }

    pub fn step(&mut self, op: &str) {
        self.out.ops.push(op.to_string());
        let t: Vec<&str> = op.split_whitespace().collect();
        let kv = |k: &str| -> Option<&str> { t.iter().find_map(|x| x.strip_prefix(k).and_then(|r| r.strip_prefix('='))) };
        if let Some(b) = kv("budget") {
            self.next_budget = Some(b.parse().expect("budget"));
        }
        self.next_ping = kv("ping") == Some("1");
        match t[0] {
            "open" => {
                if self.listen {
                    let p = self.sock_port;
                    self.sock().listen(p).expect("listen");
                } else {
                    let (pa, pp, sp) = (self.peer_addr, self.peer_port, self.sock_port);
                    let s = self.sockets.get_mut::<tcp::Socket>(self.h);
                    s.connect(self.iface.context(), (pa, pp), sp).expect("connect");
                }
                self.refresh();
                // `open nopoll`: the socket call only; the first poll comes with a later op
                if t.get(1) != Some(&"nopoll") {
                    self.poll();
                }
            }
            "syn" => {
                let win: u16 = kv("win").map(|v| v.parse().unwrap()).unwrap_or(65535);
                // SYN (listen role) or SYN-ACK (connect role; `bare=1`: a SYN without ACK, i.e. a
                // simultaneous open)
                let ack = if (self.listen || kv("bare") == Some("1")) && kv("ack") != Some("1") { None } else { Some(0) };
                // `mss=-|<n>` overrides the case's peer MSS for this SYN (a different peer after a reset)
                if let Some(m) = kv("mss") {
                    self.pmss = if m == "-" { None } else { Some(m.parse().expect("mss")) };
                }
                self.peer_send(0, 0, false, false, true, ack, win);
            }
            "seg" => {
                let so: i64 = kv("so").unwrap().parse().unwrap();
                let mut len: i64 = kv("len").unwrap().parse().unwrap();
                let fl = kv("fl").unwrap_or("-");
                let ao: Option<i64> = match kv("ao") {
                    None | Some("-") => None,
                    Some(v) => Some(v.parse().unwrap()),
                };
                let win: u16 = kv("win").map(|v| v.parse().unwrap()).unwrap_or(1000);
                // keep the peer consistent whatever the (possibly shrunk) script says
                let so = so.clamp(0, self.f_len);
                len = len.clamp(0, self.f_len - so);
                let fin = fl.contains('F') && so + len == self.f_len;
                self.peer_send(so, len, fin, fl.contains('P'), false, ao, win);
            }
            "rst" => {
                // the peer resets the connection (sequence number = its SND.NXT as the socket knows it)
                let seq = self.irs.wrapping_add(1);
                let pkt = build_tcp(&self.peer_addr, &self.sock_addr, self.peer_port, self.sock_port, seq, None, F_RST, 0, &[], &[]);
                self.tr(format!("peer tx [R] seq={}", seq));
                self.dev.rx.push_back(pkt);
                self.rxq_meta.push_back(None);
                self.poll();
                if self.sock_ref().state() == tcp::State::Listen {
                    // next SYN starts a new connection: new peer ISN, fresh books
                    self.peer_syn_sent = false;
                    self.txo.new_incarnation();
                    self.edge_max = None;
                    self.last_ack = 0;
                    if let Some(v) = kv("irs") {
                        self.irs = v.parse().expect("irs");
                    }
                }
            }
            "rawseg" => {
                // a segment anywhere in the sequence space (not clamped to the peer's stream, not
                // entered into the oracle's books: whatever of it is acknowledged or delivered is a
                // violation unless the stream really has those bytes there)
                let so: i64 = kv("so").unwrap().parse().unwrap();
                let len: i64 = kv("len").unwrap().parse().unwrap();
                let ao: Option<i64> = match kv("ao") {
                    None | Some("-") => None,
                    Some(v) => Some(v.parse().unwrap()),
                };
                let win: u16 = kv("win").map(|v| v.parse().unwrap()).unwrap_or(1000);
                let fl = kv("fl").unwrap_or("-");
                self.peer_send_raw(so, len, fl.contains('F'), ao, win);
            }
            "ingress-only" => self.ingress_only = t.get(1) == Some(&"on"),
            "device-busy" => self.device_busy = t.get(1) == Some(&"on"),
            "recv" => self.app_recv(t[1].parse().unwrap()),
            "send" => self.app_send(t[1].parse().unwrap()),
            "close" => {
                self.sock().close();
                self.closed = true;
                self.tr("app close".into());
                self.refresh();
                self.deadline_invariant("after close");
            }
            "poll" => {
                let dt: i64 = t[1].parse().unwrap();
                self.now += dt;
                self.poll();
            }
            "pollat" => {
                // advance to the deadline the interface reported (bounded), then poll
                let mut at_deadline = false;
                let owing = has_unacked(self.sock_ref());
                if let Some(d) = self.deadline {
                    let cap: i64 = t.iter().skip(1).find_map(|v| v.parse().ok()).unwrap_or(120_000_000);
                    self.now = d.clamp(self.now, self.now + cap);
                    at_deadline = self.now >= d;
                }
                let limited = self.next_budget.is_some() || self.device_busy;
                self.poll();
                // a timer that fires while something is unacknowledged must eventually put a frame on
                // the wire (retransmission, probe); a finite deadline alone is not progress
                if at_deadline && owing && !limited && self.last_tx_n == 0 {
                    self.silent_deadline_polls += 1;
                    if self.silent_deadline_polls >= 4 {
                        let d = format!("case {} t={}us: {} polls in a row at the instant poll_at asked for, data/SYN/FIN unacknowledged, and none transmitted anything; {}", self.id, self.now, self.silent_deadline_polls, self.describe());
                        self.out.fail("c02-stall", d);
                    }
                } else {
                    self.silent_deadline_polls = 0;
                }
            }
            x => panic!("bad rx op {}", x),
        }
    }

    /// next op of the adversarial script, chosen from what the peer can observe
    pub fn gen_op(&self, rng: &mut Rng) -> String {
        let st = self.sock_ref().state();
        if !self.peer_syn_sent {
            // connect role: the socket's SYN must be on the wire first
            if !self.listen && self.txo.iss.is_none() {
                return "poll 0".into();
            }
            let win = *rng.pick(&[65535u16, 0, 1, 100, 536, 4000, 20000]);
            return format!("syn win={}", win);
        }
        let f = self.f_len;
        let acked = self.last_ack.min(f);
        let edge = self.edge_max.unwrap_or(0);
        let snd_top = self.txo.fin_off.map_or(self.txo.snd_max, |x| x + 1);
        let k = rng.below(100);
        if k < 58 {
            let span = (self.rxcap as i64).max(8);
            let small = |rng: &mut Rng| rng.range(0, 12);
            let so = match rng.below(14) {
                0..=3 => acked,
                4 => acked - small(rng),
                5 => acked + small(rng),
                6 => acked + rng.range(0, span),
                7 => edge - small(rng),
                8 => edge,
                9 => edge + small(rng),
                10 => edge + rng.range(0, 2 * span + 70000),
                11 => rng.range(0, f.max(1)),
                12 => f - small(rng),
                _ => acked - rng.range(0, span),
            }
            .clamp(0, f);
            let len = match rng.below(10) {
                0 => 0,
                1 | 2 => rng.range(1, 8),
                3 => (edge - so).max(0),
                4 => (edge - so + rng.range(-3, 3)).max(0),
                5 => f - so,
                6 => 1460,
                _ => rng.range(1, 1400),
            }
            .clamp(0, (f - so).min(1460));
            let fl = match (so + len == f && rng.chance(3, 4), rng.chance(1, 4)) {
                (true, true) => "FP",
                (true, false) => "F",
                (false, true) => "P",
                _ => "-",
            };
            let ao = match rng.below(12) {
                0 => rng.range(0, snd_top.max(0)),
                // beyond everything the application even wrote: unacceptable for any implementation
                // (an ACK for written-but-never-sent data is not something a consistent peer emits)
                1 => self.written as i64 + 2 + rng.range(0, 3000),
                2 => self.txo.snd_max,
                _ => snd_top,
            };
            let win = match rng.below(8) {
                0 | 1 => 0,
                2 => rng.range(1, 40) as u16,
                3 => rng.range(40, 2000) as u16,
                4 => 65535,
                _ => rng.range(500, 30000) as u16,
            };
            // device back-pressure: competing traffic behind the segment and one or two tx tokens
            let bp = if self.gen_bp && rng.chance(1, 5) { format!(" ping=1 budget={}", rng.range(1, 2)) } else { String::new() };
            format!("seg so={} len={} fl={} ao={} win={}{}", so, len, fl, ao, win, bp)
        } else if k < 78 {
            let n = match rng.below(4) {
                0 => rng.range(1, 8),
                1 => rng.range(1, 600),
                _ => rng.range(1, (self.rxcap as i64).min(70000)),
            };
            format!("recv {}", n)
        } else if k < 90 {
            if rng.chance(1, 2) {
                "pollat".into()
            } else {
                let bp = if self.gen_bp && rng.chance(1, 5) { format!(" budget={}", rng.range(0, 1)) } else { String::new() };
                format!("poll {}{}", *rng.pick(&[0i64, 1, 1000, 10_000, 10_001, 100_000, 1_000_000, 3_000_000, 11_000_000]), bp)
            }
        } else if k < 97 {
            if self.written < self.nsend && matches!(st, tcp::State::Established | tcp::State::CloseWait) {
                format!("send {}", rng.range(1, 1 + (self.nsend - self.written) as i64))
            } else {
                "recv 64".into()
            }
        } else if !self.closed && rng.chance(1, 2) && !matches!(st, tcp::State::Listen | tcp::State::SynSent | tcp::State::Closed | tcp::State::SynReceived) {
            "close".into()
        } else {
            "pollat".into()
        }
    }

    pub fn finish(mut self) -> RunOut {
        self.out.bump("runs", 1);
        self.out.bump("runs_rx", 1);
        if self.finished || self.read as i64 == self.f_len {
            self.out.bump("completed", 1);
        }
        let t = &self.txo;
        let (r, fr, d, p) = (t.n_rto, t.n_fast, t.n_data, t.n_probe);
        self.out.bump("rto_retransmits", r);
        self.out.bump("fast_retransmits", fr);
        self.out.bump("data_segments", d);
        self.out.bump("zero_window_probes", p);
        self.out.bump("bytes", self.read);
        self.out.bump("runs_rto", (r > 0) as u64);
        self.out.bump("runs_fast_retransmit", (fr > 0) as u64);
        let top = self.irs as u64 + self.read + 2;
        self.out.bump("runs_wrap_2_31", ((self.irs as u64) < 0x8000_0000 && top >= 0x8000_0000) as u64);
        self.out.bump("runs_wrap_2_32", (top >= 0x1_0000_0000) as u64);
        self.out
    }
}

/// Run an `rx` case: explicit ops if the case has any, otherwise generate `nops` ops in the loop
/// (the executed ops are recorded in `RunOut::ops`, so a failing run can be printed explicitly).
pub fn run_rx_case(c: &Case, tracing: bool) -> RunOut {
    let mut sim = RxSim::new(c, tracing);
    if !c.ops.is_empty() {
        for op in &c.ops {
            sim.step(op);
        }
    } else {
        let seed: u64 = c.get("seed").map(|v| v.parse().expect("seed")).unwrap_or(1);
        let mut rng = Rng::new(seed ^ 0xC04);
        sim.step("open");
        let nops = c.get_i("nops", 40);
        for _ in 0..nops {
            let op = sim.gen_op(&mut rng);
            sim.step(&op);
            if sim.out.fails.iter().any(|(c, _)| c.starts_with("c04-")) {
                break;
            }
        }
        // liveness tail: the peer stays silent; while something is unacknowledged the socket's timers
        // must keep producing retransmissions / probes
        for _ in 0..6 {
            if !has_unacked(sim.sock_ref()) || sim.deadline.is_none() {
                break;
            }
            sim.step("pollat");
        }
    }
    sim.finish()
}
