//! Shared helpers for the correspondence / oracle harness binaries.
//!
//! Conventions (DESIGN.md App. B): a *case* is a block of text
//!   case <id> <k=v ...>
//!   <one op per line>
//!   end
//! Each binary `h_<stream>` understands the subcommands
//!   gen <seed> <n> [tier]      -> cases on stdout (deterministic in seed)
//!   run                         -> reads cases on stdin, prints `case <id>` + one
//!                                  observation line per op (implementation side)
//!   oracle <seed> <n> [tier]   -> implementation-side property search; prints
//!                                  `FAIL <class> :: <detail>` lines and a final `STATS {json}`
//! All randomness comes from one SplitMix64 state.

pub mod dev;
pub mod tcpsim;

use std::io::{self, BufRead, Write};

#[derive(Clone)]
pub struct Rng(pub u64);

impl Rng {
    pub fn new(seed: u64) -> Rng {
        // scramble the seed so that consecutive seeds give unrelated streams
        let mut z = seed.wrapping_add(0x1234_5678_9ABC_DEF1);
        z = (z ^ (z >> 30)).wrapping_mul(0xBF58_476D_1CE4_E5B9);
        z = (z ^ (z >> 27)).wrapping_mul(0x94D0_49BB_1331_11EB);
        z ^= z >> 31;
        let mut r = Rng(z);
        r.next();
        Rng(r.next() ^ seed.rotate_left(17))
    }
    pub fn next(&mut self) -> u64 {
        self.0 = self.0.wrapping_add(0x9E37_79B9_7F4A_7C15);
        let mut z = self.0;
        z = (z ^ (z >> 30)).wrapping_mul(0xBF58_476D_1CE4_E5B9);
        z = (z ^ (z >> 27)).wrapping_mul(0x94D0_49BB_1331_11EB);
        z ^ (z >> 31)
    }
    /// uniform in [0, n)  (n > 0)
    pub fn below(&mut self, n: u64) -> u64 {
        self.next() % n
    }
    /// uniform in [lo, hi] inclusive
    pub fn range(&mut self, lo: i64, hi: i64) -> i64 {
        lo + (self.below((hi - lo + 1) as u64) as i64)
    }
    pub fn chance(&mut self, num: u64, den: u64) -> bool {
        self.below(den) < num
    }
    pub fn pick<'a, T>(&mut self, xs: &'a [T]) -> &'a T {
        &xs[self.below(xs.len() as u64) as usize]
    }
    pub fn bytes(&mut self, n: usize) -> Vec<u8> {
        (0..n).map(|_| self.next() as u8).collect()
    }
}

pub fn hex(b: &[u8]) -> String {
    if b.is_empty() {
        return "-".to_string();
    }
    let mut s = String::with_capacity(b.len() * 2);
    for x in b {
        s.push_str(&format!("{:02x}", x));
    }
    s
}

pub fn unhex(s: &str) -> Vec<u8> {
    if s == "-" {
        return vec![];
    }
    (0..s.len() / 2)
        .map(|i| u8::from_str_radix(&s[2 * i..2 * i + 2], 16).expect("hex"))
        .collect()
}

/// A parsed case: id, config key/values, op lines.
#[derive(Clone, Debug)]
pub struct Case {
    pub id: String,
    pub cfg: Vec<(String, String)>,
    pub ops: Vec<String>,
}

impl Case {
    pub fn get(&self, k: &str) -> Option<&str> {
        self.cfg.iter().find(|(a, _)| a == k).map(|(_, v)| v.as_str())
    }
    pub fn get_i(&self, k: &str, default: i64) -> i64 {
        self.get(k).map(|v| v.parse().expect("int cfg")).unwrap_or(default)
    }
    pub fn write(&self, w: &mut dyn Write) {
        let mut h = format!("case {}", self.id);
        for (k, v) in &self.cfg {
            h.push_str(&format!(" {}={}", k, v));
        }
        writeln!(w, "{}", h).unwrap();
        for o in &self.ops {
            writeln!(w, "{}", o).unwrap();
        }
        writeln!(w, "end").unwrap();
    }
}

pub fn read_cases(r: &mut dyn BufRead) -> Vec<Case> {
    let mut out = vec![];
    let mut cur: Option<Case> = None;
    for line in r.lines() {
        let line = line.unwrap();
        let line = line.trim();
        if line.is_empty() || line.starts_with('#') {
            continue;
        }
        if let Some(rest) = line.strip_prefix("case ") {
            let mut it = rest.split_whitespace();
            let id = it.next().unwrap().to_string();
            let cfg = it
                .map(|kv| {
                    let (k, v) = kv.split_once('=').expect("k=v");
                    (k.to_string(), v.to_string())
                })
                .collect();
            cur = Some(Case { id, cfg, ops: vec![] });
        } else if line == "end" {
            out.push(cur.take().expect("end without case"));
        } else {
            cur.as_mut().expect("op outside case").ops.push(line.to_string());
        }
    }
    out
}

pub fn stdin_cases() -> Vec<Case> {
    let stdin = io::stdin();
    let mut l = stdin.lock();
    read_cases(&mut l)
}

/// Run `f`, mapping a panic to None (the default panic message is suppressed).
pub fn catch<T>(f: impl FnOnce() -> T + std::panic::UnwindSafe) -> Option<T> {
    std::panic::catch_unwind(f).ok()
}

pub fn quiet_panics() {
    std::panic::set_hook(Box::new(|_| {}));
}

/// Standard argument handling: returns (subcommand, seed, n, tier).
pub fn args() -> (String, u64, usize, String) {
    let a: Vec<String> = std::env::args().collect();
    let sub = a.get(1).cloned().unwrap_or_else(|| "run".into());
    let seed = a.get(2).and_then(|s| s.parse().ok()).unwrap_or(1);
    let n = a.get(3).and_then(|s| s.parse().ok()).unwrap_or(100);
    let tier = a.get(4).cloned().unwrap_or_else(|| "quick".into());
    (sub, seed, n, tier)
}

/// Minimal JSON string escaping for STATS lines.
pub fn jstr(s: &str) -> String {
    let mut o = String::from("\"");
    for c in s.chars() {
        match c {
            '"' => o.push_str("\\\""),
            '\\' => o.push_str("\\\\"),
            '\n' => o.push_str("\\n"),
            c if (c as u32) < 0x20 => o.push_str(&format!("\\u{:04x}", c as u32)),
            c => o.push(c),
        }
    }
    o.push('"');
    o
}
